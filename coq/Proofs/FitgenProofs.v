(* C19: the row -> (struct field, lookup entry) mapping of the fitgen model. *)
From Coq Require Import NArith List String Ascii Bool Lia.
From FitV Require Import Model.FitgenCore Spec.FitgenSpec.
Import ListNotations.
Local Open Scope string_scope.
Local Open Scope N_scope.

(* ---- side conditions under which "the row's base type / array flag" as read
   off the profile (Spec) is what the code computes.  They are decidable and
   evaluated by the harness on every enabled row of every case. *)
Definition opt_eqb (a b : option N) : bool :=
  match a, b with
  | Some x, Some y => x =? y
  | None, None => true
  | _, _ => false
  end.

(* resolution of a type cell by Go identifier in the generator's type map ... *)
Definition model_named_base (types : tmap) (tc : string) : option N :=
  match assoc (camel (type_quirk tc)) types with
  | Some b => Some b
  | None => base_from_string tc
  end.
(* ... and by profile name among the declared types *)
Definition spec_named_base (tdecl : list (string * string)) (tc : string) : option N :=
  match lookup tc tdecl with
  | Some b => lookup b fit_base_types
  | None => lookup tc fit_base_types
  end.

Definition starts_slice (s : string) : bool :=
  match s with String "["%char (String "]"%char _) => true | _ => false end.

Definition row_hyp (types : tmap) (tdecl : list (string * string)) (r : row) : bool :=
  let tc := r_type r in
  (* the array cell is not a literal 0 (the code would take [0] for "no array") *)
  negb (String.eqb (trim is_bracket (r_array r)) "0")
  && match is_coordinate (r_name r) with
     | Some _ => opt_eqb (s_base tdecl r) (Some 0x85)        (* coordinates are declared sint32 *)
     | None =>
         match is_timestamp tc with
         | Some _ => opt_eqb (s_base tdecl r) (Some 0x86)    (* date_time types are declared uint32 *)
         | None =>
             if String.eqb (camel (type_quirk tc)) "Bool"
             then String.eqb tc "bool" && negb (s_is_array r) (* bool is spelled bool; the code types a bool array as Bool *)
             else opt_eqb (model_named_base types tc) (spec_named_base tdecl tc)
                  && negb (starts_slice (camel (type_quirk tc)))
         end
     end.

(* all enabled field rows of the sheet *)
Definition sheet_hyp (tsheet msheet : list row) : bool :=
  match gen_tmap tsheet with
  | Err _ => false
  | Ok types =>
      forallb (fun g => forallb (fun r => negb (s_enabled r) || row_hyp types (s_tdecl tsheet) r) (snd g)) (s_groups msheet)
  end.

Definition sheet_hyp_count (msheet : list row) : N :=
  fold_right (fun g n => N.of_nat (List.length (filter s_enabled (snd g))) + n) 0 (s_groups msheet).

(* ================= string helpers ================= *)
Lemma is_empty_eqb s : is_empty s = String.eqb s "".
Proof. destruct s; reflexivity. Qed.

Lemma nonempty_is_empty s : nonempty s = negb (is_empty s).
Proof. unfold nonempty. now rewrite is_empty_eqb. Qed.

Fixpoint all_chars (p : ascii -> bool) (s : string) : bool :=
  match s with EmptyString => true | String c r => p c && all_chars p r end.

Lemma rtrim_empty p s : is_empty (rtrim p s) = all_chars p s.
Proof.
  induction s as [|c r IH]; simpl; [reflexivity|].
  rewrite <- IH. destruct (is_empty (rtrim p r)) eqn:E; destruct (p c); simpl; try reflexivity.
  all: try now rewrite E.
Qed.

Lemma ltrim_all p s : all_chars p (ltrim p s) = all_chars p s.
Proof.
  induction s as [|c r IH]; simpl; [reflexivity|].
  destruct (p c) eqn:E; simpl; [exact IH|now rewrite E].
Qed.

Lemma trim_empty p s : is_empty (trim p s) = all_chars p s.
Proof. unfold trim. now rewrite rtrim_empty, ltrim_all. Qed.

Lemma has_non_bracket_all s : has_non_bracket s = negb (all_chars is_bracket s).
Proof.
  induction s as [|c r IH]; simpl; [reflexivity|].
  rewrite IH. unfold is_bracket. destruct (Ascii.eqb c "["%char || Ascii.eqb c "]"%char); reflexivity.
Qed.

(* the array flag the code derives from the array cell is the spec's *)
Lemma parse_array_flag cell :
  String.eqb (trim is_bracket cell) "0" = false ->
  negb (String.eqb (parse_array cell) "0") = has_non_bracket cell.
Proof.
  intros H. unfold parse_array. rewrite has_non_bracket_all, <- trim_empty.
  destruct (is_empty (trim is_bracket cell)) eqn:E; simpl; [reflexivity|now rewrite H].
Qed.

(* ================= types.Fit codes ================= *)
Definition native_ok (b : N) (arr : bool) : bool :=
  let f := fit_make_native b arr in
  Bool.eqb (fit_array f) arr && Bool.eqb (code_array f) arr && (fit_base f =? b) && (code_base_num f =? base_num b)
  && (fit_kind f =? K_NATIVE) && Bool.eqb (starts_slice (fit_go_type f)) arr && (f <? 512).

Lemma base_tables_equal : base_table = fit_base_types.
Proof. reflexivity. Qed.

Lemma native_table_ok :
  forallb (fun nb => native_ok (snd nb) true && native_ok (snd nb) false) base_table = true.
Proof. vm_compute. reflexivity. Qed.

Lemma assoc_in {A} k (l : list (string * A)) v : assoc k l = Some v -> In (k, v) l.
Proof.
  induction l as [|[k' v'] t IH]; simpl; [discriminate|].
  destruct (String.eqb k k') eqn:E.
  - intros [= ->]. apply String.eqb_eq in E. subst. now left.
  - intros H. right. auto.
Qed.

Lemma assoc_lookup {A} k (l : list (string * A)) : assoc k l = lookup k l.
Proof. induction l as [|[k' v'] t IH]; simpl; [reflexivity|]. now rewrite IH. Qed.

Lemma native_ok_of_base s b arr : base_from_string s = Some b -> native_ok b arr = true.
Proof.
  intros H. apply assoc_in in H.
  pose proof native_table_ok as T. rewrite forallb_forall in T. specialize (T _ H). simpl in T.
  apply andb_prop in T. destruct T, arr; assumption.
Qed.

Definition kind_ok (k : N) (b : N) (arr : bool) : bool :=
  let f := fit_make k arr in
  Bool.eqb (fit_array f) arr && Bool.eqb (code_array f) arr && (fit_base f =? b) && (code_base_num f =? base_num b)
  && (fit_kind f =? k) && Bool.eqb (starts_slice (fit_go_type f)) arr && (f <? 512).

Lemma kinds_ok : forall arr,
  kind_ok K_TIMEUTC 0x86 arr = true /\ kind_ok K_TIMELOCAL 0x86 arr = true /\
  kind_ok K_LAT 0x85 arr = true /\ kind_ok K_LNG 0x85 arr = true.
Proof. intros []; vm_compute; auto. Qed.

(* ================= parseType against the spec ================= *)
Lemma opt_eqb_some a x : opt_eqb a (Some x) = true -> a = Some x.
Proof. destruct a as [y|]; simpl; [|discriminate]. intros H. apply N.eqb_eq in H. now subst. Qed.

Lemma opt_eqb_eq a b : opt_eqb a b = true -> a = b.
Proof. destruct a, b; simpl; try discriminate; auto. intros H. apply N.eqb_eq in H. now subst. Qed.

Lemma ends_with_has_suffix suf s : ends_with suf s = has_suffix suf s.
Proof. induction s as [|c r IH]; simpl; [reflexivity|]. now rewrite IH. Qed.

Lemma spec_named_in_table tdecl tc b : spec_named_base tdecl tc = Some b -> exists s, base_from_string s = Some b.
Proof.
  unfold spec_named_base, base_from_string. rewrite base_tables_equal.
  destruct (lookup tc tdecl) as [bs|]; intros H; eexists; rewrite assoc_lookup; exact H.
Qed.

Definition ftype_facts (tdecl : list (string * string)) (r : row) (ft : N) (tn : string) : Prop :=
  exists b, s_base tdecl r = Some b /\
    fit_base ft = b /\ code_base_num ft = base_num b /\
    fit_array ft = s_is_array r /\ code_array ft = s_is_array r /\
    fit_kind ft = s_kind r /\ starts_slice tn = s_is_array r /\ ft < 512.

Lemma native_facts b arr : native_ok b arr = true ->
  fit_array (fit_make_native b arr) = arr /\ code_array (fit_make_native b arr) = arr /\
  fit_base (fit_make_native b arr) = b /\ code_base_num (fit_make_native b arr) = base_num b /\
  fit_kind (fit_make_native b arr) = K_NATIVE /\ starts_slice (fit_go_type (fit_make_native b arr)) = arr /\
  fit_make_native b arr < 512.
Proof.
  unfold native_ok. intros H.
  repeat (apply andb_prop in H; destruct H as [H ?]).
  repeat match goal with
  | X : Bool.eqb _ _ = true |- _ => apply Bool.eqb_prop in X
  | X : (_ =? _) = true |- _ => apply N.eqb_eq in X
  | X : (_ <? _) = true |- _ => apply N.ltb_lt in X
  end. tauto.
Qed.

Lemma kind_facts k b arr : kind_ok k b arr = true ->
  fit_array (fit_make k arr) = arr /\ code_array (fit_make k arr) = arr /\
  fit_base (fit_make k arr) = b /\ code_base_num (fit_make k arr) = base_num b /\
  fit_kind (fit_make k arr) = k /\ starts_slice (fit_go_type (fit_make k arr)) = arr /\
  fit_make k arr < 512.
Proof.
  unfold kind_ok. intros H.
  repeat (apply andb_prop in H; destruct H as [H ?]).
  repeat match goal with
  | X : Bool.eqb _ _ = true |- _ => apply Bool.eqb_prop in X
  | X : (_ =? _) = true |- _ => apply N.eqb_eq in X
  | X : (_ <? _) = true |- _ => apply N.ltb_lt in X
  end. tauto.
Qed.

(* ftype_spec: under the side conditions, the types.Fit code and the Go type
   computed by parseType have the row's base type, array flag and kind *)
Theorem ftype_spec : forall types tdecl r ft tn,
  row_hyp types tdecl r = true ->
  parse_type types (r_name r) (parse_array (r_array r)) (r_type r) = Ok (ft, tn) ->
  ftype_facts tdecl r ft tn.
Proof.
  intros types tdecl r ft tn H P. unfold row_hyp in H.
  apply andb_prop in H. destruct H as [Ha H]. apply negb_true_iff in Ha.
  unfold parse_type in P.
  pose proof (parse_array_flag (r_array r) Ha) as AF.
  set (arr := negb (String.eqb (parse_array (r_array r)) "0")) in *.
  change (has_non_bracket (r_array r)) with (s_is_array r) in AF.
  unfold ftype_facts, s_kind. change (s_name r) with (r_name r). change (s_type r) with (r_type r).
  rewrite (ends_with_has_suffix "_lat"), (ends_with_has_suffix "_long").
  unfold is_coordinate in *.
  destruct (has_suffix "_lat" (r_name r)) eqn:E1.
  { apply opt_eqb_some in H. injection P as <- <-.
    destruct (kinds_ok arr) as (_ & _ & K & _). apply kind_facts in K.
    exists 0x85. rewrite <- AF. split; [exact H|]. change 3 with K_LAT. tauto. }
  destruct (has_suffix "_long" (r_name r)) eqn:E2.
  { apply opt_eqb_some in H. injection P as <- <-.
    destruct (kinds_ok arr) as (_ & _ & _ & K). apply kind_facts in K.
    exists 0x85. rewrite <- AF. split; [exact H|]. change 4 with K_LNG. tauto. }
  unfold is_timestamp in *.
  destruct (String.eqb (r_type r) "date_time") eqn:T1.
  { apply opt_eqb_some in H. injection P as <- <-.
    destruct (kinds_ok arr) as (K & _). apply kind_facts in K.
    exists 0x86. rewrite <- AF. split; [exact H|]. change 1 with K_TIMEUTC. tauto. }
  destruct (String.eqb (r_type r) "local_date_time") eqn:T2.
  { apply opt_eqb_some in H. injection P as <- <-.
    destruct (kinds_ok arr) as (_ & K & _). apply kind_facts in K.
    exists 0x86. rewrite <- AF. split; [exact H|]. change 2 with K_TIMELOCAL. tauto. }
  destruct (String.eqb (camel (type_quirk (r_type r))) "Bool") eqn:B.
  { apply andb_prop in H. destruct H as [Hb Hn]. apply negb_true_iff in Hn.
    injection P as <- <-. rewrite Hn in AF.
    exists 0. unfold s_base. change (s_type r) with (r_type r). rewrite Hb. split; [reflexivity|].
    rewrite AF, Hn. apply String.eqb_eq in B. rewrite B. vm_compute. repeat split; reflexivity. }
  apply andb_prop in H. destruct H as [Hm Hs]. apply negb_true_iff in Hs. apply opt_eqb_eq in Hm.
  assert (NB : String.eqb (r_type r) "bool" = false).
  { destruct (String.eqb (r_type r) "bool") eqn:E; [|reflexivity].
    apply String.eqb_eq in E. rewrite E in B. vm_compute in B. discriminate. }
  assert (SB : s_base tdecl r = spec_named_base tdecl (r_type r)).
  { unfold s_base. change (s_type r) with (r_type r). now rewrite NB. }
  unfold model_named_base in Hm.
  destruct (assoc (camel (type_quirk (r_type r))) types) as [b|] eqn:A.
  - injection P as <- <-. symmetry in Hm.
    destruct (spec_named_in_table _ _ _ Hm) as [s Hs'].
    pose proof (native_facts _ _ (native_ok_of_base s b arr Hs')) as F.
    exists b. rewrite SB, Hm, <- AF. split; [reflexivity|].
    assert (starts_slice (if arr then "[]" ++ camel (type_quirk (r_type r)) else camel (type_quirk (r_type r))) = arr).
    { destruct arr; [reflexivity|exact Hs]. }
    change 0 with K_NATIVE. tauto.
  - destruct (base_from_string (r_type r)) as [b|] eqn:Bs; [|discriminate].
    injection P as <- <-. symmetry in Hm.
    pose proof (native_facts _ _ (native_ok_of_base _ b arr Bs)) as F.
    exists b. rewrite SB, Hm, <- AF. split; [reflexivity|]. change 0 with K_NATIVE. tauto.
Qed.

(* ================= one message: rows -> fields ================= *)
Lemma skip_enabled r : skip_row false r = negb (s_enabled r).
Proof.
  unfold skip_row, s_enabled. change (s_example r) with (r_example r).
  rewrite andb_false_r. simpl. rewrite andb_true_r, nonempty_is_empty.
  destruct (is_empty (r_example r)), (String.eqb (r_example r) "0"); reflexivity.
Qed.

(* field f was produced from row r *)
Definition row_field (types : tmap) (r : row) (f : field * list field) : Prop :=
  f_defnum (fst f) = r_defnum r /\
  parse_type types (r_name r) (parse_array (r_array r)) (r_type r) = Ok (f_ftype (fst f), f_typename (fst f)).

Lemma transform_fields_rows types : forall l fs,
  transform_fields false types l = Ok fs ->
  Forall2 (row_field types) (filter s_enabled (map fst l)) fs.
Proof.
  induction l as [|[r subs] rest IH]; intros fs H; simpl in H.
  - injection H as <-. constructor.
  - unfold transform_field in H. rewrite skip_enabled in H. simpl.
    destruct (s_enabled r) eqn:E; simpl in H.
    + destruct (parse_type types (r_name r) (parse_array (r_array r)) (r_type r)) as [[ft tn]|e] eqn:P; simpl in H; [|discriminate].
      destruct (rmap _ subs) as [osubs|e]; simpl in H; [|discriminate].
      destruct (transform_fields false types rest) as [fs'|e]; simpl in H; [|discriminate].
      injection H as <-. constructor; [|apply IH; reflexivity].
      split; simpl; [reflexivity|exact P].
    + apply IH. exact H.
Qed.

(* ---- the correspondence relation of the theorem *)
Definition corr (tdecl : list (string * string)) (r : row) (i : N) (sf : sfield) (e : entry) : Prop :=
  fst sf = i /\ e_sindex e = i /\ e_num e = s_defnum r /\
  ftype_facts tdecl r (e_type e) (snd (snd sf)).

(* rows, struct fields and entries are in order-preserving bijection, the
   k-th triple carrying index i + k *)
Inductive bij (tdecl : list (string * string)) : N -> list row -> list sfield -> list entry -> Prop :=
| bij_nil : forall i, bij tdecl i [] [] []
| bij_cons : forall i r rs sf sfs e es,
    corr tdecl r i sf e -> bij tdecl (i + 1) rs sfs es -> bij tdecl i (r :: rs) (sf :: sfs) (e :: es).

Definition entry_of (x : N * (field * list field)) : entry :=
  mkEntry (f_defnum (fst (snd x))) (fst x) (f_ftype (fst (snd x))) (f_length (fst (snd x))).
Definition sname_of (fs : field * list field) : string * string := (f_ccname (fst fs), f_typename (fst fs)).

Lemma bij_of_rows types tdecl : forall rows fs,
  Forall2 (row_field types) rows fs ->
  (forall r, In r rows -> row_hyp types tdecl r = true) ->
  forall i, bij tdecl i rows (number_from i (map sname_of fs)) (map entry_of (number_from i fs)).
Proof.
  induction 1 as [|r f rows fs [Hn Hp] _ IH]; intros Hyp i; simpl.
  - constructor.
  - constructor.
    + unfold corr, entry_of, sname_of; simpl. repeat split; try reflexivity; [exact Hn|].
      eapply ftype_spec; [apply Hyp; now left|exact Hp].
    + apply IH. intros r' Hr'. apply Hyp. now right.
Qed.

Lemma bij_nums tdecl : forall i rows sfs es, bij tdecl i rows sfs es -> map e_num es = map s_defnum rows.
Proof. induction 1 as [|i r rs sf sfs e es (_ & _ & Hn & _) _ IH]; simpl; [reflexivity|]. now rewrite Hn, IH. Qed.

Lemma bij_lengths tdecl : forall i rows sfs es, bij tdecl i rows sfs es ->
  List.length sfs = List.length rows /\ List.length es = List.length rows.
Proof. induction 1 as [|? ? ? ? ? ? ? _ _ [IH1 IH2]]; simpl; auto. Qed.

(* sindex = rank: the k-th enabled row gives struct field k and the entry with sindex k *)
Lemma bij_rank tdecl : forall i rows sfs es, bij tdecl i rows sfs es ->
  forall k r, nth_error rows k = Some r ->
  exists sf e, nth_error sfs k = Some sf /\ nth_error es k = Some e /\ corr tdecl r (i + N.of_nat k) sf e.
Proof.
  induction 1 as [|i r rs sf sfs e es C _ IH]; intros k r' Hk.
  - destruct k; discriminate.
  - destruct k as [|k]; simpl in *.
    + injection Hk as <-. exists sf, e. rewrite N.add_0_r. auto.
    + destruct (IH k r' Hk) as (sf' & e' & A & B & C'). exists sf', e'. split; [exact A|]. split; [exact B|].
      replace (i + N.pos (Pos.of_succ_nat k)) with (i + 1 + N.of_nat k) by lia. exact C'.
Qed.

Lemma bij_in_row tdecl : forall i rows sfs es, bij tdecl i rows sfs es ->
  forall r, In r rows -> exists e, In e es /\ e_num e = s_defnum r.
Proof.
  induction 1 as [|i r rs sf sfs e es (_ & _ & Hn & _) _ IH]; intros r' Hr; simpl in *; [contradiction|].
  destruct Hr as [<-|Hr].
  - exists e. auto.
  - destruct (IH r' Hr) as (e' & He & Hn'). exists e'. auto.
Qed.

Lemma nodup_map_filter {A B} (f : A -> B) p : forall l, NoDup (map f l) -> NoDup (map f (filter p l)).
Proof.
  induction l as [|a l IH]; simpl; intros H; [constructor|].
  inversion H as [|? ? Hn Hd]; subst. destruct (p a); simpl; [|auto].
  constructor; [|auto]. intros Hin. apply Hn.
  apply in_map_iff in Hin. destruct Hin as (x & Hx & Hin). apply filter_In in Hin.
  apply in_map_iff. exists x. tauto.
Qed.

Lemma nodup_map_inj {A B} (f : A -> B) : forall l, NoDup (map f l) ->
  forall x y, In x l -> In y l -> f x = f y -> x = y.
Proof.
  induction l as [|a l IH]; simpl; intros H x y Hx Hy E; [contradiction|].
  inversion H as [|? ? Hn Hd]; subst.
  destruct Hx as [<-|Hx], Hy as [<-|Hy]; auto.
  - exfalso. apply Hn. rewrite E. now apply in_map.
  - exfalso. apply Hn. rewrite <- E. now apply in_map.
Qed.

Definition msg_rows (pm : pmsg) : list row := map fst (pm_fields pm).

(* gen_bijection.  For one message of the workbook (header row + field rows
   with their sub-field rows), if the transformation succeeds then the
   enabled field rows, the struct fields and the lookup entries are in
   order-preserving bijection; the k-th enabled row gives struct field k and
   an entry with sindex k, the row's field number, base type and array flag
   (corr / ftype_facts); with pairwise distinct field numbers every enabled
   row has exactly one entry and a disabled row has none. *)
Theorem gen_bijection : forall types tdecl pm m,
  transform_msg false types pm = Ok m ->
  (forall r, In r (msg_rows pm) -> s_enabled r = true -> row_hyp types tdecl r = true) ->
  bij tdecl 0 (filter s_enabled (msg_rows pm)) (gen_struct m) (gen_entries m)
  /\ (NoDup (map s_defnum (msg_rows pm)) ->
        (forall r, In r (msg_rows pm) -> s_enabled r = true ->
           exists! e, In e (gen_entries m) /\ e_num e = s_defnum r)
     /\ (forall r, In r (msg_rows pm) -> s_enabled r = false ->
           forall e, In e (gen_entries m) -> e_num e <> s_defnum r)).
Proof.
  intros types tdecl pm m T Hyp. unfold transform_msg in T.
  destruct (is_empty (r_msgname (pm_header pm))); [discriminate|].
  destruct (transform_fields false types (pm_fields pm)) as [fs|e] eqn:TF; simpl in T; [|discriminate].
  injection T as <-.
  assert (B : bij tdecl 0 (filter s_enabled (msg_rows pm))
                (gen_struct (mkMsg (r_msgname (pm_header pm)) (camel (r_msgname (pm_header pm))) fs))
                (gen_entries (mkMsg (r_msgname (pm_header pm)) (camel (r_msgname (pm_header pm))) fs))).
  { unfold gen_struct, gen_entries; simpl.
    apply (bij_of_rows types tdecl _ _ (transform_fields_rows types _ _ TF)).
    intros r Hr. apply filter_In in Hr. destruct Hr. auto. }
  split; [exact B|]. intros ND.
  pose proof (bij_nums _ _ _ _ _ B) as Nums.
  pose proof (nodup_map_filter s_defnum s_enabled _ ND) as ND'. rewrite <- Nums in ND'.
  split.
  - intros r Hr En.
    destruct (bij_in_row _ _ _ _ _ B r) as (e & He & Hn); [apply filter_In; auto|].
    exists e. split; [auto|]. intros e' [He' Hn'].
    apply (nodup_map_inj e_num _ ND'); auto. congruence.
  - intros r Hr Dis e He Heq.
    assert (Hin : In (e_num e) (map s_defnum (filter s_enabled (msg_rows pm)))) by (rewrite <- Nums; now apply in_map).
    apply in_map_iff in Hin. destruct Hin as (r' & Hd & Hr'). apply filter_In in Hr'. destruct Hr' as [Hr' En'].
    assert (r' = r) by (apply (nodup_map_inj s_defnum _ ND); auto; congruence).
    subst. congruence.
Qed.

(* ================= the executable spec accepts the model's output ================= *)
Definition obs_entry_of (e : entry) : obs_entry := mkObsEntry (e_num e) (e_sindex e) (e_type e) (e_length e).
Definition slice_of (sf : sfield) : bool := starts_slice (snd (snd sf)).
Definition observe (o : msgout) : obs_msg :=
  mkObsMsg (map slice_of (o_struct o)) (map obs_entry_of (o_entries o)).

Lemma bij_rows_match tdecl : forall i rows sfs es, bij tdecl i rows sfs es ->
  rows_match tdecl i rows (map slice_of sfs) (map obs_entry_of es) = true.
Proof.
  induction 1 as [|i r rs sf sfs e es C _ IH]; simpl; [reflexivity|].
  rewrite IH, andb_true_r.
  destruct C as (H1 & H2 & H3 & (b & Hb & _ & Hcb & _ & Hca & _ & Hs & _)).
  unfold row_matches, slice_of; simpl.
  rewrite H3, String.eqb_refl, H2, N.eqb_refl, Hb, Hcb, N.eqb_refl, Hca, Hs, !Bool.eqb_reflx. reflexivity.
Qed.

(* ================= the parser groups rows as the spec does ================= *)
Definition view (pm : pmsg) : srow * list srow := (pm_header pm, msg_rows pm).
Definition flush (cur : option (srow * list srow)) : list (srow * list srow) :=
  match cur with Some (h, fs) => [(h, rev fs)] | None => [] end.

Lemma mscan_class r :
  match mscan r with
  | TMsgHdr | TProfileHdr => is_header r = true
  | TMsgField => is_header r = false /\ is_field r = true
  | _ => is_header r = false /\ is_field r = false
  end.
Proof.
  unfold mscan, is_header, is_field. rewrite !nonempty_is_empty.
  change (s_msgname r) with (r_msgname r). change (s_defnum r) with (r_defnum r).
  destruct (is_empty (r_msgname r)), (is_empty (r_defnum r)); simpl; auto.
  destruct (is_empty (r_name r)); simpl; auto.
  destruct (is_empty (r_type r)); simpl; auto.
  match goal with |- context [all_empty ?x] => destruct (all_empty x) end; auto.
Qed.

Lemma view_close h fs : view (close_msg h fs) = (h, rev (map fst fs)).
Proof. unfold view, close_msg, msg_rows; simpl. now rewrite map_rev. Qed.

Lemma parse_groups : forall rows st l, parse_msgs_go st rows = Ok l ->
  match st with
  | PIn h fs => s_groups_go (Some (h, map fst fs)) rows = map view l
  | _ => forall cur, s_groups_go cur rows = (flush cur ++ map view l)%list
  end.
Proof.
  induction rows as [|r rest IH]; intros st l H.
  - destruct st as [| |h fs]; simpl in H.
    + injection H as <-. intros cur. simpl. rewrite app_nil_r. destruct cur as [[h fs]|]; reflexivity.
    + discriminate.
    + destruct fs as [|f fs]; [discriminate|]. injection H as <-.
      cbn [map s_groups_go]. now rewrite view_close.
  - pose proof (mscan_class r) as C.
    destruct st as [| |h fs]; simpl in H.
    + destruct (mscan r) eqn:M; try discriminate.
      * destruct C as [C1 C2]. intros cur. simpl. rewrite C1, C2. apply (IH PStart _ H).
      * destruct C as [C1 C2]. intros cur. simpl. rewrite C1, C2. apply (IH PAfterGroup _ H).
      * intros cur. simpl. rewrite C. pose proof (IH (PIn r []) _ H) as IH'. simpl in IH'.
        destruct cur as [[h fs]|]; simpl; [f_equal|]; exact IH'.
    + destruct (mscan r) eqn:M; try discriminate.
      intros cur. simpl. rewrite C. pose proof (IH (PIn r []) _ H) as IH'. simpl in IH'.
      destruct cur as [[h fs]|]; simpl; [f_equal|]; exact IH'.
    + destruct (mscan r) eqn:M; try discriminate.
      * (* TEmpty *) destruct C as [C1 C2]. destruct fs as [|f fs]; [discriminate|].
        destruct (parse_msgs_go PStart rest) as [l'|] eqn:P; simpl in H; [|discriminate]. injection H as <-.
        cbn [s_groups_go]. rewrite C1, C2. rewrite (IH PStart _ P). cbn [map flush app]. now rewrite view_close.
      * (* TFMsgsHdr *) destruct C as [C1 C2].
        destruct (parse_msgs_go PAfterGroup rest) as [l'|] eqn:P; simpl in H; [|discriminate]. injection H as <-.
        cbn [s_groups_go]. rewrite C1, C2. rewrite (IH PAfterGroup _ P). cbn [map flush app]. now rewrite view_close.
      * (* TMsgHdr *)
        destruct (parse_msgs_go (PIn r []) rest) as [l'|] eqn:P; simpl in H; [|discriminate]. injection H as <-.
        cbn [s_groups_go]. rewrite C. pose proof (IH (PIn r []) _ P) as IH'. simpl in IH'.
        cbn [map]. rewrite view_close. f_equal. exact IH'.
      * (* TMsgField *) destruct C as [C1 C2].
        cbn [s_groups_go]. rewrite C1, C2. apply (IH (PIn h ((r, []) :: fs)) _ H).
      * (* TDynField *) destruct C as [C1 C2]. destruct fs as [|[f subs] fs]; [discriminate|].
        cbn [s_groups_go]. rewrite C1, C2. apply (IH (PIn h ((f, (subs ++ [r])%list) :: fs)) _ H).
Qed.

Lemma parse_msgs_groups msheet l : parse_msgs msheet = Ok l -> s_groups msheet = map view l.
Proof.
  unfold parse_msgs, s_groups. destruct msheet as [|r0 rest]; [discriminate|].
  destruct (mscan r0); try discriminate. intros H. simpl. now rewrite (parse_groups _ PStart _ H None).
Qed.

(* ================= the whole sheet ================= *)
Lemma all_msgs_ok types tdecl : forall pms ms,
  rmap (transform_msg false types) pms = Ok ms ->
  forallb (fun g => forallb (fun r => negb (s_enabled r) || row_hyp types tdecl r) (snd g)) (map view pms) = true ->
  all2 (fun g om => s_msg_ok tdecl (snd g) om) (map view pms) (map observe (map gen_msg ms)) = true.
Proof.
  induction pms as [|pm pms IH]; intros ms R Hyp; simpl in R.
  - injection R as <-. reflexivity.
  - destruct (transform_msg false types pm) as [m|] eqn:T; [|discriminate].
    destruct (rmap _ pms) as [ms'|] eqn:R'; [|discriminate]. injection R as <-.
    simpl in Hyp. apply andb_prop in Hyp. destruct Hyp as [H1 H2].
    cbn [map all2]. rewrite (IH _ eq_refl H2), andb_true_r.
    unfold s_msg_ok, observe, gen_msg; simpl.
    apply bij_rows_match. apply (gen_bijection types tdecl pm m T).
    intros r Hr En. rewrite forallb_forall in H1. specialize (H1 r Hr). rewrite En in H1. exact H1.
Qed.

(* If the model generates outs from the two sheets and the side conditions
   hold for the enabled rows, the executable spec (the one the harness
   evaluates on fitgen's real output) accepts outs. *)
Theorem gen_sheet_spec : forall tsheet msheet outs,
  gen false tsheet msheet = Ok outs ->
  sheet_hyp tsheet msheet = true ->
  s_sheet_ok tsheet msheet (map observe outs) = true.
Proof.
  intros tsheet msheet outs G Hyp. unfold gen, gen_msgs in G. unfold sheet_hyp in Hyp.
  destruct (gen_tmap tsheet) as [types|]; simpl in G; [|discriminate].
  destruct (parse_msgs msheet) as [pms|] eqn:P; simpl in G; [|discriminate].
  destruct (rmap (transform_msg false types) pms) as [ms|] eqn:R; simpl in G; [|discriminate].
  injection G as <-. unfold s_sheet_ok. rewrite (parse_msgs_groups _ _ P) in *.
  now apply all_msgs_ok with (types := types).
Qed.

(* ================= non-vacuity and the side conditions are needed ================= *)
Definition mkrow (msg num name ty arr comps refname ex : string) : row :=
  [msg; num; name; ty; arr; comps; ""; ""; ""; ""; ""; refname; ""; ""; ""; ex].

Definition ex_tsheet : list row :=
  [ ["Type Name"; "Base Type"; "Value Name"; "Value"; "Comment"];
    ["sport"; "enum"; ""; ""; ""];
    [""; ""; "running"; "1"; ""];
    [""; ""; ""; ""; ""];
    ["date_time"; "uint32"; ""; ""; ""];
    [""; ""; "min"; "0x10000000"; ""] ].

Definition ex_msheet : list row :=
  [ mkrow "Message Name" "Field Def #" "Field Name" "Field Type" "Array" "Components" "Ref Field Name" "EXAMPLE";
    mkrow "" "" "" "ACTIVITY FILE MESSAGES" "" "" "" "";
    mkrow "record" "" "" "" "" "" "" "";
    mkrow "" "253" "timestamp" "date_time" "" "" "" "1";
    mkrow "" "0" "position_lat" "sint32" "" "" "" "1";
    mkrow "" "3" "heart_rate" "uint8" "" "" "" "";
    mkrow "" "5" "speeds" "uint16" "[N]" "" "" "2";
    mkrow "" "6" "sport" "sport" "" "" "" "1";
    mkrow "" "" "" "" "" "" "" "";
    mkrow "lap" "" "" "" "" "" "" "";
    mkrow "" "7" "name" "string" "" "" "" "16";
    mkrow "" "8" "unused" "uint8" "" "" "" "0" ].

(* the model's output on the example: heart_rate (disabled) is absent, the
   indexes are the ranks among the enabled rows *)
Lemma example_gen :
  gen false ex_tsheet ex_msheet =
  Ok [ mkOut "Record"
         [(0, ("Timestamp", "time.Time")); (1, ("PositionLat", "Latitude")); (2, ("Speeds", "[]uint16")); (3, ("Sport", "Sport"))]
         [mkEntry "253" 0 70 "1"; mkEntry "0" 1 197 "1"; mkEntry "5" 2 36 "2"; mkEntry "6" 3 0 "1"];
       mkOut "Lap" [(0, ("Name", "string"))] [mkEntry "7" 0 7 "16"] ]
  /\ sheet_hyp ex_tsheet ex_msheet = true
  /\ Forall (fun g => NoDup (map s_defnum (snd g))) (s_groups ex_msheet).
Proof.
  split; [vm_compute; reflexivity|]. split; [vm_compute; reflexivity|].
  vm_compute. repeat constructor; simpl; intuition discriminate.
Qed.

(* without the side conditions the row's declared base type / array flag is
   not what the code emits: *)
(* a field named *_lat is typed as a coordinate (sint32) whatever its declared type *)
Lemma coordinate_by_name_refuted :
  exists types tdecl r ft tn,
    parse_type types (r_name r) (parse_array (r_array r)) (r_type r) = Ok (ft, tn)
    /\ s_base tdecl r = Some 0x02 /\ fit_base ft = 0x85.
Proof.
  exists [], [], (mkrow "" "1" "offset_lat" "uint8" "" "" "" "1"). eexists. eexists.
  split; [vm_compute; reflexivity|]. split; vm_compute; reflexivity.
Qed.

(* an array of bool gets the array flag in the lookup entry but the scalar Go type Bool *)
Lemma bool_array_refuted :
  exists types r ft tn,
    parse_type types (r_name r) (parse_array (r_array r)) (r_type r) = Ok (ft, tn)
    /\ s_is_array r = true /\ fit_array ft = true /\ starts_slice tn = false.
Proof.
  exists [], (mkrow "" "1" "flags" "bool" "[N]" "" "" "4"). eexists. eexists.
  split; [vm_compute; reflexivity|]. repeat split; vm_compute; reflexivity.
Qed.

(* an array cell [0] is taken for "no array" *)
Lemma array_zero_refuted :
  exists types r ft tn,
    parse_type types (r_name r) (parse_array (r_array r)) (r_type r) = Ok (ft, tn)
    /\ s_is_array r = true /\ fit_array ft = false.
Proof.
  exists [], (mkrow "" "1" "data" "uint8" "[0]" "" "" "1"). eexists. eexists.
  split; [vm_compute; reflexivity|]. split; vm_compute; reflexivity.
Qed.
