(* The string-array scanner of the decoder model (indices j, k over the whole buffer)
   computes the same list of pieces as the reference split_strings (upto_nul / skipn). *)
From Coq Require Import NArith ZArith List Bool Lia Arith.
From Coq Require Import ZifyN ZifyNat ZifyBool.
From FitV Require Import Proofs.Util Model.Values Model.Bytes Model.Decode Spec.FitSyntax
  Proofs.StreamDenoteBase.
Import ListNotations.
Local Open Scope N_scope.

(* ------------------------------------------------------------ list facts *)

Lemma nth_skipn_add : forall (j : nat) (l : list N) (k : nat) (d : N),
  nth k (skipn j l) d = nth (j + k) l d.
Proof.
  induction j as [|j IH]; intros l k d; [reflexivity|].
  destruct l as [|b r]; cbn [skipn Nat.add nth]; [destruct k; reflexivity|]. apply IH.
Qed.

Lemma skipn_skipn_add : forall (a b : nat) (l : list N), skipn a (skipn b l) = skipn (b + a) l.
Proof.
  intros a b. induction b as [|b IH]; intros l; [reflexivity|].
  destruct l as [|x r]; cbn [skipn Nat.add]; [now rewrite skipn_nil|]. apply IH.
Qed.

(* ------------------------------------------------------------ first_zero *)

Lemma first_zero_nil : first_zero [] = O.
Proof. reflexivity. Qed.

Lemma first_zero_le_length : forall l, (first_zero l <= List.length l)%nat.
Proof.
  induction l as [|b r IH]; [cbn; lia|]. rewrite first_zero_cons. cbn [List.length].
  destruct (b =? 0); lia.
Qed.

Lemma first_zero_before : forall l k, (k < first_zero l)%nat -> nth k l 0 <> 0.
Proof.
  induction l as [|b r IH]; intros k Hk; [rewrite first_zero_nil in Hk; lia|].
  rewrite first_zero_cons in Hk. destruct (b =? 0) eqn:Hb; [lia|].
  destruct k as [|k]; cbn [nth]; [lia|]. apply IH. lia.
Qed.

Lemma first_zero_at : forall l, (first_zero l < List.length l)%nat -> nth (first_zero l) l 0 = 0.
Proof.
  induction l as [|b r IH]; intros Hl; [cbn in Hl; lia|].
  rewrite first_zero_cons in *. cbn [List.length] in Hl. destruct (b =? 0) eqn:Hb; cbn [nth]; [lia|].
  apply IH. lia.
Qed.

Lemma first_zero_hit : forall l k, (k <= first_zero l)%nat -> (k < List.length l)%nat ->
  nth k l 0 = 0 -> first_zero l = k.
Proof.
  intros l k Hle Hlen Hz. destruct (Nat.eq_dec (first_zero l) k) as [E|E]; [exact E|].
  exfalso. apply (first_zero_before l k); [lia|exact Hz].
Qed.

Lemma first_zero_miss : forall l k, (k <= first_zero l)%nat -> (k < List.length l)%nat ->
  nth k l 0 <> 0 -> (S k <= first_zero l)%nat.
Proof.
  intros l k Hle Hlen Hnz. destruct (Nat.eq_dec (first_zero l) k) as [E|E]; [|lia].
  exfalso. apply Hnz. rewrite <- E. apply first_zero_at. lia.
Qed.

(* ------------------------------------------------------------ split_strings, one step at a time *)

Lemma split_strings_nil : forall f, split_strings f [] = [].
Proof. destruct f; reflexivity. Qed.

Lemma split_strings_stop : forall f l, first_zero l = O -> split_strings f l = [].
Proof.
  intros f l Hz. destruct f as [|f]; [reflexivity|]. cbn [split_strings].
  destruct l as [|b r]; [reflexivity|]. apply upto_nul_nil_iff in Hz. rewrite Hz. reflexivity.
Qed.

Lemma split_strings_step : forall f l, first_zero l <> O ->
  split_strings (S f) l = firstn (first_zero l) l :: split_strings f (skipn (S (first_zero l)) l).
Proof.
  intros f l Hnz. cbn [split_strings].
  destruct l as [|b r]; [rewrite first_zero_nil in Hnz; lia|].
  pose proof (first_zero_le_length (b :: r)) as Hle.
  rewrite upto_nul_first_zero.
  assert (Hlen : List.length (firstn (first_zero (b :: r)) (b :: r)) = first_zero (b :: r))
    by (rewrite firstn_length; lia).
  destruct (firstn (first_zero (b :: r)) (b :: r)) as [|x s] eqn:Es; [cbn [List.length] in Hlen; lia|].
  rewrite Hlen. reflexivity.
Qed.

Lemma split_strings_fuel : forall f1 f2 l, (List.length l <= f1)%nat -> (List.length l <= f2)%nat ->
  split_strings f1 l = split_strings f2 l.
Proof.
  induction f1 as [|f1 IH]; intros f2 l H1 H2.
  - destruct l as [|b r]; [|cbn in H1; lia]. now rewrite !split_strings_nil.
  - destruct f2 as [|f2].
    + destruct l as [|b r]; [|cbn in H2; lia]. now rewrite !split_strings_nil.
    + destruct (Nat.eq_dec (first_zero l) O) as [E|E].
      * now rewrite !split_strings_stop by exact E.
      * rewrite !split_strings_step by exact E. f_equal.
        apply IH; rewrite skipn_length; lia.
Qed.

(* ------------------------------------------------------------ the scanner against the reference *)

Lemma scan_split_gen : forall fuel buf j k acc fuel',
  (j + k < List.length buf)%nat ->
  (k <= first_zero (skipn j buf))%nat ->
  (List.length buf - (j + k) <= fuel)%nat ->
  (List.length buf - j <= fuel')%nat ->
  scan_strings fuel buf (List.length buf) j k acc = acc ++ split_strings fuel' (skipn j buf).
Proof.
  induction fuel as [|f IH]; intros buf j k acc fuel' Hjk Hk Hf Hf'; [lia|].
  pose proof (skipn_length j buf) as Hlen.
  pose proof (first_zero_le_length (skipn j buf)) as Hfz.
  destruct fuel' as [|f']; [lia|].
  cbn [scan_strings]. unfold b_at. rewrite <- nth_skipn_add.
  destruct (nth k (skipn j buf) 0 =? 0) eqn:Hb.
  - (* a zero byte ends the piece *)
    assert (Efz : first_zero (skipn j buf) = k) by (apply first_zero_hit; lia).
    destruct (Nat.eqb k 0) eqn:Hk0; [apply Nat.eqb_eq in Hk0|apply Nat.eqb_neq in Hk0].
    + (* an empty piece ends the list *)
      rewrite split_strings_stop by congruence. now rewrite app_nil_r.
    + rewrite split_strings_step by congruence. rewrite Efz, skipn_skipn_add.
      replace (j + S k)%nat with (j + k + 1)%nat by lia.
      destruct (Nat.leb (List.length buf) (j + k + 1)) eqn:Hend; [apply Nat.leb_le in Hend|apply Nat.leb_gt in Hend].
      * rewrite (skipn_all2 buf (n := (j + k + 1)%nat)) by lia. now rewrite split_strings_nil.
      * rewrite (IH buf (j + k + 1)%nat O _ f'); try lia.
        now rewrite <- app_assoc.
  - (* a non-zero byte extends the piece *)
    assert (Hfz' : (S k <= first_zero (skipn j buf))%nat) by (apply first_zero_miss; lia).
    destruct (Nat.leb (List.length buf) (j + S k)) eqn:Hend; [apply Nat.leb_le in Hend|apply Nat.leb_gt in Hend].
    + (* the buffer ends inside the piece *)
      assert (Efz : first_zero (skipn j buf) = (List.length buf - j)%nat) by lia.
      rewrite split_strings_step by lia. rewrite Efz.
      rewrite (skipn_all2 (skipn j buf)) by lia. now rewrite split_strings_nil.
    + apply IH; lia.
Qed.

Theorem scan_is_split : forall buf, buf <> [] ->
  scan_strings (S (List.length buf)) buf (List.length buf) 0 0 [] = split_strings (S (List.length buf)) buf.
Proof.
  intros buf Hne.
  assert (Hlen : (0 < List.length buf)%nat) by (destruct buf; [congruence|cbn; lia]).
  rewrite (scan_split_gen (S (List.length buf)) buf O O [] (S (List.length buf))); cbn [skipn]; try lia.
  reflexivity.
Qed.

Corollary string_array_agree : forall buf,
  (match buf with [] => true | _ => false end = false) ->
  (match scan_strings (S (List.length buf)) buf (List.length buf) 0 0 [] with [] => VNil | l => VList (map VStr l) end) =
  (match split_strings (S (List.length buf)) buf with [] => VNil | l => VList (map VStr l) end).
Proof.
  intros buf H. rewrite scan_is_split; [reflexivity|]. intros E. subst buf. discriminate.
Qed.

Print Assumptions string_array_agree.
Print Assumptions scan_is_split.
