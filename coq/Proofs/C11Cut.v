(* C11 for the whole entry points: a stream that decodes, cut at any byte or read
   through a reader that fails from any offset on, yields an error (never
   success, never a panic, never fuel exhaustion); the one exception is the
   clean end of input on a file boundary of a chain. *)
From Coq Require Import NArith ZArith List Bool Arith Lia.
From FitV Require Import Model.Values Model.Bytes Model.Crc Model.IO Model.Header Model.Route Model.Components
  Model.Decode Gen.Consts Proofs.IOSim Proofs.C10IO Proofs.C10Frame.
Import ListNotations.

(* ------------------------------------------------------------ the buffered phase *)
Lemma io_error_is_reported {S E A} (p : prog S E A) rd limit crc fuel s :
  length (rd_data rd) + length (rd_sched rd) < fuel ->
  forall e x s', run_a p (start_a rd limit) s = RIOErr e x s' ->
  exists c', run_c p (start_c rd limit crc fuel) s = RIOErr e c' s' /\
             e = err_of limit (rd_data rd) (rd_term rd) /\
             rd_pos (c_rd c') = rd_pos rd + Nat.min limit (length (rd_data rd)).
Proof.
  intros Hf e x s' Ha.
  pose proof (run_sim (rd_data rd) (rd_pos rd) crc p _ _ s (Rel_start rd limit crc fuel Hf)) as H.
  pose proof (never_past_frame p rd limit crc fuel s Hf) as Hn.
  unfold sim in H. rewrite Ha in H.
  destruct (run_c p (start_c rd limit crc fuel) s) as [? ? ?|? ? ?|e' c' s''|?|]; try contradiction.
  destruct H as (-> & -> & _). destruct Hn as [Hp He]. exists c'. repeat split; assumption.
Qed.

Lemma error_kind limit data t : err_of limit data t = IOBeyond \/ err_of limit data t = noEOF t.
Proof. unfold err_of. destruct (Nat.leb limit (length data)); auto. Qed.

(* ------------------------------------------------------------ the abstract interpreter on a cut input *)
(* running a program on the first k bytes of an input either ends in an I/O
   error (a byte was needed that the cut input no longer has) or ends exactly as
   the run on the whole input does *)
Lemma run_a_cut {S E A} : forall (p : prog S E A) rest t n lim s k t',
  match run_a p (mk_ast (firstn k rest) t' n lim) s with
  | RIOErr _ _ _ => True
  | ROk a x' s' => exists x, run_a p (mk_ast rest t n lim) s = ROk a x s' /\ a_n x = a_n x'
  | RFail e x' s' => exists x, run_a p (mk_ast rest t n lim) s = RFail e x s' /\ a_n x = a_n x'
  | RPanic w => run_a p (mk_ast rest t n lim) s = RPanic w
  | ROutOfFuel => False
  end.
Proof.
  induction p as [x|e|w|kk IH|n0 kk IH|kk IH|kk IH|s0 kk IH]; intros rest t n lim s k t'; cbn [run_a].
  - eexists; split; reflexivity.
  - eexists; split; reflexivity.
  - reflexivity.
  - destruct (a_take 1 (mk_ast (firstn k rest) t' n lim)) as [[l x1]|e] eqn:Et; [|exact I].
    destruct (a_take_ok _ _ _ _ _ _ _ Et) as (H1 & H2 & -> & ->).
    rewrite firstn_length in H2.
    rewrite (a_take_ok_intro 1 rest t n lim H1 ltac:(lia)).
    rewrite firstn_firstn, (Nat.min_l 1 k) by lia. rewrite skipn_firstn_comm. apply IH.
  - destruct (a_take n0 (mk_ast (firstn k rest) t' n lim)) as [[l x1]|e] eqn:Et; [|exact I].
    destruct (a_take_ok _ _ _ _ _ _ _ Et) as (H1 & H2 & -> & ->).
    rewrite firstn_length in H2.
    rewrite (a_take_ok_intro n0 rest t n lim H1 ltac:(lia)).
    rewrite firstn_firstn, (Nat.min_l n0 k) by lia. rewrite skipn_firstn_comm. apply IH.
  - cbn [a_n a_limit]. apply IH.
  - apply IH.
  - apply IH.
Qed.

(* ------------------------------------------------------------ the header on a cut input *)
Lemma hdr_a_cut data t h crc used : hdr_a data t = (None, h, crc, used) ->
  forall k t', k < used ->
  exists e h' crc' used', hdr_a (firstn k data) t' = (Some e, h', crc', used') /\
                          (e = EReadSizeEOF -> k = 0 /\ t' = TEOF).
Proof.
  unfold hdr_a. destruct data as [|sz rest]; [discriminate|].
  destruct (negb ((sz =? c_headerSizeCRC)%N || (sz =? c_headerSizeNoCRC)%N)) eqn:Esz; [discriminate|].
  destruct (Nat.leb_spec (N.to_nat sz - 1) (length rest)) as [L|L]; [|discriminate].
  intros H k t' Hk. injection H as Hp Hu. subst used.
  destruct k as [|k].
  - cbn [firstn]. destruct t'; do 4 eexists; (split; [reflexivity|]); [intros _; split; reflexivity|discriminate].
  - cbn [firstn]. rewrite Esz.
    destruct (Nat.leb_spec (N.to_nat sz - 1) (length (firstn k rest))) as [L'|L']; [rewrite firstn_length in L'; lia|].
    do 4 eexists. split; [reflexivity|discriminate].
Qed.

Lemma crc_a_cut rest t crc f : length rest < 2 -> fst (fst (crc_a rest t crc f)) = Some EFileCRCRead.
Proof.
  intros H. unfold crc_a, rf_err. destruct (Nat.leb_spec 2 (length rest)); [lia|reflexivity].
Qed.

(* ------------------------------------------------------------ decode_a on a cut input *)
(* bs decodes completely (the call succeeds and consumes all of bs); then on every proper prefix of bs, whatever
   the reader answers at its end (clean EOF or a fault), the call returns an error *)
Theorem decode_a_cut o md g bs t a : decode_a o md g bs t = TDone a -> ar_err a = None -> md <> MFileIdOnly ->
  ar_used a = length bs ->
  forall k t', k < length bs ->
  exists a' e, decode_a o md g (firstn k bs) t' = TDone a' /\ ar_err a' = Some e /\
               (e = EReadSizeEOF -> k = 0 /\ t' = TEOF).
Proof.
  intros Hd He Hm Hu k t' Hk. revert Hd. unfold decode_a.
  destruct (hdr_a bs t) as [[[e h] crc] used] eqn:Eh.
  destruct (hdr_a_used _ _ _ _ _ _ Eh) as (U1 & U2 & U3).
  destruct e as [e|]; [intros H; inversion H; subst; discriminate|].
  destruct (Nat.lt_ge_cases k used) as [Hlt|Hge].
  { (* the cut falls inside the header *)
    intros _. destruct (hdr_a_cut _ _ _ _ _ Eh k t' Hlt) as (e' & h' & crc' & used' & E' & Heof).
    rewrite E'. eexists. exists e'. split; [reflexivity|]. split; [reflexivity|exact Heof]. }
  assert (Hh : hdr_a (firstn k bs) t' = (None, h, crc, used)).
  { apply (hdr_a_ext bs t); [exact Eh| |rewrite firstn_length; lia].
    rewrite firstn_firstn, Nat.min_l by lia. reflexivity. }
  rewrite Hh. rewrite skipn_firstn_comm.
  set (limit := N.to_nat (h_dsize h)). set (rest := skipn used bs).
  assert (Hrest : length rest = length bs - used) by (unfold rest; apply skipn_length).
  assert (Hnoeof : forall e0 : err, e0 <> EReadSizeEOF -> e0 = EReadSizeEOF -> k = 0 /\ t' = TEOF) by (intros; contradiction).
  destruct md; try congruence.
  - (* MFull *)
    pose proof (run_a_cut (data_prog o false (S limit)) rest t 0 limit (init_dstate (new_file h) g) (k - used) t') as HC.
    pose proof (run_a_prefix (data_prog o false (S limit)) (firstn (k - used) rest) t' 0 limit (init_dstate (new_file h) g)) as HP.
    pose proof (run_a_prefix (data_prog o false (S limit)) rest t 0 limit (init_dstate (new_file h) g)) as HPf.
    destruct (run_a (data_prog o false (S limit)) (mk_ast rest t 0 limit) (init_dstate (new_file h) g)) as [y x s|e' x s|e' x s|w|] eqn:Efull;
      try discriminate; try (intros H; inversion H; subst; discriminate).
    cbv zeta. destruct (Nat.eqb_spec (a_n x) (a_limit x)) as [En|En]; cbn [negb]; [|discriminate].
    intros H. inversion H; subst a; clear H. cbn [ar_err ar_used] in *.
    destruct HPf as (F1 & F2 & F3 & F4 & F5 & F6). rewrite Nat.sub_0_r in *. rewrite F5 in En.
    destruct (crc_a_ok _ _ _ _ He) as [C1 C2]. rewrite C1 in Hu.
    destruct (run_a (data_prog o false (S limit)) (mk_ast (firstn (k - used) rest) t' 0 limit) (init_dstate (new_file h) g)) as [y' x' s'|e' x' s'|e' x' s'|w'|].
    + destruct HC as (x0 & HC & Hn). inversion HC; subst y' x0 s'. clear HC.
      destruct HP as (P1 & P2 & P3 & P4 & P5 & P6). rewrite Nat.sub_0_r in *.
      rewrite P5, <- Hn, En, Nat.eqb_refl. cbn [negb].
      eexists. exists EFileCRCRead. fields. split; [reflexivity|]. split; [|apply Hnoeof; discriminate].
      apply crc_a_cut. rewrite P4, skipn_length, firstn_length. lia.
    + destruct HC as (x0 & HC & _). discriminate.
    + eexists. exists (EIO e'). fields. split; [reflexivity|]. split; [reflexivity|apply Hnoeof; discriminate].
    + discriminate.
    + contradiction.
  - (* MHeaderOnly: the whole input is the header *)
    intros H. inversion H; subst a; clear H. cbn [ar_used] in Hu. lia.
  - (* MCrcOnly *)
    unfold cp_err. fold limit. fold rest. destruct (Nat.leb_spec limit (length rest)) as [L|L];
      [|intros H; inversion H; subst; discriminate].
    intros H. inversion H; subst a; clear H. cbn [ar_err ar_used] in *.
    destruct (crc_a_ok _ _ _ _ He) as [C1 C2]. rewrite C1 in Hu.
    destruct (Nat.leb_spec limit (length (firstn (k - used) rest))) as [L'|L'].
    + eexists. exists EFileCRCRead. fields. split; [reflexivity|]. split; [|apply Hnoeof; discriminate].
      apply crc_a_cut. rewrite skipn_length, firstn_length. lia.
    + eexists. exists EParseData. fields. split; [reflexivity|]. split; [reflexivity|apply Hnoeof; discriminate].
Qed.

(* ------------------------------------------------------------ decode over a reader *)
(* cut_is_error and fault_is_error: bs decodes alone, completely; cut at k < |bs| -- the reader holds the first k
   bytes and then answers its terminal condition, clean EOF (truncation) or a non-EOF error (read fault), with any
   chunk schedule and with or without data-with-error -- the call returns a non-nil error.  It does not panic and
   does not run out of fuel.  The error is the clean-end-of-input class only for the empty input. *)
Theorem decode_cut_is_error o md g bs r : md <> MFileIdOnly ->
  decode o md g (solo bs) (solo_fuel bs) = TDone r -> dr_err r = None -> rd_data (dr_rd r) = [] ->
  forall k rd fuel, k < length bs -> rd_data rd = firstn k bs -> wf rd fuel ->
  exists r' e, decode o md g rd fuel = TDone r' /\ dr_err r' = Some e /\ (e = EReadSizeEOF -> k = 0 /\ rd_term rd = TEOF).
Proof.
  intros Hm Hd He Hnil k rd fuel Hk Hdata Hwf.
  destruct (solo_step o md g bs r Hd He Hm Hnil) as (a & Ea & A1 & A2 & _).
  destruct (decode_a_cut o md g bs TEOF a Ea A1 Hm A2 k (rd_term rd) Hk) as (a' & e & Ea' & Ee & Heof).
  pose proof (decode_abs o md g rd fuel Hwf) as HA. rewrite Hdata, Ea' in HA.
  destruct (decode o md g rd fuel) as [r'|w|]; try contradiction.
  destruct HA as (M1 & _). exists r', e. split; [reflexivity|]. split; [congruence|exact Heof].
Qed.

(* the converse side (C10): bytes after the frame, and whatever the reader would answer after them, are never
   looked at: the call succeeds with the same results, takes exactly |bs| bytes and leaves the rest *)
Theorem decode_frame_local o md g bs r : md <> MFileIdOnly ->
  decode o md g (solo bs) (solo_fuel bs) = TDone r -> dr_err r = None -> rd_data (dr_rd r) = [] ->
  forall tl rd fuel, rd_data rd = bs ++ tl -> wf rd fuel ->
  exists r', decode o md g rd fuel = TDone r' /\ dr_err r' = None /\ dr_hdr r' = dr_hdr r /\ dr_file r' = dr_file r /\
             dr_g r' = dr_g r /\ dr_quirks r' = dr_quirks r /\
             rd_pos (dr_rd r') = rd_pos rd + length bs /\ rd_data (dr_rd r') = tl.
Proof.
  intros Hm Hd He Hnil tl rd fuel Hdata Hwf.
  destruct (solo_step o md g bs r Hd He Hm Hnil) as (a & Ea & A1 & A2 & A3 & A4 & A5 & A6).
  assert (Ea' : decode_a o md g (bs ++ tl) (rd_term rd) = TDone a).
  { apply (decode_a_ext o md g bs TEOF a Ea A1 Hm).
    - rewrite A2, firstn_app, Nat.sub_diag. cbn [firstn]. rewrite app_nil_r. reflexivity.
    - rewrite A2, app_length. lia. }
  pose proof (decode_abs o md g rd fuel Hwf) as HA. rewrite Hdata, Ea' in HA.
  destruct (decode o md g rd fuel) as [r'|w|]; try contradiction.
  destruct HA as (M1 & M2 & M3 & M4 & M5 & M6 & M7 & M8 & M9).
  destruct (decode_a_used _ _ _ _ _ _ Ea) as (_ & _ & D3 & _).
  specialize (M8 (D3 A1 Hm)). exists r'. split; [reflexivity|].
  repeat (split; [congruence|]).
  split; [rewrite (adv_full _ _ _ M8 M9), A2; reflexivity|].
  rewrite (adv_data _ _ _ M8), Hdata, A2, skipn_app, Nat.sub_diag, skipn_all. reflexivity.
Qed.

(* ------------------------------------------------------------ chains *)
(* after the files of a chain that decode alone, DecodeChained continues on what follows them *)
Lemma chain_then o g pre fs1 g1 q1 : chain_ok o g pre fs1 g1 q1 ->
  forall tail t i k acc q0 u0, length pre < k ->
  chained_a o g (concat pre ++ tail) t i k acc q0 u0 =
  chained_a o g1 tail t (length pre + i) (k - length pre) (acc ++ fs1) (q0 ++ q1) (u0 + length (concat pre)).
Proof.
  induction 1 as [g|g bs r f rest fs g' q Hd He Hf Hnil Hc IH]; intros tail t i k acc q0 u0 Hk.
  - cbn. rewrite !app_nil_r, Nat.add_0_r, Nat.sub_0_r. reflexivity.
  - destruct k as [|k]; [cbn in Hk; lia|]. cbn [length] in Hk.
    destruct (solo_step o MFull g bs r Hd He ltac:(discriminate) Hnil) as (a & Ea & A1 & A2 & A3 & A4 & A5 & A6).
    cbn [concat chained_a]. rewrite <- app_assoc.
    rewrite (decode_a_ext o MFull g bs TEOF a Ea A1 ltac:(discriminate) (bs ++ concat rest ++ tail) t);
      [|rewrite A2, firstn_app, Nat.sub_diag; cbn [firstn]; rewrite app_nil_r; reflexivity
       |rewrite A2, app_length; lia].
    rewrite A1, A3, Hf, A4, A5, A2.
    rewrite skipn_app, Nat.sub_diag, skipn_all. cbn [skipn app].
    rewrite (IH tail t (S i) k (acc ++ [f]) (q0 ++ dr_quirks r) (u0 + length bs)) by lia.
    rewrite <- !app_assoc, app_length. cbn [app length Nat.sub]. f_equal; lia.
Qed.

(* a cut or a fault inside the file that follows a decodable chain prefix: DecodeChained returns an error, together
   with the Files of the complete files (and at most the partial one).  Cases covered by the side condition:
   the empty input (pre = [], k = 0), a cut strictly inside a file (0 < k), a read fault exactly on a file boundary
   (k = 0, TFault).  The remaining case -- clean EOF exactly on a boundary after at least one file -- is the
   exception: chained_concat for the prefix. *)
Theorem chained_cut_is_error o g pre fs1 g1 q1 bs r : chain_ok o g pre fs1 g1 q1 ->
  decode o MFull g1 (solo bs) (solo_fuel bs) = TDone r -> dr_err r = None -> rd_data (dr_rd r) = [] ->
  forall k rd fuel, k < length bs -> rd_data rd = concat pre ++ firstn k bs -> wf rd fuel ->
  pre = [] \/ 0 < k \/ rd_term rd = TFault ->
  exists cr e, entry_DecodeChained o g rd fuel = TDone cr /\ cr_err cr = Some e /\
               firstn (length fs1) (cr_files cr) = fs1 /\ length (cr_files cr) <= S (length fs1).
Proof.
  intros Hc Hd He Hnil k rd fuel Hk Hdata Hwf Hside. unfold entry_DecodeChained.
  pose proof (decode_chained_abs o fuel (S (length (rd_data rd))) g rd 0 [] [] 0 Hwf) as HA.
  destruct (chain_ok_lengths _ _ _ _ _ _ Hc) as [HL HF].
  rewrite Hdata in HA at 2.
  rewrite (chain_then o g pre fs1 g1 q1 Hc) in HA by (rewrite Hdata, app_length; lia).
  destruct (solo_step o MFull g1 bs r Hd He ltac:(discriminate) Hnil) as (a & Ea & A1 & A2 & _).
  destruct (decode_a_cut o MFull g1 bs TEOF a Ea A1 ltac:(discriminate) A2 k (rd_term rd) Hk) as (a' & e & Ea' & Ee & Heof).
  replace (S (length (rd_data rd)) - length pre) with (S (length (rd_data rd) - length pre)) in HA
    by (rewrite Hdata, app_length; lia).
  cbn [chained_a app] in HA. rewrite Ea', Ee in HA.
  assert (FIN : forall ca, ca_err ca = Some e ->
            (ca_files ca = fs1 \/ exists f, ca_files ca = fs1 ++ [f]) ->
            cmatch rd 0 (decode_chained o g rd fuel 0 (S (length (rd_data rd))) [] []) (TDone ca) ->
            exists cr e0, decode_chained o g rd fuel 0 (S (length (rd_data rd))) [] [] = TDone cr /\ cr_err cr = Some e0 /\
                          firstn (length fs1) (cr_files cr) = fs1 /\ length (cr_files cr) <= S (length fs1)).
  { intros ca Hce Hcf HM. destruct (decode_chained o g rd fuel 0 (S (length (rd_data rd))) [] []) as [cr|w|]; try contradiction.
    destruct HM as (C1 & C2 & _). exists cr, e. split; [reflexivity|]. split; [congruence|]. rewrite C2.
    destruct Hcf as [->|[f ->]].
    - rewrite firstn_all. split; [reflexivity|lia].
    - rewrite firstn_app, Nat.sub_diag, firstn_all. cbn [firstn]. rewrite app_nil_r, app_length. cbn [length]. split; [reflexivity|lia]. }
  assert (Hfiles : forall (of : option file), (match of with Some f => fs1 ++ [f] | None => fs1 end = fs1 \/
                     exists f, match of with Some f => fs1 ++ [f] | None => fs1 end = fs1 ++ [f])).
  { intros [f|]; [right; exists f; reflexivity|left; reflexivity]. }
  destruct e; try (eapply FIN; [| |exact HA]; [reflexivity|apply Hfiles]);
    try (destruct (length pre + 0); eapply FIN; [| |exact HA]; [reflexivity|apply Hfiles]).
  (* EReadSizeEOF: only for the empty remainder with a clean EOF, where the side condition forces i = 0 *)
  destruct (Heof eq_refl) as [-> Ht]. destruct Hside as [->|[Hs|Hs]]; [|lia|congruence].
  cbn [length Nat.add] in HA. eapply FIN; [| |exact HA]; [reflexivity|apply Hfiles].
Qed.

(* a read fault after the last file of a chain (the reader fails where the next size byte would be) *)
Theorem chained_fault_at_end o g pre fs1 g1 q1 : chain_ok o g pre fs1 g1 q1 ->
  forall rd fuel, rd_data rd = concat pre -> rd_term rd = TFault -> wf rd fuel ->
  exists cr e, entry_DecodeChained o g rd fuel = TDone cr /\ cr_err cr = Some e /\ cr_files cr = fs1.
Proof.
  intros Hc rd fuel Hdata Ht Hwf. unfold entry_DecodeChained.
  pose proof (decode_chained_abs o fuel (S (length (rd_data rd))) g rd 0 [] [] 0 Hwf) as HA.
  destruct (chain_ok_lengths _ _ _ _ _ _ Hc) as [HL HF].
  rewrite <- (app_nil_r (rd_data rd)) in HA at 2. rewrite Hdata in HA at 2.
  rewrite (chain_then o g pre fs1 g1 q1 Hc) in HA by (rewrite Hdata; lia). rewrite Ht in HA.
  replace (S (length (rd_data rd)) - length pre) with (S (length (rd_data rd) - length pre)) in HA by (rewrite Hdata; lia).
  cbn [chained_a app] in HA.
  assert (Ed : decode_a o MFull g1 [] TFault = TDone (mk_ares (Some EReadSize) zero_header None 0 g1 [] true)) by reflexivity.
  rewrite Ed in HA. fields. cbn [ar_err ar_file ar_used ar_g ar_quirks ar_exact] in HA.
  destruct (decode_chained o g rd fuel 0 (S (length (rd_data rd))) [] []) as [cr|w|]; try contradiction.
  destruct (length pre + 0); cbn [cmatch] in HA; destruct HA as (C1 & C2 & _); exists cr, EReadSize;
    (split; [reflexivity|]); (split; [exact C1|]); exact C2.
Qed.
