(* Stream-level decode = denote, layer 5: the whole buffered phase of decode.
   data_prog = file_id definition + file_id data record (parse_file_id_msg), File.init, record loop.
   On the serialisation of any record list the reference semantics accepts, whose first two records are
   the file_id definition and message and whose file type the library has a container for, the abstract
   interpreter ends with success at the end of the data, the File holding exactly the messages of
   [denote], added in stream order. *)
From Coq Require Import NArith ZArith List Bool Lia Arith.
From Coq Require Import ZifyN ZifyNat ZifyBool.
From FitV Require Import Proofs.Util Model.Values Model.Bytes Model.Base Model.Profile Model.Reflect Model.IO
  Model.Header Model.Route Model.Components Model.Decode Spec.FitSyntax Spec.RouteSpec Spec.ProfileWf Proofs.ProfileProofs
  Proofs.RouteProofs Proofs.DecodeLemmas Gen.Consts Gen.RoutingData
  Proofs.StreamDenoteBase Proofs.StreamDenoteDefs Proofs.StreamDenoteDef Proofs.StreamDenoteData
  Proofs.StreamDenoteRecord Proofs.StreamDenoteLoop.
Import ListNotations.
Local Open Scope N_scope.
Ltac Zify.zify_post_hook ::= Z.div_mod_to_equations.

(* ------------------------------------------------------------ messages are only ever appended *)
Lemma denote_fields_num be gmn : forall fds pay m ref unl,
  m_num (fst (fst (denote_fields be gmn fds pay m ref unl))) = m_num m.
Proof.
  induction fds as [|f r IH]; intros pay m ref unl; [reflexivity|].
  cbn [denote_fields]. destruct (get_field gmn (sf_num f)) as [p|]; [|apply IH].
  rewrite IH. destruct (denote_field _ _ _ _ _ _); reflexivity.
Qed.

Lemma denote_record_msgs s r s' : denote_record s r = Some s' -> exists ms, ss_msgs s' = ss_msgs s ++ ms.
Proof.
  assert (Hd : forall l off pay dev, denote_data s l off pay dev = Some s' -> exists ms, ss_msgs s' = ss_msgs s ++ ms).
  { intros l off pay dev H. unfold denote_data in H.
    destruct (lookup_def (ss_env s) l) as [d|]; [|discriminate].
    destruct (_ || _); [discriminate|].
    destruct (known_msg (sd_gmn d)).
    - destruct (mesg_all_invalid (sd_gmn d)) as [m0|]; [|discriminate].
      destruct (match off with Some o => _ | None => _ end) as [m1 ref1].
      destruct (denote_fields _ _ _ _ _ _ _) as [[m2 ref2] unl]. inversion H; subst s'. cbn [ss_msgs]. eauto.
    - inversion H; subst s'. exists []. cbn [ss_msgs]. now rewrite app_nil_r. }
  destruct r as [l be gmn fds devflag devs|l pay dev|l off pay dev]; cbn [denote_record]; intros H.
  - destruct (_ || _); [discriminate|]. inversion H; subst s'. exists []. cbn [ss_msgs]. now rewrite app_nil_r.
  - eapply Hd; eauto.
  - destruct (4 <=? l); [discriminate|]. eapply Hd; eauto.
Qed.

Lemma denote_from_msgs : forall rs s s', denote_from s rs = Some s' -> exists ms, ss_msgs s' = ss_msgs s ++ ms.
Proof.
  induction rs as [|r rest IH]; intros s s' H; cbn [denote_from] in H.
  - inversion H; subst. exists []. now rewrite app_nil_r.
  - destruct (denote_record s r) as [sm|] eqn:E; [|discriminate].
    destruct (denote_record_msgs _ _ _ E) as [m1 H1]. destruct (IH _ _ H) as [m2 H2].
    exists (m1 ++ m2). rewrite H2, H1. now rewrite app_assoc.
Qed.

(* ------------------------------------------------------------ File.init *)
Lemma file_init_valid f f' : file_init f = Some f' ->
  In (file_type f) valid_file_types /\ f_inited f' = Some (file_type f).
Proof.
  unfold file_init. destruct (ft_entry (file_type f)) as [[[ok cn] sl]|] eqn:Ee; [|discriminate].
  destruct ok; [|discriminate]. intros H. inversion H; subst f'. cbn [f_inited]. split; [|reflexivity].
  unfold ft_entry in Ee.
  destruct (find (fun e => fst (fst (fst e)) =? file_type f) file_types) as [[[[ft0 ok0] cn0] sl0]|] eqn:Ef; [|discriminate].
  inversion Ee; subst ok0 cn0 sl0. apply find_some in Ef. destruct Ef as [Hin Hk]. cbn [fst] in Hk. apply N.eqb_eq in Hk. subst ft0.
  pose proof init_ok_true as Hok. unfold init_ok in Hok.
  do 5 (apply andb_prop in Hok; destruct Hok as [Hok _]).
  rewrite forallb_forall in Hok. specialize (Hok _ Hin). cbn beta iota in Hok. apply eqb_prop in Hok.
  unfold ft_valid in Hok. symmetry in Hok. apply existsb_exists in Hok. destruct Hok as (x & Hx & Hxe).
  apply N.eqb_eq in Hxe. now subst.
Qed.

(* the first message of the stream starts the File: File.add before init (the FileId field), then init *)
Definition start_file (h : header) (g : gstate) (m0 : msg) : option (file * gstate) :=
  match file_add (new_file h) g m0 with
  | AddOk f1 g1 => match file_init f1 with Some f2 => Some (f2, g1) | None => None end
  | AddPanic _ => None
  end.

Lemma known_fileid : known_msg c_MesgNumFileId = true.
Proof. vm_compute. reflexivity. Qed.

Lemma mai_num gmn m : mesg_all_invalid gmn = Some m -> m_num m = gmn.
Proof. unfold mesg_all_invalid. destruct (find_msg gmn) as [md|]; [|discriminate]. destruct (md_has_ctor md); [|discriminate].
  intros H; inversion H; reflexivity. Qed.

Lemma nth_repeat_none {A} n k : nth n (repeat (@None A) k) None = None.
Proof. revert n. induction k as [|k IH]; intros [|n]; cbn; auto. Qed.

(* ------------------------------------------------------------ the file_id prologue and init *)
Lemma prologue_ok o h g l be fds (devflag : bool) (devs : list (N * N * N)) pay dev ssb f2 g1 tl t lim :
  let r1 := RDef l be c_MesgNumFileId fds devflag devs in
  let r2 := RData l pay dev in
  rec_wf r1 = true -> rec_wf r2 = true ->
  denote_from ss_init [r1; r2] = Some ssb ->
  start_file h g (hd dummy_msg (ss_msgs ssb)) = Some (f2, g1) ->
  (List.length (ser_record r1) + List.length (ser_record r2) <= lim)%nat ->
  exists sb ft,
    run_a (bind (parse_file_id_msg o) (fun _ => do_init)) (ast_at (ser_record r1 ++ ser_record r2) tl t 0 lim)
          (init_dstate (new_file h) g) =
      ROk tt (ast_at [] tl t (List.length (ser_record r1) + List.length (ser_record r2)) lim) sb /\
    Inv o [hd dummy_msg (ss_msgs ssb)] f2 g1 ft sb ssb.
Proof.
  intros r1 r2 Hwf1 Hwf2 Hden Hstart Hlim.
  cbn [denote_from] in Hden.
  destruct (denote_record ss_init r1) as [ssa|] eqn:E1; [|discriminate].
  destruct (denote_record ssa r2) as [ssb'|] eqn:E2; [|discriminate]. inversion Hden; subst ssb'. clear Hden.
  (* the definition *)
  unfold r1 in E1. cbn [denote_record] in E1.
  destruct ((16 <=? l) || (c_MesgNumFileId =? c_MesgNumInvalid) || negb (forallb (compat c_MesgNumFileId) fds)) eqn:Echk; [discriminate|].
  apply orb_false_elim in Echk. destruct Echk as [Echk Ec]. apply orb_false_elim in Echk. destruct Echk as [El _].
  apply N.leb_gt in El. apply negb_false_iff in Ec.
  unfold rec_wf in Hwf1. apply andb_prop in Hwf1. destruct Hwf1 as [_ Hextra]. unfold r1 in Hextra.
  apply andb_prop in Hextra. destruct Hextra as [_ Hcan].
  set (d := mk_sdef be c_MesgNumFileId fds
              (fold_right (fun d acc => let '(_, sz, _) := d in (N.to_nat sz + acc)%nat) 0%nat (if devflag then devs else []))) in *.
  set (dm := mk_defmsg l be c_MesgNumFileId (map to_fdef fds) (if devflag then devs else [])).
  assert (Hdm : dm_ok dm d) by (unfold dm_ok, dm, d; cbn [dm_be dm_gmn dm_fdefs dm_devs sd_be sd_gmn sd_fds sd_devsize]; repeat split; assumption).
  inversion E1; subst ssa. clear E1.
  (* the data record *)
  unfold r2 in E2. cbn [denote_record] in E2.
  unfold denote_data in E2. cbn [ss_env ss_init ss_ref ss_msgs ss_unkm ss_unkf] in E2.
  rewrite lookup_def_cons, N.eqb_refl in E2.
  destruct (negb (Nat.eqb (List.length pay) (payload_size d)) || negb (Nat.eqb (List.length dev) (sd_devsize d))) eqn:Elen; [discriminate|].
  apply orb_false_elim in Elen. destruct Elen as [Elp Eld].
  apply negb_false_iff, Nat.eqb_eq in Elp. apply negb_false_iff, Nat.eqb_eq in Eld.
  change (sd_gmn d) with c_MesgNumFileId in E2. rewrite known_fileid in E2.
  destruct (mesg_all_invalid c_MesgNumFileId) as [m0|] eqn:Emai; [|discriminate].
  change (sd_be d) with be in *. change (sd_fds d) with fds in *.
  pose proof (denote_fields_num be c_MesgNumFileId fds pay m0 None []) as Hnum.
  destruct (denote_fields be c_MesgNumFileId fds pay m0 None []) as [[m2 ref2] unl] eqn:Edf. cbn [fst] in Hnum.
  inversion E2; subst ssb. clear E2. cbn [ss_msgs app hd] in Hstart |- *.
  rewrite (mai_num _ _ Emai) in Hnum.
  unfold start_file in Hstart.
  destruct (file_add (new_file h) g m2) as [f1 g1'|w] eqn:Eadd; [|discriminate].
  destruct (file_init f1) as [f2'|] eqn:Einit; [|discriminate]. inversion Hstart; subst f2' g1'. clear Hstart.
  destruct (file_init_valid _ _ Einit) as [Hft Hinited].
  unfold rec_wf in Hwf2. apply andb_prop in Hwf2. destruct Hwf2 as [Hbytes _]. unfold r2 in Hbytes. cbn [ser_record] in Hbytes.
  change (l :: pay ++ dev) with ([l] ++ pay ++ dev) in Hbytes.
  apply all_bytes_app in Hbytes. destruct Hbytes as [_ Hbytes]. apply all_bytes_app in Hbytes. destruct Hbytes as [Hbp _].
  (* run the program *)
  unfold r1, r2 in Hlim |- *. rewrite ser_record_def in Hlim |- *. cbn [ser_record List.length] in Hlim |- *. rewrite app_length in Hlim.
  rewrite run_bind. unfold parse_file_id_msg.
  rewrite <- app_comm_cons. rewrite step_read_byte by lia.
  destruct (def_header_facts l devflag El) as (Hh1 & Hh2 & Hh3 & Hh4).
  rewrite Hh2, N.eqb_refl. cbn [negb].
  rewrite run_bind. rewrite ast_at_app.
  rewrite (parse_definition_message_ser l be c_MesgNumFileId fds devflag devs ((l :: pay ++ dev) ++ tl) t (0 + 1)%nat lim _ El
             ltac:(reflexivity) ltac:(discriminate) Ec) by lia.
  cbn [rbind dm_gmn]. rewrite N.eqb_refl. cbn [negb].
  unfold set_def, get_st, put_st. cbn [bind]. rewrite run_get, run_put. cbn [dm_local].
  rewrite ast_at_nil_app. rewrite step_read_byte by lia.
  rewrite N.land_0_r. change (0 =? c_mesgHeaderMask) with true. cbn [negb].
  set (sa := with_defs (init_dstate (new_file h) g) (set_nth (N.to_nat l) (Some dm) (ds_defs (init_dstate (new_file h) g)))).
  assert (Hnth : nth (N.to_nat l) (ds_defs sa) None = Some dm).
  { unfold sa. cbn [with_defs ds_defs init_dstate]. apply nth_set_nth_eq. rewrite repeat_length. lia. }
  rewrite run_bind.
  rewrite (data_message_uses_own_slot o l false _ sa dm) by (rewrite (data_header_local l El); exact Hnth).
  unfold data_message_with. cbn [dm_gmn dm]. rewrite known_fileid, Emai. rewrite bind_ret. cbn [negb].
  destruct (data_fields_known o dm d [] Hdm known_fileid m0 None sa pay dev tl t (0 + 1 + List.length (def_body be c_MesgNumFileId fds devflag devs) + 1)%nat lim
              Elp Eld Hbp eq_refl (fun _ => eq_refl) ltac:(lia))
    as (hs' & ts' & lo' & uf' & Hrun & Ht & Hu1 & Hu2).
  change (sd_be d) with be in Hrun, Ht, Hu1. change (sd_gmn d) with c_MesgNumFileId in Hrun, Ht, Hu1. change (sd_fds d) with fds in Hrun, Ht, Hu1.
  rewrite Edf in Hrun, Ht, Hu1. cbn [fst snd] in Hrun, Ht, Hu1.
  rewrite Hrun. cbn [rbind]. rewrite Hnum, N.eqb_refl.
  unfold add_msg, get_st, put_st. cbn [bind]. rewrite run_get.
  change (ds_file (st_upd sa hs' ts' lo' uf')) with (new_file h). change (ds_g (st_upd sa hs' ts' lo' uf')) with g.
  rewrite Eadd. rewrite run_put. cbn [rbind run_a].
  unfold do_init, get_st, put_st. cbn [bind]. rewrite run_get. cbn [with_file ds_file ds_g]. rewrite Einit. rewrite run_put. cbn [run_a].
  eexists. exists (file_type f1). split.
  { f_equal. f_equal. rewrite app_length. cbn [List.length]. lia. }
  constructor; cbn [with_file st_upd ds_defs ds_ts ds_lastoff ds_hasts ds_unkf ds_unkm ds_file ds_g ss_env ss_ref ss_msgs ss_unkm ss_unkf sa with_defs init_dstate];
    try assumption.
  - rewrite set_nth_length. apply repeat_length.
  - intros l' Hl'. rewrite lookup_def_cons.
    destruct (N.eqb_spec l l') as [<-|Hne].
    + rewrite nth_set_nth_eq by (rewrite repeat_length; lia). exact Hdm.
    + rewrite nth_set_nth_neq by (intros E; apply Hne; now apply N2Nat.inj). rewrite nth_repeat_none. exact I.
  - intros l' d'. rewrite lookup_def_cons. destruct (N.eqb_spec l l') as [<-|Hne]; [intros _; exact El|discriminate].
  - intros _. reflexivity.
  - exists []. split; reflexivity.
Qed.

(* ------------------------------------------------------------ the whole buffered phase *)
Theorem data_prog_denote : forall o h g l be fds (devflag : bool) (devs : list (N * N * N)) pay dev rest ss1 f2 g1 tl t fuel,
  let rs := RDef l be c_MesgNumFileId fds devflag devs :: RData l pay dev :: rest in
  stream_wf rs = true -> denote rs = Some ss1 ->
  start_file h g (hd dummy_msg (ss_msgs ss1)) = Some (f2, g1) ->
  (List.length rest < fuel)%nat ->
  exists s1 ft,
    run_a (data_prog o false fuel) (ast_at (ser_records rs) tl t 0 (List.length (ser_records rs))) (init_dstate (new_file h) g) =
      ROk tt (ast_at [] tl t (List.length (ser_records rs)) (List.length (ser_records rs))) s1 /\
    Inv o [hd dummy_msg (ss_msgs ss1)] f2 g1 ft s1 ss1.
Proof.
  intros o h g l be fds devflag devs pay dev rest ss1 f2 g1 tl t fuel rs Hwf Hden Hstart Hfuel.
  set (r1 := RDef l be c_MesgNumFileId fds devflag devs) in *. set (r2 := RData l pay dev) in *.
  unfold rs in *. cbn [stream_wf forallb] in Hwf.
  apply andb_prop in Hwf. destruct Hwf as [Hwf1 Hwf]. apply andb_prop in Hwf. destruct Hwf as [Hwf2 Hwf].
  unfold denote in Hden.
  change (r1 :: r2 :: rest) with ([r1; r2] ++ rest) in Hden.
  assert (Happ : forall a b s, denote_from s (a ++ b) = match denote_from s a with Some s' => denote_from s' b | None => None end).
  { induction a as [|x a IH]; intros b s; cbn [app denote_from]; [reflexivity|]. destruct (denote_record s x); [apply IH|reflexivity]. }
  rewrite Happ in Hden. destruct (denote_from ss_init [r1; r2]) as [ssb|] eqn:Eb; [|discriminate].
  destruct (denote_from_msgs _ _ _ Hden) as [ms Hms].
  assert (Hhd : hd dummy_msg (ss_msgs ss1) = hd dummy_msg (ss_msgs ssb)).
  { rewrite Hms. cbn [denote_from] in Eb.
    destruct (denote_record ss_init r1) as [ssa|] eqn:E1; [|discriminate].
    destruct (denote_record ssa r2) as [ssb'|] eqn:E2; [|discriminate]. inversion Eb; subst ssb'.
    destruct (ss_msgs ssb) as [|x xs] eqn:Em; [|reflexivity]. exfalso.
    (* the file_id data record produced a message *)
    unfold r1 in E1. cbn [denote_record] in E1. destruct (_ || _) in E1; [discriminate|]. inversion E1; subst ssa.
    unfold r2 in E2. cbn [denote_record] in E2. unfold denote_data in E2. cbn [ss_env] in E2.
    rewrite lookup_def_cons, N.eqb_refl in E2. destruct (_ || _) in E2; [discriminate|].
    cbn [sd_gmn] in E2. rewrite known_fileid in E2.
    destruct (mesg_all_invalid c_MesgNumFileId); [|discriminate].
    destruct (denote_fields _ _ _ _ _ _ _) as [[m2 ref2] unl]. inversion E2; subst ssb. cbn [ss_msgs ss_init app] in Em. discriminate. }
  rewrite Hhd in Hstart |- *.
  change (ser_records ([r1; r2] ++ rest)) with (ser_record r1 ++ ser_record r2 ++ ser_records rest) in *.
  change (ser_records (r1 :: r2 :: rest)) with (ser_record r1 ++ ser_record r2 ++ ser_records rest) in *.
  set (L := List.length (ser_record r1 ++ ser_record r2 ++ ser_records rest)).
  assert (HL : L = (List.length (ser_record r1) + List.length (ser_record r2) + List.length (ser_records rest))%nat)
    by (unfold L; rewrite !app_length; lia).
  unfold data_prog.
  change (bind (parse_file_id_msg o) (fun _ => bind do_init (fun _ => decode_file_data o fuel)))
    with (bind (parse_file_id_msg o) (fun _ => bind do_init (fun _ => decode_file_data o fuel))).
  assert (Hassoc : forall x s, run_a (bind (parse_file_id_msg o) (fun _ => bind do_init (fun _ => decode_file_data o fuel))) x s =
                               rbind (run_a (bind (parse_file_id_msg o) (fun _ => do_init)) x s)
                                     (fun _ x' s' => run_a (decode_file_data o fuel) x' s')).
  { intros x s. rewrite !run_bind. destruct (run_a (parse_file_id_msg o) x s); cbn [rbind]; try reflexivity. now rewrite run_bind. }
  rewrite Hassoc.
  rewrite app_assoc. rewrite ast_at_app.
  destruct (prologue_ok o h g l be fds devflag devs pay dev ssb f2 g1 (ser_records rest ++ tl) t L Hwf1 Hwf2 Eb Hstart ltac:(fold r1 r2; lia))
    as (sb & ft & Hrun & HIb).
  fold r1 r2 in Hrun. rewrite Hrun. cbn [rbind]. rewrite ast_at_nil_app.
  destruct (decode_denote_records rest o _ f2 g1 ft sb ssb ss1 tl t (List.length (ser_record r1) + List.length (ser_record r2))%nat L fuel HIb Hwf Hden ltac:(lia) Hfuel) as (s1 & Hrun1 & HI1).
  exists s1, ft. split; [exact Hrun1|exact HI1].
Qed.

Print Assumptions data_prog_denote.
