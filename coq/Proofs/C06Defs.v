(* C06 at stream level: the vocabulary shared by the pieces of the proof.
   - [sfdef_of]: the field definition writeDefMesg writes for a profile entry;
   - [menc]: message m was written under the definition [fields], field by field [parts];
   - [lay]: the record list Encode lays out for a list of messages (definition + data record per message of
     a pointer slot; one definition + one data record per message for a slice slot; local type 0 throughout);
   - [msg_norm_eq]: equality of messages up to the comparison C06 prescribes (norm_msg). *)
From Coq Require Import NArith ZArith List Bool String.
From FitV Require Import Model.Values Model.Bytes Model.Base Model.Profile Model.Components Model.Route Model.Encode
  Spec.FitSyntax Spec.Grammar Spec.RoundTrip Proofs.EncodeProofs Proofs.C05Grammar.
From FitV Require Export Spec.EncLayout.
Import ListNotations.
Local Open Scope N_scope.

(* the definition mentions every struct field of m that is set: a field that is not mentioned is unset *)
Definition covers (m : msg) (fields : list pfield) : Prop :=
  exists inv, mesg_all_invalid (m_num m) = Some inv /\ List.length (m_fields m) = List.length (m_fields inv) /\
    forall i v iv, nth_error (m_fields m) i = Some v -> nth_error (m_fields inv) i = Some iv ->
      unset v iv = true \/ exists pf, get_field_by_sindex (m_num m) i = Some pf /\ In (pf_num pf) (map pf_num fields).

Definition menc (be : bool) (m : msg) (fields : list pfield) (parts : list (list N)) : Prop :=
  Forall (from_profile (m_num m)) fields /\ NoDup (map pf_num fields) /\
  Forall2 (fun pf p => field_out be m pf = EOk p) fields parts /\ covers m fields.

Inductive lay (be : bool) : list msg -> list record -> Prop :=
| lay_nil : lay be [] []
| lay_unit : forall m fields parts ms rs, menc be m fields parts -> lay be ms rs ->
    lay be (m :: ms) (rdef_of be (m_num m) fields :: rdata_of parts :: rs)
| lay_slice : forall mn fields group partss ms rs, group <> [] -> Forall (fun m => m_num m = mn) group ->
    Forall2 (fun m parts => menc be m fields parts) group partss -> lay be ms rs ->
    lay be (group ++ ms) (rdef_of be mn fields :: map rdata_of partss ++ rs).

Definition msg_norm_eq (m m' : msg) : Prop := m_num m' = m_num m /\ norm_msg m' = norm_msg m.
