(* C18 on whole streams: vocabulary.  [stored_run] is File.add's treatment of a message sequence made explicit:
   every message of a type the container expands (record, lap, session, event, segment_lap held by a slot of the
   container proper) is replaced by expand_components of it, in stream order, threading the accumulator state. *)
From Coq Require Import NArith ZArith List Bool String.
From FitV Require Import Model.Values Model.Reflect Model.Profile Model.Components Model.Route Spec.RouteSpec Gen.Consts.
Import ListNotations.
Local Open Scope N_scope.

Fixpoint stored_run (ft : N) (g : gstate) (ms : list msg) : option (list msg * gstate) :=
  match ms with
  | [] => Some ([], g)
  | m :: r =>
      match stored ft g m with
      | None => None
      | Some (m', g') => match stored_run ft g' r with Some (l, gl) => Some (m' :: l, gl) | None => None end
      end
  end.

Lemma stored_run_seq ft : forall ms g l gl, stored_run ft g ms = Some (l, gl) -> stored_seq ft g ms = Some l.
Proof.
  induction ms as [|m r IH]; intros g l gl H; cbn [stored_run stored_seq] in *.
  - inversion H; reflexivity.
  - destruct (stored ft g m) as [[m' g']|]; [|discriminate].
    destruct (stored_run ft g' r) as [[l' gl']|] eqn:E; [|discriminate]. inversion H; subst.
    now rewrite (IH g' l' gl E).
Qed.

(* the three bytes of compressed_speed_distance of a record message, if it carries them *)
Definition csd_bytes (m : msg) : list N :=
  match fld m "CompressedSpeedDistance"%string with VList l => map uval l | _ => [] end.
(* the source is valid: three bytes, not all 0xFF (the test of the generated code) *)
Definition csd_valid (m : msg) : bool :=
  Nat.eqb (List.length (csd_bytes m)) 3 && existsb (fun v => negb (v =? 0xFF)) (csd_bytes m).

(* a message value of the shape the decoder produces: as many fields as the struct has *)
Definition msg_shape (m : msg) : Prop := List.length (m_fields m) = List.length (msg_layout (m_num m)).

Definition is_record (m : msg) : bool := m_num m =? c_MesgNumRecord.
Definition distance_of (m : msg) : N := uval (fld m "Distance"%string).
