(* C17, time half: decodeDateTime / encodeTime / IsBaseTime over all uint32
   second counts.  Pure Z arithmetic, no axioms. *)
From Coq Require Import ZArith Lia Bool.
From FitV Require Import Model.FitTime.
Local Open Scope Z_scope.

Lemma wrap64_id z : - 2 ^ 63 <= z < 2 ^ 63 -> wrap64 z = z.
Proof. intros H. unfold wrap64. rewrite Z.mod_small; lia. Qed.

Lemma second_pos : 0 < second.
Proof. unfold encode_time, time_sub, time_equal, time_before. cbn [t_sec t_nsec t_zone]. reflexivity. Qed.

Lemma u32_scaled u : is_u32 u -> - 2 ^ 63 <= u * second < 2 ^ 63.
Proof. unfold is_u32, second. intros H. lia. Qed.

(* addSec does not saturate for the offsets a uint32 can produce *)
Lemma add_sec_base u : is_u32 u -> add_sec 0 u = u.
Proof.
  unfold is_u32, add_sec, base_abs. intros H.
  rewrite wrap64_id by lia.
  destruct (Z.ltb_spec (0 + 62766662400) (0 + 62766662400 + u));
    destruct (Z.ltb_spec 0 u); cbv [Bool.eqb]; lia.
Qed.

Lemma time_add_base u : is_u32 u -> time_add time_base (u * second) = mk_time u 0 None.
Proof.
  intros H. unfold time_add, time_base. cbn [t_sec t_nsec t_zone].
  rewrite Z.quot_mul by (unfold second; lia).
  rewrite Z.rem_mul by (unfold second; lia).
  change (second <=? 0 + 0) with false. change (0 + 0 <? 0) with false. cbv iota.
  rewrite add_sec_base by assumption. reflexivity.
Qed.

(* decodeDateTime u is u whole seconds after the FIT epoch, in UTC *)
Lemma decode_whole_seconds u : is_u32 u -> decode_date_time u = mk_time u 0 None.
Proof.
  intros H. unfold decode_date_time.
  rewrite wrap64_id by (apply u32_scaled; assumption).
  apply time_add_base; assumption.
Qed.

Lemma decode_is_whole_second u : is_u32 u -> whole_second (decode_date_time u).
Proof.
  intros H. rewrite decode_whole_seconds by assumption.
  unfold whole_second; cbn. unfold is_u32 in H. repeat split; lia.
Qed.

(* Sub against timeBase never saturates on whole seconds a uint32 can count:
   2^32 s is about 136 years, the Duration range about 292 years *)
Lemma sub_no_saturation u : is_u32 u -> time_sub (mk_time u 0 None) time_base = u * second.
Proof.
  intros H. unfold time_sub, time_base. cbn [t_sec t_nsec t_zone].
  rewrite Z.sub_0_r.
  assert (Hu : - 2 ^ 63 <= u < 2 ^ 63) by (unfold is_u32 in H; lia).
  rewrite (wrap64_id u) by assumption.
  rewrite (wrap64_id (u * second)) by (apply u32_scaled; assumption).
  change (0 - 0) with 0. rewrite Z.add_0_r.
  rewrite (wrap64_id (u * second)) by (apply u32_scaled; assumption).
  fold time_base. rewrite time_add_base by assumption.
  unfold time_equal. cbn [t_sec t_nsec]. rewrite !Z.eqb_refl. reflexivity.
Qed.

Lemma encode_whole_seconds u : is_u32 u -> encode_time (mk_time u 0 None) = u.
Proof.
  intros H. unfold encode_time. rewrite sub_no_saturation by assumption.
  rewrite Z.quot_mul by (unfold second; lia).
  unfold to_uint32. apply Z.mod_small. exact H.
Qed.

(* the zone plays no role in encodeTime *)
Lemma encode_zone_irrelevant s n z z' : encode_time (mk_time s n z) = encode_time (mk_time s n z').
Proof. unfold encode_time, time_sub, time_equal, time_before. cbn [t_sec t_nsec t_zone]. reflexivity. Qed.

Theorem time_roundtrip u : is_u32 u -> encode_time (decode_date_time u) = u.
Proof.
  intros H. rewrite decode_whole_seconds by assumption. apply encode_whole_seconds; assumption.
Qed.

Theorem decode_injective u v : is_u32 u -> is_u32 v -> decode_date_time u = decode_date_time v -> u = v.
Proof.
  intros Hu Hv E. rewrite !decode_whole_seconds in E by assumption. congruence.
Qed.

(* onto the whole seconds: every whole second in range is hit, by its encoding *)
Theorem decode_surjective t : whole_second t -> is_u32 (encode_time t) /\ decode_date_time (encode_time t) = t.
Proof.
  destruct t as [s n z]. unfold whole_second. cbn [t_sec t_nsec t_zone].
  intros (Hs & -> & ->).
  rewrite encode_whole_seconds by exact Hs.
  split; [exact Hs|]. apply decode_whole_seconds. exact Hs.
Qed.

(* encodeTime is the inverse on the image, for any zone and any sub-second part
   truncated: stated for the image only, which is what the property asks *)

Theorem isbasetime_iff u : is_u32 u -> (is_base_time (decode_date_time u) = true <-> u = 0).
Proof.
  intros H. rewrite decode_whole_seconds by assumption.
  unfold is_base_time, time_equal, time_base. cbn [t_sec t_nsec].
  rewrite Z.eqb_refl, andb_true_r. apply Z.eqb_eq.
Qed.

(* IsBaseTime in general: exactly the instant of the epoch, in any zone *)
Lemma isbasetime_spec t : is_base_time t = true <-> t_sec t = 0 /\ t_nsec t = 0.
Proof.
  unfold is_base_time, time_equal, time_base. cbn [t_sec t_nsec].
  rewrite andb_true_iff, !Z.eqb_eq. tauto.
Qed.

(* the saturating branches of Sub are real: a witness far in the future *)
Lemma sub_saturates_somewhere : time_sub (mk_time (2 ^ 34) 0 None) time_base = max_int64.
Proof. vm_compute. reflexivity. Qed.

Example time_roundtrip_nonvacuous :
  is_u32 1000000000 /\ encode_time (decode_date_time 1000000000) = 1000000000 /\
  is_u32 (2 ^ 32 - 1) /\ encode_time (decode_date_time (2 ^ 32 - 1)) = 2 ^ 32 - 1.
Proof. unfold is_u32. repeat split; try lia; vm_compute; reflexivity. Qed.
