(* C04: the finite check behind burst16_nonzero: for each of the 8 bit alignments, all 65535
   non-zero 16-bit patterns placed in three bytes (least significant bit first) have a non-zero
   checksum from state 0.  Evaluated by vm_compute over the table of the current source. *)
From Coq Require Import NArith List Bool.
From FitV Require Import Gen.CrcTable Model.Crc Spec.Burst Proofs.Util.
Import ListNotations.
Local Open Scope N_scope.

Definition burst3_ok (s p : N) : bool := negb (update 0 (err_bytes 3 (N.shiftl p s)) =? 0).

Lemma burst3_table : forall s, s < 8 -> forallb (burst3_ok s) (range (N.to_nat 65535) 1) = true.
Proof.
  intros s Hs.
  apply (forall_below 8 (fun s => forallb (burst3_ok s) (range (N.to_nat 65535) 1))); [vm_compute; reflexivity|assumption].
Qed.

