(* Concrete instances showing that the hypotheses of the C10 / C11 theorems are satisfiable: a 25-byte valid
   file (12-byte header, file_id definition, file_id message, checksum) evaluated through the model. *)
From Coq Require Import NArith List Bool Arith Lia.
From FitV Require Import Model.Bytes Model.Crc Model.IO Model.Header Model.Route Model.Components Model.Decode
  Proofs.IOSim Proofs.C10IO Proofs.C10Frame Proofs.C11Cut.
Import ListNotations.
Local Open Scope N_scope.

Definition ex_body : list N := [12; 16; 100; 0; 11; 0; 0; 0; 46; 70; 73; 84; 0x40; 0; 0; 0; 0; 1; 0; 1; 0; 0; 4].
Definition ex_file : list N := ex_body ++ put_le16 (checksum ex_body).

Lemma ex_file_length : length ex_file = 25%nat.
Proof. vm_compute. reflexivity. Qed.

(* the file decodes alone, consuming its 25 bytes *)
Lemma ex_file_decodes : exists r, decode no_opts MFull g_init (solo ex_file) (solo_fuel ex_file) = TDone r /\
  dr_err r = None /\ rd_data (dr_rd r) = [] /\ rd_pos (dr_rd r) = 25%nat /\ dr_g r = g_init.
Proof. eexists. split; [vm_compute; reflexivity|]. repeat split. Qed.

Lemma ex_file_integrity : exists r, decode no_opts MCrcOnly g_init (solo ex_file) (solo_fuel ex_file) = TDone r /\
  dr_err r = None /\ rd_data (dr_rd r) = [].
Proof. eexists. split; [vm_compute; reflexivity|]. repeat split. Qed.

(* a chain of two such files *)
Lemma ex_chain : exists fs q, chain_ok no_opts g_init [ex_file; ex_file] fs g_init q /\ length fs = 2%nat.
Proof.
  eexists. eexists. split.
  - eapply chain_cons; [vm_compute; reflexivity|reflexivity|reflexivity|reflexivity|].
    eapply chain_cons; [vm_compute; reflexivity|reflexivity|reflexivity|reflexivity|].
    cbn [dr_g]. apply chain_nil.
  - reflexivity.
Qed.

(* the chained decode of the concatenation, read one byte at a time, with the last byte delivered together with EOF *)
Lemma ex_chained_concat : exists cr,
  entry_DecodeChained no_opts g_init (mk_reader (ex_file ++ ex_file) (repeat 1%nat 50) TEOF true 0) 120 = TDone cr /\
  cr_err cr = None /\ length (cr_files cr) = 2%nat /\ rd_pos (cr_rd cr) = 50%nat.
Proof. eexists. split; [vm_compute; reflexivity|]. repeat split. Qed.

(* every cut of the file is an error for Decode; cut at 24 with a read fault as well *)
Lemma ex_cuts_are_errors :
  forallb (fun k => match decode no_opts MFull g_init (mk_reader (firstn k ex_file) [3%nat; 0%nat; 7%nat] TEOF false 0) 60 with
                    | TDone r => match dr_err r with Some _ => true | None => false end
                    | _ => false
                    end) (seq 0 25) = true /\
  forallb (fun k => match decode no_opts MFull g_init (mk_reader (firstn k ex_file) [] TFault true 0) 60 with
                    | TDone r => match dr_err r with Some _ => true | None => false end
                    | _ => false
                    end) (seq 0 25) = true.
Proof. split; vm_compute; reflexivity. Qed.
