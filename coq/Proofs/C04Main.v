(* C04: the statements of Props/C04.v, phrased with the bitwise CRC-16/ARC of Spec/CrcSpec.v
   (the model's table-driven checksum is exchanged for it through checksum_is_arc on byte strings). *)
From Coq Require Import NArith ZArith List Bool Arith Lia.
From FitV Require Import Model.Values Model.Bytes Model.Crc Model.IO Model.Header Model.Route Model.Decode Gen.Consts
  Spec.CrcSpec Spec.Burst Spec.Integrity Spec.Grammar Proofs.Util Proofs.CrcProofs Proofs.C04Crc Proofs.C04IO
  Proofs.C04Verdict Proofs.C04Corrupt Proofs.C04Header.
Import ListNotations.
Local Open Scope N_scope.

(* CheckIntegrity(r, false), completely: for every byte string, terminal condition and chunk schedule *)
Theorem check_integrity_arc : forall o g fuel rd, is_bytes (rd_data rd) -> (measure rd < fuel)%nat ->
  exists r, decode o MCrcOnly g rd fuel = TDone r /\
    dr_err r = crc_verdict_with arc (rd_data rd) (rd_term rd) /\
    (dr_err r = None -> rd_pos (dr_rd r) = (rd_pos rd + frame_len (rd_data rd))%nat).
Proof.
  intros o g fuel rd Hb Hm. destruct (check_integrity_spec o g fuel rd Hm) as (r & E & Hr & Hp).
  exists r. rewrite <- verdict_arc by assumption. auto.
Qed.

(* what acceptance means: the bytes consumed are header ++ data ++ crc16 with CRC-16/ARC residue 0,
   and a stored non-zero header checksum has residue 0 over the 14 header bytes *)
Definition frame_sound (bs : list N) : Prop :=
  (hdr_size bs = 12 \/ hdr_size bs = 14)%nat /\ (frame_len bs <= length bs)%nat /\
  arc (firstn (frame_len bs) bs) = 0 /\
  (hdr_size bs = 14%nat -> stored_hdr_crc bs <> 0 -> arc (firstn 14 bs) = 0).

Lemma verdict_none_sound bs tm : crc_verdict_with arc bs tm = None -> frame_sound bs.
Proof.
  intros Hv. destruct (verdict_none_inv _ _ _ Hv) as (Hs & Hl & Hc).
  unfold frame_sound. split; [|split; [exact Hl|split; [exact Hc|]]].
  - destruct bs as [|sz t]; [discriminate Hs|]. unfold header_stage_with in Hs. unfold hdr_size, b_at. cbn [nth].
    destruct ((sz =? c_headerSizeCRC) || (sz =? c_headerSizeNoCRC)) eqn:E; cbn [negb] in Hs; [|discriminate Hs].
    apply orb_true_iff in E. destruct E as [E|E]; apply N.eqb_eq in E; subst sz; [right|left]; reflexivity.
  - intros H14 Hst. destruct bs as [|sz t]; [discriminate Hs|]. unfold header_stage_with in Hs.
    unfold hdr_size, b_at in H14. cbn [nth] in H14.
    assert (sz = 14) by lia. subst sz.
    change c_headerSizeCRC with 14 in Hs. change c_headerSizeNoCRC with 12 in Hs. cbn [N.eqb Pos.eqb orb negb] in Hs.
    destruct (Nat.ltb _ _); [discriminate Hs|]. destruct (negb (proto_ok _)); [discriminate Hs|].
    destruct (negb (list_eqb _ _)); [discriminate Hs|].
    apply N.eqb_neq in Hst. rewrite Hst in Hs.
    destruct (N.eqb_spec (arc (firstn 14 (14 :: t))) 0) as [Z|NZ]; [exact Z|discriminate Hs].
Qed.

Theorem accept_residue : forall o g fuel rd r md, (md = MFull \/ md = MCrcOnly) ->
  is_bytes (rd_data rd) -> (measure rd < fuel)%nat ->
  decode o md g rd fuel = TDone r -> dr_err r = None ->
  frame_sound (rd_data rd) /\ rd_pos (dr_rd r) = (rd_pos rd + frame_len (rd_data rd))%nat.
Proof.
  intros o g fuel rd r md Hmd Hb Hm Hd He. destruct Hmd as [->| ->].
  - destruct (full_accept o g fuel rd r Hm Hd He) as [Hv Hp]. rewrite verdict_arc in Hv by assumption.
    split; [eapply verdict_none_sound; eassumption|exact Hp].
  - destruct (check_integrity_arc o g fuel rd Hb Hm) as (r' & E & Hr & Hp). rewrite Hd in E. inversion E; subst r'.
    rewrite He in Hr. split; [eapply verdict_none_sound; symmetry; eassumption|now apply Hp].
Qed.

(* conversely: a sound frame with a legal header is accepted by CheckIntegrity *)
Theorem sound_frame_accepted : forall bs tm, bs <> [] ->
  (hdr_size bs = 12 \/ hdr_size bs = 14)%nat -> proto_ok (b_at bs 1) = true -> firstn 4 (skipn 8 bs) = fit_dtype ->
  (frame_len bs <= length bs)%nat -> arc (firstn (frame_len bs) bs) = 0 ->
  (hdr_size bs = 14%nat -> stored_hdr_crc bs <> 0 -> arc (firstn 14 bs) = 0) ->
  crc_verdict_with arc bs tm = None.
Proof.
  intros bs tm Hne Hsz Hp Hdt Hl Hc Hh. destruct bs as [|sz t]; [contradiction|].
  unfold crc_verdict_with.
  assert (Hs : header_stage_with arc (sz :: t) tm = None).
  { unfold header_stage_with. unfold hdr_size, b_at in Hsz, Hh. cbn [nth] in Hsz, Hh.
    rewrite Hp, Hdt, (list_eqb_true fit_dtype fit_dtype eq_refl). cbn [negb].
    replace (Nat.ltb (length (sz :: t)) (N.to_nat sz)) with false
      by (symmetry; apply Nat.ltb_ge; unfold frame_len, hdr_size, b_at in Hl; cbn [nth] in Hl; lia).
    destruct Hsz as [E|E].
    - assert (sz = 12) by lia. subst sz. reflexivity.
    - assert (sz = 14) by lia. subst sz. cbn [N.eqb Pos.eqb orb negb c_headerSizeCRC c_headerSizeNoCRC].
      destruct (N.eqb_spec (stored_hdr_crc (14 :: t)) 0) as [Z|NZ]; [reflexivity|].
      rewrite (Hh E NZ). reflexivity. }
  rewrite Hs.
  replace (Nat.ltb (length (sz :: t)) (hdr_size (sz :: t) + data_size (sz :: t))) with false
    by (symmetry; apply Nat.ltb_ge; unfold frame_len in Hl; lia).
  replace (Nat.ltb (length (sz :: t)) (frame_len (sz :: t))) with false by (symmetry; apply Nat.ltb_ge; lia).
  now rewrite Hc.
Qed.

(* the framing Encode is proved to emit (Spec/Grammar.v header_ok, trailer_ok; Proofs/EncodeProofs.v encode_framing)
   passes CheckIntegrity under every chunk schedule *)
Theorem encode_integrity_ok : forall bs, is_bytes bs ->
  header_ok bs = true -> trailer_ok bs = true -> proto_ok (nth 1 bs 0) = true ->
  forall o g fuel rd, rd_data rd = bs -> (measure rd < fuel)%nat ->
  exists r, decode o MCrcOnly g rd fuel = TDone r /\ dr_err r = None /\
            rd_pos (dr_rd r) = (rd_pos rd + length bs)%nat.
Proof.
  intros bs Hb Hh Ht Hp o g fuel rd Hd Hm. subst bs.
  destruct (check_integrity_arc o g fuel rd Hb Hm) as (r & E & Hr & Hpos).
  pose proof (grammar_integrity_ok (rd_data rd) (rd_term rd) Hb Hh Ht Hp) as Hv.
  exists r. split; [exact E|]. rewrite Hv in Hr. split; [exact Hr|]. rewrite (Hpos Hr). f_equal.
  (* header_ok says the string is exactly one frame *)
  unfold header_ok in Hh. cbv zeta in Hh.
  apply andb_true_iff in Hh. destruct Hh as [Hh _]. apply andb_true_iff in Hh. destruct Hh as [Hh _].
  apply andb_true_iff in Hh. destruct Hh as [_ Hlen]. apply N.eqb_eq in Hlen.
  destruct (verdict_none_inv arc (rd_data rd) (rd_term rd) Hv) as (_ & Hl & _).
  unfold frame_len, hdr_size, data_size in *. unfold hdrsize, datasize in Hlen.
  replace (le_num (firstn 4 (skipn 4 (rd_data rd)))) with (le32 (firstn 4 (skipn 4 (rd_data rd)))) in Hlen.
  - unfold b_at. lia.
  - rewrite le32_at. destruct (rd_data rd) as [|a0 [|a1 [|a2 [|a3 [|a4 [|a5 [|a6 [|a7 l]]]]]]]]; cbn [firstn skipn nth le_num]; lia.
Qed.

(* corruption, with the hypothesis phrased on the spec verdict *)
Theorem corruption_detected_arc : forall bs tm off p, is_bytes bs ->
  crc_verdict_with arc bs tm = None ->
  burst16 (frame_len bs) off p ->
  outside_size_fields (burst (frame_len bs) off p) = true ->
  forall rd, rd_data rd = xorl bs (burst (frame_len bs) off p) ->
  forall o g fuel, (measure rd < fuel)%nat ->
    (exists r, decode o MCrcOnly g rd fuel = TDone r /\ dr_err r <> None) /\
    (forall r, decode o MFull g rd fuel = TDone r -> dr_err r <> None).
Proof.
  intros bs tm off p Hb Hv. rewrite <- verdict_arc in Hv by assumption. now apply (corruption_detected bs tm).
Qed.

(* what Decode or CheckIntegrity accepted is detected as corrupt by both after any such burst *)
Theorem accepted_then_corrupted : forall o0 g0 fuel0 rd0 r0 md, (md = MFull \/ md = MCrcOnly) ->
  (measure rd0 < fuel0)%nat -> decode o0 md g0 rd0 fuel0 = TDone r0 -> dr_err r0 = None ->
  forall off p, burst16 (frame_len (rd_data rd0)) off p ->
  outside_size_fields (burst (frame_len (rd_data rd0)) off p) = true ->
  forall rd, rd_data rd = xorl (rd_data rd0) (burst (frame_len (rd_data rd0)) off p) ->
  forall o g fuel, (measure rd < fuel)%nat ->
    (exists r, decode o MCrcOnly g rd fuel = TDone r /\ dr_err r <> None) /\
    (forall r, decode o MFull g rd fuel = TDone r -> dr_err r <> None).
Proof.
  intros o0 g0 fuel0 rd0 r0 md Hmd Hm0 Hd0 He0 off p Hb Ho rd Hd o g fuel Hm.
  assert (Hv : crc_verdict_with checksum (rd_data rd0) (rd_term rd0) = None).
  { destruct Hmd as [->| ->].
    - now destruct (full_accept o0 g0 fuel0 rd0 r0 Hm0 Hd0 He0).
    - destruct (check_integrity_spec o0 g0 fuel0 rd0 Hm0) as (r' & E & Hr & _). rewrite Hd0 in E. inversion E; subst r'.
      now rewrite <- Hr. }
  eapply corruption_detected; eassumption.
Qed.
