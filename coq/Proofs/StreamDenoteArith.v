(* Stream-level decode = denote, layer 0b: byte-order and two's-complement arithmetic.
   The decoder reads fixed-width integers with get16/get32 after moving the wire bytes
   into a scratch buffer; the reference semantics reads the little/big-endian value of the
   wire bytes themselves (get_val) and sign-extends from the wire width. *)
From Coq Require Import NArith ZArith List Bool Lia Arith.
From Coq Require Import ZifyN ZifyNat ZifyBool.
From FitV Require Import Proofs.Util Model.Values Model.Bytes Model.Reflect Model.Decode Spec.FitSyntax.
Import ListNotations.
Local Open Scope N_scope.
Ltac Zify.zify_post_hook ::= Z.div_mod_to_equations.

Lemma get_val_1 be a : get_val be [a] = a.
Proof. destruct be; unfold get_val, be_val; cbn [fold_left le_val]; lia. Qed.
Lemma get16_val be a b : get16 be [a; b] = get_val be [a; b].
Proof. destruct be; unfold get16, be16, le16, get_val, be_val, b_at; cbn [nth fold_left le_val]; lia. Qed.
Lemma get32_val be a b c d : get32 be [a; b; c; d] = get_val be [a; b; c; d].
Proof. destruct be; unfold get32, be32, le32, get_val, be_val, b_at; cbn [nth fold_left le_val]; lia. Qed.

Lemma get_val_2_lt be a b : a < 256 -> b < 256 -> get_val be [a; b] < 65536.
Proof. intros Ha Hb. destruct be; unfold get_val, be_val; cbn [fold_left le_val]; lia. Qed.
Lemma get_val_4_lt be a b c d : a < 256 -> b < 256 -> c < 256 -> d < 256 -> get_val be [a; b; c; d] < 4294967296.
Proof. intros Ha Hb Hc Hd. destruct be; unfold get_val, be_val; cbn [fold_left le_val]; lia. Qed.

(* ---- widths: the three the profile can hold *)
Lemma pow8 : 2 ^ 8 = 256. Proof. reflexivity. Qed.
Lemma pow16 : 2 ^ 16 = 65536. Proof. reflexivity. Qed.
Lemma pow32 : 2 ^ 32 = 4294967296. Proof. reflexivity. Qed.

Lemma wrap_u_small bits x : x < 2 ^ bits -> wrap_u bits x = x.
Proof. intros H. unfold wrap_u. now apply N.mod_small. Qed.

Lemma to_signed_8 x : x < 256 -> (-128 <= to_signed 8 x < 128)%Z.
Proof. intros H. unfold to_signed. change (2 ^ (8 - 1)) with 128. change (2 ^ 8) with 256. destruct (N.ltb_spec x 128); lia. Qed.
Lemma to_signed_16 x : x < 65536 -> (-32768 <= to_signed 16 x < 32768)%Z.
Proof. intros H. unfold to_signed. change (2 ^ (16 - 1)) with 32768. change (2 ^ 16) with 65536. destruct (N.ltb_spec x 32768); lia. Qed.
Lemma to_signed_32 x : x < 4294967296 -> (-2147483648 <= to_signed 32 x < 2147483648)%Z.
Proof.
  intros H. unfold to_signed. change (2 ^ (32 - 1)) with 2147483648. change (2 ^ 32) with 4294967296.
  destruct (N.ltb_spec x 2147483648); lia.
Qed.

Lemma wrap_s_8 z : (-128 <= z < 128)%Z -> wrap_s 8 z = z.
Proof.
  intros H. unfold wrap_s, of_signed, to_signed. change (2 ^ (8 - 1)) with 128. change (2 ^ 8) with 256.
  change (Z.of_N 256) with 256%Z.
  destruct (N.ltb_spec (Z.to_N (z mod 256)) 128); lia.
Qed.
Lemma wrap_s_16 z : (-32768 <= z < 32768)%Z -> wrap_s 16 z = z.
Proof.
  intros H. unfold wrap_s, of_signed, to_signed. change (2 ^ (16 - 1)) with 32768. change (2 ^ 16) with 65536.
  change (Z.of_N 65536) with 65536%Z.
  destruct (N.ltb_spec (Z.to_N (z mod 65536)) 32768); lia.
Qed.
Lemma wrap_s_32 z : (-2147483648 <= z < 2147483648)%Z -> wrap_s 32 z = z.
Proof.
  intros H. unfold wrap_s, of_signed, to_signed. change (2 ^ (32 - 1)) with 2147483648. change (2 ^ 32) with 4294967296.
  change (Z.of_N 4294967296) with 4294967296%Z.
  destruct (N.ltb_spec (Z.to_N (z mod 4294967296)) 2147483648); lia.
Qed.

(* a value that fits a narrow signed type fits every wider one *)
Lemma wrap_s_widen bits z : (bits = 8 \/ bits = 16 \/ bits = 32) -> (-128 <= z < 128)%Z -> wrap_s bits z = z.
Proof. intros [ -> | [ -> | -> ] ] H; [apply wrap_s_8|apply wrap_s_16|apply wrap_s_32]; lia. Qed.
Lemma wrap_s_widen16 bits z : (bits = 16 \/ bits = 32) -> (-32768 <= z < 32768)%Z -> wrap_s bits z = z.
Proof. intros [ -> | -> ] H; [apply wrap_s_16|apply wrap_s_32]; lia. Qed.

(* ---- the 4-byte window the time and coordinate kinds are decoded from *)
Lemma extend4_u1 be a : get32 be (extend4 be false [a]) = a.
Proof.
  destruct be; unfold extend4, get32, be32, le32, b_at;
    cbn [List.length Nat.leb Nat.ltb andb Nat.sub repeat app nth firstn]; lia.
Qed.
Lemma extend4_u2 be a b : get32 be (extend4 be false [a; b]) = get_val be [a; b].
Proof.
  destruct be; unfold extend4, get32, be32, le32, get_val, be_val, b_at;
    cbn [List.length Nat.leb Nat.ltb andb Nat.sub repeat app nth firstn fold_left le_val]; lia.
Qed.
Lemma extend4_4 be sg a b c d : get32 be (extend4 be sg [a; b; c; d]) = get_val be [a; b; c; d].
Proof. unfold extend4. cbn [List.length Nat.leb firstn]. apply get32_val. Qed.

Lemma extend4_s1 be a : a < 256 -> to_signed 32 (get32 be (extend4 be true [a])) = to_signed 8 a.
Proof.
  intros Ha. unfold extend4. cbn [List.length Nat.leb Nat.ltb andb Nat.sub b_at nth].
  replace (if be then a else a) with a by (destruct be; reflexivity).
  unfold to_signed. change (2 ^ (8 - 1)) with 128. change (2 ^ 8) with 256.
  change (2 ^ (32 - 1)) with 2147483648. change (2 ^ 32) with 4294967296.
  destruct (N.leb_spec 128 a) as [Hs|Hs]; destruct be; unfold get32, be32, le32, b_at; cbn [repeat app nth];
    destruct (N.ltb_spec a 128); try lia;
    match goal with |- context [if ?c then _ else _] => destruct c eqn:E end; lia.
Qed.

Lemma extend4_s2 be a b : a < 256 -> b < 256 ->
  to_signed 32 (get32 be (extend4 be true [a; b])) = to_signed 16 (get_val be [a; b]).
Proof.
  intros Ha Hb. unfold extend4. cbn [List.length Nat.leb Nat.ltb andb Nat.sub b_at nth].
  unfold to_signed. change (2 ^ (16 - 1)) with 32768. change (2 ^ 16) with 65536.
  change (2 ^ (32 - 1)) with 2147483648. change (2 ^ 32) with 4294967296.
  destruct be; unfold get32, be32, le32, get_val, be_val, b_at; cbn [fold_left le_val].
  - destruct (N.leb_spec 128 a) as [Hs|Hs]; cbn [repeat app nth];
      repeat match goal with |- context [if ?c then _ else _] => destruct c eqn:? end; lia.
  - destruct (N.leb_spec 128 b) as [Hs|Hs]; cbn [repeat app nth];
      repeat match goal with |- context [if ?c then _ else _] => destruct c eqn:? end; lia.
Qed.

(* ---- lists cut into fixed-size elements *)
Lemma split_every_1 {B} (f : list N -> B) : forall fuel l, (List.length l <= fuel)%nat ->
  map f (split_every 1 fuel l) = map (fun x => f [x]) l.
Proof.
  induction fuel as [|fu IH]; intros l Hl.
  - destruct l; [reflexivity|cbn in Hl; lia].
  - destruct l as [|a r]; [reflexivity|]. cbn [split_every firstn skipn map].
    rewrite IH by (cbn in Hl; lia). reflexivity.
Qed.

Lemma split_every_step k f l : l <> [] -> split_every k (S f) l = firstn k l :: split_every k f (skipn k l).
Proof. destruct l; [congruence|reflexivity]. Qed.

Lemma split_every_elems k : (0 < k)%nat -> forall fuel l, (List.length l <= fuel)%nat ->
  (List.length l mod k = 0)%nat ->
  Forall (fun e => List.length e = k /\ incl e l) (split_every k fuel l).
Proof.
  intros Hk. induction fuel as [|fu IH]; intros l Hl Hm.
  - constructor.
  - destruct (list_eq_dec N.eq_dec l []) as [->|Hne]; [constructor|].
    assert (Hpos : (0 < List.length l)%nat) by (destruct l; [congruence|cbn; lia]).
    assert (Hge : (k <= List.length l)%nat).
    { destruct (Nat.le_gt_cases k (List.length l)) as [Hc|Hc]; [assumption|].
      rewrite Nat.mod_small in Hm by assumption. lia. }
    rewrite split_every_step by assumption.
    constructor.
    + split; [rewrite firstn_length; lia|]. intros x Hx. rewrite <- (firstn_skipn k l). apply in_or_app. now left.
    + assert (Hlen : List.length (skipn k l) = (List.length l - k)%nat) by apply skipn_length.
      assert (Hm' : (List.length (skipn k l) mod k = 0)%nat).
      { rewrite Hlen. rewrite <- Hm.
        replace (List.length l mod k)%nat with (((List.length l - k) + 1 * k) mod k)%nat
          by (f_equal; lia).
        rewrite Nat.mod_add by lia. reflexivity. }
      specialize (IH (skipn k l) ltac:(lia) Hm').
      eapply Forall_impl; [|exact IH]. intros e [He Hi]. split; [assumption|].
      intros x Hx. rewrite <- (firstn_skipn k l). apply in_or_app. right. now apply Hi.
Qed.
