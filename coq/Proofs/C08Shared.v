(* C08/C09: the tie between the model's shared state and the source.
   Gen/SharedState.v is regenerated from the source tree on every check; the
   statements below are closed computations over it.  They fail to check as
   soon as code reachable from the entry points writes (or lets escape to
   writing code) any package-level variable other than the three
   accumulators of Model/Components.v [gstate], starts using a sync-typed
   package-level variable, or lets a map iteration order escape. *)
From Coq Require Import NArith String List Bool.
From FitV Require Import Gen.SharedState Model.Components.
Import ListNotations.
Local Open Scope string_scope.

(* the fields of gstate, by the Go variable each stands for *)
Definition gstate_variables : list (string * string) :=
  [("g_power", "fit.accumuAccumulatedPower"); ("g_dist", "fit.accumuDistance"); ("g_cycles", "fit.accumuTotalCycles")].

Lemma written_globals_are_gstate : written_globals = map snd gstate_variables.
Proof. reflexivity. Qed.

Lemma no_sync_global_used : sync_globals_used = [].
Proof. reflexivity. Qed.

Lemma no_map_order_escapes : unordered_map_ranges = [].
Proof. reflexivity. Qed.

(* the three accumulators are declared, and as pointers to uint32Accumulator *)
Lemma accumulators_declared :
  forallb (fun v => existsb (fun g => String.eqb (fst (fst g) ++ "." ++ snd (fst g)) v && String.eqb (snd g) "*fit.uint32Accumulator") globals)
          (map snd gstate_variables) = true.
Proof. vm_compute. reflexivity. Qed.

Lemma entry_points_analysed :
  entry_points = ["Decode"; "DecodeChained"; "CheckIntegrity"; "DecodeHeader"; "DecodeHeaderAndFileID"; "Encode"].
Proof. reflexivity. Qed.

(* every write the analysis found is in the expansion of record messages *)
Lemma writes_only_in_record_expansion :
  forallb (fun d => String.eqb (snd d) "(*fit.RecordMsg).expandComponents") written_detail = true.
Proof. vm_compute. reflexivity. Qed.
