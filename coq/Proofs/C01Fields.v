(* C01: the validator never panics on bytes, and what it admits is stored
   without panic for ANY data bytes, by parseDataFields. *)
From Coq Require Import NArith ZArith List Bool Arith Lia.
From FitV Require Import Proofs.Util Model.Values Model.Bytes Model.Base Model.Profile Model.Reflect Model.IO
  Model.Route Model.Decode Spec.ProfileWf Proofs.ProfileProofs
  Proofs.C01Hoare Proofs.C01Cells Proofs.C01CellsCheckA Proofs.C01CellsCheckB.
Import ListNotations.
Local Open Scope N_scope.

(* ---- derived rules for the decoder's primitives *)
Lemma np_get_st {A} (k : dstate -> P A) x s Q : np (k s) x s Q -> np (bind get_st k) x s Q.
Proof. exact (fun H => H). Qed.
Lemma np_put_st {A} s' (k : unit -> P A) x s Q : np (k tt) x s' Q -> np (bind (put_st s') k) x s Q.
Proof. exact (fun H => H). Qed.
Lemma np_bind_ret {A B} (a : A) (k : A -> P B) x s Q : np (k a) x s Q -> np (bind (Ret a) k) x s Q.
Proof. exact (fun H => H). Qed.
Lemma np_bind_fail {A B} e (k : A -> P B) x s Q : np (bind (fail e) k) x s Q.
Proof. exact I. Qed.
Lemma np_bind_read_byte {A} (k : N -> P A) x s Q : AInv x ->
  (forall b x', isbyte b -> AInv x' -> a_n x' = (a_n x + 1)%nat -> a_limit x' = a_limit x -> np (k b) x' s Q) ->
  np (bind read_byte k) x s Q.
Proof. intros HA H. unfold read_byte. cbn [bind]. apply np_read_byte; [assumption|]. intros; cbn [bind]; now apply H. Qed.
Lemma np_bind_read_full {A} n (k : list N -> P A) x s Q : AInv x ->
  (forall l x', Forall isbyte l -> List.length l = n -> AInv x' -> a_n x' = (a_n x + n)%nat -> a_limit x' = a_limit x -> np (k l) x' s Q) ->
  np (bind (read_full n) k) x s Q.
Proof. intros HA H. unfold read_full. cbn [bind]. apply np_read_full; [assumption|]. intros; cbn [bind]; now apply H. Qed.

(* ---- all planes *)
Lemma all_planes k arr pb : desc_valid k arr pb = true -> plane_ok k arr = true.
Proof.
  unfold desc_valid. intros H.
  apply andb_prop in H. destruct H as [H H3]. apply andb_prop in H. destruct H as [H _].
  apply andb_prop in H. destruct H as [Hk _]. apply N.leb_le in Hk.
  assert (Hc : k = 0 \/ k = 1 \/ k = 2 \/ k = 3 \/ k = 4) by lia.
  assert (Ha : k <> 0 -> arr = false).
  { intros NE. destruct (N.eqb_spec k kind_native) as [E|_]; [contradiction|]. destruct arr; [discriminate|reflexivity]. }
  clear H3 Hk.
  destruct Hc as [E|[E|[E|[E|E]]]].
  - rewrite E. destruct arr; [exact plane_native_array|exact plane_native_scalar].
  - rewrite Ha by (rewrite E; discriminate). rewrite E. exact plane_time_utc.
  - rewrite Ha by (rewrite E; discriminate). rewrite E. exact plane_time_local.
  - rewrite Ha by (rewrite E; discriminate). rewrite E. exact plane_lat.
  - rewrite Ha by (rewrite E; discriminate). rewrite E. exact plane_lng.
Qed.

Lemma entry_desc gmn fdn pf : get_field gmn fdn = Some pf ->
  desc_valid (fit_kind (pf_t pf)) (fit_array (pf_t pf)) (fit_base (pf_t pf)) = true.
Proof. intros H. destruct (entry_desc_valid _ _ _ H) as [Hv Hpb]. exact Hv. Qed.

Lemma entry_cell gmn fdn pf bt sz : get_field gmn fdn = Some pf -> bt < 256 -> sz < 256 ->
  cell_ok (fit_kind (pf_t pf)) (fit_array (pf_t pf)) (fit_base (pf_t pf)) bt sz = true.
Proof.
  intros H Hbt Hsz. pose proof (entry_desc _ _ _ H) as Hv.
  pose proof (all_planes _ _ _ Hv) as Hp.
  destruct (entry_desc_valid _ _ _ H) as [_ Hpb].
  apply plane_cell; assumption.
Qed.

Lemma nodesc_cell bt sz : bt < 256 -> sz < 256 -> nocell_ok bt sz = true.
Proof. intros Hbt Hsz. apply (nodesc_on_cell _ nodesc_ok_true); now apply in_range256. Qed.

(* validateFieldDef never panics: for EVERY message number, field number,
   base-type byte and size byte *)
Theorem validate_no_panic : forall gmn fd w, fd_btype fd < 256 -> fd_size fd < 256 ->
  validate_field_def gmn fd <> VPanic w.
Proof.
  intros gmn fd w Hbt Hsz. rewrite validate_cell_eq.
  destruct (if known_msg gmn then get_field gmn (fd_num fd) else None) as [p|] eqn:E; cbn [option_map].
  - assert (Hg : get_field gmn (fd_num fd) = Some p) by (destruct (known_msg gmn); [assumption|discriminate]).
    pose proof (entry_cell _ _ _ _ _ Hg Hbt Hsz) as Hc. unfold cell_ok in Hc. unfold desc_of.
    destruct (validate_cell _ _ _); discriminate.
  - pose proof (nodesc_cell _ _ Hbt Hsz) as Hc. unfold nocell_ok in Hc.
    destruct (validate_cell _ _ _); discriminate.
Qed.

Lemma validate_all_no_panic gmn : forall fds w,
  Forall (fun fd => fd_btype fd < 256 /\ fd_size fd < 256) fds -> validate_all gmn fds <> VPanic w.
Proof.
  induction fds as [|fd r IH]; intros w H; cbn [validate_all]; [discriminate|].
  inversion H as [|? ? [H1 H2] Hr]; subst.
  pose proof (validate_no_panic gmn fd) as Hv.
  destruct (validate_field_def gmn fd) eqn:E; [now apply IH|discriminate|].
  intros Hc. inversion Hc; subst. now apply (Hv w).
Qed.

Lemma validate_all_ok gmn : forall fds, validate_all gmn fds = VOk -> Forall (fun fd => validate_field_def gmn fd = VOk) fds.
Proof.
  induction fds as [|fd r IH]; intros H; [constructor|]. cbn [validate_all] in H.
  destruct (validate_field_def gmn fd) eqn:E; try discriminate. constructor; auto.
Qed.

(* ---- the parts of the decoder state field parsing leaves alone *)
Definition frame (s s' : dstate) : Prop := ds_defs s' = ds_defs s /\ ds_file s' = ds_file s.
Lemma frame_refl s : frame s s. Proof. split; reflexivity. Qed.
Lemma frame_trans s1 s2 s3 : frame s1 s2 -> frame s2 s3 -> frame s1 s3.
Proof. intros [A B] [C D]. split; congruence. Qed.

Lemma parse_time_stamp_frame s u kind num : frame s (snd (parse_time_stamp s u kind num)).
Proof.
  unfold parse_time_stamp.
  repeat match goal with |- context [if ?c then _ else _] => destruct c end; cbn; split; reflexivity.
Qed.

(* the accepted definition of a listed field: its cell is safe to store *)
Lemma accepted_store_safe gmn fd p : get_field gmn (fd_num fd) = Some p ->
  validate_field_def gmn fd = VOk -> fd_btype fd < 256 -> fd_size fd < 256 ->
  store_safe (fit_kind (pf_t p)) (fit_array (pf_t p)) (fit_base (pf_t p)) (fd_btype fd) (fd_size fd) = true.
Proof.
  intros Hg Hv Hbt Hsz. destruct (entry_sound _ _ _ Hg) as (m & _ & F).
  rewrite validate_cell_eq, (ef_known _ _ _ _ F), Hg in Hv. cbn [option_map] in Hv. unfold desc_of in Hv.
  pose proof (entry_cell _ _ _ _ _ Hg Hbt Hsz) as Hc. unfold cell_ok in Hc. now rewrite Hv in Hc.
Qed.

Ltac fin HA Hf := split; [exact HA|split; [exact Hf|first [discriminate|assumption|intros _; discriminate]]].

(* one iteration of the field loop of parseDataFields *)
Lemma parse_one_field_np o dm fd msgv x s :
  AInv x ->
  validate_field_def (dm_gmn dm) fd = VOk -> fd_btype fd < 256 -> fd_size fd < 256 ->
  (known_msg (dm_gmn dm) = true -> msgv <> None) ->
  np (parse_one_field o dm (known_msg (dm_gmn dm)) fd msgv) x s
     (fun om x' s' => AInv x' /\ frame s s' /\ (known_msg (dm_gmn dm) = true -> om <> None)).
Proof.
  intros HA Hv Hbt Hsz Hm. unfold parse_one_field. cbv zeta.
  destruct (get_field (dm_gmn dm) (fd_num fd)) as [p|] eqn:Eg.
  - (* a field the profile lists *)
    destruct (entry_sound _ _ _ Eg) as (md & _ & F).
    pose proof (accepted_store_safe _ _ _ Eg Hv Hbt Hsz) as Hs.
    pose proof (ef_known _ _ _ _ F) as Hk. rewrite Hk in *. specialize (Hm eq_refl).
    destruct msgv as [m|]; [clear Hm|congruence].
    unfold store_safe in Hs. apply andb_prop in Hs. destruct Hs as [Hs1 Hs2].
    apply np_bind.
    assert (Hpre : np (if negb (fit_base (pf_t p) =? base_string) && negb (fit_array (pf_t p))
                       then match b_size (fit_base (pf_t p)) with None => panic 4 | Some _ => Ret tt end
                       else Ret tt) x s
                      (fun _ x' s' => x' = x /\ s' = s)).
    { destruct (negb (fit_base (pf_t p) =? base_string) && negb (fit_array (pf_t p))).
      - destruct (b_size (fit_base (pf_t p))); [split; reflexivity|discriminate].
      - split; reflexivity. }
    eapply np_conseq; [exact Hpre|]. cbv beta. intros _ x0 s0 [-> ->].
    apply np_bind_read_full; [assumption|]. intros buf x1 Hbuf Hlen HA1 _ _.
    cbn [negb]. rewrite (ef_type _ _ _ _ F), gotype_of_fit_desc.
    set (ty := gotype_of_desc (fit_kind (pf_t p)) (fit_array (pf_t p)) (fit_base (pf_t p))) in *.
    destruct (fit_kind (pf_t p) =? kind_native) eqn:Ek.
    + (* native *)
      destruct (negb (fit_array (pf_t p))).
      * rewrite <- Hlen in Hs2. pose proof (pff_safe_sound (dm_be dm) fd buf ty Hs2) as Hp.
        destruct (parse_fit_field (dm_be dm) fd buf ty); try discriminate Hp.
        -- apply np_ret. fin HA1 (frame_refl s).
        -- apply np_ret. fin HA1 (frame_refl s).
        -- exact I.
      * rewrite <- Hlen in Hs2. pose proof (pffa_safe_sound (dm_be dm) fd buf ty Hs2) as Hp.
        destruct (parse_fit_field_array (dm_be dm) fd buf ty); try discriminate Hp.
        -- apply np_ret. fin HA1 (frame_refl s).
        -- apply np_ret. fin HA1 (frame_refl s).
        -- exact I.
    + (* time and coordinate kinds *)
      destruct (b_signed (fd_btype fd)) as [sg|]; [|discriminate].
      destruct ((fit_kind (pf_t p) =? kind_timeutc) || (fit_kind (pf_t p) =? kind_timelocal)).
      * apply np_get_st.
        pose proof (parse_time_stamp_frame s (get32 (dm_be dm) (extend4 (dm_be dm) sg buf)) (fit_kind (pf_t p)) (pf_num p)) as Hf.
        destruct (parse_time_stamp s _ (fit_kind (pf_t p)) (pf_num p)) as [ov s'']. cbn [snd] in Hf.
        apply np_put_st.
        destruct ov as [v|].
        -- destruct ty; try discriminate Hs2. cbn. fin HA1 Hf.
        -- apply np_ret. fin HA1 Hf.
      * destruct (fit_kind (pf_t p) =? kind_lat).
        -- destruct ty; try discriminate Hs2. cbn. fin HA1 (frame_refl s).
        -- destruct (fit_kind (pf_t p) =? kind_lng); [|discriminate].
           destruct ty; try discriminate Hs2. cbn. fin HA1 (frame_refl s).
  - (* a field the profile does not list: skipped *)
    apply np_bind.
    assert (Hpre : np (if known_msg (dm_gmn dm) && o_unkf o
                       then s0 <- get_st ;; put_st (with_unkf s0 (bump2 (dm_gmn dm, fd_num fd) (ds_unkf s0)))
                       else Ret tt) x s
                      (fun _ x' s' => x' = x /\ frame s s')).
    { destruct (known_msg (dm_gmn dm) && o_unkf o); cbn; repeat split; reflexivity. }
    eapply np_conseq; [exact Hpre|]. cbv beta. intros _ x0 s0 [-> Hf].
    apply np_bind_read_full; [assumption|]. intros buf x1 Hbuf Hlen HA1 _ _.
    apply np_ret. fin HA1 Hf.
Qed.

Definition fdef_ok (gmn : N) (fd : fdef) : Prop :=
  validate_field_def gmn fd = VOk /\ fd_btype fd < 256 /\ fd_size fd < 256.

Lemma parse_fields_np o dm : forall fds msgv x s,
  AInv x -> Forall (fdef_ok (dm_gmn dm)) fds ->
  (known_msg (dm_gmn dm) = true -> msgv <> None) ->
  np (parse_fields o dm (known_msg (dm_gmn dm)) fds msgv) x s
     (fun om x' s' => AInv x' /\ frame s s' /\ (known_msg (dm_gmn dm) = true -> om <> None)).
Proof.
  induction fds as [|fd r IH]; intros msgv x s HA Hf Hm; cbn [parse_fields].
  - apply np_ret. fin HA (frame_refl s).
  - inversion Hf as [|? ? (Hv & Hbt & Hsz) Hr]; subst.
    apply np_bind. eapply np_conseq; [apply parse_one_field_np; eassumption|].
    cbv beta. intros om x' s' (HA' & Hfr & Hom).
    eapply np_conseq; [apply IH; eassumption|].
    cbv beta. intros om2 x2 s2 (HA2 & Hfr2 & Hom2). fin HA2 (frame_trans _ _ _ Hfr Hfr2).
Qed.

Lemma skip_dev_fields_np : forall devs x (s : dstate), AInv x ->
  np (skip_dev_fields devs) x s (fun _ x' s' => AInv x' /\ s' = s).
Proof.
  induction devs as [|[[a sz] c] r IH]; intros x s HA; cbn [skip_dev_fields].
  - apply np_ret. split; [assumption|reflexivity].
  - apply np_bind_read_full; [assumption|]. intros l x' _ _ HA' _ _. now apply IH.
Qed.

(* validate_admits_only_storable: a definition message whose field definitions
   the validator accepted is parsed without panic from ANY data bytes, in
   either byte order, for known and unknown messages alike *)
Theorem validate_admits_only_storable : forall o dm msgv x s,
  AInv x -> Forall (fdef_ok (dm_gmn dm)) (dm_fdefs dm) ->
  (known_msg (dm_gmn dm) = true -> msgv <> None) ->
  np (parse_data_fields o dm (known_msg (dm_gmn dm)) msgv) x s
     (fun om x' s' => AInv x' /\ frame s s' /\ (known_msg (dm_gmn dm) = true -> om <> None)).
Proof.
  intros o dm msgv x s HA Hf Hm. unfold parse_data_fields.
  apply np_bind. eapply np_conseq; [apply parse_fields_np; eassumption|].
  cbv beta. intros om x' s' (HA' & Hfr & Hom).
  apply np_bind. eapply np_conseq; [apply skip_dev_fields_np; assumption|].
  cbv beta. intros _ x2 s2 (HA2 & ->). apply np_ret. fin HA2 Hfr.
Qed.
