(* C15 speaks about the lookup tables "everywhere": the statements of Props/C15.v are about the tables as read out
   of the compiled library at the start of a run (Gen/ProfileData.v).  They describe the tables for the whole life
   of the process only if nothing reachable from the entry points writes them.  Gen/SharedState.v (the flow-based
   analysis over SSA regenerated from the source on every check, harness/gen_shared.go) classifies every
   package-level variable; the lemma below is the obligation that the profile tables and the base-type tables are
   read and never written by code reachable from Decode, DecodeChained, CheckIntegrity, DecodeHeader,
   DecodeHeaderAndFileID and Encode. *)
From Coq Require Import String List Bool.
From FitV Require Import Gen.SharedState.
Import ListNotations.
Local Open Scope string_scope.

Definition profile_tables : list string :=
  ["fit._fields"; "fit.knownMsgNums"; "fit.msgsTypes"; "fit.newMesgFuncs";
   "types.bsize"; "types.bsigned"; "types.binteger"; "types.goinvalid"].

Definition mem (v : string) (l : list string) : bool := existsb (String.eqb v) l.

Lemma mem_In v l : mem v l = true <-> In v l.
Proof.
  unfold mem. rewrite existsb_exists. split.
  - intros [x [Hx He]]. apply String.eqb_eq in He. subst. exact Hx.
  - intros H. exists v. split; [exact H | apply String.eqb_refl].
Qed.

Lemma profile_tables_read_only_b :
  forallb (fun v => mem v read_only_globals && negb (mem v written_globals) && negb (mem v sync_globals_used)) profile_tables = true.
Proof. vm_compute. reflexivity. Qed.

Lemma profile_tables_read_only : forall v, In v profile_tables ->
  In v read_only_globals /\ ~ In v written_globals /\ ~ In v sync_globals_used.
Proof.
  intros v Hv. pose proof profile_tables_read_only_b as H. rewrite forallb_forall in H. specialize (H v Hv).
  apply andb_true_iff in H. destruct H as [H Hs]. apply andb_true_iff in H. destruct H as [Hr Hw].
  split; [apply mem_In, Hr|]. split; intros Hin; apply mem_In in Hin.
  - rewrite Hin in Hw. discriminate.
  - rewrite Hin in Hs. discriminate.
Qed.
