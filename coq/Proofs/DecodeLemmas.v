(* Lemmas about the decoder model used by C02, C12, C13, C16. *)
From Coq Require Import NArith ZArith List Bool Lia Arith.
From Coq Require Import ZifyN ZifyNat ZifyBool.
From FitV Require Import Proofs.Util Proofs.RouteProofs Model.Values Model.Bytes Model.Base Model.Profile Model.Reflect Model.IO
  Model.Header Model.Components Model.Route Model.Decode Spec.FitSyntax Gen.Consts.
Import ListNotations.
Local Open Scope N_scope.
Ltac Zify.zify_post_hook ::= Z.div_mod_to_equations.

(* ------------------------------------------------------------ C13: local message types *)

(* the local message type addressed by a record header is always inside the 16 slots;
   compressed-timestamp headers address 0-3 with their two bits *)
Lemma normal_local_lt : forall b, N.land b c_localMesgNumMask < 16.
Proof. intros b. change c_localMesgNumMask with (N.ones 4). rewrite N.land_ones. apply N.mod_lt. discriminate. Qed.

Lemma compressed_local_2bits : forall b, b < 256 ->
  N.shiftr (N.land b c_compressedLocalMesgNumMask) 5 = (b / 32) mod 4 /\ N.shiftr (N.land b c_compressedLocalMesgNumMask) 5 < 4.
Proof.
  intros b Hb.
  pose proof (forall_below 256 (fun b => (N.shiftr (N.land b c_compressedLocalMesgNumMask) 5 =? (b / 32) mod 4) &&
                                         (N.shiftr (N.land b c_compressedLocalMesgNumMask) 5 <? 4))
                ltac:(vm_compute; reflexivity) b Hb) as H.
  apply andb_prop in H. destruct H as [H1 H2]. split; [now apply N.eqb_eq|now apply N.ltb_lt].
Qed.

(* the latest definition written for a local type is the one a later record of that type sees *)
Lemma latest_def_wins : forall (defs : list (option defmsg)) dm, (N.to_nat (dm_local dm) < List.length defs)%nat ->
  nth (N.to_nat (dm_local dm)) (set_nth (N.to_nat (dm_local dm)) (Some dm) defs) None = Some dm.
Proof. intros. now apply nth_set_nth_eq. Qed.

(* redefining one local type leaves every other slot as it was *)
Lemma slots_independent : forall (defs : list (option defmsg)) dm l', l' <> dm_local dm ->
  nth (N.to_nat l') (set_nth (N.to_nat (dm_local dm)) (Some dm) defs) None = nth (N.to_nat l') defs None.
Proof. intros defs dm l' H. apply nth_set_nth_neq. intros E. apply H. now apply N2Nat.inj. Qed.

(* a data record whose local type has no definition is an error, in every state and on every input *)
Lemma undefined_local_is_error : forall o b (compressed : bool) x s,
  nth (N.to_nat (if compressed then N.shiftr (N.land b c_compressedLocalMesgNumMask) 5 else N.land b c_localMesgNumMask))
      (ds_defs s) None = None ->
  run_a (parse_data_message o b compressed) x s = RFail EMissingDef x s.
Proof.
  intros o b compressed x s H. unfold parse_data_message. cbn [bind get_st run_a]. rewrite H. reflexivity.
Qed.

(* ... and the definition found is the only part of the slot table a data record consults: the program below
   takes the definition as a parameter and never reads ds_defs *)
Definition data_message_with (o : dopts) (b : N) (compressed : bool) (dm : defmsg) (s : dstate) : P (option msg) :=
  let gmn := dm_gmn dm in
  let known := known_msg gmn in
  bind (if known then match mesg_all_invalid gmn with None => panic 1 | Some m => Ret (Some m) end
        else bind (if o_unkm o then put_st (with_unkm s (bump1 gmn (ds_unkm s))) else Ret tt) (fun _ => Ret None))
       (fun msgv =>
          if negb compressed then parse_data_fields o dm known msgv else
          bind get_st (fun s =>
          if negb (ds_hasts s) then parse_data_fields o dm known msgv else
          let off := N.land b c_compressedTimeMask in
          let delta := (off + 32 - ds_lastoff s) mod 32 in
          let ts := (ds_ts s + delta) mod 2 ^ 32 in
          bind (put_st (with_time s ts off)) (fun _ =>
          match get_field gmn c_fieldNumTimeStamp with
          | Some p =>
              match msgv with
              | None => panic 2
              | Some m =>
                  match field_type gmn (pf_sindex p) with
                  | None => panic 2
                  | Some ty =>
                      match set_time ty (decode_date_time ts) with
                      | None => panic 3
                      | Some v => parse_data_fields o dm known (Some (msg_set m (pf_sindex p) v))
                      end
                  end
              end
          | None => parse_data_fields o dm known msgv
          end))).

Lemma data_message_uses_own_slot : forall o b (compressed : bool) x s dm,
  nth (N.to_nat (if compressed then N.shiftr (N.land b c_compressedLocalMesgNumMask) 5 else N.land b c_localMesgNumMask))
      (ds_defs s) None = Some dm ->
  run_a (parse_data_message o b compressed) x s = run_a (data_message_with o b compressed dm s) x s.
Proof.
  intros o b compressed x s dm H. unfold parse_data_message, data_message_with. cbn [bind get_st run_a]. rewrite H. reflexivity.
Qed.

(* ------------------------------------------------------------ C12: time rules *)

(* the compressed-timestamp rule: the reference advances to the next instant whose low five bits are
   the header's offset: by less than 32 seconds, and by 0 when the offset repeats *)
Lemma rollover_rule : forall r off, off < 32 ->
  let r' := r + (off + 32 - r mod 32) mod 32 in
  r' mod 32 = off /\ r <= r' < r + 32.
Proof. intros r off Ho. cbv zeta. split; lia. Qed.

(* the decoder's arithmetic is that rule whenever its invariant lastTimeOffset = timestamp mod 32 holds *)
Lemma model_step_is_rule : forall ts last off, last = ts mod 32 ->
  (ts + (off + 32 - last) mod 32) mod 2 ^ 32 = (ts + (off + 32 - ts mod 32) mod 32) mod 2 ^ 32.
Proof. intros; subst; reflexivity. Qed.

(* every explicit timestamp re-establishes the invariant, and every compressed step preserves it
   (away from the 2^32 wrap) *)
Lemma explicit_timestamp_invariant : forall u, N.land u c_compressedTimeMask = u mod 32.
Proof. intros u. change c_compressedTimeMask with (N.ones 5). apply N.land_ones. Qed.

Lemma compressed_step_invariant : forall ts off, off < 32 -> ts + 32 < 2 ^ 32 ->
  ((ts + (off + 32 - ts mod 32) mod 32) mod 2 ^ 32) mod 32 = off.
Proof. intros ts off Ho Hts. rewrite (N.mod_small (ts + _)) by lia. lia. Qed.

(* date_time: epoch + seconds; 0xFFFFFFFF leaves the field at its invalid value *)
Lemma date_time_value : forall u, decode_date_time u = VTime (Z.of_N u) 0 None.
Proof. reflexivity. Qed.
Lemma invalid_time_untouched : forall s kind num, parse_time_stamp s 0xFFFFFFFF kind num = (None, s).
Proof. reflexivity. Qed.

(* local_date_time with a usable reference: the reference instant, in a zone of offset local - UTC *)
Lemma local_time_with_reference : forall s u num, u <> 0xFFFFFFFF -> ds_hasts s = true -> c_systemTimeMarker <= ds_ts s ->
  parse_time_stamp s u kind_timelocal num = (Some (VTime (Z.of_N (ds_ts s)) 0 (Some (Z.of_N u - Z.of_N (ds_ts s))%Z)), s).
Proof.
  intros s u num Hu Hh Hts. unfold parse_time_stamp.
  destruct (N.eqb_spec u 0xFFFFFFFF); [contradiction|].
  change (kind_timelocal =? kind_timeutc) with false. cbv iota. rewrite Hh. cbn [negb orb].
  replace (ds_ts s <? c_systemTimeMarker) with false by (symmetry; apply N.ltb_ge; assumption).
  reflexivity.
Qed.

(* without a usable reference (none yet, or a power-on-relative one): offset 0, and the decoder state is untouched *)
Lemma local_time_without_reference : forall s u num, u <> 0xFFFFFFFF -> (ds_hasts s = false \/ ds_ts s < c_systemTimeMarker) ->
  parse_time_stamp s u kind_timelocal num = (Some (VTime (Z.of_N u) 0 (Some 0%Z)), s).
Proof.
  intros s u num Hu Hno. unfold parse_time_stamp.
  destruct (N.eqb_spec u 0xFFFFFFFF); [contradiction|].
  change (kind_timelocal =? kind_timeutc) with false. cbv iota.
  replace (negb (ds_hasts s) || (ds_ts s <? c_systemTimeMarker)) with true; [reflexivity|].
  symmetry. destruct Hno as [Hh|Hlt]; [rewrite Hh; reflexivity|]. apply orb_true_iff. right. now apply N.ltb_lt.
Qed.

(* ------------------------------------------------------------ C16: unknown-item lists *)
Require Import Coq.Sorting.Sorted Coq.Sorting.Permutation.

Lemma ins_unkm_perm x l : Permutation (x :: l) (ins_unkm x l).
Proof.
  induction l as [|y r IH]; simpl; [constructor; constructor|].
  destruct (fst x <? fst y); [apply Permutation_refl|].
  eapply perm_trans; [apply perm_swap|]. now constructor.
Qed.
Lemma sort_unkm_perm l : Permutation l (sort_unkm l).
Proof.
  unfold sort_unkm. induction l as [|x l IH]; simpl; [constructor|].
  eapply perm_trans; [|apply ins_unkm_perm]. now constructor.
Qed.

Definition le_unkm (a b : N * N) : Prop := fst a <= fst b.
Lemma ins_unkm_sorted x l : Sorted le_unkm l -> Sorted le_unkm (ins_unkm x l).
Proof.
  induction l as [|y r IH]; intros Hs; simpl; [repeat constructor|].
  destruct (fst x <? fst y) eqn:E.
  - constructor; [assumption|]. constructor. unfold le_unkm. apply N.ltb_lt in E. lia.
  - inversion Hs as [|? ? Hs' Hh]; subst. constructor; [now apply IH|].
    apply N.ltb_ge in E.
    destruct r as [|z r']; simpl.
    + constructor. exact E.
    + destruct (fst x <? fst z); constructor; try exact E. inversion Hh; subst. assumption.
Qed.
(* the list handed back is sorted by message number and is a permutation of the counters *)
Theorem unknown_messages_sorted l : Sorted le_unkm (sort_unkm l) /\ Permutation l (sort_unkm l).
Proof.
  split; [|apply sort_unkm_perm]. unfold sort_unkm. induction l as [|x l IH]; simpl; [constructor|].
  now apply ins_unkm_sorted.
Qed.

Lemma ins_unkf_perm x l : Permutation (x :: l) (ins_unkf x l).
Proof.
  induction l as [|y r IH]; simpl; [constructor; constructor|].
  destruct (unkf_lt x y); [apply Permutation_refl|].
  eapply perm_trans; [apply perm_swap|]. now constructor.
Qed.
Theorem unknown_fields_perm l : Permutation l (sort_unkf l).
Proof.
  unfold sort_unkf. induction l as [|x l IH]; simpl; [constructor|].
  eapply perm_trans; [|apply ins_unkf_perm]. now constructor.
Qed.

(* counting: one more for the key, every other key untouched, no key twice *)
Fixpoint count_of1 (k : N) (l : list (N * N)) : N :=
  match l with [] => 0 | (a, c) :: r => if a =? k then c else count_of1 k r end.
Lemma bump1_count k k' l : count_of1 k' (bump1 k l) = if k' =? k then count_of1 k' l + 1 else count_of1 k' l.
Proof.
  induction l as [|[a c] r IH]; simpl.
  - rewrite (N.eqb_sym k k'). destruct (k' =? k); reflexivity.
  - destruct (N.eqb_spec a k) as [->|NE]; simpl.
    + destruct (N.eqb_spec k k') as [->|NE']; [rewrite N.eqb_refl; reflexivity|].
      replace (k' =? k) with false by (symmetry; apply N.eqb_neq; congruence). reflexivity.
    + destruct (N.eqb_spec a k') as [->|NE'].
      * replace (k' =? k) with false by (symmetry; apply N.eqb_neq; congruence). reflexivity.
      * apply IH.
Qed.

(* the deferred handlers only fill the two lists: options never touch header, CRC, messages or file type *)
Theorem finalize_only_adds_lists o s :
  f_header (finalize_unknown o s) = f_header (ds_file s) /\ f_crc (finalize_unknown o s) = f_crc (ds_file s) /\
  f_slots (finalize_unknown o s) = f_slots (ds_file s) /\ f_inited (finalize_unknown o s) = f_inited (ds_file s) /\
  (o_unkm o = false -> f_unkm (finalize_unknown o s) = f_unkm (ds_file s)) /\
  (o_unkf o = false -> f_unkf (finalize_unknown o s) = f_unkf (ds_file s)).
Proof. unfold finalize_unknown. cbn. repeat split; intros H; rewrite H; reflexivity. Qed.
