(* C04 (b): verdict soundness of the decoder model, for every chunk schedule.
   - decode_header_spec: the header stage shared by all entry points computes header_stage;
   - check_integrity_spec: CheckIntegrity(r, false) computes crc_verdict (complete characterisation);
   - full_accept: if Decode returns no error, the bytes consumed are header ++ data ++ crc with
     residue 0 (and crc_verdict = None), hence decode_ok_integrity_ok. *)
From Coq Require Import NArith ZArith List Bool Arith Lia.
From Coq Require Import ZifyN ZifyNat ZifyBool.
From FitV Require Import Model.Values Model.Bytes Model.Crc Model.IO Model.Header Model.Route Model.Decode Gen.Consts
  Spec.CrcSpec Spec.Burst Spec.Integrity Proofs.Util Proofs.CrcProofs Proofs.IOSim Proofs.C04Crc Proofs.C04IO.
Import ListNotations.
Local Open Scope N_scope.
Ltac Zify.zify_post_hook ::= Z.div_mod_to_equations.

Notation header_stage_m := (header_stage_with checksum).
Notation crc_verdict_m := (crc_verdict_with checksum).

(* a list of known length, element by element *)
Ltac explode l H :=
  repeat (destruct l as [|? l]; [simpl in H; discriminate H|]); destruct l as [|? l]; [|simpl in H; discriminate H].

Lemma firstn_skipn_split {A} (n : nat) (l : list A) : l = firstn n l ++ skipn n l.
Proof. symmetry. apply firstn_skipn. Qed.

Lemma skipn_skipn' {A} : forall (x y : nat) (l : list A), skipn x (skipn y l) = skipn (y + x) l.
Proof. intros x y. induction y as [|y IH]; intros l; [reflexivity|]. destruct l; [now rewrite !skipn_nil|]. apply IH. Qed.

(* ------------------------------------------------------------------ the header stage *)
Theorem decode_header_spec fuel rd : (measure rd < fuel)%nat ->
  exists h crc rd', decode_header fuel rd = Done (header_stage_m (rd_data rd) (rd_term rd), h, crc, rd') /\
    (measure rd' <= measure rd)%nat /\
    (header_stage_m (rd_data rd) (rd_term rd) = None ->
       h = parse_header (rd_data rd) /\ crc = checksum (firstn (hdr_size (rd_data rd)) (rd_data rd)) /\
       adv rd rd' (firstn (hdr_size (rd_data rd)) (rd_data rd)) /\
       (hdr_size (rd_data rd) <= length (rd_data rd))%nat /\
       rd_data rd' = skipn (hdr_size (rd_data rd)) (rd_data rd)).
Proof.
  intros Hm. unfold decode_header.
  destruct (io_read_full_spec fuel rd 1 Hm) as (res & e & rd1 & E1 & Ha1 & Hok1 & Herr1). rewrite E1.
  destruct e as [e|].
  - destruct (Herr1 ltac:(discriminate)) as (Hlt & Hres & Hnil).
    destruct (rd_data rd) as [|b0 tl0] eqn:Ed; [|cbn in Hlt; lia].
    pose proof (io_read_full_err _ _ _ _ _ _ _ E1) as He. rewrite Hres in He.
    exists zero_header, 0, rd1. split; [|split; [apply (adv_meas _ _ _ Ha1)|]].
    + cbn [header_stage_with]. destruct (rd_term rd); subst e; reflexivity.
    + cbn [header_stage_with]. discriminate.
  - destruct (Hok1 eq_refl) as (Hres & Hlen & Hle & Hd1).
    destruct (rd_data rd) as [|sz tail] eqn:Ed; [cbn in Hle; lia|].
    cbn [firstn] in Hres. subst res. cbn [hd]. cbn [skipn] in Hd1.
    pose proof (adv_meas _ _ _ Ha1) as Hm1.
    cbn [header_stage_with].
    destruct ((sz =? c_headerSizeCRC) || (sz =? c_headerSizeNoCRC)) eqn:Esz; cbn [negb].
    2:{ exists (mk_header sz 0 0 0 [0; 0; 0; 0] 0), 0, rd1. split; [reflexivity|split; [exact Hm1|discriminate]]. }
    destruct (io_read_full_spec fuel rd1 (N.to_nat sz - 1) ltac:(lia)) as (t & e2 & rd2 & E2 & Ha2 & Hok2 & Herr2). rewrite E2.
    pose proof (adv_meas _ _ _ Ha2) as Hm2.
    assert (Hszpos : (1 <= N.to_nat sz)%nat).
    { apply orb_true_iff in Esz. destruct Esz as [E|E]; apply N.eqb_eq in E; subst sz; vm_compute; lia. }
    destruct e2 as [e2|].
    + destruct (Herr2 ltac:(discriminate)) as (Hlt & _ & _). rewrite Hd1 in Hlt.
      replace (Nat.ltb (length (sz :: tail)) (N.to_nat sz)) with true by (symmetry; apply Nat.ltb_lt; cbn [length]; lia).
      exists (mk_header sz 0 0 0 [0; 0; 0; 0] 0), 0, rd2. split; [reflexivity|split; [lia|discriminate]].
    + destruct (Hok2 eq_refl) as (Ht & Htlen & Htle & Hd2). rewrite Hd1 in Ht, Htle, Hd2.
      replace (Nat.ltb (length (sz :: tail)) (N.to_nat sz)) with false by (symmetry; apply Nat.ltb_ge; cbn [length]; lia).
      assert (Hadv : adv rd rd2 (firstn (N.to_nat sz) (sz :: tail))).
      { replace (firstn (N.to_nat sz) (sz :: tail)) with ([sz] ++ t).
        - eapply adv_trans; eassumption.
        - rewrite Ht. replace (N.to_nat sz) with (S (N.to_nat sz - 1)) at 2 by lia. reflexivity. }
      assert (Hskip : rd_data rd2 = skipn (N.to_nat sz) (sz :: tail)).
      { rewrite Hd2. replace (N.to_nat sz) with (S (N.to_nat sz - 1)) at 2 by lia. reflexivity. }
      assert (Hfit : (N.to_nat sz <= length (sz :: tail))%nat) by (cbn [length]; lia).
      assert (Hcrc : crc_write (crc_write crc_new [sz]) t = checksum (firstn (N.to_nat sz) (sz :: tail))).
      { unfold crc_write, crc_new, checksum. rewrite <- update_app. f_equal.
        rewrite Ht. replace (N.to_nat sz) with (S (N.to_nat sz - 1)) at 2 by lia. reflexivity. }
      assert (Htail : tail = t ++ skipn (N.to_nat sz - 1) tail) by (rewrite Ht; apply firstn_skipn_split).
      set (rest := skipn (N.to_nat sz - 1) tail) in Htail. clearbody rest. clear Ht Htle Hd1. subst tail.
      clear Hok1 Herr1 Hok2 Herr2 Hle Hlen.
      unfold hdr_size. cbn [b_at nth].
      apply orb_true_iff in Esz. destruct Esz as [E|E]; apply N.eqb_eq in E; subst sz.
      * change c_headerSizeCRC with 14 in *. change (N.to_nat 14 - 1)%nat with 13%nat in *. change (N.to_nat 14) with 14%nat in *.
        explode t Htlen.
        cbn [b_at nth firstn skipn app hd length] in *. cbn [N.eqb Pos.eqb c_headerSizeNoCRC].
        unfold parse_header, stored_hdr_crc. cbn [b_at nth firstn skipn app hd length]. cbn [N.eqb Pos.eqb c_headerSizeCRC].
        destruct (proto_ok _) eqn:Ep; cbn [negb].
        2:{ eexists _, _, rd2. split; [reflexivity|split; [lia|discriminate]]. }
        destruct (list_eqb _ fit_dtype) eqn:Edt; cbn [negb].
        2:{ eexists _, _, rd2. split; [reflexivity|split; [lia|discriminate]]. }
        cbn [h_proto h_profile h_dsize]. rewrite Hcrc. unfold crc_sum16.
        destruct (le16 _ =? 0) eqn:Ehc.
        { eexists _, _, rd2. split; [reflexivity|split; [lia|]]. intros _. split; [reflexivity|]. split; [reflexivity|]. split; [exact Hadv|]. split; [exact Hfit|exact Hskip]. }
        destruct (checksum _ =? 0) eqn:Ec; cbn [negb].
        { eexists _, _, rd2. split; [reflexivity|split; [lia|]]. intros _. split; [reflexivity|]. split; [reflexivity|]. split; [exact Hadv|]. split; [exact Hfit|exact Hskip]. }
        { eexists _, _, rd2. split; [reflexivity|split; [lia|discriminate]]. }
      * change c_headerSizeNoCRC with 12 in *. change (N.to_nat 12 - 1)%nat with 11%nat in *. change (N.to_nat 12) with 12%nat in *.
        explode t Htlen.
        cbn [b_at nth firstn skipn app hd length] in *. cbn [N.eqb Pos.eqb c_headerSizeCRC].
        unfold parse_header, stored_hdr_crc. cbn [b_at nth firstn skipn app hd length]. cbn [N.eqb Pos.eqb c_headerSizeCRC].
        destruct (proto_ok _) eqn:Ep; cbn [negb].
        2:{ eexists _, _, rd2. split; [reflexivity|split; [lia|discriminate]]. }
        destruct (list_eqb _ fit_dtype) eqn:Edt; cbn [negb].
        2:{ eexists _, _, rd2. split; [reflexivity|split; [lia|discriminate]]. }
        cbn [h_proto h_profile h_dsize]. rewrite Hcrc.
        eexists _, _, rd2. split; [reflexivity|split; [lia|]]. intros _. split; [reflexivity|]. split; [reflexivity|]. split; [exact Hadv|]. split; [exact Hfit|exact Hskip].
Qed.

(* every entry point starts with the header stage and returns its error unchanged *)
Theorem header_error_all_modes o md g fuel rd e : (measure rd < fuel)%nat ->
  header_stage_m (rd_data rd) (rd_term rd) = Some e ->
  exists r, decode o md g rd fuel = TDone r /\ dr_err r = Some e /\ dr_file r = None.
Proof.
  intros Hm He. unfold decode. destruct (decode_header_spec fuel rd Hm) as (h & crc & rd1 & E & _ & _).
  rewrite E, He. eexists. split; [reflexivity|]. split; reflexivity.
Qed.

(* DecodeHeader / CheckIntegrity(r, true) accept exactly when the header stage does *)
Theorem header_only_spec o g fuel rd : (measure rd < fuel)%nat ->
  exists r, decode o MHeaderOnly g rd fuel = TDone r /\ dr_err r = header_stage_m (rd_data rd) (rd_term rd) /\
            (dr_err r = None -> dr_hdr r = parse_header (rd_data rd) /\ rd_pos (dr_rd r) = (rd_pos rd + hdr_size (rd_data rd))%nat).
Proof.
  intros Hm. unfold decode. destruct (decode_header_spec fuel rd Hm) as (h & crc & rd1 & E & _ & Hok).
  rewrite E. destruct (header_stage_m (rd_data rd) (rd_term rd)) as [e|] eqn:Ehs.
  - eexists. split; [reflexivity|]. split; [reflexivity|discriminate].
  - destruct (Hok eq_refl) as (-> & -> & Hadv & Hle & Hd1).
    eexists. split; [reflexivity|]. split; [reflexivity|]. intros _. cbn [dr_hdr dr_rd]. split; [reflexivity|].
    rewrite (adv_pos _ _ _ Hadv), firstn_length. lia.
Qed.

(* ------------------------------------------------------------------ CheckIntegrity(r, false) *)
Theorem check_integrity_spec o g fuel rd : (measure rd < fuel)%nat ->
  exists r, decode o MCrcOnly g rd fuel = TDone r /\
    dr_err r = crc_verdict_m (rd_data rd) (rd_term rd) /\
    (dr_err r = None -> rd_pos (dr_rd r) = (rd_pos rd + frame_len (rd_data rd))%nat).
Proof.
  intros Hm. unfold decode. destruct (decode_header_spec fuel rd Hm) as (h & crc & rd1 & E & Hm1 & Hok).
  rewrite E. unfold crc_verdict_with. destruct (header_stage_m (rd_data rd) (rd_term rd)) as [e|] eqn:Ehs.
  - eexists. split; [reflexivity|]. split; [reflexivity|discriminate].
  - destruct (Hok eq_refl) as (-> & -> & Hadv & Hle & Hd1). clear Hok.
    set (bs := rd_data rd) in *.
    change (N.to_nat (h_dsize (parse_header bs))) with (data_size bs).
    destruct (io_copy_n_spec fuel rd1 (data_size bs) ltac:(lia)) as (res & e & rd2 & E2 & Ha2 & Hok2 & Herr2). rewrite E2.
    pose proof (adv_meas _ _ _ Ha2) as Hm2.
    assert (Hl1 : length (rd_data rd1) = (length bs - hdr_size bs)%nat) by (rewrite Hd1; apply skipn_length).
    destruct e as [e|].
    + destruct (Herr2 ltac:(discriminate)) as (Hlt & _ & _).
      replace (Nat.ltb (length bs) (hdr_size bs + data_size bs)) with true by (symmetry; apply Nat.ltb_lt; lia).
      eexists. split; [reflexivity|]. split; [reflexivity|discriminate].
    + destruct (Hok2 eq_refl) as (Hres & Hrlen & Hrle & Hd2). clear Hok2 Herr2.
      replace (Nat.ltb (length bs) (hdr_size bs + data_size bs)) with false by (symmetry; apply Nat.ltb_ge; lia).
      unfold check_crc.
      destruct (io_read_full_spec fuel rd2 2 ltac:(lia)) as (res3 & e3 & rd3 & E3 & Ha3 & Hok3 & Herr3). rewrite E3.
      assert (Hl2 : length (rd_data rd2) = (length bs - hdr_size bs - data_size bs)%nat) by (rewrite Hd2, skipn_length; lia).
      destruct e3 as [e3|].
      * destruct (Herr3 ltac:(discriminate)) as (Hlt & _ & _).
        replace (Nat.ltb (length bs) (frame_len bs)) with true by (symmetry; apply Nat.ltb_lt; unfold frame_len; lia).
        eexists. split; [reflexivity|]. split; [reflexivity|discriminate].
      * destruct (Hok3 eq_refl) as (Hres3 & Hr3len & Hr3le & Hd3). clear Hok3 Herr3.
        replace (Nat.ltb (length bs) (frame_len bs)) with false by (symmetry; apply Nat.ltb_ge; unfold frame_len; lia).
        assert (Hcrc : crc_write (crc_write (checksum (firstn (hdr_size bs) bs)) res) res3 = checksum (firstn (frame_len bs) bs)).
        { unfold crc_write, checksum, frame_len. rewrite <- !update_app. f_equal.
          rewrite !firstn_plus. rewrite <- app_assoc. f_equal. rewrite Hres, Hres3, Hd2, Hd1, skipn_skipn'. reflexivity. }
        rewrite Hcrc. unfold crc_sum16.
        assert (Hpos : rd_pos rd3 = (rd_pos rd + frame_len bs)%nat).
        { rewrite (adv_pos _ _ _ Ha3), (adv_pos _ _ _ Ha2), (adv_pos _ _ _ Hadv), firstn_length. unfold frame_len. lia. }
        destruct (checksum (firstn (frame_len bs) bs) =? 0) eqn:Ec; cbn [negb].
        -- eexists. split; [reflexivity|]. split; [reflexivity|]. intros _. exact Hpos.
        -- eexists. split; [reflexivity|]. split; [reflexivity|discriminate].
Qed.

(* ------------------------------------------------------------------ Decode *)
(* if Decode returns no error it consumed exactly header ++ data ++ crc and the checksum of all of
   it is 0: everything CheckIntegrity demands, for every chunk schedule *)
Theorem full_accept o g fuel rd r : (measure rd < fuel)%nat ->
  decode o MFull g rd fuel = TDone r -> dr_err r = None ->
  crc_verdict_m (rd_data rd) (rd_term rd) = None /\ rd_pos (dr_rd r) = (rd_pos rd + frame_len (rd_data rd))%nat.
Proof.
  intros Hm. unfold decode. destruct (decode_header_spec fuel rd Hm) as (h & crc & rd1 & E & Hm1 & Hok).
  rewrite E. unfold crc_verdict_with. destruct (header_stage_m (rd_data rd) (rd_term rd)) as [e|] eqn:Ehs.
  - intros H Herr. inversion H; subst r. discriminate Herr.
  - destruct (Hok eq_refl) as (-> & -> & Hadv & Hle & Hd1). clear Hok.
    set (bs := rd_data rd) in *.
    change (N.to_nat (h_dsize (parse_header bs))) with (data_size bs).
    set (limit := data_size bs). set (crc := checksum (firstn (hdr_size bs) bs)).
    change (mk_cst rd1 [] 0 limit crc fuel) with (start_c rd1 limit crc fuel).
    set (p := data_prog o false (S limit)). set (s0 := init_dstate (new_file (parse_header bs)) g).
    assert (Hf : (length (rd_data rd1) + length (rd_sched rd1) < fuel)%nat) by (unfold measure in *; lia).
    pose proof (run_sim (rd_data rd1) (rd_pos rd1) crc p _ _ s0 (Rel_start rd1 limit crc fuel Hf)) as Hsim.
    pose proof (run_a_inv p (start_a rd1 limit) s0) as Hinv.
    destruct (run_c p (start_c rd1 limit crc fuel) s0) as [x c s|e c s|e c s|w|] eqn:Erun; intros H Herr; try discriminate H;
      try (inversion H; subst r; discriminate Herr).
    destruct (Nat.eqb (c_n c) (c_limit c)) eqn:En; cbn [negb] in H; [|discriminate H].
    apply Nat.eqb_eq in En.
    destruct (check_crc fuel (c_rd c) (c_crc c) (ds_file s)) as [[[e f] rd3]|] eqn:Ecc; [|discriminate H].
    inversion H; subst r; clear H. cbn [dr_err] in Herr. subst e. cbn [dr_rd].
    unfold sim in Hsim. destruct (run_a p (start_a rd1 limit) s0) as [y a s'|? ? ?|? ? ?|?|] eqn:Era; try contradiction.
    destruct Hsim as (_ & _ & HR). destruct Hinv as [Hlim _]. cbn [a_limit start_a] in Hlim.
    pose proof (all_length _ _ _ _ _ HR) as Hall.
    destruct HR as [Hr Ha Hl Ht Hn Hli Hb Hfu Hp Hc].
    assert (Hcl : c_limit c = limit) by congruence.
    assert (Hcn : c_n c = limit) by congruence.
    assert (Hbuf : c_buf c = []) by (destruct (c_buf c); [reflexivity|cbn [length] in Hb; lia]).
    rewrite Hbuf in *. cbn [app length] in *. rewrite Nat.add_0_r in *.
    assert (Han : a_n a = limit) by congruence.
    rewrite Han in *.
    assert (Hlim1 : (limit <= length (rd_data rd1))%nat) by lia.
    assert (Hd2 : rd_data (c_rd c) = skipn limit (rd_data rd1)).
    { rewrite <- Hr. symmetry. now apply skipn_firstn_rest. }
    assert (Hl1 : length (rd_data rd1) = (length bs - hdr_size bs)%nat) by (rewrite Hd1; apply skipn_length).
    replace (Nat.ltb (length bs) (hdr_size bs + limit)) with false by (symmetry; apply Nat.ltb_ge; lia).
    (* the two checksum bytes *)
    unfold check_crc in Ecc.
    destruct (io_read_full fuel (c_rd c) 2 []) as [[[res3 e3] rd3']|] eqn:E3; [|discriminate Ecc].
    destruct e3 as [e3|]; [inversion Ecc|].
    pose proof (next_n_of_done _ _ _ _ _ (io_read_full_done _ _ _ _ _ _ _ E3 ltac:(cbn; lia))) as (Ha3 & Hok3 & _).
    destruct (Hok3 eq_refl) as (Hres3 & Hr3len & Hr3le & Hd3). clear Hok3.
    assert (Hl2 : length (rd_data (c_rd c)) = (length bs - hdr_size bs - limit)%nat) by (rewrite Hd2, skipn_length; lia).
    replace (Nat.ltb (length bs) (frame_len bs)) with false by (symmetry; apply Nat.ltb_ge; unfold frame_len; fold limit; lia).
    assert (Hcrc : crc_write (c_crc c) res3 = checksum (firstn (frame_len bs) bs)).
    { rewrite Hc. unfold crc_write, crc, checksum, frame_len. rewrite <- !update_app. f_equal.
      rewrite !firstn_plus. rewrite <- app_assoc. f_equal. fold limit. f_equal.
      - now rewrite Hd1, Hcn.
      - rewrite Hres3, Hd2, Hd1, skipn_skipn'. reflexivity. }
    rewrite Hcrc in Ecc. unfold crc_sum16 in Ecc.
    destruct (checksum (firstn (frame_len bs) bs) =? 0) eqn:Ec; cbn [negb] in Ecc; inversion Ecc; subst. clear Ecc.
    split; [first [reflexivity|rewrite Ec; reflexivity]|].
    rewrite (adv_pos _ _ _ Ha3), Hp, (adv_pos _ _ _ Hadv), firstn_length, Hcn. unfold frame_len. fold limit. lia.
Qed.
