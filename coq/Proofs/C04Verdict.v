(* C04 (b): verdict soundness of the decoder model, for every chunk schedule.
   - decode_header_spec: the header stage shared by all entry points computes header_stage;
   - check_integrity_spec: CheckIntegrity(r, false) computes crc_verdict (complete characterisation);
   - full_accept: if Decode returns no error, the bytes consumed are header ++ data ++ crc with
     residue 0 (and crc_verdict = None), hence decode_ok_integrity_ok. *)
From Coq Require Import NArith ZArith List Bool Arith Lia.
From Coq Require Import ZifyN ZifyNat ZifyBool.
From FitV Require Import Model.Values Model.Bytes Model.Crc Model.IO Model.Header Model.Route Model.Decode Gen.Consts
  Spec.CrcSpec Spec.Burst Spec.Integrity Proofs.Util Proofs.CrcProofs Proofs.IOSim Proofs.C04Crc Proofs.C04IO.
Import ListNotations.
Local Open Scope N_scope.
Ltac Zify.zify_post_hook ::= Z.div_mod_to_equations.

Notation header_stage_m := (header_stage_with checksum).
Notation crc_verdict_m := (crc_verdict_with checksum).

(* a list of known length, element by element *)
Ltac explode l H :=
  repeat (destruct l as [|? l]; [simpl in H; discriminate H|]); destruct l as [|? l]; [|simpl in H; discriminate H].

Lemma firstn_skipn_split {A} (n : nat) (l : list A) : l = firstn n l ++ skipn n l.
Proof. symmetry. apply firstn_skipn. Qed.

(* ------------------------------------------------------------------ the header stage *)
Theorem decode_header_spec fuel rd : (measure rd < fuel)%nat ->
  exists h crc rd', decode_header fuel rd = Done (header_stage_m (rd_data rd) (rd_term rd), h, crc, rd') /\
    (measure rd' <= measure rd)%nat /\
    (header_stage_m (rd_data rd) (rd_term rd) = None ->
       h = parse_header (rd_data rd) /\ crc = checksum (firstn (hdr_size (rd_data rd)) (rd_data rd)) /\
       adv rd rd' (firstn (hdr_size (rd_data rd)) (rd_data rd)) /\
       (hdr_size (rd_data rd) <= length (rd_data rd))%nat /\
       rd_data rd' = skipn (hdr_size (rd_data rd)) (rd_data rd)).
Proof.
  intros Hm. unfold decode_header.
  destruct (io_read_full_spec fuel rd 1 Hm) as (res & e & rd1 & E1 & Ha1 & Hok1 & Herr1). rewrite E1.
  destruct e as [e|].
  - destruct (Herr1 ltac:(discriminate)) as (Hlt & Hres & Hnil).
    destruct (rd_data rd) as [|b0 tl0] eqn:Ed; [|cbn in Hlt; lia].
    pose proof (io_read_full_err _ _ _ _ _ _ _ E1) as He. rewrite Hres in He.
    exists zero_header, 0, rd1. split; [|split; [apply (adv_meas _ _ _ Ha1)|]].
    + cbn [header_stage_with]. destruct (rd_term rd); subst e; reflexivity.
    + cbn [header_stage_with]. discriminate.
  - destruct (Hok1 eq_refl) as (Hres & Hlen & Hle & Hd1).
    destruct (rd_data rd) as [|sz tail] eqn:Ed; [cbn in Hle; lia|].
    cbn [firstn] in Hres. subst res. cbn [hd]. cbn [skipn] in Hd1.
    pose proof (adv_meas _ _ _ Ha1) as Hm1.
    cbn [header_stage_with].
    destruct ((sz =? c_headerSizeCRC) || (sz =? c_headerSizeNoCRC)) eqn:Esz; cbn [negb].
    2:{ exists (mk_header sz 0 0 0 [0; 0; 0; 0] 0), 0, rd1. split; [reflexivity|split; [exact Hm1|discriminate]]. }
    destruct (io_read_full_spec fuel rd1 (N.to_nat sz - 1) ltac:(lia)) as (t & e2 & rd2 & E2 & Ha2 & Hok2 & Herr2). rewrite E2.
    pose proof (adv_meas _ _ _ Ha2) as Hm2.
    assert (Hszpos : (1 <= N.to_nat sz)%nat).
    { apply orb_true_iff in Esz. destruct Esz as [E|E]; apply N.eqb_eq in E; subst sz; vm_compute; lia. }
    destruct e2 as [e2|].
    + destruct (Herr2 ltac:(discriminate)) as (Hlt & _ & _). rewrite Hd1 in Hlt.
      replace (Nat.ltb (length (sz :: tail)) (N.to_nat sz)) with true by (symmetry; apply Nat.ltb_lt; cbn [length]; lia).
      exists (mk_header sz 0 0 0 [0; 0; 0; 0] 0), 0, rd2. split; [reflexivity|split; [lia|discriminate]].
    + destruct (Hok2 eq_refl) as (Ht & Htlen & Htle & Hd2). rewrite Hd1 in Ht, Htle, Hd2.
      replace (Nat.ltb (length (sz :: tail)) (N.to_nat sz)) with false by (symmetry; apply Nat.ltb_ge; cbn [length]; lia).
      assert (Hadv : adv rd rd2 (firstn (N.to_nat sz) (sz :: tail))).
      { replace (firstn (N.to_nat sz) (sz :: tail)) with ([sz] ++ t).
        - eapply adv_trans; eassumption.
        - rewrite Ht. replace (N.to_nat sz) with (S (N.to_nat sz - 1)) at 2 by lia. reflexivity. }
      assert (Hskip : rd_data rd2 = skipn (N.to_nat sz) (sz :: tail)).
      { rewrite Hd2. replace (N.to_nat sz) with (S (N.to_nat sz - 1)) at 2 by lia. reflexivity. }
      assert (Hfit : (N.to_nat sz <= length (sz :: tail))%nat) by (cbn [length]; lia).
      assert (Hcrc : crc_write (crc_write crc_new [sz]) t = checksum (firstn (N.to_nat sz) (sz :: tail))).
      { unfold crc_write, crc_new, checksum. rewrite <- update_app. f_equal.
        rewrite Ht. replace (N.to_nat sz) with (S (N.to_nat sz - 1)) at 2 by lia. reflexivity. }
      assert (Htail : tail = t ++ skipn (N.to_nat sz - 1) tail) by (rewrite Ht; apply firstn_skipn_split).
      set (rest := skipn (N.to_nat sz - 1) tail) in Htail. clearbody rest. clear Ht Htle Hd1. subst tail.
      clear Hok1 Herr1 Hok2 Herr2 Hle Hlen.
      unfold hdr_size. cbn [b_at nth].
      apply orb_true_iff in Esz. destruct Esz as [E|E]; apply N.eqb_eq in E; subst sz.
      * change c_headerSizeCRC with 14 in *. change (N.to_nat 14 - 1)%nat with 13%nat in *. change (N.to_nat 14) with 14%nat in *.
        explode t Htlen.
        cbn [b_at nth firstn skipn app hd length] in *. cbn [N.eqb Pos.eqb c_headerSizeNoCRC].
        unfold parse_header, stored_hdr_crc. cbn [b_at nth firstn skipn app hd length]. cbn [N.eqb Pos.eqb c_headerSizeCRC].
        destruct (proto_ok _) eqn:Ep; cbn [negb].
        2:{ eexists _, _, rd2. split; [reflexivity|split; [lia|discriminate]]. }
        destruct (list_eqb _ fit_dtype) eqn:Edt; cbn [negb].
        2:{ eexists _, _, rd2. split; [reflexivity|split; [lia|discriminate]]. }
        cbn [h_proto h_profile h_dsize]. rewrite Hcrc. unfold crc_sum16.
        destruct (le16 _ =? 0) eqn:Ehc.
        { eexists _, _, rd2. split; [reflexivity|split; [lia|]]. intros _. split; [reflexivity|]. split; [reflexivity|]. split; [exact Hadv|]. split; [exact Hfit|exact Hskip]. }
        destruct (checksum _ =? 0) eqn:Ec; cbn [negb].
        { eexists _, _, rd2. split; [reflexivity|split; [lia|]]. intros _. split; [reflexivity|]. split; [reflexivity|]. split; [exact Hadv|]. split; [exact Hfit|exact Hskip]. }
        { eexists _, _, rd2. split; [reflexivity|split; [lia|discriminate]]. }
      * change c_headerSizeNoCRC with 12 in *. change (N.to_nat 12 - 1)%nat with 11%nat in *. change (N.to_nat 12) with 12%nat in *.
        explode t Htlen.
        cbn [b_at nth firstn skipn app hd length] in *. cbn [N.eqb Pos.eqb c_headerSizeCRC].
        unfold parse_header, stored_hdr_crc. cbn [b_at nth firstn skipn app hd length]. cbn [N.eqb Pos.eqb c_headerSizeCRC].
        destruct (proto_ok _) eqn:Ep; cbn [negb].
        2:{ eexists _, _, rd2. split; [reflexivity|split; [lia|discriminate]]. }
        destruct (list_eqb _ fit_dtype) eqn:Edt; cbn [negb].
        2:{ eexists _, _, rd2. split; [reflexivity|split; [lia|discriminate]]. }
        cbn [h_proto h_profile h_dsize]. rewrite Hcrc.
        eexists _, _, rd2. split; [reflexivity|split; [lia|]]. intros _. split; [reflexivity|]. split; [reflexivity|]. split; [exact Hadv|]. split; [exact Hfit|exact Hskip].
Qed.
