(* C05, record completeness: the records the recogniser returns for Encode's output match the File's messages
   completely (Spec/Grammar.v record_matches: message number, no field number twice, every field value, and
   every struct field the record does not carry is unset), hence wire_ok. *)
From Coq Require Import NArith ZArith List Bool Lia String.
From Coq Require Import ZifyN ZifyNat ZifyBool.
From FitV Require Import Model.Values Model.Bytes Model.Base Model.Profile Model.Crc Model.Header
  Model.Components Model.Route Model.Encode Spec.CrcSpec Spec.FitSyntax Spec.Grammar Spec.RoundTrip
  Proofs.Util Proofs.CrcProofs Proofs.EncodeProofs Proofs.C05Grammar Proofs.C05Wire Proofs.C06Defs Proofs.C06Lay
  Gen.Consts Gen.ProfileData Gen.RoutingData.
Import ListNotations.
Local Open Scope N_scope.

Definition rec_full (be : bool) (m : msg) (r : grec) : Prop :=
  exists fields parts, menc be m fields parts /\ r = grec_of be (m_num m) fields parts.

Lemma fdefs_total gmn : forall fields, Forall (from_profile gmn) fields -> econcat (map fdef_bytes fields) = EOk (fbytes fields).
Proof.
  induction 1 as [|pf r Hpf HF IH]; [reflexivity|]. cbn [map econcat]. rewrite IH.
  pose proof (from_profile_entry_ok _ _ Hpf) as Hok. unfold entry_ok in Hok. cbv zeta in Hok.
  unfold fdef_bytes. cbv zeta. destruct (b_size (fit_base (pf_t pf))) as [bs|] eqn:E; [|discriminate]. cbn [ebind].
  unfold fbytes. cbn [flat_map app]. unfold fsize. cbv zeta. rewrite E. reflexivity.
Qed.

Lemma write_def_total be gmn fields : Forall (from_profile gmn) fields ->
  exists d, write_def_mesg be gmn fields = EOk d.
Proof. intros H. unfold write_def_mesg. rewrite (fdefs_total _ _ H). cbn [ebind]. eauto. Qed.

Lemma econcat_of_parts {A} (g : A -> eres (list N)) : forall l parts, Forall2 (fun x p => g x = EOk p) l parts ->
  econcat (map g l) = EOk (List.concat parts).
Proof. induction 1 as [|x p l parts Hp HF IH]; [reflexivity|]. cbn [map econcat List.concat]. now rewrite Hp, IH. Qed.

Lemma menc_steps_def be defs m fields parts : menc be m fields parts ->
  steps defs (ser_record (rdef_of be (m_num m) fields)) ((0, gdef_of be (m_num m) fields) :: defs) [].
Proof.
  intros (Hfp & Hnd & HF & Hcov). destruct (write_def_total be (m_num m) fields Hfp) as (d & Hd).
  assert (Hg := covers_num_lt _ _ Hcov).
  assert (Hn : N.of_nat (List.length fields) < 256).
  { destruct Hcov as (inv & Hinv & _). unfold mesg_all_invalid in Hinv. destruct (find_msg (m_num m)) as [md|] eqn:Ef; [|discriminate].
    destruct (msg_ok_parts _ (find_msg_ok _ _ Ef)) as (_ & H2 & _ & H4).
    assert (Hincl : incl (map pf_num fields) (map fst (md_entries md))).
    { intros n Hn. apply in_map_iff in Hn as (pf & <- & Hin). rewrite Forall_forall in Hfp.
      destruct (Hfp pf Hin) as (i & Hi). apply by_sindex_in in Hi as (md' & e & _ & He & <- & Efm').
      rewrite Ef in Efm'. inversion Efm'; subst md'. rewrite <- (H4 e He). now apply in_map. }
    pose proof (NoDup_incl_length Hnd Hincl) as HL. rewrite !map_length in HL. lia. }
  rewrite <- (write_def_ser _ _ _ _ Hd Hg Hn). now apply write_unit.
Qed.

Lemma menc_steps_data be defs m fields parts : menc be m fields parts ->
  lookup_def 0 defs = Some (gdef_of be (m_num m) fields) ->
  steps defs (ser_record (rdata_of parts)) defs [grec_of be (m_num m) fields parts] /\ rec_full be m (grec_of be (m_num m) fields parts).
Proof.
  intros Hm Hl. pose proof Hm as (Hfp & Hnd & HF & Hcov). destruct (from_profile_all_ok _ _ Hfp) as [Hok _].
  assert (Hw : write_mesg be m fields = EOk (0 :: List.concat parts)).
  { unfold write_mesg. fold (field_out be m). rewrite (econcat_of_parts (field_out be m) _ _ HF). reflexivity. }
  destruct (write_mesg_parses _ _ _ _ Hw Hok) as (parts' & HF' & E & Hp).
  assert (parts' = parts).
  { clear - HF HF'. revert parts' HF'. induction HF as [|pf p fields parts Hp HF IH]; intros parts' HF'; inversion HF'; subst; [reflexivity|].
    f_equal; [congruence|now apply IH]. }
  subst parts'. split; [|exists fields, parts; auto].
  rewrite <- write_mesg_ser. eapply steps_data; [exact Hl|]. intros tl. apply Hp.
Qed.

Lemma lay_records be : forall msgs rs, lay be msgs rs -> forall defs,
  exists defs' recs, steps defs (ser_records rs) defs' recs /\ Forall2 (rec_full be) msgs recs.
Proof.
  intros msgs rs H. induction H as [|m fields parts ms rs Hm Hl IH|mn fields group partss ms rs Hne Hg HF Hl IH]; intros defs.
  - exists defs, []. split; [apply steps_nil|constructor].
  - pose proof (menc_steps_def be defs _ _ _ Hm) as S1.
    destruct (menc_steps_data be ((0, gdef_of be (m_num m) fields) :: defs) _ _ _ Hm (lookup_def_head _ _)) as [S2 Hr].
    destruct (IH ((0, gdef_of be (m_num m) fields) :: defs)) as (d' & recs & S3 & F3).
    exists d', (grec_of be (m_num m) fields parts :: recs). split; [|constructor; assumption].
    unfold ser_records. cbn [flat_map]. fold (ser_records rs).
    change (grec_of be (m_num m) fields parts :: recs) with ([] ++ [grec_of be (m_num m) fields parts] ++ recs).
    eapply steps_app; [exact S1|]. eapply steps_app; eassumption.
  - assert (S2 : forall d1, lookup_def 0 d1 = Some (gdef_of be mn fields) ->
              exists recs, steps d1 (ser_records (map rdata_of partss)) d1 recs /\ Forall2 (rec_full be) group recs).
    { clear - HF Hg. induction HF as [|m parts group partss Hm HF IH]; intros d1 Hl1; [exists []; split; [apply steps_nil|constructor]|].
      inversion Hg as [|? ? Hn Hg']; subst. destruct (IH Hg' d1 Hl1) as (recs & S & F).
      destruct (menc_steps_data be d1 _ _ _ Hm Hl1) as [S2 Hr].
      exists (grec_of be (m_num m) fields parts :: recs). split; [|constructor; assumption].
      unfold ser_records. cbn [map flat_map]. change (grec_of be (m_num m) fields parts :: recs) with ([grec_of be (m_num m) fields parts] ++ recs).
      eapply steps_app; eassumption. }
    assert (S1 : steps defs (ser_record (rdef_of be mn fields)) ((0, gdef_of be mn fields) :: defs) []).
    { destruct group as [|m0 gr]; [congruence|]. inversion HF; subst. inversion Hg; subst. eapply menc_steps_def; eassumption. }
    destruct (S2 ((0, gdef_of be mn fields) :: defs) (lookup_def_head _ _)) as (recs2 & S2' & F2). destruct (IH ((0, gdef_of be mn fields) :: defs)) as (d' & recs3 & S3 & F3).
    exists d', (recs2 ++ recs3). split; [|now apply Forall2_app].
    unfold ser_records. cbn [flat_map]. fold (ser_records (map rdata_of partss ++ rs)). rewrite ser_records_app.
    change (recs2 ++ recs3) with ([] ++ recs2 ++ recs3). eapply steps_app; [exact S1|]. eapply steps_app; eassumption.
Qed.

(* ---------------------------------------------------------------- record_matches *)
Lemma NoDup_nodup_n l : NoDup l -> nodup_n l = true.
Proof.
  induction 1 as [|x r Hx Hr IH]; [reflexivity|]. cbn [nodup_n]. rewrite IH, andb_true_r. apply negb_true_iff.
  apply not_true_iff_false. intros H. apply existsb_exists in H as (y & Hy & E). apply N.eqb_eq in E. subst y. contradiction.
Qed.

Lemma pfield_of_sindex_by gmn i pf : pfield_of_sindex gmn i = Some pf -> get_field_by_sindex gmn i = Some pf.
Proof.
  unfold pfield_of_sindex, get_field_by_sindex. destruct (find_msg gmn) as [md|]; [|discriminate].
  destruct (find _ (md_entries md)) as [e|]; [auto|discriminate].
Qed.

Lemma sindex_owned gmn md i : find_msg gmn = Some md -> (i < List.length (md_layout md))%nat -> exists pf, pfield_of_sindex gmn i = Some pf.
Proof.
  intros Ef Hi. pose proof (find_msg_ok _ _ Ef) as Hok. unfold msg_ok in Hok. apply andb_true_iff in Hok as [Hok _].
  apply andb_true_iff in Hok as [_ Hown]. rewrite forallb_forall in Hown. specialize (Hown i). 
  unfold pfield_of_sindex. rewrite Ef. destruct (find _ (md_entries md)) as [e|]; [eauto|].
  assert (In i (seq 0 (List.length (md_layout md)))) by (apply in_seq; lia). apply Hown in H. discriminate.
Qed.

Lemma absent_from_covers gmn md nums : find_msg gmn = Some md ->
  forall vals invs i, List.length vals = List.length invs -> (i + List.length vals <= List.length (md_layout md))%nat ->
  (forall j v iv, nth_error vals j = Some v -> nth_error invs j = Some iv ->
     unset v iv = true \/ exists pf, get_field_by_sindex gmn (i + j) = Some pf /\ In (pf_num pf) nums) ->
  absent_unset gmn nums i vals invs = true.
Proof.
  intros Ef. induction vals as [|v vr IH]; intros invs i Hlen Hle Hc; destruct invs as [|iv ir]; try discriminate; [reflexivity|].
  cbn [absent_unset]. cbn [List.length] in Hlen, Hle. apply andb_true_iff. split.
  - destruct (sindex_owned gmn md i Ef ltac:(lia)) as (pf & Hpf). rewrite Hpf.
    destruct (Hc 0%nat v iv eq_refl eq_refl) as [Hu|(pf' & Hp' & Hin)]; [rewrite Hu; apply orb_true_r|].
    rewrite Nat.add_0_r in Hp'. rewrite (pfield_of_sindex_by _ _ _ Hpf) in Hp'. inversion Hp'; subst pf'.
    apply orb_true_iff. left. apply existsb_exists. exists (pf_num pf). split; [exact Hin|apply N.eqb_refl].
  - apply IH; [lia|lia|]. intros j v' iv' Hv Hiv. replace (S i + j)%nat with (i + S j)%nat by lia. apply (Hc (S j)); assumption.
Qed.

Lemma grec_nums be gmn fields : forall parts, List.length parts = List.length fields ->
  map (fun f : N * N * list N => fst (fst f)) (gr_fields (grec_of be gmn fields parts)) = map pf_num fields.
Proof.
  unfold grec_of. cbn [gr_fields]. induction fields as [|pf r IH]; intros parts Hl; destruct parts as [|p ps]; try discriminate; [reflexivity|].
  cbn [combine map fst snd]. rewrite IH; [reflexivity|]. cbn [List.length] in Hl. lia.
Qed.

Lemma Forall2_length' {A B} (R : A -> B -> Prop) l l' : Forall2 R l l' -> List.length l' = List.length l.
Proof. induction 1; cbn; congruence. Qed.

Lemma rec_full_matches be m r :
  rec_full be m r -> vals_typed (msg_layout (m_num m)) (m_fields m) = true -> msg_sane m = true ->
  record_matches m r = true.
Proof.
  intros (fields & parts & Hm & ->) Hty Hsane. pose proof Hm as (Hfp & Hnd & HF & Hcov).
  assert (Hrec : rec_of be m (grec_of be (m_num m) fields parts)) by (exists fields, parts; auto).
  destruct (rec_fields_match be m _ Hrec Hty Hsane) as (_ & _ & Hfm).
  unfold record_matches. unfold fields_match in Hfm. cbn [gr_gmn gr_be] in Hfm |- *. rewrite N.eqb_refl. cbn [andb].
  rewrite (grec_nums be (m_num m) fields parts (Forall2_length' _ _ _ HF)). rewrite (NoDup_nodup_n _ Hnd). cbn [andb].
  cbn [gr_be] in Hfm. rewrite Hfm. cbn [andb].
  destruct Hcov as (inv & Hinv & Hlen & Hc). rewrite Hinv.
  pose proof Hinv as Hinv'. unfold mesg_all_invalid in Hinv'. destruct (find_msg (m_num m)) as [md|] eqn:Ef; [|discriminate].
  eapply absent_from_covers; [exact Ef|exact Hlen| |].
  - cbn [Nat.add]. rewrite (vals_typed_length _ _ Hty). unfold msg_layout. rewrite Ef. apply Nat.le_refl.
  - intros j v iv Hv Hiv. cbn [Nat.add]. now apply Hc.
Qed.

(* C05: the complete comparison of Spec/Grammar.v *)
Theorem encode_wire_ok f be bs f' :
  wf_file f = true -> wf_header (f_header f) = true -> file_sane f = true ->
  encode f be = EOk (bs, f') -> N.of_nat (List.length bs) < 4294967296 ->
  exists recs, grammar bs = Some recs /\ wire_ok f recs = true.
Proof.
  intros Hwf Hh Hsane Henc Hlen.
  destruct (encode_framing f be bs f' Hh Henc Hlen) as (Hb & Hho & Hto & Hdata & _).
  unfold grammar. rewrite Hb, Hho, Hto. cbn [negb].
  unfold enc_data in Hdata. pose proof Hwf as Hwf0. unfold wf_file in Hwf.
  destruct (f_inited f) as [ft|]; [|discriminate]. apply andb_true_iff in Hwf as [Eft Hwf]. apply N.eqb_eq in Eft. subst ft.
  destruct (ft_entry (file_type f)) as [[[ok cn] descs]|] eqn:Efe; [|discriminate]. destruct ok; [|discriminate].
  pose proof (ft_entry_descs_ok _ _ _ _ Efe) as Hdk.
  destruct (encode_slots_lay be descs 0 (f_slots f) _ Hwf Hdk Hdata) as (rs & Hlay & Hrb).
  destruct (lay_records be _ _ Hlay []) as (d' & recs & S & F).
  exists recs. split.
  - rewrite Hrb. apply (records_run _ d'); [exact S|]. rewrite <- Hrb. unfold record_bytes. rewrite firstn_length, skipn_length. lia.
  - unfold wire_ok, file_msgs. rewrite <- visible_0.
    pose proof (slots_wf_typed _ _ _ Hwf) as Hty. unfold file_sane, file_msgs in Hsane. rewrite <- visible_0 in Hsane. rewrite forallb_forall in Hsane.
    remember (visible 0 (f_slots f)) as msgs eqn:Em. clear Em Hlay S.
    revert Hty Hsane. induction F as [|m r ms rs' Hr HF IH]; intros Hty Hsane; [reflexivity|].
    inversion Hty; subst. cbn [forall2b]. rewrite (rec_full_matches be m r Hr); [|assumption|apply Hsane; now left]. cbn [andb].
    apply IH; [assumption|]. intros x Hx. apply Hsane. now right.
Qed.
