(* C01: evaluation of the cell check (Proofs/C01Cells.v) over the native scalar
   descriptors: every canonical storable profile base type x 256 definition
   base-type bytes x 256 sizes, on the tables regenerated from the compiled
   library (Gen/BaseTables.v). *)
From Coq Require Import NArith List Bool.
From FitV Require Import Proofs.C01Cells.
Local Open Scope N_scope.

Lemma plane_native_scalar : plane_ok 0 false = true.
Proof. vm_compute. reflexivity. Qed.
