(* C18 on whole streams, part 1: what Decode's File holds, made explicit.  By Decode_denote the File is
   route_msgs of the denoted messages; route_msgs is File.add over them; here File.add over a sequence is
   [stored_run]: expand_components applied in stream order, threading the accumulator state. *)
From Coq Require Import NArith ZArith List Bool String Lia Arith.
From FitV Require Import Proofs.Util Model.Values Model.Reflect Model.Profile Model.Header Model.Components Model.Route
  Spec.RouteSpec Proofs.RouteProofs Proofs.ProfileProofs Proofs.C18Defs Proofs.StreamDenoteLift Proofs.StreamDenoteMain
  Gen.Consts Gen.RoutingData.
Import ListNotations.
Local Open Scope N_scope.

(* File.add on an initialised file is [stored] plus the slot update *)
Lemma file_add_stored ft f g m : In ft valid_file_types -> f_inited f = Some ft ->
  forall f' g', file_add f g m = AddOk f' g' -> exists m', stored ft g m = Some (m', g') /\ f_inited f' = Some ft.
Proof.
  intros Hft Hi f' g' Ha. rewrite (file_add_inited ft f g m Hft Hi) in Ha.
  destruct (find_slot ft (m_num m)) as [[i multi]|] eqn:Es.
  - destruct (stored ft g m) as [[m' g1]|]; [|discriminate]. inversion Ha; subst. exists m'. split; [reflexivity|exact Hi].
  - inversion Ha; subst. exists m. split; [unfold stored; rewrite Es; reflexivity|exact Hi].
Qed.

Lemma adds_run ft : In ft valid_file_types -> forall ms f0 g0 f g,
  f_inited f0 = Some ft -> adds f0 g0 ms = AddOk f g -> exists sm, stored_run ft g0 ms = Some (sm, g).
Proof.
  intros Hft. induction ms as [|m r IH]; intros f0 g0 f g Hi Ha; cbn [adds stored_run] in *.
  - inversion Ha; subst. eauto.
  - destruct (file_add f0 g0 m) as [f1 g1|w] eqn:E1; [|discriminate].
    destruct (file_add_stored ft f0 g0 m Hft Hi f1 g1 E1) as (m' & Hs & Hi1). rewrite Hs.
    destruct (IH f1 g1 f g Hi1 Ha) as (sm & Hr). rewrite Hr. eauto.
Qed.

Theorem adds_stored_run : forall ft, In ft valid_file_types -> forall ms f0 g0 f g,
  f_inited f0 = Some ft -> List.length (f_slots f0) = List.length (slots_of ft) ->
  adds f0 g0 ms = AddOk f g ->
  exists sm, stored_run ft g0 ms = Some (sm, g) /\
    forall i name multi held, nth_error (slots_of ft) i = Some (name, multi, held) ->
      nth i (f_slots f) [] = slot_contents multi held (nth i (f_slots f0) []) sm.
Proof.
  intros ft Hft ms f0 g0 f g Hi Hlen Ha.
  destruct (adds_run ft Hft ms f0 g0 f g Hi Ha) as (sm & Hr). exists sm. split; [exact Hr|].
  destruct (route_spec ft Hft ms f0 g0 f g Hi Hlen Ha) as (sm' & Hs & Hslots).
  rewrite (stored_run_seq ft ms g0 sm g Hr) in Hs. inversion Hs; subst sm'. exact Hslots.
Qed.

(* ------------------------------------------------------------ the start of the File *)
Lemma first_valid_in : In first_valid_ft valid_file_types.
Proof. vm_compute. tauto. Qed.

Lemma apply_routes_noexp : forall rs m slots g, forallb (fun r => negb (snd r)) rs = true ->
  exists slots', apply_routes rs m slots g = Some (slots', g) /\ List.length slots' = List.length slots.
Proof.
  induction rs as [|[[i mode] e] r IH]; intros m slots g H; cbn [apply_routes].
  - eauto.
  - cbn [forallb snd] in H. apply andb_prop in H. destruct H as [He H]. apply negb_true_iff in He. subst e.
    destruct (IH m (match mode with RAppend => set_nth i (nth i slots [] ++ [m]) slots | ROverwrite => set_nth i [m] slots | ROther => slots end) g H)
      as (s' & Hs & Hl).
    exists s'. split; [exact Hs|]. rewrite Hl. destruct mode; try apply set_nth_length; reflexivity.
Qed.

Lemma common_routes_noexp mn : forallb (fun r : nat * rmode * bool => negb (snd r)) (common_routes mn) = true.
Proof.
  unfold common_routes. rewrite (routes_char first_valid_ft mn first_valid_in). unfold expected_routes.
  destruct (find_slot first_valid_ft mn) as [[i multi]|]; [|reflexivity].
  cbn [filter fst]. destruct (Nat.ltb i NCOMMON) eqn:E; [|reflexivity]. reflexivity.
Qed.

Lemma file_init_slots f f' : file_init f = Some f' ->
  f_slots f' = firstn NCOMMON (f_slots f) ++ repeat [] (List.length (slots_of (file_type f)) - NCOMMON).
Proof.
  unfold file_init, slots_of. destruct (ft_entry (file_type f)) as [[[ok cn] sl]|]; [|discriminate].
  destruct ok; [|discriminate]. intros H. injection H as <-. reflexivity.
Qed.

(* File.add before init + init: the accumulator state is untouched, the container slots are empty *)
Theorem start_file_facts : forall h g m0 f2 g1, start_file h g m0 = Some (f2, g1) ->
  g1 = g /\ exists ft, In ft valid_file_types /\ f_inited f2 = Some ft /\
    List.length (f_slots f2) = List.length (slots_of ft) /\
    forall i, (NCOMMON <= i)%nat -> nth i (f_slots f2) [] = [].
Proof.
  intros h g m0 f2 g1 H. unfold start_file in H.
  destruct (file_add (new_file h) g m0) as [f1 ga|w] eqn:Ea; [|discriminate].
  destruct (file_init f1) as [fb|] eqn:Ei; [|discriminate]. inversion H; subst fb ga. clear H.
  unfold file_add in Ea. cbn [f_inited new_file] in Ea.
  destruct (common_routes (m_num m0)) as [|r0 rr] eqn:Ec; [discriminate|].
  destruct (apply_routes_noexp (r0 :: rr) m0 (f_slots (new_file h)) g) as (s' & Hs & Hl).
  { rewrite <- Ec. apply common_routes_noexp. }
  cbn [f_slots new_file] in Hs, Hl. cbn [f_slots new_file f_header f_crc f_unkm f_unkf] in Ea. rewrite Hs in Ea.
  inversion Ea; subst f1 g1. split; [reflexivity|].
  destruct (file_init_valid _ _ Ei) as [Hft Hin].
  exists (file_type (mk_file h 0 s' None None None)). split; [exact Hft|]. split; [exact Hin|].
  set (ft := file_type (mk_file h 0 s' None None None)) in *.
  rewrite (file_init_slots _ _ Ei). cbn [f_slots]. fold ft.
  set (sl := slots_of ft) in *.
  pose proof (wf_ft ft Hft) as Hok. unfold ft_routing_ok in Hok.
  do 5 (apply andb_prop in Hok; destruct Hok as [Hok _]). fold sl in Hok. apply Nat.leb_le in Hok.
  assert (Hf5 : List.length (firstn NCOMMON s') = NCOMMON) by (rewrite firstn_length, Hl; cbn [List.length]; unfold NCOMMON; lia).
  split.
  - rewrite app_length, repeat_length, Hf5. lia.
  - intros i Hi. rewrite app_nth2 by lia. rewrite Hf5.
    destruct (Nat.lt_ge_cases (i - NCOMMON) (List.length sl - NCOMMON)) as [Hlt|Hge].
    + now rewrite nth_repeat.
    + rewrite nth_overflow; [reflexivity|]. now rewrite repeat_length.
Qed.

(* ------------------------------------------------------------ route_msgs made explicit *)
Theorem route_msgs_expanded : forall h g m0 ms f g',
  route_msgs h g (m0 :: ms) = Some (f, g') ->
  exists ft sm,
    In ft valid_file_types /\ f_inited f = Some ft /\
    stored_run ft g ms = Some (sm, g') /\
    forall i name multi held, nth_error (slots_of ft) i = Some (name, multi, held) -> (NCOMMON <= i)%nat ->
      nth i (f_slots f) [] = slot_contents multi held [] sm.
Proof.
  intros h g m0 ms f g' H. unfold route_msgs in H.
  destruct (start_file h g m0) as [[f2 g1]|] eqn:Es; [|discriminate].
  destruct (adds f2 g1 ms) as [fx gx|] eqn:Ea; [|discriminate]. inversion H; subst fx gx. clear H.
  destruct (start_file_facts _ _ _ _ _ Es) as (-> & ft & Hft & Hi & Hlen & Hempty).
  destruct (adds_stored_run ft Hft ms f2 g f g' Hi Hlen Ea) as (sm & Hr & Hslots).
  exists ft, sm. split; [exact Hft|]. split.
  - destruct (add_no_panic ft Hft f2 g m0 Hi) as (_ & _ & _ & _ & _).
    clear -Hft Hi Ea. revert f2 g Hi Ea. induction ms as [|m r IH]; intros f2 g Hi Ea; cbn [adds] in Ea.
    + inversion Ea; subst; exact Hi.
    + destruct (file_add f2 g m) as [f1 g1|] eqn:E1; [|discriminate].
      destruct (file_add_stored ft f2 g m Hft Hi f1 g1 E1) as (_ & _ & Hi1). exact (IH f1 g1 Hi1 Ea).
  - split; [exact Hr|]. intros i name multi held Hn Hge. rewrite (Hslots i name multi held Hn). now rewrite Hempty.
Qed.
