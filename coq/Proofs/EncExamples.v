(* A concrete File for the non-vacuity examples of C05/C06/C07: an activity
   File as NewFile(FileTypeActivity, NewHeader(V20, true)) makes it, holding two
   record messages with a heart rate, a timestamp and a latitude. *)
From Coq Require Import NArith ZArith List Bool String.
From FitV Require Import Model.Values Model.Bytes Model.Base Model.Profile Model.Header
  Model.Components Model.Route Model.Encode Spec.Grammar Spec.RoundTrip Gen.Consts.
Import ListNotations.
Local Open Scope N_scope.

Definition ex_fileid : msg :=
  match mesg_all_invalid c_MesgNumFileId with
  | Some m => set_fld (set_fld m "Type" (VU 4)) "Manufacturer" (VU 1)
  | None => mk_msg 0 []
  end.
Definition ex_record : msg :=
  match mesg_all_invalid 20 with
  | Some m => set_fld (set_fld (set_fld m "HeartRate" (VU 140)) "Timestamp" (VTime 1000000000 0 None)) "PositionLat" (VLat 500000000)
  | None => mk_msg 20 []
  end.
Definition ex_slots : list (list msg) :=
  match ft_entry 4 with
  | Some (_, _, descs) =>
      map (fun d => let '(_, _, mn) := d in if mn =? 20 then [ex_record; ex_record] else []) descs
  | None => []
  end.
Definition ex_file : file :=
  mk_file (new_header 32 true) 0 ([ex_fileid] :: tl ex_slots) (Some 4) None None.

Definition ex_encoded (be : bool) : list N := match encode ex_file be with EOk (bs, _) => bs | _ => [] end.
