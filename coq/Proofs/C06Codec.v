(* C06: field-level codec round trips: what the decoder's field parsers read
   from the bytes the encoder's field writers wrote. *)
From Coq Require Import NArith ZArith List Bool Lia String.
From Coq Require Import ZifyN ZifyNat ZifyBool.
From FitV Require Import Model.Values Model.Bytes Model.Base Model.Profile Model.Reflect Model.Encode Model.Decode
  Spec.Grammar Spec.RoundTrip Proofs.Util.
Import ListNotations.
Local Open Scope N_scope.
Ltac Zify.zify_post_hook ::= Z.div_mod_to_equations.

Lemma get16_put_int be x : get16 be (put_int be 2 x) = x mod 65536.
Proof. destruct be; cbv [get16 put_int le_bytes rev app be16 le16 b_at nth]; lia. Qed.

Lemma get32_put_int be x : get32 be (put_int be 4 x) = x mod 4294967296.
Proof. destruct be; cbv [get32 put_int le_bytes rev app be32 le32 b_at nth]; lia. Qed.

Lemma b_at_put_int1 be x : b_at (put_int be 1 x) 0 = x mod 256.
Proof. destruct be; reflexivity. Qed.
