(* C06: field-level codec round trips: what the decoder's field parsers read
   from the bytes the encoder's field writers wrote. *)
From Coq Require Import NArith ZArith List Bool Lia String.
From Coq Require Import ZifyN ZifyNat ZifyBool.
From FitV Require Import Model.Values Model.Bytes Model.Base Model.Profile Model.Reflect Model.Encode Model.Decode
  Spec.Grammar Spec.RoundTrip Proofs.Util Proofs.EncodeProofs Gen.ProfileData Gen.Consts.
Import ListNotations.
Local Open Scope N_scope.
Ltac Zify.zify_post_hook ::= Z.div_mod_to_equations.

Lemma get16_put_int be x : get16 be (put_int be 2 x) = x mod 65536.
Proof. destruct be; cbv [get16 put_int le_bytes rev app be16 le16 b_at nth]; lia. Qed.

Lemma get32_put_int be x : get32 be (put_int be 4 x) = x mod 4294967296.
Proof. destruct be; cbv [get32 put_int le_bytes rev app be32 le32 b_at nth]; lia. Qed.

Lemma b_at_put_int1 be x : b_at (put_int be 1 x) 0 = x mod 256.
Proof. destruct be; reflexivity. Qed.

(* ------------------------------------------------------------ 1. two's complement *)
Lemma to_signed_of_signed_8 z : (-128 <= z <= 127)%Z -> to_signed 8 (of_signed 8 z) = z.
Proof.
  intros H. cbv [to_signed of_signed].
  change (2 ^ (8 - 1)) with 128. change (2 ^ 8) with 256. change (Z.of_N 256) with 256%Z.
  destruct (N.ltb_spec (Z.to_N (z mod 256)) 128); lia.
Qed.

Lemma to_signed_of_signed_16 z : (-32768 <= z <= 32767)%Z -> to_signed 16 (of_signed 16 z) = z.
Proof.
  intros H. cbv [to_signed of_signed].
  change (2 ^ (16 - 1)) with 32768. change (2 ^ 16) with 65536. change (Z.of_N 65536) with 65536%Z.
  destruct (N.ltb_spec (Z.to_N (z mod 65536)) 32768); lia.
Qed.

Lemma to_signed_of_signed_32 z : (-2147483648 <= z <= 2147483647)%Z -> to_signed 32 (of_signed 32 z) = z.
Proof.
  intros H. cbv [to_signed of_signed].
  change (2 ^ (32 - 1)) with 2147483648. change (2 ^ 32) with 4294967296.
  change (Z.of_N 4294967296) with 4294967296%Z.
  destruct (N.ltb_spec (Z.to_N (z mod 4294967296)) 2147483648); lia.
Qed.

Lemma of_signed_lt_8 z : of_signed 8 z < 256.
Proof. cbv [of_signed]. change (2 ^ 8) with 256. change (Z.of_N 256) with 256%Z. lia. Qed.
Lemma of_signed_lt_16 z : of_signed 16 z < 65536.
Proof. cbv [of_signed]. change (2 ^ 16) with 65536. change (Z.of_N 65536) with 65536%Z. lia. Qed.
Lemma of_signed_lt_32 z : of_signed 32 z < 4294967296.
Proof. cbv [of_signed]. change (2 ^ 32) with 4294967296. change (Z.of_N 4294967296) with 4294967296%Z. lia. Qed.

Lemma wrap_s_id_8 z : (-128 <= z <= 127)%Z -> wrap_s 8 z = z.
Proof. apply to_signed_of_signed_8. Qed.
Lemma wrap_s_id_16 z : (-32768 <= z <= 32767)%Z -> wrap_s 16 z = z.
Proof. apply to_signed_of_signed_16. Qed.
Lemma wrap_s_id_32 z : (-2147483648 <= z <= 2147483647)%Z -> wrap_s 32 z = z.
Proof. apply to_signed_of_signed_32. Qed.

Lemma wrap_u_id bits x : x < 2 ^ bits -> wrap_u bits x = x.
Proof. intros H. unfold wrap_u. apply N.mod_small, H. Qed.

(* ------------------------------------------------------------ 2. scalars *)
(* the Go type for which encode then decode is the identity, per base type byte;
   the tests are in the order of parse_fit_field *)
Definition codec_ty (bt : N) : option gotype :=
  if is_u8like bt then Some (TU 8)
  else if bt =? base_sint8 then Some (TI 8)
  else if bt =? base_sint16 then Some (TI 16)
  else if (bt =? base_uint16) || (bt =? base_uint16z) then Some (TU 16)
  else if bt =? base_sint32 then Some (TI 32)
  else if (bt =? base_uint32) || (bt =? base_uint32z) then Some (TU 32)
  else None.

Lemma encode_value_native be pf ty v :
  (fit_kind (pf_t pf) =? kind_native) = true -> (fit_base (pf_t pf) =? base_string) = false ->
  encode_value be pf ty v = bw be ty v.
Proof.
  intros Hk Hs. unfold encode_value. apply N.eqb_eq in Hk. rewrite Hk, Hs. reflexivity.
Qed.

Lemma z_in_iff lo hi z : z_in lo hi z = true <-> (lo <= z <= hi)%Z.
Proof. unfold z_in. rewrite andb_true_iff, !Z.leb_le. tauto. Qed.

Lemma rt_u8 be n : n < 256 ->
  of_set (set_uint (TU 8) (b_at (put_int be (nbytes 8) (n mod 2 ^ 8)) 0)) = FSet (VU n).
Proof.
  intros Hv. change (nbytes 8) with 1%nat. rewrite b_at_put_int1.
  cbn [set_uint of_set]. unfold wrap_u. change (2 ^ 8) with 256.
  do 2 f_equal. lia.
Qed.

Lemma rt_i8 be z : (-128 <= z <= 127)%Z ->
  of_set (set_int (TI 8) (to_signed 8 (b_at (put_int be (nbytes 8) (of_signed 8 z)) 0))) = FSet (VI z).
Proof.
  intros Hv. change (nbytes 8) with 1%nat. rewrite b_at_put_int1.
  cbn [set_int of_set].
  pose proof (of_signed_lt_8 z) as Hl. rewrite (N.mod_small _ _ Hl).
  rewrite to_signed_of_signed_8 by lia. rewrite wrap_s_id_8 by lia. reflexivity.
Qed.

Lemma rt_u16 be n : n < 65536 ->
  of_set (set_uint (TU 16) (get16 be (put_int be (nbytes 16) (n mod 2 ^ 16)))) = FSet (VU n).
Proof.
  intros Hv. change (nbytes 16) with 2%nat. rewrite get16_put_int.
  cbn [set_uint of_set]. unfold wrap_u. change (2 ^ 16) with 65536.
  do 2 f_equal. lia.
Qed.

Lemma rt_i16 be z : (-32768 <= z <= 32767)%Z ->
  of_set (set_int (TI 16) (to_signed 16 (get16 be (put_int be (nbytes 16) (of_signed 16 z))))) = FSet (VI z).
Proof.
  intros Hv. change (nbytes 16) with 2%nat. rewrite get16_put_int.
  cbn [set_int of_set].
  pose proof (of_signed_lt_16 z) as Hl. rewrite (N.mod_small _ _ Hl).
  rewrite to_signed_of_signed_16 by lia. rewrite wrap_s_id_16 by lia. reflexivity.
Qed.

Lemma rt_u32 be n : n < 4294967296 ->
  of_set (set_uint (TU 32) (get32 be (put_int be (nbytes 32) (n mod 2 ^ 32)))) = FSet (VU n).
Proof.
  intros Hv. change (nbytes 32) with 4%nat. rewrite get32_put_int.
  cbn [set_uint of_set]. unfold wrap_u. change (2 ^ 32) with 4294967296.
  do 2 f_equal. lia.
Qed.

Lemma rt_i32 be z : (-2147483648 <= z <= 2147483647)%Z ->
  of_set (set_int (TI 32) (to_signed 32 (get32 be (put_int be (nbytes 32) (of_signed 32 z))))) = FSet (VI z).
Proof.
  intros Hv. change (nbytes 32) with 4%nat. rewrite get32_put_int.
  cbn [set_int of_set].
  pose proof (of_signed_lt_32 z) as Hl. rewrite (N.mod_small _ _ Hl).
  rewrite to_signed_of_signed_32 by lia. rewrite wrap_s_id_32 by lia. reflexivity.
Qed.

Lemma rt_scalar : forall be pf fd ty v bs,
  (fit_kind (pf_t pf) =? kind_native) = true -> (fit_base (pf_t pf) =? base_string) = false ->
  codec_ty (fd_btype fd) = Some ty -> val_has_type ty v = true ->
  encode_value be pf ty v = EOk bs -> parse_fit_field be fd bs ty = FSet v.
Proof.
  intros be pf fd ty v bs Hk Hs Hc Hv He.
  rewrite (encode_value_native be pf ty v Hk Hs) in He. clear Hk Hs.
  unfold codec_ty in Hc. unfold parse_fit_field.
  destruct (is_u8like (fd_btype fd)).
  { injection Hc as <-. destruct v; try discriminate Hv. cbn [val_has_type] in Hv. cbn [bw] in He.
    injection He as <-. apply N.ltb_lt in Hv. apply rt_u8. exact Hv. }
  destruct (fd_btype fd =? base_sint8).
  { injection Hc as <-. destruct v; try discriminate Hv. cbn [val_has_type] in Hv. cbn [bw] in He.
    injection He as <-. apply z_in_iff in Hv. apply rt_i8. exact Hv. }
  destruct (fd_btype fd =? base_sint16).
  { injection Hc as <-. destruct v; try discriminate Hv. cbn [val_has_type] in Hv. cbn [bw] in He.
    injection He as <-. apply z_in_iff in Hv. rewrite put_int_length.
    change (Nat.ltb (nbytes 16) 2) with false. cbv iota. apply rt_i16. exact Hv. }
  destruct ((fd_btype fd =? base_uint16) || (fd_btype fd =? base_uint16z)).
  { injection Hc as <-. destruct v; try discriminate Hv. cbn [val_has_type] in Hv. cbn [bw] in He.
    injection He as <-. apply N.ltb_lt in Hv. rewrite put_int_length.
    change (Nat.ltb (nbytes 16) 2) with false. cbv iota. apply rt_u16. exact Hv. }
  destruct (fd_btype fd =? base_sint32).
  { injection Hc as <-. destruct v; try discriminate Hv. cbn [val_has_type] in Hv. cbn [bw] in He.
    injection He as <-. apply z_in_iff in Hv. rewrite put_int_length.
    change (Nat.ltb (nbytes 32) 4) with false. cbv iota. apply rt_i32. exact Hv. }
  destruct ((fd_btype fd =? base_uint32) || (fd_btype fd =? base_uint32z)).
  { injection Hc as <-. destruct v; try discriminate Hv. cbn [val_has_type] in Hv. cbn [bw] in He.
    injection He as <-. apply N.ltb_lt in Hv. rewrite put_int_length.
    change (Nat.ltb (nbytes 32) 4) with false. cbv iota. apply rt_u32. exact Hv. }
  discriminate Hc.
Qed.

(* ------------------------------------------------------------ 3. the generated profile *)
Lemma gotype_eqb_eq : forall a b, gotype_eqb a b = true -> a = b.
Proof.
  induction a; destruct b; cbn [gotype_eqb]; intros H; try discriminate H;
    try (apply N.eqb_eq in H; subst; reflexivity); try reflexivity.
  f_equal. apply IHa, H.
Qed.

Definition opt_ty_eqb (a b : option gotype) : bool :=
  match a, b with Some x, Some y => gotype_eqb x y | None, None => true | _, _ => false end.

Lemma opt_ty_eqb_eq a b : opt_ty_eqb a b = true -> a = b.
Proof.
  destruct a, b; cbn [opt_ty_eqb]; intros H; try discriminate H; try reflexivity.
  f_equal. apply gotype_eqb_eq, H.
Qed.

(* native kind, not an array, not a string *)
Definition scalar_entry (pf : pfield) : bool :=
  (fit_kind (pf_t pf) =? kind_native) && negb (fit_array (pf_t pf)) && negb (fit_base (pf_t pf) =? base_string).

Lemma profile_codec_ok_b :
  forallb (fun m => forallb (fun e =>
     implb (scalar_entry (snd e))
           (opt_ty_eqb (codec_ty (fit_base (pf_t (snd e)))) (field_type (md_num m) (pf_sindex (snd e)))))
     (md_entries m)) messages = true.
Proof. vm_compute; reflexivity. Qed.

Lemma profile_codec_ok : forall m num pf, In m messages -> In (num, pf) (md_entries m) ->
  (fit_kind (pf_t pf) =? kind_native) = true -> fit_array (pf_t pf) = false ->
  (fit_base (pf_t pf) =? base_string) = false ->
  codec_ty (fit_base (pf_t pf)) = field_type (md_num m) (pf_sindex pf).
Proof.
  intros m num pf Hm He Hk Ha Hs.
  pose proof profile_codec_ok_b as H. rewrite forallb_forall in H. specialize (H m Hm).
  rewrite forallb_forall in H. specialize (H (num, pf) He). cbn [snd] in H.
  unfold scalar_entry in H. rewrite Hk, Ha, Hs in H. cbn [andb negb implb] in H.
  apply opt_ty_eqb_eq, H.
Qed.

(* the Go type the profile type t asks of the struct field, for every kind *)
Definition expected_ty (t : N) : option gotype :=
  let k := fit_kind t in
  if fit_array t then
    if fit_base t =? base_string then Some (TSlice TStr)
    else match codec_ty (fit_base t) with Some ty => Some (TSlice ty) | None => None end
  else if (k =? kind_timeutc) || (k =? kind_timelocal) then Some TTime
  else if k =? kind_lat then Some TLat
  else if k =? kind_lng then Some TLng
  else if k =? kind_native then
    if fit_base t =? base_string then Some TStr else codec_ty (fit_base t)
  else None.

(* per entry: the struct field has the expected Go type, the entry is filed under
   its own field number, length and field number are bytes, and an array fits a
   one-byte field size *)
Definition entry_ok (gmn : N) (e : N * pfield) : bool :=
  let pf := snd e in
  opt_ty_eqb (expected_ty (pf_t pf)) (field_type gmn (pf_sindex pf))
  && (pf_num pf =? fst e) && (pf_length pf <? 256)
  && (if fit_array (pf_t pf) && negb (fit_base (pf_t pf) =? base_string) then
        match b_size (fit_base (pf_t pf)) with
        | Some bs => (0 <? pf_length pf) && (bs * pf_length pf <? 256)
        | None => false
        end
      else true).

Lemma profile_types_ok_b :
  forallb (fun m => forallb (entry_ok (md_num m)) (md_entries m)) messages = true.
Proof. vm_compute; reflexivity. Qed.

Lemma profile_types_ok : forall m num pf, In m messages -> In (num, pf) (md_entries m) ->
  expected_ty (pf_t pf) = field_type (md_num m) (pf_sindex pf) /\ pf_num pf = num /\ pf_length pf < 256 /\
  (fit_array (pf_t pf) = true -> (fit_base (pf_t pf) =? base_string) = false ->
   exists bs, b_size (fit_base (pf_t pf)) = Some bs /\ 0 < pf_length pf /\ bs * pf_length pf < 256).
Proof.
  intros m num pf Hm He.
  pose proof profile_types_ok_b as H. rewrite forallb_forall in H. specialize (H m Hm).
  rewrite forallb_forall in H. specialize (H (num, pf) He). unfold entry_ok in H. cbn [snd fst] in H.
  rewrite !andb_true_iff in H. destruct H as [[[H1 H2] H3] H4].
  split; [apply opt_ty_eqb_eq, H1|]. split; [apply N.eqb_eq, H2|]. split; [apply N.ltb_lt, H3|].
  intros Ha Hs. rewrite Ha, Hs in H4. cbn [andb negb] in H4.
  destruct (b_size (fit_base (pf_t pf))) as [bs|]; [|discriminate H4].
  exists bs. rewrite andb_true_iff in H4. destruct H4 as [H4 H5].
  split; [reflexivity|]. split; [apply N.ltb_lt, H4|apply N.ltb_lt, H5].
Qed.

(* from the decoder's lookup to membership in the table *)
Lemma get_field_in gmn fdn pf : get_field gmn fdn = Some pf ->
  exists m, In m messages /\ md_num m = gmn /\ find_msg gmn = Some m /\ In (fdn, pf) (md_entries m).
Proof.
  unfold get_field. destruct (fields_len <=? gmn); [discriminate|].
  destruct (find_msg gmn) as [m|] eqn:Hf; [|discriminate].
  destruct (find (fun e => fst e =? fdn) (md_entries m)) as [e|] eqn:Hg; [|discriminate].
  intros H. injection H as <-. exists m.
  unfold find_msg in Hf. pose proof (find_some _ _ Hf) as [Hin Hn].
  pose proof (find_some _ _ Hg) as [Hin2 Hn2]. apply N.eqb_eq in Hn, Hn2.
  split; [exact Hin|]. split; [exact Hn|]. split; [reflexivity|].
  destruct e as [a b]. cbn [fst snd] in *. subst a. exact Hin2.
Qed.

Lemma get_field_codec_ty gmn fdn pf : get_field gmn fdn = Some pf ->
  (fit_kind (pf_t pf) =? kind_native) = true -> fit_array (pf_t pf) = false ->
  (fit_base (pf_t pf) =? base_string) = false ->
  codec_ty (fit_base (pf_t pf)) = field_type gmn (pf_sindex pf).
Proof.
  intros Hg Hk Ha Hs. destruct (get_field_in _ _ _ Hg) as [m [Hm [Hn [_ He]]]]. subst gmn.
  eapply profile_codec_ok; eassumption.
Qed.

Lemma get_field_expected_ty gmn fdn pf : get_field gmn fdn = Some pf ->
  expected_ty (pf_t pf) = field_type gmn (pf_sindex pf) /\ pf_num pf = fdn /\ pf_length pf < 256.
Proof.
  intros Hg. destruct (get_field_in _ _ _ Hg) as [m [Hm [Hn [_ He]]]]. subst gmn.
  destruct (profile_types_ok m fdn pf Hm He) as [H1 [H2 [H3 _]]]. auto.
Qed.

(* ------------------------------------------------------------ 4. strings *)
Lemma utf8_fuel_mono : forall f s, utf8_valid_fuel f s = true ->
  forall f', (f <= f')%nat -> utf8_valid_fuel f' s = true.
Proof.
  induction f as [|f IH]; intros s H f' Hle.
  - destruct s; [|discriminate H]. destruct f'; reflexivity.
  - destruct f' as [|f']; [lia|]. assert (Hle' : (f <= f')%nat) by lia.
    cbn [utf8_valid_fuel] in *. destruct s as [|b r]; [reflexivity|].
    destruct (b <? 128). { apply IH with (1 := H); exact Hle'. }
    destruct (in_rng 194 223 b).
    { destruct r as [|c1 r']; [discriminate H|]. apply andb_true_iff in H. destruct H as [H1 H2].
      rewrite H1, (IH _ H2 _ Hle'). reflexivity. }
    destruct (in_rng 224 239 b).
    { destruct r as [|c1 [|c2 r']]; try discriminate H. apply andb_true_iff in H. destruct H as [H1 H2].
      rewrite H1, (IH _ H2 _ Hle'). reflexivity. }
    destruct (in_rng 240 244 b); [|discriminate H].
    destruct r as [|c1 [|c2 [|c3 r']]]; try discriminate H. apply andb_true_iff in H. destruct H as [H1 H2].
    rewrite H1, (IH _ H2 _ Hle'). reflexivity.
Qed.

Definition ascii_tail (t : list N) : bool := forallb (fun b => b <? 128) t.

Lemma utf8_fuel_ascii : forall t, ascii_tail t = true -> utf8_valid_fuel (List.length t) t = true.
Proof.
  induction t as [|b r IH]; intros H; [reflexivity|].
  cbn [ascii_tail forallb] in H. apply andb_true_iff in H. destruct H as [H1 H2].
  cbn [List.length utf8_valid_fuel]. rewrite H1. apply IH, H2.
Qed.

Lemma utf8_fuel_app : forall f s t, utf8_valid_fuel f s = true -> ascii_tail t = true ->
  utf8_valid_fuel (f + List.length t) (s ++ t) = true.
Proof.
  induction f as [|f IH]; intros s t H Ht.
  - destruct s; [|discriminate H]. apply utf8_fuel_ascii, Ht.
  - change (S f + List.length t)%nat with (S (f + List.length t)).
    destruct s as [|b r].
    { cbn [app]. apply utf8_fuel_mono with (1 := utf8_fuel_ascii t Ht). lia. }
    cbn [app]. cbn [utf8_valid_fuel] in *.
    destruct (b <? 128). { apply IH; assumption. }
    destruct (in_rng 194 223 b).
    { destruct r as [|c1 r']; [discriminate H|]. apply andb_true_iff in H. destruct H as [H1 H2].
      cbn [app]. rewrite H1, (IH _ _ H2 Ht). reflexivity. }
    destruct (in_rng 224 239 b).
    { destruct r as [|c1 [|c2 r']]; try discriminate H. apply andb_true_iff in H. destruct H as [H1 H2].
      cbn [app]. rewrite H1, (IH _ _ H2 Ht). reflexivity. }
    destruct (in_rng 240 244 b); [|discriminate H].
    destruct r as [|c1 [|c2 [|c3 r']]]; try discriminate H. apply andb_true_iff in H. destruct H as [H1 H2].
    cbn [app]. rewrite H1, (IH _ _ H2 Ht). reflexivity.
Qed.

Lemma ascii_tail_zeros k : ascii_tail (repeat 0 k) = true.
Proof. induction k as [|k IH]; [reflexivity|]. cbn [repeat ascii_tail forallb]. exact IH. Qed.

Lemma utf8_valid_pad s k : utf8_valid s = true -> utf8_valid (s ++ repeat 0 k) = true.
Proof.
  unfold utf8_valid. intros H. rewrite app_length, repeat_length.
  pose proof (utf8_fuel_app _ s (repeat 0 k) H (ascii_tail_zeros k)) as H'.
  rewrite repeat_length in H'. exact H'.
Qed.

Fixpoint fz_go (l : list N) (i : nat) : nat :=
  match l with [] => i | b :: r => if b =? 0 then i else fz_go r (S i) end.

Lemma first_zero_fz l : first_zero l = fz_go l 0.
Proof. reflexivity. Qed.

Lemma fz_go_app : forall s t i, forallb (fun b => 0 <? b) s = true ->
  fz_go (s ++ 0 :: t) i = (i + List.length s)%nat.
Proof.
  induction s as [|b r IH]; intros t i H.
  - cbn [app fz_go List.length]. change (0 =? 0) with true. cbv iota. lia.
  - cbn [forallb] in H. apply andb_true_iff in H. destruct H as [H1 H2].
    cbn [app fz_go List.length]. apply N.ltb_lt in H1.
    destruct (N.eqb_spec b 0) as [E|_]; [lia|]. rewrite (IH t (S i) H2). lia.
Qed.

Lemma first_zero_app s t : forallb (fun b => 0 <? b) s = true -> first_zero (s ++ 0 :: t) = List.length s.
Proof. intros H. rewrite first_zero_fz, fz_go_app by exact H. reflexivity. Qed.

Lemma parse_fit_field_string be fd buf ty : fd_btype fd = base_string ->
  parse_fit_field be fd buf ty =
  if Nat.ltb 0 (first_zero buf) then of_set (set_string ty (firstn (first_zero buf) buf)) else FKeep.
Proof. intros H. unfold parse_fit_field. rewrite H. reflexivity. Qed.

Lemma forallb_weaken {A} (p q : A -> bool) l : (forall x, p x = true -> q x = true) ->
  forallb p l = true -> forallb q l = true.
Proof. intros Hpq H. rewrite forallb_forall in *. intros x Hx. apply Hpq, H, Hx. Qed.

Lemma encode_string_fits s size : utf8_valid s = true -> N.of_nat (List.length s) + 1 <= size ->
  encode_string s size = EOk (s ++ repeat 0 (N.to_nat size - List.length s)).
Proof.
  intros Hu Hl. unfold encode_string.
  destruct (N.eqb_spec size 0) as [E|_]; [lia|].
  replace (Nat.min (List.length s) (N.to_nat size - 1)) with (List.length s) by lia.
  rewrite firstn_all. rewrite (utf8_valid_pad s _ Hu). reflexivity.
Qed.

Lemma rt_string : forall be (pf : pfield) fd s size,
  forallb (fun b => (0 <? b) && (b <? 256)) s = true -> utf8_valid s = true ->
  N.of_nat (List.length s) + 1 <= size -> fd_btype fd = base_string ->
  encode_string s size = EOk (s ++ repeat 0 (N.to_nat size - List.length s)) /\
  parse_fit_field be fd (s ++ repeat 0 (N.to_nat size - List.length s)) TStr =
    match s with [] => FKeep | _ => FSet (VStr s) end.
Proof.
  intros be pf fd s size Hnz Hu Hl Hbt. split; [apply encode_string_fits; assumption|].
  rewrite (parse_fit_field_string be fd _ TStr Hbt).
  assert (Hnz' : forallb (fun b => 0 <? b) s = true).
  { apply forallb_weaken with (2 := Hnz). intros x Hx. apply andb_true_iff in Hx. tauto. }
  destruct (N.to_nat size - List.length s)%nat as [|k] eqn:Hk; [lia|].
  cbn [repeat]. rewrite (first_zero_app s (repeat 0 k) Hnz').
  destruct s as [|b r]; [reflexivity|].
  change (Nat.ltb 0 (List.length (b :: r))) with true. cbv iota.
  rewrite firstn_len_app. reflexivity.
Qed.

(* the field-level form: through encode_value on a string field of the profile *)
Lemma rt_string_field : forall be pf fd s bs,
  (fit_kind (pf_t pf) =? kind_native) = true -> (fit_base (pf_t pf) =? base_string) = true ->
  forallb (fun b => (0 <? b) && (b <? 256)) s = true -> utf8_valid s = true ->
  N.of_nat (List.length s) + 1 <= pf_length pf -> fd_btype fd = base_string ->
  encode_value be pf TStr (VStr s) = EOk bs ->
  parse_fit_field be fd bs TStr = match s with [] => FKeep | _ => FSet (VStr s) end.
Proof.
  intros be pf fd s bs Hk Hs Hnz Hu Hl Hbt He.
  destruct (rt_string be pf fd s (pf_length pf) Hnz Hu Hl Hbt) as [H1 H2].
  unfold encode_value in He. apply N.eqb_eq in Hk. rewrite Hk, Hs in He.
  change (kind_native =? kind_timeutc) with false in He. change (kind_native =? kind_timelocal) with false in He.
  change (kind_native =? kind_lat) with false in He. change (kind_native =? kind_lng) with false in He.
  change (kind_native =? kind_native) with true in He. cbv iota in He.
  rewrite H1 in He. injection He as <-. exact H2.
Qed.

(* ------------------------------------------------------------ 5. times and coordinates *)
Lemma extend4_put_int be sg x : extend4 be sg (put_int be 4 x) = put_int be 4 x.
Proof.
  unfold extend4. rewrite put_int_length. change (Nat.leb 4 4) with true. cbv iota.
  destruct be; reflexivity.
Qed.

(* the 32-bit word the decoder reads for the time / coordinate kinds *)
Lemma u32_put_int be sg x : x < 4294967296 -> get32 be (extend4 be sg (put_int be 4 x)) = x.
Proof. intros H. rewrite extend4_put_int, get32_put_int. apply N.mod_small, H. Qed.

Lemma sub_timebase_whole s : (-8589934592 <= s <= 8589934592)%Z -> sub_timebase s 0 = (s * 1000000000)%Z.
Proof.
  intros H. cbv [sub_timebase max_i64 min_i64]. change (Z.of_N 0) with 0%Z. rewrite Z.add_0_r.
  assert (H1 : (s * 1000000000 >? 9223372036854775807)%Z = false) by lia.
  assert (H2 : (s * 1000000000 <? -9223372036854775808)%Z = false) by lia.
  rewrite H1, H2. reflexivity.
Qed.

Lemma encode_time_whole s : (-8589934592 <= s <= 8589934592)%Z ->
  encode_time s 0 = Z.to_N (s mod 4294967296)%Z.
Proof.
  intros H. unfold encode_time. rewrite (sub_timebase_whole s H).
  rewrite Z.quot_mul by discriminate. reflexivity.
Qed.

Lemma encode_time_id s : (0 <= s <= 4294967294)%Z -> encode_time s 0 = Z.to_N s.
Proof. intros H. rewrite encode_time_whole by lia. f_equal. apply Z.mod_small. lia. Qed.

Definition zone_off (zone : option Z) : Z := match zone with Some o => o | None => 0%Z end.

Lemma encode_time_local_id s zone : (-8589934592 <= s <= 8589934592)%Z ->
  (0 <= s + zone_off zone <= 4294967294)%Z ->
  encode_time_local s 0 zone = Z.to_N (s + zone_off zone).
Proof.
  intros Hs H. unfold encode_time_local. fold (zone_off zone). rewrite (encode_time_whole s Hs).
  f_equal. rewrite Z2N.id by (apply Z.mod_pos_bound; reflexivity).
  rewrite Zplus_mod_idemp_l. apply Z.mod_small. lia.
Qed.

(* without the bound on s the subtraction saturates at the int64 limits *)
Lemma encode_time_local_saturates :
  encode_time_local 10000000000 0 (Some (-9999999995)%Z) <> Z.to_N (10000000000 + -9999999995).
Proof. vm_compute. discriminate. Qed.

Lemma parse_time_stamp_utc st s num : (0 <= s <= 4294967294)%Z ->
  fst (parse_time_stamp st (Z.to_N s) kind_timeutc num) = Some (VTime s 0 None).
Proof.
  intros H. unfold parse_time_stamp.
  destruct (N.eqb_spec (Z.to_N s) 4294967295) as [E|_]; [lia|].
  change (kind_timeutc =? kind_timeutc) with true. cbv iota. cbn [fst].
  unfold decode_date_time. rewrite Z2N.id by lia. reflexivity.
Qed.

Lemma norm_field_local pf s n zone : fit_kind (pf_t pf) = kind_timelocal -> fit_array (pf_t pf) = false ->
  norm_field pf (VTime s n zone) = VTime (s + zone_off zone) n None.
Proof.
  intros Hk Ha. unfold norm_field. rewrite Ha, Hk. reflexivity.
Qed.

Lemma norm_field_utc pf s n zone : fit_kind (pf_t pf) = kind_timeutc -> fit_array (pf_t pf) = false ->
  norm_field pf (VTime s n zone) = VTime s n None.
Proof.
  intros Hk Ha. unfold norm_field. rewrite Ha, Hk. reflexivity.
Qed.

(* whatever the decoder's reference time is, the wall clock reading is the one put in *)
Lemma parse_time_stamp_local st s zone num pf : (0 <= s + zone_off zone <= 4294967294)%Z ->
  fit_kind (pf_t pf) = kind_timelocal -> fit_array (pf_t pf) = false ->
  exists v', fst (parse_time_stamp st (Z.to_N (s + zone_off zone)) kind_timelocal num) = Some v' /\
             norm_field pf v' = norm_field pf (VTime s 0 zone).
Proof.
  intros H Hk Ha. unfold parse_time_stamp.
  destruct (N.eqb_spec (Z.to_N (s + zone_off zone)) 4294967295) as [E|_]; [lia|].
  change (kind_timelocal =? kind_timeutc) with false. cbv iota.
  rewrite (norm_field_local pf s 0 zone Hk Ha).
  destruct (negb (ds_hasts st) || (ds_ts st <? c_systemTimeMarker)); cbn [fst]; eexists; (split; [reflexivity|]);
    rewrite (norm_field_local pf _ _ _ Hk Ha); cbn [zone_off]; f_equal; lia.
Qed.

Lemma new_latitude_rt be z : (z = 2147483647 \/ -1073741824 <= z <= 1073741823)%Z ->
  new_latitude (to_signed 32 (get32 be (put_int be 4 (of_signed 32 z)))) = VLat z.
Proof.
  intros H. rewrite get32_put_int, (N.mod_small _ _ (of_signed_lt_32 z)).
  rewrite to_signed_of_signed_32 by lia. unfold new_latitude.
  change (2 ^ 30)%Z with 1073741824%Z.
  match goal with |- (if ?c then _ else _) = _ => destruct c eqn:E end; [|reflexivity].
  f_equal. lia.
Qed.

Lemma new_longitude_rt be z : (-2147483648 <= z <= 2147483647)%Z ->
  new_longitude (to_signed 32 (get32 be (put_int be 4 (of_signed 32 z)))) = VLng z.
Proof.
  intros H. rewrite get32_put_int, (N.mod_small _ _ (of_signed_lt_32 z)).
  rewrite to_signed_of_signed_32 by lia. reflexivity.
Qed.

(* field-level forms: encode_value on the kind, then the decoder's 32-bit word *)
Lemma encode_value_timeutc be pf ty s n z : fit_kind (pf_t pf) = kind_timeutc ->
  encode_value be pf ty (VTime s n z) = EOk (put_int be 4 (encode_time s n)).
Proof. intros Hk. unfold encode_value. rewrite Hk. reflexivity. Qed.

Lemma encode_value_timelocal be pf ty s n z : fit_kind (pf_t pf) = kind_timelocal ->
  encode_value be pf ty (VTime s n z) = EOk (put_int be 4 (encode_time_local s n z)).
Proof. intros Hk. unfold encode_value. rewrite Hk. reflexivity. Qed.

Lemma encode_value_lat be pf ty z : fit_kind (pf_t pf) = kind_lat ->
  encode_value be pf ty (VLat z) = EOk (put_int be 4 (of_signed 32 z)).
Proof. intros Hk. unfold encode_value. rewrite Hk. reflexivity. Qed.

Lemma encode_value_lng be pf ty z : fit_kind (pf_t pf) = kind_lng ->
  encode_value be pf ty (VLng z) = EOk (put_int be 4 (of_signed 32 z)).
Proof. intros Hk. unfold encode_value. rewrite Hk. reflexivity. Qed.

Lemma rt_time_utc : forall be sg pf ty s zone bs st num,
  fit_kind (pf_t pf) = kind_timeutc -> (0 <= s <= 4294967294)%Z ->
  encode_value be pf ty (VTime s 0 zone) = EOk bs ->
  fst (parse_time_stamp st (get32 be (extend4 be sg bs)) kind_timeutc num) = Some (VTime s 0 None).
Proof.
  intros be sg pf ty s zone bs st num Hk H He.
  rewrite (encode_value_timeutc be pf ty s 0 zone Hk) in He. injection He as <-.
  rewrite (encode_time_id s H). rewrite u32_put_int by lia. apply parse_time_stamp_utc, H.
Qed.

Lemma rt_time_local : forall be sg pf ty s zone bs st num,
  fit_kind (pf_t pf) = kind_timelocal -> fit_array (pf_t pf) = false ->
  (-8589934592 <= s <= 8589934592)%Z -> (0 <= s + zone_off zone <= 4294967294)%Z ->
  encode_value be pf ty (VTime s 0 zone) = EOk bs ->
  exists v', fst (parse_time_stamp st (get32 be (extend4 be sg bs)) kind_timelocal num) = Some v' /\
             norm_field pf v' = norm_field pf (VTime s 0 zone).
Proof.
  intros be sg pf ty s zone bs st num Hk Ha Hs H He.
  rewrite (encode_value_timelocal be pf ty s 0 zone Hk) in He. injection He as <-.
  rewrite (encode_time_local_id s zone Hs H). rewrite u32_put_int by lia.
  apply parse_time_stamp_local; assumption.
Qed.

Lemma rt_lat : forall be sg pf ty z bs,
  fit_kind (pf_t pf) = kind_lat -> (z = 2147483647 \/ -1073741824 <= z <= 1073741823)%Z ->
  encode_value be pf ty (VLat z) = EOk bs ->
  new_latitude (to_signed 32 (get32 be (extend4 be sg bs))) = VLat z.
Proof.
  intros be sg pf ty z bs Hk H He.
  rewrite (encode_value_lat be pf ty z Hk) in He. injection He as <-.
  rewrite extend4_put_int. apply new_latitude_rt, H.
Qed.

Lemma rt_lng : forall be sg pf ty z bs,
  fit_kind (pf_t pf) = kind_lng -> (-2147483648 <= z <= 2147483647)%Z ->
  encode_value be pf ty (VLng z) = EOk bs ->
  new_longitude (to_signed 32 (get32 be (extend4 be sg bs))) = VLng z.
Proof.
  intros be sg pf ty z bs Hk H He.
  rewrite (encode_value_lng be pf ty z Hk) in He. injection He as <-.
  rewrite extend4_put_int. apply new_longitude_rt, H.
Qed.

(* ------------------------------------------------------------ 6. arrays *)
Definition codec_bts : list N := [0; 1; 2; 10; 13; 131; 132; 133; 134; 139; 140].

Lemma codec_ty_in bt ty : codec_ty bt = Some ty -> In bt codec_bts.
Proof.
  unfold codec_ty, is_u8like, codec_bts. intros H.
  repeat match type of H with
  | context[?a =? ?b] => destruct (N.eqb_spec a b) as [->|_]; [cbn [In]; tauto|]
  end.
  discriminate H.
Qed.

Definition ty_bytes (ty : gotype) : N := match ty with TU b | TI b => b / 8 | _ => 0 end.

(* what the base tables say about the eleven base types of codec_ty *)
Definition codec_facts (bt : N) : bool :=
  match codec_ty bt, b_known bt, b_invalid bt, invalid_type bt, b_size bt with
  | Some ty, Some true, Some iv, Some ity, Some bs =>
      gotype_eqb ity ty && val_has_type ty iv && (ty_bytes ty =? bs) && negb (bt =? base_string)
  | _, _, _, _, _ => false
  end.

Lemma codec_facts_ok_b : forallb codec_facts codec_bts = true.
Proof. vm_compute; reflexivity. Qed.

Lemma codec_facts_ok bt ty : codec_ty bt = Some ty ->
  b_known bt = Some true /\ (bt =? base_string) = false /\ invalid_type bt = Some ty /\
  b_size bt = Some (ty_bytes ty) /\ exists iv, b_invalid bt = Some iv /\ val_has_type ty iv = true.
Proof.
  intros H. pose proof codec_facts_ok_b as F. rewrite forallb_forall in F.
  specialize (F bt (codec_ty_in bt ty H)). unfold codec_facts in F. rewrite H in F.
  destruct (b_known bt) as [[|]|]; try discriminate F.
  destruct (b_invalid bt) as [iv|]; try discriminate F.
  destruct (invalid_type bt) as [ity|]; try discriminate F.
  destruct (b_size bt) as [bs|]; try discriminate F.
  rewrite !andb_true_iff in F. destruct F as [[[F1 F2] F3] F4].
  apply gotype_eqb_eq in F1. apply N.eqb_eq in F3. subst ity bs.
  split; [reflexivity|]. split; [destruct (bt =? base_string); [discriminate F4|reflexivity]|].
  split; [reflexivity|]. split; [reflexivity|]. exists iv. split; [reflexivity|exact F2].
Qed.

Lemma codec_ty_cases bt ty : codec_ty bt = Some ty ->
  ty = TU 8 \/ ty = TI 8 \/ ty = TU 16 \/ ty = TI 16 \/ ty = TU 32 \/ ty = TI 32.
Proof.
  unfold codec_ty. intros H.
  repeat match type of H with
  | (if ?c then _ else _) = _ => destruct c; [injection H as <-; tauto|]
  end. discriminate H.
Qed.

Lemma map_repeat' {A B} (f : A -> B) x n : map f (repeat x n) = repeat (f x) n.
Proof. induction n as [|n IH]; [reflexivity|]. cbn [repeat map]. f_equal. exact IH. Qed.

(* all elements have Go type ty *)
Definition all_typed (ty : gotype) (l : list goval) : Prop := forall x, In x l -> val_has_type ty x = true.

Lemma write_field_array be pf ty iv l :
  fit_array (pf_t pf) = true -> (fit_kind (pf_t pf) =? kind_native) = true ->
  codec_ty (fit_base (pf_t pf)) = Some ty -> b_invalid (fit_base (pf_t pf)) = Some iv ->
  N.of_nat (List.length l) <= pf_length pf -> pf_length pf < 256 ->
  write_field be pf (TSlice ty) (VList l) =
  econcat (map (bw be ty) (l ++ repeat iv (N.to_nat (pf_length pf) - List.length l))).
Proof.
  intros Ha Hk Hc Hiv Hl Hp.
  destruct (codec_facts_ok _ _ Hc) as [Hkn [Hs [Hit [_ _]]]].
  unfold write_field. rewrite Ha, Hs, Hkn, Hiv, Hit. cbn [negb]. cbv iota zeta beta.
  rewrite (N.mod_small (N.of_nat (List.length l)) 256) by lia.
  destruct (N.ltb_spec (pf_length pf) (N.of_nat (List.length l))) as [E|_]; [lia|].
  rewrite Nat2N.id, firstn_all. cbn [elem_type].
  rewrite (map_ext (encode_value be pf ty) (bw be ty)) by (intros x; apply encode_value_native; assumption).
  rewrite map_app, map_repeat'.
  destruct (N.to_nat (pf_length pf - N.of_nat (List.length l))) as [|k] eqn:Hn.
  - replace (N.to_nat (pf_length pf) - List.length l)%nat with 0%nat by lia. reflexivity.
  - replace (N.to_nat (pf_length pf) - List.length l)%nat with (S k) by lia.
    rewrite (encode_value_native be pf ty iv Hk Hs). reflexivity.
Qed.

(* the bytes of one element *)
Definition enc_elem (be : bool) (ty : gotype) (v : goval) : list N :=
  match ty, v with
  | TU bits, VU n => put_int be (nbytes bits) (n mod 2 ^ bits)
  | TI bits, VI z => put_int be (nbytes bits) (of_signed bits z)
  | _, _ => []
  end.

Definition int_ty (ty : gotype) : Prop := match ty with TU _ | TI _ => True | _ => False end.

Lemma bw_enc_elem be ty x : int_ty ty -> val_has_type ty x = true -> bw be ty x = EOk (enc_elem be ty x).
Proof.
  intros Hi Hx. destruct ty; try contradiction; destruct x; try discriminate Hx; reflexivity.
Qed.

Lemma econcat_bw be ty : int_ty ty -> forall l, all_typed ty l ->
  econcat (map (bw be ty) l) = EOk (List.concat (map (enc_elem be ty) l)).
Proof.
  intros Hi. induction l as [|x r IH]; intros Hl; [reflexivity|].
  cbn [map econcat List.concat].
  rewrite (bw_enc_elem be ty x Hi) by (apply Hl; left; reflexivity).
  rewrite IH by (intros y Hy; apply Hl; right; exact Hy). reflexivity.
Qed.

Lemma chunks_concat k : (0 < k)%nat -> forall (l : list (list N)) fuel,
  (forall a, In a l -> List.length a = k) -> (List.length l <= fuel)%nat ->
  chunks k fuel (List.concat l) = l.
Proof.
  intros Hk. induction l as [|a r IH]; intros fuel Hl Hf.
  - destruct fuel; reflexivity.
  - destruct fuel as [|f]; [cbn [List.length] in Hf; lia|].
    assert (Ha : List.length a = k) by (apply Hl; left; reflexivity).
    cbn [List.concat chunks].
    pose proof (firstn_len_app a (List.concat r)) as F1. pose proof (skipn_len_app a (List.concat r)) as F2.
    rewrite Ha in F1, F2. rewrite F1, F2.
    destruct (a ++ List.concat r) eqn:E.
    { apply app_eq_nil in E. destruct E as [E _]. subst a. cbn [List.length] in Ha. lia. }
    f_equal. apply IH; [intros b Hb; apply Hl; right; exact Hb|]. cbn [List.length] in Hf. lia.
Qed.

Lemma concat_length_const k : forall (l : list (list N)),
  (forall a, In a l -> List.length a = k) -> List.length (List.concat l) = (List.length l * k)%nat.
Proof.
  induction l as [|a r IH]; intros Hl; [reflexivity|].
  cbn [List.concat List.length]. rewrite app_length, IH by (intros b Hb; apply Hl; right; exact Hb).
  rewrite (Hl a) by (left; reflexivity). lia.
Qed.

Lemma map_id_in {A} (f : A -> A) l : (forall x, In x l -> f x = x) -> map f l = l.
Proof.
  induction l as [|x r IH]; intros H; [reflexivity|]. cbn [map]. f_equal.
  - apply H. left; reflexivity.
  - apply IH. intros y Hy. apply H. right; exact Hy.
Qed.

Lemma concat_singletons {A B} (f : A -> list B) (g : A -> B) l :
  (forall x, In x l -> f x = [g x]) -> List.concat (map f l) = map g l.
Proof.
  induction l as [|x r IH]; intros H; [reflexivity|]. cbn [map List.concat].
  rewrite (H x) by (left; reflexivity). rewrite IH by (intros y Hy; apply H; right; exact Hy). reflexivity.
Qed.

Lemma put_int1 be x : put_int be 1 x = [x mod 256].
Proof. destruct be; reflexivity. Qed.

Lemma chunked_rt (k : nat) (enc : goval -> list N) (l : list goval) :
  (0 < k)%nat -> (forall x, In x l -> List.length (enc x) = k) ->
  Nat.modulo (List.length (List.concat (map enc l))) k = 0%nat /\
  chunks k (List.length (List.concat (map enc l)))
         (firstn (k * (List.length (List.concat (map enc l)) / k)) (List.concat (map enc l))) = map enc l.
Proof.
  intros Hk Hl.
  assert (Hall : forall a, In a (map enc l) -> List.length a = k).
  { intros a Ha. apply in_map_iff in Ha. destruct Ha as [x [<- Hx]]. apply Hl, Hx. }
  pose proof (concat_length_const k (map enc l) Hall) as Hlen. rewrite map_length in Hlen.
  rewrite Hlen. split; [apply Nat.mod_mul; lia|].
  rewrite Nat.div_mul by lia.
  rewrite firstn_all2 by lia.
  apply chunks_concat; [exact Hk|exact Hall|]. rewrite map_length. nia.
Qed.

(* the decoder's array parser, reduced per group of base types *)
Lemma pffa_byte be fd buf ty : fd_btype fd = base_byte ->
  parse_fit_field_array be fd buf ty = of_set (set_bytes ty buf).
Proof. intros H. unfold parse_fit_field_array. rewrite H. reflexivity. Qed.

Lemma pffa_u8 be fd buf ty :
  fd_btype fd = base_enum \/ fd_btype fd = base_uint8 \/ fd_btype fd = base_uint8z ->
  parse_fit_field_array be fd buf (TSlice ty) =
  if negb (Nat.eqb (Nat.modulo (List.length buf) 1) 0) then FPanic 5 else of_set (set_uint_slice (TSlice ty) buf).
Proof. intros [H|[H|H]]; unfold parse_fit_field_array; rewrite H; reflexivity. Qed.

Lemma pffa_i8 be fd buf ty : fd_btype fd = base_sint8 ->
  parse_fit_field_array be fd buf (TSlice ty) =
  if negb (Nat.eqb (Nat.modulo (List.length buf) 1) 0) then FPanic 5
  else of_set (set_int_slice (TSlice ty) (map (to_signed 8) buf)).
Proof. intros H; unfold parse_fit_field_array; rewrite H; reflexivity. Qed.

Lemma pffa_i16 be fd buf ty : fd_btype fd = base_sint16 ->
  parse_fit_field_array be fd buf (TSlice ty) =
  if negb (Nat.eqb (Nat.modulo (List.length buf) 2) 0) then FPanic 5
  else of_set (set_int_slice (TSlice ty) (map (fun e => to_signed 16 (get16 be e))
         (chunks 2 (List.length buf) (firstn (2 * (List.length buf / 2)) buf)))).
Proof. intros H; unfold parse_fit_field_array; rewrite H; reflexivity. Qed.

Lemma pffa_u16 be fd buf ty : fd_btype fd = base_uint16 \/ fd_btype fd = base_uint16z ->
  parse_fit_field_array be fd buf (TSlice ty) =
  if negb (Nat.eqb (Nat.modulo (List.length buf) 2) 0) then FPanic 5
  else of_set (set_uint_slice (TSlice ty) (map (get16 be)
         (chunks 2 (List.length buf) (firstn (2 * (List.length buf / 2)) buf)))).
Proof. intros [H|H]; unfold parse_fit_field_array; rewrite H; reflexivity. Qed.

Lemma pffa_i32 be fd buf ty : fd_btype fd = base_sint32 ->
  parse_fit_field_array be fd buf (TSlice ty) =
  if negb (Nat.eqb (Nat.modulo (List.length buf) 4) 0) then FPanic 5
  else of_set (set_int_slice (TSlice ty) (map (fun e => to_signed 32 (get32 be e))
         (chunks 4 (List.length buf) (firstn (4 * (List.length buf / 4)) buf)))).
Proof. intros H; unfold parse_fit_field_array; rewrite H; reflexivity. Qed.

Lemma pffa_u32 be fd buf ty : fd_btype fd = base_uint32 \/ fd_btype fd = base_uint32z ->
  parse_fit_field_array be fd buf (TSlice ty) =
  if negb (Nat.eqb (Nat.modulo (List.length buf) 4) 0) then FPanic 5
  else of_set (set_uint_slice (TSlice ty) (map (get32 be)
         (chunks 4 (List.length buf) (firstn (4 * (List.length buf / 4)) buf)))).
Proof. intros [H|H]; unfold parse_fit_field_array; rewrite H; reflexivity. Qed.

Lemma typed_u bits x : val_has_type (TU bits) x = true -> exists n, x = VU n /\ n < 2 ^ bits.
Proof.
  intros H. destruct x; try discriminate H. cbn [val_has_type] in H. apply N.ltb_lt in H. eauto.
Qed.

Lemma typed_i bits x : val_has_type (TI bits) x = true ->
  exists z, x = VI z /\ (- Z.of_N (2 ^ (bits - 1)) <= z <= Z.of_N (2 ^ (bits - 1)) - 1)%Z.
Proof.
  intros H. destruct x; try discriminate H. cbn [val_has_type] in H. apply z_in_iff in H. eauto.
Qed.

(* element by element: what the decoder makes of the bytes of one element *)
Lemma FSet_inj a b : FSet a = FSet b -> a = b.
Proof. intros E. injection E as E. exact E. Qed.

Lemma el_u8 be x : val_has_type (TU 8) x = true -> VU (wrap_u 8 (b_at (enc_elem be (TU 8) x) 0)) = x.
Proof.
  intros H. destruct (typed_u 8 x H) as [n [-> Hn]]. unfold enc_elem.
  pose proof (rt_u8 be n Hn) as R. unfold of_set, set_uint in R. apply FSet_inj in R. exact R.
Qed.

Lemma el_i8 be x : val_has_type (TI 8) x = true ->
  VI (wrap_s 8 (to_signed 8 (b_at (enc_elem be (TI 8) x) 0))) = x.
Proof.
  intros H. destruct (typed_i 8 x H) as [z [-> Hz]]. unfold enc_elem.
  pose proof (rt_i8 be z Hz) as R. unfold of_set, set_int in R. apply FSet_inj in R. exact R.
Qed.

Lemma el_u16 be x : val_has_type (TU 16) x = true -> VU (wrap_u 16 (get16 be (enc_elem be (TU 16) x))) = x.
Proof.
  intros H. destruct (typed_u 16 x H) as [n [-> Hn]]. unfold enc_elem.
  pose proof (rt_u16 be n Hn) as R. unfold of_set, set_uint in R. apply FSet_inj in R. exact R.
Qed.

Lemma el_i16 be x : val_has_type (TI 16) x = true ->
  VI (wrap_s 16 (to_signed 16 (get16 be (enc_elem be (TI 16) x)))) = x.
Proof.
  intros H. destruct (typed_i 16 x H) as [z [-> Hz]]. unfold enc_elem.
  pose proof (rt_i16 be z Hz) as R. unfold of_set, set_int in R. apply FSet_inj in R. exact R.
Qed.

Lemma el_u32 be x : val_has_type (TU 32) x = true -> VU (wrap_u 32 (get32 be (enc_elem be (TU 32) x))) = x.
Proof.
  intros H. destruct (typed_u 32 x H) as [n [-> Hn]]. unfold enc_elem.
  pose proof (rt_u32 be n Hn) as R. unfold of_set, set_uint in R. apply FSet_inj in R. exact R.
Qed.

Lemma el_i32 be x : val_has_type (TI 32) x = true ->
  VI (wrap_s 32 (to_signed 32 (get32 be (enc_elem be (TI 32) x)))) = x.
Proof.
  intros H. destruct (typed_i 32 x H) as [z [-> Hz]]. unfold enc_elem.
  pose proof (rt_i32 be z Hz) as R. unfold of_set, set_int in R. apply FSet_inj in R. exact R.
Qed.

Lemma enc_len be ty x k : (ty = TU (8 * N.of_nat k) \/ ty = TI (8 * N.of_nat k)) -> val_has_type ty x = true ->
  nbytes (8 * N.of_nat k) = k -> List.length (enc_elem be ty x) = k.
Proof.
  intros [-> | ->] H Hk.
  - destruct (typed_u _ x H) as [n [-> _]]. unfold enc_elem. rewrite put_int_length. exact Hk.
  - destruct (typed_i _ x H) as [z [-> _]]. unfold enc_elem. rewrite put_int_length. exact Hk.
Qed.

Lemma enc1_singleton be ty x : (ty = TU 8 \/ ty = TI 8) -> val_has_type ty x = true ->
  enc_elem be ty x = [b_at (enc_elem be ty x) 0].
Proof.
  intros [-> | ->] H.
  - destruct (typed_u _ x H) as [n [-> _]]. unfold enc_elem. change (nbytes 8) with 1%nat.
    rewrite put_int1. reflexivity.
  - destruct (typed_i _ x H) as [z [-> _]]. unfold enc_elem. change (nbytes 8) with 1%nat.
    rewrite put_int1. reflexivity.
Qed.

(* the decoder on the bytes of a whole list *)
Lemma arr_u8 be fd l : fd_btype fd = base_enum \/ fd_btype fd = base_uint8 \/ fd_btype fd = base_uint8z ->
  all_typed (TU 8) l ->
  parse_fit_field_array be fd (List.concat (map (enc_elem be (TU 8)) l)) (TSlice (TU 8)) = FSet (VList l).
Proof.
  intros Hb Hl. rewrite (pffa_u8 be fd _ (TU 8) Hb). rewrite Nat.mod_1_r. change (negb (Nat.eqb 0 0)) with false.
  cbv iota. unfold set_uint_slice, of_set.
  rewrite (concat_singletons (enc_elem be (TU 8)) (fun x => b_at (enc_elem be (TU 8) x) 0))
    by (intros x Hx; apply enc1_singleton; [left; reflexivity|apply Hl, Hx]).
  rewrite map_map. rewrite map_id_in; [reflexivity|]. intros x Hx. apply el_u8, Hl, Hx.
Qed.

Lemma arr_byte be fd l : fd_btype fd = base_byte -> all_typed (TU 8) l ->
  parse_fit_field_array be fd (List.concat (map (enc_elem be (TU 8)) l)) (TSlice (TU 8)) = FSet (VList l).
Proof.
  intros Hb Hl. rewrite (pffa_byte be fd _ _ Hb). unfold set_bytes, of_set.
  rewrite (concat_singletons (enc_elem be (TU 8)) (fun x => b_at (enc_elem be (TU 8) x) 0))
    by (intros x Hx; apply enc1_singleton; [left; reflexivity|apply Hl, Hx]).
  rewrite map_map. rewrite map_id_in; [reflexivity|]. intros x Hx.
  pose proof (el_u8 be x (Hl x Hx)) as E. destruct (typed_u 8 x (Hl x Hx)) as [n [-> Hn]].
  unfold enc_elem in *. change (nbytes 8) with 1%nat in *. rewrite b_at_put_int1 in *.
  unfold wrap_u in E. change (2 ^ 8) with 256 in *. f_equal. lia.
Qed.

Lemma arr_i8 be fd l : fd_btype fd = base_sint8 -> all_typed (TI 8) l ->
  parse_fit_field_array be fd (List.concat (map (enc_elem be (TI 8)) l)) (TSlice (TI 8)) = FSet (VList l).
Proof.
  intros Hb Hl. rewrite (pffa_i8 be fd _ (TI 8) Hb). rewrite Nat.mod_1_r. change (negb (Nat.eqb 0 0)) with false.
  cbv iota. unfold set_int_slice, of_set.
  rewrite (concat_singletons (enc_elem be (TI 8)) (fun x => b_at (enc_elem be (TI 8) x) 0))
    by (intros x Hx; apply enc1_singleton; [right; reflexivity|apply Hl, Hx]).
  rewrite !map_map. rewrite map_id_in; [reflexivity|]. intros x Hx. apply el_i8, Hl, Hx.
Qed.

Lemma arr_u16 be fd l : fd_btype fd = base_uint16 \/ fd_btype fd = base_uint16z -> all_typed (TU 16) l ->
  parse_fit_field_array be fd (List.concat (map (enc_elem be (TU 16)) l)) (TSlice (TU 16)) = FSet (VList l).
Proof.
  intros Hb Hl. rewrite (pffa_u16 be fd _ (TU 16) Hb).
  destruct (chunked_rt 2 (enc_elem be (TU 16)) l) as [M C]; [lia| |].
  { intros x Hx. apply (enc_len be (TU 16) x 2); [left; reflexivity|apply Hl, Hx|reflexivity]. }
  rewrite M, C. change (negb (Nat.eqb 0 0)) with false. cbv iota. unfold set_uint_slice, of_set.
  rewrite !map_map. rewrite map_id_in; [reflexivity|]. intros x Hx. apply el_u16, Hl, Hx.
Qed.

Lemma arr_i16 be fd l : fd_btype fd = base_sint16 -> all_typed (TI 16) l ->
  parse_fit_field_array be fd (List.concat (map (enc_elem be (TI 16)) l)) (TSlice (TI 16)) = FSet (VList l).
Proof.
  intros Hb Hl. rewrite (pffa_i16 be fd _ (TI 16) Hb).
  destruct (chunked_rt 2 (enc_elem be (TI 16)) l) as [M C]; [lia| |].
  { intros x Hx. apply (enc_len be (TI 16) x 2); [right; reflexivity|apply Hl, Hx|reflexivity]. }
  rewrite M, C. change (negb (Nat.eqb 0 0)) with false. cbv iota. unfold set_int_slice, of_set.
  rewrite !map_map. rewrite map_id_in; [reflexivity|]. intros x Hx. apply el_i16, Hl, Hx.
Qed.

Lemma arr_u32 be fd l : fd_btype fd = base_uint32 \/ fd_btype fd = base_uint32z -> all_typed (TU 32) l ->
  parse_fit_field_array be fd (List.concat (map (enc_elem be (TU 32)) l)) (TSlice (TU 32)) = FSet (VList l).
Proof.
  intros Hb Hl. rewrite (pffa_u32 be fd _ (TU 32) Hb).
  destruct (chunked_rt 4 (enc_elem be (TU 32)) l) as [M C]; [lia| |].
  { intros x Hx. apply (enc_len be (TU 32) x 4); [left; reflexivity|apply Hl, Hx|reflexivity]. }
  rewrite M, C. change (negb (Nat.eqb 0 0)) with false. cbv iota. unfold set_uint_slice, of_set.
  rewrite !map_map. rewrite map_id_in; [reflexivity|]. intros x Hx. apply el_u32, Hl, Hx.
Qed.

Lemma arr_i32 be fd l : fd_btype fd = base_sint32 -> all_typed (TI 32) l ->
  parse_fit_field_array be fd (List.concat (map (enc_elem be (TI 32)) l)) (TSlice (TI 32)) = FSet (VList l).
Proof.
  intros Hb Hl. rewrite (pffa_i32 be fd _ (TI 32) Hb).
  destruct (chunked_rt 4 (enc_elem be (TI 32)) l) as [M C]; [lia| |].
  { intros x Hx. apply (enc_len be (TI 32) x 4); [right; reflexivity|apply Hl, Hx|reflexivity]. }
  rewrite M, C. change (negb (Nat.eqb 0 0)) with false. cbv iota. unfold set_int_slice, of_set.
  rewrite !map_map. rewrite map_id_in; [reflexivity|]. intros x Hx. apply el_i32, Hl, Hx.
Qed.

Lemma codec_ty_int bt ty : codec_ty bt = Some ty -> int_ty ty.
Proof.
  intros H. destruct (codec_ty_cases bt ty H) as [-> | [-> | [-> | [-> | [-> | ->]]]]]; exact I.
Qed.

Lemma parse_array_enc be fd ty l : codec_ty (fd_btype fd) = Some ty -> all_typed ty l ->
  parse_fit_field_array be fd (List.concat (map (enc_elem be ty) l)) (TSlice ty) = FSet (VList l).
Proof.
  intros Hc Hl. pose proof (codec_ty_in _ _ Hc) as Hin. unfold codec_bts in Hin. cbn [In] in Hin.
  destruct Hin as [E|[E|[E|[E|[E|[E|[E|[E|[E|[E|[E|[]]]]]]]]]]]]; symmetry in E; rewrite E in Hc;
    vm_compute in Hc; injection Hc as <-.
  - apply arr_u8; [left; exact E|exact Hl].
  - apply arr_i8; [exact E|exact Hl].
  - apply arr_u8; [right; left; exact E|exact Hl].
  - apply arr_u8; [right; right; exact E|exact Hl].
  - apply arr_byte; [exact E|exact Hl].
  - apply arr_i16; [exact E|exact Hl].
  - apply arr_u16; [left; exact E|exact Hl].
  - apply arr_i32; [exact E|exact Hl].
  - apply arr_u32; [left; exact E|exact Hl].
  - apply arr_u16; [right; exact E|exact Hl].
  - apply arr_u32; [right; exact E|exact Hl].
Qed.

Lemma rt_array : forall be pf fd ty iv l bs,
  fit_array (pf_t pf) = true -> (fit_kind (pf_t pf) =? kind_native) = true ->
  codec_ty (fit_base (pf_t pf)) = Some ty -> fd_btype fd = fit_base (pf_t pf) ->
  b_invalid (fit_base (pf_t pf)) = Some iv ->
  N.of_nat (List.length l) <= pf_length pf -> pf_length pf < 256 -> all_typed ty l ->
  write_field be pf (TSlice ty) (VList l) = EOk bs ->
  parse_fit_field_array be fd bs (TSlice ty) =
    FSet (VList (l ++ repeat iv (N.to_nat (pf_length pf) - List.length l))).
Proof.
  intros be pf fd ty iv l bs Ha Hk Hc Hfd Hiv Hlen Hp Hl He.
  rewrite (write_field_array be pf ty iv l Ha Hk Hc Hiv Hlen Hp) in He.
  assert (Hl' : all_typed ty (l ++ repeat iv (N.to_nat (pf_length pf) - List.length l))).
  { intros x Hx. apply in_app_or in Hx. destruct Hx as [Hx|Hx]; [apply Hl, Hx|].
    apply repeat_spec in Hx. subst x.
    destruct (codec_facts_ok _ _ Hc) as [_ [_ [_ [_ [iv' [Hiv' Ht]]]]]].
    rewrite Hiv in Hiv'. injection Hiv' as <-. exact Ht. }
  rewrite (econcat_bw be ty (codec_ty_int _ _ Hc) _ Hl') in He. injection He as <-.
  apply parse_array_enc; [rewrite Hfd; exact Hc|exact Hl'].
Qed.

(* trailing invalid padding disappears under the comparator *)
Lemma strip_trailing_pad bt iv : is_inv bt iv = true -> forall k, strip_trailing bt (repeat iv k) = [].
Proof.
  intros Hi. induction k as [|k IH]; [reflexivity|]. cbn [repeat strip_trailing]. rewrite IH, Hi. reflexivity.
Qed.

Lemma strip_trailing_app_pad bt iv k : is_inv bt iv = true ->
  forall l, strip_trailing bt (l ++ repeat iv k) = strip_trailing bt l.
Proof.
  intros Hi. induction l as [|x r IH]; [apply strip_trailing_pad, Hi|].
  cbn [app strip_trailing]. rewrite IH. reflexivity.
Qed.

Lemma norm_field_array_pad pf iv l k : fit_array (pf_t pf) = true -> (fit_base (pf_t pf) =? base_string) = false ->
  is_inv (fit_base (pf_t pf)) iv = true ->
  norm_field pf (VList (l ++ repeat iv k)) = norm_field pf (VList l).
Proof.
  intros Ha Hs Hi. unfold norm_field. rewrite Ha, Hs. cbn [elems].
  rewrite (strip_trailing_app_pad _ iv k Hi l). reflexivity.
Qed.

Lemma rt_array_norm : forall be pf fd ty iv l bs,
  fit_array (pf_t pf) = true -> (fit_kind (pf_t pf) =? kind_native) = true ->
  codec_ty (fit_base (pf_t pf)) = Some ty -> fd_btype fd = fit_base (pf_t pf) ->
  b_invalid (fit_base (pf_t pf)) = Some iv -> is_inv (fit_base (pf_t pf)) iv = true ->
  N.of_nat (List.length l) <= pf_length pf -> pf_length pf < 256 -> all_typed ty l ->
  write_field be pf (TSlice ty) (VList l) = EOk bs ->
  exists v', parse_fit_field_array be fd bs (TSlice ty) = FSet v' /\ norm_field pf v' = norm_field pf (VList l).
Proof.
  intros be pf fd ty iv l bs Ha Hk Hc Hfd Hiv Hi Hlen Hp Hl He.
  eexists. split; [eapply rt_array; eassumption|].
  destruct (codec_facts_ok _ _ Hc) as [_ [Hs _]].
  apply norm_field_array_pad; assumption.
Qed.

(* the invalid value of each of the eleven base types is recognised by is_inv *)
Lemma codec_is_inv_b :
  forallb (fun bt => match b_invalid bt with Some iv => is_inv bt iv | None => false end) codec_bts = true.
Proof. vm_compute; reflexivity. Qed.

Lemma codec_is_inv bt ty iv : codec_ty bt = Some ty -> b_invalid bt = Some iv -> is_inv bt iv = true.
Proof.
  intros Hc Hiv. pose proof codec_is_inv_b as F. rewrite forallb_forall in F.
  specialize (F bt (codec_ty_in _ _ Hc)). rewrite Hiv in F. exact F.
Qed.
