(* C04 (b)/(c): consequences of the verdict characterisation.
   - decode_ok_integrity_ok: what Decode accepts, CheckIntegrity accepts, under any two schedules;
   - verdict_arc: on byte strings the verdicts are those of the bitwise CRC-16/ARC;
   - grammar_integrity_ok: a string framed as Spec/Grammar.v demands (what Encode emits) is accepted;
   - corruption_detected: after a burst of at most 16 contiguous bits outside the size fields both
     Decode and CheckIntegrity return an error. *)
From Coq Require Import NArith ZArith List Bool Arith Lia.
From Coq Require Import ZifyN ZifyNat ZifyBool.
From FitV Require Import Model.Values Model.Bytes Model.Crc Model.IO Model.Header Model.Route Model.Decode Gen.Consts
  Spec.CrcSpec Spec.Burst Spec.Integrity Spec.Grammar Proofs.Util Proofs.CrcProofs Proofs.IOSim Proofs.C04Crc Proofs.C04IO
  Proofs.C04Verdict.
Import ListNotations.
Local Open Scope N_scope.
Ltac Zify.zify_post_hook ::= Z.div_mod_to_equations.

(* ------------------------------------------------------------------ Decode accepts => CheckIntegrity accepts *)
Lemma verdict_term_irrelevant crcf bs t1 t2 : bs <> [] -> crc_verdict_with crcf bs t1 = crc_verdict_with crcf bs t2.
Proof. intros H. destruct bs; [contradiction|reflexivity]. Qed.

Lemma verdict_none_nonempty crcf bs tm : crc_verdict_with crcf bs tm = None -> bs <> [].
Proof. intros H E. subst bs. cbn in H. discriminate. Qed.

Theorem decode_ok_integrity_ok : forall o g fuel rd r, (measure rd < fuel)%nat ->
  decode o MFull g rd fuel = TDone r -> dr_err r = None ->
  forall o2 g2 fuel2 rd2, rd_data rd2 = rd_data rd -> (measure rd2 < fuel2)%nat ->
  exists r2, decode o2 MCrcOnly g2 rd2 fuel2 = TDone r2 /\ dr_err r2 = None /\
             (rd_pos (dr_rd r2) - rd_pos rd2 = rd_pos (dr_rd r) - rd_pos rd)%nat.
Proof.
  intros o g fuel rd r Hm Hd He o2 g2 fuel2 rd2 Hdata Hm2.
  destruct (full_accept o g fuel rd r Hm Hd He) as [Hv Hp].
  destruct (check_integrity_spec o2 g2 fuel2 rd2 Hm2) as (r2 & E2 & Hv2 & Hp2).
  exists r2. split; [exact E2|].
  assert (Hn : dr_err r2 = None).
  { rewrite Hv2, Hdata. rewrite (verdict_term_irrelevant _ _ _ (rd_term rd)); [exact Hv|]. eapply verdict_none_nonempty; eassumption. }
  split; [exact Hn|]. rewrite (Hp2 Hn), Hp, Hdata. lia.
Qed.

(* ------------------------------------------------------------------ on bytes the checksum is CRC-16/ARC *)
Lemma is_bytes_firstn n l : is_bytes l -> is_bytes (firstn n l).
Proof. unfold is_bytes. revert l; induction n as [|n IH]; intros [|x l] H; cbn; try constructor; inversion H; subst; auto. Qed.

Lemma header_stage_arc bs tm : is_bytes bs -> header_stage_with checksum bs tm = header_stage_with arc bs tm.
Proof.
  intros Hb. destruct bs as [|sz t]; [reflexivity|]. unfold header_stage_with.
  rewrite (checksum_is_arc (firstn 14 (sz :: t))) by now apply is_bytes_firstn. reflexivity.
Qed.

Theorem verdict_arc bs tm : is_bytes bs -> crc_verdict_with checksum bs tm = crc_verdict_with arc bs tm.
Proof.
  intros Hb. unfold crc_verdict_with. rewrite header_stage_arc by assumption.
  rewrite (checksum_is_arc (firstn (frame_len bs) bs)) by now apply is_bytes_firstn. reflexivity.
Qed.

(* ------------------------------------------------------------------ untouched positions *)
Lemma xorl_nth_untouched : forall a e i, nth i e 0 = 0 -> nth i (xorl a e) 0 = nth i a 0.
Proof.
  induction a as [|x a IH]; intros e i H; [reflexivity|].
  destruct e as [|y e]; [reflexivity|]. destruct i as [|i]; cbn in *.
  - subst y. apply N.lxor_0_r.
  - now apply IH.
Qed.

Lemma le32_at l : le32 (firstn 4 (skipn 4 l)) = nth 4 l 0 + 256 * nth 5 l 0 + 65536 * nth 6 l 0 + 16777216 * nth 7 l 0.
Proof.
  unfold le32, b_at.
  destruct l as [|a0 [|a1 [|a2 [|a3 [|a4 [|a5 [|a6 [|a7 l]]]]]]]]; reflexivity.
Qed.

Lemma firstn_xorl : forall n a e, firstn n (xorl a e) = xorl (firstn n a) (firstn n e).
Proof.
  induction n as [|n IH]; intros a e; [reflexivity|].
  destruct a as [|x a]; [reflexivity|]. destruct e as [|y e]; [reflexivity|]. cbn. now rewrite IH.
Qed.

Lemma untouched_frame bs e : outside_size_fields e = true ->
  hdr_size (xorl bs e) = hdr_size bs /\ data_size (xorl bs e) = data_size bs /\ frame_len (xorl bs e) = frame_len bs.
Proof.
  unfold outside_size_fields, untouched. intros H.
  repeat (apply andb_true_iff in H; destruct H as [H ?]).
  repeat match goal with X : (_ =? _) = true |- _ => apply N.eqb_eq in X end.
  assert (Ha : hdr_size (xorl bs e) = hdr_size bs) by (unfold hdr_size, b_at; now rewrite xorl_nth_untouched).
  assert (Hb : data_size (xorl bs e) = data_size bs) by (unfold data_size; rewrite !le32_at, !xorl_nth_untouched by assumption; reflexivity).
  unfold frame_len. rewrite Ha, Hb. auto.
Qed.

(* ------------------------------------------------------------------ corruption *)
Lemma verdict_none_inv crcf bs tm : crc_verdict_with crcf bs tm = None ->
  header_stage_with crcf bs tm = None /\ (frame_len bs <= length bs)%nat /\ crcf (firstn (frame_len bs) bs) = 0.
Proof.
  unfold crc_verdict_with. destruct (header_stage_with crcf bs tm); [discriminate|].
  destruct (Nat.ltb_spec (length bs) (hdr_size bs + data_size bs)); [discriminate|].
  destruct (Nat.ltb_spec (length bs) (frame_len bs)); [discriminate|].
  destruct (N.eqb_spec (crcf (firstn (frame_len bs) bs)) 0); [|discriminate]. auto.
Qed.

Theorem corrupted_verdict : forall bs tm tm' off p,
  crc_verdict_with checksum bs tm = None ->
  burst16 (frame_len bs) off p ->
  outside_size_fields (burst (frame_len bs) off p) = true ->
  crc_verdict_with checksum (xorl bs (burst (frame_len bs) off p)) tm' <> None.
Proof.
  intros bs tm tm' off p Hv Hb Ho.
  destruct (verdict_none_inv _ _ _ Hv) as (_ & Hlen & Hc).
  set (e := burst (frame_len bs) off p) in *.
  destruct (untouched_frame bs e Ho) as (Hh & Hd & Hf).
  intros Hv'. destruct (verdict_none_inv _ _ _ Hv') as (_ & _ & Hc').
  rewrite Hf, firstn_xorl in Hc'.
  assert (He : length e = frame_len bs) by (unfold e, burst; apply err_bytes_length).
  rewrite (firstn_all2 e) in Hc' by lia.
  assert (Hfl : length (firstn (frame_len bs) bs) = frame_len bs) by (rewrite firstn_length; lia).
  pose proof (burst_detected (firstn (frame_len bs) bs) off p Hc) as Hbd. rewrite Hfl in Hbd.
  now apply (Hbd Hb).
Qed.

(* both entry points return an error on the corrupted file, under every chunk schedule *)
Theorem corruption_detected : forall bs tm off p,
  crc_verdict_with checksum bs tm = None ->
  burst16 (frame_len bs) off p ->
  outside_size_fields (burst (frame_len bs) off p) = true ->
  forall rd, rd_data rd = xorl bs (burst (frame_len bs) off p) ->
  forall o g fuel, (measure rd < fuel)%nat ->
    (exists r, decode o MCrcOnly g rd fuel = TDone r /\ dr_err r <> None) /\
    (forall r, decode o MFull g rd fuel = TDone r -> dr_err r <> None).
Proof.
  intros bs tm off p Hv Hb Ho rd Hdata o g fuel Hm.
  pose proof (corrupted_verdict bs tm (rd_term rd) off p Hv Hb Ho) as Hc. rewrite <- Hdata in Hc.
  split.
  - destruct (check_integrity_spec o g fuel rd Hm) as (r & E & Hr & _). exists r. split; [exact E|]. now rewrite Hr.
  - intros r E He. apply Hc. now destruct (full_accept o g fuel rd r Hm E He).
Qed.

(* ------------------------------------------------------------------ what the grammar (Encode's output) demands is accepted *)
Lemma le_num_2 a b : le_num [a; b] = a + 256 * b.
Proof. unfold le_num. lia. Qed.

Lemma residue_of_stored : forall d a b, is_bytes d -> a < 256 -> b < 256 -> a + 256 * b = checksum d -> checksum (d ++ [a; b]) = 0.
Proof.
  intros d a b Hd Ha Hb E.
  pose proof (residue_zero d Hd) as R.
  assert (Ea : a = lo8 (checksum d)).
  { unfold lo8. change 255 with (N.ones 8). rewrite N.land_ones, <- E. change (2 ^ 8) with 256. lia. }
  assert (Eb : b = hi8 (checksum d)).
  { unfold hi8. rewrite N.shiftr_div_pow2, <- E. change (2 ^ 8) with 256. lia. }
  rewrite Ea, Eb. exact R.
Qed.

Lemma is_bytes_of_forallb l : forallb (fun b => b <? 256) l = true -> is_bytes l.
Proof.
  intros H. apply Forall_forall. intros x Hx. rewrite forallb_forall in H. now apply N.ltb_lt, H.
Qed.

Lemma is_bytes_skipn n l : is_bytes l -> is_bytes (skipn n l).
Proof. unfold is_bytes. revert l; induction n as [|n IH]; intros [|x l] H; cbn; try assumption. inversion H; subst; auto. Qed.

Lemma list_eqb_true a b : a = b -> list_eqb a b = true.
Proof. intros ->. unfold list_eqb. destruct (list_eq_dec N.eq_dec b b); [reflexivity|contradiction]. Qed.

Lemma bytes_eqb_eq a b : bytes_eqb a b = true -> a = b.
Proof. unfold bytes_eqb. destruct (list_eq_dec N.eq_dec a b); [auto|discriminate]. Qed.

Ltac explode14 l :=
  do 14 (destruct l as [|? l]; [cbn [length] in *; lia|]).

(* a byte string with the framing of Spec/Grammar.v (header_ok, trailer_ok: what Encode is proved to emit,
   theorem encode_framing) and a supported protocol version passes the integrity check *)
Theorem grammar_integrity_ok : forall bs tm, is_bytes bs ->
  header_ok bs = true -> trailer_ok bs = true -> proto_ok (nth 1 bs 0) = true ->
  crc_verdict_with arc bs tm = None.
Proof.
  intros bs tm Hb Hh Ht Hp. rewrite <- verdict_arc by assumption.
  unfold header_ok in Hh. cbv zeta in Hh.
  apply andb_true_iff in Hh. destruct Hh as [Hh Hcrc].
  apply andb_true_iff in Hh. destruct Hh as [Hh Hmagic].
  apply andb_true_iff in Hh. destruct Hh as [Hsz Hlen].
  apply N.eqb_eq in Hlen. apply bytes_eqb_eq in Hmagic.
  unfold trailer_ok in Ht. apply N.eqb_eq in Ht.
  assert (Hl14 : (14 <= length bs)%nat).
  { apply orb_true_iff in Hsz. destruct Hsz as [E|E]; apply N.eqb_eq in E; lia. }
  (* the trailer: the last two bytes are the checksum of everything before them *)
  assert (Hwhole : checksum bs = 0).
  { rewrite (firstn_skipn_split (length bs - 2) bs) at 1.
    assert (Hl2 : length (skipn (length bs - 2) bs) = 2%nat) by (rewrite skipn_length; lia).
    pose proof (is_bytes_skipn (length bs - 2) bs Hb) as Hb2.
    unfold filecrc in Ht. destruct (skipn (length bs - 2) bs) as [|a [|b [|? ?]]]; try discriminate Hl2.
    inversion Hb2 as [|? ? Ha Hb2']; subst. inversion Hb2' as [|? ? Hbb _]; subst.
    apply residue_of_stored; try assumption; [now apply is_bytes_firstn|].
    rewrite le_num_2 in Ht. rewrite Ht. symmetry. apply checksum_is_arc. now apply is_bytes_firstn. }
  unfold hdrsize, datasize, hdrcrc in *.
  explode14 bs.
  cbn [nth firstn skipn] in *.
  assert (Hds : data_size (n :: n0 :: n1 :: n2 :: n3 :: n4 :: n5 :: n6 :: n7 :: n8 :: n9 :: n10 :: n11 :: n12 :: bs) =
                N.to_nat (le_num [n3; n4; n5; n6])).
  { unfold data_size, le32, le_num, b_at. cbn [firstn skipn nth]. f_equal. lia. }
  assert (Hframe : frame_len (n :: n0 :: n1 :: n2 :: n3 :: n4 :: n5 :: n6 :: n7 :: n8 :: n9 :: n10 :: n11 :: n12 :: bs) =
                   length (n :: n0 :: n1 :: n2 :: n3 :: n4 :: n5 :: n6 :: n7 :: n8 :: n9 :: n10 :: n11 :: n12 :: bs)).
  { unfold frame_len. rewrite Hds. unfold hdr_size, b_at. cbn [nth]. lia. }
  set (all := n :: n0 :: n1 :: n2 :: n3 :: n4 :: n5 :: n6 :: n7 :: n8 :: n9 :: n10 :: n11 :: n12 :: bs) in *.
  assert (Hstage : header_stage_with checksum all tm = None).
  { unfold header_stage_with, all. fold all.
    change c_headerSizeCRC with 14. change c_headerSizeNoCRC with 12. rewrite (orb_comm (n =? 14)), Hsz. cbn [negb].
    replace (Nat.ltb (length all) (N.to_nat n)) with false
      by (symmetry; apply Nat.ltb_ge; rewrite <- Hframe; unfold frame_len, hdr_size, all, b_at; cbn [nth]; lia).
    unfold all at 1 2. unfold b_at. cbn [nth firstn skipn]. rewrite Hp. cbn [negb].
    rewrite (list_eqb_true [n7; n8; n9; n10] fit_dtype) by (rewrite Hmagic; reflexivity). cbn [negb].
    destruct (n =? 12) eqn:E12; [reflexivity|].
    cbn [orb] in Hsz. rewrite Hsz in Hcrc.
    unfold stored_hdr_crc, all. cbn [firstn skipn]. unfold le16, b_at. cbn [nth].
    rewrite le_num_2 in Hcrc. apply orb_true_iff in Hcrc. destruct Hcrc as [E0|Ec].
    - rewrite E0. reflexivity.
    - destruct (n11 + 256 * n12 =? 0); [reflexivity|].
      apply N.eqb_eq in Ec.
      replace (checksum [n; n0; n1; n2; n3; n4; n5; n6; n7; n8; n9; n10; n11; n12]) with 0; [reflexivity|].
      symmetry. change [n; n0; n1; n2; n3; n4; n5; n6; n7; n8; n9; n10; n11; n12] with ([n; n0; n1; n2; n3; n4; n5; n6; n7; n8; n9; n10] ++ [n11; n12]).
      assert (Hb12 : is_bytes [n; n0; n1; n2; n3; n4; n5; n6; n7; n8; n9; n10]) by (apply (is_bytes_firstn 12 all Hb)).
      pose proof (is_bytes_firstn 2 _ (is_bytes_skipn 12 all Hb)) as Hb2. unfold all in Hb2. cbn [firstn skipn] in Hb2.
      inversion Hb2 as [|? ? Ha Hb2']; subst. inversion Hb2' as [|? ? Hbb _]; subst.
      apply residue_of_stored; try assumption. rewrite Ec. symmetry. now apply checksum_is_arc. }
  unfold crc_verdict_with. rewrite Hstage.
  replace (Nat.ltb (length all) (hdr_size all + data_size all)) with false
    by (symmetry; apply Nat.ltb_ge; rewrite <- Hframe; unfold frame_len; lia).
  rewrite Hframe, Nat.ltb_irrefl, firstn_all, Hwhole. reflexivity.
Qed.
