(* C06 at stream level, middle piece: the record list Encode lays out ([lay], C06Defs.v) is in the
   domain of the reference semantics [denote] (Spec/FitSyntax.v) and denotes the messages that were put
   in, up to the normal form [norm_msg].

   1. finite checks over the generated profile (compat of every entry, no entry 255, invalid values);
   2. bytes: get_val of put_int, one element, split_every of a concatenation, upto_nul of a padded string;
   3. one field, kind by kind, then [field_rt];
   4. denote_fields along a definition ([denote_fields_inv]);
   5. one message ([menc_denote]), one record ([def_step], [data_step]);
   6. the record list ([lay_denote]). *)
From Coq Require Import NArith ZArith List Bool Lia String.
From Coq Require Import ZifyN ZifyNat ZifyBool.
From FitV Require Import Model.Values Model.Bytes Model.Base Model.Profile Model.Components Model.Route Model.Encode
  Spec.FitSyntax Spec.Grammar Spec.RoundTrip Proofs.ProfileProofs Proofs.EncodeProofs Proofs.C05Grammar Proofs.C05Wire
  Proofs.C06Codec Proofs.C06Defs Gen.ProfileData Gen.Consts.
Import ListNotations.
Local Open Scope N_scope.
Ltac Zify.zify_post_hook ::= Z.div_mod_to_equations.

(* ================================================================ 1. the generated profile *)
(* per entry: the definition writeDefMesg writes for it is compatible with the profile; the
   all-invalid message holds nil for an array and "" for a string; coordinates are signed *)
Definition entry_ok3 (m : msgdesc) (pf : pfield) : bool :=
  compat (md_num m) (sfdef_of pf) &&
  (if fit_array (pf_t pf) then match nth_error (md_invalid m) (pf_sindex pf) with Some VNil => true | _ => false end
   else if fit_base (pf_t pf) =? base_string then
     match nth_error (md_invalid m) (pf_sindex pf) with Some (VStr []) => true | _ => false end
   else true) &&
  (if (fit_kind (pf_t pf) =? kind_lat) || (fit_kind (pf_t pf) =? kind_lng) then
     match b_signed (fit_base (pf_t pf)) with Some true => true | _ => false end
   else true).

(* per message: no entry under field number 255 (getFieldBySindex has nothing to fall through to) *)
Definition msg_ok3 (m : msgdesc) : bool :=
  negb (existsb (fun e => fst e =? 255) (md_entries m)) && forallb (fun e => entry_ok3 m (snd e)) (md_entries m).

Lemma profile_msgs_ok3 : forallb msg_ok3 messages = true.
Proof. vm_compute. reflexivity. Qed.

Lemma known_not_invalid : forallb (fun n => negb (n =? c_MesgNumInvalid)) known_msgnums = true.
Proof. vm_compute. reflexivity. Qed.

Lemma known_msg_valid gmn : known_msg gmn = true -> (gmn =? c_MesgNumInvalid) = false.
Proof.
  unfold known_msg. intros H. apply existsb_exists in H as (n & Hin & Hn). apply N.eqb_eq in Hn. subst n.
  pose proof known_not_invalid as T. rewrite forallb_forall in T. apply T in Hin. now apply negb_true_iff in Hin.
Qed.

Lemma find_msg_ok3 gmn md : find_msg gmn = Some md -> msg_ok3 md = true.
Proof. intros H. apply find_msg_in in H. pose proof profile_msgs_ok3 as T. rewrite forallb_forall in T. now apply T. Qed.

(* without an entry 255 the two lookups by struct index are the same function *)
Lemma by_pfs gmn i q : get_field_by_sindex gmn i = Some q -> pfield_of_sindex gmn i = Some q.
Proof.
  unfold get_field_by_sindex, pfield_of_sindex. destruct (find_msg gmn) as [md|] eqn:Ef; [|discriminate].
  destruct (find (fun e => Nat.eqb (pf_sindex (snd e)) i) (md_entries md)) as [e|]; [auto|].
  destruct (find (fun e => fst e =? 255) (md_entries md)) as [e|] eqn:E2; [|discriminate].
  intros _. exfalso. apply find_some in E2 as [Hin H255].
  pose proof (find_msg_ok3 _ _ Ef) as Hok. unfold msg_ok3 in Hok. apply andb_true_iff in Hok as [Hno _].
  apply negb_true_iff in Hno. rewrite <- not_true_iff_false in Hno. apply Hno. apply existsb_exists. eauto.
Qed.

Lemma pfs_by gmn i q : pfield_of_sindex gmn i = Some q -> get_field_by_sindex gmn i = Some q /\ pf_sindex q = i.
Proof.
  unfold get_field_by_sindex, pfield_of_sindex. destruct (find_msg gmn) as [md|]; [|discriminate].
  destruct (find (fun e => Nat.eqb (pf_sindex (snd e)) i) (md_entries md)) as [e|] eqn:E1; [|discriminate].
  intros H. inversion H; subst. split; [reflexivity|]. apply find_some in E1 as [_ E1]. now apply Nat.eqb_eq in E1.
Qed.

Lemma pfs_from gmn i q : pfield_of_sindex gmn i = Some q -> from_profile gmn q.
Proof. intros H. apply pfs_by in H as [H _]. now exists i. Qed.

Lemma from_profile_sindex gmn pf : from_profile gmn pf -> pfield_of_sindex gmn (pf_sindex pf) = Some pf.
Proof. intros (i & Hi). apply by_pfs in Hi. pose proof (pfs_by _ _ _ Hi) as [_ E]. now rewrite E. Qed.

(* everything the proofs use about an entry a definition can carry *)
Lemma fp_facts gmn pf : from_profile gmn pf ->
  exists md, find_msg gmn = Some md /\ md_num md = gmn /\ In md messages /\ In (pf_num pf, pf) (md_entries md) /\
    entry_ok3 md pf = true.
Proof.
  intros (i & Hi). apply by_sindex_in in Hi as (md & e & Hm & He & <- & Ef).
  exists md. split; [exact Ef|]. split; [now apply find_msg_num|]. split; [exact Hm|].
  destruct (msg_ok_parts _ (find_msg_ok _ _ Ef)) as (_ & _ & _ & Hfst).
  split; [rewrite <- (Hfst e He); now destruct e|].
  pose proof (find_msg_ok3 _ _ Ef) as Hok. unfold msg_ok3 in Hok. apply andb_true_iff in Hok as [_ Hok].
  rewrite forallb_forall in Hok. now apply Hok.
Qed.

Lemma from_profile_compat gmn pf : from_profile gmn pf -> compat gmn (sfdef_of pf) = true.
Proof.
  intros H. destruct (fp_facts _ _ H) as (md & _ & <- & _ & _ & Hok). unfold entry_ok3 in Hok.
  apply andb_true_iff in Hok as [Hok _]. now apply andb_true_iff in Hok as [Hok _].
Qed.

Lemma mesg_all_invalid_eq gmn inv : mesg_all_invalid gmn = Some inv ->
  exists md, find_msg gmn = Some md /\ inv = mk_msg gmn (md_invalid md).
Proof.
  unfold mesg_all_invalid. destruct (find_msg gmn) as [md|]; [|discriminate]. destruct (md_has_ctor md); [|discriminate].
  intros H. inversion H. eauto.
Qed.

(* ================================================================ 2. bytes *)
Lemma le_val_le_bytes n : forall x, le_val (le_bytes n x) = x mod 256 ^ N.of_nat n.
Proof.
  induction n as [|n IH]; intros x.
  - cbn [le_bytes le_val N.of_nat]. now rewrite N.pow_0_r, N.mod_1_r.
  - cbn [le_bytes le_val]. rewrite IH, Nat2N.inj_succ, N.pow_succ_r'.
    rewrite N.mod_mul_r; [reflexivity|discriminate|apply N.pow_nonzero; discriminate].
Qed.

Lemma be_val_app l a : be_val (l ++ [a]) = 256 * be_val l + a.
Proof. unfold be_val. rewrite fold_left_app. reflexivity. Qed.

Lemma be_val_rev l : be_val (rev l) = le_val l.
Proof. induction l as [|a l IH]; [reflexivity|]. cbn [rev le_val]. rewrite be_val_app, IH. lia. Qed.

Lemma get_val_put_int be n x : get_val be (put_int be n x) = x mod 256 ^ N.of_nat n.
Proof. unfold get_val, put_int. destruct be; [rewrite be_val_rev|]; apply le_val_le_bytes. Qed.

Lemma get_val_put_int4 be x : x < 4294967296 -> get_val be (put_int be 4 x) = x.
Proof. intros H. rewrite get_val_put_int. change (256 ^ N.of_nat 4) with 4294967296. now apply N.mod_small. Qed.

Definition six (ty : gotype) : Prop := ty = TU 8 \/ ty = TI 8 \/ ty = TU 16 \/ ty = TI 16 \/ ty = TU 32 \/ ty = TI 32.

(* the reference reading of the bytes of one integer is that integer *)
Lemma elem_rt be ty sg x : six ty -> val_has_type ty x = true ->
  embed ty sg (wire_unsigned be (enc_elem be ty x)) (wire_signed be (enc_elem be ty x)) = x.
Proof.
  intros Hs Hx. unfold wire_signed, wire_unsigned.
  destruct Hs as [->|[->|[->|[->|[->| ->]]]]].
  - destruct (typed_u 8 x Hx) as (n & -> & Hn). cbn [enc_elem embed]. f_equal.
    change (nbytes 8) with 1%nat. rewrite get_val_put_int. change (2 ^ 8) with 256 in *. change (256 ^ N.of_nat 1) with 256.
    lia.
  - destruct (typed_i 8 x Hx) as (z & -> & Hz). cbn [enc_elem embed]. f_equal. rewrite put_int_length.
    change (nbytes 8) with 1%nat. rewrite get_val_put_int. change (8 * N.of_nat 1) with 8. change (256 ^ N.of_nat 1) with 256.
    rewrite (N.mod_small _ _ (of_signed_lt_8 z)). apply to_signed_of_signed_8. change (2 ^ (8 - 1)) with 128 in Hz. lia.
  - destruct (typed_u 16 x Hx) as (n & -> & Hn). cbn [enc_elem embed]. f_equal.
    change (nbytes 16) with 2%nat. rewrite get_val_put_int. change (2 ^ 16) with 65536 in *. change (256 ^ N.of_nat 2) with 65536.
    lia.
  - destruct (typed_i 16 x Hx) as (z & -> & Hz). cbn [enc_elem embed]. f_equal. rewrite put_int_length.
    change (nbytes 16) with 2%nat. rewrite get_val_put_int. change (8 * N.of_nat 2) with 16. change (256 ^ N.of_nat 2) with 65536.
    rewrite (N.mod_small _ _ (of_signed_lt_16 z)). apply to_signed_of_signed_16. change (2 ^ (16 - 1)) with 32768 in Hz. lia.
  - destruct (typed_u 32 x Hx) as (n & -> & Hn). cbn [enc_elem embed]. f_equal.
    change (nbytes 32) with 4%nat. rewrite get_val_put_int. change (2 ^ 32) with 4294967296 in *.
    change (256 ^ N.of_nat 4) with 4294967296. lia.
  - destruct (typed_i 32 x Hx) as (z & -> & Hz). cbn [enc_elem embed]. f_equal. rewrite put_int_length.
    change (nbytes 32) with 4%nat. rewrite get_val_put_int. change (8 * N.of_nat 4) with 32.
    change (256 ^ N.of_nat 4) with 4294967296.
    rewrite (N.mod_small _ _ (of_signed_lt_32 z)). apply to_signed_of_signed_32. change (2 ^ (32 - 1)) with 2147483648 in Hz. lia.
Qed.

Lemma enc_elem_len be ty x : six ty -> val_has_type ty x = true ->
  List.length (enc_elem be ty x) = N.to_nat (ty_bytes ty).
Proof.
  intros Hs Hx. destruct Hs as [->|[->|[->|[->|[->| ->]]]]].
  1, 3, 5: (match type of Hx with val_has_type (TU ?b) _ = _ => destruct (typed_u b x Hx) as (n & -> & _) end;
            cbn [enc_elem]; rewrite put_int_length; reflexivity).
  all: (match type of Hx with val_has_type (TI ?b) _ = _ => destruct (typed_i b x Hx) as (z & -> & _) end;
        cbn [enc_elem]; rewrite put_int_length; reflexivity).
Qed.

Lemma six_bytes_pos ty : six ty -> (0 < N.to_nat (ty_bytes ty))%nat.
Proof. intros [->|[->|[->|[->|[->| ->]]]]]; vm_compute; lia. Qed.

Lemma split_every_concat k : (0 < k)%nat -> forall (qs : list (list N)) fuel,
  (forall q, In q qs -> List.length q = k) -> (List.length qs <= fuel)%nat ->
  split_every k fuel (List.concat qs) = qs.
Proof.
  intros Hk. induction qs as [|q qs IH]; intros fuel Hq Hf.
  - destruct fuel; reflexivity.
  - destruct fuel as [|f]; [cbn [List.length] in Hf; lia|].
    assert (Ha : List.length q = k) by (apply Hq; now left).
    cbn [List.concat split_every].
    pose proof (firstn_len_app q (List.concat qs)) as F1. pose proof (skipn_len_app q (List.concat qs)) as F2.
    rewrite Ha in F1, F2. rewrite F1, F2.
    destruct (q ++ List.concat qs) eqn:E.
    { apply app_eq_nil in E as [E _]. subst q. cbn [List.length] in Ha. lia. }
    f_equal. apply IH; [intros b Hb; apply Hq; now right|]. cbn [List.length] in Hf. lia.
Qed.

Lemma upto_nul_pad : forall s k, forallb (fun b => 0 <? b) s = true -> upto_nul (s ++ repeat 0 (S k)) = s.
Proof.
  induction s as [|a s IH]; intros k H; [reflexivity|].
  cbn [forallb] in H. apply andb_true_iff in H as [Ha H]. apply N.ltb_lt in Ha.
  cbn [app upto_nul]. destruct (N.eqb_spec a 0) as [E|_]; [lia|]. f_equal. now apply IH.
Qed.

(* ================================================================ 3. one field *)
(* ---- integers *)
Lemma den_scalar be f pf ty v p ref :
  fit_kind (pf_t pf) = kind_native -> fit_array (pf_t pf) = false -> (fit_base (pf_t pf) =? base_string) = false ->
  sf_btype f = fit_base (pf_t pf) -> codec_ty (fit_base (pf_t pf)) = Some ty -> val_has_type ty v = true ->
  encode_value be pf ty v = EOk p -> denote_field be f pf ty ref p = Some v.
Proof.
  intros Hk Ha Hs Hf Hc Hv He.
  rewrite C06Codec.encode_value_native in He by (try rewrite Hk; auto).
  pose proof (codec_ty_cases _ _ Hc) as H6.
  rewrite (bw_enc_elem be ty v (codec_ty_int _ _ Hc) Hv) in He. injection He as <-.
  unfold denote_field. cbv zeta. rewrite Hk, Ha, Hf, Hs. change (kind_native =? kind_native) with true. cbv iota.
  f_equal. now apply elem_rt.
Qed.

(* ---- strings *)
Lemma den_string be f pf ty s p ref :
  fit_kind (pf_t pf) = kind_native -> fit_array (pf_t pf) = false -> (fit_base (pf_t pf) =? base_string) = true ->
  sf_btype f = fit_base (pf_t pf) ->
  forallb (fun b => (0 <? b) && (b <? 256)) s = true -> utf8_valid s = true -> N.of_nat (List.length s) + 1 <= pf_length pf ->
  encode_value be pf ty (VStr s) = EOk p ->
  denote_field be f pf ty ref p = match s with [] => None | _ => Some (VStr s) end.
Proof.
  intros Hk Ha Hs Hf Hnz Hu Hl He.
  unfold encode_value in He. rewrite Hk, Hs in He.
  change (kind_native =? kind_timeutc) with false in He. change (kind_native =? kind_timelocal) with false in He.
  change (kind_native =? kind_lat) with false in He. change (kind_native =? kind_lng) with false in He.
  change (kind_native =? kind_native) with true in He. cbv iota in He.
  rewrite (encode_string_fits s _ Hu Hl) in He. injection He as <-.
  unfold denote_field. cbv zeta. rewrite Hk, Ha, Hf, Hs. change (kind_native =? kind_native) with true. cbv iota.
  assert (Hnz' : forallb (fun b => 0 <? b) s = true).
  { apply forallb_weaken with (2 := Hnz). intros x Hx. apply andb_true_iff in Hx. tauto. }
  destruct (N.to_nat (pf_length pf) - List.length s)%nat as [|k] eqn:Ek; [lia|].
  rewrite (upto_nul_pad s k Hnz'). destruct s; reflexivity.
Qed.

(* ---- arrays of integers *)
Lemma den_array be f pf ety iv l p ref :
  fit_kind (pf_t pf) = kind_native -> fit_array (pf_t pf) = true -> sf_btype f = fit_base (pf_t pf) ->
  codec_ty (fit_base (pf_t pf)) = Some ety -> b_invalid (fit_base (pf_t pf)) = Some iv ->
  N.of_nat (List.length l) <= pf_length pf -> pf_length pf < 256 -> all_typed ety l ->
  write_field be pf (TSlice ety) (VList l) = EOk p ->
  denote_field be f pf (TSlice ety) ref p = Some (VList (l ++ repeat iv (N.to_nat (pf_length pf) - List.length l))).
Proof.
  intros Hk Ha Hf Hc Hiv Hlen Hp Hl He.
  assert (Hkb : (fit_kind (pf_t pf) =? kind_native) = true) by (rewrite Hk; reflexivity).
  rewrite (write_field_array be pf ety iv l Ha Hkb Hc Hiv Hlen Hp) in He.
  destruct (codec_facts_ok _ _ Hc) as (_ & Hs & _ & Hbs & iv' & Hiv' & Ht).
  rewrite Hiv in Hiv'. injection Hiv' as <-.
  set (L := l ++ repeat iv (N.to_nat (pf_length pf) - List.length l)) in *.
  assert (HL : all_typed ety L).
  { intros x Hx. apply in_app_or in Hx as [Hx|Hx]; [now apply Hl|]. apply repeat_spec in Hx. now subst x. }
  rewrite (econcat_bw be ety (codec_ty_int _ _ Hc) _ HL) in He. injection He as <-.
  pose proof (codec_ty_cases _ _ Hc) as H6.
  unfold denote_field. cbv zeta. rewrite Hk, Ha, Hf, Hs, Hbs. change (kind_native =? kind_native) with true. cbv iota.
  assert (Hall : forall q, In q (map (enc_elem be ety) L) -> List.length q = N.to_nat (ty_bytes ety)).
  { intros q Hq. apply in_map_iff in Hq as (x & <- & Hx). apply enc_elem_len; [exact H6|now apply HL]. }
  pose proof (six_bytes_pos _ H6) as Hpos.
  rewrite split_every_concat; [|exact Hpos|exact Hall|].
  - rewrite map_map. rewrite map_id_in; [reflexivity|]. intros x Hx. apply elem_rt; [exact H6|now apply HL].
  - rewrite (concat_length_const _ _ Hall). nia.
Qed.

Lemma write_field_nil be pf ty : write_field be pf ty VNil = write_field be pf ty (VList []).
Proof. reflexivity. Qed.

(* ---- times and coordinates *)
Lemma den_time_utc be f pf ty s zone p ref :
  fit_kind (pf_t pf) = kind_timeutc -> (0 <= s <= 4294967294)%Z ->
  encode_value be pf ty (VTime s 0 zone) = EOk p -> denote_field be f pf ty ref p = Some (VTime s 0 None).
Proof.
  intros Hk Hs He. rewrite (encode_value_timeutc be pf ty s 0 zone Hk) in He. injection He as <-.
  rewrite (encode_time_id s Hs).
  unfold denote_field. cbv zeta. rewrite Hk. change (kind_timeutc =? kind_native) with false.
  change (kind_timeutc =? kind_timeutc) with true. cbv iota. unfold wire_unsigned.
  rewrite get_val_put_int4 by lia.
  destruct (N.eqb_spec (Z.to_N s) 4294967295) as [E|_]; [lia|]. unfold time_of. rewrite Z2N.id by lia. reflexivity.
Qed.

Lemma den_time_local be f pf ty s zone p ref :
  fit_kind (pf_t pf) = kind_timelocal -> fit_array (pf_t pf) = false ->
  (-8589934592 <= s <= 8589934592)%Z -> (0 <= s + zone_off zone <= 4294967294)%Z ->
  encode_value be pf ty (VTime s 0 zone) = EOk p ->
  exists x, denote_field be f pf ty ref p = Some x /\ norm_field pf x = norm_field pf (VTime s 0 zone).
Proof.
  intros Hk Ha Hs Hz He. rewrite (encode_value_timelocal be pf ty s 0 zone Hk) in He. injection He as <-.
  rewrite (encode_time_local_id s zone Hs Hz).
  unfold denote_field. cbv zeta. rewrite Hk. change (kind_timelocal =? kind_native) with false.
  change (kind_timelocal =? kind_timeutc) with false. change (kind_timelocal =? kind_timelocal) with true. cbv iota.
  unfold wire_unsigned. rewrite get_val_put_int4 by lia.
  destruct (N.eqb_spec (Z.to_N (s + zone_off zone)) 4294967295) as [E|_]; [lia|].
  eexists. split; [reflexivity|]. rewrite (norm_field_local pf s 0 zone Hk Ha).
  unfold local_time_of. destruct ref as [r|]; [destruct (r <? c_systemTimeMarker)|];
    rewrite (norm_field_local pf _ _ _ Hk Ha); cbn [zone_off]; f_equal; lia.
Qed.

Lemma wire_signed_put32 be z : (-2147483648 <= z <= 2147483647)%Z -> wire_signed be (put_int be 4 (of_signed 32 z)) = z.
Proof.
  intros H. unfold wire_signed. rewrite put_int_length. change (8 * N.of_nat 4) with 32.
  rewrite (get_val_put_int4 be _ (of_signed_lt_32 z)). now apply to_signed_of_signed_32.
Qed.

Lemma den_lat be f pf ty z p ref :
  fit_kind (pf_t pf) = kind_lat -> sf_btype f = fit_base (pf_t pf) -> b_signed (fit_base (pf_t pf)) = Some true ->
  (z = 2147483647 \/ -1073741824 <= z <= 1073741823)%Z ->
  encode_value be pf ty (VLat z) = EOk p -> denote_field be f pf ty ref p = Some (VLat z).
Proof.
  intros Hk Hf Hsg Hz He. rewrite (encode_value_lat be pf ty z Hk) in He. injection He as <-.
  unfold denote_field. cbv zeta. rewrite Hk, Hf, Hsg. change (kind_lat =? kind_native) with false.
  change (kind_lat =? kind_timeutc) with false. change (kind_lat =? kind_timelocal) with false.
  change (kind_lat =? kind_lat) with true. cbv iota.
  rewrite wire_signed_put32 by lia. unfold lat_of, coord_invalid. change (2 ^ 30)%Z with 1073741824%Z.
  destruct Hz as [->|Hz]; [reflexivity|].
  match goal with |- Some (if ?c then _ else _) = _ => assert (E : c = false) by lia; rewrite E end. reflexivity.
Qed.

Lemma den_lng be f pf ty z p ref :
  fit_kind (pf_t pf) = kind_lng -> sf_btype f = fit_base (pf_t pf) -> b_signed (fit_base (pf_t pf)) = Some true ->
  (-2147483648 <= z <= 2147483647)%Z ->
  encode_value be pf ty (VLng z) = EOk p -> denote_field be f pf ty ref p = Some (VLng z).
Proof.
  intros Hk Hf Hsg Hz He. rewrite (encode_value_lng be pf ty z Hk) in He. injection He as <-.
  unfold denote_field. cbv zeta. rewrite Hk, Hf, Hsg. change (kind_lng =? kind_native) with false.
  change (kind_lng =? kind_timeutc) with false. change (kind_lng =? kind_timelocal) with false.
  change (kind_lng =? kind_lat) with false. change (kind_lng =? kind_lng) with true. cbv iota.
  rewrite wire_signed_put32 by lia. reflexivity.
Qed.

(* ---- the dispatcher *)
Lemma array_native gmn pf ty : C05Grammar.entry_ok gmn pf = true -> field_type gmn (pf_sindex pf) = Some ty ->
  fit_array (pf_t pf) = true -> fit_kind (pf_t pf) = kind_native.
Proof.
  unfold C05Grammar.entry_ok. cbv zeta. intros H Hty Ha. destruct (b_size _); [|discriminate]. rewrite Hty, Ha in H.
  apply andb_true_iff in H as [_ H]. apply andb_true_iff in H as [H _]. now apply N.eqb_eq in H.
Qed.

Lemma int_in_type_typed ty x : int_in_type ty x = true -> val_has_type ty x = true.
Proof. destruct ty, x; cbn [int_in_type val_has_type]; auto; discriminate. Qed.

Lemma coord_signed md pf : entry_ok3 md pf = true ->
  ((fit_kind (pf_t pf) =? kind_lat) || (fit_kind (pf_t pf) =? kind_lng)) = true -> b_signed (fit_base (pf_t pf)) = Some true.
Proof.
  unfold entry_ok3. intros H Hk. apply andb_true_iff in H as [_ H]. rewrite Hk in H.
  destruct (b_signed _) as [[|]|]; try discriminate. reflexivity.
Qed.

(* what the reference semantics reads from the bytes writeField wrote for an in-domain value:
   a value equal to it up to norm_field; nothing (the field keeps its invalid value) only for the empty string *)
Lemma field_rt be gmn pf ty v p ref :
  from_profile gmn pf -> field_type gmn (pf_sindex pf) = Some ty ->
  val_has_type ty v = true -> field_in_domain pf ty v = true -> write_field be pf ty v = EOk p ->
  match denote_field be (sfdef_of pf) pf ty ref p with
  | Some x => norm_field pf x = norm_field pf v
  | None => v = VStr [] /\ fit_array (pf_t pf) = false /\ (fit_base (pf_t pf) =? base_string) = true
  end.
Proof.
  intros Hfp Hty Hv Hd Hw.
  destruct (fp_facts _ _ Hfp) as (md & Ef & En & Hm & Hin & Hok3).
  destruct (profile_types_ok md _ pf Hm Hin) as (Hexp & _ & H256 & _). rewrite En, Hty in Hexp.
  assert (Hf : sf_btype (sfdef_of pf) = fit_base (pf_t pf)) by reflexivity.
  unfold expected_ty in Hexp. cbv zeta in Hexp. unfold field_in_domain in Hd. cbv zeta in Hd.
  destruct (fit_array (pf_t pf)) eqn:Ea.
  - pose proof (array_native _ _ _ (from_profile_entry_ok _ _ Hfp) Hty Ea) as Hk.
    destruct (fit_base (pf_t pf) =? base_string) eqn:Es.
    { unfold write_field in Hw. cbv zeta in Hw. rewrite Ea, Es in Hw. discriminate. }
    destruct (codec_ty (fit_base (pf_t pf))) as [ety|] eqn:Ec; [|discriminate]. injection Hexp as <-.
    destruct (codec_facts_ok _ _ Ec) as (_ & _ & _ & _ & iv & Hiv & _).
    pose proof (codec_is_inv _ _ _ Ec Hiv) as Hinv.
    cbn [elem_type] in Hd.
    destruct v; try discriminate.
    + rewrite write_field_nil in Hw.
      rewrite (den_array be _ pf ety iv [] p ref Hk Ea Hf Ec Hiv); [|cbn [List.length]; lia|exact H256|intros x []|exact Hw].
      rewrite (norm_field_array_pad pf iv [] _ Ea Es Hinv). unfold norm_field. rewrite Ea, Es. reflexivity.
    + apply andb_true_iff in Hd as [Hlen Hall]. apply N.leb_le in Hlen.
      assert (Ht : all_typed ety l).
      { intros x Hx. rewrite forallb_forall in Hall. now apply int_in_type_typed, Hall. }
      rewrite (den_array be _ pf ety iv l p ref Hk Ea Hf Ec Hiv Hlen H256 Ht Hw).
      apply (norm_field_array_pad pf iv l _ Ea Es Hinv).
  - unfold write_field in Hw. cbv zeta in Hw. rewrite Ea in Hw. cbn [negb] in Hw.
    destruct (fit_kind (pf_t pf) =? kind_timeutc) eqn:K1.
    { apply N.eqb_eq in K1. destruct v; try discriminate.
      apply andb_true_iff in Hd as [Hn Hs]. apply N.eqb_eq in Hn. subst nsec. apply z_in_iff in Hs.
      rewrite (den_time_utc be _ pf ty sec zone p ref K1 Hs Hw).
      now rewrite !(norm_field_utc pf _ _ _ K1 Ea). }
    destruct (fit_kind (pf_t pf) =? kind_timelocal) eqn:K2.
    { apply N.eqb_eq in K2. destruct v; try discriminate.
      apply andb_true_iff in Hd as [Hd Hz]. apply andb_true_iff in Hd as [Hn Hs]. apply N.eqb_eq in Hn. subst nsec.
      apply z_in_iff in Hs. apply z_in_iff in Hz. fold (zone_off zone) in Hz.
      destruct (den_time_local be (sfdef_of pf) pf ty sec zone p ref K2 Ea Hs Hz Hw) as (x & -> & Hx). exact Hx. }
    cbn [orb] in Hexp.
    destruct (fit_kind (pf_t pf) =? kind_lat) eqn:K3.
    { pose proof (coord_signed _ _ Hok3) as Hsg. rewrite K3 in Hsg. specialize (Hsg eq_refl).
      apply N.eqb_eq in K3. destruct v; try discriminate.
      apply orb_true_iff in Hd. rewrite Z.eqb_eq, z_in_iff in Hd.
      now rewrite (den_lat be _ pf ty z p ref K3 Hf Hsg Hd Hw). }
    destruct (fit_kind (pf_t pf) =? kind_lng) eqn:K4.
    { pose proof (coord_signed _ _ Hok3) as Hsg. rewrite K3, K4 in Hsg. specialize (Hsg eq_refl).
      apply N.eqb_eq in K4. destruct v; try discriminate. apply z_in_iff in Hd.
      now rewrite (den_lng be _ pf ty z p ref K4 Hf Hsg Hd Hw). }
    destruct (fit_kind (pf_t pf) =? kind_native) eqn:K5; [|discriminate]. apply N.eqb_eq in K5.
    destruct (fit_base (pf_t pf) =? base_string) eqn:Es.
    + destruct v; try discriminate.
      apply andb_true_iff in Hd as [Hd Hl]. apply andb_true_iff in Hd as [Hnz Hu]. apply N.leb_le in Hl.
      rewrite (den_string be _ pf ty s p ref K5 Ea Es Hf Hnz Hu Hl Hw).
      destruct s; [auto|reflexivity].
    + now rewrite (den_scalar be _ pf ty v p ref K5 Ea Es Hf Hexp Hv Hw).
Qed.

(* ================================================================ 4. the fields of one data record *)
Lemma set_at_length {A} (x : A) : forall l n, List.length (set_at n x l) = List.length l.
Proof. induction l as [|a l IH]; intros [|n]; cbn [set_at List.length]; auto. Qed.

Lemma nth_error_set_at_ne {A} (x : A) : forall l n i, i <> n -> nth_error (set_at n x l) i = nth_error l i.
Proof.
  induction l as [|a l IH]; intros [|n] [|i] H; cbn [set_at nth_error]; try reflexivity; try congruence.
  apply IH. congruence.
Qed.

Lemma nth_error_set_at_eq {A} (x y : A) : forall l n, nth_error (set_at n x l) n = Some y -> y = x.
Proof.
  induction l as [|a l IH]; intros [|n] H; cbn [set_at nth_error] in H; try discriminate.
  - now inversion H.
  - now apply IH in H.
Qed.

Lemma denote_fields_cons be gmn pf r p rest m ref unl :
  get_field gmn (pf_num pf) = Some pf -> List.length p = N.to_nat (fsize pf) ->
  exists ref', denote_fields be gmn (sfdef_of pf :: r) (p ++ rest) m ref unl =
    denote_fields be gmn r rest
      (match denote_field be (sfdef_of pf) pf (match field_type gmn (pf_sindex pf) with Some t => t | None => TOther end) ref p with
       | Some x => mk_msg (m_num m) (set_at (pf_sindex pf) x (m_fields m))
       | None => m
       end) ref' unl.
Proof.
  intros Hg Hl. cbn [denote_fields]. change (sf_num (sfdef_of pf)) with (pf_num pf).
  change (sf_size (sfdef_of pf)) with (fsize pf). rewrite Hg. cbv zeta.
  rewrite <- Hl, firstn_len_app, skipn_len_app. eexists. reflexivity.
Qed.

(* what the induction needs of one field of the definition and the bytes written for it *)
Definition fld_fact (be : bool) (gmn : N) (inv0 : list goval) (good : nat -> goval -> Prop) (pf : pfield) (p : list N) : Prop :=
  get_field gmn (pf_num pf) = Some pf /\ List.length p = N.to_nat (fsize pf) /\
  forall ref,
    match denote_field be (sfdef_of pf) pf (match field_type gmn (pf_sindex pf) with Some t => t | None => TOther end) ref p with
    | Some x => good (pf_sindex pf) x
    | None => forall iv, nth_error inv0 (pf_sindex pf) = Some iv -> good (pf_sindex pf) iv
    end.

(* [good i x]: x is acceptable at struct index i.  Starting from values that still hold the
   all-invalid value at every index a field of the definition owns, and are good everywhere else,
   denote_fields ends with good values everywhere; no field is unlisted *)
Lemma denote_fields_inv be gmn inv0 good : forall fields parts,
  Forall2 (fld_fact be gmn inv0 good) fields parts -> NoDup (map pf_sindex fields) ->
  forall cur ref unl,
    (forall pf, In pf fields -> nth_error cur (pf_sindex pf) = nth_error inv0 (pf_sindex pf)) ->
    (forall i x, ~ In i (map pf_sindex fields) -> nth_error cur i = Some x -> good i x) ->
    exists fs' ref',
      denote_fields be gmn (map sfdef_of fields) (List.concat parts) (mk_msg gmn cur) ref unl = (mk_msg gmn fs', ref', unl) /\
      List.length fs' = List.length cur /\ forall i x, nth_error fs' i = Some x -> good i x.
Proof.
  induction 1 as [|pf p fields parts (Hg & Hl & Hden) HF IH]; intros Hnd cur ref unl Hinv Hgood.
  - exists cur, ref. split; [reflexivity|]. split; [reflexivity|]. intros i x. apply Hgood. intros [].
  - cbn [map List.concat]. cbn [map] in Hnd. inversion Hnd as [|? ? Hnotin Hnd']; subst.
    destruct (denote_fields_cons be gmn pf (map sfdef_of fields) p (List.concat parts) (mk_msg gmn cur) ref unl Hg Hl) as (ref1 & ->).
    specialize (Hden ref). cbn [m_num m_fields].
    destruct (denote_field be (sfdef_of pf) pf _ ref p) as [x|].
    + destruct (IH Hnd' (set_at (pf_sindex pf) x cur) ref1 unl) as (fs' & ref' & E & Hlen & Hall).
      * intros pf' Hin. rewrite nth_error_set_at_ne; [apply Hinv; now right|].
        intros E. apply Hnotin. rewrite <- E. now apply in_map.
      * intros i y Hni Hy. destruct (Nat.eq_dec i (pf_sindex pf)) as [->|Hne].
        -- apply nth_error_set_at_eq in Hy. now subst y.
        -- rewrite nth_error_set_at_ne in Hy by exact Hne. apply (Hgood i y); [|exact Hy].
           intros [E|Hin]; [now apply Hne|now apply Hni].
      * exists fs', ref'. split; [exact E|]. split; [now rewrite Hlen, set_at_length|exact Hall].
    + destruct (IH Hnd' cur ref1 unl) as (fs' & ref' & E & Hlen & Hall).
      * intros pf' Hin. apply Hinv. now right.
      * intros i y Hni Hy. destruct (Nat.eq_dec i (pf_sindex pf)) as [->|Hne].
        -- apply Hden. rewrite <- (Hinv pf (or_introl eq_refl)). exact Hy.
        -- apply (Hgood i y); [|exact Hy]. intros [E|Hin]; [now apply Hne|now apply Hni].
      * exists fs', ref'. auto.
Qed.

(* ================================================================ 5. one message *)
Definition msg_dom (m : msg) : Prop :=
  vals_typed (msg_layout (m_num m)) (m_fields m) = true /\ msg_in_domain m = true /\ known_msg (m_num m) = true.

Lemma fields_in_domain_nth gmn : forall vals k i v, fields_in_domain gmn k vals = true -> nth_error vals i = Some v ->
  exists pf ty, pfield_of_sindex gmn (k + i) = Some pf /\ field_type gmn (k + i) = Some ty /\ field_in_domain pf ty v = true.
Proof.
  induction vals as [|a vals IH]; intros k i v H Hn; [destruct i; discriminate|].
  cbn [fields_in_domain] in H. apply andb_true_iff in H as [H0 H].
  destruct i as [|i]; cbn [nth_error] in Hn.
  - inversion Hn; subst. rewrite Nat.add_0_r.
    destruct (pfield_of_sindex gmn k) as [pf|]; [|discriminate]. destruct (field_type gmn k) as [ty|]; [|discriminate]. eauto.
  - replace (k + S i)%nat with (S k + i)%nat by lia. now apply IH.
Qed.

Lemma map_fields_ext f gmn : forall l1 l2 k, List.length l1 = List.length l2 ->
  (forall i x y, nth_error l1 i = Some x -> nth_error l2 i = Some y ->
     exists pf, pfield_of_sindex gmn (k + i) = Some pf /\ f pf x = f pf y) ->
  map_fields f gmn k l1 = map_fields f gmn k l2.
Proof.
  induction l1 as [|a l1 IH]; intros [|b l2] k Hl H; try discriminate; [reflexivity|].
  cbn [map_fields]. f_equal.
  - destruct (H 0%nat a b eq_refl eq_refl) as (pf & Hq & E). rewrite Nat.add_0_r in Hq. now rewrite Hq.
  - apply IH; [now inversion Hl|]. intros i x y Hx Hy. replace (S k + i)%nat with (k + S i)%nat by lia. now apply H.
Qed.

Lemma nil_is_array pf ty v : field_in_domain pf ty v = true -> v = VNil \/ v = VList [] -> fit_array (pf_t pf) = true.
Proof.
  unfold field_in_domain. cbv zeta. destruct (fit_array (pf_t pf)); [reflexivity|].
  intros H Hv. exfalso.
  repeat match type of H with (if ?c then _ else _) = _ => destruct c end;
    destruct Hv as [-> | ->]; try discriminate; destruct ty; discriminate.
Qed.

Lemma inv_string md pf iv : entry_ok3 md pf = true -> fit_array (pf_t pf) = false ->
  (fit_base (pf_t pf) =? base_string) = true -> nth_error (md_invalid md) (pf_sindex pf) = Some iv -> iv = VStr [].
Proof.
  unfold entry_ok3. intros H Ea Es Hiv. apply andb_true_iff in H as [H _]. apply andb_true_iff in H as [_ H].
  rewrite Ea, Es, Hiv in H. destruct iv as [| | |s| | | | | |]; try discriminate. destruct s; [reflexivity|discriminate].
Qed.

Lemma inv_array md pf iv : entry_ok3 md pf = true -> fit_array (pf_t pf) = true ->
  nth_error (md_invalid md) (pf_sindex pf) = Some iv -> iv = VNil.
Proof.
  unfold entry_ok3. intros H Ea Hiv. apply andb_true_iff in H as [H _]. apply andb_true_iff in H as [_ H].
  rewrite Ea, Hiv in H. destruct iv; try discriminate. reflexivity.
Qed.

(* a struct field the definition does not mention is unset: the all-invalid value stands for it *)
Lemma unset_norm q ty v iv : unset v iv = true -> field_in_domain q ty v = true ->
  (fit_array (pf_t q) = true -> iv = VNil) -> norm_field q iv = norm_field q v.
Proof.
  intros Hu Hd Hiv.
  assert (Hnil : v = VNil \/ v = VList [] -> norm_field q iv = norm_field q v).
  { intros Hv. pose proof (nil_is_array _ _ _ Hd Hv) as Ea. rewrite (Hiv Ea). unfold norm_field. rewrite Ea.
    destruct Hv as [-> | ->]; destruct (fit_base (pf_t q) =? base_string); reflexivity. }
  destruct v; cbn [unset] in Hu; try (apply goval_eqb_eq in Hu; now subst); [now apply Hnil; left|].
  destruct l; [apply Hnil; now right|discriminate].
Qed.

Lemma nodup_sindex gmn : forall fields, Forall (from_profile gmn) fields -> NoDup (map pf_num fields) ->
  NoDup (map pf_sindex fields).
Proof.
  induction fields as [|a fields IH]; intros Hfp Hnd; [constructor|].
  inversion Hfp as [|? ? Ha Hfp']; subst. cbn [map] in Hnd |- *. inversion Hnd as [|? ? Hnotin Hnd']; subst.
  constructor; [|now apply IH]. intros Hin. apply in_map_iff in Hin as (b & Eb & Hb). apply Hnotin.
  rewrite Forall_forall in Hfp'. pose proof (from_profile_sindex _ _ (Hfp' b Hb)) as Sb.
  pose proof (from_profile_sindex _ _ Ha) as Sa. rewrite Eb, Sa in Sb. inversion Sb; subst. now apply in_map.
Qed.

Lemma field_facts be m : forall fields parts (good : nat -> goval -> Prop) md,
  find_msg (m_num m) = Some md ->
  vals_typed (msg_layout (m_num m)) (m_fields m) = true -> fields_in_domain (m_num m) 0 (m_fields m) = true ->
  (forall i x, good i x <-> forall v q, nth_error (m_fields m) i = Some v -> pfield_of_sindex (m_num m) i = Some q ->
                               norm_field q x = norm_field q v) ->
  Forall (from_profile (m_num m)) fields -> Forall2 (fun pf p => field_out be m pf = EOk p) fields parts ->
  Forall2 (fld_fact be (m_num m) (md_invalid md) good) fields parts.
Proof.
  intros fields parts good md Ef Hty Hfd Hgood Hfp HF. revert Hfp.
  induction HF as [|pf p fields parts Hp HF IH]; intros Hfp; [constructor|].
  inversion Hfp as [|? ? Hpf Hfp']; subst. constructor; [|now apply IH]. clear IH HF Hfp Hfp'.
  unfold field_out in Hp. destruct (nth_error (m_fields m) (pf_sindex pf)) as [v|] eqn:Ev; [|discriminate].
  destruct (field_type (m_num m) (pf_sindex pf)) as [ty|] eqn:Ety; [|discriminate].
  destruct (from_profile_get_field _ _ Hpf) as [Hg _].
  pose proof (write_field_len _ _ _ _ _ _ (from_profile_entry_ok _ _ Hpf) Ety Hp) as Hl.
  pose proof (from_profile_sindex _ _ Hpf) as Hq.
  assert (Hv : val_has_type ty v = true).
  { unfold field_type in Ety. destruct (nth_error (msg_layout (m_num m)) (pf_sindex pf)) as [[nm t]|] eqn:El; [|discriminate].
    inversion Ety; subst t. eapply vals_typed_nth; eassumption. }
  assert (Hd : field_in_domain pf ty v = true).
  { destruct (fields_in_domain_nth _ _ _ _ _ Hfd Ev) as (q & ty' & Hq' & Hty' & Hd). cbn [Nat.add] in Hq', Hty'.
    rewrite Hq in Hq'. rewrite Ety in Hty'. inversion Hq'; inversion Hty'; subst. exact Hd. }
  split; [exact Hg|]. split; [lia|]. intros ref. rewrite Ety.
  pose proof (field_rt be _ pf ty v p ref Hpf Ety Hv Hd Hp) as R.
  destruct (denote_field be (sfdef_of pf) pf ty ref p) as [x|].
  - apply Hgood. intros v' q' Hv' Hq'. rewrite Ev in Hv'. rewrite Hq in Hq'. inversion Hv'; inversion Hq'; subst. exact R.
  - destruct R as (-> & Ea & Es). intros iv Hiv. apply Hgood. intros v' q' Hv' Hq'.
    rewrite Ev in Hv'. rewrite Hq in Hq'. inversion Hv'; inversion Hq'; subst.
    destruct (fp_facts _ _ Hpf) as (md' & Ef' & _ & _ & _ & Hok3). rewrite Ef in Ef'. inversion Ef'; subst md'.
    now rewrite (inv_string _ _ _ Hok3 Ea Es Hiv).
Qed.

(* the data record of m under the definition [fields] denotes m up to norm_msg; nothing is unlisted *)
Lemma menc_denote be m fields parts ref unl : menc be m fields parts -> msg_dom m ->
  exists inv fs' ref', mesg_all_invalid (m_num m) = Some inv /\
    denote_fields be (m_num m) (map sfdef_of fields) (List.concat parts) inv ref unl = (mk_msg (m_num m) fs', ref', unl) /\
    norm_msg (mk_msg (m_num m) fs') = norm_msg m.
Proof.
  intros (Hfp & Hnd & HF & (inv & Hinv & Hlen & Hcov)) (Hty & Hdom & Hkn).
  destruct (mesg_all_invalid_eq _ _ Hinv) as (md & Ef & ->). cbn [m_fields] in Hlen, Hcov.
  unfold msg_in_domain in Hdom. apply andb_true_iff in Hdom as [Hfd _].
  set (good := fun (i : nat) (x : goval) => forall v q, nth_error (m_fields m) i = Some v ->
                 pfield_of_sindex (m_num m) i = Some q -> norm_field q x = norm_field q v).
  assert (Hgood : forall i x, good i x <-> forall v q, nth_error (m_fields m) i = Some v ->
                    pfield_of_sindex (m_num m) i = Some q -> norm_field q x = norm_field q v) by (intros; reflexivity).
  pose proof (field_facts be m fields parts good md Ef Hty Hfd Hgood Hfp HF) as HFF.
  destruct (denote_fields_inv be (m_num m) (md_invalid md) good fields parts HFF (nodup_sindex _ _ Hfp Hnd)
              (md_invalid md) ref unl) as (fs' & ref' & E & Hlen' & Hall).
  - reflexivity.
  - intros i x Hni Hx v q Hv Hq.
    destruct (fields_in_domain_nth _ _ _ _ _ Hfd Hv) as (q' & ty & Hq' & _ & Hd). cbn [Nat.add] in Hq'.
    rewrite Hq in Hq'. inversion Hq'; subst q'.
    destruct (Hcov i v x Hv Hx) as [Hun|(pf & Hby & Hin)].
    + apply (unset_norm q ty v x Hun Hd). intros Ea.
      destruct (pfs_by _ _ _ Hq) as [_ Ei].
      destruct (fp_facts _ _ (pfs_from _ _ _ Hq)) as (md' & Ef' & _ & _ & _ & Hok3). rewrite Ef in Ef'. inversion Ef'; subst md'.
      apply (inv_array md q x Hok3 Ea). now rewrite Ei.
    + exfalso. apply Hni. apply by_pfs in Hby. destruct (pfs_by _ _ _ Hby) as [_ Ei].
      apply in_map_iff in Hin as (pf' & En & Hin').
      rewrite Forall_forall in Hfp. destruct (from_profile_get_field _ _ (Hfp pf' Hin')) as [G' _].
      destruct (from_profile_get_field _ _ (pfs_from _ _ _ Hby)) as [G _].
      rewrite En, G in G'. inversion G'; subst pf'. rewrite <- Ei. now apply in_map.
  - exists (mk_msg (m_num m) (md_invalid md)), fs', ref'. split; [exact Hinv|]. split; [exact E|].
    unfold norm_msg. cbn [m_num m_fields]. f_equal. apply map_fields_ext; [now rewrite Hlen', Hlen|].
    intros i x y Hx Hy. destruct (fields_in_domain_nth _ _ _ _ _ Hfd Hy) as (q & ty & Hq & _ & _).
    exists q. split; [exact Hq|]. cbn [Nat.add] in Hq. exact (Hall i x Hx y q Hy Hq).
Qed.

(* ================================================================ 6. records *)
Definition sdef_of (be : bool) (gmn : N) (fields : list pfield) : sdef := mk_sdef be gmn (map sfdef_of fields) 0.

Lemma def_step be gmn fields s : known_msg gmn = true -> Forall (from_profile gmn) fields ->
  denote_record s (rdef_of be gmn fields) =
  Some (mk_sstate ((0, sdef_of be gmn fields) :: ss_env s) (ss_ref s) (ss_msgs s) (ss_unkm s) (ss_unkf s)).
Proof.
  intros Hk Hfp. unfold rdef_of, denote_record. rewrite (known_msg_valid _ Hk).
  assert (Hc : forallb (compat gmn) (map sfdef_of fields) = true).
  { apply forallb_forall. intros f Hf. apply in_map_iff in Hf as (pf & <- & Hin). rewrite Forall_forall in Hfp.
    now apply from_profile_compat, Hfp. }
  rewrite Hc. reflexivity.
Qed.

Lemma menc_lengths be m fields parts : menc be m fields parts ->
  Forall2 (fun pf (p : list N) => List.length p = N.to_nat (fsize pf)) fields parts.
Proof.
  intros (Hfp & _ & HF & _). revert Hfp. induction HF as [|pf p fields parts Hp HF IH]; intros Hfp; [constructor|].
  inversion Hfp as [|? ? Hpf Hfp']; subst. constructor; [|now apply IH].
  unfold field_out in Hp. destruct (nth_error _ _); [|discriminate].
  destruct (field_type _ _) eqn:Ety; [|discriminate].
  pose proof (write_field_len _ _ _ _ _ _ (from_profile_entry_ok _ _ Hpf) Ety Hp). lia.
Qed.

Lemma payload_parts be gmn : forall fields (parts : list (list N)),
  Forall2 (fun pf (p : list N) => List.length p = N.to_nat (fsize pf)) fields parts ->
  payload_size (sdef_of be gmn fields) = List.length (List.concat parts).
Proof.
  unfold payload_size, sdef_of. cbn [sd_fds].
  induction 1 as [|pf p fields parts Hp HF IH]; [reflexivity|].
  cbn [map fold_right List.concat]. rewrite app_length, IH. change (sf_size (sfdef_of pf)) with (fsize pf). now rewrite Hp.
Qed.

(* one data record under the definition at local type 0 *)
Lemma data_step be m fields parts s : menc be m fields parts -> msg_dom m ->
  FitSyntax.lookup_def (ss_env s) 0 = Some (sdef_of be (m_num m) fields) ->
  exists m2 ref2,
    denote_record s (rdata_of parts) = Some (mk_sstate (ss_env s) ref2 (ss_msgs s ++ [m2]) (ss_unkm s) (ss_unkf s)) /\
    msg_norm_eq m m2.
Proof.
  intros Hm Hd Hl.
  destruct (menc_denote be m fields parts (ss_ref s) [] Hm Hd) as (inv & fs' & ref' & Hinv & E & Hn).
  exists (mk_msg (m_num m) fs'), ref'. split; [|split; [reflexivity|exact Hn]].
  unfold rdata_of, denote_record, denote_data. rewrite Hl.
  rewrite (payload_parts be (m_num m) fields parts (menc_lengths _ _ _ _ Hm)), Nat.eqb_refl.
  cbn [sdef_of sd_gmn sd_be sd_fds sd_devsize List.length Nat.eqb negb orb]. cbv zeta.
  destruct Hd as (_ & _ & Hk). rewrite Hk, Hinv. cbv beta iota. rewrite E. reflexivity.
Qed.

Lemma denote_from_app : forall a b s,
  denote_from s (a ++ b) = match denote_from s a with Some s' => denote_from s' b | None => None end.
Proof.
  induction a as [|r a IH]; intros b s; [reflexivity|]. cbn [app denote_from].
  destruct (denote_record s r); [apply IH|reflexivity].
Qed.

(* the data records of a slice slot, all under the same definition *)
Lemma data_run be mn fields : forall group partss,
  Forall2 (fun m parts => menc be m fields parts) group partss ->
  Forall (fun m => m_num m = mn) group -> Forall msg_dom group ->
  forall s, FitSyntax.lookup_def (ss_env s) 0 = Some (sdef_of be mn fields) ->
  exists s' msgs', denote_from s (map rdata_of partss) = Some s' /\ ss_env s' = ss_env s /\
    ss_msgs s' = ss_msgs s ++ msgs' /\ Forall2 msg_norm_eq group msgs' /\
    ss_unkm s' = ss_unkm s /\ ss_unkf s' = ss_unkf s.
Proof.
  induction 1 as [|m parts group partss Hm HF IH]; intros Hn Hd s Hl.
  - exists s, []. rewrite app_nil_r. repeat split; constructor.
  - inversion Hn as [|? ? En Hn']; subst. inversion Hd as [|? ? Hdm Hd']; subst.
    destruct (data_step be m fields parts s Hm Hdm Hl) as (m2 & ref2 & E & Hne).
    set (s1 := mk_sstate (ss_env s) ref2 (ss_msgs s ++ [m2]) (ss_unkm s) (ss_unkf s)) in *.
    destruct (IH Hn' Hd' s1 Hl) as (s' & msgs' & E' & Henv & Hmsgs & HF2 & Hu1 & Hu2).
    exists s', (m2 :: msgs'). cbn [map denote_from]. rewrite E, E'.
    split; [reflexivity|]. split; [exact Henv|].
    split; [rewrite Hmsgs; cbn [s1 ss_msgs]; now rewrite <- app_assoc|].
    split; [now constructor|]. split; assumption.
Qed.

Lemma lookup_head d env : FitSyntax.lookup_def ((0, d) :: env) 0 = Some d.
Proof. reflexivity. Qed.

(* ================================================================ the record list *)
Theorem lay_denote : forall be msgs rs, lay be msgs rs -> Forall msg_dom msgs ->
  forall ss0, exists ss1 msgs',
    denote_from ss0 rs = Some ss1 /\ ss_msgs ss1 = ss_msgs ss0 ++ msgs' /\ Forall2 msg_norm_eq msgs msgs' /\
    ss_unkm ss1 = ss_unkm ss0 /\ ss_unkf ss1 = ss_unkf ss0.
Proof.
  intros be msgs rs H. induction H as [|m fields parts ms rs Hm Hlay IH|mn fields group partss ms rs Hne Hn HF Hlay IH];
    intros Hd ss0.
  - exists ss0, []. rewrite app_nil_r. repeat split; constructor.
  - inversion Hd as [|? ? Hdm Hd']; subst.
    pose proof Hm as (Hfp & _). pose proof Hdm as (_ & _ & Hk).
    set (s1 := mk_sstate ((0, sdef_of be (m_num m) fields) :: ss_env ss0) (ss_ref ss0) (ss_msgs ss0) (ss_unkm ss0) (ss_unkf ss0)).
    destruct (data_step be m fields parts s1 Hm Hdm (lookup_head _ _)) as (m2 & ref2 & E & Hne).
    set (s2 := mk_sstate (ss_env s1) ref2 (ss_msgs s1 ++ [m2]) (ss_unkm s1) (ss_unkf s1)) in *.
    destruct (IH Hd' s2) as (ss1 & msgs' & E' & Hmsgs & HF2 & Hu1 & Hu2).
    exists ss1, (m2 :: msgs'). cbn [denote_from]. rewrite (def_step be (m_num m) fields ss0 Hk Hfp). fold s1. rewrite E, E'.
    split; [reflexivity|]. split; [rewrite Hmsgs; cbn [s2 s1 ss_msgs]; now rewrite <- app_assoc|].
    split; [now constructor|]. split; assumption.
  - apply Forall_app in Hd as [Hdg Hd'].
    assert (Hk : known_msg mn = true /\ Forall (from_profile mn) fields).
    { destruct HF as [|m0 p0 group partss Hm0 _]; [congruence|].
      inversion Hn as [|? ? En _]; subst. inversion Hdg as [|? ? (_ & _ & Hk) _]; subst.
      destruct Hm0 as (Hfp & _). auto. }
    destruct Hk as (Hk & Hfp).
    set (s1 := mk_sstate ((0, sdef_of be mn fields) :: ss_env ss0) (ss_ref ss0) (ss_msgs ss0) (ss_unkm ss0) (ss_unkf ss0)).
    destruct (data_run be mn fields group partss HF Hn Hdg s1 (lookup_head _ _)) as (s2 & msgs1 & E & Henv & Hmsgs & HF1 & Hu1 & Hu2).
    destruct (IH Hd' s2) as (ss1 & msgs' & E' & Hmsgs' & HF2 & Hu1' & Hu2').
    exists ss1, (msgs1 ++ msgs'). cbn [denote_from]. rewrite (def_step be mn fields ss0 Hk Hfp). fold s1.
    rewrite denote_from_app, E, E'.
    split; [reflexivity|]. split; [rewrite Hmsgs', Hmsgs; cbn [s1 ss_msgs]; now rewrite <- app_assoc|].
    split; [now apply Forall2_app|]. rewrite Hu1', Hu2', Hu1, Hu2. split; reflexivity.
Qed.

(* from the empty state: [denote] *)
Corollary lay_denote_init be msgs rs : lay be msgs rs -> Forall msg_dom msgs ->
  exists ss1 msgs', denote rs = Some ss1 /\ ss_msgs ss1 = msgs' /\ Forall2 msg_norm_eq msgs msgs' /\
    ss_unkm ss1 = [] /\ ss_unkf ss1 = [].
Proof.
  intros H Hd. destruct (lay_denote be msgs rs H Hd ss_init) as (ss1 & msgs' & E & Hm & HF & H1 & H2).
  exists ss1, msgs'. auto.
Qed.
