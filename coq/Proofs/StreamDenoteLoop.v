(* Stream-level decode = denote, layer 4: the record loop.
   decode_denote_records: for every record list the reference semantics accepts (any length, any
   interleaving of the 16 local types, both byte orders, redefinitions), running the decoder's record
   loop on the abstract interpreter over the serialised records ends with success having consumed
   exactly those bytes, in a state related to the denotation by the invariant. *)
From Coq Require Import NArith ZArith List Bool Lia Arith.
From Coq Require Import ZifyN ZifyNat ZifyBool.
From FitV Require Import Proofs.Util Model.Values Model.Bytes Model.Base Model.Profile Model.Reflect Model.IO
  Model.Route Model.Components Model.Decode Spec.FitSyntax Spec.RouteSpec Proofs.RouteProofs Proofs.DecodeLemmas Gen.Consts
  Proofs.StreamDenoteBase Proofs.StreamDenoteDefs Proofs.StreamDenoteDef Proofs.StreamDenoteData
  Proofs.StreamDenoteRecord.
Import ListNotations.
Local Open Scope N_scope.
Ltac Zify.zify_post_hook ::= Z.div_mod_to_equations.

Lemma all_bytes_app a b : all_bytes (a ++ b) = true -> all_bytes a = true /\ all_bytes b = true.
Proof. unfold all_bytes. rewrite forallb_app. intros H. now apply andb_prop in H. Qed.

Lemma lookup_def_cons l d env l' :
  lookup_def ((l, d) :: env) l' = if l =? l' then Some d else lookup_def env l'.
Proof. unfold lookup_def. cbn [find fst]. destruct (l =? l'); reflexivity. Qed.

(* ------------------------------------------------------------ a definition record *)
Lemma Inv_def o pre fb gb ft s ss l be gmn fds (devflag : bool) (devs : list (N * N * N)) :
  Inv o pre fb gb ft s ss -> l < 16 -> forallb (compat gmn) fds = true -> forallb canon_bt fds = true ->
  Inv o pre fb gb ft
    (with_defs s (set_nth (N.to_nat l) (Some (mk_defmsg l be gmn (map to_fdef fds) (if devflag then devs else []))) (ds_defs s)))
    (mk_sstate ((l, mk_sdef be gmn fds
                      (fold_right (fun d acc => let '(_, sz, _) := d in (N.to_nat sz + acc)%nat) 0%nat
                                  (if devflag then devs else []))) :: ss_env ss)
               (ss_ref ss) (ss_msgs ss) (ss_unkm ss) (ss_unkf ss)).
Proof.
  intros [H1 H2 H3 H4 H5 H6 H7 H8 H9] Hl Hc Hcan.
  constructor; cbn [with_defs ds_defs ds_ts ds_lastoff ds_hasts ds_unkf ds_unkm ds_file ds_g ss_env ss_ref ss_msgs ss_unkm ss_unkf];
    try assumption.
  - now rewrite set_nth_length.
  - intros l' Hl'. rewrite lookup_def_cons.
    destruct (N.eqb_spec l l') as [<-|Hne].
    + rewrite nth_set_nth_eq by (rewrite H1; lia). cbn [slot_rel]. unfold dm_ok.
      cbn [dm_be dm_gmn dm_fdefs dm_devs sd_be sd_gmn sd_fds sd_devsize]. repeat split; try assumption; reflexivity.
    + rewrite nth_set_nth_neq by (intros E; apply Hne; now apply N2Nat.inj). now apply H2.
  - intros l' d. rewrite lookup_def_cons. destruct (N.eqb_spec l l') as [<-|Hne]; [intros _; exact Hl|apply H3].
Qed.

(* ------------------------------------------------------------ one record *)
Theorem record_step : forall o pre fb gb ft s ss r ss' tl t n lim,
  Inv o pre fb gb ft s ss -> rec_wf r = true -> denote_record ss r = Some ss' ->
  (n + List.length (ser_record r) <= lim)%nat ->
  exists s',
    run_a (parse_record o) (ast_at (ser_record r) tl t n lim) s =
      ROk tt (ast_at [] tl t (n + List.length (ser_record r)) lim) s' /\
    Inv o pre fb gb ft s' ss'.
Proof.
  intros o pre fb gb ft s ss r ss' tl t n lim HI Hwf Hden Hlim.
  unfold rec_wf in Hwf. apply andb_prop in Hwf. destruct Hwf as [Hbytes Hextra].
  destruct r as [l be gmn fds devflag devs|l pay dev|l off pay dev].
  - (* definition *)
    cbn [denote_record] in Hden.
    destruct ((16 <=? l) || (gmn =? c_MesgNumInvalid) || negb (forallb (compat gmn) fds)) eqn:Echk; [discriminate|].
    apply orb_false_elim in Echk. destruct Echk as [Echk Ec]. apply orb_false_elim in Echk. destruct Echk as [El Eg].
    apply N.leb_gt in El. apply N.eqb_neq in Eg. apply negb_false_iff in Ec.
    apply andb_prop in Hextra. destruct Hextra as [Hg Hcan]. apply N.ltb_lt in Hg.
    rewrite (parse_def_ok o l be gmn fds devflag devs tl t n lim s El Hg Eg Ec Hlim).
    eexists. split; [reflexivity|]. inversion Hden; subst ss'. now apply Inv_def.
  - (* data record *)
    cbn [denote_record] in Hden. cbn [ser_record] in *.
    assert (Hl16 : l < 16).
    { unfold denote_data in Hden. destruct (lookup_def (ss_env ss) l) as [d|] eqn:El; [|discriminate].
      exact (inv_env16 _ _ _ _ _ _ _ HI l d El). }
    cbn [List.length] in Hlim. rewrite app_length in Hlim.
    rewrite (dispatch_data o l (pay ++ dev) tl t n lim s Hl16) by lia.
    change (l :: pay ++ dev) with ([l] ++ pay ++ dev) in Hbytes.
    apply all_bytes_app in Hbytes. destruct Hbytes as [_ Hbytes]. apply all_bytes_app in Hbytes. destruct Hbytes as [Hbp _].
    destruct (data_record_ok o pre fb gb ft s ss l false l None pay dev ss' tl t (n + 1)%nat lim HI
                (data_header_local l Hl16) eq_refl Hbp Hden ltac:(lia)) as (s' & Hrun & HI').
    exists s'. split; [|exact HI'].
    etransitivity; [exact Hrun|]. cbn [List.length]. rewrite app_length.
    f_equal. f_equal. lia.
  - (* compressed-timestamp record *)
    cbn [denote_record] in Hden. cbn [ser_record] in *.
    destruct (4 <=? l) eqn:El4; [discriminate|]. apply N.leb_gt in El4. apply N.ltb_lt in Hextra.
    cbn [List.length] in Hlim. rewrite app_length in Hlim.
    rewrite (dispatch_comp o l off (pay ++ dev) tl t n lim s El4 Hextra) by lia.
    change ((0x80 + 32 * l + off) :: pay ++ dev) with ([0x80 + 32 * l + off] ++ pay ++ dev) in Hbytes.
    apply all_bytes_app in Hbytes. destruct Hbytes as [_ Hbytes]. apply all_bytes_app in Hbytes. destruct Hbytes as [Hbp _].
    destruct (data_record_ok o pre fb gb ft s ss (0x80 + 32 * l + off) true l (Some off) pay dev ss' tl t (n + 1)%nat lim HI
                (comp_header_local l off El4 Hextra)
                (conj eq_refl (conj (comp_header_offset l off El4 Hextra) Hextra)) Hbp Hden ltac:(lia))
      as (s' & Hrun & HI').
    exists s'. split; [|exact HI'].
    etransitivity; [exact Hrun|]. cbn [List.length]. rewrite app_length.
    f_equal. f_equal. lia.
Qed.

Lemma ser_record_nonempty r : (1 <= List.length (ser_record r))%nat.
Proof. destruct r; cbn [ser_record List.length app]; lia. Qed.

(* ------------------------------------------------------------ the loop *)
Theorem decode_denote_records : forall rs o pre fb gb ft s0 ss0 ss1 tl t n lim fuel,
  Inv o pre fb gb ft s0 ss0 ->
  stream_wf rs = true -> denote_from ss0 rs = Some ss1 ->
  (n + List.length (ser_records rs) = lim)%nat -> (List.length rs < fuel)%nat ->
  exists s1,
    run_a (decode_file_data o fuel) (ast_at (ser_records rs) tl t n lim) s0 = ROk tt (ast_at [] tl t lim lim) s1 /\
    Inv o pre fb gb ft s1 ss1.
Proof.
  induction rs as [|r rest IH]; intros o pre fb gb ft s0 ss0 ss1 tl t n lim fuel HI Hwf Hden Hlim Hfuel.
  - destruct fuel as [|f]; [cbn in Hfuel; lia|]. cbn [ser_records flat_map List.length] in Hlim.
    cbn [decode_file_data]. rewrite run_more.
    replace (Nat.ltb n lim) with false by (symmetry; apply Nat.ltb_ge; lia).
    cbn [denote_from] in Hden. inversion Hden; subst ss1.
    exists s0. split; [|exact HI]. cbn [run_a ser_records flat_map]. f_equal. f_equal. lia.
  - destruct fuel as [|f]; [cbn in Hfuel; lia|]. cbn [List.length] in Hfuel.
    cbn [stream_wf forallb] in Hwf. apply andb_prop in Hwf. destruct Hwf as [Hwf1 Hwf].
    cbn [denote_from] in Hden. destruct (denote_record ss0 r) as [ssm|] eqn:Edr; [|discriminate].
    change (ser_records (r :: rest)) with (ser_record r ++ ser_records rest) in *.
    rewrite app_length in Hlim. pose proof (ser_record_nonempty r) as Hne.
    cbn [decode_file_data]. rewrite run_more.
    replace (Nat.ltb n lim) with true by (symmetry; apply Nat.ltb_lt; lia).
    rewrite run_bind. rewrite ast_at_app.
    destruct (record_step o pre fb gb ft s0 ss0 r ssm (ser_records rest ++ tl) t n lim HI Hwf1 Edr ltac:(lia))
      as (sm & Hrun & HIm).
    rewrite Hrun. cbn [rbind]. rewrite ast_at_nil_app.
    exact (IH o pre fb gb ft sm ssm ss1 tl t (n + List.length (ser_record r))%nat lim f HIm Hwf Hden ltac:(lia) ltac:(lia)).
Qed.

Print Assumptions decode_denote_records.
