(* C17, coordinate half: NewLatitude / NewLongitude / Degrees / New*Degrees /
   String over all int32 semicircle values, on the Flocq binary64 model. *)
From Coq Require Import ZArith Reals Lia Lra Bool String.
From Flocq Require Import Core IEEE754.BinarySingleNaN IEEE754.Binary IEEE754.Bits.
From FitV Require Import Model.LatLng.
Local Open Scope Z_scope.

(* ------------------------------------------------------------------ *)
(* integer part: validity and Semicircles                              *)

Lemma lat_min_val : lat_min = - 2 ^ 30. Proof. reflexivity. Qed.
Lemma lat_max_val : lat_max = 2 ^ 30 - 1. Proof. reflexivity. Qed.

(* the code's validity range of a latitude *)
Definition lat_code_invalid (s : Z) : Prop := s = 2 ^ 31 - 1 \/ s < - 2 ^ 30 \/ s > 2 ^ 30 - 1.

Lemma new_latitude_cases s :
  (lat_code_invalid s /\ new_latitude s = mk_lat sint32_invalid) \/
  (~ lat_code_invalid s /\ new_latitude s = mk_lat s).
Proof.
  unfold new_latitude, lat_code_invalid, new_latitude_invalid.
  rewrite lat_min_val, lat_max_val. unfold sint32_invalid.
  destruct (Z.eqb_spec s 2147483647) as [E|NE]; [left; split; [lia|reflexivity]|].
  destruct (Z.ltb_spec s (- 2 ^ 30)); [left; split; [lia|reflexivity]|].
  destruct (Z.ltb_spec (2 ^ 30 - 1) s); [left; split; [lia|reflexivity]|].
  right. split; [lia|reflexivity].
Qed.

Theorem lat_invalid_iff s : lat_invalid (new_latitude s) = true <-> lat_code_invalid s.
Proof.
  destruct (new_latitude_cases s) as [[H ->]|[H ->]]; unfold lat_invalid; cbn [lat_semicircles].
  - rewrite Z.eqb_refl. tauto.
  - split; [|tauto]. intros E. apply Z.eqb_eq in E. exfalso. apply H. left. exact E.
Qed.

Theorem lng_invalid_iff s : lng_invalid (new_longitude s) = true <-> s = 2 ^ 31 - 1.
Proof. unfold lng_invalid, new_longitude. cbn [lng_semicircles]. apply Z.eqb_eq. Qed.

(* the literal reading of the property: sentinel, or degrees outside +-90,
   i.e. |s| * 180 / 2^31 > 90 *)
Definition lat_literal_invalid (s : Z) : Prop := s = 2 ^ 31 - 1 \/ Z.abs s * 180 > 90 * 2 ^ 31.

(* the two readings differ at exactly one int32: +90 degrees *)
Theorem lat_literal_iff s : s <> 2 ^ 30 ->
  (lat_invalid (new_latitude s) = true <-> lat_literal_invalid s).
Proof.
  intros Hs. rewrite lat_invalid_iff. unfold lat_code_invalid, lat_literal_invalid. lia.
Qed.

Theorem lat_plus90_refuted :
  exists s, is_i32 s /\ s * 180 = 90 * 2 ^ 31 /\ ~ lat_literal_invalid s /\
            lat_invalid (new_latitude s) = true /\
            lat_invalid (new_latitude (- s)) = false.
Proof.
  exists (2 ^ 30). unfold is_i32, lat_literal_invalid, min_int32, max_int32.
  repeat split; try lia; vm_compute; reflexivity.
Qed.

(* Semicircles returns the stored value: the argument when the coordinate is
   valid, the sentinel otherwise *)
Theorem lat_semicircles_id s :
  (lat_invalid (new_latitude s) = false -> lat_semis (new_latitude s) = s) /\
  (lat_invalid (new_latitude s) = true -> lat_semis (new_latitude s) = sint32_invalid).
Proof.
  unfold lat_semis. destruct (new_latitude_cases s) as [[H E]|[H E]]; rewrite E; unfold lat_invalid; cbn [lat_semicircles].
  - rewrite Z.eqb_refl. split; [discriminate|reflexivity].
  - split; [reflexivity|]. intros E'. apply Z.eqb_eq in E'. exact E'.
Qed.

Theorem lng_semicircles_id s : lng_semis (new_longitude s) = s.
Proof. reflexivity. Qed.

(* ------------------------------------------------------------------ *)
(* binary64 toolkit                                                    *)

Notation fexp64 := (SpecFloat.fexp 53 1024).
Notation fmt64 := (generic_format radix2 fexp64).
Notation b64R := (B2R 53 1024).
Notation b64fin := (is_finite 53 1024).
Notation rnd64 := (round radix2 fexp64 (round_mode mode_NE)).

Lemma fmt_small m e : Z.abs m < 2 ^ 53 -> -1074 <= e -> fmt64 (F2R (Float radix2 m e)).
Proof.
  intros Hm He. change fexp64 with (FLT_exp (-1074) 53). apply generic_format_FLT.
  exists (Float radix2 m e); auto.
Qed.

Lemma F2R_lt_emax m e : Z.abs m < 2 ^ 53 -> e <= 900 -> (Rabs (F2R (Float radix2 m e)) < bpow radix2 1024)%R.
Proof.
  intros Hm He. rewrite <- F2R_Zabs. cbn [Fnum Fexp].
  apply Rlt_le_trans with (bpow radix2 (53 + e)).
  - rewrite bpow_plus. unfold F2R. cbn [Fnum Fexp]. apply Rmult_lt_compat_r; [apply bpow_gt_0|].
    change (bpow radix2 53) with (IZR (2 ^ 53)). apply IZR_lt. assumption.
  - apply bpow_le. lia.
Qed.

Lemma normalize_exact m e : Z.abs m < 2 ^ 53 -> -1074 <= e <= 900 ->
  b64R (binary_normalize 53 1024 eq_refl eq_refl mode_NE m e false) = F2R (Float radix2 m e)
  /\ b64fin (binary_normalize 53 1024 eq_refl eq_refl mode_NE m e false) = true.
Proof.
  intros Hm He.
  pose proof (binary_normalize_correct 53 1024 eq_refl eq_refl mode_NE m e false) as H.
  rewrite round_generic in H; [|apply valid_rnd_round_mode|apply fmt_small; lia].
  rewrite Rlt_bool_true in H by (apply F2R_lt_emax; lia).
  destruct H as (H1 & H2 & _). split; assumption.
Qed.

Lemma b64_of_Z_exact z : Z.abs z < 2 ^ 53 -> b64R (b64_of_Z z) = IZR z /\ b64fin (b64_of_Z z) = true.
Proof.
  intros H. destruct (normalize_exact z 0 H ltac:(lia)) as [H1 H2]. split; [|exact H2].
  unfold b64_of_Z. rewrite H1. unfold F2R. cbn [Fnum Fexp bpow]. ring.
Qed.

(* value and finiteness of a float from its computed (proof-free) form *)
Lemma B2R_of_FF (x : binary64) s m e :
  B2FF 53 1024 x = F754_finite s m e ->
  b64R x = F2R (Float radix2 (cond_Zopp s (Zpos m)) e) /\ b64fin x = true.
Proof.
  destruct x as [sx|sx|sx pl Hpl|sx mx ex Hx]; cbn; try discriminate.
  intros E. injection E as -> -> ->. split; reflexivity.
Qed.

(* 180 / math.Pow(2, 31) is exactly 45 * 2^-29 *)
Lemma semi_to_deg_exact : b64R semi_to_deg = F2R (Float radix2 45 (-29)) /\ b64fin semi_to_deg = true.
Proof.
  assert (E : B2FF 53 1024 semi_to_deg = F754_finite false 6333186975989760 (-76)) by (vm_compute; reflexivity).
  destruct (B2R_of_FF _ _ _ _ E) as [H1 H2]. split; [|exact H2].
  rewrite H1. unfold F2R. cbn [Fnum Fexp cond_Zopp bpow].
  change (Z.pow_pos radix2 76) with (6333186975989760 / 45 * 2 ^ 29 * (2 ^ 29 / 2 ^ 29))%Z.
  change (Z.pow_pos radix2 29) with (2 ^ 29)%Z.
  change (6333186975989760 / 45 * 2 ^ 29 * (2 ^ 29 / 2 ^ 29))%Z with (140737488355328 * 536870912)%Z.
  change (2 ^ 29)%Z with 536870912%Z. rewrite mult_IZR. field.
Qed.

(* math.Pow(2, 31) / 180 rounds to 6405119470038039 * 2^-29 *)
Definition deg_to_semi_m : Z := 6405119470038039.
Lemma deg_to_semi_val : b64R deg_to_semi = F2R (Float radix2 deg_to_semi_m (-29)) /\ b64fin deg_to_semi = true.
Proof.
  assert (E : B2FF 53 1024 deg_to_semi = F754_finite false 6405119470038039 (-29)) by (vm_compute; reflexivity).
  exact (B2R_of_FF _ _ _ _ E).
Qed.

(* float64(s) * semiToDegFactor for any int32 s: exact *)
Definition degrees_of (s : Z) : binary64 := b64_mult mode_NE (b64_of_Z s) semi_to_deg.

Lemma degrees_of_exact s : Z.abs s <= 2 ^ 31 ->
  b64R (degrees_of s) = (IZR s * 180 / 2 ^ 31)%R /\ b64fin (degrees_of s) = true.
Proof.
  intros Hs. unfold degrees_of, b64_mult.
  destruct (b64_of_Z_exact s ltac:(lia)) as [Hx Fx].
  destruct semi_to_deg_exact as [Hy Fy].
  pose proof (Bmult_correct 53 1024 eq_refl eq_refl binop_nan_pl64 mode_NE (b64_of_Z s) semi_to_deg) as H.
  rewrite Hx, Hy in H.
  assert (E : (IZR s * F2R (Float radix2 45 (-29)))%R = F2R (Float radix2 (s * 45) (-29))).
  { unfold F2R. cbn [Fnum Fexp]. rewrite mult_IZR. ring. }
  rewrite E in H. rewrite round_generic in H; [|apply valid_rnd_round_mode|apply fmt_small; lia].
  rewrite Rlt_bool_true in H by (apply F2R_lt_emax; lia).
  destruct H as (H1 & H2 & _). split.
  - rewrite H1. unfold F2R. cbn [Fnum Fexp bpow]. rewrite mult_IZR.
    change (Z.pow_pos radix2 29) with 536870912%Z. lra.
  - rewrite H2, Fx, Fy. reflexivity.
Qed.

(* ------------------------------------------------------------------ *)
(* Degrees                                                             *)

Lemma lng_degrees_unfold s : s <> sint32_invalid -> lng_degrees (new_longitude s) = degrees_of s.
Proof.
  intros H. unfold lng_degrees, new_longitude. cbn [lng_semicircles].
  destruct (Z.eqb_spec s sint32_invalid); [contradiction|reflexivity].
Qed.

Lemma lat_degrees_unfold s : lat_invalid (new_latitude s) = false -> lat_degrees (new_latitude s) = degrees_of s.
Proof.
  intros H. destruct (lat_semicircles_id s) as [Hs _]. specialize (Hs H). unfold lat_semis in Hs.
  unfold lat_degrees. unfold lat_invalid in H. rewrite H, Hs. reflexivity.
Qed.

Lemma i32_abs s : is_i32 s -> Z.abs s <= 2 ^ 31.
Proof. unfold is_i32, min_int32, max_int32. lia. Qed.

Theorem lng_degrees_exact s : is_i32 s -> lng_invalid (new_longitude s) = false ->
  b64R (lng_degrees (new_longitude s)) = (IZR s * 180 / 2 ^ 31)%R /\
  b64fin (lng_degrees (new_longitude s)) = true.
Proof.
  intros Hs Hv. rewrite lng_degrees_unfold.
  - apply degrees_of_exact, i32_abs, Hs.
  - intros E. unfold lng_invalid, new_longitude in Hv. cbn [lng_semicircles] in Hv. rewrite E, Z.eqb_refl in Hv. discriminate.
Qed.

Theorem lat_degrees_exact s : is_i32 s -> lat_invalid (new_latitude s) = false ->
  b64R (lat_degrees (new_latitude s)) = (IZR s * 180 / 2 ^ 31)%R /\
  b64fin (lat_degrees (new_latitude s)) = true.
Proof.
  intros Hs Hv. rewrite lat_degrees_unfold by exact Hv. apply degrees_of_exact, i32_abs, Hs.
Qed.

(* Degrees is NaN exactly on invalid coordinates *)
Theorem lng_degrees_nan_iff s : is_i32 s ->
  (is_nan 53 1024 (lng_degrees (new_longitude s)) = true <-> lng_invalid (new_longitude s) = true).
Proof.
  intros Hs. destruct (lng_invalid (new_longitude s)) eqn:Hv.
  - unfold lng_degrees. unfold lng_invalid in Hv. rewrite Hv. split; reflexivity.
  - destruct (lng_degrees_exact s Hs Hv) as [_ Hf]. split; [|discriminate].
    destruct (lng_degrees (new_longitude s)); cbn in *; congruence.
Qed.

Theorem lat_degrees_nan_iff s : is_i32 s ->
  (is_nan 53 1024 (lat_degrees (new_latitude s)) = true <-> lat_invalid (new_latitude s) = true).
Proof.
  intros Hs. destruct (lat_invalid (new_latitude s)) eqn:Hv.
  - unfold lat_degrees. unfold lat_invalid in Hv. rewrite Hv. split; reflexivity.
  - destruct (lat_degrees_exact s Hs Hv) as [_ Hf]. split; [|discriminate].
    destruct (lat_degrees (new_latitude s)); cbn in *; congruence.
Qed.

(* ------------------------------------------------------------------ *)
(* round trip through degrees                                          *)

Lemma half_fmt (k : Z) : Z.abs k < 2 ^ 52 -> fmt64 (IZR k / 2)%R.
Proof.
  intros Hk. replace (IZR k / 2)%R with (F2R (Float radix2 k (-1))).
  - apply fmt_small; lia.
  - unfold F2R. cbn [Fnum Fexp bpow]. change (Z.pow_pos radix2 1) with 2%Z. field.
Qed.

(* degrees * degToSemiFactor lands within 1/2 of the semicircle count *)
Lemma mult_back s : Z.abs s <= 2 ^ 31 ->
  let p := b64_mult mode_NE (degrees_of s) deg_to_semi in
  b64fin p = true /\ (IZR s - / 2 <= b64R p <= IZR s + / 2)%R.
Proof.
  intros Hs p.
  destruct (degrees_of_exact s Hs) as [Hx Fx]. destruct deg_to_semi_val as [Hy Fy].
  pose proof (Bmult_correct 53 1024 eq_refl eq_refl binop_nan_pl64 mode_NE (degrees_of s) deg_to_semi) as H.
  fold (b64_mult mode_NE (degrees_of s) deg_to_semi) in H. fold p in H.
  rewrite Hx, Hy in H.
  set (xy := (IZR s * 180 / 2 ^ 31 * F2R (Float radix2 deg_to_semi_m (-29)))%R) in H.
  assert (Hs' : (- 2147483648 <= IZR s <= 2147483648)%R).
  { split; [apply (IZR_le (-2147483648))|apply (IZR_le _ 2147483648)]; lia. }
  assert (Hxy : (IZR s - / 2 <= xy <= IZR s + / 2)%R).
  { unfold xy, F2R, deg_to_semi_m. cbn [Fnum Fexp bpow]. change (Z.pow_pos radix2 29) with 536870912%Z. lra. }
  assert (Hlo : fmt64 (IZR s - / 2)%R).
  { replace (IZR s - / 2)%R with (IZR (2 * s - 1) / 2)%R by (rewrite minus_IZR, mult_IZR; field). apply half_fmt. lia. }
  assert (Hhi : fmt64 (IZR s + / 2)%R).
  { replace (IZR s + / 2)%R with (IZR (2 * s + 1) / 2)%R by (rewrite plus_IZR, mult_IZR; field). apply half_fmt. lia. }
  assert (Hr : (IZR s - / 2 <= rnd64 xy <= IZR s + / 2)%R).
  { split.
    - rewrite <- (round_generic radix2 fexp64 (round_mode mode_NE) _ Hlo). apply round_le; [apply fexp_correct; reflexivity|apply valid_rnd_round_mode|apply Hxy].
    - rewrite <- (round_generic radix2 fexp64 (round_mode mode_NE) _ Hhi). apply round_le; [apply fexp_correct; reflexivity|apply valid_rnd_round_mode|apply Hxy]. }
  rewrite Rlt_bool_true in H.
  - destruct H as (H1 & H2 & _). rewrite H1, H2, Fx, Fy. split; [reflexivity|exact Hr].
  - apply Rle_lt_trans with (2147483649)%R.
    + apply Rabs_le. lra.
    + change (bpow radix2 1024) with (IZR (2 ^ 1024)). apply IZR_lt. reflexivity.
Qed.

Lemma round_FIX0 x : round radix2 (FIX_exp 0) Ztrunc x = IZR (Ztrunc x).
Proof.
  unfold round, scaled_mantissa, cexp, FIX_exp, F2R. cbn [Fnum Fexp Z.opp bpow].
  rewrite !Rmult_1_r. reflexivity.
Qed.

(* truncation toward zero of a real within 1/2 of an integer s *)
Lemma trunc_near (s : Z) (p : R) : (IZR s - / 2 <= p <= IZR s + / 2)%R ->
  Z.abs (Ztrunc p) <= Z.abs s /\ Z.abs (Ztrunc p - s) <= 1.
Proof.
  intros Hp. destruct (Rle_or_lt 0 p) as [Hpos|Hneg].
  - rewrite Ztrunc_floor by exact Hpos.
    pose proof (Zfloor_lb p) as Hl. pose proof (Zfloor_ub p) as Hu.
    assert (A : Zfloor p < s + 1) by (apply lt_IZR; rewrite plus_IZR; lra).
    assert (B : s - 2 < Zfloor p) by (apply lt_IZR; rewrite minus_IZR; lra).
    assert (C : -1 < Zfloor p) by (apply lt_IZR; lra).
    lia.
  - rewrite Ztrunc_ceil by lra.
    pose proof (Zceil_ub p) as Hl. pose proof (Zceil_lb p) as Hu.
    assert (A : s - 1 < Zceil p) by (apply lt_IZR; rewrite minus_IZR; lra).
    assert (B : Zceil p < s + 2) by (apply lt_IZR; rewrite plus_IZR; lra).
    assert (C : Zceil p < 1) by (apply lt_IZR; lra).
    lia.
Qed.

(* int32(degrees * degToSemiFactor) *)
Definition semis_of_degrees (d : binary64) : Z := int32_of_b64 (b64_mult mode_NE d deg_to_semi).

Lemma semis_back s : Z.abs s < 2 ^ 31 ->
  Z.abs (semis_of_degrees (degrees_of s) - s) <= 1 /\ Z.abs (semis_of_degrees (degrees_of s)) <= Z.abs s.
Proof.
  intros Hs. destruct (mult_back s ltac:(lia)) as [Hf Hp].
  unfold semis_of_degrees, int32_of_b64. rewrite Hf.
  set (p := b64_mult mode_NE (degrees_of s) deg_to_semi) in *.
  assert (E : Btrunc 53 1024 p = Ztrunc (b64R p)).
  { apply eq_IZR. rewrite Btrunc_correct by reflexivity. apply round_FIX0. }
  rewrite E. destruct (trunc_near s (b64R p) Hp) as [A B].
  unfold min_int32, max_int32.
  destruct (Z.leb_spec (-2147483648) (Ztrunc (b64R p))); destruct (Z.leb_spec (Ztrunc (b64R p)) 2147483647); cbn [andb]; lia.
Qed.

Lemma b64_ge_false (d : binary64) z : b64fin d = true -> Z.abs z < 2 ^ 53 -> (b64R d < IZR z)%R ->
  b64_ge d (b64_of_Z z) = false.
Proof.
  intros Hd Hz Hlt. destruct (b64_of_Z_exact z Hz) as [Hv Hf].
  unfold b64_ge, b64_compare. rewrite Bcompare_correct by assumption. rewrite Hv.
  rewrite Rcompare_Lt by exact Hlt. reflexivity.
Qed.

Lemma b64_le_false (d : binary64) z : b64fin d = true -> Z.abs z < 2 ^ 53 -> (IZR z < b64R d)%R ->
  b64_le d (b64_of_Z z) = false.
Proof.
  intros Hd Hz Hlt. destruct (b64_of_Z_exact z Hz) as [Hv Hf].
  unfold b64_le, b64_compare. rewrite Bcompare_correct by assumption. rewrite Hv.
  rewrite Rcompare_Gt by exact Hlt. reflexivity.
Qed.

(* constructing from the degrees of a valid longitude strictly inside
   (-180, 180) gives back the semicircles within one *)
Theorem lng_deg_roundtrip s : is_i32 s -> lng_invalid (new_longitude s) = false ->
  (-180 < b64R (lng_degrees (new_longitude s)) < 180)%R ->
  Z.abs (lng_semis (new_longitude_degrees (lng_degrees (new_longitude s))) - s) <= 1 /\
  lng_invalid (new_longitude_degrees (lng_degrees (new_longitude s))) = false.
Proof.
  intros Hs Hv Hr. destruct (lng_degrees_exact s Hs Hv) as [Hx Hf].
  assert (Hne : s <> sint32_invalid).
  { intros E. unfold lng_invalid, new_longitude in Hv. cbn [lng_semicircles] in Hv. rewrite E, Z.eqb_refl in Hv. discriminate. }
  assert (Hs2 : - 2 ^ 31 < s).
  { apply lt_IZR. rewrite Hx in Hr. change (IZR (- 2 ^ 31)) with (-2147483648)%R. lra. }
  unfold new_longitude_degrees.
  rewrite b64_ge_false by (try assumption; try lra; reflexivity).
  rewrite b64_le_false by (try assumption; try lra; reflexivity).
  cbn [orb lng_semis lng_semicircles lng_invalid].
  rewrite lng_degrees_unfold by exact Hne.
  fold (semis_of_degrees (degrees_of s)).
  unfold is_i32, min_int32, max_int32, sint32_invalid in *.
  destruct (semis_back s ltac:(lia)) as [A B]. split; [exact A|].
  apply Z.eqb_neq. cbn [lng_semicircles]. unfold sint32_invalid. lia.
Qed.

(* the same for a valid latitude strictly inside (-90, 90) *)
Theorem lat_deg_roundtrip s : is_i32 s -> lat_invalid (new_latitude s) = false ->
  (-90 < b64R (lat_degrees (new_latitude s)) < 90)%R ->
  Z.abs (lat_semis (new_latitude_degrees (lat_degrees (new_latitude s))) - s) <= 1 /\
  lat_invalid (new_latitude_degrees (lat_degrees (new_latitude s))) = false.
Proof.
  intros Hs Hv Hr. destruct (lat_degrees_exact s Hs Hv) as [Hx Hf].
  unfold new_latitude_degrees.
  rewrite b64_ge_false by (try assumption; try lra; reflexivity).
  rewrite b64_le_false by (try assumption; try lra; reflexivity).
  cbn [orb lat_semis lat_semicircles lat_invalid].
  rewrite lat_degrees_unfold by exact Hv.
  fold (semis_of_degrees (degrees_of s)).
  assert (Hc : ~ lat_code_invalid s).
  { intros C. apply lat_invalid_iff in C. congruence. }
  unfold lat_code_invalid in Hc.
  unfold is_i32, min_int32, max_int32, sint32_invalid in *.
  destruct (semis_back s ltac:(lia)) as [A B]. split; [exact A|].
  apply Z.eqb_neq. cbn [lat_semicircles]. unfold sint32_invalid. lia.
Qed.

(* ------------------------------------------------------------------ *)
(* printed form                                                        *)

Notation fexp32 := (SpecFloat.fexp 24 128).
Notation b32R := (B2R 24 128).
Notation rnd32 := (round radix2 fexp32 (round_mode mode_NE)).

(* the number a rendered (sign, n) stands for: +-n / 10^5 *)
Definition fixed_value (sn : bool * Z) : R :=
  ((if fst sn then -1 else 1) * (IZR (snd sn) / 100000))%R.

Lemma rhe_div_spec a b : 0 <= a -> 0 < b -> Z.abs (2 * (rhe_div a b * b - a)) <= b /\ 0 <= rhe_div a b.
Proof.
  intros Ha Hb. unfold rhe_div.
  pose proof (Z.div_mod a b ltac:(lia)) as E. pose proof (Z.mod_pos_bound a b Hb) as Hr.
  pose proof (Z.div_pos a b Ha Hb) as Hq.
  set (q := a / b) in *. set (r := a mod b) in *.
  destruct (Z.ltb_spec (2 * r) b); [|destruct (Z.ltb_spec b (2 * r)); [|destruct (Z.even q)]]; nia.
Qed.

Lemma rhe_div_real a b : 0 <= a -> 0 < b -> (Rabs (IZR (rhe_div a b) - IZR a / IZR b) <= / 2)%R.
Proof.
  intros Ha Hb. destruct (rhe_div_spec a b Ha Hb) as [H _].
  set (n := rhe_div a b) in *.
  assert (HB : (0 < IZR b)%R) by (apply IZR_lt; exact Hb).
  apply Z.abs_le in H. destruct H as [H1 H2].
  apply IZR_le in H1, H2. rewrite opp_IZR in H1. rewrite !mult_IZR, !minus_IZR, !mult_IZR in H1, H2.
  set (d := (IZR n - IZR a / IZR b)%R).
  assert (Ed : (d * IZR b = IZR n * IZR b - IZR a)%R) by (unfold d; field; lra).
  apply Rabs_le. split; nra.
Qed.

(* |m * 2^e| * 10^5 is rounded to an integer with error at most 1/2 *)
Lemma scaled_round_spec m e :
  (Rabs (IZR (scaled_round m e 5) - F2R (Float radix2 (Zpos m) e) * 100000) <= / 2)%R /\ 0 <= scaled_round m e 5.
Proof.
  unfold scaled_round, F2R. cbn [Fnum Fexp]. destruct (Z.leb_spec 0 e) as [He|He].
  - split; [|pose proof (Z.pow_nonneg 2 e); lia].
    pose proof (IZR_Zpower radix2 e He) as P. change (radix_val radix2) with 2%Z in P.
    rewrite !mult_IZR. rewrite P. change (IZR (10 ^ 5)) with 100000%R.
    rewrite Rminus_diag_eq by reflexivity. rewrite Rabs_R0. lra.
  - assert (Hb : 0 < 2 ^ (- e)) by (apply Z.pow_pos_nonneg; lia).
    destruct (rhe_div_spec (Z.pos m * 10 ^ 5) (2 ^ (- e)) ltac:(lia) Hb) as [_ Hn]. split; [|exact Hn].
    pose proof (rhe_div_real (Z.pos m * 10 ^ 5) (2 ^ (- e)) ltac:(lia) Hb) as H.
    pose proof (IZR_Zpower radix2 (- e) ltac:(lia)) as P. change (radix_val radix2) with 2%Z in P.
    rewrite mult_IZR in H. change (IZR (10 ^ 5)) with 100000%R in H.
    rewrite P in H. rewrite bpow_opp in H.
    replace (IZR (Z.pos m) * bpow radix2 e * 100000)%R with (IZR (Z.pos m) * 100000 / / bpow radix2 e)%R; [exact H|].
    field. apply Rgt_not_eq, bpow_gt_0.
Qed.

(* float32(x) for |x| < 256: finite, within 2^-17 of x *)
Lemma b32_of_b64_spec (x : binary64) : b64fin x = true -> (Rabs (b64R x) < 256)%R ->
  is_finite 24 128 (b32_of_b64 x) = true /\ (Rabs (b32R (b32_of_b64 x) - b64R x) <= / 131072)%R.
Proof.
  intros Hf Hx. assert (V32 : Valid_exp fexp32) by (apply fexp_correct; reflexivity).
  destruct x as [sx|sx|sx pl Hpl|sx mx ex Hb]; try discriminate.
  - cbn. split; [reflexivity|]. rewrite Rminus_diag_eq by reflexivity. rewrite Rabs_R0. lra.
  - unfold b32_of_b64.
    set (r := b64R (B754_finite 53 1024 sx mx ex Hb)) in *.
    pose proof (binary_normalize_correct 24 128 eq_refl eq_refl mode_NE (cond_Zopp sx (Zpos mx)) ex sx) as H.
    change (F2R (Float radix2 (cond_Zopp sx (Z.pos mx)) ex)) with r in H.
    assert (F256 : generic_format radix2 fexp32 256%R).
    { change 256%R with (bpow radix2 8). apply generic_format_bpow. cbv. discriminate. }
    assert (Hle : (Rabs (rnd32 r) <= 256)%R).
    { apply abs_round_le_generic; [apply fexp_correct; reflexivity|apply valid_rnd_round_mode|exact F256|lra]. }
    rewrite Rlt_bool_true in H.
    2:{ apply Rle_lt_trans with (1 := Hle). change (bpow radix2 128) with (IZR (2 ^ 128)). apply IZR_lt. reflexivity. }
    destruct H as (H1 & H2 & _). split; [exact H2|]. rewrite H1.
    destruct (Req_dec r 0) as [Z0|NZ].
    { rewrite Z0, round_0 by apply valid_rnd_round_mode. rewrite Rminus_diag_eq by reflexivity. rewrite Rabs_R0. lra. }
    eapply Rle_trans; [apply (error_le_half_ulp radix2 fexp32 (fun z => negb (Z.even z)) r)|].
    rewrite ulp_neq_0 by exact NZ. unfold cexp.
    assert (Hm : (mag radix2 r <= 8)%Z).
    { apply mag_le_bpow; [exact NZ|]. change (bpow radix2 8) with 256%R. exact Hx. }
    assert (He : (fexp32 (mag radix2 r) <= -16)%Z).
    { unfold SpecFloat.fexp, SpecFloat.emin. lia. }
    apply Rle_trans with (/ 2 * bpow radix2 (-16))%R.
    + apply Rmult_le_compat_l; [lra|]. apply bpow_le. exact He.
    + change (bpow radix2 (-16)) with (/ 65536)%R. lra.
Qed.

(* FormatFloat(x, 'f', 5, 32) of a finite |x| < 256 is the rendering of a
   (sign, n) whose value +-n/10^5 is within 2^-17 + 5e-6 < 2e-5 of x *)
Lemma format_close (x : binary64) : b64fin x = true -> (Rabs (b64R x) < 256)%R ->
  exists sn, format_f5_32 x = render5 sn /\ 0 <= snd sn /\
             (Rabs (fixed_value sn - b64R x) <= 2 / 100000)%R.
Proof.
  intros Hf Hx. destruct (b32_of_b64_spec x Hf Hx) as [Hfy Hy].
  unfold format_f5_32, precision.
  destruct (b32_of_b64 x) as [sy|sy|sy pl Hpl|sy my ey Hb]; try discriminate.
  - exists (sy, 0). cbn [fixed_of_b32 snd]. split; [reflexivity|]. split; [lia|].
    unfold fixed_value. cbn [fst snd]. cbn [B2R] in Hy.
    replace ((if sy then -1 else 1) * (0 / 100000) - b64R x)%R with (0 - b64R x)%R by (destruct sy; lra).
    eapply Rle_trans; [exact Hy|]. lra.
  - exists (sy, scaled_round my ey 5). cbn [fixed_of_b32 snd].
    destruct (scaled_round_spec my ey) as [Hn Hpos].
    split; [reflexivity|]. split; [exact Hpos|].
    unfold fixed_value. cbn [fst snd].
    set (n := IZR (scaled_round my ey 5)) in *.
    set (v := F2R (Float radix2 (Zpos my) ey)) in *.
    assert (Ey : b32R (B754_finite 24 128 sy my ey Hb) = ((if sy then -1 else 1) * v)%R).
    { cbn [B2R]. unfold v. destruct sy; cbn [SpecFloat.cond_Zopp].
      - change (Z.neg my) with (- Z.pos my). rewrite F2R_Zopp. lra.
      - lra. }
    rewrite Ey in Hy.
    apply Rabs_le_inv in Hn. apply Rabs_le_inv in Hy. apply Rabs_le.
    destruct sy; lra.
Qed.

Lemma degrees_of_bound s : Z.abs s <= 2 ^ 31 -> (Rabs (b64R (degrees_of s)) < 256)%R.
Proof.
  intros Hs. destruct (degrees_of_exact s Hs) as [Hx _]. rewrite Hx.
  assert (Hs' : (- 2147483648 <= IZR s <= 2147483648)%R).
  { split; [apply (IZR_le (-2147483648))|apply (IZR_le _ 2147483648)]; lia. }
  apply Rabs_lt. lra.
Qed.

(* the printed form of a valid coordinate is within 2e-5 degrees of Degrees *)
Theorem lng_string_close s : is_i32 s -> lng_invalid (new_longitude s) = false ->
  exists sn, lng_string (new_longitude s) = render5 sn /\ 0 <= snd sn /\
             (Rabs (fixed_value sn - b64R (lng_degrees (new_longitude s))) <= 2 / 100000)%R.
Proof.
  intros Hs Hv. unfold lng_string. unfold lng_invalid in Hv. rewrite Hv.
  assert (Hne : s <> sint32_invalid).
  { intros E. unfold new_longitude in Hv. cbn [lng_semicircles] in Hv. rewrite E, Z.eqb_refl in Hv. discriminate. }
  rewrite lng_degrees_unfold by exact Hne.
  apply format_close; [apply degrees_of_exact, i32_abs, Hs|apply degrees_of_bound, i32_abs, Hs].
Qed.

Theorem lat_string_close s : is_i32 s -> lat_invalid (new_latitude s) = false ->
  exists sn, lat_string (new_latitude s) = render5 sn /\ 0 <= snd sn /\
             (Rabs (fixed_value sn - b64R (lat_degrees (new_latitude s))) <= 2 / 100000)%R.
Proof.
  intros Hs Hv. unfold lat_string. pose proof Hv as Hv'. unfold lat_invalid in Hv'. rewrite Hv'.
  rewrite lat_degrees_unfold by exact Hv.
  apply format_close; [apply degrees_of_exact, i32_abs, Hs|apply degrees_of_bound, i32_abs, Hs].
Qed.

(* invalid coordinates print as "Invalid" *)
Theorem lng_string_invalid s : lng_invalid (new_longitude s) = true -> lng_string (new_longitude s) = string_invalid.
Proof. unfold lng_string, lng_invalid. intros ->. reflexivity. Qed.

Theorem lat_string_invalid s : lat_invalid (new_latitude s) = true -> lat_string (new_latitude s) = string_invalid.
Proof. unfold lat_string, lat_invalid. intros ->. reflexivity. Qed.

(* ------------------------------------------------------------------ *)
(* non-vacuity                                                         *)

Example coord_examples :
  is_i32 703539217 /\ lat_invalid (new_latitude 703539217) = false /\
  lat_string (new_latitude 703539217) = "58.96997"%string /\
  lat_semis (new_latitude_degrees (lat_degrees (new_latitude 703539217))) = 703539217 /\
  lng_string (new_longitude (- 2 ^ 31)) = "-180.00000"%string /\
  lng_string (new_longitude (2 ^ 23)) = "0.70312"%string /\
  lat_invalid (new_latitude (- 2 ^ 30)) = false /\ lat_invalid (new_latitude (2 ^ 30)) = true.
Proof. unfold is_i32, min_int32, max_int32. repeat split; try lia; vm_compute; reflexivity. Qed.

(* ------------------------------------------------------------------ *)
(* reading the printed form back                                       *)
From Coq Require Import Ascii Decimal DecimalString DecimalPos DecimalN.
From FitV Require Import Spec.FixedPoint.

Fixpoint nodot (s : string) : bool :=
  match s with EmptyString => true | String c r => negb (Ascii.eqb c ".") && nodot r end.

Lemma nodot_uint d : nodot (NilEmpty.string_of_uint d) = true.
Proof. induction d; cbn; auto. Qed.

Lemma split_dot_app a b : nodot a = true -> split_dot (a ++ String "." b) = Some (a, b).
Proof.
  induction a as [|c a IH]; cbn; intros H; [reflexivity|].
  apply andb_true_iff in H. destruct H as [H1 H2]. apply negb_true_iff in H1. rewrite H1.
  rewrite IH by exact H2. reflexivity.
Qed.

Lemma to_uint_nonnil n : N.to_uint n <> Nil.
Proof. destruct n; cbn; [discriminate|apply DecimalPos.Unsigned.to_uint_nonnil]. Qed.

(* the digits of a natural number start with a digit, contain no dot, and read back *)
Lemma dec_string_first q : exists c r, dec_string q = String c r /\ Ascii.eqb c "-" = false.
Proof.
  unfold dec_string. pose proof (to_uint_nonnil (Z.to_N q)) as H.
  destruct (N.to_uint (Z.to_N q)); try contradiction; cbn; eauto.
Qed.

Lemma dec_string_nodot q : nodot (dec_string q) = true.
Proof.
  unfold dec_string, NilZero.string_of_uint.
  destruct (N.to_uint (Z.to_N q)) eqn:E; try (rewrite <- E; apply nodot_uint). reflexivity.
Qed.

Lemma parse_dec_string q : 0 <= q -> parse_nat (dec_string q) = Some q.
Proof.
  intros Hq. unfold parse_nat, dec_string.
  rewrite NilZero.usu by apply to_uint_nonnil. cbn [option_map].
  rewrite DecimalN.Unsigned.of_to, Z2N.id by exact Hq. reflexivity.
Qed.

Lemma digit_val_char d : 0 <= d <= 9 -> digit_val (digit_char d) = Some d.
Proof.
  intros H.
  assert (C : d = 0 \/ d = 1 \/ d = 2 \/ d = 3 \/ d = 4 \/ d = 5 \/ d = 6 \/ d = 7 \/ d = 8 \/ d = 9) by lia.
  repeat (destruct C as [->|C]; [reflexivity|]). subst. reflexivity.
Qed.

Lemma parse_frac5_frac5 r : 0 <= r < 100000 -> parse_frac5 (frac5 r) = Some r.
Proof.
  intros Hr. unfold frac5, parse_frac5.
  rewrite !digit_val_char by (apply Z.mod_pos_bound; lia) || (pose proof (Z.mod_pos_bound (r / 10000) 10); pose proof (Z.mod_pos_bound (r / 1000) 10);
    pose proof (Z.mod_pos_bound (r / 100) 10); pose proof (Z.mod_pos_bound (r / 10) 10); pose proof (Z.mod_pos_bound r 10); lia).
  f_equal.
  pose proof (Z.div_mod r 10 ltac:(lia)). pose proof (Z.mod_pos_bound r 10 ltac:(lia)).
  pose proof (Z.div_mod (r / 10) 10 ltac:(lia)). pose proof (Z.mod_pos_bound (r / 10) 10 ltac:(lia)).
  pose proof (Z.div_mod (r / 100) 10 ltac:(lia)). pose proof (Z.mod_pos_bound (r / 100) 10 ltac:(lia)).
  pose proof (Z.div_mod (r / 1000) 10 ltac:(lia)). pose proof (Z.mod_pos_bound (r / 1000) 10 ltac:(lia)).
  pose proof (Z.div_mod (r / 10000) 10 ltac:(lia)). pose proof (Z.mod_pos_bound (r / 10000) 10 ltac:(lia)).
  assert (E1 : r / 100 = r / 10 / 10) by (rewrite Z.div_div by lia; reflexivity).
  assert (E2 : r / 1000 = r / 100 / 10) by (rewrite Z.div_div by lia; reflexivity).
  assert (E3 : r / 10000 = r / 1000 / 10) by (rewrite Z.div_div by lia; reflexivity).
  assert (E4 : r / 10000 / 10 = 0) by (rewrite Z.div_div by lia; apply Z.div_small; lia).
  lia.
Qed.

(* the independent reader recovers exactly the (sign, n) that was rendered *)
Theorem parse_render5 neg n : 0 <= n -> parse_fixed5 (render5 (neg, n)) = Some (neg, n).
Proof.
  intros Hn. unfold render5, parse_fixed5.
  pose proof (Z.div_pos n 100000 Hn ltac:(lia)) as Hq.
  pose proof (Z.mod_pos_bound n 100000 ltac:(lia)) as Hr.
  destruct (dec_string_first (n / 100000)) as (c & r & Ec & Hc).
  assert (Es : strip_sign ((if neg then "-" else "") ++ dec_string (n / 100000) ++ "." ++ frac5 (n mod 100000))
               = (neg, (dec_string (n / 100000) ++ String "." (frac5 (n mod 100000)))%string)).
  { destruct neg; cbn [append strip_sign]; [reflexivity|].
    rewrite Ec. cbn [append strip_sign]. rewrite Hc. reflexivity. }
  rewrite Es. rewrite split_dot_app by apply dec_string_nodot.
  rewrite parse_dec_string by exact Hq. rewrite parse_frac5_frac5 by exact Hr.
  f_equal. f_equal. pose proof (Z.div_mod n 100000 ltac:(lia)). lia.
Qed.

(* string_close in its final form: what the reader gets from the printed
   coordinate is within 2e-5 degrees of Degrees *)
Theorem lat_string_parse_close s : is_i32 s -> lat_invalid (new_latitude s) = false ->
  exists sn, parse_fixed5 (lat_string (new_latitude s)) = Some sn /\
             (Rabs (fixed_value sn - b64R (lat_degrees (new_latitude s))) <= 2 / 100000)%R.
Proof.
  intros Hs Hv. destruct (lat_string_close s Hs Hv) as ([neg n] & E & Hn & Hc).
  exists (neg, n). rewrite E. split; [apply parse_render5; exact Hn|exact Hc].
Qed.

Theorem lng_string_parse_close s : is_i32 s -> lng_invalid (new_longitude s) = false ->
  exists sn, parse_fixed5 (lng_string (new_longitude s)) = Some sn /\
             (Rabs (fixed_value sn - b64R (lng_degrees (new_longitude s))) <= 2 / 100000)%R.
Proof.
  intros Hs Hv. destruct (lng_string_close s Hs Hv) as ([neg n] & E & Hn & Hc).
  exists (neg, n). rewrite E. split; [apply parse_render5; exact Hn|exact Hc].
Qed.

Example parse_example : parse_fixed5 "-58.96997" = Some (true, 5896997) /\ parse_fixed5 "Invalid" = None.
Proof. split; reflexivity. Qed.

(* ------------------------------------------------------------------ *)
(* stronger than the property asks: the round trip is exact.           *)
(* degToSemiFactor is rounded upwards (relative excess 44 / 2^60), so the
   product leans away from zero by less than 1/2 and truncation toward zero
   restores s. *)

Lemma mult_back_signed s : Z.abs s <= 2 ^ 31 ->
  let p := b64_mult mode_NE (degrees_of s) deg_to_semi in
  (0 <= s -> (IZR s <= b64R p <= IZR s + / 2)%R) /\ (s <= 0 -> (IZR s - / 2 <= b64R p <= IZR s)%R).
Proof.
  intros Hs p.
  destruct (degrees_of_exact s Hs) as [Hx Fx]. destruct deg_to_semi_val as [Hy Fy].
  pose proof (Bmult_correct 53 1024 eq_refl eq_refl binop_nan_pl64 mode_NE (degrees_of s) deg_to_semi) as H.
  fold (b64_mult mode_NE (degrees_of s) deg_to_semi) in H. fold p in H.
  rewrite Hx, Hy in H.
  set (xy := (IZR s * 180 / 2 ^ 31 * F2R (Float radix2 deg_to_semi_m (-29)))%R) in H.
  assert (Hs' : (- 2147483648 <= IZR s <= 2147483648)%R).
  { split; [apply (IZR_le (-2147483648))|apply (IZR_le _ 2147483648)]; lia. }
  assert (Exy : xy = (IZR s * (1 + 44 / 1152921504606846976))%R).
  { unfold xy, F2R, deg_to_semi_m. cbn [Fnum Fexp bpow]. change (Z.pow_pos radix2 29) with 536870912%Z. field. }
  assert (Hmid : fmt64 (IZR s)).
  { replace (IZR s) with (F2R (Float radix2 s 0)) by (unfold F2R; cbn [Fnum Fexp bpow]; ring). apply fmt_small; lia. }
  assert (Hlo : fmt64 (IZR s - / 2)%R).
  { replace (IZR s - / 2)%R with (IZR (2 * s - 1) / 2)%R by (rewrite minus_IZR, mult_IZR; field). apply half_fmt. lia. }
  assert (Hhi : fmt64 (IZR s + / 2)%R).
  { replace (IZR s + / 2)%R with (IZR (2 * s + 1) / 2)%R by (rewrite plus_IZR, mult_IZR; field). apply half_fmt. lia. }
  assert (Mono : forall a b, fmt64 a -> fmt64 b -> (a <= xy <= b)%R -> (a <= rnd64 xy <= b)%R).
  { intros a b Fa Fb [Ha Hb]. split.
    - rewrite <- (round_generic radix2 fexp64 (round_mode mode_NE) _ Fa). apply round_le; [apply fexp_correct; reflexivity|apply valid_rnd_round_mode|exact Ha].
    - rewrite <- (round_generic radix2 fexp64 (round_mode mode_NE) _ Fb). apply round_le; [apply fexp_correct; reflexivity|apply valid_rnd_round_mode|exact Hb]. }
  assert (Hr : (IZR s - / 2 <= rnd64 xy <= IZR s + / 2)%R) by (apply Mono; try assumption; lra).
  rewrite Rlt_bool_true in H.
  2:{ apply Rle_lt_trans with (2147483649)%R; [apply Rabs_le; lra|].
      change (bpow radix2 1024) with (IZR (2 ^ 1024)). apply IZR_lt. reflexivity. }
  destruct H as (H1 & _). rewrite H1. split; intros Hsg; apply Mono; try assumption.
  - assert (0 <= IZR s)%R by (apply IZR_le; exact Hsg). lra.
  - assert (IZR s <= 0)%R by (apply IZR_le; exact Hsg). lra.
Qed.

Lemma semis_back_exact s : Z.abs s < 2 ^ 31 -> semis_of_degrees (degrees_of s) = s.
Proof.
  intros Hs. destruct (mult_back s ltac:(lia)) as [Hf _].
  destruct (mult_back_signed s ltac:(lia)) as [Hpos Hneg].
  unfold semis_of_degrees, int32_of_b64. rewrite Hf.
  set (p := b64_mult mode_NE (degrees_of s) deg_to_semi) in *.
  assert (E : Btrunc 53 1024 p = Ztrunc (b64R p)).
  { apply eq_IZR. rewrite Btrunc_correct by reflexivity. apply round_FIX0. }
  rewrite E.
  assert (T : Ztrunc (b64R p) = s).
  { destruct (Z.le_ge_cases 0 s) as [Hs0|Hs0].
    - specialize (Hpos Hs0). assert (0 <= IZR s)%R by (apply IZR_le; exact Hs0).
      rewrite Ztrunc_floor by lra. apply Zfloor_imp. rewrite plus_IZR. lra.
    - specialize (Hneg Hs0). assert (IZR s <= 0)%R by (apply IZR_le; exact Hs0).
      rewrite Ztrunc_ceil by lra. apply Zceil_imp. rewrite minus_IZR. lra. }
  rewrite T. unfold min_int32, max_int32.
  destruct (Z.leb_spec (-2147483648) s); destruct (Z.leb_spec s 2147483647); cbn [andb]; lia.
Qed.

Theorem lng_deg_roundtrip_exact s : is_i32 s -> lng_invalid (new_longitude s) = false ->
  (-180 < b64R (lng_degrees (new_longitude s)) < 180)%R ->
  new_longitude_degrees (lng_degrees (new_longitude s)) = new_longitude s.
Proof.
  intros Hs Hv Hr. destruct (lng_degrees_exact s Hs Hv) as [Hx Hf].
  assert (Hne : s <> sint32_invalid).
  { intros E. unfold lng_invalid, new_longitude in Hv. cbn [lng_semicircles] in Hv. rewrite E, Z.eqb_refl in Hv. discriminate. }
  assert (Hs2 : - 2 ^ 31 < s).
  { apply lt_IZR. rewrite Hx in Hr. change (IZR (- 2 ^ 31)) with (-2147483648)%R. lra. }
  unfold new_longitude_degrees.
  rewrite b64_ge_false by (try assumption; try lra; reflexivity).
  rewrite b64_le_false by (try assumption; try lra; reflexivity).
  cbn [orb]. rewrite lng_degrees_unfold by exact Hne.
  fold (semis_of_degrees (degrees_of s)).
  unfold is_i32, min_int32, max_int32 in Hs.
  rewrite semis_back_exact by lia. reflexivity.
Qed.

Theorem lat_deg_roundtrip_exact s : is_i32 s -> lat_invalid (new_latitude s) = false ->
  (-90 < b64R (lat_degrees (new_latitude s)) < 90)%R ->
  new_latitude_degrees (lat_degrees (new_latitude s)) = new_latitude s.
Proof.
  intros Hs Hv Hr. destruct (lat_degrees_exact s Hs Hv) as [Hx Hf].
  unfold new_latitude_degrees.
  rewrite b64_ge_false by (try assumption; try lra; reflexivity).
  rewrite b64_le_false by (try assumption; try lra; reflexivity).
  cbn [orb]. rewrite lat_degrees_unfold by exact Hv.
  fold (semis_of_degrees (degrees_of s)).
  assert (Hc : ~ lat_code_invalid s).
  { intros C. apply lat_invalid_iff in C. congruence. }
  unfold lat_code_invalid in Hc.
  unfold is_i32, min_int32, max_int32 in Hs.
  rewrite semis_back_exact by lia.
  destruct (new_latitude_cases s) as [[C _]|[_ E]]; [|symmetry; exact E].
  exfalso. apply Hc. exact C.
Qed.

(* the hypotheses of the round trip are satisfiable *)
Example roundtrip_hypotheses :
  is_i32 703539217 /\ lat_invalid (new_latitude 703539217) = false /\
  (-90 < b64R (lat_degrees (new_latitude 703539217)) < 90)%R /\
  lng_invalid (new_longitude (-2000000000)) = false /\
  (-180 < b64R (lng_degrees (new_longitude (-2000000000))) < 180)%R.
Proof.
  assert (H1 : is_i32 703539217) by (unfold is_i32, min_int32, max_int32; lia).
  assert (H2 : is_i32 (-2000000000)) by (unfold is_i32, min_int32, max_int32; lia).
  assert (V1 : lat_invalid (new_latitude 703539217) = false) by (vm_compute; reflexivity).
  assert (V2 : lng_invalid (new_longitude (-2000000000)) = false) by (vm_compute; reflexivity).
  destruct (lat_degrees_exact _ H1 V1) as [E1 _]. destruct (lng_degrees_exact _ H2 V2) as [E2 _].
  rewrite E1, E2. split; [exact H1|]. split; [exact V1|]. split; [lra|]. split; [exact V2|lra].
Qed.
