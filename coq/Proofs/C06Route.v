(* C06, last piece: routing the decoded messages back into a File and comparing it with the File that was
   encoded.  Input: the messages msgs' the reference semantics denotes for Encode's output are, one by one,
   equal to the messages of the encoded File f0 up to the normal form of the comparator
   (Forall2 msg_norm_eq (file_msgs f0) msgs').  Output: start_file / route_msgs succeed on msgs' and every
   File with the slots and the container type of the routed File is content_eq6 to f0.
   No typing condition on msgs' is needed: the expanders read scalar fields only (on which the normal form
   is the identity) and the compressed_speed_distance array, which the domain silences. *)
From Coq Require Import NArith ZArith List Bool String Lia Arith.
From Coq Require Import ZifyN ZifyNat ZifyBool.
From FitV Require Import Proofs.Util Model.Values Model.Bytes Model.Base Model.Profile Model.Reflect Model.Header
  Model.Components Model.Route Spec.RouteSpec Spec.Grammar Spec.RoundTrip
  Proofs.RouteProofs Proofs.C05Grammar Proofs.C07Fixpoint Proofs.C06Defs Proofs.StreamDenoteLift Proofs.StreamDenoteMain
  Gen.Consts Gen.RoutingData.
Import ListNotations.
Local Open Scope N_scope.
Ltac Zify.zify_post_hook ::= Z.div_mod_to_equations.

(* ================================================================ 1. the normal form, field by field *)

Lemma map_fields_length (f : pfield -> goval -> goval) gmn : forall vals k,
  List.length (map_fields f gmn k vals) = List.length vals.
Proof. induction vals as [|v r IH]; intros k; cbn [map_fields List.length]; [reflexivity|now rewrite IH]. Qed.

Lemma map_fields_nth (f : pfield -> goval -> goval) gmn d : forall vals k i, (i < List.length vals)%nat ->
  nth i (map_fields f gmn k vals) d =
  match pfield_of_sindex gmn (k + i) with Some pf => f pf (nth i vals d) | None => nth i vals d end.
Proof.
  induction vals as [|v r IH]; intros k i Hi; cbn [List.length] in Hi; [lia|].
  cbn [map_fields]. destruct i as [|i]; cbn [nth].
  - now rewrite Nat.add_0_r.
  - rewrite IH by lia. now rewrite Nat.add_succ_r.
Qed.

Lemma map_fields_set_nth (f : pfield -> goval -> goval) gmn v : forall vals k i,
  map_fields f gmn k (set_nth i v vals) =
  set_nth i (match pfield_of_sindex gmn (k + i) with Some pf => f pf v | None => v end) (map_fields f gmn k vals).
Proof.
  induction vals as [|a r IH]; intros k i; [destruct i; reflexivity|].
  destruct i as [|i]; cbn [set_nth map_fields].
  - now rewrite Nat.add_0_r.
  - rewrite IH. now rewrite Nat.add_succ_r.
Qed.

(* struct field i of message type mn is a scalar that is not a timestamp: the normal form leaves it alone *)
Definition plain_at (mn : N) (i : nat) : bool :=
  match pfield_of_sindex mn i with
  | Some pf => negb (fit_array (pf_t pf)) && negb (fit_kind (pf_t pf) =? kind_timelocal)
               && negb (fit_kind (pf_t pf) =? kind_timeutc)
  | None => true
  end.
Definition plain_name (mn : N) (name : string) : bool :=
  match sindex_of mn name with Some i => plain_at mn i | None => true end.

Lemma norm_field_plain pf v :
  negb (fit_array (pf_t pf)) && negb (fit_kind (pf_t pf) =? kind_timelocal) && negb (fit_kind (pf_t pf) =? kind_timeutc) = true ->
  norm_field pf v = v.
Proof.
  intros H. apply andb_true_iff in H as [H H3]. apply andb_true_iff in H as [H1 H2].
  apply negb_true_iff in H1, H2, H3. unfold norm_field. now rewrite H1, H2, H3.
Qed.

Lemma norm_msg_num m : m_num (norm_msg m) = m_num m.
Proof. reflexivity. Qed.

Lemma norm_msg_length m : List.length (m_fields (norm_msg m)) = List.length (m_fields m).
Proof. unfold norm_msg. cbn [m_fields]. apply map_fields_length. Qed.

Lemma norm_msg_nth_plain m i d : plain_at (m_num m) i = true -> nth i (m_fields (norm_msg m)) d = nth i (m_fields m) d.
Proof.
  intros Hp. destruct (Nat.lt_ge_cases i (List.length (m_fields m))) as [Hi|Hi].
  - unfold norm_msg. cbn [m_fields]. rewrite map_fields_nth by exact Hi. cbn [Nat.add].
    unfold plain_at in Hp. destruct (pfield_of_sindex (m_num m) i) as [pf|]; [|reflexivity].
    now apply norm_field_plain.
  - rewrite !nth_overflow; [reflexivity|exact Hi|now rewrite norm_msg_length].
Qed.

Lemma fld_norm_plain m name : plain_name (m_num m) name = true -> fld (norm_msg m) name = fld m name.
Proof.
  unfold plain_name, fld. rewrite norm_msg_num. destruct (sindex_of (m_num m) name) as [i|]; [|reflexivity].
  apply norm_msg_nth_plain.
Qed.

Lemma norm_set_fld_plain m name v : plain_name (m_num m) name = true ->
  norm_msg (set_fld m name v) = set_fld (norm_msg m) name v.
Proof.
  unfold plain_name, set_fld. rewrite norm_msg_num. destruct (sindex_of (m_num m) name) as [i|]; [|reflexivity].
  intros Hp. unfold norm_msg. cbn [m_num m_fields]. f_equal. rewrite map_fields_set_nth. cbn [Nat.add].
  unfold plain_at in Hp. destruct (pfield_of_sindex (m_num m) i) as [pf|]; [|reflexivity].
  now rewrite norm_field_plain.
Qed.

(* ================================================================ 2. the relation between what was put in and what comes out *)
(* msg_norm_eq m m': m' is the decoded counterpart of m *)

Lemma mne_refl m : msg_norm_eq m m.
Proof. split; reflexivity. Qed.

Lemma mne_fld m m' name : msg_norm_eq m m' -> plain_name (m_num m) name = true -> fld m' name = fld m name.
Proof.
  intros [Hn He] Hp. rewrite <- (fld_norm_plain m name Hp), <- (fld_norm_plain m' name) by (now rewrite Hn).
  now rewrite He.
Qed.

Lemma mne_set_fld m m' name v : msg_norm_eq m m' -> plain_name (m_num m) name = true ->
  msg_norm_eq (set_fld m name v) (set_fld m' name v).
Proof.
  intros [Hn He] Hp. split; [now rewrite !set_fld_num|].
  rewrite !norm_set_fld_plain by (rewrite ?Hn; exact Hp). now rewrite He.
Qed.

Lemma mne_widen16 m m' src dst : msg_norm_eq m m' ->
  plain_name (m_num m) src = true -> plain_name (m_num m) dst = true ->
  msg_norm_eq (widen16 m src dst) (widen16 m' src dst).
Proof.
  intros H Hs Hd. unfold widen16. rewrite (mne_fld m m' src H Hs).
  destruct (_ =? _); [exact H|]. now apply mne_set_fld.
Qed.

(* ================================================================ 3. the expanders respect the relation *)
Ltac pn Hn := rewrite ?widen16_num, ?set_fld_num, Hn; vm_compute; reflexivity.

Lemma mne_expand_session_lap m m' : msg_norm_eq m m' -> (m_num m = c_MesgNumSession \/ m_num m = c_MesgNumLap) ->
  msg_norm_eq (expand_session_lap m) (expand_session_lap m').
Proof.
  intros H Hn. unfold expand_session_lap.
  repeat (apply mne_widen16; [|destruct Hn as [Hn|Hn]; pn Hn|destruct Hn as [Hn|Hn]; pn Hn]). exact H.
Qed.

Lemma mne_expand_segment_lap m m' : msg_norm_eq m m' -> m_num m = c_MesgNumSegmentLap ->
  msg_norm_eq (expand_segment_lap m) (expand_segment_lap m').
Proof.
  intros H Hn. unfold expand_segment_lap.
  repeat (apply mne_widen16; [|pn Hn|pn Hn]). exact H.
Qed.

Lemma mne_expand_segment_point m m' : msg_norm_eq m m' -> m_num m = c_MesgNumSegmentPoint ->
  msg_norm_eq (expand_segment_point m) (expand_segment_point m').
Proof. intros H Hn. unfold expand_segment_point. apply mne_widen16; [exact H|pn Hn|pn Hn]. Qed.

Lemma mne_expand_event m m' : msg_norm_eq m m' -> m_num m = c_MesgNumEvent ->
  msg_norm_eq (expand_event m) (expand_event m').
Proof.
  intros H Hn. unfold expand_event. cbv zeta.
  rewrite (mne_fld m m' "Data16" H) by pn Hn.
  set (m1 := if uval (fld m "Data16") =? 65535 then m else set_fld m "Data" (VU (N.land (uval (fld m "Data16")) 65535))).
  set (m1' := if uval (fld m "Data16") =? 65535 then m' else set_fld m' "Data" (VU (N.land (uval (fld m "Data16")) 65535))).
  assert (H1 : msg_norm_eq m1 m1' /\ m_num m1 = c_MesgNumEvent).
  { unfold m1, m1'. destruct (_ =? _); [now split|]. split; [apply mne_set_fld; [exact H|pn Hn]|now rewrite set_fld_num]. }
  destruct H1 as [H1 Hn1]. clearbody m1 m1'.
  rewrite (mne_fld m1 m1' "Data" H1) by pn Hn1.
  destruct (_ =? 4294967295); [exact H1|].
  rewrite (mne_fld m1 m1' "Event" H1) by pn Hn1.
  destruct (_ =? c_EventSportPoint).
  { repeat (apply mne_set_fld; [|pn Hn1]). exact H1. }
  destruct (_ || _); [|exact H1].
  repeat (apply mne_set_fld; [|pn Hn1]). exact H1.
Qed.

(* ---- compressed_speed_distance: silent inside the domain *)
Definition csd_on (m : msg) : bool :=
  let csd := match fld m "CompressedSpeedDistance" with VList l => map uval l | _ => [] end in
  (Nat.eqb (List.length csd) 3) && existsb (fun v => negb (v =? 0xFF)) csd.

Lemma expand_csd_off g m : csd_on m = false -> expand_csd g m = (m, g).
Proof. intros H. unfold expand_csd. cbv zeta. unfold csd_on in H. cbv zeta in H. now rewrite H. Qed.

Definition inv255 (x : goval) : bool := goval_eqb x (VU 255).

Lemma inv255_uval x : inv255 x = true -> uval x = 255.
Proof. destruct x; cbn [inv255 goval_eqb]; try discriminate. intros H. apply N.eqb_eq in H. now subst. Qed.

Lemma strip_length bt : forall l, (List.length (strip_trailing bt l) <= List.length l)%nat.
Proof.
  induction l as [|x r IH]; [apply Nat.le_refl|]. cbn [strip_trailing].
  destruct (strip_trailing bt r) as [|y r'].
  - destruct (is_inv bt x); cbn [List.length]; lia.
  - cbn [List.length] in *. lia.
Qed.

Lemma strip_nil_all bt : forall l, strip_trailing bt l = [] -> forallb (is_inv bt) l = true.
Proof.
  induction l as [|x r IH]; [reflexivity|]. cbn [strip_trailing forallb].
  destruct (strip_trailing bt r) as [|y r']; [|discriminate].
  destruct (is_inv bt x); [intros _; now apply IH|discriminate].
Qed.

Lemma strip_prefix_inv bt : forall l k, forallb (is_inv bt) (firstn k l) = true ->
  strip_trailing bt l = [] \/ (k < List.length (strip_trailing bt l))%nat.
Proof.
  induction l as [|x r IH]; intros k H; [now left|].
  destruct k as [|k].
  - cbn [strip_trailing]. destruct (strip_trailing bt r); [destruct (is_inv bt x); [now left|right; cbn; lia]|right; cbn; lia].
  - cbn [firstn forallb] in H. apply andb_true_iff in H as [Hx Hr]. cbn [strip_trailing].
    destruct (IH k Hr) as [E|L].
    + rewrite E, Hx. now left.
    + destruct (strip_trailing bt r) as [|y r']; [cbn in L; lia|]. right. cbn [List.length] in *. lia.
Qed.

(* a list that strips to nothing or to more than three elements does not trigger the component *)
Definition quiet (l : list goval) : Prop :=
  strip_trailing base_byte l = [] \/ (3 < List.length (strip_trailing base_byte l))%nat.

Lemma is_inv_byte x : is_inv base_byte x = inv255 x.
Proof. reflexivity. Qed.

Lemma quiet_off l : quiet l ->
  (Nat.eqb (List.length (map uval l)) 3) && existsb (fun v => negb (v =? 0xFF)) (map uval l) = false.
Proof.
  intros [E|L].
  - apply strip_nil_all in E. replace (existsb _ _) with false; [apply andb_false_r|]. symmetry.
    clear -E. induction l as [|x r IH]; [reflexivity|]. cbn [forallb] in E. apply andb_true_iff in E as [Hx Hr].
    cbn [map existsb]. rewrite is_inv_byte in Hx. rewrite (inv255_uval x Hx). cbn [N.eqb Pos.eqb negb orb]. now apply IH.
  - pose proof (strip_length base_byte l). rewrite map_length.
    destruct (Nat.eqb_spec (List.length l) 3); [lia|reflexivity].
Qed.

Definition csd_field_ok : bool :=
  match sindex_of c_MesgNumRecord "CompressedSpeedDistance" with
  | Some i =>
      match pfield_of_sindex c_MesgNumRecord i with
      | Some pf => fit_array (pf_t pf) && negb (fit_base (pf_t pf) =? base_string) && (fit_base (pf_t pf) =? base_byte)
      | None => false
      end
  | None => false
  end.
Lemma csd_field_ok_true : csd_field_ok = true.
Proof. vm_compute. reflexivity. Qed.

Lemma csd_free_quiet m : m_num m = c_MesgNumRecord -> csd_free m = true -> quiet (elems (fld m "CompressedSpeedDistance")).
Proof.
  intros Hn H. unfold csd_free in H. rewrite Hn, N.eqb_refl in H.
  destruct (fld m "CompressedSpeedDistance"); try (left; reflexivity).
  cbn [elems]. unfold quiet. apply strip_prefix_inv. exact H.
Qed.

Lemma mne_csd_off m m' : msg_norm_eq m m' -> m_num m = c_MesgNumRecord ->
  quiet (elems (fld m "CompressedSpeedDistance")) -> csd_on m' = false.
Proof.
  intros [Hn' He] Hn Hq. unfold csd_on. cbv zeta.
  pose proof csd_field_ok_true as Hok. unfold csd_field_ok in Hok.
  assert (Hf : fld m' "CompressedSpeedDistance" = VOther \/ quiet (elems (fld m' "CompressedSpeedDistance"))).
  { revert Hq. unfold fld. rewrite Hn', Hn.
    destruct (sindex_of c_MesgNumRecord "CompressedSpeedDistance") as [i|]; [|discriminate].
    destruct (pfield_of_sindex c_MesgNumRecord i) as [pf|] eqn:Epf; [|discriminate].
    apply andb_true_iff in Hok as [Hok Hb]. apply andb_true_iff in Hok as [Ha Hs]. apply negb_true_iff in Hs.
    apply N.eqb_eq in Hb.
    assert (Hlen : List.length (m_fields m') = List.length (m_fields m)).
    { rewrite <- (norm_msg_length m'), <- (norm_msg_length m). now rewrite He. }
    destruct (Nat.lt_ge_cases i (List.length (m_fields m))) as [Hi|Hi].
    - intros Hq. right.
      assert (E : nth i (m_fields (norm_msg m')) VOther = nth i (m_fields (norm_msg m)) VOther) by now rewrite He.
      unfold norm_msg in E. cbn [m_fields] in E. rewrite !map_fields_nth in E by (rewrite ?Hlen; exact Hi).
      cbn [Nat.add] in E. rewrite Hn', Hn, Epf in E. unfold norm_field in E. rewrite Ha, Hs, Hb in E.
      unfold quiet in *. inversion E as [E1]. rewrite E1. exact Hq.
    - intros _. left. apply nth_overflow. now rewrite Hlen. }
  destruct Hf as [-> | Hq']; [reflexivity|].
  destruct (fld m' "CompressedSpeedDistance"); try reflexivity. cbn [elems] in Hq'. now apply quiet_off.
Qed.

(* ---- the accumulators of total_cycles and accumulated_power: mask 0, value 0 (new(uint32Accumulator)) *)
Definition acc0 (o : option accum) : Prop :=
  match o with None => True | Some a => ac_mask a = 0 /\ ac_value a = 0 end.
Definition ginv (g : gstate) : Prop := acc0 (g_cycles g) /\ acc0 (g_power g).

Lemma ginv_init : ginv g_init.
Proof. split; exact I. Qed.

Lemma accumulate_acc0 o v : acc0 o ->
  fst (accumulate (get_acc o zero_accum) v) = 0 /\ acc0 (Some (snd (accumulate (get_acc o zero_accum) v))).
Proof.
  intros H. assert (Ha : ac_mask (get_acc o zero_accum) = 0 /\ ac_value (get_acc o zero_accum) = 0).
  { destruct o as [a|]; [exact H|split; reflexivity]. }
  destruct Ha as [Hm Hv]. unfold accumulate. rewrite Hm, Hv, N.land_0_r. cbn [fst snd acc0 ac_mask ac_value].
  repeat split; reflexivity.
Qed.

Lemma expand_cycles_ginv g m : ginv g ->
  fst (expand_cycles g m) = fst (expand_cycles g_init m) /\ ginv (snd (expand_cycles g m)).
Proof.
  intros [Hc Hp]. unfold expand_cycles. cbv zeta. destruct (_ =? _); cbn [fst snd]; [split; [reflexivity|now split]|].
  destruct (accumulate_acc0 (g_cycles g) (N.land (uval (fld m "Cycles")) 255) Hc) as [E1 E2].
  destruct (accumulate_acc0 (g_cycles g_init) (N.land (uval (fld m "Cycles")) 255) I) as [E3 _].
  rewrite E1, E3. split; [reflexivity|]. split; cbn [g_cycles g_power]; assumption.
Qed.

Lemma expand_power_ginv g m : ginv g ->
  fst (expand_power g m) = fst (expand_power g_init m) /\ ginv (snd (expand_power g m)).
Proof.
  intros [Hc Hp]. unfold expand_power. cbv zeta. destruct (_ =? _); cbn [fst snd]; [split; [reflexivity|now split]|].
  destruct (accumulate_acc0 (g_power g) (N.land (uval (fld m "CompressedAccumulatedPower")) 65535) Hp) as [E1 E2].
  destruct (accumulate_acc0 (g_power g_init) (N.land (uval (fld m "CompressedAccumulatedPower")) 65535) I) as [E3 _].
  rewrite E1, E3. split; [reflexivity|]. split; cbn [g_cycles g_power]; assumption.
Qed.

Lemma mne_expand_cycles g m m' : msg_norm_eq m m' -> m_num m = c_MesgNumRecord ->
  msg_norm_eq (fst (expand_cycles g m)) (fst (expand_cycles g m')).
Proof.
  intros H Hn. unfold expand_cycles. cbv zeta. rewrite (mne_fld m m' "Cycles" H) by pn Hn.
  destruct (_ =? _); cbn [fst]; [exact H|]. apply mne_set_fld; [exact H|pn Hn].
Qed.

Lemma mne_expand_power g m m' : msg_norm_eq m m' -> m_num m = c_MesgNumRecord ->
  msg_norm_eq (fst (expand_power g m)) (fst (expand_power g m')).
Proof.
  intros H Hn. unfold expand_power. cbv zeta. rewrite (mne_fld m m' "CompressedAccumulatedPower" H) by pn Hn.
  destruct (_ =? _); cbn [fst]; [exact H|]. apply mne_set_fld; [exact H|pn Hn].
Qed.

Definition distinct_names (mn : N) (a b : string) : bool :=
  match sindex_of mn a, sindex_of mn b with Some i, Some j => negb (Nat.eqb i j) | _, _ => false end.

Lemma widen16_fld_other m src dst n : distinct_names (m_num m) dst n = true ->
  fld (widen16 m src dst) n = fld m n.
Proof.
  unfold distinct_names. destruct (sindex_of (m_num m) dst) as [i|] eqn:Hs; [|discriminate].
  destruct (sindex_of (m_num m) n) as [j|] eqn:Hs'; [|discriminate]. intros Hne. apply negb_true_iff, Nat.eqb_neq in Hne.
  unfold widen16. destruct (_ =? _); [reflexivity|].
  unfold fld, set_fld. rewrite Hs. cbn [m_num m_fields]. rewrite Hs'. now apply nth_set_nth_neq.
Qed.

Lemma expand_record_off g m :
  csd_on (widen16 (widen16 m "Altitude" "EnhancedAltitude") "Speed" "EnhancedSpeed") = false ->
  expand_record g m =
  let m2 := widen16 (widen16 m "Altitude" "EnhancedAltitude") "Speed" "EnhancedSpeed" in
  expand_power (snd (expand_cycles g m2)) (fst (expand_cycles g m2)).
Proof. intros H. unfold expand_record. cbv zeta. now rewrite (expand_csd_off g _ H). Qed.

Lemma mne_expand_record g m m' : msg_norm_eq m m' -> m_num m = c_MesgNumRecord -> csd_free m = true -> ginv g ->
  msg_norm_eq (fst (expand_record g_init m)) (fst (expand_record g m')) /\ ginv (snd (expand_record g m')).
Proof.
  intros H Hn Hc Hg.
  set (m2 := widen16 (widen16 m "Altitude" "EnhancedAltitude") "Speed" "EnhancedSpeed").
  set (m2' := widen16 (widen16 m' "Altitude" "EnhancedAltitude") "Speed" "EnhancedSpeed").
  assert (H2 : msg_norm_eq m2 m2') by (unfold m2, m2'; repeat (apply mne_widen16; [|pn Hn|pn Hn]); exact H).
  assert (Hn2 : m_num m2 = c_MesgNumRecord) by (unfold m2; now rewrite !widen16_num).
  assert (Hq : quiet (elems (fld m2 "CompressedSpeedDistance"))).
  { unfold m2.
    rewrite (widen16_fld_other _ "Speed" "EnhancedSpeed" "CompressedSpeedDistance") by pn Hn.
    rewrite (widen16_fld_other _ "Altitude" "EnhancedAltitude" "CompressedSpeedDistance") by pn Hn.
    now apply csd_free_quiet. }
  pose proof (mne_csd_off m2 m2 (mne_refl m2) Hn2 Hq) as Hoff.
  pose proof (mne_csd_off m2 m2' H2 Hn2 Hq) as Hoff'.
  rewrite (expand_record_off g_init m Hoff), (expand_record_off g m' Hoff'). cbv zeta. fold m2 m2'.
  destruct (expand_cycles_ginv g m2' Hg) as [E1 G1].
  destruct (expand_cycles_ginv g_init m2 ginv_init) as [_ G0].
  destruct (expand_power_ginv _ (fst (expand_cycles g m2')) G1) as [E2 G2].
  destruct (expand_power_ginv _ (fst (expand_cycles g_init m2)) G0) as [E3 _].
  split; [|exact G2]. rewrite E2, E3, E1.
  apply mne_expand_power; [apply mne_expand_cycles; assumption|].
  now rewrite expand_cycles_num.
Qed.

(* expandComponents on the decoded message in any reachable accumulator state vs on the original on fresh ones *)
Lemma mne_expand_components g m m' : msg_norm_eq m m' -> csd_free m = true -> ginv g -> expands (m_num m) = true ->
  exists me g0 me' g', expand_components g_init m = Some (me, g0) /\ expand_components g m' = Some (me', g') /\
    msg_norm_eq me me' /\ ginv g'.
Proof.
  intros H Hc Hg He. pose proof (proj1 H) as Hn'. unfold expand_components. cbv zeta. rewrite Hn'.
  destruct ((m_num m =? c_MesgNumSession) || (m_num m =? c_MesgNumLap)) eqn:E1.
  { do 4 eexists. split; [reflexivity|]. split; [reflexivity|]. split; [|exact Hg].
    apply mne_expand_session_lap; [exact H|]. apply orb_true_iff in E1 as [E|E]; apply N.eqb_eq in E; auto. }
  destruct (m_num m =? c_MesgNumRecord) eqn:E2.
  { apply N.eqb_eq in E2. destruct (mne_expand_record g m m' H E2 Hc Hg) as [R1 R2].
    exists (fst (expand_record g_init m)), (snd (expand_record g_init m)), (fst (expand_record g m')), (snd (expand_record g m')).
    rewrite <- !surjective_pairing. split; [reflexivity|]. split; [reflexivity|]. split; assumption. }
  destruct (m_num m =? c_MesgNumEvent) eqn:E3.
  { do 4 eexists. split; [reflexivity|]. split; [reflexivity|]. split; [|exact Hg].
    apply mne_expand_event; [exact H|now apply N.eqb_eq]. }
  destruct (m_num m =? c_MesgNumSegmentLap) eqn:E4.
  { do 4 eexists. split; [reflexivity|]. split; [reflexivity|]. split; [|exact Hg].
    apply mne_expand_segment_lap; [exact H|now apply N.eqb_eq]. }
  exfalso. unfold expands in He. apply orb_false_elim in E1 as [E1a E1b].
  rewrite E2, E1b, E1a, E4, E3 in He. discriminate.
Qed.

(* ================================================================ 4. what the container stores *)
(* the message the comparator expects in the slot that holds m's type *)
Definition exp_of (ft : N) (m : msg) : msg :=
  match find_slot ft (m_num m) with
  | Some (i, _) =>
      if Nat.ltb i NCOMMON then m
      else if expands (m_num m) then match expand_components g_init m with Some (x, _) => x | None => m end else m
  | None => m
  end.

Lemma stored_rel ft g m m' : msg_norm_eq m m' -> csd_free m = true -> ginv g ->
  exists s g', stored ft g m' = Some (s, g') /\ msg_norm_eq (exp_of ft m) s /\ ginv g'.
Proof.
  intros H Hc Hg. unfold stored, exp_of. rewrite (proj1 H).
  destruct (find_slot ft (m_num m)) as [[i multi]|]; [|exists m', g; auto].
  destruct (Nat.ltb i NCOMMON); [exists m', g; auto|].
  destruct (expands (m_num m)) eqn:Ee; [|exists m', g; auto].
  destruct (mne_expand_components g m m' H Hc Hg Ee) as (me & g0 & me' & g' & E1 & E2 & R & G).
  rewrite E1, E2. exists me', g'. auto.
Qed.

Lemma stored_seq_rel ft : forall ms ms' g, Forall2 msg_norm_eq ms ms' -> Forall (fun m => csd_free m = true) ms -> ginv g ->
  exists sm, stored_seq ft g ms' = Some sm /\ Forall2 (fun m s => msg_norm_eq (exp_of ft m) s) ms sm.
Proof.
  induction ms as [|m r IH]; intros ms' g HF Hc Hg; inversion HF as [|? m' ? r' Hm Hr]; subst.
  - exists []. split; [reflexivity|constructor].
  - inversion Hc as [|? ? Hc1 Hc2]; subst. cbn [stored_seq].
    destruct (stored_rel ft g m m' Hm Hc1 Hg) as (s & g' & Es & Rs & Gs). rewrite Es.
    destruct (IH r' g' Hr Hc2 Gs) as (sm & Esm & Rsm). rewrite Esm.
    exists (s :: sm). split; [reflexivity|constructor; assumption].
Qed.

Lemma exp_of_num ft m : m_num (exp_of ft m) = m_num m.
Proof.
  unfold exp_of. destruct (find_slot ft (m_num m)) as [[i multi]|]; [|reflexivity].
  destruct (Nat.ltb i NCOMMON); [reflexivity|]. destruct (expands (m_num m)); [|reflexivity].
  destruct (expand_components g_init m) as [[x g]|] eqn:E; [|reflexivity]. exact (expand_components_num _ _ _ _ E).
Qed.

(* in the slot that holds its type, this is the comparator's expected message *)
Lemma expected_msg_exp_of ft i multi m : In ft valid_file_types -> find_slot ft (m_num m) = Some (i, multi) ->
  expected_msg ft i m = exp_of ft m.
Proof.
  intros Hft Hs. unfold expected_msg, exp_of, slot_expands. rewrite (routes_char ft (m_num m) Hft).
  unfold expected_routes. rewrite Hs. cbn [existsb]. rewrite Nat.eqb_refl. cbn [andb]. rewrite orb_false_r.
  destruct (Nat.ltb i NCOMMON); [reflexivity|]. destruct (expands (m_num m)); reflexivity.
Qed.

(* ================================================================ 5. the messages of the File, slot by slot *)
Lemma Forall2_filter {A B} (P : A -> B -> Prop) (p : A -> bool) (q : B -> bool) :
  (forall x y, P x y -> p x = q y) -> forall a b, Forall2 P a b -> Forall2 P (filter p a) (filter q b).
Proof.
  intros Hpq. induction 1 as [|x y a b Hxy Hab IH]; [constructor|]. cbn [filter].
  rewrite <- (Hpq x y Hxy). destruct (p x); [constructor; assumption|assumption].
Qed.

Lemma Forall2_length_eq {A B} (P : A -> B -> Prop) a b : Forall2 P a b -> List.length a = List.length b.
Proof. induction 1; cbn [List.length]; congruence. Qed.

Lemma slots_wf_length : forall descs k slots, slots_wf k descs slots = true -> List.length slots = List.length descs.
Proof.
  induction descs as [|[[nm multi] mn] dr IH]; intros k [|s sr] H; cbn [slots_wf] in H; try discriminate; [reflexivity|].
  apply andb_true_iff in H as [_ H]. cbn [List.length]. f_equal. eapply IH; eassumption.
Qed.

Lemma slots_wf_nth : forall descs k slots j name multi held, slots_wf k descs slots = true ->
  nth_error descs j = Some (name, multi, held) ->
  forallb (msg_wf held) (nth j slots []) = true /\
  (multi || Nat.leb (List.length (nth j slots [])) 1) = true /\
  ((k + j = 0)%nat -> List.length (nth j slots []) = 1%nat).
Proof.
  induction descs as [|[[nm mu] mn] dr IH]; intros k [|s sr] j name multi held H Hn; cbn [slots_wf] in H; try discriminate;
    [destruct j; discriminate|].
  apply andb_true_iff in H as [H Hrest]. apply andb_true_iff in H as [H H0]. apply andb_true_iff in H as [Hm Hc].
  destruct j as [|j]; cbn [nth_error nth] in *.
  - inversion Hn; subst. split; [exact Hm|]. split; [exact Hc|]. intros E. rewrite Nat.add_0_r in E. subst k.
    cbn [Nat.eqb] in H0. now apply Nat.eqb_eq.
  - destruct (IH (S k) sr j name multi held Hrest Hn) as (A & B & _). split; [exact A|]. split; [exact B|]. lia.
Qed.

Lemma filter_all_num held : forall s, forallb (msg_wf held) s = true -> filter (fun m => m_num m =? held) s = s.
Proof.
  induction s as [|m r IH]; intros H; [reflexivity|]. cbn [forallb] in H. apply andb_true_iff in H as [Hm Hr].
  unfold msg_wf in Hm. apply andb_true_iff in Hm as [Hn _]. cbn [filter]. rewrite Hn. f_equal. now apply IH.
Qed.

Lemma filter_none_num mn held : mn <> held -> forall s, forallb (msg_wf mn) s = true -> filter (fun m => m_num m =? held) s = [].
Proof.
  intros Hne. induction s as [|m r IH]; intros H; [reflexivity|]. cbn [forallb] in H. apply andb_true_iff in H as [Hm Hr].
  unfold msg_wf in Hm. apply andb_true_iff in Hm as [Hn _]. apply N.eqb_eq in Hn. cbn [filter]. rewrite Hn.
  destruct (N.eqb_spec mn held); [contradiction|]. now apply IH.
Qed.

Lemma filter_visible_none held : forall descs k slots, slots_wf k descs slots = true ->
  ~ In held (map (fun s : string * bool * N => snd s) descs) ->
  filter (fun m => m_num m =? held) (visible k slots) = [].
Proof.
  induction descs as [|[[nm mu] mn] dr IH]; intros k [|s sr] H Hnot; cbn [slots_wf] in H; try discriminate; [reflexivity|].
  apply andb_true_iff in H as [H Hrest]. apply andb_true_iff in H as [H _]. apply andb_true_iff in H as [Hm _].
  cbn [visible]. rewrite filter_app. cbn [map snd In] in Hnot.
  rewrite (IH (S k) sr Hrest) by tauto. rewrite app_nil_r.
  destruct (Nat.eqb k 3 || Nat.eqb k 4); [reflexivity|]. apply (filter_none_num mn held); [tauto|exact Hm].
Qed.

Lemma filter_visible held : forall descs k slots j name multi, slots_wf k descs slots = true ->
  NoDup (map (fun s : string * bool * N => snd s) descs) ->
  nth_error descs j = Some (name, multi, held) ->
  filter (fun m => m_num m =? held) (visible k slots) = if hidden_slot (k + j) then [] else nth j slots [].
Proof.
  induction descs as [|[[nm mu] mn] dr IH]; intros k [|s sr] j name multi H Hnd Hn; cbn [slots_wf] in H; try discriminate;
    [destruct j; discriminate|].
  apply andb_true_iff in H as [H Hrest]. apply andb_true_iff in H as [H _]. apply andb_true_iff in H as [Hm _].
  cbn [map snd] in Hnd. inversion Hnd as [|? ? Hnot Hnd']; subst.
  cbn [visible]. rewrite filter_app. destruct j as [|j]; cbn [nth_error nth] in *.
  - inversion Hn; subst. rewrite (filter_visible_none held dr (S k) sr Hrest Hnot), app_nil_r, Nat.add_0_r.
    unfold hidden_slot. destruct (Nat.eqb k 3 || Nat.eqb k 4); [reflexivity|]. now apply filter_all_num.
  - rewrite (IH (S k) sr j name multi Hrest Hnd' Hn). rewrite Nat.add_succ_r. cbn [Nat.add].
    replace (filter _ (if Nat.eqb k 3 || Nat.eqb k 4 then [] else s)) with (@nil msg); [reflexivity|].
    symmetry. destruct (Nat.eqb k 3 || Nat.eqb k 4); [reflexivity|]. apply (filter_none_num mn held); [|exact Hm].
    intros ->. apply Hnot. apply nth_error_In in Hn. change held with (snd (name, multi, held)). now apply in_map.
Qed.

Lemma slots_eq_nth cmp : forall a b k, List.length a = List.length b ->
  (forall i, (i < List.length a)%nat -> hidden_slot (k + i) = false -> forall2b (cmp (k + i)%nat) (nth i a []) (nth i b []) = true) ->
  slots_eq cmp k a b = true.
Proof.
  induction a as [|s ar IH]; intros [|s' br] k Hl H; cbn [List.length] in Hl; try discriminate; [reflexivity|].
  cbn [slots_eq]. apply andb_true_iff. split.
  - destruct (hidden_slot k) eqn:Eh; [reflexivity|]. specialize (H 0%nat ltac:(cbn [List.length]; lia)).
    rewrite Nat.add_0_r in H. exact (H Eh).
  - apply IH; [now inversion Hl|]. intros i Hi Hh. specialize (H (S i) ltac:(cbn [List.length]; lia)).
    rewrite Nat.add_succ_r in H. exact (H Hh).
Qed.

Lemma forall2b_Forall2 {A B} (p : A -> B -> bool) : forall a b, Forall2 (fun x y => p x y = true) a b -> forall2b p a b = true.
Proof. induction 1 as [|x y a b Hxy Hab IH]; [reflexivity|]. cbn [forall2b]. now rewrite Hxy, IH. Qed.

Lemma Forall2_impl {A B} (P Q : A -> B -> Prop) : (forall x y, P x y -> Q x y) -> forall a b, Forall2 P a b -> Forall2 Q a b.
Proof. intros HPQ. induction 1; constructor; auto. Qed.

Lemma Forall2_impl_in {A B} (P Q : A -> B -> Prop) : forall a b, (forall x y, In x a -> P x y -> Q x y) -> Forall2 P a b -> Forall2 Q a b.
Proof.
  intros a b HPQ H. induction H as [|x y a b Hxy Hab IH]; constructor.
  - apply HPQ; [now left|exact Hxy].
  - apply IH. intros x0 y0 Hin. apply HPQ. now right.
Qed.

(* ================================================================ 6. facts about the 17 containers *)
Lemma ft_entry_valid ft cn sl : ft_entry ft = Some (true, cn, sl) -> In ft valid_file_types.
Proof.
  intros Ee. unfold ft_entry in Ee.
  destruct (find (fun e => fst (fst (fst e)) =? ft) file_types) as [[[[ft0 ok0] cn0] sl0]|] eqn:Ef; [|discriminate].
  inversion Ee; subst ok0 cn0 sl0. apply find_some in Ef. destruct Ef as [Hin Hk]. cbn [fst] in Hk. apply N.eqb_eq in Hk. subst ft0.
  pose proof init_ok_true as Hok. unfold init_ok in Hok.
  do 5 (apply andb_prop in Hok; destruct Hok as [Hok _]).
  rewrite forallb_forall in Hok. specialize (Hok _ Hin). cbn beta iota in Hok. apply eqb_prop in Hok.
  unfold ft_valid in Hok. symmetry in Hok. apply existsb_exists in Hok. destruct Hok as (x & Hx & Hxe).
  apply N.eqb_eq in Hxe. now subst.
Qed.

Definition head_ok (ft : N) : bool :=
  match slots_of ft with
  | (_, false, held) :: _ => (held =? c_MesgNumFileId) && Nat.leb 5 (List.length (slots_of ft))
  | _ => false
  end.
Lemma heads_ok : forallb head_ok valid_file_types = true.
Proof. vm_compute. reflexivity. Qed.

Lemma slots_head ft : In ft valid_file_types ->
  (exists nm rest, slots_of ft = (nm, false, c_MesgNumFileId) :: rest) /\ (5 <= List.length (slots_of ft))%nat.
Proof.
  intros Hft. pose proof heads_ok as H. rewrite forallb_forall in H. specialize (H ft Hft). unfold head_ok in H.
  destruct (slots_of ft) as [|[[nm [|]] held] rest]; try discriminate.
  apply andb_true_iff in H as [H1 H2]. apply N.eqb_eq in H1. apply Nat.leb_le in H2. subst held. split; [eauto|exact H2].
Qed.

Lemma common_routes_file_id : common_routes c_MesgNumFileId = [(0%nat, ROverwrite, false)].
Proof. vm_compute. reflexivity. Qed.

Lemma plain_file_id_type : plain_name c_MesgNumFileId "Type" = true.
Proof. vm_compute. reflexivity. Qed.

(* ---- every accumulator state File.add reaches keeps the two mask-0 accumulators at 0 *)
Lemma some_pair_inj2 {A B} (a a' : A) (b b' : B) : Some (a, b) = Some (a', b') -> b = b'.
Proof. intros H; inversion H; auto. Qed.
Lemma some_snd_inj {A B} (p : A * B) (a' : A) (b' : B) : Some p = Some (a', b') -> snd p = b'.
Proof. intros H; inversion H; auto. Qed.

Lemma expand_record_ginv g m : ginv g -> ginv (snd (expand_record g m)).
Proof.
  intros Hg. unfold expand_record. cbv zeta.
  set (m2 := widen16 (widen16 m "Altitude" "EnhancedAltitude") "Speed" "EnhancedSpeed").
  assert (G1 : ginv (snd (expand_csd g m2))).
  { unfold expand_csd. cbv zeta. destruct (_ && _); cbn [snd]; [|exact Hg]. destruct Hg as [A B]. split; assumption. }
  destruct (expand_cycles_ginv _ (fst (expand_csd g m2)) G1) as [_ G2].
  destruct (expand_power_ginv _ (fst (expand_cycles (snd (expand_csd g m2)) (fst (expand_csd g m2)))) G2) as [_ G3].
  exact G3.
Qed.

Lemma expand_components_ginv g m m' g' : expand_components g m = Some (m', g') -> ginv g -> ginv g'.
Proof.
  unfold expand_components. cbv zeta.
  destruct (_ || _); [intros H Hg; apply some_pair_inj2 in H; now subst g'|].
  destruct (_ =? c_MesgNumRecord).
  { intros H Hg. apply some_snd_inj in H. subst g'. now apply expand_record_ginv. }
  destruct (_ =? c_MesgNumEvent); [intros H Hg; apply some_pair_inj2 in H; now subst g'|].
  destruct (_ =? c_MesgNumSegmentLap); [intros H Hg; apply some_pair_inj2 in H; now subst g'|].
  destruct (_ =? c_MesgNumSegmentPoint); [intros H Hg; apply some_pair_inj2 in H; now subst g'|].
  discriminate.
Qed.

Lemma apply_routes_ginv : forall rs m slots g slots' g', apply_routes rs m slots g = Some (slots', g') -> ginv g -> ginv g'.
Proof.
  induction rs as [|[[i mode] exp] rest IH]; intros m slots g slots' g' H Hg; cbn [apply_routes] in H.
  - inversion H; subst. exact Hg.
  - destruct (if exp then expand_components g m else Some (m, g)) as [[m1 g1]|] eqn:E; [|discriminate].
    eapply IH; [exact H|]. destruct exp; [eapply expand_components_ginv; eassumption|]. inversion E; subst. exact Hg.
Qed.

Lemma file_add_ginv f g m f' g' : file_add f g m = AddOk f' g' -> ginv g -> ginv g'.
Proof.
  unfold file_add. destruct (f_inited f) as [ft|].
  - destruct (apply_routes _ m (f_slots f) g) as [[slots g1]|] eqn:E; [|discriminate].
    intros H Hg; inversion H; subst. eapply apply_routes_ginv; eassumption.
  - destruct (common_routes (m_num m)) as [|r rs]; [discriminate|].
    destruct (apply_routes _ m (f_slots f) g) as [[slots g1]|] eqn:E; [|discriminate].
    intros H Hg; inversion H; subst. eapply apply_routes_ginv; eassumption.
Qed.

Lemma adds_ginv : forall ms f g f' g', adds f g ms = AddOk f' g' -> ginv g -> ginv g'.
Proof.
  induction ms as [|m r IH]; intros f g f' g' H Hg; cbn [adds] in H.
  - inversion H; subst. exact Hg.
  - destruct (file_add f g m) as [f1 g1|w] eqn:Ea; [|discriminate].
    eapply IH; [exact H|]. eapply file_add_ginv; eassumption.
Qed.

Lemma adds_no_panic ft : In ft valid_file_types -> forall ms f g, f_inited f = Some ft ->
  exists f' g', adds f g ms = AddOk f' g' /\ f_inited f' = Some ft /\ List.length (f_slots f') = List.length (f_slots f).
Proof.
  intros Hft. induction ms as [|m r IH]; intros f g Hi; cbn [adds].
  - exists f, g. auto.
  - destruct (add_no_panic ft Hft f g m Hi) as (f1 & g1 & Ea & Hi1 & Hl1). rewrite Ea.
    destruct (IH f1 g1 Hi1) as (f' & g' & Ea' & Hi' & Hl'). exists f', g'. split; [exact Ea'|]. split; [exact Hi'|congruence].
Qed.

(* ---- start_file on a file_id message naming a valid type *)
Definition started (h : header) (ft : N) (m0 : msg) (n : nat) : file :=
  mk_file h 0 ([[m0]; []; []; []; []] ++ repeat [] n) (Some ft) None None.

Lemma start_file_ok h g m0 cn descs : m_num m0 = c_MesgNumFileId ->
  ft_entry (uval (fld m0 "Type")) = Some (true, cn, descs) ->
  start_file h g m0 = Some (started h (uval (fld m0 "Type")) m0 (List.length descs - NCOMMON), g).
Proof.
  intros Hn He. unfold start_file, file_add, new_file. cbn [f_inited f_slots f_header f_crc f_unkm f_unkf].
  rewrite Hn, common_routes_file_id. cbn [apply_routes set_nth].
  unfold file_init, file_type. cbn [f_inited f_slots f_header f_crc f_unkm f_unkf nth]. rewrite He.
  reflexivity.
Qed.

Lemma nth_repeat_nil {A} n k : nth n (repeat (@nil A) k) [] = [].
Proof. revert n. induction k as [|k IH]; intros [|n]; cbn; auto. Qed.

Lemma started_slot h ft m0 n i : i <> 0%nat -> nth i (f_slots (started h ft m0 n)) [] = [].
Proof.
  intros Hi. unfold started. cbn [f_slots].
  destruct i as [|[|[|[|[|i]]]]]; cbn [app nth]; try reflexivity; [contradiction|apply nth_repeat_nil].
Qed.

Lemma filter_cons_nil {A} (p : A -> bool) x l : filter p (x :: l) = [] -> p x = false /\ filter p l = [].
Proof. cbn [filter]. destruct (p x); [discriminate|auto]. Qed.

Lemma slot_contents_empty multi held sm : filter (fun m => m_num m =? held) sm = [] -> slot_contents multi held [] sm = [].
Proof. intros H. unfold slot_contents. rewrite H. destruct multi; reflexivity. Qed.

Lemma slot_contents_placed multi held sm :
  (multi || Nat.leb (List.length (filter (fun m => m_num m =? held) sm)) 1) = true ->
  slot_contents multi held [] sm = filter (fun m => m_num m =? held) sm.
Proof.
  intros H. unfold slot_contents. destruct multi; [reflexivity|]. cbn [orb] in H.
  destruct (filter _ sm) as [|x [|y r]]; [reflexivity|reflexivity|discriminate].
Qed.

Lemma cmp6_from_rel ft i multi x y : In ft valid_file_types -> find_slot ft (m_num x) = Some (i, multi) ->
  msg_norm_eq (exp_of ft x) y -> cmp6 ft i x y = true.
Proof.
  intros Hft Hs [_ He]. unfold cmp6. rewrite (expected_msg_exp_of ft i multi x Hft Hs), He. apply msg_eqb_refl.
Qed.

(* ================================================================ 7. the round trip through routing *)
Lemma Forall2_cons_l {A B} (R : A -> B -> Prop) a l l' : Forall2 R (a :: l) l' ->
  exists b r, l' = b :: r /\ R a b /\ Forall2 R l r.
Proof. intros H. inversion H; subst. eauto. Qed.

Lemma some_cons_inj {A} (a b : A) l r : a :: l = b :: r -> b = a /\ l = r.
Proof. intros H; inversion H; auto. Qed.

Lemma Forall2_nil_l {A B} (R : A -> B -> Prop) l' : Forall2 R [] l' -> l' = [].
Proof. intros H. now inversion H. Qed.

Theorem route_roundtrip_g : forall f0 msgs' h g,
  wf_file f0 = true -> in_domain f0 = true -> Forall2 msg_norm_eq (file_msgs f0) msgs' -> ginv g ->
  exists f2 g1 f g',
    start_file h g (hd dummy_msg msgs') = Some (f2, g1) /\
    route_msgs h g msgs' = Some (f, g') /\ ginv g' /\
    forall file', f_slots file' = f_slots f -> f_inited file' = f_inited f -> content_eq6 f0 file' = true.
Proof.
  intros f0 msgs' h g Hwf Hdom HF Hg.
  unfold wf_file in Hwf. destruct (f_inited f0) as [ft|] eqn:Ei; [|discriminate].
  apply andb_true_iff in Hwf as [Eft Hwf]. apply N.eqb_eq in Eft.
  destruct (ft_entry ft) as [[[ok cn] descs]|] eqn:Ee; [|discriminate]. destruct ok; [|discriminate].
  pose proof (ft_entry_valid ft cn descs Ee) as Hft.
  assert (Hso : slots_of ft = descs) by (unfold slots_of; now rewrite Ee).
  destruct (slots_head ft Hft) as [(nm0 & drest & Hhead) Hlen5]. rewrite Hso in Hhead, Hlen5.
  pose proof (slots_nodup ft Hft) as Hnd. rewrite Hso in Hnd.
  pose proof (slots_wf_length _ _ _ Hwf) as Hlen.
  assert (Hd0 : nth_error descs 0 = Some (nm0, false, c_MesgNumFileId)) by (rewrite Hhead; reflexivity).
  destruct (slots_wf_nth descs 0 (f_slots f0) 0 nm0 false c_MesgNumFileId Hwf Hd0) as (Hw0 & _ & Hl0).
  specialize (Hl0 eq_refl).
  (* the file_id message *)
  destruct (f_slots f0) as [|s0 sr] eqn:Eslots; [cbn [List.length] in Hlen; lia|].
  cbn [nth] in Hw0, Hl0. destruct s0 as [|m0 [|? ?]]; try discriminate. clear Hl0.
  cbn [forallb] in Hw0. apply andb_true_iff in Hw0 as [Hw0 _]. unfold msg_wf in Hw0.
  apply andb_true_iff in Hw0 as [Hn0 _]. apply N.eqb_eq in Hn0.
  assert (Hfm : file_msgs f0 = visible 0 (f_slots f0)) by (unfold file_msgs; now rewrite visible_0).
  rewrite Eslots in Hfm.
  assert (Hvis : visible 0 ([m0] :: sr) = m0 :: visible 1 sr) by reflexivity.
  rewrite Hfm, Hvis in HF.
  apply Forall2_cons_l in HF as (m0' & rest' & -> & Hm0 & Hrest).
  pose proof (proj1 Hm0) as Hn0'. rewrite Hn0 in Hn0'.
  assert (Htype : uval (fld m0' "Type") = ft).
  { rewrite (mne_fld m0 m0' "Type" Hm0) by (rewrite Hn0; exact plain_file_id_type).
    rewrite Eft. unfold file_type. rewrite Eslots. reflexivity. }
  (* start *)
  pose proof (start_file_ok h g m0' cn descs Hn0') as Hstart. rewrite Htype in Hstart. specialize (Hstart Ee).
  set (f2 := started h ft m0' (List.length descs - NCOMMON)) in *.
  assert (Hi2 : f_inited f2 = Some ft) by reflexivity.
  assert (Hs2 : forall i, i <> 0%nat -> nth i (f_slots f2) [] = []) by (intros i; apply started_slot).
  assert (Hl2 : List.length (f_slots f2) = List.length descs).
  { unfold f2, started. cbn [f_slots]. rewrite app_length, repeat_length. unfold NCOMMON. cbn [List.length]. lia. }
  destruct (adds_no_panic ft Hft rest' f2 g Hi2) as (f & g' & Hadds & Hif & Hlf).
  exists f2, g, f, g'. cbn [hd]. split; [exact Hstart|].
  split; [unfold route_msgs; now rewrite Hstart, Hadds|].
  split; [eapply adds_ginv; eassumption|].
  (* the slots *)
  destruct (route_spec ft Hft rest' f2 g f g' Hi2 ltac:(now rewrite Hso) Hadds) as (sm & Hsm & Hslots).
  rewrite Hso in Hslots.
  assert (Hcsd : Forall (fun m => csd_free m = true) (m0 :: visible 1 sr)).
  { unfold in_domain in Hdom. rewrite Hfm, Hvis in Hdom. apply Forall_forall. intros x Hx.
    rewrite forallb_forall in Hdom. specialize (Hdom x Hx). unfold msg_in_domain in Hdom.
    now apply andb_true_iff in Hdom as [_ Hdom]. }
  destruct (stored_seq_rel ft (m0 :: visible 1 sr) (m0' :: rest') g (Forall2_cons _ _ Hm0 Hrest) Hcsd Hg) as (sma & Hsma & Hrel).
  assert (Hfs0 : find_slot ft c_MesgNumFileId = Some (0%nat, false)).
  { apply (find_slot_iff ft _ _ _ Hft). rewrite Hso. eauto. }
  cbn [stored_seq] in Hsma.
  assert (Est0 : stored ft g m0' = Some (m0', g)).
  { unfold stored. rewrite Hn0', Hfs0. reflexivity. }
  rewrite Est0, Hsm in Hsma. inversion Hsma; subst sma. clear Hsma.
  assert (Hnum : forall x y, msg_norm_eq (exp_of ft x) y -> (m_num x =? c_MesgNumFileId) = (m_num y =? c_MesgNumFileId) /\
                             forall held, (m_num x =? held) = (m_num y =? held)).
  { intros x y [Hxy _]. rewrite exp_of_num in Hxy. rewrite Hxy. auto. }
  assert (Hslot : forall i name multi held, nth_error descs i = Some (name, multi, held) ->
            Forall2 (fun m s => msg_norm_eq (exp_of ft m) s) (if hidden_slot i then [] else nth i ([m0] :: sr) [])
                    (filter (fun m => m_num m =? held) (m0' :: sm))).
  { intros i name multi held Hd.
    pose proof (filter_visible held descs 0 ([m0] :: sr) i name multi Hwf Hnd Hd) as Efv. cbn [Nat.add] in Efv.
    rewrite <- Efv, Hvis.
    apply Forall2_filter; [|exact Hrel]. intros x y Hxy. apply (proj2 (Hnum x y Hxy)). }
  intros file' Hsl Hin. unfold content_eq6. rewrite Ei, Hin, Hif. cbn [opt_n_eqb]. rewrite N.eqb_refl. cbn [andb].
  apply andb_true_iff. split.
  - (* the hidden slots stay empty *)
    unfold no_hidden. rewrite Hsl.
    assert (Hh : forall i, (i = 3 \/ i = 4)%nat -> nth i (f_slots f) [] = []).
    { intros i Hi34.
      destruct (nth_error descs i) as [[[name multi] held]|] eqn:Ed.
      2:{ apply nth_error_None in Ed. lia. }
      rewrite (Hslots i name multi held Ed).
      rewrite (Hs2 i) by lia.
      apply slot_contents_empty.
      pose proof (Hslot i name multi held Ed) as Hs.
      replace (hidden_slot i) with true in Hs by (destruct Hi34; subst i; reflexivity).
      apply Forall2_nil_l in Hs. now apply filter_cons_nil in Hs as [_ Hs]. }
    rewrite (Hh 3%nat) by auto. rewrite (Hh 4%nat) by auto. reflexivity.
  - (* slot by slot *)
    unfold ft_of. rewrite Ei, Eslots. apply slots_eq_nth.
    + rewrite Hsl, Hlf, Hl2. exact Hlen.
    + intros i Hi Hhid. cbn [Nat.add] in Hhid |- *. rewrite Hsl.
      destruct (nth_error descs i) as [[[name multi] held]|] eqn:Ed.
      2:{ apply nth_error_None in Ed. lia. }
      rewrite (Hslots i name multi held Ed).
      pose proof (Hslot i name multi held Ed) as Hs. rewrite Hhid in Hs.
      destruct (slots_wf_nth descs 0 ([m0] :: sr) i name multi held Hwf Ed) as (Hwi & Hci & _).
      assert (Hfs : forall x, In x (nth i ([m0] :: sr) []) -> find_slot ft (m_num x) = Some (i, multi)).
      { intros x Hx. rewrite forallb_forall in Hwi. specialize (Hwi x Hx). unfold msg_wf in Hwi.
        apply andb_true_iff in Hwi as [Hnx _]. apply N.eqb_eq in Hnx. rewrite Hnx.
        apply (find_slot_iff ft _ _ _ Hft). rewrite Hso. eauto. }
      destruct (Nat.eq_dec i 0) as [->|Hi0].
      * (* slot 0: the file_id message start_file stored *)
        rewrite Hd0 in Ed. inversion Ed; subst name multi held. cbn [nth] in Hs, Hfs |- *.
        cbn [filter] in Hs. rewrite Hn0', N.eqb_refl in Hs.
        apply Forall2_cons_l in Hs as (y0 & r0 & Ey & Hq & Hnil). apply Forall2_nil_l in Hnil. subst r0.
        apply some_cons_inj in Ey as [-> Hnil'].
        unfold f2, started. cbn [f_slots app nth]. unfold slot_contents. rewrite Hnil'.
        cbn [forall2b]. rewrite (cmp6_from_rel ft 0 false m0 m0' Hft (Hfs m0 (or_introl eq_refl)) Hq). reflexivity.
      * rewrite (Hs2 i Hi0).
        assert (Hne : (m_num m0' =? held) = false).
        { apply N.eqb_neq. rewrite Hn0'. intros <-. apply Hi0.
          pose proof (proj2 (find_slot_iff ft c_MesgNumFileId i multi Hft)) as F. rewrite Hso in F.
          specialize (F (ex_intro _ name Ed)). rewrite Hfs0 in F. now inversion F. }
        cbn [filter] in Hs. rewrite Hne in Hs.
        rewrite slot_contents_placed.
        2:{ rewrite <- (Forall2_length_eq _ _ _ Hs). exact Hci. }
        apply forall2b_Forall2. eapply Forall2_impl_in; [|exact Hs].
        intros x y Hx Hq. cbv beta in Hq. exact (cmp6_from_rel ft i multi x y Hft (Hfs x Hx) Hq).
Qed.

Theorem route_roundtrip : forall f0 msgs' h,
  wf_file f0 = true -> in_domain f0 = true -> Forall2 msg_norm_eq (file_msgs f0) msgs' ->
  exists f2 g1 f g',
    start_file h g_init (hd dummy_msg msgs') = Some (f2, g1) /\
    route_msgs h g_init msgs' = Some (f, g') /\
    forall file', f_slots file' = f_slots f -> f_inited file' = f_inited f -> content_eq6 f0 file' = true.
Proof.
  intros f0 msgs' h Hwf Hdom HF.
  destruct (route_roundtrip_g f0 msgs' h g_init Hwf Hdom HF ginv_init) as (f2 & g1 & f & g' & H1 & H2 & _ & H3).
  exists f2, g1, f, g'. auto.
Qed.

(* ================================================================ 8. the premises are satisfiable *)
(* an activity File: file_id and two record messages with cycles set (total_cycles is derived: the expected
   message differs from the stored one, and the decoded side may be in any reachable accumulator state) *)
Definition ex_msg (n : N) : msg := match mesg_all_invalid n with Some m => m | None => mk_msg 0 [] end.
Definition ex_file_id : msg := set_fld (ex_msg c_MesgNumFileId) "Type" (VU 4).
Definition ex_record : msg := set_fld (set_fld (ex_msg c_MesgNumRecord) "Cycles" (VU 5)) "Speed" (VU 1000).
Definition ex_file : file :=
  mk_file zero_header 0 ([[ex_file_id]] ++ repeat [] 7 ++ [[ex_record; ex_record]] ++ repeat [] 11) (Some 4) None None.

Example route_roundtrip_nonvacuous :
  wf_file ex_file = true /\ in_domain ex_file = true /\ List.length (file_msgs ex_file) = 3%nat /\
  slot_expands 4 8 c_MesgNumRecord = true /\
  exists f g', route_msgs zero_header g_init (file_msgs ex_file) = Some (f, g') /\ content_eq6 ex_file f = true.
Proof.
  split; [vm_compute; reflexivity|]. split; [vm_compute; reflexivity|]. split; [vm_compute; reflexivity|].
  split; [vm_compute; reflexivity|].
  destruct (route_roundtrip ex_file (file_msgs ex_file) zero_header) as (f2 & g1 & f & g' & _ & Hr & Hc).
  - vm_compute; reflexivity.
  - vm_compute; reflexivity.
  - generalize (file_msgs ex_file). induction l; constructor; [apply mne_refl|assumption].
  - exists f, g'. split; [exact Hr|]. now apply Hc.
Qed.

Print Assumptions route_roundtrip_g.
