(* C18: component expansion against the property's spec. *)
From Coq Require Import NArith ZArith List Bool String Lia Arith.
From Coq Require Import ZifyN ZifyNat ZifyBool.
From FitV Require Import Proofs.Util Model.Values Model.Bytes Model.Reflect Model.Profile Model.Components
  Spec.ComponentSpec Proofs.RouteProofs Gen.Consts.
Import ListNotations.
Local Open Scope N_scope.
Ltac Zify.zify_post_hook ::= Z.div_mod_to_equations.

(* ---- the accumulator realises the rollover-corrected running sum *)

(* run an accumulator over a list of values *)
Fixpoint run_accum (a : accum) (vals : list N) : list N :=
  match vals with
  | [] => []
  | v :: r => let '(x, a') := accumulate a v in x :: run_accum a' r
  end.

Lemma land_ones_mod a n : N.land a (2 ^ n - 1) = a mod 2 ^ n.
Proof. rewrite <- N.land_ones. f_equal. rewrite N.ones_equiv. now rewrite N.sub_1_r. Qed.

Lemma accumulate_step bits a v : bits <= 32 -> ac_mask a = 2 ^ bits - 1 -> ac_last a < 2 ^ 32 -> v < 2 ^ 32 ->
  accumulate a v =
    ((ac_value a + (v + 2 ^ bits - ac_last a mod 2 ^ bits) mod 2 ^ bits) mod 2 ^ 32,
     mk_accum ((ac_value a + (v + 2 ^ bits - ac_last a mod 2 ^ bits) mod 2 ^ bits) mod 2 ^ 32) v (ac_mask a)).
Proof.
  intros Hb Hm Hl Hv. unfold accumulate. rewrite Hm, land_ones_mod.
  assert (E : ((v + 2 ^ 32 - ac_last a) mod 2 ^ 32) mod 2 ^ bits = (v + 2 ^ bits - ac_last a mod 2 ^ bits) mod 2 ^ bits).
  { assert (Hp : 2 ^ 32 = 2 ^ bits * 2 ^ (32 - bits)) by (rewrite <- N.pow_add_r; f_equal; lia).
    assert (Hpb : 0 < 2 ^ bits) by (apply N.neq_0_lt_0, N.pow_nonzero; discriminate).
    assert (Hpc : 0 < 2 ^ (32 - bits)) by (apply N.neq_0_lt_0, N.pow_nonzero; discriminate).
    set (B := 2 ^ bits) in *. set (C := 2 ^ (32 - bits)) in *.
    assert (Hmm : forall a0, (a0 mod (B * C)) mod B = a0 mod B).
    { intros a0. rewrite N.mod_mul_r by lia. rewrite N.add_mod by lia.
      rewrite (N.mul_comm B), N.mod_mul by lia. rewrite N.add_0_r. now rewrite !N.mod_mod by lia. }
    rewrite Hp, Hmm.
    assert (Hl' : ac_last a = B * (ac_last a / B) + ac_last a mod B) by (apply N.div_mod; lia).
    assert (Hq : ac_last a / B < C) by (apply N.div_lt_upper_bound; lia).
    assert (Hr : ac_last a mod B < B) by (apply N.mod_lt; lia).
    set (q := ac_last a / B) in *. set (rr := ac_last a mod B) in *.
    replace (v + B * C - ac_last a) with ((v + B - rr) + (C - 1 - q) * B) by nia.
    now rewrite N.mod_add by lia. }
  rewrite E. reflexivity.
Qed.

Theorem accumulate_spec : forall bits vals a, bits <= 32 -> ac_mask a = 2 ^ bits - 1 -> ac_last a < 2 ^ 32 ->
  Forall (fun v => v < 2 ^ 32) vals ->
  run_accum a vals = spec_accumulate_from bits (ac_value a) (ac_last a) vals.
Proof.
  intros bits vals. induction vals as [|v r IH]; intros a Hb Hm Hl Hv; [reflexivity|].
  inversion Hv as [|? ? Hv1 Hv2]; subst. cbn [run_accum spec_accumulate_from].
  rewrite (accumulate_step bits a v Hb Hm Hl Hv1). f_equal.
  rewrite IH; cbn [ac_value ac_last ac_mask]; auto.
Qed.

(* a fresh accumulator created by uint32NewAccumulator(bits) follows the spec from the start of the file *)
Corollary fresh_accumulator_spec : forall bits vals, 1 <= bits <= 32 -> Forall (fun v => v < 2 ^ 32) vals ->
  run_accum (new_accum bits) vals = spec_accumulate bits vals.
Proof.
  intros bits vals Hb Hv. unfold spec_accumulate. rewrite (accumulate_spec bits vals (new_accum bits)); auto; try lia.
  - unfold new_accum. simpl. apply N.mod_small.
    assert (2 ^ bits <= 2 ^ 32) by (apply N.pow_le_mono_r; lia). lia.
  - simpl. reflexivity.
Qed.

(* new(uint32Accumulator) has mask 0: the accumulated value never moves (finding accum_mask0) *)
Theorem zero_mask_accumulates_nothing : forall vals a, ac_mask a = 0 -> ac_value a < 2 ^ 32 ->
  Forall (fun x => x = ac_value a) (run_accum a vals).
Proof.
  induction vals as [|v r IH]; intros a Hm Hv; cbn [run_accum]; [constructor|].
  assert (E : accumulate a v = (ac_value a, mk_accum (ac_value a) v 0)).
  { unfold accumulate. rewrite Hm, N.land_0_r, N.add_0_r, (N.mod_small _ _ Hv). reflexivity. }
  rewrite E. constructor; [reflexivity|]. apply (IH (mk_accum (ac_value a) v 0)); simpl; auto.
Qed.

Theorem total_cycles_refuted : exists vals, run_accum zero_accum vals <> spec_accumulate 8 vals.
Proof. exists [5; 9]. vm_compute. discriminate. Qed.

(* the distance half of compressed_speed_distance loses its high nibble (finding csd_high_nibble) *)
Definition model_csd_distance_raw (b1 b2 : N) : N := N.lor (N.shiftr b1 4) ((N.shiftl b2 4) mod 256).
Theorem csd_distance_refuted : exists b1 b2, b1 < 256 /\ b2 < 256 /\ model_csd_distance_raw b1 b2 <> spec_csd_distance_raw b1 b2.
Proof. exists 0, 0x10. repeat split; try lia. vm_compute. discriminate. Qed.
(* ... and is right exactly when b2 < 16 *)
Theorem csd_distance_partial : forall b1 b2, b1 < 256 -> b2 < 16 -> model_csd_distance_raw b1 b2 = spec_csd_distance_raw b1 b2.
Proof.
  intros b1 b2 H1 H2. apply N.eqb_eq.
  pose proof (forall_below 256 (fun b1 => forallb (fun b2 => N.eqb (model_csd_distance_raw b1 b2) (spec_csd_distance_raw b1 b2)) (range 16 0))
                ltac:(vm_compute; reflexivity) b1 H1) as H.
  rewrite forallb_forall in H. apply H. apply range_in. lia.
Qed.
Theorem csd_speed_spec : forall b0 b1, b0 < 256 -> b1 < 256 ->
  N.lor b0 (N.shiftl (N.land b1 0x0F) 8) = spec_csd_speed b0 b1.
Proof.
  intros b0 b1 H0 H1. apply N.eqb_eq.
  pose proof (forall_below 256 (fun b0 => forallb (fun b1 => N.eqb (N.lor b0 (N.shiftl (N.land b1 0x0F) 8)) (spec_csd_speed b0 b1)) (range 256 0))
                ltac:(vm_compute; reflexivity) b0 H0) as H.
  rewrite forallb_forall in H. apply H. apply range_in. lia.
Qed.

(* ---- field algebra *)
Lemma fld_set_same m n v i : sindex_of (m_num m) n = Some i -> (i < List.length (m_fields m))%nat ->
  fld (set_fld m n v) n = v.
Proof.
  intros Hs Hl. unfold fld, set_fld. rewrite Hs. simpl. rewrite Hs. now apply nth_set_nth_eq.
Qed.
Lemma fld_set_other m n n' v i j : sindex_of (m_num m) n = Some i -> sindex_of (m_num m) n' = Some j -> i <> j ->
  fld (set_fld m n v) n' = fld m n'.
Proof.
  intros Hs Hs' Hne. unfold fld, set_fld. rewrite Hs. simpl. rewrite Hs'. now apply nth_set_nth_neq.
Qed.
Lemma set_fld_length m n v : List.length (m_fields (set_fld m n v)) = List.length (m_fields m).
Proof. unfold set_fld. destruct (sindex_of _ _); [simpl; apply set_nth_length|reflexivity]. Qed.

(* a 16-bit source widened into its enhanced field *)
Theorem widen16_dst m src dst j : sindex_of (m_num m) dst = Some j -> (j < List.length (m_fields m))%nat ->
  uval (fld m src) < 65536 ->
  uval (fld (widen16 m src dst) dst) = spec_enhanced (uval (fld m src)) (uval (fld m dst)).
Proof.
  intros Hs Hl Hv. unfold widen16, spec_enhanced.
  destruct (uval (fld m src) =? 65535); [reflexivity|].
  rewrite (fld_set_same m dst _ j Hs Hl). simpl.
  change 65535 with (N.ones 16). rewrite N.land_ones. now apply N.mod_small.
Qed.
(* ... and nothing else changes *)
Theorem widen16_other m src dst n i j : sindex_of (m_num m) dst = Some i -> sindex_of (m_num m) n = Some j -> i <> j ->
  fld (widen16 m src dst) n = fld m n.
Proof.
  intros Hs Hs' Hne. unfold widen16. destruct (_ =? _); [reflexivity|]. now apply (fld_set_other m dst n _ i j).
Qed.
Theorem widen16_invalid m src dst : uval (fld m src) = 0xFFFF -> widen16 m src dst = m.
Proof. intros H. unfold widen16. now rewrite H. Qed.
Lemma widen16_length m src dst : List.length (m_fields (widen16 m src dst)) = List.length (m_fields m).
Proof. unfold widen16. destruct (_ =? _); [reflexivity|apply set_fld_length]. Qed.

(* event: data16 -> data, sport_point -> score / opponent_score, gear change -> four bytes *)
Theorem event_bit_slices : forall d, d < 2 ^ 32 ->
  N.land d 0xFFFF = spec_score d /\ N.land (N.shiftr d 16) 0xFFFF = spec_opponent_score d /\
  N.land d 0xFF = spec_gear_byte d 0 /\ N.land (N.shiftr d 8) 0xFF = spec_gear_byte d 1 /\
  N.land (N.shiftr d 16) 0xFF = spec_gear_byte d 2 /\ N.land (N.shiftr d 24) 0xFF = spec_gear_byte d 3.
Proof.
  intros d Hd. unfold spec_score, spec_opponent_score, spec_gear_byte.
  change 0xFFFF with (N.ones 16). change 0xFF with (N.ones 8).
  rewrite !N.land_ones, !N.shiftr_div_pow2. repeat split; try reflexivity.
  now rewrite N.pow_0_r, N.div_1_r.
Qed.
