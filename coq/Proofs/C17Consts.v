(* Tie of the C17 models to the current source text: Gen/C17Consts.v is
   regenerated on every check from latlng.go and time.go (constants as Go's
   constant evaluator computes them, comparison operators in source order); the
   lemmas below state that the models use exactly those.  A change of a bound,
   an operator, the precision, the sentinel, the epoch or the time unit in the
   source breaks them. *)
From Coq Require Import ZArith String List.
From FitV Require Import Gen.C17Consts Model.LatLng Model.FitTime.
Import ListNotations.
Local Open Scope string_scope.
Local Open Scope Z_scope.

(* the comparisons of the model functions, written the way the translator
   reports the source's *)
Definition model_NewLatitude : list (string * Z) := [("==", sint32_invalid); ("<", lat_min); (">", lat_max)].
Definition model_NewLatitudeDegrees : list (string * Z) := [(">=", 90); ("<=", -90)].
Definition model_NewLongitudeDegrees : list (string * Z) := [(">=", 180); ("<=", -180)].
Definition model_sentinel_test : list (string * Z) := [("==", sint32_invalid)].
(* strconv.FormatFloat(_, 'f', precision, 32): 'f' is 102 *)
Definition model_String : list (string * Z) := [("==", sint32_invalid); ("FormatFloat", 102); ("FormatFloat", precision); ("FormatFloat", 32)].

Lemma latlng_consts_agree :
  src_sint32Invalid = sint32_invalid /\ src_precision = precision /\ src_stringInvalid = string_invalid /\
  src_NewLatitude = model_NewLatitude /\
  src_NewLatitudeDegrees = model_NewLatitudeDegrees /\
  src_NewLongitudeDegrees = model_NewLongitudeDegrees /\
  src_Latitude_Degrees = model_sentinel_test /\ src_Longitude_Degrees = model_sentinel_test /\
  src_Latitude_Invalid = model_sentinel_test /\ src_Longitude_Invalid = model_sentinel_test /\
  src_Latitude_String = model_String /\ src_Longitude_String = model_String.
Proof. repeat split; reflexivity. Qed.

(* days from 1970-01-01 of a proleptic Gregorian date (year >= 1) *)
Definition days_from_civil (y m d : Z) : Z :=
  let y' := if m <=? 2 then y - 1 else y in
  let era := y' / 400 in
  let yoe := y' - era * 400 in
  let doy := (153 * (if 2 <? m then m - 3 else m + 9) + 2) / 5 + d - 1 in
  let doe := yoe * 365 + yoe / 4 - yoe / 100 + doy in
  era * 146097 + doe - 719468.

Example days_from_civil_examples :
  days_from_civil 1970 1 1 = 0 /\ days_from_civil 2000 3 1 = 11017 /\ days_from_civil 1 1 1 = -719162.
Proof. repeat split; reflexivity. Qed.

(* timeBase in the source is the date whose distance from January 1, year 1 is
   the model's base_abs, at 0 ns, in UTC; the unit of decodeDateTime and
   encodeTime is the model's `second` *)
Lemma time_consts_agree :
  match src_timeBase with
  | [y; m; d; h; mi; s; ns] =>
      (days_from_civil y m d - days_from_civil 1 1 1) * 86400 + h * 3600 + mi * 60 + s = base_abs + t_sec time_base /\
      ns = t_nsec time_base
  | _ => False
  end /\
  src_timeBase_loc = "UTC" /\ t_zone time_base = None /\
  src_decodeDateTime = [("*", second)] /\ src_encodeTime = [("/", second)].
Proof. repeat split; reflexivity. Qed.
