(* Tie of the C17 models to the current source text: Gen/C17Consts.v is
   regenerated on every check from latlng.go and time.go (constants as Go's
   constant evaluator computes them, the arguments of timeBase's time.Date call); the
   lemmas below state that the models use exactly those.  A change of a bound,
   an operator, the precision, the sentinel, the epoch or the time unit in the
   source breaks them. *)
From Coq Require Import ZArith String List.
From FitV Require Import Gen.C17Consts Model.LatLng Model.FitTime.
Import ListNotations.
Local Open Scope string_scope.
Local Open Scope Z_scope.

(* the package constants; the functions of latlng.go themselves are translated into Gen/C17Funcs.v and proved
   equal to the model in Proofs/C17Funcs.v *)
Lemma latlng_consts_agree :
  src_sint32Invalid = sint32_invalid /\ src_precision = precision /\ src_stringInvalid = string_invalid.
Proof. repeat split; reflexivity. Qed.

(* timeBase in the source is the date whose distance from January 1, year 1 is
   the model's base_abs, at 0 ns, in UTC; the unit of decodeDateTime and
   encodeTime is the model's `second` *)
Lemma time_consts_agree :
  match src_timeBase with
  | [y; m; d; h; mi; s; ns] =>
      (days_from_civil y m d - days_from_civil 1 1 1) * 86400 + h * 3600 + mi * 60 + s = base_abs + t_sec time_base /\
      ns = t_nsec time_base
  | _ => False
  end /\
  src_timeBase_loc = "UTC" /\ t_zone time_base = None.
Proof. repeat split; reflexivity. Qed.
