(* C06 at stream level: the record list Encode lays out, as a function of the File (so that statements
   about the stream, e.g. its well-formedness stream_wf, are statements about the File). *)
From Coq Require Import NArith ZArith List Bool Lia String.
From FitV Require Import Model.Values Model.Bytes Model.Base Model.Profile Model.Crc Model.Header
  Model.Components Model.Route Model.Encode Spec.CrcSpec Spec.FitSyntax Spec.Grammar Spec.RoundTrip Spec.EncLayout
  Proofs.Util Proofs.CrcProofs Proofs.EncodeProofs Proofs.C05Grammar Proofs.C06Defs Proofs.C06Lay
  Proofs.StreamDenoteDefs Proofs.StreamDenoteMain Proofs.StreamDenoteFrame Proofs.StreamDenoteDecode
  Gen.Consts Gen.ProfileData Gen.RoutingData.
Import ListNotations.
Local Open Scope N_scope.

Lemma parts_of_eq be m : forall fields parts, Forall2 (fun pf p => field_out be m pf = EOk p) fields parts -> parts = parts_of be m fields.
Proof.
  induction 1 as [|pf p fields parts Hp HF IH]; [reflexivity|]. unfold parts_of in *. cbn [map]. unfold out_of at 1. rewrite Hp. now f_equal.
Qed.

Lemma unit_lay_recs be m bytes : encode_def_and_data be m = EOk bytes -> len_ok m ->
  exists fields, get_encode_mesg_def m = EOk fields /\ menc be m fields (parts_of be m fields) /\ bytes = ser_records (unit_recs be m).
Proof.
  intros H Hlen. pose proof H as H0. unfold encode_def_and_data in H.
  apply ebind_ok in H as (fs & Hfs & H). apply ebind_ok in H as (d & Hd & H). apply ebind_ok in H as (w & Hw & H).
  inversion H; subst; clear H. destruct (get_def_facts _ _ Hfs) as (Hfp & Hg & Hn).
  destruct (get_def_menc_facts _ _ Hfs Hlen) as (Hnd & Hcov).
  destruct (write_mesg_parts _ _ _ _ Hw) as (parts & HF & ->).
  pose proof (parts_of_eq _ _ _ _ HF) as ->.
  exists fs. split; [exact Hfs|]. split; [repeat split; assumption|].
  unfold unit_recs. rewrite Hfs. unfold ser_records. cbn [flat_map]. rewrite app_nil_r.
  rewrite (write_def_ser _ _ _ _ Hd Hg Hn), write_mesg_ser. reflexivity.
Qed.

Lemma units_lay_recs be : forall ms bytes, econcat (map (encode_def_and_data be) ms) = EOk bytes -> Forall len_ok ms ->
  lay be ms (flat_map (unit_recs be) ms) /\ bytes = ser_records (flat_map (unit_recs be) ms).
Proof.
  induction ms as [|m ms IH]; intros bytes H Hl; cbn [map econcat] in H.
  - inversion H. split; [constructor|reflexivity].
  - apply ebind_ok in H as (a & Ha & H). apply ebind_ok in H as (b & Hb & H). inversion H; subst; clear H.
    inversion Hl as [|? ? Hl1 Hl2]; subst. destruct (unit_lay_recs _ _ _ Ha Hl1) as (fields & Hfs & Hm & ->).
    destruct (IH _ Hb Hl2) as (Hlay & ->). cbn [flat_map]. split; [|now rewrite ser_records_app].
    unfold unit_recs at 1. rewrite Hfs. cbn [app]. now constructor.
Qed.

Lemma slice_lay_recs be mn ms bytes : Forall (fun m => m_num m = mn) ms -> Forall len_ok ms -> mn < 65536 ->
  encode_slice be ms = EOk bytes -> lay be ms (slice_recs be ms) /\ bytes = ser_records (slice_recs be ms).
Proof.
  intros Hm Hl Hmn H. unfold encode_slice in H. unfold slice_recs. destruct ms as [|m0 mr] eqn:Ems.
  { inversion H. split; [constructor|reflexivity]. }
  rewrite <- Ems in *. assert (Hne : ms <> []) by (rewrite Ems; discriminate).
  apply ebind_ok in H as (fs & Hfs & H). apply ebind_ok in H as (d & Hd & H). apply ebind_ok in H as (b & Hb & H).
  inversion H; subst bytes; clear H. rewrite Hfs. rewrite (last_num mn _ _ Hne Hm) in Hd |- *.
  destruct (collect_fields_inv mn ms [] fs Hm (Forall_nil _) I Hfs) as [Hfp Hs].
  assert (Hn : N.of_nat (List.length fs) < 256).
  { destruct fs as [|p0 r0] eqn:Efs; [reflexivity|]. rewrite <- Efs in *.
    apply (sorted_fields_short mn fs Hfp Hs). rewrite Efs. discriminate. }
  destruct (collect_fields_nums _ _ _ Hfs) as [_ Hcov].
  destruct (slice_parts _ _ _ _ Hb) as (partss & HFs & ->).
  assert (Hps : partss = map (fun m => parts_of be m fs) ms).
  { clear - HFs. induction HFs as [|m parts ms partss Hp HF IH]; [reflexivity|]. cbn [map]. f_equal; [now apply parts_of_eq|exact IH]. }
  assert (HM : Forall2 (fun m parts => menc be m fs parts) ms partss).
  { clear - HFs Hm Hl Hfp Hs Hcov. induction HFs as [|m parts ms partss Hp HF IH]; [constructor|].
    inversion Hm as [|? ? Hm1 Hm2]; subst. inversion Hl as [|? ? Hl1 Hl2]; subst. constructor.
    - destruct (Hcov m (or_introl eq_refl)) as (own & Hown & Hincl).
      destruct (get_def_menc_facts _ _ Hown Hl1) as (_ & Hc).
      repeat split; [exact Hfp|now apply ssorted_nodup|exact Hp|eapply covers_mono; eassumption].
    - apply IH; [assumption|assumption|]. intros m1 Hin. apply Hcov. now right. }
  assert (Hmap : map (fun m => rdata_of (parts_of be m fs)) ms = map rdata_of partss) by (rewrite Hps, map_map; reflexivity).
  rewrite Hmap. split.
  - rewrite <- (app_nil_r ms), <- (app_nil_r (map rdata_of partss)). apply lay_slice; [exact Hne|exact Hm|exact HM|constructor].
  - unfold ser_records at 2. cbn [flat_map]. rewrite (write_def_ser _ _ _ _ Hd Hmn Hn). reflexivity.
Qed.

Lemma encode_slots_lay_recs be : forall descs i slots bytes,
  slots_wf i descs slots = true -> descs_ok descs = true -> encode_slots be i descs slots = EOk bytes ->
  lay be (visible i slots) (slots_recs be i descs slots) /\ bytes = ser_records (slots_recs be i descs slots).
Proof.
  induction descs as [|[[nm multi] mn] dr IH]; intros i slots bytes Hwf Hdk H.
  - destruct slots; [|discriminate]. cbn [encode_slots] in H. inversion H. split; [constructor|reflexivity].
  - destruct slots as [|s sr]; [discriminate|]. cbn [slots_wf] in Hwf. cbn [encode_slots] in H. cbn [visible slots_recs].
    apply andb_true_iff in Hwf as [Hwf Hrest]. apply andb_true_iff in Hwf as [Hwf _]. apply andb_true_iff in Hwf as [Hmsgs _].
    unfold descs_ok in Hdk. cbn [forallb snd] in Hdk. apply andb_true_iff in Hdk as [Hmn Hdk]. apply N.ltb_lt in Hmn.
    destruct (Nat.eqb i 3 || Nat.eqb i 4).
    + cbn [app]. eapply IH; eassumption.
    + apply ebind_ok in H as (a & Ha & H). apply ebind_ok in H as (b & Hb & H). inversion H; subst; clear H.
      assert (S1 : lay be s (slot_recs be multi s) /\ a = ser_records (slot_recs be multi s)).
      { unfold encode_slot in Ha. unfold slot_recs. destruct multi.
        - eapply slice_lay_recs; [apply msgs_wf_num; exact Hmsgs|eapply msgs_wf_len; exact Hmsgs|exact Hmn|exact Ha].
        - apply units_lay_recs; [exact Ha|eapply msgs_wf_len; exact Hmsgs]. }
      destruct S1 as (L1 & ->). destruct (IH (S i) sr b Hrest Hdk Hb) as (L2 & ->).
      split; [now apply lay_app|now rewrite ser_records_app].
Qed.

(* encode_is_serialize, with the record list as a function of the File *)
Theorem encode_is_serialize_recs f be bs f' :
  wf_file f = true -> wf_header (f_header f) = true ->
  proto_ok (h_proto (f_header f)) = true -> h_profile (f_header f) < 65536 ->
  encode f be = EOk (bs, f') -> N.of_nat (List.length bs) < 4294967296 ->
  let rs := file_recs f be in
  let h := wire_header (f_header f) (N.of_nat (List.length (ser_records rs))) in
  bs = fit_file h rs /\ header_wf h /\ h_dsize h = N.of_nat (List.length (ser_records rs)) /\
  lay be (file_msgs f) rs /\ stream_wf rs = true /\ starts_with_file_id rs = true.
Proof.
  intros Hwf Hh Hpo Hpr Henc Hlen.
  destruct (encode_framed f be bs f' Hh Henc Hlen) as (data & hc & crc & Hdata & Hdb & Hdl & Hrest).
  cbv zeta in Hrest. destruct Hrest as (Hb12 & Hhc & Hcrc & Hds & Hcase).
  unfold enc_data in Hdata. pose proof Hwf as Hwf0. unfold wf_file in Hwf.
  destruct (f_inited f) as [ft|]; [|discriminate]. apply andb_true_iff in Hwf as [Eft Hwf]. apply N.eqb_eq in Eft. subst ft.
  destruct (ft_entry (file_type f)) as [[[ok cn] descs]|] eqn:Efe; [|discriminate]. destruct ok; [|discriminate].
  pose proof (ft_entry_descs_ok _ _ _ _ Efe) as Hdk.
  destruct (encode_slots_lay_recs be descs 0 (f_slots f) _ Hwf Hdk Hdata) as (Hlay & ->).
  rewrite visible_0 in Hlay. fold (file_msgs f) in Hlay.
  unfold file_recs. rewrite Efe. set (rs := slots_recs be 0 descs (f_slots f)) in *.
  cbv zeta. set (dsz := N.of_nat (List.length (ser_records rs))) in *.
  split; [|split; [now apply wire_header_wf|split; [reflexivity|split; [exact Hlay|split; [eapply lay_stream_wf; eassumption|]]]]].
  - unfold fit_file, frame_bytes, file_crc, hdr_bytes. rewrite wire_header_bytes12.
    unfold wire_header at 1 2 3 4. cbn [h_size h_crc]. change c_headerSizeCRC with 14.
    destruct Hcase as [(E & Hbs & Hc)|(E & Hbs & Hc & _)]; rewrite E in *.
    + cbn [N.eqb Pos.eqb]. rewrite Hbs, Hc. unfold framed. rewrite app_nil_r. fold dsz. reflexivity.
    + cbn [N.eqb Pos.eqb]. rewrite Hbs, Hc, Hhc. unfold framed. fold dsz. rewrite <- !app_assoc. reflexivity.
  - (* the first message is the file_id *)
    assert (Hd0 : exists nm0 multi0 dr, descs = (nm0, multi0, c_MesgNumFileId) :: dr).
    { unfold ft_entry in Efe. destruct (find _ file_types) as [[[[a b] c] d]|] eqn:E; [|discriminate]. inversion Efe; subst.
      apply find_some in E as [Hin _].
      assert (T : forallb (fun e : N * bool * string * list (string * bool * N) =>
                   let '(_, okk, _, ds) := e in if okk then match ds with (_, _, mn) :: _ => mn =? 0 | [] => false end else true) file_types = true)
        by (vm_compute; reflexivity).
      rewrite forallb_forall in T. specialize (T _ Hin). cbv beta iota in T.
      destruct descs as [|[[nm0 multi0] mn0] dr]; [discriminate|]. apply N.eqb_eq in T. subst mn0. eauto. }
    destruct Hd0 as (nm0 & multi0 & dr & ->).
    destruct (f_slots f) as [|s0 sr] eqn:Es; [discriminate|]. cbn [slots_wf Nat.eqb] in Hwf.
    apply andb_true_iff in Hwf as [Hwf _]. apply andb_true_iff in Hwf as [Hwf H1]. apply andb_true_iff in Hwf as [Hmsgs _].
    destruct s0 as [|m0 [|m1 s0r]]; try discriminate.
    cbn [forallb] in Hmsgs. apply andb_true_iff in Hmsgs as [Hm0 _]. unfold msg_wf in Hm0. apply andb_true_iff in Hm0 as [Hn0 _].
    apply N.eqb_eq in Hn0. unfold file_msgs in Hlay. rewrite Es in Hlay.
    destruct sr as [|s1 [|s2 sr']]; cbn [firstn List.concat app] in Hlay; eapply lay_starts; try exact Hlay; exact Hn0.
Qed.
