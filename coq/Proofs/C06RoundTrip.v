(* C06 at stream level: assembly of encode_is_serialize (C06Lay/C06Recs), lay_denote (C06Denote), the stream
   theorem Decode_denote (C02) and route_roundtrip (C06Route). *)
From Coq Require Import NArith ZArith List Bool Lia String.
From FitV Require Import Model.Values Model.Bytes Model.Base Model.Profile Model.Crc Model.Header Model.IO
  Model.Components Model.Route Model.Encode Model.Decode Spec.CrcSpec Spec.FitSyntax Spec.Grammar Spec.RoundTrip Spec.RouteSpec
  Proofs.Util Proofs.EncodeProofs Proofs.C05Grammar Proofs.C05Wire Proofs.C06Defs Proofs.C06Lay Proofs.C06Recs Proofs.C06Denote Proofs.C06Route
  Proofs.StreamDenoteDefs Proofs.StreamDenoteLift Proofs.StreamDenoteMain Proofs.StreamDenoteFrame Proofs.StreamDenoteDecode
  Proofs.EncExamples Gen.Consts Gen.ProfileData Gen.RoutingData.
Import ListNotations.
Local Open Scope N_scope.

Fixpoint descs_known (i : nat) (descs : list (string * bool * N)) : bool :=
  match descs with [] => true | (_, _, mn) :: r => (Nat.eqb i 3 || Nat.eqb i 4 || known_msg mn) && descs_known (S i) r end.
Lemma file_types_known : forallb (fun e : N * bool * string * list (string * bool * N) =>
  let '(_, ok, _, ds) := e in if ok then descs_known 0 ds else true) file_types = true.
Proof. vm_compute. reflexivity. Qed.

Lemma slots_wf_known : forall descs i slots, slots_wf i descs slots = true -> descs_known i descs = true ->
  Forall (fun m => known_msg (m_num m) = true) (visible i slots).
Proof.
  induction descs as [|[[nm multi] mn] dr IH]; intros i slots H Hk.
  - destruct slots; [constructor|discriminate].
  - destruct slots as [|s sr]; [discriminate|]. cbn [slots_wf] in H. cbn [visible]. cbn [descs_known] in Hk.
    apply andb_true_iff in Hk as [Hk1 Hk2].
    apply andb_true_iff in H as [H Hrest]. apply andb_true_iff in H as [H _]. apply andb_true_iff in H as [Hmsgs _].
    apply Forall_app. split; [|now apply IH].
    destruct (Nat.eqb i 3 || Nat.eqb i 4); [constructor|]. cbn [orb] in Hk1.
    apply Forall_forall. intros m Hin. rewrite forallb_forall in Hmsgs. apply Hmsgs in Hin.
    unfold msg_wf in Hin. apply andb_true_iff in Hin as [Hn _]. apply N.eqb_eq in Hn. now rewrite Hn.
Qed.

Lemma file_msgs_dom f : wf_file f = true -> in_domain f = true -> Forall msg_dom (file_msgs f).
Proof.
  intros Hwf Hdom. unfold wf_file in Hwf.
  destruct (f_inited f) as [ft|]; [|discriminate]. apply andb_true_iff in Hwf as [Eft Hwf]. apply N.eqb_eq in Eft. subst ft.
  destruct (ft_entry (file_type f)) as [[[ok cn] descs]|] eqn:Efe; [|discriminate]. destruct ok; [|discriminate].
  assert (Hk : descs_known 0 descs = true).
  { unfold ft_entry in Efe. destruct (find _ file_types) as [[[[a b] c] d]|] eqn:E; [|discriminate]. inversion Efe; subst.
    apply find_some in E as [Hin _]. pose proof file_types_known as T. rewrite forallb_forall in T. exact (T _ Hin). }
  pose proof (slots_wf_typed _ _ _ Hwf) as H1. pose proof (slots_wf_known _ _ _ Hwf Hk) as H2.
  unfold in_domain in Hdom. rewrite forallb_forall in Hdom. unfold file_msgs in *. rewrite <- visible_0 in *.
  apply Forall_forall. intros m Hin. rewrite Forall_forall in H1, H2. repeat split; auto.
Qed.

(* C06, stream level: Encode then Decode returns the values that were put in.  For every well-formed File in
   the representable domain, both byte orders, both header sizes, every decode option set, every accumulator state
   reachable in a process that has only seen such Files (ginv: the total_cycles / accumulated_power accumulators
   have mask 0 and value 0), every reader (chunk schedule, trailing bytes): Decode of the bytes Encode wrote
   succeeds, consumes exactly those bytes, reports the header written, and returns a File with content_eq6.
   There is no side condition on the times in the File: the decoder's two time-rule defects (C12) are repaired
   (fixed: ac9b0b0, 2f21531), the stream theorem Decode_denote holds for every well-formed stream, and a
   local_date_time value reads back with the wall clock reading written whatever the reference is (den_time_local). *)
Theorem roundtrip f be bs f' o g rd fuel extra :
  wf_file f = true -> wf_header (f_header f) = true ->
  proto_ok (h_proto (f_header f)) = true -> h_profile (f_header f) < 65536 ->
  in_domain f = true -> ginv g ->
  encode f be = EOk (bs, f') -> N.of_nat (List.length bs) < 4294967296 ->
  rd_data rd = bs ++ extra -> (List.length (rd_data rd) + List.length (rd_sched rd) < fuel)%nat ->
  exists rd' file' g' q,
    entry_Decode o g rd fuel =
      TDone (mk_dres None (wire_header (f_header f) (N.of_nat (List.length (ser_records (file_recs f be))))) (Some file') rd' g' q) /\
    content_eq6 f file' = true /\ ginv g' /\ rd_data rd' = extra /\ rd_pos rd' = (rd_pos rd + List.length bs)%nat.
Proof.
  intros Hwf Hh Hpo Hpr Hdom Hg Henc Hlen Hrd Hfuel.
  pose proof (encode_is_serialize_recs f be bs f' Hwf Hh Hpo Hpr Henc Hlen) as HS. cbv zeta in HS.
  set (rs := file_recs f be) in *. set (h := wire_header (f_header f) (N.of_nat (List.length (ser_records rs)))) in *.
  destruct HS as (Hbs & Hhw & Hds & Hlay & Hswf & Hst).
  destruct (lay_denote be _ _ Hlay (file_msgs_dom f Hwf Hdom) ss_init) as (ss1 & msgs' & Hden & Hmsgs & HF & _ & _).
  cbn [ss_msgs ss_init app] in Hmsgs.
  destruct (route_roundtrip_g f msgs' h g Hwf Hdom HF Hg) as (f2 & g1 & fr & gr & Hstart & Hroute & Hgr & Hcontent).
  rewrite <- Hmsgs in Hstart, Hroute.
  rewrite Hbs in Hrd.
  destruct (Decode_denote o g rd fuel h rs ss1 f2 g1 extra Hhw Hds Hst Hswf Hden Hstart Hrd Hfuel)
    as (rd' & file' & fd & g' & q & Hdec & Hroute' & Hsl & Hin & _ & _ & _ & _ & Hpos & Hdata).
  rewrite Hroute in Hroute'. inversion Hroute'; subst fd g'.
  exists rd', file', gr, q. split; [exact Hdec|]. split; [now apply Hcontent|]. split; [exact Hgr|]. split; [exact Hdata|]. now rewrite Hbs.
Qed.

(* in particular from the initial accumulator state, with the File's own fields after Decode:
   the header decoded is the header written and the CRC decoded is the CRC Encode stored in the File *)
Corollary roundtrip_init f be bs f' rd fuel :
  wf_file f = true -> wf_header (f_header f) = true ->
  proto_ok (h_proto (f_header f)) = true -> h_profile (f_header f) < 65536 ->
  in_domain f = true -> encode f be = EOk (bs, f') -> N.of_nat (List.length bs) < 4294967296 ->
  rd_data rd = bs -> (List.length (rd_data rd) + List.length (rd_sched rd) < fuel)%nat ->
  exists r file', entry_Decode no_opts g_init rd fuel = TDone r /\ dr_err r = None /\ dr_file r = Some file' /\
                  content_eq6 f file' = true.
Proof.
  intros Hwf Hh Hpo Hpr Hdom Henc Hlen Hrd Hfuel.
  destruct (roundtrip f be bs f' no_opts g_init rd fuel [] Hwf Hh Hpo Hpr Hdom ginv_init Henc Hlen) as (rd' & file' & g' & q & Hdec & Hc & _);
    [now rewrite app_nil_r|exact Hfuel|].
  eexists _, file'. split; [exact Hdec|]. cbn [dr_err dr_file]. auto.
Qed.

(* the hypotheses are satisfiable: the activity File of Proofs/EncExamples.v (two records with heart rate,
   timestamp and latitude), big endian *)
Lemma roundtrip_example :
  wf_file ex_file = true /\ wf_header (f_header ex_file) = true /\ proto_ok (h_proto (f_header ex_file)) = true /\
  h_profile (f_header ex_file) < 65536 /\ in_domain ex_file = true /\
  (exists bs f', encode ex_file true = EOk (bs, f') /\ N.of_nat (List.length bs) < 4294967296).
Proof.
  split; [vm_compute; reflexivity|]. split; [vm_compute; reflexivity|]. split; [vm_compute; reflexivity|].
  split; [vm_compute; reflexivity|]. split; [vm_compute; reflexivity|].
  destruct (encode ex_file true) as [[bs f']| |] eqn:E; [|vm_compute in E; discriminate|vm_compute in E; discriminate].
  exists bs, f'. split; [reflexivity|].
  assert (Hb : bs = ex_encoded true) by (unfold ex_encoded; now rewrite E). rewrite Hb. vm_compute. reflexivity.
Qed.
