(* C20 -- proofs about the generated String methods.

   Generic part (any representation): a String method of one of the three shapes
   prints the fallback text for every value outside the intervals / keys its
   code tests for ([string_of_outside], including the unsigned wrap of
   `i -= lo`), whatever the width of the type.
   Instance part: one boolean checker [type_ok] evaluated on every generated
   type of Gen.TypesData with vm_compute and lifted with forallb_forall. *)
From Coq Require Import NArith List String Ascii Bool Lia.
From FitV Require Import Model.Stringer Spec.StringSpec Proofs.Util.
Import ListNotations.
Local Open Scope N_scope.

(* ---------- decimal numerals: the model's strconv is the spec's numeral ---------- *)

Lemma digit_is_digit_char d : d < 10 -> digit d = digit_char d.
Proof.
  intros H.
  assert (E : forallb (fun d => Ascii.eqb (digit d) (digit_char d)) (range 10 0) = true) by (vm_compute; reflexivity).
  rewrite forallb_forall in E. apply Ascii.eqb_eq, E, range_in. simpl. lia.
Qed.

Lemma append_assoc (a b c : string) : ((a ++ b) ++ c = a ++ (b ++ c))%string.
Proof. induction a as [|x a IH]; simpl; [reflexivity|now rewrite IH]. Qed.

Lemma dec_aux_decimal fuel : forall n acc, dec_aux fuel n acc = (decimal_fuel fuel n ++ acc)%string.
Proof.
  induction fuel as [|f IH]; intros n acc; simpl; [reflexivity|].
  assert (Hm : n mod 10 < 10) by (apply N.mod_lt; discriminate).
  destruct (N.ltb_spec n 10) as [Hlt|Hge].
  - rewrite N.div_small by assumption. simpl. rewrite N.mod_small by assumption.
    now rewrite digit_is_digit_char.
  - assert (Hq : n / 10 <> 0).
    { intros E. apply N.div_small_iff in E; [lia|discriminate]. }
    apply N.eqb_neq in Hq. rewrite Hq, IH, append_assoc. simpl.
    now rewrite digit_is_digit_char.
Qed.

Lemma append_nil_r (a : string) : (a ++ "")%string = a.
Proof. induction a as [|x a IH]; simpl; [reflexivity|now rewrite IH]. Qed.

Lemma dec_is_decimal n : dec n = decimal n.
Proof. unfold dec, decimal. now rewrite dec_aux_decimal, append_nil_r. Qed.

Lemma format_int64_small v : v < 2 ^ 63 -> format_int64 v = decimal v.
Proof.
  intros H. unfold format_int64.
  assert (H64 : v < 2 ^ 64) by (eapply N.lt_trans; [exact H|reflexivity]).
  rewrite N.mod_small by exact H64.
  apply N.ltb_lt in H. rewrite H. apply dec_is_decimal.
Qed.

(* ---------- intervals a String method tests for ---------- *)

Definition case_interval (c : mcase) : N * N :=
  match c with CEq v _ => (v, v) | CRange lo hi _ _ _ _ => (lo, hi) end.

Definition domain (m : strmethod) : list (N * N) :=
  match m_shape m with
  | SOne sub _ _ _ index =>
      let n := N.of_nat (List.length index) - 1 in
      let lo := match sub with Some k => k | None => 0 end in
      if n =? 0 then [] else [(lo, lo + n - 1)]
  | SMulti cases => map case_interval cases
  | SMap _ entries => map (fun e => (fst e, fst e)) entries
  end.

Definition in_iv (v : N) (iv : N * N) : bool := (fst iv <=? v) && (v <=? snd iv).
Definition in_domain (v : N) (d : list (N * N)) : bool := existsb (in_iv v) d.

(* the only condition the fallback direction needs: the offset added back is
   the one subtracted, it fits the type, and the run does not wrap around *)
Definition shape_ok (bits : N) (m : strmethod) : bool :=
  match m_shape m with
  | SOne sub add _ _ index =>
      let n := N.of_nat (List.length index) - 1 in
      match sub, add with
      | None, None => true
      | Some k, Some k' => (k =? k') && (k <? 2 ^ bits) && (k + n <=? 2 ^ bits)
      | _, _ => false
      end
  | _ => true
  end.

Lemma usub_ge P v k : 0 < P -> k <= v -> v < P -> (v + P - k mod P) mod P = v - k.
Proof.
  intros HP Hk Hv. rewrite (N.mod_small k P) by lia.
  replace (v + P - k) with ((v - k) + 1 * P) by lia.
  rewrite N.mod_add by lia. apply N.mod_small. lia.
Qed.

Lemma usub_lt P v k : v < k -> k < P -> (v + P - k mod P) mod P = v + P - k.
Proof.
  intros Hk HP. rewrite (N.mod_small k P) by lia. apply N.mod_small. lia.
Qed.

Lemma wrap_back P v : 0 < P -> v < P -> (v + P) mod P = v.
Proof.
  intros HP Hv. replace (v + P) with (v + 1 * P) by lia. rewrite N.mod_add by lia. now apply N.mod_small.
Qed.

Lemma pow2_pos bits : 0 < 2 ^ bits.
Proof. apply N.neq_0_lt_0, N.pow_nonzero. discriminate. Qed.

Lemma case_matches_iv c v : case_matches c v = in_iv v (case_interval c).
Proof.
  destruct c as [v0 nm|lo hi sub nm ib ix]; unfold in_iv; simpl; [|reflexivity].
  destruct (N.eqb_spec v v0) as [->|Hne].
  - now rewrite N.leb_refl.
  - symmetry. apply andb_false_iff.
    destruct (N.leb_spec v0 v); [right; apply N.leb_gt; lia|now left].
Qed.

Lemma run_cases_outside bits cases v :
  existsb (in_iv v) (map case_interval cases) = false -> run_cases bits cases v = None.
Proof.
  induction cases as [|c r IH]; simpl; [reflexivity|].
  intros H. apply orb_false_iff in H as [H1 H2].
  rewrite case_matches_iv, H1. now apply IH.
Qed.

Lemma assoc_outside {A} (entries : list (N * A)) v :
  existsb (in_iv v) (map (fun e => (fst e, fst e)) entries) = false -> assoc v entries = None.
Proof.
  induction entries as [|[k a] r IH]; simpl; [reflexivity|].
  intros H. apply orb_false_iff in H as [H1 H2].
  unfold in_iv in H1. simpl in H1.
  destruct (N.eqb_spec v k) as [->|Hne].
  - now rewrite N.leb_refl in H1.
  - now apply IH.
Qed.

(* GENERIC: any String method of the three shapes prints the fallback text for
   every value of the type that none of its tests selects, at any width. *)
Lemma string_of_outside bits m v :
  shape_ok bits m = true -> v < 2 ^ bits -> in_domain v (domain m) = false ->
  string_of bits m v = Some (fallback m v).
Proof.
  unfold shape_ok, in_domain, domain, string_of.
  pose proof (pow2_pos bits) as HP.
  destruct (m_shape m) as [sub add name ib index|cases|name entries]; intros Hok Hv Hout.
  - set (n := N.of_nat (List.length index) - 1) in *.
    destruct sub as [k|], add as [k'|]; try discriminate.
    + apply andb_true_iff in Hok as [Hok Hwrap]. apply andb_true_iff in Hok as [Hk Hfit].
      apply N.eqb_eq in Hk. subst k'. apply N.ltb_lt in Hfit. apply N.leb_le in Hwrap.
      unfold usub, uadd.
      destruct (N.le_gt_cases k v) as [Hge|Hlt].
      * rewrite usub_ge by assumption.
        assert (Hn : n <= v - k).
        { destruct (N.eqb_spec n 0) as [E|NE]; [lia|].
          simpl in Hout. apply orb_false_iff in Hout as [Hout _]. unfold in_iv in Hout. simpl in Hout.
          apply andb_false_iff in Hout as [H|H]; [apply N.leb_gt in H|apply N.leb_gt in H]; lia. }
        apply N.leb_le in Hn. rewrite Hn.
        replace (v - k + k) with v by lia. now rewrite N.mod_small.
      * rewrite usub_lt by assumption.
        assert (Hn : n <= v + 2 ^ bits - k) by lia.
        apply N.leb_le in Hn. rewrite Hn.
        replace (v + 2 ^ bits - k + k) with (v + 2 ^ bits) by lia. now rewrite wrap_back.
    + assert (Hn : n <= v).
      { destruct (N.eqb_spec n 0) as [E|NE]; [lia|].
        simpl in Hout. apply orb_false_iff in Hout as [Hout _]. unfold in_iv in Hout. simpl in Hout.
        apply andb_false_iff in Hout as [H|H]; apply N.leb_gt in H; lia. }
      apply N.leb_le in Hn. now rewrite Hn.
  - now rewrite run_cases_outside.
  - now rewrite assoc_outside.
Qed.

(* ---------- the checker evaluated on every generated type ---------- *)

Definition values (T : gtype) : list N := map snd (t_consts T).

Definition memN (v : N) (l : list N) : bool := existsb (N.eqb v) l.

Lemma memN_In v l : memN v l = true -> In v l.
Proof.
  unfold memN. intros H. apply existsb_exists in H as [x [Hx E]]. apply N.eqb_eq in E. now subst.
Qed.

(* every element of the interval is a constant value (an interval inside a set
   of k values has at most k elements, tested first so that a wrong bound is
   rejected without enumerating it) *)
Definition iv_inside (vals : list N) (iv : N * N) : bool :=
  (snd iv <? fst iv) ||
  ((snd iv - fst iv <? N.of_nat (List.length vals)) &&
   forallb (fun x => memN x vals) (range (N.to_nat (snd iv - fst iv + 1)) (fst iv))).

Lemma iv_inside_In vals iv v : iv_inside vals iv = true -> in_iv v iv = true -> In v vals.
Proof.
  unfold iv_inside, in_iv. intros H Hv.
  apply andb_true_iff in Hv as [H1 H2]. apply N.leb_le in H1. apply N.leb_le in H2.
  apply orb_true_iff in H as [H|H]; [apply N.ltb_lt in H; lia|].
  apply andb_true_iff in H as [_ H]. rewrite forallb_forall in H.
  apply memN_In, H, range_in. rewrite N2Nat.id. lia.
Qed.

Definition const_ok (T : gtype) (c : string * N) : bool :=
  match type_string T (snd c) with
  | Some s => existsb (String.eqb s) (names_of (t_name T) (t_consts T) (snd c))
  | None => false
  end.

Definition type_ok (T : gtype) : bool :=
  negb (t_signed T) && (t_bits T <=? 63) &&
  String.eqb (m_pre (t_rep T)) (t_name T ++ "(") && String.eqb (m_post (t_rep T)) ")" &&
  shape_ok (t_bits T) (t_rep T) &&
  forallb (fun v => v <? 2 ^ t_bits T) (values T) &&
  forallb (iv_inside (values T)) (domain (t_rep T)) &&
  forallb (fun v => in_domain v (domain (t_rep T))) (values T) &&
  forallb (const_ok T) (t_consts T).

Lemma type_ok_cover T v : type_ok T = true ->
  (in_domain v (domain (t_rep T)) = true <-> In v (values T)).
Proof.
  unfold type_ok. intros H.
  repeat (apply andb_true_iff in H as [H ?]).
  split.
  - intros Hd. unfold in_domain in Hd. apply existsb_exists in Hd as [iv [Hiv Hin]].
    match goal with Hx : forallb (iv_inside _) _ = true |- _ => rewrite forallb_forall in Hx; eapply iv_inside_In; [apply Hx; exact Hiv|exact Hin] end.
  - intros Hv.
    match goal with Hx : forallb (fun v => in_domain v _) _ = true |- _ => rewrite forallb_forall in Hx; now apply Hx end.
Qed.

Lemma type_ok_const T n v : type_ok T = true -> In (n, v) (t_consts T) ->
  exists s, type_string T v = Some s /\ In s (names_of (t_name T) (t_consts T) v).
Proof.
  unfold type_ok. intros H Hin.
  apply andb_true_iff in H as [_ H]. rewrite forallb_forall in H.
  specialize (H _ Hin). unfold const_ok in H. simpl in H.
  destruct (type_string T v) as [s|]; [|discriminate].
  exists s. split; [reflexivity|].
  apply existsb_exists in H as [x [Hx E]]. apply String.eqb_eq in E. now subst.
Qed.

Lemma type_ok_other T v : type_ok T = true -> v < 2 ^ t_bits T -> ~ In v (values T) ->
  type_string T v = Some (other_text (t_name T) v).
Proof.
  intros Hok Hv Hnot.
  assert (Hout : in_domain v (domain (t_rep T)) = false).
  { destruct (in_domain v (domain (t_rep T))) eqn:E; [|reflexivity].
    exfalso. apply Hnot. now apply (type_ok_cover T v Hok). }
  unfold type_ok in Hok.
  repeat (apply andb_true_iff in Hok as [Hok ?]).
  unfold type_string. rewrite string_of_outside by assumption.
  unfold fallback, other_text.
  match goal with Hx : String.eqb (m_pre _) _ = true |- _ => apply String.eqb_eq in Hx; rewrite Hx end.
  match goal with Hx : String.eqb (m_post _) _ = true |- _ => apply String.eqb_eq in Hx; rewrite Hx end.
  rewrite format_int64_small.
  - now rewrite append_assoc.
  - match goal with Hx : (t_bits T <=? 63) = true |- _ => apply N.leb_le in Hx end.
    eapply N.lt_le_trans; [exact Hv|]. apply N.pow_le_mono_r; [discriminate|assumption].
Qed.

(* map f l = map g l gives pointwise equality on the members *)
Lemma map_eq_pointwise {A B} (f g : A -> B) l : map f l = map g l -> forall x, In x l -> f x = g x.
Proof.
  induction l as [|a l IH]; simpl; intros H x Hx; [contradiction|].
  injection H as H1 H2. destruct Hx as [->|Hx]; [assumption|now apply IH].
Qed.
