(* C06 at stream level, first piece (encode_is_serialize): the bytes Encode writes are the framed
   serialisation of an explicit record list, laid out as [lay] describes: definition + data record per
   message of a pointer slot, one definition + one data record per message for a slice slot. *)
From Coq Require Import NArith ZArith List Bool Lia String.
From Coq Require Import ZifyN ZifyNat ZifyBool.
From FitV Require Import Model.Values Model.Bytes Model.Base Model.Profile Model.Crc Model.Header
  Model.Components Model.Route Model.Encode Spec.CrcSpec Spec.FitSyntax Spec.Grammar Spec.RoundTrip
  Proofs.Util Proofs.CrcProofs Proofs.EncodeProofs Proofs.C05Grammar Proofs.C06Defs Proofs.StreamDenoteDefs Proofs.StreamDenoteMain Proofs.StreamDenoteFrame Proofs.StreamDenoteDecode
  Gen.Consts Gen.ProfileData Gen.RoutingData.
Import ListNotations.
Local Open Scope N_scope.
Ltac Zify.zify_post_hook ::= Z.div_mod_to_equations.

(* ---------------------------------------------------------------- getEncodeMesgDef covers the set fields *)
Lemma def_fields_cover gmn : forall vals invs i own, def_fields gmn i vals invs = EOk own ->
  forall j v iv, nth_error vals j = Some v -> nth_error invs j = Some iv ->
    unset v iv = true \/ exists pf, get_field_by_sindex gmn (i + j) = Some pf /\ In pf own.
Proof.
  induction vals as [|v0 vr IH]; intros invs i own H j v iv Hv Hiv; [destruct j; discriminate|].
  destruct invs as [|iv0 ir]; [destruct j; discriminate|]. cbn [def_fields] in H.
  assert (Hrest : forall own', def_fields gmn (S i) vr ir = EOk own' -> forall j', j = S j' ->
            unset v iv = true \/ exists pf, get_field_by_sindex gmn (i + j) = Some pf /\ In pf own').
  { intros own' H' j' ->. cbn [nth_error] in Hv, Hiv. replace (i + S j')%nat with (S i + j')%nat by lia. eapply IH; eassumption. }
  assert (Hinc : forall own', match get_field_by_sindex gmn i with
                   | Some pf => ebind (def_fields gmn (S i) vr ir) (fun r => EOk (pf :: r))
                   | None => EPanic 9 end = EOk own' ->
            unset v iv = true \/ exists pf, get_field_by_sindex gmn (i + j) = Some pf /\ In pf own').
  { intros own' H'. destruct (get_field_by_sindex gmn i) as [pf|] eqn:E; [|discriminate].
    apply ebind_ok in H' as (r & Hr & H'). inversion H'; subst own'. destruct j as [|j'].
    - right. exists pf. rewrite Nat.add_0_r. split; [exact E|now left].
    - destruct (Hrest r Hr j' eq_refl) as [Hu|(pf' & Hp & Hin)]; [now left|]. right. exists pf'. split; [exact Hp|now right]. }
  assert (Hskip : unset v0 iv0 = true -> def_fields gmn (S i) vr ir = EOk own ->
            unset v iv = true \/ exists pf, get_field_by_sindex gmn (i + j) = Some pf /\ In pf own).
  { intros Hu H'. destruct j as [|j'].
    - cbn [nth_error] in Hv, Hiv. inversion Hv; inversion Hiv; subst. now left.
    - eapply Hrest; [exact H'|reflexivity]. }
  destruct v0; try (destruct (goval_eqb _ iv0) eqn:Eq; [apply Hskip; [cbn [unset]; exact Eq|exact H]|now apply Hinc]).
  - apply Hskip; [reflexivity|exact H].
  - destruct (get_field_by_sindex gmn i) as [pf|] eqn:E; [|discriminate].
    destruct (b_known _); [|discriminate].
    destruct l; [apply Hskip; [reflexivity|exact H]|]. now apply Hinc.
Qed.

(* the fields of a definition are taken at increasing struct indices below n *)
Inductive picks (gmn : N) (n : nat) : nat -> list pfield -> Prop :=
| picks_nil : forall i, picks gmn n i []
| picks_cons : forall i k pf r, (i <= k < n)%nat -> get_field_by_sindex gmn k = Some pf -> picks gmn n (S k) r ->
    picks gmn n i (pf :: r).

Lemma picks_weaken gmn n i i' l : (i' <= i)%nat -> picks gmn n i l -> picks gmn n i' l.
Proof. intros Hle H. destruct H; [constructor|]. econstructor; [|eassumption|eassumption]. lia. Qed.

Lemma def_fields_picks gmn : forall vals invs i own, def_fields gmn i vals invs = EOk own ->
  picks gmn (i + List.length vals) i own.
Proof.
  induction vals as [|v0 vr IH]; intros invs i own H; cbn [def_fields] in H; [inversion H; constructor|].
  destruct invs as [|iv0 ir]; [inversion H; constructor|]. cbn [List.length].
  replace (i + S (List.length vr))%nat with (S i + List.length vr)%nat by lia.
  assert (Hskip : def_fields gmn (S i) vr ir = EOk own -> picks gmn (S i + List.length vr) i own).
  { intros H'. apply (picks_weaken gmn _ (S i)); [lia|]. eapply IH; eassumption. }
  assert (Hinc : forall own', match get_field_by_sindex gmn i with
                   | Some pf => ebind (def_fields gmn (S i) vr ir) (fun r => EOk (pf :: r))
                   | None => EPanic 9 end = EOk own' -> picks gmn (S i + List.length vr) i own').
  { intros own' H'. destruct (get_field_by_sindex gmn i) as [pf|] eqn:E; [|discriminate].
    apply ebind_ok in H' as (r & Hr & H'). inversion H'; subst own'.
    econstructor; [|exact E|eapply IH; eassumption]. lia. }
  destruct v0; try (destruct (goval_eqb _ iv0); [now apply Hskip|now apply Hinc]).
  - now apply Hskip.
  - destruct (get_field_by_sindex gmn i) as [pf|] eqn:E; [|discriminate].
    destruct (b_known _); [|discriminate]. destruct l; [now apply Hskip|now apply Hinc].
Qed.

Definition num_at (gmn : N) (i : nat) : N := match get_field_by_sindex gmn i with Some pf => pf_num pf | None => 999 end.

Lemma picks_in gmn n : forall l i q, picks gmn n i l -> In q l -> exists k, (i <= k < n)%nat /\ get_field_by_sindex gmn k = Some q.
Proof.
  induction l as [|pf r IH]; intros i q Hp Hin; [contradiction|].
  inversion Hp as [|? k ? ? Hle Hk Hr]; subst. destruct Hin as [->|Hin]; [exists k; auto|].
  destruct (IH _ _ Hr Hin) as (k' & Hk' & E). exists k'. split; [lia|exact E].
Qed.

Lemma picks_nodup gmn n : (forall k k', (k < n)%nat -> (k' < n)%nat -> num_at gmn k = num_at gmn k' -> k = k') ->
  forall l i, picks gmn n i l -> NoDup (map pf_num l).
Proof.
  intros Hinj. induction l as [|pf r IH]; intros i Hp; [constructor|].
  inversion Hp as [|? k ? ? Hle Hk Hr]; subst. cbn [map]. constructor; [|eapply IH; eassumption].
  intros Hc. apply in_map_iff in Hc as (q & Hq & Hqin).
  destruct (picks_in _ _ _ _ _ Hr Hqin) as (k' & Hk' & Ek').
  assert (k = k'); [|lia]. apply Hinj; [lia|lia|]. unfold num_at. now rewrite Hk, Ek'.
Qed.

Lemma nodup_n_NoDup l : nodup_n l = true -> NoDup l.
Proof.
  induction l as [|x r IH]; intros H; [constructor|]. cbn [nodup_n] in H. apply andb_true_iff in H as [H1 H2].
  constructor; [|now apply IH]. intros Hin. apply negb_true_iff in H1. rewrite <- not_true_iff_false in H1. apply H1.
  apply existsb_exists. exists x. split; [exact Hin|apply N.eqb_refl].
Qed.

Lemma NoDup_map_inj {A B} (g : A -> B) : forall l, NoDup (map g l) -> forall a b, In a l -> In b l -> g a = g b -> a = b.
Proof.
  induction l as [|x r IH]; intros Hnd a b Ha Hb E; [contradiction|]. cbn [map] in Hnd. inversion Hnd as [|? ? Hx Hr]; subst.
  destruct Ha as [->|Ha]; destruct Hb as [->|Hb]; [reflexivity| | |now apply IH].
  - exfalso. apply Hx. rewrite E. now apply in_map.
  - exfalso. apply Hx. rewrite <- E. now apply in_map.
Qed.

Lemma msg_num_inj gmn md : find_msg gmn = Some md ->
  forall k k', (k < List.length (md_layout md))%nat -> (k' < List.length (md_layout md))%nat -> num_at gmn k = num_at gmn k' -> k = k'.
Proof.
  intros Ef k k' Hk Hk' E. pose proof (find_msg_ok _ _ Ef) as Hok. pose proof (find_msg_num _ _ Ef) as Hn.
  unfold msg_ok in Hok. apply andb_true_iff in Hok as [_ Hnd]. rewrite Hn in Hnd. apply nodup_n_NoDup in Hnd.
  apply (NoDup_map_inj (num_at gmn) _ Hnd); [apply in_seq; lia|apply in_seq; lia|exact E].
Qed.

(* what getEncodeMesgDef returns for a message whose struct has the layout's length *)
Lemma get_def_menc_facts m own :
  get_encode_mesg_def m = EOk own -> List.length (m_fields m) = List.length (msg_layout (m_num m)) ->
  NoDup (map pf_num own) /\ covers m own.
Proof.
  intros H Hlen. unfold get_encode_mesg_def in H.
  destruct (mesg_all_invalid (m_num m)) as [inv|] eqn:Einv; [|discriminate].
  destruct (Nat.eqb _ _) eqn:El; [|discriminate]. cbn [negb] in H. apply Nat.eqb_eq in El. split.
  - pose proof (def_fields_picks _ _ _ _ _ H) as Hp. cbn [Nat.add] in Hp.
    unfold mesg_all_invalid in Einv. destruct (find_msg (m_num m)) as [md|] eqn:Ef; [|discriminate].
    eapply (picks_nodup _ _ ); [|exact Hp]. rewrite Hlen. unfold msg_layout. rewrite Ef. apply (msg_num_inj _ _ Ef).
  - exists inv. split; [exact Einv|]. split; [exact El|]. intros i v iv Hv Hiv.
    destruct (def_fields_cover _ _ _ _ _ H i v iv Hv Hiv) as [Hu|(pf & Hp & Hin)]; [now left|].
    right. exists pf. split; [exact Hp|now apply in_map].
Qed.

(* ---------------------------------------------------------------- the merged definition of a slice covers every element *)
Lemma ins_field_nums pf : forall l n, (In n (map pf_num l) \/ n = pf_num pf) -> In n (map pf_num (ins_field pf l)).
Proof.
  induction l as [|q r IH]; intros n H; cbn [ins_field].
  - destruct H as [[]| ->]. now left.
  - destruct (pf_num pf <? pf_num q) eqn:E1.
    + cbn [map]. destruct H as [H| ->]; [right; exact H|now left].
    + destruct (pf_num pf =? pf_num q) eqn:E2.
      * apply N.eqb_eq in E2. cbn [map] in *. destruct H as [[H|H]| ->]; [left; congruence|right; exact H|now left].
      * cbn [map] in *. destruct H as [[H|H]| ->]; [now left|right; apply IH; now left|right; apply IH; now right].
Qed.

Lemma fold_ins_nums : forall fs acc n, (In n (map pf_num acc) \/ In n (map pf_num fs)) ->
  In n (map pf_num (fold_left (fun a pf => ins_field pf a) fs acc)).
Proof.
  induction fs as [|pf r IH]; intros acc n H; cbn [fold_left].
  - destruct H as [H|[]]. exact H.
  - apply IH. cbn [map] in H. destruct H as [H|[H|H]].
    + left. apply ins_field_nums. now left.
    + left. apply ins_field_nums. right. now symmetry.
    + now right.
Qed.

Lemma collect_fields_nums : forall ms acc fs, collect_fields ms acc = EOk fs ->
  (forall n, In n (map pf_num acc) -> In n (map pf_num fs)) /\
  (forall m, In m ms -> exists own, get_encode_mesg_def m = EOk own /\ forall n, In n (map pf_num own) -> In n (map pf_num fs)).
Proof.
  induction ms as [|m r IH]; intros acc fs H; cbn [collect_fields] in H.
  - inversion H; subst. split; [auto|intros m []].
  - apply ebind_ok in H as (d & Hd & H). destruct (IH _ _ H) as [H1 H2]. split.
    + intros n Hn. apply H1. apply fold_ins_nums. now left.
    + intros m0 [<-|Hin]; [|now apply H2]. exists d. split; [exact Hd|]. intros n Hn. apply H1. apply fold_ins_nums. now right.
Qed.

Lemma covers_mono m own fields : covers m own -> (forall n, In n (map pf_num own) -> In n (map pf_num fields)) -> covers m fields.
Proof.
  intros (inv & H1 & H2 & H3) Hincl. exists inv. split; [exact H1|]. split; [exact H2|]. intros i v iv Hv Hiv.
  destruct (H3 i v iv Hv Hiv) as [Hu|(pf & Hp & Hin)]; [now left|]. right. exists pf. split; [exact Hp|now apply Hincl].
Qed.

(* ---------------------------------------------------------------- bytes of the records *)
Lemma put16_put_int be g : put16 be g = put_int be 2 g.
Proof. destruct be; reflexivity. Qed.

Lemma ser_fdefs fields : flat_map ser_fdef (map sfdef_of fields) = fbytes fields.
Proof. induction fields as [|pf r IH]; [reflexivity|]. unfold fbytes in *. cbn [map flat_map]. now rewrite IH. Qed.

Lemma write_def_ser be gmn fields d :
  write_def_mesg be gmn fields = EOk d -> gmn < 65536 -> N.of_nat (List.length fields) < 256 ->
  d = ser_record (rdef_of be gmn fields).
Proof.
  intros H Hg Hn. unfold write_def_mesg in H. apply ebind_ok in H as (fb & Hfb & H).
  apply econcat_fdefs in Hfb. subst fb. inversion H; subst; clear H.
  change (N.lor c_mesgDefinitionMask (N.land 0 c_localMesgNumMask)) with 64.
  rewrite (N.mod_small _ _ Hg), (N.mod_small _ _ Hn).
  unfold rdef_of, ser_record. rewrite map_length, ser_fdefs, put16_put_int, app_nil_r. reflexivity.
Qed.

Lemma write_mesg_ser parts : 0 :: List.concat parts = ser_record (rdata_of parts).
Proof. unfold rdata_of, ser_record. now rewrite app_nil_r. Qed.

(* ---------------------------------------------------------------- messages, slots, File *)
Definition len_ok (m : msg) : Prop := List.length (m_fields m) = List.length (msg_layout (m_num m)).

Lemma write_mesg_parts be m fields w : write_mesg be m fields = EOk w ->
  exists parts, Forall2 (fun pf p => field_out be m pf = EOk p) fields parts /\ w = 0 :: List.concat parts.
Proof.
  intros H. unfold write_mesg in H. apply ebind_ok in H as (body & Hb & H). inversion H; subst; clear H.
  apply (econcat_map_parts (field_out be m)) in Hb as (parts & HF & ->). exists parts. split; [exact HF|reflexivity].
Qed.

Lemma unit_lay be m bytes : encode_def_and_data be m = EOk bytes -> len_ok m ->
  exists fields parts, menc be m fields parts /\
    bytes = ser_record (rdef_of be (m_num m) fields) ++ ser_record (rdata_of parts).
Proof.
  intros H Hlen. unfold encode_def_and_data in H.
  apply ebind_ok in H as (fs & Hfs & H). apply ebind_ok in H as (d & Hd & H). apply ebind_ok in H as (w & Hw & H).
  inversion H; subst; clear H. destruct (get_def_facts _ _ Hfs) as (Hfp & Hg & Hn).
  destruct (get_def_menc_facts _ _ Hfs Hlen) as (Hnd & Hcov).
  destruct (write_mesg_parts _ _ _ _ Hw) as (parts & HF & ->).
  exists fs, parts. split; [repeat split; assumption|].
  rewrite (write_def_ser _ _ _ _ Hd Hg Hn), write_mesg_ser. reflexivity.
Qed.

Lemma lay_app be : forall ms1 rs1 ms2 rs2, lay be ms1 rs1 -> lay be ms2 rs2 -> lay be (ms1 ++ ms2) (rs1 ++ rs2).
Proof.
  intros ms1 rs1 ms2 rs2 H1 H2. induction H1 as [|m fields parts ms rs Hm Hl IH|mn fields group partss ms rs Hne Hg HF Hl IH].
  - exact H2.
  - cbn [app]. now constructor.
  - rewrite <- app_assoc. change ((rdef_of be mn fields :: map rdata_of partss ++ rs) ++ rs2)
      with (rdef_of be mn fields :: (map rdata_of partss ++ rs) ++ rs2). rewrite <- app_assoc. now constructor.
Qed.

Lemma ser_records_app a b : ser_records (a ++ b) = ser_records a ++ ser_records b.
Proof. unfold ser_records. apply flat_map_app. Qed.

Lemma units_lay be : forall ms bytes, econcat (map (encode_def_and_data be) ms) = EOk bytes -> Forall len_ok ms ->
  exists rs, lay be ms rs /\ bytes = ser_records rs.
Proof.
  induction ms as [|m ms IH]; intros bytes H Hl; cbn [map econcat] in H.
  - inversion H. exists []. split; [constructor|reflexivity].
  - apply ebind_ok in H as (a & Ha & H). apply ebind_ok in H as (b & Hb & H). inversion H; subst; clear H.
    inversion Hl as [|? ? Hl1 Hl2]; subst. destruct (unit_lay _ _ _ Ha Hl1) as (fields & parts & Hm & ->).
    destruct (IH _ Hb Hl2) as (rs & Hlay & ->).
    exists (rdef_of be (m_num m) fields :: rdata_of parts :: rs). split; [now constructor|].
    unfold ser_records. cbn [flat_map]. now rewrite <- app_assoc.
Qed.

Lemma slice_parts be fields : forall ms body, econcat (map (fun m => write_mesg be m fields) ms) = EOk body ->
  exists partss, Forall2 (fun m parts => Forall2 (fun pf p => field_out be m pf = EOk p) fields parts) ms partss /\
    body = ser_records (map rdata_of partss).
Proof.
  induction ms as [|m ms IH]; intros body H; cbn [map econcat] in H.
  - inversion H. exists []. split; [constructor|reflexivity].
  - apply ebind_ok in H as (a & Ha & H). apply ebind_ok in H as (b & Hb & H). inversion H; subst; clear H.
    destruct (write_mesg_parts _ _ _ _ Ha) as (parts & HF & ->). destruct (IH _ Hb) as (partss & HFs & ->).
    exists (parts :: partss). split; [now constructor|]. unfold ser_records. cbn [map flat_map]. now rewrite <- write_mesg_ser.
Qed.

Lemma slice_lay be mn ms bytes : Forall (fun m => m_num m = mn) ms -> Forall len_ok ms -> mn < 65536 ->
  encode_slice be ms = EOk bytes -> exists rs, lay be ms rs /\ bytes = ser_records rs.
Proof.
  intros Hm Hl Hmn H. unfold encode_slice in H. destruct ms as [|m0 mr] eqn:Ems.
  { inversion H. exists []. split; [constructor|reflexivity]. }
  rewrite <- Ems in *. assert (Hne : ms <> []) by (rewrite Ems; discriminate).
  apply ebind_ok in H as (fs & Hfs & H). apply ebind_ok in H as (d & Hd & H). apply ebind_ok in H as (b & Hb & H).
  inversion H; subst bytes; clear H. rewrite (last_num mn _ _ Hne Hm) in Hd.
  destruct (collect_fields_inv mn ms [] fs Hm (Forall_nil _) I Hfs) as [Hfp Hs].
  assert (Hn : N.of_nat (List.length fs) < 256).
  { destruct fs as [|p0 r0] eqn:Efs; [reflexivity|]. rewrite <- Efs in *.
    apply (sorted_fields_short mn fs Hfp Hs). rewrite Efs. discriminate. }
  destruct (collect_fields_nums _ _ _ Hfs) as [_ Hcov].
  destruct (slice_parts _ _ _ _ Hb) as (partss & HFs & ->).
  assert (HM : Forall2 (fun m parts => menc be m fs parts) ms partss).
  { clear - HFs Hm Hl Hfp Hs Hcov. induction HFs as [|m parts ms partss Hp HF IH]; [constructor|].
    inversion Hm as [|? ? Hm1 Hm2]; subst. inversion Hl as [|? ? Hl1 Hl2]; subst. constructor.
    - destruct (Hcov m (or_introl eq_refl)) as (own & Hown & Hincl).
      destruct (get_def_menc_facts _ _ Hown Hl1) as (_ & Hc).
      repeat split; [exact Hfp|now apply ssorted_nodup|exact Hp|eapply covers_mono; eassumption].
    - apply IH; [assumption|assumption|]. intros m1 Hin. apply Hcov. now right. }
  exists (rdef_of be mn fs :: map rdata_of partss ++ []). split.
  - rewrite <- (app_nil_r ms). apply lay_slice; [exact Hne|exact Hm|exact HM|constructor].
  - rewrite app_nil_r. rewrite (write_def_ser _ _ _ _ Hd Hmn Hn). reflexivity.
Qed.

Lemma vals_typed_length : forall layout vals, vals_typed layout vals = true -> List.length vals = List.length layout.
Proof.
  induction layout as [|[n t] lr IH]; intros vals H; destruct vals as [|v vr]; try discriminate; [reflexivity|].
  cbn [vals_typed] in H. apply andb_true_iff in H as [_ H]. cbn [List.length]. now rewrite (IH _ H).
Qed.

Lemma msgs_wf_len mn s : forallb (msg_wf mn) s = true -> Forall len_ok s.
Proof.
  intros H. apply Forall_forall. intros m Hin. rewrite forallb_forall in H. apply H in Hin.
  unfold msg_wf in Hin. apply andb_true_iff in Hin as [Hn Ht]. apply N.eqb_eq in Hn. unfold len_ok. rewrite Hn.
  now apply vals_typed_length.
Qed.

Lemma encode_slots_lay be : forall descs i slots bytes,
  slots_wf i descs slots = true -> descs_ok descs = true -> encode_slots be i descs slots = EOk bytes ->
  exists rs, lay be (visible i slots) rs /\ bytes = ser_records rs.
Proof.
  induction descs as [|[[nm multi] mn] dr IH]; intros i slots bytes Hwf Hdk H.
  - destruct slots; [|discriminate]. cbn [encode_slots] in H. inversion H. exists []. split; [constructor|reflexivity].
  - destruct slots as [|s sr]; [discriminate|]. cbn [slots_wf] in Hwf. cbn [encode_slots] in H. cbn [visible].
    apply andb_true_iff in Hwf as [Hwf Hrest]. apply andb_true_iff in Hwf as [Hwf _]. apply andb_true_iff in Hwf as [Hmsgs _].
    unfold descs_ok in Hdk. cbn [forallb snd] in Hdk. apply andb_true_iff in Hdk as [Hmn Hdk]. apply N.ltb_lt in Hmn.
    destruct (Nat.eqb i 3 || Nat.eqb i 4).
    + cbn [app]. eapply IH; eassumption.
    + apply ebind_ok in H as (a & Ha & H). apply ebind_ok in H as (b & Hb & H). inversion H; subst; clear H.
      assert (S1 : exists r1, lay be s r1 /\ a = ser_records r1).
      { unfold encode_slot in Ha. destruct multi.
        - eapply slice_lay; [apply msgs_wf_num; exact Hmsgs|eapply msgs_wf_len; exact Hmsgs|exact Hmn|exact Ha].
        - apply units_lay; [exact Ha|eapply msgs_wf_len; exact Hmsgs]. }
      destruct S1 as (r1 & L1 & ->). destruct (IH (S i) sr b Hrest Hdk Hb) as (r2 & L2 & ->).
      exists (r1 ++ r2). split; [now apply lay_app|now rewrite ser_records_app].
Qed.

(* ---------------------------------------------------------------- the record list is serialisable *)
Definition canon_ok (m : msgdesc) : bool := forallb (fun e => N.land (fit_base (pf_t (snd e))) 0x60 =? 0) (md_entries m).
Lemma profile_canon_ok : forallb canon_ok messages = true.
Proof. vm_compute. reflexivity. Qed.

Lemma from_profile_canon gmn pf : from_profile gmn pf -> Proofs.StreamDenoteDefs.canon_bt (sfdef_of pf) = true.
Proof.
  intros (i & Hi). apply by_sindex_in in Hi as (md & e & Hm & He & <- & _).
  pose proof profile_canon_ok as T. rewrite forallb_forall in T. specialize (T _ Hm). unfold canon_ok in T.
  rewrite forallb_forall in T. exact (T _ He).
Qed.

Lemma covers_num_lt m fields : covers m fields -> m_num m < 65536.
Proof.
  intros (inv & H & _). unfold mesg_all_invalid in H. destruct (find_msg (m_num m)) as [md|] eqn:Ef; [|discriminate].
  destruct (msg_ok_parts _ (find_msg_ok _ _ Ef)) as (H1 & _). now rewrite (find_msg_num _ _ Ef) in H1.
Qed.

Lemma is_bytes_all_bytes l : is_bytes l -> all_bytes l = true.
Proof. unfold all_bytes, is_byte. apply forallb_is_bytes. Qed.

Lemma rdef_wf be gmn fields : is_bytes (ser_record (rdef_of be gmn fields)) -> gmn < 65536 -> Forall (from_profile gmn) fields ->
  Proofs.StreamDenoteDefs.rec_wf (rdef_of be gmn fields) = true.
Proof.
  intros Hb Hg Hfp. unfold Proofs.StreamDenoteDefs.rec_wf. rewrite (is_bytes_all_bytes _ Hb). unfold rdef_of.
  replace (gmn <? 65536) with true by (symmetry; now apply N.ltb_lt). cbn [andb].
  rewrite forallb_map_comp. apply forallb_forall. intros pf Hin. rewrite Forall_forall in Hfp.
  eapply from_profile_canon. now apply Hfp.
Qed.

Lemma rdata_wf parts : is_bytes (ser_record (rdata_of parts)) -> Proofs.StreamDenoteDefs.rec_wf (rdata_of parts) = true.
Proof. intros Hb. unfold Proofs.StreamDenoteDefs.rec_wf. rewrite (is_bytes_all_bytes _ Hb). reflexivity. Qed.

Lemma lay_stream_wf be : forall ms rs, lay be ms rs -> is_bytes (ser_records rs) -> Proofs.StreamDenoteDefs.stream_wf rs = true.
Proof.
  intros ms rs H. induction H as [|m fields parts ms rs Hm Hl IH|mn fields group partss ms rs Hne Hg HF Hl IH]; intros Hb.
  - reflexivity.
  - unfold ser_records in Hb. cbn [flat_map] in Hb. apply is_bytes_app_inv in Hb as [Hb1 Hb]. apply is_bytes_app_inv in Hb as [Hb2 Hb3].
    destruct Hm as (Hfp & _ & _ & Hcov). unfold Proofs.StreamDenoteDefs.stream_wf. cbn [forallb].
    rewrite (rdef_wf _ _ _ Hb1 (covers_num_lt _ _ Hcov) Hfp), (rdata_wf _ Hb2). cbn [andb]. now apply IH.
  - unfold ser_records in Hb. cbn [flat_map] in Hb. apply is_bytes_app_inv in Hb as [Hb1 Hb].
    fold (ser_records (map rdata_of partss ++ rs)) in Hb. rewrite ser_records_app in Hb. apply is_bytes_app_inv in Hb as [Hb2 Hb3].
    destruct group as [|m0 gr]; [congruence|]. inversion HF as [|? p0 ? ps0 Hm0 HF0]; subst.
    inversion Hg as [|? ? Hn0 _]; subst. destruct Hm0 as (Hfp & _ & _ & Hcov).
    unfold Proofs.StreamDenoteDefs.stream_wf. cbn [forallb].
    rewrite (rdef_wf _ _ _ Hb1 (covers_num_lt _ _ Hcov) Hfp). cbn [andb]. rewrite forallb_app.
    fold (Proofs.StreamDenoteDefs.stream_wf rs). rewrite (IH Hb3), andb_true_r.
    clear - Hb2. revert Hb2. generalize (p0 :: ps0). intros l. induction l as [|p l IHl]; intros Hb; [reflexivity|].
    cbn [map forallb]. unfold ser_records in Hb. cbn [map flat_map] in Hb. apply is_bytes_app_inv in Hb as [H1 H2].
    rewrite (rdata_wf _ H1). cbn [andb]. now apply IHl.
Qed.

Lemma lay_starts be m0 rest rs : lay be (m0 :: rest) rs -> m_num m0 = c_MesgNumFileId ->
  Proofs.StreamDenoteMain.starts_with_file_id rs = true.
Proof.
  intros H Hn. inversion H as [|m fields parts ms rs' Hm Hl|mn fields group partss ms rs' Hne Hg HF Hl]; subst.
  - unfold Proofs.StreamDenoteMain.starts_with_file_id, rdef_of, rdata_of. rewrite Hn. reflexivity.
  - destruct group as [|g0 gr]; [congruence|]. inversion HF as [|? p0 ? ps0 _ _]; subst.
    match goal with E : (_ :: _) ++ _ = _ :: _ |- _ => inversion E; subst end.
    inversion Hg as [|? ? Hn0 _]; subst.
    unfold Proofs.StreamDenoteMain.starts_with_file_id, rdef_of. cbn [map app rdata_of]. unfold rdata_of. rewrite Hn. reflexivity.
Qed.

(* ---------------------------------------------------------------- framing *)
(* the header on the wire: the File's header with the data size written; its CRC field is the one
   Encode computed (14-byte header) or absent (12-byte header) *)
Definition wire_header (hf : header) (dsz : N) : header :=
  mk_header (h_size hf) (h_proto hf) (h_profile hf) dsz fit_dtype
            (if h_size hf =? 14 then checksum (hdr12 (h_size hf) (h_proto hf) (h_profile hf) dsz) else 0).

Lemma wire_header_bytes12 hf dsz : header_bytes12 (wire_header hf dsz) = hdr12 (h_size hf) (h_proto hf) (h_profile hf) dsz.
Proof. apply header_bytes12_eq. reflexivity. Qed.

Lemma wire_header_wf hf dsz : wf_header hf = true -> proto_ok (h_proto hf) = true -> h_profile hf < 65536 -> dsz < 4294967296 ->
  header_wf (wire_header hf dsz).
Proof.
  intros Hwf Hpo Hpr Hd. unfold wf_header in Hwf. apply andb_true_iff in Hwf as [Hwf _]. apply andb_true_iff in Hwf as [Hsz Hp].
  apply N.ltb_lt in Hp. unfold header_wf. rewrite wire_header_bytes12. unfold wire_header. cbn [h_size h_proto h_profile h_dsize h_dtype h_crc].
  apply orb_true_iff in Hsz as [E|E]; apply N.eqb_eq in E; rewrite E.
  - split; [right; reflexivity|]. repeat split; try assumption; try reflexivity. intros C. discriminate C.
  - split; [left; reflexivity|]. repeat split; try assumption; try reflexivity. + intros C. discriminate C. + intros _. right. reflexivity.
Qed.

Theorem encode_is_serialize f be bs f' :
  wf_file f = true -> wf_header (f_header f) = true ->
  proto_ok (h_proto (f_header f)) = true -> h_profile (f_header f) < 65536 ->
  encode f be = EOk (bs, f') -> N.of_nat (List.length bs) < 4294967296 ->
  exists rs, let h := wire_header (f_header f) (N.of_nat (List.length (ser_records rs))) in
    bs = fit_file h rs /\ header_wf h /\ h_dsize h = N.of_nat (List.length (ser_records rs)) /\
    lay be (file_msgs f) rs /\ stream_wf rs = true /\ starts_with_file_id rs = true.
Proof.
  intros Hwf Hh Hpo Hpr Henc Hlen.
  destruct (encode_framed f be bs f' Hh Henc Hlen) as (data & hc & crc & Hdata & Hdb & Hdl & Hrest).
  cbv zeta in Hrest. destruct Hrest as (Hb12 & Hhc & Hcrc & Hds & Hcase).
  unfold enc_data in Hdata. pose proof Hwf as Hwf0. unfold wf_file in Hwf.
  destruct (f_inited f) as [ft|]; [|discriminate]. apply andb_true_iff in Hwf as [Eft Hwf]. apply N.eqb_eq in Eft. subst ft.
  destruct (ft_entry (file_type f)) as [[[ok cn] descs]|] eqn:Efe; [|discriminate]. destruct ok; [|discriminate].
  pose proof (ft_entry_descs_ok _ _ _ _ Efe) as Hdk.
  destruct (encode_slots_lay be descs 0 (f_slots f) _ Hwf Hdk Hdata) as (rs & Hlay & ->).
  rewrite visible_0 in Hlay. fold (file_msgs f) in Hlay.
  exists rs. cbv zeta. set (dsz := N.of_nat (List.length (ser_records rs))) in *.
  split; [|split; [now apply wire_header_wf|split; [reflexivity|split; [exact Hlay|split; [eapply lay_stream_wf; eassumption|]]]]].
  - unfold fit_file, frame_bytes, file_crc, hdr_bytes. rewrite wire_header_bytes12.
    unfold wire_header at 1 2 3 4. cbn [h_size h_crc]. change c_headerSizeCRC with 14.
    destruct Hcase as [(E & Hbs & Hc)|(E & Hbs & Hc & _)]; rewrite E in *.
    + cbn [N.eqb Pos.eqb]. rewrite Hbs, Hc. unfold framed. rewrite app_nil_r. fold dsz. reflexivity.
    + cbn [N.eqb Pos.eqb]. rewrite Hbs, Hc, Hhc. unfold framed. fold dsz. rewrite <- !app_assoc. reflexivity.
  - (* the first message is the file_id *)
    assert (Hd0 : exists nm0 multi0 dr, descs = (nm0, multi0, c_MesgNumFileId) :: dr).
    { unfold ft_entry in Efe. destruct (find _ file_types) as [[[[a b] c] d]|] eqn:E; [|discriminate]. inversion Efe; subst.
      apply find_some in E as [Hin _].
      assert (T : forallb (fun e : N * bool * string * list (string * bool * N) =>
                   let '(_, okk, _, ds) := e in if okk then match ds with (_, _, mn) :: _ => mn =? 0 | [] => false end else true) file_types = true)
        by (vm_compute; reflexivity).
      rewrite forallb_forall in T. specialize (T _ Hin). cbv beta iota in T.
      destruct descs as [|[[nm0 multi0] mn0] dr]; [discriminate|]. apply N.eqb_eq in T. subst mn0. eauto. }
    destruct Hd0 as (nm0 & multi0 & dr & ->).
    destruct (f_slots f) as [|s0 sr] eqn:Es; [discriminate|]. cbn [slots_wf Nat.eqb] in Hwf.
    apply andb_true_iff in Hwf as [Hwf _]. apply andb_true_iff in Hwf as [Hwf H1]. apply andb_true_iff in Hwf as [Hmsgs _].
    destruct s0 as [|m0 [|m1 s0r]]; try discriminate.
    cbn [forallb] in Hmsgs. apply andb_true_iff in Hmsgs as [Hm0 _]. unfold msg_wf in Hm0. apply andb_true_iff in Hm0 as [Hn0 _].
    apply N.eqb_eq in Hn0. unfold file_msgs in Hlay. rewrite Es in Hlay.
    destruct sr as [|s1 [|s2 sr']]; cbn [firstn List.concat app] in Hlay; eapply lay_starts; try exact Hlay; exact Hn0.
Qed.
