(* Stream-level decode = denote, framing lift: a fact about the ABSTRACT run of
   the data program over the data part of a file is lifted to the entry point
   [decode o MFull] reading header ++ data ++ crc ++ extra from a reader oracle
   with any chunk schedule (empty reads included), any terminal condition and
   any data-with-EOF flag. *)
From Coq Require Import NArith ZArith List Bool Arith Lia.
From Coq Require Import ZifyN ZifyNat ZifyBool.
From FitV Require Import Proofs.Util Model.Bytes Model.Crc Spec.CrcSpec Proofs.CrcProofs Model.IO Model.Header
  Model.Route Model.Decode Gen.Consts Proofs.IOSim.
Import ListNotations.
Ltac Zify.zify_post_hook ::= Z.div_mod_to_equations.

(* ------------------------------------------------------------ 1. raw reads *)

(* the termination measure of every loop over a reader *)
Definition msr (r : reader) : nat := length (rd_data r) + length (rd_sched r).

Lemma tl_length_le {A} (l : list A) : length (tl l) <= length l.
Proof. destruct l; cbn [tl length]; lia. Qed.

(* one Read call on a reader that still holds data *)
Lemma rd_read_some r k b0 d0 : rd_data r = b0 :: d0 -> 1 <= k ->
  exists cap e,
    rd_read r k = (firstn cap (rd_data r), e,
                   mk_reader (skipn cap (rd_data r)) (tl (rd_sched r)) (rd_term r) (rd_ewd r)
                             (rd_pos r + length (firstn cap (rd_data r)))) /\
    cap <= k /\
    (cap = 0 -> length (tl (rd_sched r)) < length (rd_sched r)) /\
    (e = None \/ skipn cap (rd_data r) = []).
Proof.
  intros Ed Hk. unfold rd_read. rewrite Ed.
  set (cap := match rd_sched r with [] => k | c :: _ => Nat.min c k end).
  exists cap. eexists. split; [reflexivity|].
  split; [unfold cap; destruct (rd_sched r); lia|].
  split.
  - unfold cap. destruct (rd_sched r) as [|c0 sc]; [lia|]. intros _. cbn [tl length]. lia.
  - destruct (skipn cap (b0 :: d0)); [right; reflexivity|left; reflexivity].
Qed.

Lemma io_read_full_acc : forall fuel rd n acc pre rest,
  rd_data rd = pre ++ rest -> length acc + length pre = n -> msr rd < fuel ->
  exists rd', io_read_full fuel rd n acc = Done (acc ++ pre, None, rd') /\
    rd_data rd' = rest /\ rd_term rd' = rd_term rd /\ rd_ewd rd' = rd_ewd rd /\
    rd_pos rd' = rd_pos rd + length pre /\ msr rd' <= msr rd.
Proof.
  induction fuel as [|f IH]; intros rd n acc pre rest Hd Hn Hf; [lia|].
  cbn [io_read_full].
  destruct (Nat.leb_spec n (length acc)) as [L|L].
  - assert (Hp : pre = []) by (destruct pre; [reflexivity|cbn [length] in Hn; lia]).
    subst pre. cbn [app length] in *. exists rd. rewrite app_nil_r.
    repeat split; try assumption; lia.
  - destruct pre as [|b0 pre0] eqn:Epre; [cbn [length] in Hn; lia|]. rewrite <- Epre in *.
    assert (Hlp : 1 <= length pre) by (rewrite Epre; cbn [length]; lia).
    assert (Ed : rd_data rd = b0 :: pre0 ++ rest) by (rewrite Hd, Epre; reflexivity).
    destruct (rd_read_some rd (n - length acc) b0 (pre0 ++ rest) Ed ltac:(lia)) as (cap & e & Hrr & Hcap & Hc0 & He).
    rewrite Hrr. clear Hrr.
    assert (Hcl : cap <= length pre) by lia.
    assert (Hfn : firstn cap (rd_data rd) = firstn cap pre).
    { rewrite Hd, firstn_app. replace (cap - length pre) with 0 by lia. cbn [firstn]. apply app_nil_r. }
    assert (Hsk : skipn cap (rd_data rd) = skipn cap pre ++ rest).
    { rewrite Hd, skipn_app. replace (cap - length pre) with 0 by lia. reflexivity. }
    rewrite Hfn, Hsk in *.
    set (r1 := mk_reader (skipn cap pre ++ rest) (tl (rd_sched rd)) (rd_term rd) (rd_ewd rd)
                         (rd_pos rd + length (firstn cap pre))).
    assert (Hfl : length (firstn cap pre) = cap) by (rewrite firstn_length; lia).
    assert (Hsl : length (skipn cap pre) = length pre - cap) by apply skipn_length.
    assert (Hm1 : msr r1 < msr rd).
    { unfold msr, r1. cbn [rd_data rd_sched]. rewrite Hd, !app_length, Hsl.
      pose proof (tl_length_le (rd_sched rd)). destruct cap as [|cap']; [specialize (Hc0 eq_refl)|]; lia. }
    assert (Hrec : exists rd', io_read_full f r1 n (acc ++ firstn cap pre) = Done (acc ++ pre, None, rd') /\
      rd_data rd' = rest /\ rd_term rd' = rd_term rd /\ rd_ewd rd' = rd_ewd rd /\
      rd_pos rd' = rd_pos rd + length pre /\ msr rd' <= msr rd).
    { destruct (IH r1 n (acc ++ firstn cap pre) (skipn cap pre) rest) as (rd' & H1 & H2 & H3 & H4 & H5 & H6).
      - reflexivity.
      - rewrite app_length, Hfl, Hsl. lia.
      - lia.
      - exists rd'. rewrite <- app_assoc, firstn_skipn in H1.
        repeat split; try assumption. + rewrite H5. unfold r1. cbn [rd_pos]. rewrite Hfl, Hsl. lia. + lia. }
    destruct e as [t|]; [|exact Hrec].
    destruct He as [He|He]; [discriminate|].
    apply app_eq_nil in He. destruct He as [He1 He2].
    assert (Hce : cap = length pre) by (rewrite He1 in Hsl; cbn [length] in Hsl; lia).
    assert (Hfp : firstn cap pre = pre) by (rewrite Hce; apply firstn_all).
    rewrite app_length, Hfl.
    replace (Nat.leb n (length acc + cap)) with true by (symmetry; apply Nat.leb_le; lia).
    exists r1. split; [fold r1; rewrite Hfp; reflexivity|]. unfold r1 at 1 2 3 4. cbn [rd_data rd_term rd_ewd rd_pos].
    rewrite He1, He2, Hfl. repeat split; try reflexivity; lia.
Qed.

Theorem io_read_full_exact : forall n fuel rd pre rest,
  rd_data rd = pre ++ rest -> length pre = n ->
  length (rd_data rd) + length (rd_sched rd) < fuel ->
  exists rd', io_read_full fuel rd n [] = Done (pre, None, rd') /\
    rd_data rd' = rest /\ rd_term rd' = rd_term rd /\ rd_ewd rd' = rd_ewd rd /\
    rd_pos rd' = rd_pos rd + n /\
    length (rd_data rd') + length (rd_sched rd') <= length (rd_data rd) + length (rd_sched rd).
Proof.
  intros n fuel rd pre rest Hd Hn Hf.
  destruct (io_read_full_acc fuel rd n [] pre rest Hd ltac:(cbn [length]; lia) Hf) as (rd' & H1 & H2 & H3 & H4 & H5 & H6).
  exists rd'. cbn [app] in H1. rewrite Hn in H5. repeat split; assumption.
Qed.

(* ------------------------------------------------------------ 2. the header *)
Local Open Scope N_scope.

Lemma le16_put_le16 x : x < 65536 -> le16 (put_le16 x) = x.
Proof. intros H. unfold le16, put_le16, b_at. cbn [nth]. lia. Qed.

Lemma le32_put_le32 x : x < 2 ^ 32 -> le32 (put_le32 x) = x.
Proof. intros H. change (2 ^ 32) with 4294967296 in H. unfold le32, put_le32, b_at. cbn [nth]. lia. Qed.

Lemma put_le16_lo_hi c : c < 65536 -> put_le16 c = [lo8 c; hi8 c].
Proof.
  intros H. unfold put_le16, lo8, hi8. change 255 with (N.ones 8). rewrite N.land_ones, N.shiftr_div_pow2.
  change (2 ^ 8) with 256. f_equal. f_equal. apply N.mod_small. lia.
Qed.

Lemma put_le16_bytes x : is_bytes (put_le16 x).
Proof. unfold put_le16. repeat constructor; lia. Qed.

Lemma all_bytes_is_bytes l : all_bytes l = true -> is_bytes l.
Proof.
  unfold all_bytes, is_bytes. intros H. apply Forall_forall. intros x Hx.
  rewrite forallb_forall in H. specialize (H x Hx). unfold is_byte in H. lia.
Qed.

Lemma is_bytes_app a b : is_bytes a -> is_bytes b -> is_bytes (a ++ b).
Proof. unfold is_bytes. intros. apply Forall_app. split; assumption. Qed.

Definition header_wf (h : header) : Prop :=
  (h_size h = c_headerSizeCRC \/ h_size h = c_headerSizeNoCRC) /\
  h_proto h < 256 /\ proto_ok (h_proto h) = true /\
  h_profile h < 65536 /\ h_dsize h < 2 ^ 32 /\ h_dtype h = fit_dtype /\
  (h_size h = c_headerSizeNoCRC -> h_crc h = 0) /\
  (h_size h = c_headerSizeCRC -> h_crc h = 0 \/ h_crc h = checksum (header_bytes12 h)).

Definition hdr_bytes (h : header) : list N :=
  if h_size h =? c_headerSizeCRC then header_bytes12 h ++ put_le16 (h_crc h) else header_bytes12 h.

(* everything after the size byte *)
Definition hdr_tail (h : header) : list N :=
  [h_proto h] ++ put_le16 (h_profile h) ++ put_le32 (h_dsize h) ++ fit_dtype ++
  (if h_size h =? c_headerSizeCRC then put_le16 (h_crc h) else []).

Lemma hdr_bytes_split h : header_wf h -> hdr_bytes h = [h_size h] ++ hdr_tail h.
Proof.
  intros (Hsz & _ & _ & _ & _ & Hdt & _).
  unfold hdr_bytes, hdr_tail, header_bytes12. rewrite Hdt.
  unfold put_le16, put_le32, fit_dtype.
  destruct (h_size h =? c_headerSizeCRC); cbn [app firstn]; reflexivity.
Qed.

Lemma header_bytes12_bytes h : header_wf h -> is_bytes (header_bytes12 h).
Proof.
  intros (Hsz & Hpr & _ & _ & _ & Hdt & _).
  assert (Hs : h_size h < 256) by (destruct Hsz as [E|E]; rewrite E; reflexivity).
  unfold header_bytes12. rewrite Hdt. unfold put_le16, put_le32, fit_dtype. cbn [app firstn].
  unfold is_bytes. repeat apply Forall_cons; try apply Forall_nil; try lia; reflexivity.
Qed.

Lemma header_crc_lt h : header_wf h -> h_crc h < 65536.
Proof.
  intros Hwf. pose proof (header_bytes12_bytes h Hwf) as Hb.
  destruct Hwf as (Hsz & _ & _ & _ & _ & _ & Hn & Hc).
  destruct Hsz as [E|E].
  - destruct (Hc E) as [Z|Z]; rewrite Z; [reflexivity|]. apply update_lt; [reflexivity|assumption].
  - rewrite (Hn E). reflexivity.
Qed.

Lemma hdr_bytes_bytes h : header_wf h -> is_bytes (hdr_bytes h).
Proof.
  intros Hwf. unfold hdr_bytes. destruct (h_size h =? c_headerSizeCRC).
  - apply is_bytes_app; [now apply header_bytes12_bytes|apply put_le16_bytes].
  - now apply header_bytes12_bytes.
Qed.

Lemma hdr_bytes_length h : header_wf h -> length (hdr_bytes h) = N.to_nat (h_size h).
Proof.
  intros (Hsz & _ & _ & _ & _ & Hdt & _).
  unfold hdr_bytes, header_bytes12. rewrite Hdt. unfold put_le16, put_le32, fit_dtype.
  destruct Hsz as [E|E]; rewrite E.
  - change (c_headerSizeCRC =? c_headerSizeCRC) with true. reflexivity.
  - change (c_headerSizeNoCRC =? c_headerSizeCRC) with false. reflexivity.
Qed.

Lemma hdr_tail_fields h : header_wf h ->
  length (hdr_tail h) = (N.to_nat (h_size h) - 1)%nat /\
  b_at (hdr_tail h) 0 = h_proto h /\
  le16 (firstn 2 (skipn 1 (hdr_tail h))) = h_profile h /\
  le32 (firstn 4 (skipn 3 (hdr_tail h))) = h_dsize h /\
  firstn 4 (skipn 7 (hdr_tail h)) = fit_dtype /\
  (h_size h = c_headerSizeCRC -> le16 (firstn 2 (skipn 11 (hdr_tail h))) = h_crc h).
Proof.
  intros Hwf. pose proof (header_crc_lt h Hwf) as Hcl.
  destruct Hwf as (Hsz & _ & _ & Hpf & Hds & _).
  unfold hdr_tail, put_le16, put_le32, fit_dtype, b_at.
  destruct Hsz as [E|E]; rewrite E.
  - change (c_headerSizeCRC =? c_headerSizeCRC) with true. cbn [app length firstn skipn nth].
    repeat split.
    + apply le16_put_le16; assumption.
    + apply le32_put_le32; assumption.
    + intros _. apply le16_put_le16; assumption.
  - change (c_headerSizeNoCRC =? c_headerSizeCRC) with false. cbn [app length firstn skipn nth].
    repeat split.
    + apply le16_put_le16; assumption.
    + apply le32_put_le32; assumption.
    + intros Hx. discriminate Hx.
Qed.

(* the well-formedness predicate is inhabited: NewHeader's headers, with any data size *)
Lemma header_wf_new_header crc n : n < 2 ^ 32 ->
  header_wf (mk_header (h_size (new_header c_currentProtocolVersion crc)) c_currentProtocolVersion
                       c_ProfileVersion n fit_dtype 0).
Proof.
  intros Hn. unfold header_wf. cbn [h_size h_proto h_profile h_dsize h_dtype h_crc new_header].
  repeat split; try reflexivity; try assumption.
  - destruct crc; [left|right]; reflexivity.
  - intros _. left. reflexivity.
Qed.

(* a header carrying its own checksum leaves the register at zero *)
Lemma hdr_crc_zero h : header_wf h -> h_size h = c_headerSizeCRC -> h_crc h <> 0 ->
  crc_write crc_new (hdr_bytes h) = 0.
Proof.
  intros Hwf E Hnz. pose proof (header_bytes12_bytes h Hwf) as Hb.
  destruct Hwf as (_ & _ & _ & _ & _ & _ & _ & Hc).
  destruct (Hc E) as [Z|Z]; [contradiction|].
  unfold hdr_bytes. rewrite E. change (c_headerSizeCRC =? c_headerSizeCRC) with true.
  rewrite Z, put_le16_lo_hi by (apply update_lt; [reflexivity|assumption]).
  apply (residue_zero (header_bytes12 h) Hb).
Qed.

Lemma list_eqb_refl l : list_eqb l l = true.
Proof. unfold list_eqb. destruct (list_eq_dec N.eq_dec l l); [reflexivity|congruence]. Qed.

Theorem decode_header_ok : forall h fuel rd rest,
  header_wf h -> rd_data rd = hdr_bytes h ++ rest ->
  (length (rd_data rd) + length (rd_sched rd) < fuel)%nat ->
  exists rd1, decode_header fuel rd = Done (None, h, crc_write crc_new (hdr_bytes h), rd1) /\
    rd_data rd1 = rest /\ rd_term rd1 = rd_term rd /\ rd_ewd rd1 = rd_ewd rd /\
    rd_pos rd1 = (rd_pos rd + length (hdr_bytes h))%nat /\
    (length (rd_data rd1) + length (rd_sched rd1) <= length (rd_data rd) + length (rd_sched rd))%nat.
Proof.
  intros h fuel rd rest Hwf Hd Hf.
  pose proof (hdr_bytes_split h Hwf) as Hsplit.
  pose proof (hdr_bytes_length h Hwf) as Hlenh.
  destruct (hdr_tail_fields h Hwf) as (Hlen & Hpr & Hpf & Hds & Hdt & Hcr).
  rewrite Hsplit, <- app_assoc in Hd.
  destruct (io_read_full_exact 1 fuel rd [h_size h] (hdr_tail h ++ rest) Hd eq_refl Hf)
    as (rd1 & R1 & D1 & T1 & E1 & P1 & M1).
  destruct (io_read_full_exact (N.to_nat (h_size h) - 1) fuel rd1 (hdr_tail h) rest D1 Hlen ltac:(lia))
    as (rd2 & R2 & D2 & T2 & E2 & P2 & M2).
  assert (Hcrc : crc_write (crc_write crc_new [h_size h]) (hdr_tail h) = crc_write crc_new (hdr_bytes h)).
  { rewrite Hsplit. unfold crc_write. now rewrite update_app. }
  assert (Hszpos : (1 <= N.to_nat (h_size h))%nat).
  { destruct Hwf as (Hsz & _). destruct Hsz as [E|E]; rewrite E; unfold c_headerSizeCRC, c_headerSizeNoCRC; lia. }
  exists rd2.
  split; [|repeat split; try congruence; lia].
  unfold decode_header. rewrite R1. cbn [hd].
  pose proof Hwf as (Hsz & Hprl & Hpo & _ & _ & Hdty & Hn & Hc).
  assert (Hszb : (h_size h =? c_headerSizeCRC) || (h_size h =? c_headerSizeNoCRC) = true).
  { destruct Hsz as [E|E]; rewrite E; reflexivity. }
  rewrite Hszb. cbn [negb]. rewrite R2. cbn [h_proto h_profile h_dsize].
  rewrite Hpr, Hpo, Hpf, Hds, Hdt, list_eqb_refl, Hcrc. cbn [negb].
  destruct Hsz as [E|E].
  - rewrite E at 1. change (c_headerSizeCRC =? c_headerSizeNoCRC) with false. cbv iota.
    rewrite (Hcr E).
    assert (Hh : mk_header (h_size h) (h_proto h) (h_profile h) (h_dsize h) fit_dtype (h_crc h) = h).
    { rewrite <- Hdty. destruct h; reflexivity. }
    rewrite Hh.
    destruct (N.eqb_spec (h_crc h) 0) as [Z|NZ]; [reflexivity|].
    unfold crc_sum16. rewrite (hdr_crc_zero h Hwf E NZ). reflexivity.
  - rewrite E at 1. change (c_headerSizeNoCRC =? c_headerSizeNoCRC) with true. cbv iota.
    assert (Hh : mk_header (h_size h) (h_proto h) (h_profile h) (h_dsize h) fit_dtype 0 = h).
    { rewrite <- Hdty, <- (Hn E). destruct h; reflexivity. }
    rewrite Hh. reflexivity.
Qed.

(* ------------------------------------------------------------ 3. the trailer *)

Lemma check_crc_run : forall fuel rd crc f c1 c2 rest,
  rd_data rd = [c1; c2] ++ rest ->
  (length (rd_data rd) + length (rd_sched rd) < fuel)%nat ->
  exists rd',
    check_crc fuel rd crc f =
      Done (if crc_sum16 (crc_write crc [c1; c2]) =? 0 then None else Some EFileCRC,
            set_crc f (le16 [c1; c2]), rd') /\
    rd_pos rd' = (rd_pos rd + 2)%nat /\ rd_data rd' = rest /\
    rd_term rd' = rd_term rd /\ rd_ewd rd' = rd_ewd rd /\
    (length (rd_data rd') + length (rd_sched rd') <= length (rd_data rd) + length (rd_sched rd))%nat.
Proof.
  intros fuel rd crc f c1 c2 rest Hd Hf.
  destruct (io_read_full_exact 2 fuel rd [c1; c2] rest Hd eq_refl Hf) as (rd' & R & D & T & E & P & M).
  exists rd'. split; [|repeat split; assumption].
  unfold check_crc. rewrite R.
  destruct (crc_sum16 (crc_write crc [c1; c2]) =? 0); reflexivity.
Qed.

Theorem check_crc_ok_full : forall fuel rd crc f c1 c2 rest,
  rd_data rd = [c1; c2] ++ rest ->
  (length (rd_data rd) + length (rd_sched rd) < fuel)%nat ->
  crc_sum16 (crc_write crc [c1; c2]) = 0 ->
  exists rd', check_crc fuel rd crc f = Done (None, set_crc f (le16 [c1; c2]), rd') /\
    rd_pos rd' = (rd_pos rd + 2)%nat /\ rd_data rd' = rest /\
    rd_term rd' = rd_term rd /\ rd_ewd rd' = rd_ewd rd /\
    (length (rd_data rd') + length (rd_sched rd') <= length (rd_data rd) + length (rd_sched rd))%nat.
Proof.
  intros fuel rd crc f c1 c2 rest Hd Hf Hz.
  destruct (check_crc_run fuel rd crc f c1 c2 rest Hd Hf) as (rd' & R & P & D & T & E & M).
  exists rd'. rewrite Hz in R. repeat split; assumption.
Qed.

Theorem check_crc_ok : forall fuel rd crc f c1 c2 rest,
  rd_data rd = [c1; c2] ++ rest ->
  (length (rd_data rd) + length (rd_sched rd) < fuel)%nat ->
  crc_sum16 (crc_write crc [c1; c2]) = 0 ->
  exists rd', check_crc fuel rd crc f = Done (None, set_crc f (le16 [c1; c2]), rd') /\
    rd_pos rd' = (rd_pos rd + 2)%nat /\ rd_data rd' = rest.
Proof.
  intros fuel rd crc f c1 c2 rest Hd Hf Hz.
  destruct (check_crc_run fuel rd crc f c1 c2 rest Hd Hf) as (rd' & R & P & D & _).
  exists rd'. rewrite Hz in R. repeat split; assumption.
Qed.

Theorem check_crc_bad : forall fuel rd crc f c1 c2 rest,
  rd_data rd = [c1; c2] ++ rest ->
  (length (rd_data rd) + length (rd_sched rd) < fuel)%nat ->
  crc_sum16 (crc_write crc [c1; c2]) <> 0 ->
  exists rd', check_crc fuel rd crc f = Done (Some EFileCRC, set_crc f (le16 [c1; c2]), rd') /\
    rd_pos rd' = (rd_pos rd + 2)%nat /\ rd_data rd' = rest.
Proof.
  intros fuel rd crc f c1 c2 rest Hd Hf Hz.
  destruct (check_crc_run fuel rd crc f c1 c2 rest Hd Hf) as (rd' & R & P & D & _).
  exists rd'. apply N.eqb_neq in Hz. rewrite Hz in R. repeat split; assumption.
Qed.

(* ------------------------------------------------------------ the buffered phase never grows the reader *)

Lemma rd_read_msr r k : (msr (snd (rd_read r k)) <= msr r)%nat.
Proof.
  unfold rd_read. destruct (rd_data r) as [|b0 d0] eqn:Ed; cbn [snd]; [lia|].
  unfold msr. cbn [rd_data rd_sched]. rewrite Ed, skipn_length.
  pose proof (tl_length_le (rd_sched r)). lia.
Qed.

Lemma fill_msr c u c' : fill c = COk u c' -> (msr (c_rd c') <= msr (c_rd c))%nat.
Proof.
  unfold fill. destruct (c_fuel c) as [|f]; [discriminate|].
  destruct (Nat.eqb (c_n c) (c_limit c)); [discriminate|].
  pose proof (rd_read_msr (c_rd c) (Nat.min BUFSZ (c_limit c - c_n c))) as H.
  destruct (rd_read (c_rd c) (Nat.min BUFSZ (c_limit c - c_n c))) as [[bs e] rd'].
  cbn [snd] in H.
  destruct bs as [|b bs]; [destruct e as [t|]|]; intros Heq; inversion Heq; subst; cbn [c_rd]; assumption.
Qed.

Lemma c_byte_msr : forall iters c b c', c_byte iters c = COk b c' -> (msr (c_rd c') <= msr (c_rd c))%nat.
Proof.
  induction iters as [|it IH]; intros c b c'; cbn [c_byte]; destruct (c_buf c) as [|b0 r0].
  - discriminate.
  - intros Heq; inversion Heq; subst; cbn [c_rd]; lia.
  - destruct (fill c) as [u c2|e c2|] eqn:Ef; try discriminate.
    intros Heq. apply IH in Heq. apply fill_msr in Ef. lia.
  - intros Heq; inversion Heq; subst; cbn [c_rd]; lia.
Qed.

Lemma c_take_msr : forall iters k acc c l c', c_take iters k acc c = COk l c' -> (msr (c_rd c') <= msr (c_rd c))%nat.
Proof.
  induction iters as [|it IH]; intros k acc c l c'; cbn [c_take];
    destruct (Nat.eqb (k - Nat.min k (length (c_buf c))) 0).
  - intros Heq; inversion Heq; subst; cbn [c_rd]; lia.
  - discriminate.
  - intros Heq; inversion Heq; subst; cbn [c_rd]; lia.
  - destruct (fill _) as [u c2|e c2|] eqn:Ef; try discriminate.
    intros Heq. apply IH in Heq. apply fill_msr in Ef. cbn [c_rd] in Ef. lia.
Qed.

Lemma run_c_measure {S E A} : forall (p : prog S E A) c s x c' s',
  run_c p c s = ROk x c' s' ->
  (length (rd_data (c_rd c')) + length (rd_sched (c_rd c')) <= length (rd_data (c_rd c)) + length (rd_sched (c_rd c)))%nat.
Proof.
  intros p c s x c' s'. change (run_c p c s = ROk x c' s' -> (msr (c_rd c') <= msr (c_rd c))%nat).
  revert c s x c' s'.
  induction p as [y|e|w|k IH|n k IH|k IH|k IH|s0 k IH]; intros c s x c' s'; cbn [run_c]; try discriminate.
  - intros Heq; inversion Heq; subst; lia.
  - destruct (c_byte _ c) as [b c2|e c2|] eqn:Eb; try discriminate.
    intros Heq. apply IH in Heq. apply c_byte_msr in Eb. lia.
  - destruct (c_take _ n [] c) as [l c2|e c2|] eqn:Eb; try discriminate.
    intros Heq. apply IH in Heq. apply c_take_msr in Eb. lia.
  - apply IH.
  - apply IH.
  - apply IH.
Qed.

(* ------------------------------------------------------------ 4. the frame *)

Definition file_crc (h : header) (data : list N) : N := checksum (hdr_bytes h ++ data).
Definition frame_bytes (h : header) (data : list N) : list N :=
  hdr_bytes h ++ data ++ put_le16 (file_crc h data).

Lemma file_crc_lt h data : header_wf h -> is_bytes data -> file_crc h data < 65536.
Proof.
  intros Hwf Hb. unfold file_crc, checksum. apply update_lt; [reflexivity|].
  apply is_bytes_app; [now apply hdr_bytes_bytes|assumption].
Qed.

Lemma frame_bytes_length h data : header_wf h ->
  length (frame_bytes h data) = (N.to_nat (h_size h) + length data + 2)%nat.
Proof.
  intros Hwf. unfold frame_bytes. rewrite !app_length, (hdr_bytes_length h Hwf).
  change (length (put_le16 (file_crc h data))) with 2%nat. lia.
Qed.

(* the register over header, data and the trailer is zero *)
Lemma frame_residue h data : header_wf h -> is_bytes data ->
  crc_sum16 (crc_write (crc_write (crc_write crc_new (hdr_bytes h)) data) (put_le16 (file_crc h data))) = 0.
Proof.
  intros Hwf Hb. unfold crc_sum16, crc_write, crc_new.
  rewrite <- !update_app. rewrite (put_le16_lo_hi _ (file_crc_lt h data Hwf Hb)).
  rewrite app_assoc. unfold file_crc.
  apply (residue_zero (hdr_bytes h ++ data)).
  apply is_bytes_app; [now apply hdr_bytes_bytes|assumption].
Qed.

Theorem decode_frame_full : forall o g rd fuel h data extra s1,
  header_wf h -> is_bytes data -> h_dsize h = N.of_nat (length data) ->
  rd_data rd = frame_bytes h data ++ extra ->
  (length (rd_data rd) + length (rd_sched rd) < fuel)%nat ->
  run_a (data_prog o false (S (length data)))
        (mk_ast (data ++ put_le16 (file_crc h data) ++ extra) (rd_term rd) 0 (length data))
        (init_dstate (new_file h) g)
    = ROk tt (mk_ast (put_le16 (file_crc h data) ++ extra) (rd_term rd) (length data) (length data)) s1 ->
  exists rd',
    decode o MFull g rd fuel =
      TDone (mk_dres None h
               (Some (finalize_unknown o (with_file s1 (set_crc (ds_file s1) (file_crc h data)) (ds_g s1))))
               rd' (ds_g s1) (ds_quirks s1)) /\
    rd_pos rd' = (rd_pos rd + length (frame_bytes h data))%nat /\
    rd_data rd' = extra /\
    rd_term rd' = rd_term rd /\
    (length (rd_data rd') + length (rd_sched rd') <= length (rd_data rd) + length (rd_sched rd))%nat.
Proof.
  intros o g rd fuel h data extra s1 Hwf Hb Hds Hd Hf Hrun.
  pose proof (frame_bytes_length h data Hwf) as Hfl.
  pose proof (hdr_bytes_length h Hwf) as Hhl.
  pose proof (frame_residue h data Hwf Hb) as Hres.
  pose proof (file_crc_lt h data Hwf Hb) as Hclt.
  unfold frame_bytes in Hd. rewrite <- !app_assoc in Hd.
  destruct (decode_header_ok h fuel rd (data ++ put_le16 (file_crc h data) ++ extra) Hwf Hd Hf)
    as (rd1 & DH & D1 & T1 & E1 & P1 & M1).
  assert (Hlim : N.to_nat (h_dsize h) = length data) by (rewrite Hds; apply Nat2N.id).
  assert (Hf1 : (length (rd_data rd1) + length (rd_sched rd1) < fuel)%nat) by lia.
  pose proof (Rel_start rd1 (length data) (crc_write crc_new (hdr_bytes h)) fuel Hf1) as HR.
  pose proof (run_sim _ _ _ (data_prog o false (S (length data))) _ _ (init_dstate (new_file h) g) HR) as Hsim.
  unfold start_a, start_c in Hsim. rewrite D1, T1 in Hsim. rewrite Hrun in Hsim.
  unfold decode. rewrite DH. cbv beta iota zeta. rewrite Hlim.
  remember (run_c (data_prog o false (S (length data)))
              (mk_cst rd1 [] 0 (length data) (crc_write crc_new (hdr_bytes h)) fuel)
              (init_dstate (new_file h) g)) as rc eqn:Hrc.
  destruct rc as [x c' s'|e c' s'|e c' s'|w|]; unfold sim in Hsim; try contradiction.
  destruct Hsim as (_ & Hs & HR'). subst s'.
  pose proof (run_c_measure _ _ _ _ _ _ (eq_sym Hrc)) as Hmsr. cbn [c_rd] in Hmsr.
  destruct HR' as [Hr Ha Hl Ht Hn Hli Hbd Hfu Hp Hc]. cbn [a_rest a_term a_n a_limit] in *.
  assert (Hbuf : c_buf c' = []) by (apply length_zero_iff_nil; lia).
  rewrite Hbuf in *. cbn [app length] in *.
  rewrite <- Hn, <- Hli, Nat.eqb_refl. cbn [negb].
  rewrite <- Hn, Nat.add_0_r, firstn_app_exact in Hc.
  rewrite <- Hc in Hres.
  destruct (check_crc_ok_full fuel (c_rd c') (c_crc c') (ds_file s1)
              (file_crc h data mod 256) ((file_crc h data / 256) mod 256) extra
              (eq_sym Hr) ltac:(lia) Hres) as (rd3 & R3 & P3 & D3 & T3 & _ & M3).
  rewrite R3.
  change [file_crc h data mod 256; (file_crc h data / 256) mod 256] with (put_le16 (file_crc h data)).
  rewrite (le16_put_le16 _ Hclt).
  exists rd3. split; [reflexivity|]. split; [|split; [assumption|split]].
  - rewrite P3, Hp, P1, Hfl, Hhl, <- Hn. lia.
  - rewrite T3, <- Ht. reflexivity.
  - lia.
Qed.

Theorem decode_frame : forall o g rd fuel h data extra s1,
  header_wf h -> is_bytes data -> h_dsize h = N.of_nat (length data) ->
  rd_data rd = frame_bytes h data ++ extra ->
  (length (rd_data rd) + length (rd_sched rd) < fuel)%nat ->
  run_a (data_prog o false (S (length data)))
        (mk_ast (data ++ put_le16 (file_crc h data) ++ extra) (rd_term rd) 0 (length data))
        (init_dstate (new_file h) g)
    = ROk tt (mk_ast (put_le16 (file_crc h data) ++ extra) (rd_term rd) (length data) (length data)) s1 ->
  exists rd',
    decode o MFull g rd fuel =
      TDone (mk_dres None h
               (Some (finalize_unknown o (with_file s1 (set_crc (ds_file s1) (file_crc h data)) (ds_g s1))))
               rd' (ds_g s1) (ds_quirks s1)) /\
    rd_pos rd' = (rd_pos rd + length (frame_bytes h data))%nat /\
    rd_data rd' = extra.
Proof.
  intros o g rd fuel h data extra s1 Hwf Hb Hds Hd Hf Hrun.
  destruct (decode_frame_full o g rd fuel h data extra s1 Hwf Hb Hds Hd Hf Hrun) as (rd' & H1 & H2 & H3 & _).
  exists rd'. repeat split; assumption.
Qed.

Corollary entry_Decode_frame_full : forall o g rd fuel h data extra s1,
  header_wf h -> is_bytes data -> h_dsize h = N.of_nat (length data) ->
  rd_data rd = frame_bytes h data ++ extra ->
  (length (rd_data rd) + length (rd_sched rd) < fuel)%nat ->
  run_a (data_prog o false (S (length data)))
        (mk_ast (data ++ put_le16 (file_crc h data) ++ extra) (rd_term rd) 0 (length data))
        (init_dstate (new_file h) g)
    = ROk tt (mk_ast (put_le16 (file_crc h data) ++ extra) (rd_term rd) (length data) (length data)) s1 ->
  exists rd',
    entry_Decode o g rd fuel =
      TDone (mk_dres None h
               (Some (finalize_unknown o (with_file s1 (set_crc (ds_file s1) (file_crc h data)) (ds_g s1))))
               rd' (ds_g s1) (ds_quirks s1)) /\
    rd_pos rd' = (rd_pos rd + length (frame_bytes h data))%nat /\
    rd_data rd' = extra /\
    rd_term rd' = rd_term rd /\
    (length (rd_data rd') + length (rd_sched rd') <= length (rd_data rd) + length (rd_sched rd))%nat.
Proof. unfold entry_Decode. exact decode_frame_full. Qed.

Corollary entry_Decode_frame : forall o g rd fuel h data extra s1,
  header_wf h -> is_bytes data -> h_dsize h = N.of_nat (length data) ->
  rd_data rd = frame_bytes h data ++ extra ->
  (length (rd_data rd) + length (rd_sched rd) < fuel)%nat ->
  run_a (data_prog o false (S (length data)))
        (mk_ast (data ++ put_le16 (file_crc h data) ++ extra) (rd_term rd) 0 (length data))
        (init_dstate (new_file h) g)
    = ROk tt (mk_ast (put_le16 (file_crc h data) ++ extra) (rd_term rd) (length data) (length data)) s1 ->
  exists rd',
    entry_Decode o g rd fuel =
      TDone (mk_dres None h
               (Some (finalize_unknown o (with_file s1 (set_crc (ds_file s1) (file_crc h data)) (ds_g s1))))
               rd' (ds_g s1) (ds_quirks s1)) /\
    rd_pos rd' = (rd_pos rd + length (frame_bytes h data))%nat /\
    rd_data rd' = extra.
Proof. unfold entry_Decode. exact decode_frame. Qed.

(* the same with the boolean byte-range test of Model/Bytes.v *)
Corollary decode_frame_b : forall o g rd fuel h data extra s1,
  header_wf h -> all_bytes data = true -> h_dsize h = N.of_nat (length data) ->
  rd_data rd = frame_bytes h data ++ extra ->
  (length (rd_data rd) + length (rd_sched rd) < fuel)%nat ->
  run_a (data_prog o false (S (length data)))
        (mk_ast (data ++ put_le16 (file_crc h data) ++ extra) (rd_term rd) 0 (length data))
        (init_dstate (new_file h) g)
    = ROk tt (mk_ast (put_le16 (file_crc h data) ++ extra) (rd_term rd) (length data) (length data)) s1 ->
  exists rd',
    decode o MFull g rd fuel =
      TDone (mk_dres None h
               (Some (finalize_unknown o (with_file s1 (set_crc (ds_file s1) (file_crc h data)) (ds_g s1))))
               rd' (ds_g s1) (ds_quirks s1)) /\
    rd_pos rd' = (rd_pos rd + length (frame_bytes h data))%nat /\
    rd_data rd' = extra.
Proof.
  intros o g rd fuel h data extra s1 Hwf Hb. apply decode_frame; [assumption|now apply all_bytes_is_bytes].
Qed.

(* the result does not depend on the chunk schedule, the data-with-EOF flag,
   the start position or the fuel: two readers holding the same bytes with the
   same terminal condition produce the same header, file, global state and
   quirks, leave the same bytes unread and consume the same number of bytes *)
Corollary decode_frame_schedule_independent : forall o g rd rd2 fuel fuel2 h data extra s1,
  header_wf h -> is_bytes data -> h_dsize h = N.of_nat (length data) ->
  rd_data rd = frame_bytes h data ++ extra ->
  rd_data rd2 = rd_data rd -> rd_term rd2 = rd_term rd ->
  (length (rd_data rd) + length (rd_sched rd) < fuel)%nat ->
  (length (rd_data rd2) + length (rd_sched rd2) < fuel2)%nat ->
  run_a (data_prog o false (S (length data)))
        (mk_ast (data ++ put_le16 (file_crc h data) ++ extra) (rd_term rd) 0 (length data))
        (init_dstate (new_file h) g)
    = ROk tt (mk_ast (put_le16 (file_crc h data) ++ extra) (rd_term rd) (length data) (length data)) s1 ->
  exists r1 r2,
    decode o MFull g rd fuel = TDone r1 /\ decode o MFull g rd2 fuel2 = TDone r2 /\
    dr_err r1 = dr_err r2 /\ dr_hdr r1 = dr_hdr r2 /\ dr_file r1 = dr_file r2 /\
    dr_g r1 = dr_g r2 /\ dr_quirks r1 = dr_quirks r2 /\
    rd_data (dr_rd r1) = rd_data (dr_rd r2) /\
    (rd_pos (dr_rd r1) - rd_pos rd = rd_pos (dr_rd r2) - rd_pos rd2)%nat.
Proof.
  intros o g rd rd2 fuel fuel2 h data extra s1 Hwf Hb Hds Hd Hd2 Ht2 Hf Hf2 Hrun.
  destruct (decode_frame o g rd fuel h data extra s1 Hwf Hb Hds Hd Hf Hrun) as (ra & Ra & Pa & Da).
  rewrite <- Ht2 in Hrun. rewrite <- Hd2 in Hd.
  destruct (decode_frame o g rd2 fuel2 h data extra s1 Hwf Hb Hds Hd Hf2 Hrun) as (rb & Rb & Pb & Db).
  eexists. eexists. split; [exact Ra|]. split; [exact Rb|].
  cbn [dr_err dr_hdr dr_file dr_g dr_quirks dr_rd].
  repeat split; try reflexivity; [congruence|lia].
Qed.

(* ------------------------------------------------------------ 5. what follows the frame is never looked at *)
Local Close Scope N_scope.

(* inside the limit a_take neither reaches the tail nor the terminal condition *)
Lemma a_take_tail k l tl t n lim : n + length l = lim ->
  a_take k (mk_ast (l ++ tl) t n lim) =
    if Nat.leb k (length l) then inl (firstn k l, mk_ast (skipn k l ++ tl) t (n + k) lim) else inr IOBeyond.
Proof.
  intros Hn. unfold a_take. cbn [a_rest a_term a_n a_limit]. rewrite app_length.
  replace (lim - n) with (length l) by lia.
  replace (Nat.min (length l) (length l + length tl)) with (length l) by lia.
  destruct (Nat.leb_spec k (length l)) as [L|L].
  - rewrite firstn_app, skipn_app. replace (k - length l) with 0 by lia. cbn [firstn skipn]. rewrite app_nil_r. reflexivity.
  - replace (Nat.leb (length l) (length l + length tl)) with true by (symmetry; apply Nat.leb_le; lia). reflexivity.
Qed.

(* tail irrelevance of the abstract interpreter: a run that starts with exactly the bytes l up to the limit
   gives the same outcome, state and value whatever follows l and whatever the terminal condition is *)
Definition tail_rel {S E A} (tl tl' : list N) (t t' : term) (lim : nat) (r r' : result ast S E A) : Prop :=
  match r, r' with
  | ROk a x s, ROk a' x' s' =>
      a = a' /\ s = s' /\ exists l' n', n' + length l' = lim /\ x = mk_ast (l' ++ tl) t n' lim /\ x' = mk_ast (l' ++ tl') t' n' lim
  | RFail e x s, RFail e' x' s' =>
      e = e' /\ s = s' /\ exists l' n', n' + length l' = lim /\ x = mk_ast (l' ++ tl) t n' lim /\ x' = mk_ast (l' ++ tl') t' n' lim
  | RIOErr e x s, RIOErr e' x' s' =>
      e = IOBeyond /\ e' = IOBeyond /\ s = s' /\
      exists l' n', n' + length l' = lim /\ x = mk_ast (l' ++ tl) t n' lim /\ x' = mk_ast (l' ++ tl') t' n' lim
  | RPanic w, RPanic w' => w = w'
  | _, _ => False
  end.

Theorem run_a_tail {S E A} : forall (p : prog S E A) l tl tl' t t' n lim s, n + length l = lim ->
  tail_rel tl tl' t t' lim (run_a p (mk_ast (l ++ tl) t n lim) s) (run_a p (mk_ast (l ++ tl') t' n lim) s).
Proof.
  induction p as [y|e|w|k IH|m k IH|k IH|k IH|s0 k IH]; intros l tl tl' t t' n lim s Hn; cbn [run_a].
  - cbn [tail_rel]. split; [reflexivity|]. split; [reflexivity|]. exists l, n. repeat split; assumption.
  - cbn [tail_rel]. split; [reflexivity|]. split; [reflexivity|]. exists l, n. repeat split; assumption.
  - reflexivity.
  - rewrite !(a_take_tail 1 l _ _ n lim Hn).
    destruct (Nat.leb_spec 1 (length l)) as [L|L].
    + apply IH. rewrite skipn_length. lia.
    + cbn [tail_rel]. repeat split. exists l, n. repeat split; assumption.
  - rewrite !(a_take_tail m l _ _ n lim Hn).
    destruct (Nat.leb_spec m (length l)) as [L|L].
    + apply IH. rewrite skipn_length. lia.
    + cbn [tail_rel]. repeat split. exists l, n. repeat split; assumption.
  - cbn [a_n a_limit]. apply IH. exact Hn.
  - apply IH. exact Hn.
  - apply IH. exact Hn.
Qed.

(* the form used by the framing lemma: a successful run that ends at the limit *)
Corollary run_a_tail_ok {S E A} : forall (p : prog S E A) l tl tl' t t' a s s1,
  run_a p (mk_ast (l ++ tl) t 0 (length l)) s = ROk a (mk_ast tl t (length l) (length l)) s1 ->
  run_a p (mk_ast (l ++ tl') t' 0 (length l)) s = ROk a (mk_ast tl' t' (length l) (length l)) s1.
Proof.
  intros p l tl tl' t t' a s s1 H.
  pose proof (run_a_tail p l tl tl' t t' 0 (length l) s eq_refl) as HT.
  rewrite H in HT.
  destruct (run_a p (mk_ast (l ++ tl') t' 0 (length l)) s) as [a' x' s'|e x' s'|e x' s'|w|]; cbn [tail_rel] in HT; try contradiction.
  destruct HT as (<- & <- & l' & n' & Hn & Hx & Hx'). subst x'.
  inversion Hx as [[H1 H2]]. 
  assert (Hl' : l' = []) by (destruct l'; [reflexivity|cbn [length] in Hn; lia]).
  subst l'. cbn [app]. reflexivity.
Qed.

(* ------------------------------------------------------------ 6. the clean end of input *)
Lemma decode_header_eof : forall fuel rd, rd_data rd = [] -> rd_term rd = TEOF ->
  decode_header (S fuel) rd = Done (Some EReadSizeEOF, zero_header, 0%N, rd).
Proof.
  intros fuel rd Hd Ht. unfold decode_header. cbn [io_read_full length Nat.leb].
  unfold rd_read. rewrite Hd, Ht. cbn [app length Nat.leb]. reflexivity.
Qed.

Lemma decode_eof : forall o md g fuel rd, rd_data rd = [] -> rd_term rd = TEOF -> (1 <= fuel) ->
  decode o md g rd fuel = TDone (mk_dres (Some EReadSizeEOF) zero_header None rd g []).
Proof.
  intros o md g fuel rd Hd Ht Hf. destruct fuel as [|f]; [lia|].
  unfold decode. rewrite (decode_header_eof f rd Hd Ht). reflexivity.
Qed.

Print Assumptions io_read_full_exact.
Print Assumptions decode_header_ok.
Print Assumptions check_crc_ok.
Print Assumptions check_crc_bad.
Print Assumptions run_c_measure.
Print Assumptions entry_Decode_frame.
Print Assumptions decode_frame_schedule_independent.
Print Assumptions decode_frame.
Print Assumptions decode_frame_full.
Print Assumptions run_a_tail.
Print Assumptions decode_eof.
