(* C05/C06/C07: proofs about the encoder model (Model/Encode.v) against the
   grammar recogniser (Spec/Grammar.v), the decoder model's header and CRC
   stages (Model/Decode.v) and the round-trip comparators (Spec/RoundTrip.v). *)
From Coq Require Import NArith ZArith List Bool Lia String.
From Coq Require Import ZifyN ZifyNat ZifyBool.
From FitV Require Import Model.Values Model.Bytes Model.Base Model.Profile Model.Crc Model.Header
  Model.Components Model.Route Model.Encode Spec.CrcSpec Spec.Grammar Spec.RoundTrip
  Proofs.Util Proofs.CrcProofs Gen.Consts Gen.ProfileData Gen.RoutingData.
Import ListNotations.
Local Open Scope N_scope.
Ltac Zify.zify_post_hook ::= Z.div_mod_to_equations.

(* ================================================================ bytes *)
(* every byte the encoder produces is < 256 *)

Lemma is_bytes_app a b : is_bytes a -> is_bytes b -> is_bytes (a ++ b).
Proof. unfold is_bytes. intros. apply Forall_app. now split. Qed.

Lemma is_bytes_app_inv a b : is_bytes (a ++ b) -> is_bytes a /\ is_bytes b.
Proof. unfold is_bytes. intros H. now apply Forall_app in H. Qed.

Lemma is_bytes_rev a : is_bytes a -> is_bytes (rev a).
Proof. unfold is_bytes. apply Forall_rev. Qed.

Lemma le_bytes_bytes n : forall x, is_bytes (le_bytes n x).
Proof.
  induction n as [|n IH]; intros x; simpl; constructor.
  - apply N.mod_lt. discriminate.
  - apply IH.
Qed.

Lemma put_int_bytes be n x : is_bytes (put_int be n x).
Proof. unfold put_int. destruct be; [apply is_bytes_rev|]; apply le_bytes_bytes. Qed.

Lemma le_bytes_length n : forall x, List.length (le_bytes n x) = n.
Proof. induction n as [|n IH]; intros x; simpl; [reflexivity|now rewrite IH]. Qed.

Lemma put_int_length be n x : List.length (put_int be n x) = n.
Proof. unfold put_int. destruct be; [rewrite rev_length|]; apply le_bytes_length. Qed.

(* an induction principle for goval that reaches the elements of VList *)
Fixpoint goval_ind2 (P : goval -> Prop)
  (HU : forall n, P (VU n)) (HI : forall z, P (VI z)) (HF : forall n, P (VF n)) (HS : forall s, P (VStr s))
  (HT : forall s n z, P (VTime s n z)) (HLa : forall z, P (VLat z)) (HLo : forall z, P (VLng z)) (HN : P VNil)
  (HL : forall l, Forall P l -> P (VList l)) (HO : P VOther) (v : goval) {struct v} : P v :=
  match v with
  | VU n => HU n | VI z => HI z | VF n => HF n | VStr s => HS s | VTime s n z => HT s n z
  | VLat z => HLa z | VLng z => HLo z | VNil => HN | VOther => HO
  | VList l =>
      HL l ((fix go (l : list goval) : Forall P l :=
               match l with
               | [] => Forall_nil P
               | x :: r => Forall_cons x (goval_ind2 P HU HI HF HS HT HLa HLo HN HL HO x) (go r)
               end) l)
  end.

Definition ok_bytes (r : eres (list N)) : Prop := forall a, r = EOk a -> is_bytes a.

Lemma ebind_ok {A B} (r : eres A) (f : A -> eres B) b :
  ebind r f = EOk b -> exists a, r = EOk a /\ f a = EOk b.
Proof. destruct r; simpl; intros H; try discriminate. eauto. Qed.

Lemma econcat_ok_bytes l : Forall ok_bytes l -> ok_bytes (econcat l).
Proof.
  induction 1 as [|r l Hr Hl IH]; intros a Ha; simpl in Ha.
  - inversion Ha. constructor.
  - apply ebind_ok in Ha as (x & Hx & Ha). apply ebind_ok in Ha as (y & Hy & Ha). inversion Ha; subst.
    apply is_bytes_app; [now apply Hr|now apply IH].
Qed.

Lemma bw_bytes be : forall v ty, ok_bytes (bw be ty v).
Proof.
  induction v using goval_ind2; intros ty a Ha; destruct ty; simpl in Ha; try discriminate;
    try (inversion Ha; subst; apply put_int_bytes).
  - inversion Ha. constructor.
  - revert a Ha. induction H as [|x r Hx Hr IH]; intros a Ha.
    + inversion Ha. constructor.
    + apply ebind_ok in Ha as (p & Hp & Ha). apply ebind_ok in Ha as (q & Hq & Ha). inversion Ha; subst.
      apply is_bytes_app; [eapply Hx; eassumption|now apply IH].
Qed.

Lemma utf8_fuel_bytes : forall fuel s, utf8_valid_fuel fuel s = true -> is_bytes s.
Proof.
  induction fuel as [|f IH]; intros s H; simpl in H.
  - destruct s; [constructor|discriminate].
  - destruct s as [|b r]; [constructor|].
    unfold in_rng, cont in H.
    destruct (b <? 128) eqn:E1.
    { constructor; [apply N.ltb_lt in E1; lia|now apply IH]. }
    destruct ((194 <=? b) && (b <=? 223)) eqn:E2.
    { destruct r as [|c1 r']; [discriminate|]. apply andb_true_iff in H as [H1 H2].
      constructor; [lia|]. constructor; [lia|now apply IH]. }
    destruct ((224 <=? b) && (b <=? 239)) eqn:E3.
    { destruct r as [|c1 [|c2 r']]; try discriminate.
      apply andb_true_iff in H as [H H3]. apply andb_true_iff in H as [H1 H2].
      constructor; [lia|]. constructor.
      { destruct (b =? 224); [lia|]. destruct (b =? 237); lia. }
      constructor; [lia|now apply IH]. }
    destruct ((240 <=? b) && (b <=? 244)) eqn:E4; [|discriminate].
    destruct r as [|c1 [|c2 [|c3 r']]]; try discriminate.
    apply andb_true_iff in H as [H H4]. apply andb_true_iff in H as [H H3]. apply andb_true_iff in H as [H1 H2].
    constructor; [lia|]. constructor.
    { destruct (b =? 240); [lia|]. destruct (b =? 244); lia. }
    constructor; [lia|]. constructor; [lia|now apply IH].
Qed.

Lemma encode_string_bytes s size : ok_bytes (encode_string s size).
Proof.
  intros a Ha. unfold encode_string in Ha.
  destruct (size =? 0); [discriminate|].
  destruct (utf8_valid _) eqn:E; [|discriminate]. inversion Ha; subst.
  eapply utf8_fuel_bytes. exact E.
Qed.

Lemma encode_value_bytes be pf ty v : ok_bytes (encode_value be pf ty v).
Proof.
  intros a Ha. unfold encode_value in Ha.
  repeat match type of Ha with
         | (if ?c then _ else _) = _ => destruct c
         | match ?v with _ => _ end = _ => destruct v
         end; try discriminate; try (inversion Ha; subst; apply put_int_bytes).
  all: try (eapply encode_string_bytes; eassumption).
  all: try (eapply bw_bytes; eassumption).
Qed.

Lemma Forall_map_all {A B} (P : B -> Prop) (f : A -> B) l : (forall x, P (f x)) -> Forall P (map f l).
Proof. intros H. induction l; simpl; constructor; auto. Qed.

Lemma Forall_repeat {A} (P : A -> Prop) x n : P x -> Forall P (repeat x n).
Proof. intros H. induction n; simpl; constructor; auto. Qed.

Lemma write_field_bytes be pf ty v : ok_bytes (write_field be pf ty v).
Proof.
  unfold write_field.
  destruct (negb (fit_array (pf_t pf))); [apply encode_value_bytes|].
  destruct (fit_base (pf_t pf) =? base_string); [intros a Ha; discriminate|].
  destruct (b_known _) as [kn|]; [|intros a Ha; discriminate].
  destruct (match v with VList l => Some l | VNil => Some [] | _ => None end) as [l|]; [|intros a Ha; discriminate].
  apply econcat_ok_bytes. apply Forall_app. split.
  - apply Forall_map_all. intros x. apply encode_value_bytes.
  - destruct (N.to_nat _) as [|k]; [constructor|].
    destruct (negb kn); [constructor; [intros a Ha; discriminate|constructor]|].
    destruct (b_invalid _); [|constructor; [intros a Ha; discriminate|constructor]].
    destruct (invalid_type _); [|constructor; [intros a Ha; discriminate|constructor]].
    apply Forall_repeat. apply encode_value_bytes.
Qed.

(* what the proofs need from a profile entry: its bytes in a definition record *)
Definition pf_bytes_ok (pf : pfield) : bool := (pf_num pf <? 256) && (pf_length pf <? 256).

Lemma fit_base_lt t : fit_base t < 256.
Proof.
  unfold fit_base, decompress.
  assert (H : N.land (N.land t 255) 31 < 32).
  { change 31 with (N.ones 5). rewrite N.land_ones. apply N.mod_lt. discriminate. }
  destruct (_ || _); lia.
Qed.

Lemma fdef_bytes_ok pf : pf_bytes_ok pf = true -> ok_bytes (fdef_bytes pf).
Proof.
  intros Hpf a Ha. unfold fdef_bytes in Ha. destruct (b_size _) as [bs|]; [|discriminate].
  inversion Ha; subst. unfold pf_bytes_ok in Hpf. apply andb_true_iff in Hpf as [H1 H2].
  pose proof (fit_base_lt (pf_t pf)).
  constructor; [lia|]. constructor.
  { destruct (_ =? base_string); [lia|]. destruct (fit_array _); apply N.mod_lt; discriminate. }
  constructor; [assumption|constructor].
Qed.

Lemma write_def_mesg_bytes be gmn fields :
  forallb pf_bytes_ok fields = true -> ok_bytes (write_def_mesg be gmn fields).
Proof.
  intros Hf a Ha. unfold write_def_mesg in Ha. apply ebind_ok in Ha as (fb & Hfb & Ha). inversion Ha; subst.
  assert (Hb : is_bytes fb).
  { eapply econcat_ok_bytes; [|exact Hfb]. rewrite forallb_forall in Hf.
    apply Forall_forall. intros r Hr. apply in_map_iff in Hr as (pf & <- & Hin). apply fdef_bytes_ok. now apply Hf. }
  constructor; [vm_compute; reflexivity|]. constructor; [lia|]. constructor; [destruct be; lia|].
  apply is_bytes_app; [apply put_int_bytes|]. constructor; [apply N.mod_lt; discriminate|assumption].
Qed.

Lemma write_mesg_bytes be m fields : ok_bytes (write_mesg be m fields).
Proof.
  intros a Ha. unfold write_mesg in Ha. apply ebind_ok in Ha as (body & Hb & Ha). inversion Ha; subst.
  constructor; [reflexivity|].
  eapply econcat_ok_bytes; [|exact Hb]. apply Forall_map_all. intros pf.
  destruct (nth_error _ _); [|intros x Hx; discriminate].
  destruct (field_type _ _); [|intros x Hx; discriminate]. apply write_field_bytes.
Qed.

(* the profile entries of the current tree fit in a definition record: one computation over the generated table *)
Lemma entries_bytes_ok :
  forallb (fun m => forallb (fun e => pf_bytes_ok (snd e)) (md_entries m)) messages = true.
Proof. vm_compute. reflexivity. Qed.

Lemma find_msg_in gmn m : find_msg gmn = Some m -> In m messages.
Proof. unfold find_msg. intros H. now apply find_some in H. Qed.

Lemma by_sindex_in gmn i pf :
  get_field_by_sindex gmn i = Some pf -> exists m e, In m messages /\ In e (md_entries m) /\ snd e = pf /\ find_msg gmn = Some m.
Proof.
  unfold get_field_by_sindex. destruct (find_msg gmn) as [m|] eqn:Em; [|discriminate].
  pose proof (find_msg_in _ _ Em) as Hm.
  destruct (find _ (md_entries m)) as [e|] eqn:E1.
  - intros H; inversion H; subst. apply find_some in E1 as [Hin _]. exists m, e. auto.
  - destruct (find (fun e => fst e =? 255) (md_entries m)) as [e|] eqn:E2; [|discriminate].
    intros H; inversion H; subst. apply find_some in E2 as [Hin _]. exists m, e. auto.
Qed.

Lemma by_sindex_bytes_ok gmn i pf : get_field_by_sindex gmn i = Some pf -> pf_bytes_ok pf = true.
Proof.
  intros H. apply by_sindex_in in H as (m & e & Hm & He & <- & _).
  pose proof entries_bytes_ok as T. rewrite forallb_forall in T. specialize (T m Hm).
  rewrite forallb_forall in T. now apply T.
Qed.

(* every field a definition carries was returned by getFieldBySindex for the message type *)
Definition from_profile (gmn : N) (pf : pfield) : Prop := exists i, get_field_by_sindex gmn i = Some pf.

Lemma def_fields_from gmn : forall vals invs i fs,
  def_fields gmn i vals invs = EOk fs -> Forall (from_profile gmn) fs.
Proof.
  induction vals as [|v vr IH]; intros invs i fs H; simpl in H.
  - inversion H. constructor.
  - destruct invs as [|iv ir]; [inversion H; constructor|].
    assert (Hinc : forall fs, match get_field_by_sindex gmn i with
                   | Some pf => ebind (def_fields gmn (S i) vr ir) (fun r => EOk (pf :: r))
                   | None => EPanic 9 end = EOk fs -> Forall (from_profile gmn) fs).
    { intros fs0 H0. destruct (get_field_by_sindex gmn i) as [pf|] eqn:E; [|discriminate].
      apply ebind_ok in H0 as (r & Hr & H0). inversion H0; subst. constructor; [now exists i|eapply IH; eassumption]. }
    destruct v; try (destruct (goval_eqb _ iv); [eapply IH; eassumption|now apply Hinc]).
    + eapply IH; eassumption.
    + destruct (get_field_by_sindex gmn i) as [pf|] eqn:E; [|discriminate].
      destruct (b_known _); [|discriminate].
      destruct l; [eapply IH; eassumption|]. now apply Hinc.
Qed.

Lemma get_def_from m fs : get_encode_mesg_def m = EOk fs -> Forall (from_profile (m_num m)) fs.
Proof.
  unfold get_encode_mesg_def. destruct (mesg_all_invalid _); [|discriminate].
  destruct (negb _); [discriminate|]. apply def_fields_from.
Qed.

Lemma from_profile_bytes gmn fs : Forall (from_profile gmn) fs -> forallb pf_bytes_ok fs = true.
Proof.
  intros H. apply forallb_forall. intros pf Hin. rewrite Forall_forall in H.
  destruct (H pf Hin) as (i & Hi). eapply by_sindex_bytes_ok; eassumption.
Qed.

Lemma encode_def_and_data_bytes be m : ok_bytes (encode_def_and_data be m).
Proof.
  intros a Ha. unfold encode_def_and_data in Ha.
  apply ebind_ok in Ha as (fs & Hfs & Ha). apply ebind_ok in Ha as (d & Hd & Ha). apply ebind_ok in Ha as (w & Hw & Ha).
  inversion Ha; subst. apply is_bytes_app.
  - eapply write_def_mesg_bytes; [|exact Hd]. eapply from_profile_bytes, get_def_from; eassumption.
  - eapply write_mesg_bytes; eassumption.
Qed.

Definition all_bytes_ok (fs : list pfield) : Prop := forallb pf_bytes_ok fs = true.

Lemma ins_field_ok pf : forall l, pf_bytes_ok pf = true -> all_bytes_ok l -> all_bytes_ok (ins_field pf l).
Proof.
  unfold all_bytes_ok. induction l as [|q r IH]; intros Hp Hl; simpl.
  - now rewrite Hp.
  - simpl in Hl. apply andb_true_iff in Hl as [Hq Hr].
    destruct (pf_num pf <? pf_num q); simpl; [now rewrite Hp, Hq, Hr|].
    destruct (pf_num pf =? pf_num q); simpl; [now rewrite Hp, Hr|]. rewrite Hq. now apply IH.
Qed.

Lemma fold_ins_ok : forall fs acc, all_bytes_ok fs -> all_bytes_ok acc ->
  all_bytes_ok (fold_left (fun a pf => ins_field pf a) fs acc).
Proof.
  induction fs as [|pf r IH]; intros acc Hf Ha; simpl; [assumption|].
  unfold all_bytes_ok in Hf. simpl in Hf. apply andb_true_iff in Hf as [H1 H2].
  apply IH; [exact H2|now apply ins_field_ok].
Qed.

Lemma collect_fields_ok : forall ms acc fs, all_bytes_ok acc -> collect_fields ms acc = EOk fs -> all_bytes_ok fs.
Proof.
  induction ms as [|m r IH]; intros acc fs Ha H; simpl in H.
  - inversion H; subst. assumption.
  - apply ebind_ok in H as (d & Hd & H). eapply IH; [|exact H].
    apply fold_ins_ok; [|assumption]. eapply from_profile_bytes, get_def_from; eassumption.
Qed.

Lemma encode_slice_bytes be ms : ok_bytes (encode_slice be ms).
Proof.
  intros a Ha. unfold encode_slice in Ha. destruct ms as [|m0 mr]; [inversion Ha; constructor|].
  apply ebind_ok in Ha as (fs & Hfs & Ha). apply ebind_ok in Ha as (d & Hd & Ha). apply ebind_ok in Ha as (b & Hb & Ha).
  inversion Ha; subst. apply is_bytes_app.
  - eapply write_def_mesg_bytes; [|exact Hd]. eapply collect_fields_ok; [|exact Hfs]. reflexivity.
  - eapply econcat_ok_bytes; [|exact Hb]. apply Forall_map_all. intros m. apply write_mesg_bytes.
Qed.

Lemma encode_slot_bytes be multi ms : ok_bytes (encode_slot be multi ms).
Proof.
  unfold encode_slot. destruct multi; [apply encode_slice_bytes|].
  apply econcat_ok_bytes. apply Forall_map_all. intros m. apply encode_def_and_data_bytes.
Qed.

Lemma encode_slots_bytes be : forall descs i slots, ok_bytes (encode_slots be i descs slots).
Proof.
  induction descs as [|[[nm multi] mn] dr IH]; intros i slots a Ha; simpl in Ha.
  - inversion Ha. constructor.
  - destruct slots as [|s sr]; [inversion Ha; constructor|].
    destruct (Nat.eqb i 3 || Nat.eqb i 4); [eapply IH; eassumption|].
    apply ebind_ok in Ha as (x & Hx & Ha). apply ebind_ok in Ha as (y & Hy & Ha). inversion Ha; subst.
    apply is_bytes_app; [eapply encode_slot_bytes; eassumption|eapply IH; eassumption].
Qed.

(* ================================================================ framing *)

Lemma le_num_put_le16 x : x < 65536 -> le_num (put_le16 x) = x.
Proof. intros H. unfold put_le16, le_num. lia. Qed.

Lemma le_num_put_le32 x : x < 4294967296 -> le_num (put_le32 x) = x.
Proof. intros H. unfold put_le32, le_num. lia. Qed.

Lemma firstn_len_app {A} (a b : list A) : firstn (List.length a) (a ++ b) = a.
Proof. induction a; simpl; [now destruct b|now rewrite IHa]. Qed.

Lemma skipn_len_app {A} (a b : list A) : skipn (List.length a) (a ++ b) = b.
Proof. induction a; simpl; auto. Qed.

Lemma list_eqb_eq a b : list_eqb a b = true -> a = b.
Proof. unfold list_eqb. destruct (list_eq_dec N.eq_dec a b); [auto|discriminate]. Qed.

Lemma forallb_is_bytes l : is_bytes l -> forallb (fun b => b <? 256) l = true.
Proof. induction 1; simpl; [reflexivity|]. rewrite IHForall, andb_true_r. now apply N.ltb_lt. Qed.

(* a header as NewHeader makes it: size 12 or 14, ".FIT", one-byte protocol version *)
Definition wf_header (h : header) : bool :=
  ((h_size h =? 12) || (h_size h =? 14)) && (h_proto h <? 256) && list_eqb (h_dtype h) fit_dtype.

(* the 12 leading header bytes, spelled out *)
Definition hdr12 (sz proto prof dsz : N) : list N :=
  [sz; proto; prof mod 256; (prof / 256) mod 256;
   dsz mod 256; (dsz / 256) mod 256; (dsz / 65536) mod 256; (dsz / 16777216) mod 256; 46; 70; 73; 84].

Lemma hdr12_bytes sz proto prof dsz : sz < 256 -> proto < 256 -> is_bytes (hdr12 sz proto prof dsz).
Proof.
  intros. unfold hdr12. repeat (constructor; [first [assumption | apply N.mod_lt; discriminate | lia]|]). constructor.
Qed.

Lemma header_bytes12_eq h : h_dtype h = fit_dtype ->
  header_bytes12 h = hdr12 (h_size h) (h_proto h) (h_profile h) (h_dsize h).
Proof. intros E. unfold header_bytes12. rewrite E. reflexivity. Qed.

Lemma checksum_lt l : is_bytes l -> checksum l < 65536.
Proof. intros H. unfold checksum. apply update_lt; [reflexivity|assumption]. Qed.

(* the data section the encoder produced for f *)
Definition enc_data (f : file) (be : bool) : eres (list N) :=
  match ft_entry (file_type f) with
  | Some (true, _, descs) => encode_slots be 0 descs (f_slots f)
  | _ => EErr EEFileType
  end.

Lemma encode_shape f be bs f' :
  encode f be = EOk (bs, f') ->
  exists data,
    enc_data f be = EOk data /\
    let h := f_header f in
    let h1 := mk_header (h_size h) (h_proto h) (h_profile h) (N.of_nat (List.length data) mod 4294967296) (h_dtype h) (h_crc h) in
    let hdr := fst (header_marshal h1) in
    let hcrc := snd (header_marshal h1) in
    let crc := checksum (hdr ++ data) in
    bs = hdr ++ data ++ put_le16 crc /\
    f_crc f' = crc /\
    h_dsize (f_header f') = N.of_nat (List.length data) mod 4294967296 /\
    (h_size h = 14 -> h_crc (f_header f') = hcrc) /\
    (h_size h <> 14 -> h_crc (f_header f') = h_crc h) /\
    f_slots f' = f_slots f /\ f_inited f' = f_inited f.
Proof.
  unfold encode, enc_data. destruct (ft_entry (file_type f)) as [[[ok cn] descs]|]; [|discriminate].
  destruct ok; [|discriminate]. destruct (f_inited f) as [ft'|] eqn:EI; [|discriminate].
  destruct (negb _); [discriminate|]. intros H. apply ebind_ok in H as (data & Hd & H). exists data. split; [exact Hd|].
  cbv zeta in *.
  destruct (header_marshal _) as [hdr hcrc] eqn:EM. simpl fst. simpl snd.
  inversion H; subst; clear H. simpl.
  unfold checksum, crc_sum16, crc_write, crc_new. rewrite update_app.
  repeat split; try reflexivity; try (destruct (h_size (f_header f) =? c_headerSizeCRC); reflexivity).
  - intros E. change c_headerSizeCRC with 14. rewrite E. reflexivity.
  - intros E. change c_headerSizeCRC with 14. apply N.eqb_neq in E. rewrite E. reflexivity.
  - exact EI.
Qed.

(* list facts about a framed stream, with the two checksums abstract *)
Definition framed (sz proto prof : N) (mid data : list N) (crc : N) : list N :=
  (hdr12 sz proto prof (N.of_nat (List.length data)) ++ mid) ++ data ++ put_le16 crc.

Lemma framed12 proto prof data crc :
  N.of_nat (List.length data) < 4294967296 -> crc < 65536 ->
  let bs := framed 12 proto prof [] data crc in
  hdrsize bs = 12 /\ datasize bs = N.of_nat (List.length data) /\ record_bytes bs = data /\ firstn 4 (skipn 8 bs) = fit_magic /\ List.length bs = (12 + List.length data + 2)%nat /\
  filecrc bs = crc /\ firstn (List.length bs - 2) bs = hdr12 12 proto prof (N.of_nat (List.length data)) ++ data.
Proof.
  intros Hd Hc bs. set (dsz := N.of_nat (List.length data)) in *.
  assert (Hds : datasize bs = dsz).
  { unfold datasize, bs, framed, hdr12. cbn [app skipn firstn].
    change (le_num [dsz mod 256; (dsz / 256) mod 256; (dsz / 65536) mod 256; (dsz / 16777216) mod 256]) with (le_num (put_le32 dsz)).
    now apply le_num_put_le32. }
  assert (Hlb : List.length bs = (12 + List.length data + 2)%nat).
  { unfold bs, framed. rewrite !app_length. reflexivity. }
  assert (Hpre : bs = (hdr12 12 proto prof dsz ++ data) ++ put_le16 crc).
  { unfold bs, framed. rewrite app_nil_r, app_assoc. reflexivity. }
  assert (Hl2 : (List.length bs - 2)%nat = List.length (hdr12 12 proto prof dsz ++ data)).
  { rewrite Hlb, app_length. simpl. lia. }
  repeat split.
  - exact Hds.
  - unfold record_bytes. rewrite Hds. unfold bs, framed, hdr12, hdrsize. cbn [app nth skipn N.to_nat Pos.to_nat Pos.iter_op Nat.add].
    subst dsz. rewrite Nat2N.id. apply firstn_len_app.
  - exact Hlb.
  - unfold filecrc. rewrite Hl2. rewrite Hpre. rewrite skipn_len_app. now apply le_num_put_le16.
  - rewrite Hl2. rewrite Hpre. apply firstn_len_app.
Qed.

Lemma framed14 proto prof data hc crc :
  N.of_nat (List.length data) < 4294967296 -> hc < 65536 -> crc < 65536 ->
  let bs := framed 14 proto prof (put_le16 hc) data crc in
  hdrsize bs = 14 /\ datasize bs = N.of_nat (List.length data) /\ record_bytes bs = data /\ firstn 4 (skipn 8 bs) = fit_magic /\ List.length bs = (14 + List.length data + 2)%nat /\
  filecrc bs = crc /\
  firstn (List.length bs - 2) bs = (hdr12 14 proto prof (N.of_nat (List.length data)) ++ put_le16 hc) ++ data /\
  firstn 12 bs = hdr12 14 proto prof (N.of_nat (List.length data)) /\ hdrcrc bs = hc.
Proof.
  intros Hd Hh Hc bs. set (dsz := N.of_nat (List.length data)) in *.
  assert (Hds : datasize bs = dsz).
  { unfold datasize, bs, framed, hdr12. cbn [app skipn firstn].
    change (le_num [dsz mod 256; (dsz / 256) mod 256; (dsz / 65536) mod 256; (dsz / 16777216) mod 256]) with (le_num (put_le32 dsz)).
    now apply le_num_put_le32. }
  assert (Hlb : List.length bs = (14 + List.length data + 2)%nat).
  { unfold bs, framed. rewrite !app_length. reflexivity. }
  assert (Hpre : bs = ((hdr12 14 proto prof dsz ++ put_le16 hc) ++ data) ++ put_le16 crc).
  { unfold bs, framed. rewrite !app_assoc. reflexivity. }
  assert (Hl2 : (List.length bs - 2)%nat = List.length ((hdr12 14 proto prof dsz ++ put_le16 hc) ++ data)).
  { rewrite Hlb, !app_length. simpl. lia. }
  repeat split.
  - exact Hds.
  - unfold record_bytes. rewrite Hds. unfold bs, framed, hdr12, hdrsize, put_le16 at 1. cbn [app nth skipn N.to_nat Pos.to_nat Pos.iter_op Nat.add].
    subst dsz. rewrite Nat2N.id. apply firstn_len_app.
  - exact Hlb.
  - unfold filecrc. rewrite Hl2. rewrite Hpre. rewrite skipn_len_app. now apply le_num_put_le16.
  - rewrite Hl2. rewrite Hpre. apply firstn_len_app.
  - unfold hdrcrc, bs, framed, hdr12, put_le16 at 1. cbn [app skipn firstn].
    change (le_num [hc mod 256; (hc / 256) mod 256]) with (le_num (put_le16 hc)). now apply le_num_put_le16.
Qed.

Lemma put_le16_bytes x : is_bytes (put_le16 x).
Proof. unfold put_le16. repeat constructor; apply N.mod_lt; discriminate. Qed.


(* Proof-engineering note: no cbn/simpl/change may expose [snd (_, checksum l)] or
   [checksum] of an explicit cons list to the kernel conversion (the register is used
   twice per byte: unfolding is exponential); pairs are projected by rewriting. *)
Lemma header_marshal_wf sz proto prof dsz dt c : dt = fit_dtype ->
  header_marshal (mk_header sz proto prof dsz dt c) =
  (if sz =? 14 then hdr12 sz proto prof dsz ++ put_le16 (checksum (hdr12 sz proto prof dsz)) else hdr12 sz proto prof dsz,
   checksum (hdr12 sz proto prof dsz)).
Proof.
  intros E. unfold header_marshal. rewrite header_bytes12_eq by exact E. reflexivity.
Qed.

Lemma snd_pair {A B} (a : A) (b : B) : snd (a, b) = b.
Proof. reflexivity. Qed.
Lemma fst_pair {A B} (a : A) (b : B) : fst (a, b) = a.
Proof. reflexivity. Qed.

Lemma encode_framed f be bs f' :
  wf_header (f_header f) = true ->
  encode f be = EOk (bs, f') ->
  N.of_nat (List.length bs) < 4294967296 ->
  exists data hc crc,
    enc_data f be = EOk data /\ is_bytes data /\ N.of_nat (List.length data) < 4294967296 /\
    let h := f_header f in
    let b12 := hdr12 (h_size h) (h_proto h) (h_profile h) (N.of_nat (List.length data)) in
    is_bytes b12 /\
    hc = checksum b12 /\
    f_crc f' = crc /\ h_dsize (f_header f') = N.of_nat (List.length data) /\
    ((h_size h = 12 /\ bs = framed 12 (h_proto h) (h_profile h) [] data crc /\ crc = checksum (b12 ++ data)) \/
     (h_size h = 14 /\ bs = framed 14 (h_proto h) (h_profile h) (put_le16 hc) data crc /\
      crc = checksum ((b12 ++ put_le16 hc) ++ data) /\ h_crc (f_header f') = hc)).
Proof.
  intros Hwf Henc Hlen. apply encode_shape in Henc as (data & Hdata & Hshape).
  cbv zeta in Hshape. destruct Hshape as (Hbs & Hcrc & Hds & Hc14 & _).
  unfold wf_header in Hwf. apply andb_true_iff in Hwf as [Hwf Hdt]. apply andb_true_iff in Hwf as [Hsz Hpr].
  apply list_eqb_eq in Hdt. apply N.ltb_lt in Hpr.
  assert (Hdb : is_bytes data).
  { unfold enc_data in Hdata. destruct (ft_entry _) as [[[ok cn] descs]|]; [|discriminate]. destruct ok; [|discriminate].
    eapply encode_slots_bytes; eassumption. }
  assert (Hdl : N.of_nat (List.length data) < 4294967296).
  { rewrite Hbs in Hlen. rewrite !app_length in Hlen. clear - Hlen. lia. }
  assert (Hs256 : h_size (f_header f) < 256).
  { clear - Hsz. apply orb_true_iff in Hsz as [E|E]; apply N.eqb_eq in E; rewrite E; reflexivity. }
  pose proof (hdr12_bytes _ (h_proto (f_header f)) (h_profile (f_header f)) (N.of_nat (List.length data)) Hs256 Hpr) as Hb12.
  exists data. cbv zeta.
  apply orb_true_iff in Hsz as [E|E]; apply N.eqb_eq in E; [clear Hc14|specialize (Hc14 E)].
  - rewrite (N.mod_small _ _ Hdl) in Hbs, Hcrc, Hds.
    rewrite (header_marshal_wf _ _ _ _ _ _ Hdt) in Hbs, Hcrc.
    rewrite !fst_pair in Hbs, Hcrc.
    assert (Eb : (h_size (f_header f) =? 14) = false) by (rewrite E; reflexivity).
    rewrite Eb in Hbs, Hcrc.
    eexists; eexists. split; [exact Hdata|]. split; [exact Hdb|]. split; [exact Hdl|]. split; [exact Hb12|]. split; [reflexivity|].
    split; [reflexivity|]. split; [exact Hds|]. left. split; [exact E|].
    split; [|exact Hcrc]. rewrite <- Hcrc in Hbs. unfold framed. rewrite app_nil_r. rewrite <- E at 1. exact Hbs.
  - rewrite (N.mod_small _ _ Hdl) in Hbs, Hcrc, Hds, Hc14.
    rewrite (header_marshal_wf _ _ _ _ _ _ Hdt) in Hbs, Hcrc, Hc14.
    rewrite !fst_pair in Hbs, Hcrc. rewrite snd_pair in Hc14.
    assert (Eb : (h_size (f_header f) =? 14) = true) by (rewrite E; reflexivity).
    rewrite Eb in Hbs, Hcrc.
    eexists; eexists. split; [exact Hdata|]. split; [exact Hdb|]. split; [exact Hdl|]. split; [exact Hb12|]. split; [reflexivity|].
    split; [reflexivity|]. split; [exact Hds|]. right. split; [exact E|].
    split; [|split; [exact Hcrc|exact Hc14]]. rewrite <- Hcrc in Hbs. unfold framed. rewrite <- app_assoc.
    rewrite <- app_assoc in Hbs. rewrite <- E at 1. exact Hbs.
Qed.

Theorem encode_framing f be bs f' :
  wf_header (f_header f) = true ->
  encode f be = EOk (bs, f') ->
  N.of_nat (List.length bs) < 4294967296 ->
  forallb (fun b => b <? 256) bs = true /\
  header_ok bs = true /\ trailer_ok bs = true /\
  enc_data f be = EOk (record_bytes bs) /\
  h_dsize (f_header f') = datasize bs /\
  N.of_nat (List.length (record_bytes bs)) = datasize bs /\
  f_crc f' = filecrc bs /\
  (hdrsize bs = 14 -> h_crc (f_header f') = hdrcrc bs /\ hdrcrc bs = arc (firstn 12 bs)).
Proof.
  intros Hwf Henc Hlen.
  destruct (encode_framed f be bs f' Hwf Henc Hlen) as (data & hc & crc & Hdata & Hdb & Hdl & Hrest).
  cbv zeta in Hrest. destruct Hrest as (Hb12 & Hhc & Hcrc & Hds & Hcase).
  remember (hdr12 (h_size (f_header f)) (h_proto (f_header f)) (h_profile (f_header f)) (N.of_nat (List.length data))) as b12 eqn:Eb.
  destruct Hcase as [(E & Hbs & Hc)|(E & Hbs & Hc & Hh)]; rewrite E in Eb.
  - assert (Hcl : crc < 65536) by (rewrite Hc; apply checksum_lt, is_bytes_app; assumption).
    pose proof (framed12 (h_proto (f_header f)) (h_profile (f_header f)) data crc Hdl Hcl) as F.
    cbv zeta in F. rewrite <- Hbs in F. rewrite <- Eb in F. destruct F as (F1 & F2 & F3 & F4 & F5 & F6 & F7).
    assert (Hall : is_bytes bs).
    { rewrite Hbs. unfold framed. rewrite <- Eb. apply is_bytes_app; [apply is_bytes_app; [assumption|constructor]|].
      apply is_bytes_app; [assumption|apply put_le16_bytes]. }
    split; [now apply forallb_is_bytes|].
    split.
    { unfold header_ok. cbv zeta. rewrite F1, F2, F4, F5.
      replace (N.of_nat (12 + List.length data + 2) =? 12 + N.of_nat (List.length data) + 2) with true by (symmetry; apply N.eqb_eq; lia).
      reflexivity. }
    split.
    { unfold trailer_ok. rewrite F6, F7. apply N.eqb_eq. rewrite Hc. apply checksum_is_arc. now apply is_bytes_app. }
    split; [now rewrite F3|]. split; [now rewrite Hds, F2|]. split; [now rewrite F3, F2|]. split; [now rewrite F6|].
    intros H14. rewrite F1 in H14. discriminate.
  - assert (Hhl : hc < 65536) by (rewrite Hhc; now apply checksum_lt).
    assert (Hcl : crc < 65536).
    { rewrite Hc. apply checksum_lt. apply is_bytes_app; [apply is_bytes_app; [assumption|apply put_le16_bytes]|assumption]. }
    pose proof (framed14 (h_proto (f_header f)) (h_profile (f_header f)) data hc crc Hdl Hhl Hcl) as F.
    cbv zeta in F. rewrite <- Hbs in F. rewrite <- Eb in F. destruct F as (F1 & F2 & F3 & F4 & F5 & F6 & F7 & F8 & F9).
    assert (Hall : is_bytes bs).
    { rewrite Hbs. unfold framed. rewrite <- Eb. apply is_bytes_app; [apply is_bytes_app; [assumption|apply put_le16_bytes]|].
      apply is_bytes_app; [assumption|apply put_le16_bytes]. }
    assert (Harc : hc = arc b12) by (rewrite Hhc; now apply checksum_is_arc).
    split; [now apply forallb_is_bytes|].
    split.
    { unfold header_ok. cbv zeta. rewrite F1, F2, F4, F5, F8, F9.
      replace (N.of_nat (14 + List.length data + 2) =? 14 + N.of_nat (List.length data) + 2) with true by (symmetry; apply N.eqb_eq; lia).
      replace (hc =? arc b12) with true by (symmetry; now apply N.eqb_eq).
      destruct (hc =? 0); reflexivity. }
    split.
    { unfold trailer_ok. rewrite F6, F7. apply N.eqb_eq. rewrite Hc. apply checksum_is_arc.
      apply is_bytes_app; [apply is_bytes_app; [assumption|apply put_le16_bytes]|assumption]. }
    split; [now rewrite F3|]. split; [now rewrite Hds, F2|]. split; [now rewrite F3, F2|]. split; [now rewrite F6|].
    intros _. rewrite F9, F8. split; assumption.
Qed.
