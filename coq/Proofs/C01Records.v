(* C01: definition messages, data messages, the record loop and the buffered
   part of decode never panic, on any bytes; every record consumes at least
   one byte, so the loop fuel of decode_file_data is never exhausted and the
   loop exits with n = limit (the pre-CRC invariant). *)
From Coq Require Import NArith ZArith List Bool Arith Lia String.
From FitV Require Import Proofs.Util Model.Values Model.Bytes Model.Base Model.Profile Model.Reflect Model.IO
  Model.Header Model.Components Model.Route Model.Decode Spec.ProfileWf Spec.RouteSpec Proofs.ProfileProofs Proofs.RouteProofs
  Proofs.IOSim Proofs.DecodeLemmas
  Proofs.C01Hoare Proofs.C01Cells Proofs.C01Fields Gen.Consts Gen.RoutingData.
Import ListNotations.
Local Close Scope string_scope.
Local Open Scope N_scope.

(* ---- definitions held in the 16 slots *)
Definition def_ok (dm : defmsg) : Prop := Forall (fdef_ok (dm_gmn dm)) (dm_fdefs dm).
Definition slot_ok (o : option defmsg) : Prop := match o with Some dm => def_ok dm | None => True end.
Definition DInv (s : dstate) : Prop := Forall slot_ok (ds_defs s).

Lemma Forall_nth_some {A} (P : option A -> Prop) l i x : Forall P l -> nth i l None = Some x -> P (Some x).
Proof.
  intros H E. destruct (Nat.lt_ge_cases i (List.length l)) as [L|G].
  - rewrite <- E. rewrite Forall_forall in H. apply H. now apply nth_In.
  - rewrite nth_overflow in E by assumption. discriminate.
Qed.

Lemma Forall_set_nth {A} (P : A -> Prop) x : forall n l, Forall P l -> P x -> Forall P (set_nth n x l).
Proof.
  induction n as [|n IH]; intros [|a l] H Hx; cbn; try constructor; inversion H; subst; auto.
Qed.

Lemma chunk3_bytes : forall n l, (List.length l <= n)%nat -> Forall isbyte l ->
  Forall (fun t : N * N * N => let '(a, b, c) := t in isbyte a /\ isbyte b /\ isbyte c) (chunk3 l).
Proof.
  induction n as [|n IH]; intros l Hl H.
  - destruct l; [constructor|cbn in Hl; lia].
  - destruct l as [|a [|b [|c r]]]; cbn [chunk3]; try constructor.
    + inversion H as [|? ? Ha H1]; subst. inversion H1 as [|? ? Hb H2]; subst. inversion H2 as [|? ? Hc H3]; subst. auto.
    + apply IH; [cbn in Hl; lia|].
      inversion H as [|? ? Ha H1]; subst. inversion H1 as [|? ? Hb H2]; subst. now inversion H2.
Qed.

Lemma fdefs_ok gmn : forall fds, Forall (fun fd => fd_btype fd < 256 /\ fd_size fd < 256) fds ->
  validate_all gmn fds = VOk -> Forall (fdef_ok gmn) fds.
Proof.
  induction fds as [|fd r IH]; intros Hb Hv; [constructor|].
  inversion Hb as [|? ? [H1 H2] Hr]; subst. cbn [validate_all] in Hv.
  destruct (validate_field_def gmn fd) eqn:E; try discriminate.
  constructor; [repeat split; assumption|now apply IH].
Qed.

(* func (d) parseDefinitionMessage: never panics; what it returns was validated *)
Lemma parse_definition_message_np b x s : AInv x ->
  np (parse_definition_message b) x s
     (fun dm x' s' => AInv x' /\ s' = s /\ def_ok dm /\ dm_local dm = N.land b c_localMesgNumMask).
Proof.
  intros HA. unfold parse_definition_message. cbv zeta.
  apply np_bind_read_byte; [assumption|]. intros r0 x1 _ HA1 _ _.
  apply np_bind_read_byte; [assumption|]. intros arch x2 _ HA2 _ _.
  apply np_bind.
  apply np_conseq with (Q := fun (_ : bool) x' s' => x' = x2 /\ s' = s).
  { destruct (arch =? c_littleEndian); [split; reflexivity|].
    destruct (arch =? c_bigEndian); [split; reflexivity|exact I]. }
  intros be x' s' [-> ->].
  apply np_bind_read_full; [assumption|]. intros g2 x3 _ _ HA3 _ _.
  destruct (get16 be g2 =? c_MesgNumInvalid); [exact I|].
  apply np_bind_read_byte; [assumption|]. intros nf x4 _ HA4 _ _.
  apply np_bind_read_full; [assumption|]. intros fb x5 Hfb Hlen HA5 _ _.
  set (fds := map (fun t : N * N * N => let '(a, b0, c) := t in mk_fdef a b0 c) (chunk3 fb)).
  assert (Hbytes : Forall (fun fd => fd_btype fd < 256 /\ fd_size fd < 256) fds).
  { unfold fds. pose proof (chunk3_bytes _ fb (Nat.le_refl _) Hfb) as Hc.
    induction Hc as [|[[a b0] c] r (Ha & Hb & Hc0) Hr IH]; cbn [map]; constructor; auto. }
  pose proof (validate_all_no_panic (get16 be g2) fds) as Hnp.
  destruct (validate_all (get16 be g2) fds) eqn:Ev.
  - pose proof (fdefs_ok _ _ Hbytes Ev) as Hok.
    destruct (N.land b c_devDataMask =? c_devDataMask).
    + apply np_bind_read_byte; [assumption|]. intros nd x6 _ HA6 _ _.
      apply np_bind_read_full; [assumption|]. intros db x7 _ _ HA7 _ _.
      apply np_ret. split; [assumption|split; [reflexivity|split; [assumption|reflexivity]]].
    + apply np_ret. split; [assumption|split; [reflexivity|split; [assumption|reflexivity]]].
  - exact I.
  - exfalso. now apply (Hnp w).
Qed.

(* ---- data messages *)
Definition local_of (b : N) (compressed : bool) : N :=
  if compressed then N.shiftr (N.land b c_compressedLocalMesgNumMask) 5 else N.land b c_localMesgNumMask.

Lemma gotype_time t : fit_kind t = kind_timeutc -> fit_array t = false -> gotype_of_fit t = TTime.
Proof. intros Hk Ha. unfold gotype_of_fit. rewrite Hk, Ha. reflexivity. Qed.

Lemma parse_data_message_np o b compressed x s : AInv x -> DInv s ->
  np (parse_data_message o b compressed) x s
     (fun om x' s' => AInv x' /\ frame s s' /\
        exists dm, nth (N.to_nat (local_of b compressed)) (ds_defs s) None = Some dm /\
                   (known_msg (dm_gmn dm) = true -> om <> None)).
Proof.
  intros HA HD. unfold parse_data_message. cbv zeta. fold (local_of b compressed).
  apply np_get_st.
  destruct (nth (N.to_nat (local_of b compressed)) (ds_defs s) None) as [dm|] eqn:En; [|exact I].
  assert (Hd : def_ok dm) by exact (Forall_nth_some slot_ok _ _ _ HD En).
  apply np_bind.
  apply np_conseq with (Q := fun (msgv : option msg) x' s' => x' = x /\ frame s s' /\ (known_msg (dm_gmn dm) = true -> msgv <> None)).
  { destruct (known_msg (dm_gmn dm)) eqn:Ek.
    - destruct (known_has_constructor _ Ek) as (md & _ & _ & _ & Hm & _). rewrite Hm.
      apply np_ret. split; [reflexivity|split; [apply frame_refl|discriminate]].
    - destruct (o_unkm o); cbn; (split; [reflexivity|split; [split; reflexivity|discriminate]]). }
  intros msgv x' s1 (-> & Hf1 & Hm).
  assert (Hfin : forall mv s2, frame s s2 -> (known_msg (dm_gmn dm) = true -> mv <> None) ->
            np (parse_data_fields o dm (known_msg (dm_gmn dm)) mv) x s2
               (fun om x' s' => AInv x' /\ frame s s' /\
                  exists dm0, Some dm = Some dm0 /\ (known_msg (dm_gmn dm0) = true -> om <> None))).
  { intros mv s2 Hf2 Hmv. eapply np_conseq; [apply validate_admits_only_storable; eassumption|].
    cbv beta. intros om x2 s3 (HA2 & Hf3 & Hom). split; [assumption|]. split; [eapply frame_trans; eassumption|].
    exists dm. split; [reflexivity|assumption]. }
  destruct (negb compressed); [now apply Hfin|].
  apply np_get_st.
  destruct (negb (ds_hasts s1)); [now apply Hfin|].
  apply np_put_st.
  match goal with |- np _ _ ?st _ => set (s2 := st) end.
  assert (Hf2 : frame s s2).
  { unfold s2. destruct Hf1 as [A B]. split; cbn; assumption. }
  destruct (get_field (dm_gmn dm) c_fieldNumTimeStamp) as [p|] eqn:Eg; [|now apply Hfin].
  destruct (entry_sound _ _ _ Eg) as (md & _ & F).
  specialize (Hm (ef_known _ _ _ _ F)).
  destruct msgv as [m|]; [|congruence].
  rewrite (ef_type _ _ _ _ F).
  pose proof (ef_ts _ _ _ _ F eq_refl) as Hk.
  assert (Ha : fit_array (pf_t p) = false) by (apply (ef_scalar_kinds _ _ _ _ F); rewrite Hk; discriminate).
  rewrite (gotype_time _ Hk Ha). cbn [set_time].
  apply Hfin; [assumption|discriminate].
Qed.

(* ---- File.add *)
Definition file_ready (f : file) : Prop := exists ft, f_inited f = Some ft /\ In ft valid_file_types.

Lemma add_msg_np m x s : file_ready (ds_file s) ->
  np (add_msg m) x s (fun _ x' s' => x' = x /\ ds_defs s' = ds_defs s /\ file_ready (ds_file s')).
Proof.
  intros (ft & Hi & Hft). unfold add_msg. apply np_get_st.
  destruct (add_no_panic ft Hft (ds_file s) (ds_g s) m Hi) as (f' & g' & -> & Hi' & _).
  cbn. split; [reflexivity|split; [reflexivity|]]. exists ft. split; assumption.
Qed.

(* the file_id message is stored before init: File.add handles it itself *)
Definition fileid_routes_ok : bool :=
  match common_routes c_MesgNumFileId with
  | [] => false
  | rs => forallb (fun r : nat * rmode * bool => negb (snd r)) rs
  end.
Lemma fileid_routes_ok_true : fileid_routes_ok = true.
Proof. vm_compute. reflexivity. Qed.

Lemma apply_routes_noexp m : forall rs slots g, forallb (fun r : nat * rmode * bool => negb (snd r)) rs = true ->
  exists slots', apply_routes rs m slots g = Some (slots', g).
Proof.
  induction rs as [|[[i mode] e] r IH]; intros slots g H; cbn [apply_routes]; [eauto|].
  cbn [forallb] in H. apply andb_prop in H. destruct H as [He Hr]. cbn in He. destruct e; [discriminate|].
  apply IH. assumption.
Qed.

Lemma fileid_add_np m x s : f_inited (ds_file s) = None -> m_num m = c_MesgNumFileId ->
  np (add_msg m) x s (fun _ x' s' => x' = x /\ ds_defs s' = ds_defs s /\ f_inited (ds_file s') = None).
Proof.
  intros Hi Hn. unfold add_msg. apply np_get_st. unfold file_add. rewrite Hi, Hn.
  pose proof fileid_routes_ok_true as H. unfold fileid_routes_ok in H.
  destruct (common_routes c_MesgNumFileId) as [|r0 rs]; [discriminate|].
  destruct (apply_routes_noexp m (r0 :: rs) (f_slots (ds_file s)) (ds_g s) H) as (slots' & ->).
  cbn. repeat split.
Qed.

Lemma np_put_st0 s' x (s : dstate) (Q : unit -> ast -> dstate -> Prop) : Q tt x s' -> np (put_st s') x s Q.
Proof. exact (fun H => H). Qed.

Lemma set_def_np dm x s : def_ok dm -> DInv s ->
  np (set_def dm) x s (fun _ x' s' => x' = x /\ DInv s' /\ ds_file s' = ds_file s).
Proof.
  intros Hd HD. unfold set_def. apply np_get_st. cbn. split; [reflexivity|split; [|reflexivity]].
  unfold DInv. cbn. now apply Forall_set_nth.
Qed.

(* ---- one record *)
Lemma parse_record_np o x s : AInv x -> DInv s -> file_ready (ds_file s) ->
  np (parse_record o) x s (fun _ x' s' => AInv x' /\ DInv s' /\ file_ready (ds_file s')).
Proof.
  intros HA HD HF. unfold parse_record.
  apply np_bind_read_byte; [assumption|]. intros b x1 _ HA1 _ _.
  assert (Hdata : forall c, np (om <- parse_data_message o b c ;; match om with Some m => add_msg m | None => Ret tt end) x1 s
                              (fun _ x' s' => AInv x' /\ DInv s' /\ file_ready (ds_file s'))).
  { intros c. apply np_bind. eapply np_conseq; [apply parse_data_message_np; assumption|].
    cbv beta. intros om x2 s2 (HA2 & [Hfd Hff] & _).
    assert (HD2 : DInv s2) by (unfold DInv; now rewrite Hfd).
    assert (HF2 : file_ready (ds_file s2)) by now rewrite Hff.
    destruct om as [m|].
    - eapply np_conseq; [apply add_msg_np; assumption|]. cbv beta. intros _ x3 s3 (-> & Hd3 & HF3).
      split; [assumption|split; [unfold DInv; now rewrite Hd3|assumption]].
    - apply np_ret. split; [assumption|split; assumption]. }
  destruct (N.land b c_compressedHeaderMask =? c_compressedHeaderMask); [apply Hdata|].
  destruct (N.land b c_mesgDefinitionMask =? c_mesgDefinitionMask).
  - apply np_bind. eapply np_conseq; [apply parse_definition_message_np; assumption|].
    cbv beta. intros dm x2 s2 (HA2 & -> & Hd & _).
    eapply np_conseq; [apply set_def_np; assumption|]. cbv beta. intros _ x3 s3 (-> & HD3 & Hf3).
    split; [assumption|split; [assumption|now rewrite Hf3]].
  - destruct (N.land b c_mesgDefinitionMask =? c_mesgHeaderMask); [apply Hdata|exact I].
Qed.

(* progress: a program that starts by reading a byte consumes at least one byte *)
Lemma read_first_progress {A} (k : N -> P A) x s :
  match run_a (bind read_byte k) x s with
  | ROk _ x' _ => (a_n x < a_n x')%nat
  | _ => True
  end.
Proof.
  unfold read_byte. cbn [bind run_a].
  destruct (a_take 1 x) as [[l x1]|e] eqn:Et; [|exact I].
  assert (Hn : a_n x1 = (a_n x + 1)%nat).
  { unfold a_take in Et. destruct (Nat.leb 1 _); [|destruct (Nat.leb _ _); discriminate]. inversion Et; subst; reflexivity. }
  pose proof (run_a_mono (k (hd 0 l)) x1 s) as Hm. cbn [bind].
  destruct (run_a (k (hd 0 l)) x1 s); try exact I. lia.
Qed.

Lemma parse_record_progress o x s :
  match run_a (parse_record o) x s with
  | ROk _ x' _ => (a_n x < a_n x')%nat
  | _ => True
  end.
Proof. unfold parse_record. apply read_first_progress. Qed.

(* func (d) decodeFileData: the loop fuel is never exhausted, and the loop
   ends with n = limit *)
Lemma decode_file_data_np o : forall fuel x s, (a_limit x - a_n x < fuel)%nat ->
  AInv x -> DInv s -> file_ready (ds_file s) ->
  np (decode_file_data o fuel) x s (fun _ x' s' => a_n x' = a_limit x').
Proof.
  induction fuel as [|f IH]; intros x s Hfuel HA HD HF; [lia|].
  cbn [decode_file_data]. apply np_more.
  destruct (Nat.ltb_spec (a_n x) (a_limit x)) as [L|G].
  - apply np_bind.
    pose proof (parse_record_np o x s HA HD HF) as H1.
    pose proof (parse_record_progress o x s) as H2.
    pose proof (run_a_inv (parse_record o) x s) as H3.
    unfold np in *. destruct (run_a (parse_record o) x s) as [u x' s'| | | |]; try exact I; try contradiction.
    destruct H1 as (HA' & HD' & HF'). destruct H3 as [Hl _].
    apply IH; try assumption. lia.
  - apply np_ret. destruct HA as [_ Hle]. lia.
Qed.

(* ---- the file_id message and init *)
Lemma nth_set_nth_repeat_none {A} (x y : A) : forall n l i,
  nth i (set_nth l (Some x) (repeat None n)) None = Some y -> y = x.
Proof.
  induction n as [|n IH]; intros l i H; cbn in H.
  - destruct l, i; discriminate.
  - destruct l as [|l]; cbn in H.
    + destruct i as [|i]; [now inversion H|].
      exfalso. revert H. clear. revert i. induction n as [|n IHn]; intros [|i] H; cbn in H; try discriminate. now apply (IHn i).
    + destruct i as [|i]; [discriminate|]. now apply (IH l i).
Qed.

Lemma known_fileid : known_msg c_MesgNumFileId = true.
Proof. vm_compute. reflexivity. Qed.

Lemma parse_file_id_msg_np o x f g : AInv x -> f_inited f = None ->
  np (parse_file_id_msg o) x (init_dstate f g)
     (fun _ x' s' => AInv x' /\ DInv s' /\ f_inited (ds_file s') = None).
Proof.
  intros HA Hi. unfold parse_file_id_msg.
  apply np_bind_read_byte; [assumption|]. intros b x1 _ HA1 _ _.
  destruct (negb (N.land b c_mesgDefinitionMask =? c_mesgDefinitionMask)); [exact I|].
  apply np_bind. eapply np_conseq; [apply parse_definition_message_np; assumption|].
  cbv beta. intros dm x2 s2 (HA2 & -> & Hd & _).
  destruct (N.eqb_spec (dm_gmn dm) c_MesgNumFileId) as [Eg|NE]; cbn [negb]; [|exact I].
  apply np_bind.
  assert (HD0 : DInv (init_dstate f g)).
  { unfold DInv, init_dstate. cbn. repeat constructor. }
  unfold set_def. apply np_get_st. apply np_put_st0.
  set (s3 := with_defs (init_dstate f g) (set_nth (N.to_nat (dm_local dm)) (Some dm) (ds_defs (init_dstate f g)))).
  assert (HD3 : DInv s3) by (unfold DInv, s3; cbn [ds_defs with_defs]; apply Forall_set_nth; [exact HD0|exact Hd]).
  apply np_bind_read_byte; [assumption|]. intros b2 x4 _ HA4 _ _.
  destruct (negb (N.land b2 c_mesgHeaderMask =? c_mesgHeaderMask)); [exact I|].
  apply np_bind.
  pose proof (parse_data_message_np o b2 false x4 s3 HA4 HD3) as Hpd.
  unfold np in *.
  destruct (run_a (parse_data_message o b2 false) x4 s3) as [om x5 s5| | | |] eqn:Er; try exact I; try contradiction.
  destruct Hpd as (HA5 & [Hfd Hff] & dm' & Hnth & Hom).
  assert (Edm : dm' = dm) by exact (nth_set_nth_repeat_none _ _ 16%nat _ _ Hnth).
  subst dm'. rewrite Eg in Hom. specialize (Hom known_fileid).
  destruct om as [m|]; [|congruence].
  destruct (N.eqb_spec (m_num m) c_MesgNumFileId) as [Em|NEm]; [|exact I].
  assert (Hi5 : f_inited (ds_file s5) = None) by (rewrite Hff; unfold s3; cbn; exact Hi).
  pose proof (fileid_add_np m x5 s5 Hi5 Em) as Hadd. unfold np in Hadd.
  destruct (run_a (add_msg m) x5 s5) as [u x6 s6| | | |]; try exact I; try contradiction.
  destruct Hadd as (-> & Hd6 & Hi6).
  split; [assumption|split; [|assumption]].
  unfold DInv. rewrite Hd6, Hfd. exact HD3.
Qed.

Lemma ft_entry_valid ft c sl : ft_entry ft = Some (true, c, sl) -> In ft valid_file_types.
Proof.
  unfold ft_entry. intros H.
  destruct (find (fun e : N * bool * string * list (string * bool * N) => fst (fst (fst e)) =? ft) file_types)
    as [[[[ft' ok] c'] sl']|] eqn:Ef; [|discriminate].
  inversion H; subst. apply find_some in Ef. destruct Ef as [Hin Hk]. cbn in Hk. apply N.eqb_eq in Hk. subst ft'.
  pose proof init_ok_true as W. unfold init_ok in W.
  do 5 (apply andb_prop in W; destruct W as [W _]).
  rewrite forallb_forall in W. specialize (W _ Hin). cbv beta iota in W.
  destruct (ft_valid ft) eqn:Ee; [|discriminate W]. unfold ft_valid in Ee.
  apply existsb_exists in Ee. destruct Ee as (y & Hy & Hey). apply N.eqb_eq in Hey. now subst.
Qed.

Lemma do_init_np x s :
  np do_init x s (fun _ x' s' => x' = x /\ ds_defs s' = ds_defs s /\ file_ready (ds_file s')).
Proof.
  unfold do_init. apply np_get_st. unfold file_init.
  destruct (ft_entry (file_type (ds_file s))) as [[[ok c] sl]|] eqn:Ee; [|exact I].
  destruct ok; [|exact I].
  cbn. split; [reflexivity|split; [reflexivity|]].
  exists (file_type (ds_file s)). split; [reflexivity|]. eapply ft_entry_valid; eassumption.
Qed.

(* the buffered part of decode: no panic; in full mode it ends with n = limit *)
Theorem data_prog_np o fid x f g : AInv x -> f_inited f = None ->
  np (data_prog o fid (S (a_limit x))) x (init_dstate f g)
     (fun _ x' s' => fid = false -> a_n x' = a_limit x').
Proof.
  intros HA Hi. unfold data_prog.
  apply np_bind.
  pose proof (parse_file_id_msg_np o x f g HA Hi) as H1.
  pose proof (run_a_inv (parse_file_id_msg o) x (init_dstate f g)) as H3.
  unfold np in *. destruct (run_a (parse_file_id_msg o) x (init_dstate f g)) as [u x1 s1| | | |]; try exact I; try contradiction.
  destruct H1 as (HA1 & HD1 & Hi1). destruct H3 as [Hl _].
  destruct fid; [cbn; discriminate|].
  fold (np (do_init ;;; decode_file_data o (S (a_limit x))) x1 s1 (fun _ x' _ => false = false -> a_n x' = a_limit x')).
  apply np_bind. eapply np_conseq; [apply do_init_np|]. cbv beta. intros _ x2 s2 (-> & Hd2 & HF2).
  eapply np_conseq; [apply decode_file_data_np; try assumption|].
  - lia.
  - unfold DInv. now rewrite Hd2.
  - cbv beta. auto.
Qed.
