(* C11 partial_files, the whole-entry cut statement for DecodeHeaderAndFileID, and (for C10) file_id agreement:
   the stream-level theory (StreamDenote*.v: decode = denote with the invariant Inv, truncated_outcome) composed with
   the framing theory (C10Frame.v decode_abs / decode_a, C11Cut.v).

   A. the header stage on a well-formed header;  B. a record that does not complete leaves the File alone;
   C. the record loop on a truncated input;      D. data_prog on a truncated input (three regions);
   E. the entry points over any reader;          F. DecodeHeaderAndFileID: threshold;  G. file_id agreement. *)
From Coq Require Import NArith ZArith List Bool Lia Arith.
From FitV Require Import Proofs.Util Model.Values Model.Bytes Model.Base Model.Profile Model.Reflect Model.Crc Model.IO
  Model.Header Model.Route Model.Components Model.Decode Spec.FitSyntax Spec.RouteSpec Proofs.RouteProofs
  Proofs.DecodeLemmas Gen.Consts Proofs.IOSim
  Proofs.StreamDenoteBase Proofs.StreamDenoteDefs Proofs.StreamDenoteDef Proofs.StreamDenoteData
  Proofs.StreamDenoteRecord Proofs.StreamDenoteLoop Proofs.StreamDenoteLift Proofs.StreamDenoteMain
  Proofs.StreamDenoteFrame Proofs.StreamDenoteFail Proofs.StreamDenoteFailDecode Proofs.StreamDenoteDecode
  Proofs.C10IO Proofs.C10Frame Proofs.C11Cut.
Import ListNotations.
Local Open Scope N_scope.

(* ================================================================ A. the header stage *)
Lemma hdr_a_wf h rest t : header_wf h ->
  hdr_a (hdr_bytes h ++ rest) t = (None, h, crc_write crc_new (hdr_bytes h), N.to_nat (h_size h)).
Proof.
  intros Hwf.
  set (rd := mk_reader (hdr_bytes h ++ rest) [] t false 0).
  assert (Hf : wf rd (S (List.length (hdr_bytes h ++ rest)))) by (unfold wf, rd; cbn; lia).
  destruct (decode_header_ok h _ rd rest Hwf eq_refl Hf) as (rd1 & E1 & D1 & T1 & W1 & P1 & M1).
  destruct (decode_header_spec _ rd Hf) as (rd2 & E2 & A2).
  rewrite E1 in E2. cbn [rd_data rd_term rd] in E2, A2.
  destruct (hdr_a (hdr_bytes h ++ rest) t) as [[[e h'] c] u] eqn:Eh. cbn [fst snd] in E2, A2.
  injection E2 as <- <- <- <-.
  destruct (hdr_a_used _ _ _ _ _ _ Eh) as (U1 & _).
  pose proof (adv_full _ _ _ A2 U1) as P2. rewrite P1 in P2. cbn [rd_pos rd] in P2.
  rewrite (hdr_bytes_length h Hwf) in P2. f_equal. lia.
Qed.

Lemma skipn_hdr h rest : header_wf h -> skipn (N.to_nat (h_size h)) (hdr_bytes h ++ rest) = rest.
Proof.
  intros Hwf. rewrite <- (hdr_bytes_length h Hwf), skipn_app, Nat.sub_diag, skipn_all. reflexivity.
Qed.

(* from decode_a to decode over any reader *)
Lemma decode_of_a o md g rd fuel a : wf rd fuel -> decode_a o md g (rd_data rd) (rd_term rd) = TDone a ->
  exists r, decode o md g rd fuel = TDone r /\ dr_err r = ar_err a /\ dr_hdr r = ar_hdr a /\ dr_file r = ar_file a /\
            dr_g r = ar_g a /\ dr_quirks r = ar_quirks a /\ (rd_pos (dr_rd r) <= rd_pos rd + ar_used a)%nat.
Proof.
  intros Hwf Ha. pose proof (decode_abs o md g rd fuel Hwf) as HA. rewrite Ha in HA.
  destruct (decode o md g rd fuel) as [r|w|]; try contradiction.
  destruct HA as (M1 & M2 & M3 & M4 & M5 & M6 & M7 & _). exists r. repeat split; assumption.
Qed.

(* ================================================================ B. an unfinished record leaves the File alone *)
Definition fg (f : file) (g : gstate) (s : dstate) : Prop := ds_file s = f /\ ds_g s = g.

Lemma pts_fg f g s u k n ov s' : fg f g s -> parse_time_stamp s u k n = (ov, s') -> fg f g s'.
Proof.
  intros [H1 H2]. unfold parse_time_stamp. destruct (u =? 0xFFFFFFFF); [intros E; inversion E; subst; now split|].
  destruct (k =? kind_timeutc).
  - destruct (n =? c_fieldNumTimeStamp); intros E; inversion E; subst; now split.
  - destruct (negb (ds_hasts s) || (ds_ts s <? c_systemTimeMarker)); intros E; inversion E; subst; now split.
Qed.

Ltac fg_solve :=
  match goal with
  | H : fg ?f ?g ?s, E : parse_time_stamp ?s _ _ _ = (_, ?s') |- fg ?f ?g ?s' => exact (pts_fg _ _ _ _ _ _ _ _ H E)
  | H : fg ?f ?g ?s |- fg ?f ?g _ =>
      destruct H as [? ?]; split; cbn [with_unkf with_unkm with_defs with_time ds_file ds_g]; assumption
  end.

Lemma okp_fg_pof f g o dm known fd msgv : okp (fg f g) (parse_one_field o dm known fd msgv).
Proof. unfold parse_one_field. okp_walk (idtac; fg_solve). Qed.

Lemma okp_fg_fields f g o dm known : forall fds msgv, okp (fg f g) (parse_fields o dm known fds msgv).
Proof.
  induction fds as [|fd r IH]; intros msgv; cbn [parse_fields]; [exact I|].
  apply okp_bind; [apply okp_fg_pof|intros m'; apply IH].
Qed.

Lemma okp_fg_data_fields f g o dm known msgv : okp (fg f g) (parse_data_fields o dm known msgv).
Proof.
  unfold parse_data_fields. apply okp_bind; [apply okp_fg_fields|intros m].
  apply okp_bind; [apply okp_skip_dev|intros _; exact I].
Qed.

Lemma okp_fg_data_message f g o b c : okp (fg f g) (parse_data_message o b c).
Proof.
  unfold parse_data_message.
  okp_walk (first [exact I | apply okp_fg_data_fields | fg_solve]).
Qed.

Lemma okp_fg_set_def f g dm : okp (fg f g) (set_def dm).
Proof. unfold set_def. okp_walk (idtac; fg_solve). Qed.

(* File.add is the last step of a record and neither reads nor fails *)
Lemma add_msg_post f g m x s : post2 anyst (fg f g) (run_a (add_msg m) x s).
Proof.
  unfold add_msg. rewrite run_bind. unfold get_st. cbn [run_a rbind].
  destruct (file_add (ds_file s) (ds_g s) m); cbn [put_st panic run_a post2]; exact I.
Qed.

Lemma tail_post f g (om : option msg) x s : fg f g s ->
  post2 anyst (fg f g) (run_a (match om with Some m => add_msg m | None => Ret tt end) x s).
Proof. intros H. destruct om; [apply add_msg_post|exact I]. Qed.

(* whatever one record does, if it ends in a failure the File and the accumulators are those it started with *)
Theorem record_err_file o x s : post2 anyst (fg (ds_file s) (ds_g s)) (run_a (parse_record o) x s).
Proof.
  set (f := ds_file s). set (g := ds_g s). assert (H0 : fg f g s) by (split; reflexivity).
  unfold parse_record.
  eapply post2_bind with (Pok := fg f g) (Perr := fg f g); [apply (okp_sound _ _ (okp_read_byte _) x s H0)| |auto].
  intros b x1 s1 H1.
  destruct (N.land b c_compressedHeaderMask =? c_compressedHeaderMask).
  { eapply post2_bind with (Pok := fg f g) (Perr := fg f g); [apply (okp_sound _ _ (okp_fg_data_message f g o b true) x1 s1 H1)| |auto].
    intros om x2 s2 H2. now apply tail_post. }
  destruct (N.land b c_mesgDefinitionMask =? c_mesgDefinitionMask).
  { eapply post2_bind with (Pok := fg f g) (Perr := fg f g); [apply (okp_sound _ _ (okp_parse_def _ b) x1 s1 H1)| |auto].
    intros dm x2 s2 H2. apply (post2_weaken (fg f g) (fg f g));
      [apply (okp_sound _ _ (okp_fg_set_def f g dm) x2 s2 H2)|intros; exact I|intros s' Hs'; exact Hs']. }
  destruct (N.land b c_mesgDefinitionMask =? c_mesgHeaderMask).
  { eapply post2_bind with (Pok := fg f g) (Perr := fg f g); [apply (okp_sound _ _ (okp_fg_data_message f g o b false) x1 s1 H1)| |auto].
    intros om x2 s2 H2. now apply tail_post. }
  exact H1.
Qed.

(* ================================================================ C. the loop on a truncated input *)
Lemma trunc_loop_file o pre fb gb ft s1 ss1 r ss2 cut rem t n lim fuel :
  Inv o pre fb gb ft s1 ss1 -> rec_wf r = true -> denote_record ss1 r = Some ss2 ->
  ser_record r = cut ++ rem -> rem <> [] -> (n < lim)%nat ->
  exists e x sf, run_a (decode_file_data o (S fuel)) (mk_ast cut t n lim) s1 = RIOErr e x sf /\
                 ds_file sf = ds_file s1 /\ ds_g sf = ds_g s1.
Proof.
  intros HI Hwf Hden Hser Hrem Hn.
  cbn [decode_file_data run_a a_n a_limit].
  replace (Nat.ltb n lim) with true by (symmetry; apply Nat.ltb_lt; exact Hn).
  rewrite run_bind.
  pose proof (trunc_not_ok o pre fb gb ft s1 ss1 r ss2 cut rem t n lim HI Hwf Hden Hser Hrem) as Hno.
  pose proof (run_a_no_fuel (parse_record o) (mk_ast cut t n lim) s1) as Hnf.
  pose proof (record_err_file o (mk_ast cut t n lim) s1) as Hfile.
  destruct (run_a (parse_record o) (mk_ast cut t n lim) s1) as [a x' s'|e x' s'|e x' s'|w|];
    cbn [rbind post2] in *; try contradiction; try (exfalso; now apply Hnf).
  destruct Hfile as [F1 F2]. exists e, x', s'. split; [reflexivity|split; assumption].
Qed.

(* a well-formed record list, then a truncated further record, the limit not reached: an I/O error, and the File in
   the failing state is the File of exactly the messages of the completed records *)
Theorem truncated_file : forall rs r cut rem o pre fb gb ft s0 ss0 ss1 ss2 t n lim fuel,
  Inv o pre fb gb ft s0 ss0 ->
  stream_wf rs = true -> denote_from ss0 rs = Some ss1 ->
  rec_wf r = true -> denote_record ss1 r = Some ss2 ->
  ser_record r = cut ++ rem -> rem <> [] ->
  (n + List.length (ser_records rs) < lim)%nat -> (List.length rs < fuel)%nat ->
  exists e x sf,
    run_a (decode_file_data o fuel) (mk_ast (ser_records rs ++ cut) t n lim) s0 = RIOErr e x sf /\
    exists ms, ss_msgs ss1 = pre ++ ms /\ adds fb gb ms = AddOk (ds_file sf) (ds_g sf).
Proof.
  intros rs r cut rem o pre fb gb ft s0 ss0 ss1 ss2 t n lim fuel HI Hwf Hden Hwfr Hdr Hser Hrem Hlim Hfuel.
  destruct (records_then rs o pre fb gb ft s0 ss0 ss1 cut t n lim HI Hwf Hden ltac:(lia)) as (s1 & HI1 & Heq).
  change (mk_ast (ser_records rs ++ cut) t n lim) with (ast_at (ser_records rs) cut t n lim).
  rewrite Heq. destruct (fuel - List.length rs)%nat as [|f] eqn:Ef; [lia|].
  destruct (trunc_loop_file o pre fb gb ft s1 ss1 r ss2 cut rem t (n + List.length (ser_records rs))%nat lim f
              HI1 Hwfr Hdr Hser Hrem Hlim) as (e & x & sf & Hrun & F1 & F2).
  exists e, x, sf. split; [exact Hrun|]. rewrite F1, F2. exact (inv_msgs _ _ _ _ _ _ _ HI1).
Qed.

(* ================================================================ D. data_prog on a truncated input *)

(* D1. the cut falls after the file_id records: I/O error, File = the routed messages of the completed records *)
Theorem data_prog_partial_file :
  forall o h g l be fds (devflag : bool) (devs : list (N * N * N)) pay dev rest r cut rem ss1 ss2 f2 g1 t lim,
  let rs := RDef l be c_MesgNumFileId fds devflag devs :: RData l pay dev :: rest in
  stream_wf rs = true -> denote rs = Some ss1 ->
  start_file h g (hd dummy_msg (ss_msgs ss1)) = Some (f2, g1) ->
  rec_wf r = true -> denote_record ss1 r = Some ss2 ->
  ser_record r = cut ++ rem -> rem <> [] ->
  (List.length (ser_records rs ++ cut) < lim)%nat ->
  exists e x sf f g',
    run_a (data_prog o false (S lim)) (mk_ast (ser_records rs ++ cut) t 0 lim) (init_dstate (new_file h) g) = RIOErr e x sf /\
    route_msgs h g (ss_msgs ss1) = Some (f, g') /\ ds_file sf = f /\ ds_g sf = g'.
Proof.
  intros o h g l be fds devflag devs pay dev rest r cut rem ss1 ss2 f2 g1 t lim rs
         Hwf Hden Hstart Hwfr Hdr Hser Hrem Hlim.
  set (r1 := RDef l be c_MesgNumFileId fds devflag devs) in *. set (r2 := RData l pay dev) in *.
  unfold rs in *. cbn [stream_wf forallb] in Hwf.
  apply andb_prop in Hwf. destruct Hwf as [Hwf1 Hwf]. apply andb_prop in Hwf. destruct Hwf as [Hwf2 Hwf].
  fold (stream_wf rest) in Hwf.
  unfold denote in Hden.
  change (r1 :: r2 :: rest) with ([r1; r2] ++ rest) in Hden.
  rewrite denote_from_app in Hden. destruct (denote_from ss_init [r1; r2]) as [ssb|] eqn:Eb; [|discriminate].
  destruct (denote_from_msgs _ _ _ Hden) as [ms Hms].
  assert (Hhd : hd dummy_msg (ss_msgs ss1) = hd dummy_msg (ss_msgs ssb)).
  { rewrite Hms. cbn [denote_from] in Eb.
    destruct (denote_record ss_init r1) as [ssa|] eqn:E1; [|discriminate].
    destruct (denote_record ssa r2) as [ssb'|] eqn:E2; [|discriminate]. inversion Eb; subst ssb'.
    destruct (ss_msgs ssb) as [|x0 xs] eqn:Em; [|reflexivity]. exfalso.
    unfold r1 in E1. cbn [denote_record] in E1. destruct (_ || _) in E1; [discriminate|]. inversion E1; subst ssa.
    unfold r2 in E2. cbn [denote_record] in E2. unfold denote_data in E2. cbn [ss_env] in E2.
    rewrite lookup_def_cons, N.eqb_refl in E2. destruct (_ || _) in E2; [discriminate|].
    cbn [sd_gmn] in E2. rewrite known_fileid in E2.
    destruct (mesg_all_invalid c_MesgNumFileId); [|discriminate].
    destruct (denote_fields _ _ _ _ _ _ _) as [[m2 ref2] unl]. inversion E2; subst ssb. cbn [ss_msgs ss_init app] in Em. discriminate. }
  rewrite Hhd in Hstart.
  change (ser_records ([r1; r2] ++ rest)) with (ser_record r1 ++ ser_record r2 ++ ser_records rest) in *.
  change (ser_records (r1 :: r2 :: rest)) with (ser_record r1 ++ ser_record r2 ++ ser_records rest) in *.
  rewrite !app_length in Hlim.
  set (n := (List.length (ser_record r1) + List.length (ser_record r2))%nat).
  unfold data_prog.
  assert (Hassoc : forall fuel x s,
            run_a (bind (parse_file_id_msg o) (fun _ => bind do_init (fun _ => decode_file_data o fuel))) x s =
            rbind (run_a (bind (parse_file_id_msg o) (fun _ => do_init)) x s)
                  (fun _ x' s' => run_a (decode_file_data o fuel) x' s')).
  { intros fuel x s. rewrite !run_bind. destruct (run_a (parse_file_id_msg o) x s); cbn [rbind]; try reflexivity. now rewrite run_bind. }
  rewrite Hassoc.
  replace (mk_ast ((ser_record r1 ++ ser_record r2 ++ ser_records rest) ++ cut) t 0 lim)
    with (ast_at (ser_record r1 ++ ser_record r2) (ser_records rest ++ cut) t 0 lim)
    by (unfold ast_at; now rewrite <- !app_assoc).
  destruct (prologue_ok o h g l be fds devflag devs pay dev ssb f2 g1 (ser_records rest ++ cut) t lim
              Hwf1 Hwf2 Eb Hstart ltac:(fold r1 r2; lia))
    as (sb & ft & Hrun & HIb).
  fold r1 r2 in Hrun. fold n in Hrun.
  rewrite Hrun. cbn [rbind]. rewrite ast_at_nil.
  assert (Hfuel : (List.length rest < S lim)%nat) by (pose proof (records_le_bytes rest); lia).
  destruct (truncated_file rest r cut rem o _ f2 g1 ft sb ssb ss1 ss2 t n lim (S lim)
              HIb Hwf Hden Hwfr Hdr Hser Hrem ltac:(unfold n; lia) Hfuel) as (e & x & sf & Hr & ms' & Hms' & Hadds).
  exists e, x, sf, (ds_file sf), (ds_g sf). split; [exact Hr|]. split; [|split; reflexivity].
  unfold route_msgs. rewrite Hms'. cbn [app]. rewrite Hstart, Hadds. reflexivity.
Qed.

(* D2. the cut falls inside the file_id definition or the file_id data record *)
Lemma nm_file_id o : okp anyst (parse_file_id_msg o).
Proof.
  unfold parse_file_id_msg.
  okp_walk (first [exact I | apply nm_data_message | apply okp_parse_def | apply nm_add_msg]).
  all: unfold set_def; okp_walk (idtac; triv_solve).
Qed.

Lemma pfid_err_file o x s : post2 anyst (fg (ds_file s) (ds_g s)) (run_a (parse_file_id_msg o) x s).
Proof.
  set (f := ds_file s). set (g := ds_g s). assert (H0 : fg f g s) by (split; reflexivity).
  unfold parse_file_id_msg.
  eapply post2_bind with (Pok := fg f g) (Perr := fg f g); [apply (okp_sound _ _ (okp_read_byte _) x s H0)| |auto].
  intros b x1 s1 H1. destruct (negb (N.land b c_mesgDefinitionMask =? c_mesgDefinitionMask)); [exact H1|].
  eapply post2_bind with (Pok := fg f g) (Perr := fg f g); [apply (okp_sound _ _ (okp_parse_def _ b) x1 s1 H1)| |auto].
  intros dm x2 s2 H2. destruct (negb (dm_gmn dm =? c_MesgNumFileId)); [exact H2|].
  eapply post2_bind with (Pok := fg f g) (Perr := fg f g); [apply (okp_sound _ _ (okp_fg_set_def f g dm) x2 s2 H2)| |auto].
  intros _ x3 s3 H3.
  eapply post2_bind with (Pok := fg f g) (Perr := fg f g); [apply (okp_sound _ _ (okp_read_byte _) x3 s3 H3)| |auto].
  intros b2 x4 s4 H4. destruct (negb (N.land b2 c_mesgHeaderMask =? c_mesgHeaderMask)); [exact H4|].
  eapply post2_bind with (Pok := fg f g) (Perr := fg f g); [apply (okp_sound _ _ (okp_fg_data_message f g o b2 false) x4 s4 H4)| |auto].
  intros om x5 s5 H5. destruct om as [m|]; [|exact I].
  destruct (m_num m =? c_MesgNumFileId); [apply add_msg_post|exact H5].
Qed.

(* the file_id prologue alone on the two file_id records: success, exactly their bytes consumed; File.init then
   succeeds on the File it leaves, giving the File the reference semantics starts from *)
Lemma pfid_full o h g l be fds (devflag : bool) (devs : list (N * N * N)) pay dev ssb f2 g1 tl t lim :
  let r1 := RDef l be c_MesgNumFileId fds devflag devs in
  let r2 := RData l pay dev in
  rec_wf r1 = true -> rec_wf r2 = true ->
  denote_from ss_init [r1; r2] = Some ssb ->
  start_file h g (hd dummy_msg (ss_msgs ssb)) = Some (f2, g1) ->
  (List.length (ser_record r1) + List.length (ser_record r2) <= lim)%nat ->
  exists s1 f ft,
    run_a (parse_file_id_msg o) (mk_ast ((ser_record r1 ++ ser_record r2) ++ tl) t 0 lim) (init_dstate (new_file h) g) =
      ROk tt (mk_ast tl t (List.length (ser_record r1) + List.length (ser_record r2)) lim) s1 /\
    file_init (ds_file s1) = Some f /\
    Inv o [hd dummy_msg (ss_msgs ssb)] f2 g1 ft (with_file s1 f (ds_g s1)) ssb.
Proof.
  intros r1 r2 Hwf1 Hwf2 Hden Hstart Hlim.
  destruct (prologue_ok o h g l be fds devflag devs pay dev ssb f2 g1 tl t lim Hwf1 Hwf2 Hden Hstart Hlim) as (sb & ft & Hrun & HI).
  fold r1 r2 in Hrun. rewrite run_bind in Hrun. unfold ast_at in Hrun. cbn [app] in Hrun.
  destruct (run_a (parse_file_id_msg o) (mk_ast ((ser_record r1 ++ ser_record r2) ++ tl) t 0 lim) (init_dstate (new_file h) g))
    as [a x1 s1|e x1 s1|e x1 s1|w|]; cbn [rbind] in Hrun; try discriminate.
  unfold do_init in Hrun. rewrite run_bind in Hrun. unfold get_st in Hrun. cbn [run_a rbind] in Hrun.
  destruct (file_init (ds_file s1)) as [f|] eqn:Ei; cbn [put_st fail run_a] in Hrun; [|discriminate].
  injection Hrun as -> <-. destruct a. exists s1, f, ft. split; [reflexivity|]. split; [exact Ei|exact HI].
Qed.

Lemma prologue_trunc o h g l be fds (devflag : bool) (devs : list (N * N * N)) pay dev ssb f2 g1 cutp more t lim :
  let r1 := RDef l be c_MesgNumFileId fds devflag devs in
  let r2 := RData l pay dev in
  rec_wf r1 = true -> rec_wf r2 = true ->
  denote_from ss_init [r1; r2] = Some ssb ->
  start_file h g (hd dummy_msg (ss_msgs ssb)) = Some (f2, g1) ->
  ser_record r1 ++ ser_record r2 = cutp ++ more -> more <> [] ->
  (List.length (ser_record r1) + List.length (ser_record r2) <= lim)%nat ->
  exists e x sf, run_a (parse_file_id_msg o) (mk_ast cutp t 0 lim) (init_dstate (new_file h) g) = RIOErr e x sf /\
                 ds_file sf = new_file h /\ ds_g sf = g.
Proof.
  intros r1 r2 Hwf1 Hwf2 Hden Hstart Hsplit Hmore Hlim.
  destruct (pfid_full o h g l be fds devflag devs pay dev ssb f2 g1 [] t lim Hwf1 Hwf2 Hden Hstart Hlim) as (s1 & f & ft & Hfull & _).
  fold r1 r2 in Hfull. rewrite app_nil_r, Hsplit in Hfull.
  pose proof (run_ext (parse_file_id_msg o) (nm_file_id o) (mk_ast cutp t 0 lim) (init_dstate (new_file h) g) more lim (le_n _)) as He.
  unfold ext_x in He. cbn [a_rest a_term a_n] in He. rewrite Hfull in He.
  pose proof (run_a_no_fuel (parse_file_id_msg o) (mk_ast cutp t 0 lim) (init_dstate (new_file h) g)) as Hnf.
  pose proof (pfid_err_file o (mk_ast cutp t 0 lim) (init_dstate (new_file h) g)) as Hfile.
  destruct (run_a (parse_file_id_msg o) (mk_ast cutp t 0 lim) (init_dstate (new_file h) g)) as [a x' s'|e x' s'|e x' s'|w|];
    try discriminate; try (exfalso; now apply Hnf).
  - exfalso. injection He as _ Hr _ _. symmetry in Hr. apply app_eq_nil in Hr. destruct Hr as [_ Hr]. contradiction.
  - cbn [post2] in Hfile. destruct Hfile as [F1 F2]. exists e, x', s'. split; [reflexivity|]. split; assumption.
Qed.

(* ================================================================ E. the entry points over any reader *)
Lemma crc_a_short c t crc f : (List.length c < 2)%nat -> crc_a c t crc f = (Some EFileCRCRead, f, List.length c).
Proof. intros H. unfold crc_a, rf_err. destruct (Nat.leb_spec 2 (List.length c)); [lia|reflexivity]. Qed.

Lemma finalize_slots o s : f_slots (finalize_unknown o s) = f_slots (ds_file s) /\
  f_inited (finalize_unknown o s) = f_inited (ds_file s) /\ f_header (finalize_unknown o s) = f_header (ds_file s) /\
  f_crc (finalize_unknown o s) = f_crc (ds_file s).
Proof. unfold finalize_unknown. cbn [f_slots f_inited f_header f_crc]. repeat split. Qed.

(* E1. partial_files, the main region: the input ends (cleanly, or by a read fault: rd_term is arbitrary) inside
   record r, after the records rs, which begin with the file_id definition and data record.  Decode returns an I/O
   error together with a File holding exactly the routed messages of rs. *)
Theorem Decode_partial_file :
  forall o g rd fuel h l be fds (devflag : bool) (devs : list (N * N * N)) pay dev rest r cut rem ss1 ss2 f2 g1,
  let rs := RDef l be c_MesgNumFileId fds devflag devs :: RData l pay dev :: rest in
  header_wf h ->
  rd_data rd = hdr_bytes h ++ ser_records rs ++ cut ->
  (List.length (ser_records rs ++ cut) < N.to_nat (h_dsize h))%nat ->
  stream_wf rs = true -> denote rs = Some ss1 ->
  start_file h g (hd dummy_msg (ss_msgs ss1)) = Some (f2, g1) ->
  rec_wf r = true -> denote_record ss1 r = Some ss2 ->
  ser_record r = cut ++ rem -> rem <> [] ->
  wf rd fuel ->
  exists res e file' f g',
    entry_Decode o g rd fuel = TDone res /\ dr_err res = Some (EIO e) /\ dr_hdr res = h /\ dr_file res = Some file' /\
    dr_g res = g' /\
    route_msgs h g (ss_msgs ss1) = Some (f, g') /\
    f_slots file' = f_slots f /\ f_inited file' = f_inited f /\ f_header file' = h.
Proof.
  intros o g rd fuel h l be fds devflag devs pay dev rest r cut rem ss1 ss2 f2 g1 rs
         Hwfh Hd Hlim Hwf Hden Hstart Hwfr Hdr Hser Hrem Hf.
  destruct (data_prog_partial_file o h g l be fds devflag devs pay dev rest r cut rem ss1 ss2 f2 g1 (rd_term rd)
              (N.to_nat (h_dsize h)) Hwf Hden Hstart Hwfr Hdr Hser Hrem Hlim) as (e & x & sf & f & g' & Hrun & Hroute & Hfile & Hg).
  fold rs in Hrun.
  assert (Ha : exists u, decode_a o MFull g (rd_data rd) (rd_term rd) =
               TDone (mk_ares (Some (EIO e)) h (Some (finalize_unknown o sf)) u (ds_g sf) (ds_quirks sf) true)).
  { rewrite Hd. unfold decode_a. rewrite (hdr_a_wf h _ _ Hwfh), (skipn_hdr h _ Hwfh). cbv beta iota zeta.
    rewrite Hrun. eexists. reflexivity. }
  destruct Ha as [u Ha]. unfold entry_Decode.
  destruct (decode_of_a o MFull g rd fuel _ Hf Ha) as (res & Hres & E1 & E2 & E3 & E4 & _). cbn in E1, E2, E3, E4.
  destruct (finalize_slots o sf) as (S1 & S2 & S3 & _).
  exists res, e, (finalize_unknown o sf), f, g'. repeat split; try assumption; try congruence.
  rewrite S3, Hfile. exact (route_msgs_header _ _ _ _ _ Hroute).
Qed.

(* E2. the input ends inside the file_id definition or the file_id data record: an I/O error, and a File without any
   message (the File as created from the header: FileId is the zero value, no container) *)
Theorem Decode_cut_in_file_id :
  forall o md g rd fuel h l be fds (devflag : bool) (devs : list (N * N * N)) pay dev ssb f2 g1 cutp more,
  let r1 := RDef l be c_MesgNumFileId fds devflag devs in
  let r2 := RData l pay dev in
  md = MFull \/ md = MFileIdOnly ->
  header_wf h ->
  rd_data rd = hdr_bytes h ++ cutp ->
  ser_record r1 ++ ser_record r2 = cutp ++ more -> more <> [] ->
  (List.length (ser_record r1) + List.length (ser_record r2) <= N.to_nat (h_dsize h))%nat ->
  rec_wf r1 = true -> rec_wf r2 = true -> denote_from ss_init [r1; r2] = Some ssb ->
  start_file h g (hd dummy_msg (ss_msgs ssb)) = Some (f2, g1) ->
  wf rd fuel ->
  exists res e file',
    decode o md g rd fuel = TDone res /\ dr_err res = Some (EIO e) /\ dr_hdr res = h /\ dr_file res = Some file' /\
    dr_g res = g /\ f_slots file' = f_slots (new_file h) /\ f_inited file' = None /\ f_header file' = h.
Proof.
  intros o md g rd fuel h l be fds devflag devs pay dev ssb f2 g1 cutp more r1 r2
         Hmd Hwfh Hd Hsplit Hmore Hlim Hwf1 Hwf2 Hden Hstart Hf.
  destruct (prologue_trunc o h g l be fds devflag devs pay dev ssb f2 g1 cutp more (rd_term rd) (N.to_nat (h_dsize h))
              Hwf1 Hwf2 Hden Hstart Hsplit Hmore Hlim) as (e & x & sf & Hrun & Hfile & Hg).
  assert (Ha : exists u, decode_a o md g (rd_data rd) (rd_term rd) =
               TDone (mk_ares (Some (EIO e)) h (Some (finalize_unknown o sf)) u (ds_g sf) (ds_quirks sf) true)).
  { rewrite Hd. unfold decode_a. rewrite (hdr_a_wf h _ _ Hwfh), (skipn_hdr h _ Hwfh).
    destruct Hmd as [-> | ->]; cbv beta iota zeta; unfold data_prog; rewrite run_bind, Hrun; cbn [rbind]; eexists; reflexivity. }
  destruct Ha as [u Ha].
  destruct (decode_of_a o md g rd fuel _ Hf Ha) as (res & Hres & E1 & E2 & E3 & E4 & _). cbn in E1, E2, E3, E4.
  destruct (finalize_slots o sf) as (S1 & S2 & S3 & _).
  rewrite Hfile in S1, S2, S3. cbn [new_file f_inited f_header] in S2, S3.
  exists res, e, (finalize_unknown o sf).
  split; [exact Hres|]. split; [exact E1|]. split; [exact E2|]. split; [exact E3|]. split; [congruence|].
  split; [exact S1|]. split; [exact S2|exact S3].
Qed.

(* E3. the input ends inside the two checksum bytes: all records were decoded; the error is the checksum read error
   and the File holds the routed messages of the whole stream *)
Theorem Decode_cut_in_crc : forall o g rd fuel h rs ss1 f2 g1 c,
  header_wf h -> h_dsize h = N.of_nat (List.length (ser_records rs)) ->
  starts_with_file_id rs = true -> stream_wf rs = true -> denote rs = Some ss1 ->
  start_file h g (hd dummy_msg (ss_msgs ss1)) = Some (f2, g1) ->
  rd_data rd = hdr_bytes h ++ ser_records rs ++ c -> (List.length c < 2)%nat ->
  wf rd fuel ->
  exists res file' f g',
    entry_Decode o g rd fuel = TDone res /\ dr_err res = Some EFileCRCRead /\ dr_hdr res = h /\ dr_file res = Some file' /\
    dr_g res = g' /\
    route_msgs h g (ss_msgs ss1) = Some (f, g') /\
    f_slots file' = f_slots f /\ f_inited file' = f_inited f /\ f_header file' = h.
Proof.
  intros o g rd fuel h rs ss1 f2 g1 c Hwfh Hsz Hs Hwf Hden Hstart Hd Hc Hf.
  destruct (decode_denote_abstract o h g rs ss1 f2 g1 c (rd_term rd) Hs Hwf Hden Hstart)
    as (s1 & f & g' & Hrun & Hroute & Hfile & Hg & _).
  assert (HL : N.to_nat (h_dsize h) = List.length (ser_records rs)) by (rewrite Hsz; apply Nat2N.id).
  assert (Ha : exists u, decode_a o MFull g (rd_data rd) (rd_term rd) =
               TDone (mk_ares (Some EFileCRCRead) h (Some (finalize_unknown o (with_file s1 (ds_file s1) (ds_g s1)))) u
                              (ds_g s1) (ds_quirks s1) true)).
  { rewrite Hd. unfold decode_a. rewrite (hdr_a_wf h _ _ Hwfh), (skipn_hdr h _ Hwfh). cbv beta iota zeta.
    rewrite HL, Hrun. cbn [a_n a_limit a_rest]. rewrite Nat.eqb_refl. cbn [negb].
    rewrite (crc_a_short c _ _ _ Hc). cbn [fst snd]. eexists. reflexivity. }
  destruct Ha as [u Ha]. unfold entry_Decode.
  destruct (decode_of_a o MFull g rd fuel _ Hf Ha) as (res & Hres & E1 & E2 & E3 & E4 & _). cbn in E1, E2, E3, E4.
  destruct (finalize_slots o (with_file s1 (ds_file s1) (ds_g s1))) as (S1 & S2 & S3 & _). cbn [with_file ds_file] in S1, S2, S3.
  exists res, (finalize_unknown o (with_file s1 (ds_file s1) (ds_g s1))), f, g'.
  repeat split; try assumption; try congruence.
  rewrite S3, Hfile. exact (route_msgs_header _ _ _ _ _ Hroute).
Qed.

(* E4. the input ends inside the header: an error and no File at all *)
Theorem decode_cut_in_header : forall o md g rd fuel h body k,
  header_wf h -> (k < N.to_nat (h_size h))%nat -> rd_data rd = firstn k (hdr_bytes h ++ body) -> wf rd fuel ->
  exists res e, decode o md g rd fuel = TDone res /\ dr_err res = Some e /\ dr_file res = None /\ dr_g res = g /\
                (e = EReadSizeEOF -> k = 0%nat /\ rd_term rd = TEOF).
Proof.
  intros o md g rd fuel h body k Hwfh Hk Hd Hf.
  destruct (hdr_a_cut _ TEOF _ _ _ (hdr_a_wf h body TEOF Hwfh) k (rd_term rd) Hk) as (e & h' & crc' & u' & E' & Heof).
  assert (Ha : decode_a o md g (rd_data rd) (rd_term rd) = TDone (mk_ares (Some e) h' None u' g [] true)).
  { rewrite Hd. unfold decode_a. rewrite E'. reflexivity. }
  destruct (decode_of_a o md g rd fuel _ Hf Ha) as (res & Hres & E1 & E2 & E3 & E4 & _). cbn in E1, E2, E3, E4.
  exists res, e. repeat split; try assumption. - apply Heof; assumption. - apply Heof; assumption.
Qed.

(* ================================================================ F. DecodeHeaderAndFileID: the threshold *)
(* if the file_id-only decode succeeds on bs there is a number of bytes it needs -- the header and what the file_id
   prologue consumed -- such that every shorter prefix is an error and every input agreeing on that many bytes
   succeeds with the same header, File and accumulator state *)
Theorem fileid_threshold o g bs t a : decode_a o MFileIdOnly g bs t = TDone a -> ar_err a = None ->
  exists need, (need <= List.length bs)%nat /\
    (forall k t', (k < need)%nat ->
       exists a' e, decode_a o MFileIdOnly g (firstn k bs) t' = TDone a' /\ ar_err a' = Some e) /\
    (forall data' t', firstn need data' = firstn need bs -> (need <= List.length data')%nat ->
       exists a', decode_a o MFileIdOnly g data' t' = TDone a' /\ ar_err a' = None /\ ar_hdr a' = ar_hdr a /\
                  ar_file a' = ar_file a /\ ar_g a' = ar_g a).
Proof.
  unfold decode_a. destruct (hdr_a bs t) as [[[e h] crc] used] eqn:Eh.
  destruct (hdr_a_used _ _ _ _ _ _ Eh) as (U1 & U2 & U3).
  destruct e as [e|]; [intros H; inversion H; subst; discriminate|].
  set (limit := N.to_nat (h_dsize h)). set (rest := skipn used bs).
  pose proof (run_a_prefix (data_prog o true (S limit)) rest t 0 limit (init_dstate (new_file h) g)) as HP.
  pose proof (run_a_ext_ok (data_prog o true (S limit)) rest t 0 limit (init_dstate (new_file h) g)) as HX.
  destruct (run_a (data_prog o true (S limit)) (mk_ast rest t 0 limit) (init_dstate (new_file h) g)) as [y x s|e' x s|e' x s|w|] eqn:Efull;
    try discriminate; try (intros H; inversion H; subst; discriminate).
  cbv iota. intros H _. inversion H; subst a; clear H. fields.
  destruct HP as (P1 & P2 & P3 & P4 & P5 & P6). rewrite Nat.sub_0_r in *.
  assert (Hrest : List.length rest = (List.length bs - used)%nat) by (unfold rest; apply skipn_length).
  exists (used + a_n x)%nat. split; [lia|]. split.
  - intros k t' Hk. destruct (Nat.lt_ge_cases k used) as [Hlt|Hge].
    + destruct (hdr_a_cut _ _ _ _ _ Eh k t' Hlt) as (e1 & h1 & c1 & u1 & E1 & _). rewrite E1.
      eexists. exists e1. split; reflexivity.
    + assert (Hh : hdr_a (firstn k bs) t' = (None, h, crc, used)).
      { apply (hdr_a_ext bs t); [exact Eh| |rewrite firstn_length; lia]. rewrite firstn_firstn, Nat.min_l by lia. reflexivity. }
      rewrite Hh, skipn_firstn_comm. fold limit. fold rest.
      pose proof (run_a_cut (data_prog o true (S limit)) rest t 0 limit (init_dstate (new_file h) g) (k - used) t') as HC.
      pose proof (run_a_prefix (data_prog o true (S limit)) (firstn (k - used) rest) t' 0 limit (init_dstate (new_file h) g)) as HP'.
      rewrite Efull in HC.
      destruct (run_a (data_prog o true (S limit)) (mk_ast (firstn (k - used) rest) t' 0 limit) (init_dstate (new_file h) g))
        as [y' x' s'|e' x' s'|e' x' s'|w'|].
      * exfalso. destruct HC as (x0 & HC & Hn). inversion HC; subst. destruct HP' as (_ & Q2 & _).
        rewrite Nat.sub_0_r, firstn_length in Q2. lia.
      * destruct HC as (x0 & HC & _). discriminate.
      * eexists. exists (EIO e'). split; reflexivity.
      * discriminate.
      * contradiction.
  - intros data' t' Hf Hl.
    assert (Hh : hdr_a data' t' = (None, h, crc, used)).
    { apply (hdr_a_ext bs t); [exact Eh| |lia]. apply (firstn_eq_le _ _ (used + a_n x)); [exact Hf|lia]. }
    rewrite Hh. fold limit.
    destruct (firstn_eq_split bs data' used (a_n x)) as [F1 F2]; [exact Hf|lia|lia|].
    rewrite (HX y x s eq_refl (skipn used data') t'); rewrite ?Nat.sub_0_r; [|exact F2|rewrite skipn_length; lia].
    cbv iota. eexists. split; [reflexivity|]. fields. repeat split.
Qed.

(* ================================================================ G. file_id agreement (C10) *)
Lemma slot0_is_file_id :
  forallb (fun ft => match nth_error (slots_of ft) 0 with
                     | Some (_, false, held) => held =? c_MesgNumFileId
                     | _ => false
                     end) valid_file_types = true.
Proof. vm_compute. reflexivity. Qed.

Definition no_file_id (ms : list msg) : bool := forallb (fun m => negb (m_num m =? c_MesgNumFileId)) ms.

(* adding messages other than file_id to an initialised File leaves the FileId slot alone *)
Lemma adds_slot0 ft : In ft valid_file_types -> forall ms f0 g0 f g,
  f_inited f0 = Some ft -> adds f0 g0 ms = AddOk f g -> no_file_id ms = true ->
  nth 0 (f_slots f) [] = nth 0 (f_slots f0) [].
Proof.
  intros Hft. pose proof slot0_is_file_id as H0. rewrite forallb_forall in H0. specialize (H0 ft Hft).
  induction ms as [|m r IH]; intros f0 g0 f g Hi Ha Hn; cbn [adds] in Ha; [inversion Ha; reflexivity|].
  cbn [no_file_id forallb] in Hn. apply andb_prop in Hn. destruct Hn as [Hm Hn]. apply negb_true_iff, N.eqb_neq in Hm.
  rewrite (file_add_inited ft f0 g0 m Hft Hi) in Ha.
  destruct (find_slot ft (m_num m)) as [[i multi]|] eqn:Es.
  - destruct (stored ft g0 m) as [[m' g1]|]; [|discriminate].
    rewrite (IH _ _ _ _ (Hi : f_inited (with_slots f0 _) = Some ft) Ha Hn). cbn [with_slots f_slots].
    apply nth_set_nth_neq. intros ->.
    apply (proj1 (find_slot_iff ft (m_num m) 0 multi Hft)) in Es. destruct Es as [name Hs]. rewrite Hs in H0.
    destruct multi; [discriminate|]. apply N.eqb_eq in H0. congruence.
  - rewrite (IH _ _ _ _ (Hi : f_inited (with_slots f0 _) = Some ft) Ha Hn). reflexivity.
Qed.

Lemma file_init_slot0 f f' : file_init f = Some f' -> nth 0 (f_slots f') [] = nth 0 (f_slots f) [].
Proof.
  unfold file_init. destruct (ft_entry (file_type f)) as [[[[|] cn] sl]|]; try discriminate.
  intros H; inversion H; subst f'. cbn [f_slots]. destruct (f_slots f) as [|a l].
  - cbn [firstn app]. unfold NCOMMON. cbn [firstn app]. destruct (List.length sl - 5)%nat; reflexivity.
  - unfold NCOMMON. cbn [firstn app nth]. reflexivity.
Qed.

(* the first two records of a stream the reference semantics accepts *)
Lemma split_prologue l be fds (devflag : bool) (devs : list (N * N * N)) pay dev rest ss1 :
  let r1 := RDef l be c_MesgNumFileId fds devflag devs in
  let r2 := RData l pay dev in
  denote (r1 :: r2 :: rest) = Some ss1 ->
  exists ssb ms, denote_from ss_init [r1; r2] = Some ssb /\ denote_from ssb rest = Some ss1 /\
                 ss_msgs ss1 = ss_msgs ssb ++ ms /\ hd dummy_msg (ss_msgs ss1) = hd dummy_msg (ss_msgs ssb).
Proof.
  intros r1 r2 Hden. unfold denote in Hden.
  change (r1 :: r2 :: rest) with ([r1; r2] ++ rest) in Hden.
  rewrite denote_from_app in Hden. destruct (denote_from ss_init [r1; r2]) as [ssb|] eqn:Eb; [|discriminate].
  destruct (denote_from_msgs _ _ _ Hden) as [ms Hms]. exists ssb, ms. split; [reflexivity|]. split; [exact Hden|]. split; [exact Hms|].
  rewrite Hms. cbn [denote_from] in Eb.
  destruct (denote_record ss_init r1) as [ssa|] eqn:E1; [|discriminate].
  destruct (denote_record ssa r2) as [ssb'|] eqn:E2; [|discriminate]. inversion Eb; subst ssb'.
  destruct (ss_msgs ssb) as [|x0 xs] eqn:Em; [|reflexivity]. exfalso.
  unfold r1 in E1. cbn [denote_record] in E1. destruct (_ || _) in E1; [discriminate|]. inversion E1; subst ssa.
  unfold r2 in E2. cbn [denote_record] in E2. unfold denote_data in E2. cbn [ss_env] in E2.
  rewrite lookup_def_cons, N.eqb_refl in E2. destruct (_ || _) in E2; [discriminate|].
  cbn [sd_gmn] in E2. rewrite known_fileid in E2.
  destruct (mesg_all_invalid c_MesgNumFileId); [|discriminate].
  destruct (denote_fields _ _ _ _ _ _ _) as [[m2 ref2] unl]. inversion E2; subst ssb. cbn [ss_msgs ss_init app] in Em. discriminate.
Qed.

(* DecodeHeaderAndFileID on a complete file of the domain of Decode_denote (followed by anything): success, the
   header of the file, and a File whose FileId slot is the FileId slot of the File the reference semantics starts
   from (File.add of the file_id message, then File.init) *)
Lemma fileid_only_ok o h g rs ss1 f2 g1 tl t :
  header_wf h -> h_dsize h = N.of_nat (List.length (ser_records rs)) ->
  starts_with_file_id rs = true -> stream_wf rs = true -> denote rs = Some ss1 ->
  start_file h g (hd dummy_msg (ss_msgs ss1)) = Some (f2, g1) ->
  no_file_id (List.tl (ss_msgs ss1)) = true ->
  exists a fF, decode_a o MFileIdOnly g (hdr_bytes h ++ ser_records rs ++ tl) t = TDone a /\ ar_err a = None /\
               ar_hdr a = h /\ ar_file a = Some fF /\ nth 0 (f_slots fF) [] = nth 0 (f_slots f2) [] /\
               f_header fF = h.
Proof.
  intros Hwfh Hsz Hshape Hwf Hden Hstart Hno.
  destruct rs as [|[l be gmn fds devflag devs| |] [|[| l' pay dev |] rest]]; try discriminate.
  cbn [starts_with_file_id] in Hshape. apply andb_prop in Hshape. destruct Hshape as [Eg El].
  apply N.eqb_eq in Eg, El. subst gmn l'.
  set (r1 := RDef l be c_MesgNumFileId fds devflag devs) in *. set (r2 := RData l pay dev) in *.
  destruct (split_prologue l be fds devflag devs pay dev rest ss1 Hden) as (ssb & ms & Eb & Hrest & Hms & Hhd).
  fold r1 r2 in Eb. rewrite Hhd in Hstart.
  cbn [stream_wf forallb] in Hwf. apply andb_prop in Hwf. destruct Hwf as [Hwf1 Hwf]. apply andb_prop in Hwf. destruct Hwf as [Hwf2 Hwf].
  assert (HL : N.to_nat (h_dsize h) = List.length (ser_records (r1 :: r2 :: rest))) by (rewrite Hsz; apply Nat2N.id).
  change (ser_records (r1 :: r2 :: rest)) with (ser_record r1 ++ ser_record r2 ++ ser_records rest) in *.
  rewrite !app_length in HL.
  destruct (pfid_full o h g l be fds devflag devs pay dev ssb f2 g1 (ser_records rest ++ tl) t (N.to_nat (h_dsize h))
              Hwf1 Hwf2 Eb Hstart ltac:(fold r1 r2; lia)) as (s1 & f & ft & Hrun & Hinit & HI).
  fold r1 r2 in Hrun.
  destruct (inv_msgs _ _ _ _ _ _ _ HI) as (ms0 & Hms0 & Hadds). cbn [with_file ds_file ds_g] in Hadds.
  (* the FileId slot *)
  assert (Hslot : nth 0 (f_slots (ds_file s1)) [] = nth 0 (f_slots f2) []).
  { rewrite <- (file_init_slot0 _ _ Hinit).
    unfold start_file in Hstart. destruct (file_add (new_file h) g (hd dummy_msg (ss_msgs ssb))) as [fa ga|]; [|discriminate].
    destruct (file_init fa) as [fb|] eqn:Ei; [|discriminate]. injection Hstart as <- <-.
    destruct (file_init_valid _ _ Ei) as [Hft Hin].
    apply (adds_slot0 _ Hft ms0 fb ga f (ds_g s1) Hin Hadds).
    rewrite Hms, Hms0 in Hno. cbn [app List.tl] in Hno. unfold no_file_id in Hno |- *. rewrite forallb_app in Hno.
    apply andb_prop in Hno. exact (proj1 Hno). }
  assert (Hhdr : f_header (ds_file s1) = h).
  { pose proof (pfid_err_file o (mk_ast ((ser_record r1 ++ ser_record r2) ++ ser_records rest ++ tl) t 0 (N.to_nat (h_dsize h))) (init_dstate (new_file h) g)) as _.
    (* the header of the File is fixed by File.init's result, which route_msgs_header characterises *)
    assert (Hr : route_msgs h g (hd dummy_msg (ss_msgs ssb) :: ms0) = Some (f, ds_g s1)).
    { unfold route_msgs. rewrite Hstart, Hadds. reflexivity. }
    pose proof (route_msgs_header _ _ _ _ _ Hr) as Hf.
    unfold file_init in Hinit. destruct (ft_entry (file_type (ds_file s1))) as [[[[|] ?] ?]|]; try discriminate.
    inversion Hinit; subst f. exact Hf. }
  exists (mk_ares None h (Some (finalize_unknown o s1))
            (N.to_nat (h_size h) + Nat.min (N.to_nat (h_dsize h)) (List.length ((ser_record r1 ++ ser_record r2 ++ ser_records rest) ++ tl)))
            (ds_g s1) (ds_quirks s1) false), (finalize_unknown o s1).
  destruct (finalize_slots o s1) as (S1 & _ & S3 & _).
  split.
  { unfold decode_a. rewrite (hdr_a_wf h _ _ Hwfh), (skipn_hdr h _ Hwfh). cbv beta iota zeta.
    unfold data_prog. rewrite run_bind.
    replace ((ser_record r1 ++ ser_record r2 ++ ser_records rest) ++ tl) with ((ser_record r1 ++ ser_record r2) ++ ser_records rest ++ tl)
      by (now rewrite <- !app_assoc).
    rewrite Hrun. cbn [rbind run_a]. reflexivity. }
  fields. repeat split; try reflexivity.
  - rewrite S1. exact Hslot.
  - rewrite S3. exact Hhdr.
Qed.

(* fileid_agree: on a file of the domain of Decode_denote whose only file_id message is the leading one, read through
   any two readers, DecodeHeaderAndFileID and Decode report the same header and the same FileId message *)
Theorem fileid_agree : forall o g rdD fuelD rdF fuelF h rs ss1 f2 g1 extraD extraF,
  header_wf h -> h_dsize h = N.of_nat (List.length (ser_records rs)) ->
  starts_with_file_id rs = true -> stream_wf rs = true -> denote rs = Some ss1 ->
  start_file h g (hd dummy_msg (ss_msgs ss1)) = Some (f2, g1) ->
  no_file_id (List.tl (ss_msgs ss1)) = true ->
  rd_data rdD = fit_file h rs ++ extraD -> wf rdD fuelD ->
  rd_data rdF = fit_file h rs ++ extraF -> wf rdF fuelF ->
  exists rD rF fD fF,
    entry_Decode o g rdD fuelD = TDone rD /\ entry_DecodeHeaderAndFileID g rdF fuelF = TDone rF /\
    dr_err rD = None /\ dr_err rF = None /\ dr_hdr rD = h /\ dr_hdr rF = h /\
    dr_file rD = Some fD /\ dr_file rF = Some fF /\
    nth 0 (f_slots fF) [] = nth 0 (f_slots fD) [] /\ f_header fF = f_header fD.
Proof.
  intros o g rdD fuelD rdF fuelF h rs ss1 f2 g1 extraD extraF Hwfh Hsz Hs Hwf Hden Hstart Hno HdD HfD HdF HfF.
  destruct (Decode_denote o g rdD fuelD h rs ss1 f2 g1 extraD Hwfh Hsz Hs Hwf Hden Hstart HdD HfD)
    as (rd' & file' & f & g' & q & HD & Hroute & Hslots & _ & Hhdr & _).
  destruct (fileid_only_ok no_opts h g rs ss1 f2 g1 (put_le16 (file_crc h (ser_records rs)) ++ extraF) (rd_term rdF)
              Hwfh Hsz Hs Hwf Hden Hstart Hno) as (a & fF & Ha & A1 & A2 & A3 & A4 & A5).
  assert (HdF' : rd_data rdF = hdr_bytes h ++ ser_records rs ++ put_le16 (file_crc h (ser_records rs)) ++ extraF).
  { rewrite HdF. unfold fit_file, frame_bytes. now rewrite <- !app_assoc. }
  rewrite <- HdF' in Ha.
  destruct (decode_of_a no_opts MFileIdOnly g rdF fuelF a HfF Ha) as (rF & HF & E1 & E2 & E3 & _).
  exists (mk_dres None h (Some file') rd' g' q), rF, file', fF.
  split; [exact HD|]. split; [exact HF|]. cbn [dr_err dr_hdr dr_file].
  split; [reflexivity|]. split; [congruence|]. split; [reflexivity|]. split; [congruence|].
  split; [reflexivity|]. split; [congruence|]. split; [|congruence].
  rewrite A4, Hslots.
  (* the FileId slot of the routed File *)
  unfold route_msgs in Hroute. destruct (ss_msgs ss1) as [|m0 ms] eqn:Em; [discriminate|]. cbn [hd List.tl] in *.
  rewrite Hstart in Hroute. destruct (adds f2 g1 ms) as [fx gx|] eqn:Ea; [|discriminate]. injection Hroute as <- <-.
  unfold start_file in Hstart. destruct (file_add (new_file h) g m0) as [fa ga|]; [|discriminate].
  destruct (file_init fa) as [fb|] eqn:Ei; [|discriminate]. injection Hstart as <- <-.
  destruct (file_init_valid _ _ Ei) as [Hft Hin].
  symmetry. exact (adds_slot0 _ Hft ms fb ga fx gx Hin Ea Hno).
Qed.

(* ================================================================ the whole-entry statements for DecodeHeaderAndFileID *)
Theorem DecodeHeaderAndFileID_threshold : forall g bs r,
  entry_DecodeHeaderAndFileID g (solo bs) (solo_fuel bs) = TDone r -> dr_err r = None ->
  exists need, (need <= List.length bs)%nat /\
    (forall k rd fuel, (k < need)%nat -> rd_data rd = firstn k bs -> wf rd fuel ->
       exists r' e, entry_DecodeHeaderAndFileID g rd fuel = TDone r' /\ dr_err r' = Some e) /\
    (forall rd fuel, firstn need (rd_data rd) = firstn need bs -> (need <= List.length (rd_data rd))%nat -> wf rd fuel ->
       exists r', entry_DecodeHeaderAndFileID g rd fuel = TDone r' /\ dr_err r' = None /\ dr_hdr r' = dr_hdr r /\
                  dr_file r' = dr_file r /\ dr_g r' = dr_g r).
Proof.
  unfold entry_DecodeHeaderAndFileID. intros g bs r Hd He.
  pose proof (decode_abs no_opts MFileIdOnly g (solo bs) (solo_fuel bs) (solo_wf bs)) as HA. rewrite Hd in HA.
  unfold solo in HA at 2 3. cbn [rd_data rd_term] in HA.
  destruct (decode_a no_opts MFileIdOnly g bs TEOF) as [a|w|] eqn:Ea; try contradiction.
  destruct HA as (M1 & M2 & M3 & M4 & _). rewrite M1 in He.
  destruct (fileid_threshold no_opts g bs TEOF a Ea He) as (need & Hn & Hlow & Hup).
  exists need. split; [exact Hn|]. split.
  - intros k rd fuel Hk Hdata Hwf. destruct (Hlow k (rd_term rd) Hk) as (a' & e & Ea' & Ee).
    rewrite <- Hdata in Ea'. destruct (decode_of_a _ _ _ _ _ _ Hwf Ea') as (r' & Hr' & E1 & _).
    exists r', e. split; [exact Hr'|congruence].
  - intros rd fuel Hf Hl Hwf. destruct (Hup (rd_data rd) (rd_term rd) Hf Hl) as (a' & Ea' & A1 & A2 & A3 & A4).
    destruct (decode_of_a _ _ _ _ _ _ Hwf Ea') as (r' & Hr' & E1 & E2 & E3 & E4 & _).
    exists r'. split; [exact Hr'|]. repeat split; congruence.
Qed.

(* for a file of the domain of Decode_denote the threshold is the header, the file_id definition and the file_id data
   record: every shorter input (cut or read fault) is an error *)
Theorem DecodeHeaderAndFileID_cut_is_error :
  forall g rd fuel h l be fds (devflag : bool) (devs : list (N * N * N)) pay dev ssb f2 g1 tl k,
  let r1 := RDef l be c_MesgNumFileId fds devflag devs in
  let r2 := RData l pay dev in
  header_wf h ->
  (List.length (ser_record r1) + List.length (ser_record r2) <= N.to_nat (h_dsize h))%nat ->
  rec_wf r1 = true -> rec_wf r2 = true -> denote_from ss_init [r1; r2] = Some ssb ->
  start_file h g (hd dummy_msg (ss_msgs ssb)) = Some (f2, g1) ->
  (k < N.to_nat (h_size h) + List.length (ser_record r1) + List.length (ser_record r2))%nat ->
  rd_data rd = firstn k (hdr_bytes h ++ (ser_record r1 ++ ser_record r2) ++ tl) -> wf rd fuel ->
  exists res e, entry_DecodeHeaderAndFileID g rd fuel = TDone res /\ dr_err res = Some e.
Proof.
  intros g rd fuel h l be fds devflag devs pay dev ssb f2 g1 tl k r1 r2 Hwfh Hlim Hwf1 Hwf2 Hden Hstart Hk Hd Hf.
  unfold entry_DecodeHeaderAndFileID.
  destruct (Nat.lt_ge_cases k (N.to_nat (h_size h))) as [Hlt|Hge].
  - destruct (decode_cut_in_header no_opts MFileIdOnly g rd fuel h _ k Hwfh Hlt Hd Hf) as (res & e & H1 & H2 & _).
    exists res, e. split; assumption.
  - pose proof (hdr_bytes_length h Hwfh) as Hlen.
    rewrite firstn_app, Hlen, firstn_all2 in Hd by lia.
    rewrite firstn_app in Hd. replace (k - N.to_nat (h_size h) - List.length (ser_record r1 ++ ser_record r2))%nat with 0%nat in Hd
      by (rewrite app_length; lia).
    cbn [firstn] in Hd. rewrite app_nil_r in Hd.
    destruct (Decode_cut_in_file_id no_opts MFileIdOnly g rd fuel h l be fds devflag devs pay dev ssb f2 g1
                (firstn (k - N.to_nat (h_size h)) (ser_record r1 ++ ser_record r2))
                (skipn (k - N.to_nat (h_size h)) (ser_record r1 ++ ser_record r2))
                (or_intror eq_refl) Hwfh Hd) as (res & e & file' & H1 & H2 & _); try assumption.
    + fold r1 r2. symmetry. apply firstn_skipn.
    + intros E. apply (f_equal (@List.length N)) in E. rewrite skipn_length, app_length in E. cbn [List.length] in E. lia.
    + exists res, (EIO e). split; assumption.
Qed.

(* ================================================================ a second file_id record: the refutation witness *)
(* a 12-byte header, the file_id definition (one field: type), a file_id data record of type 4 (activity) and a
   second file_id data record of type 2 (settings) *)
Definition two_fid_body : list N :=
  [12; 16; 100; 0; 13; 0; 0; 0; 46; 70; 73; 84; 0x40; 0; 0; 0; 0; 1; 0; 1; 0; 0; 4; 0; 2].
Definition two_fid_file : list N := two_fid_body ++ put_le16 (checksum two_fid_body).

Definition slot0_of (x : tout dres) : option (list msg) :=
  match x with
  | TDone r => match dr_err r, dr_file r with None, Some f => Some (nth 0 (f_slots f) []) | _, _ => None end
  | _ => None
  end.

(* both calls succeed; DecodeHeaderAndFileID reports the first file_id message, Decode the last one *)
Lemma two_file_ids_disagree :
  exists m1 m2, slot0_of (entry_DecodeHeaderAndFileID g_init (solo two_fid_file) (solo_fuel two_fid_file)) = Some [m1] /\
                slot0_of (entry_Decode no_opts g_init (solo two_fid_file) (solo_fuel two_fid_file)) = Some [m2] /\
                m1 <> m2.
Proof.
  eexists. eexists. split; [vm_compute; reflexivity|]. split; [vm_compute; reflexivity|]. discriminate.
Qed.

(* ================================================================ DecodeChained: the complete Files and the partial one *)
Lemma decode_a_partial_file :
  forall o g t h l be fds (devflag : bool) (devs : list (N * N * N)) pay dev rest r cut rem ss1 ss2 f2 g1,
  let rs := RDef l be c_MesgNumFileId fds devflag devs :: RData l pay dev :: rest in
  header_wf h ->
  (List.length (ser_records rs ++ cut) < N.to_nat (h_dsize h))%nat ->
  stream_wf rs = true -> denote rs = Some ss1 ->
  start_file h g (hd dummy_msg (ss_msgs ss1)) = Some (f2, g1) ->
  rec_wf r = true -> denote_record ss1 r = Some ss2 ->
  ser_record r = cut ++ rem -> rem <> [] ->
  exists e sf u f g',
    decode_a o MFull g (hdr_bytes h ++ ser_records rs ++ cut) t =
      TDone (mk_ares (Some (EIO e)) h (Some (finalize_unknown o sf)) u (ds_g sf) (ds_quirks sf) true) /\
    route_msgs h g (ss_msgs ss1) = Some (f, g') /\ ds_file sf = f /\ ds_g sf = g'.
Proof.
  intros o g t h l be fds devflag devs pay dev rest r cut rem ss1 ss2 f2 g1 rs Hwfh Hlim Hwf Hden Hstart Hwfr Hdr Hser Hrem.
  destruct (data_prog_partial_file o h g l be fds devflag devs pay dev rest r cut rem ss1 ss2 f2 g1 t
              (N.to_nat (h_dsize h)) Hwf Hden Hstart Hwfr Hdr Hser Hrem Hlim) as (e & x & sf & f & g' & Hrun & Hroute & Hfile & Hg).
  fold rs in Hrun. exists e, sf. eexists. exists f, g'. split; [|split; [exact Hroute|split; assumption]].
  unfold decode_a. rewrite (hdr_a_wf h _ _ Hwfh), (skipn_hdr h _ Hwfh). cbv beta iota zeta. rewrite Hrun. reflexivity.
Qed.

Theorem DecodeChained_partial_files :
  forall o g pre fs1 g1 q1 rd fuel h l be fds (devflag : bool) (devs : list (N * N * N)) pay dev rest r cut rem ss1 ss2 f2 g2,
  let rs := RDef l be c_MesgNumFileId fds devflag devs :: RData l pay dev :: rest in
  chain_ok o g pre fs1 g1 q1 ->
  header_wf h ->
  rd_data rd = concat pre ++ hdr_bytes h ++ ser_records rs ++ cut ->
  (List.length (ser_records rs ++ cut) < N.to_nat (h_dsize h))%nat ->
  stream_wf rs = true -> denote rs = Some ss1 ->
  start_file h g1 (hd dummy_msg (ss_msgs ss1)) = Some (f2, g2) ->
  rec_wf r = true -> denote_record ss1 r = Some ss2 ->
  ser_record r = cut ++ rem -> rem <> [] ->
  wf rd fuel ->
  exists cr e file' f g',
    entry_DecodeChained o g rd fuel = TDone cr /\ cr_err cr = Some (EIO e) /\ cr_files cr = fs1 ++ [file'] /\
    route_msgs h g1 (ss_msgs ss1) = Some (f, g') /\
    f_slots file' = f_slots f /\ f_inited file' = f_inited f /\ f_header file' = h.
Proof.
  intros o g pre fs1 g1 q1 rd fuel h l be fds devflag devs pay dev rest r cut rem ss1 ss2 f2 g2 rs
         Hc Hwfh Hd Hlim Hwf Hden Hstart Hwfr Hdr Hser Hrem Hf.
  destruct (decode_a_partial_file o g1 (rd_term rd) h l be fds devflag devs pay dev rest r cut rem ss1 ss2 f2 g2
              Hwfh Hlim Hwf Hden Hstart Hwfr Hdr Hser Hrem) as (e & sf & u & f & g' & Ha & Hroute & Hfile & Hg).
  fold rs in Ha.
  unfold entry_DecodeChained.
  pose proof (decode_chained_abs o fuel (S (List.length (rd_data rd))) g rd 0 [] [] 0 Hf) as HA.
  destruct (chain_ok_lengths _ _ _ _ _ _ Hc) as [HL HF].
  rewrite Hd in HA at 2.
  rewrite (chain_then o g pre fs1 g1 q1 Hc) in HA by (rewrite Hd, app_length; lia).
  replace (S (List.length (rd_data rd)) - List.length pre)%nat with (S (List.length (rd_data rd) - List.length pre))
    in HA by (rewrite Hd, app_length; lia).
  cbn [chained_a app] in HA. rewrite Ha in HA. cbv beta iota zeta in HA. fields. cbn [ar_err ar_file ar_used ar_g ar_quirks ar_exact] in HA.
  destruct (decode_chained o g rd fuel 0 (S (List.length (rd_data rd))) [] []) as [cr|w|]; try contradiction.
  destruct HA as (C1 & C2 & _). cbn [ca_err ca_files] in C1, C2.
  destruct (finalize_slots o sf) as (S1 & S2 & S3 & _).
  exists cr, e, (finalize_unknown o sf), f, g'.
  split; [reflexivity|]. split; [exact C1|]. split; [exact C2|]. split; [exact Hroute|].
  split; [congruence|]. split; [congruence|]. rewrite S3, Hfile. exact (route_msgs_header _ _ _ _ _ Hroute).
Qed.

(* ================================================================ every byte offset of the data section *)
(* the records that lie completely within the first n bytes of the data section *)
Fixpoint completed (n : nat) (rs : list record) : list record :=
  match rs with
  | [] => []
  | r :: rest =>
      if Nat.leb (List.length (ser_record r)) n then r :: completed (n - List.length (ser_record r)) rest else []
  end.

Lemma completed_spec : forall rs n, (n < List.length (ser_records rs))%nat ->
  exists r later cut rem, rs = completed n rs ++ r :: later /\
    firstn n (ser_records rs) = ser_records (completed n rs) ++ cut /\ ser_record r = cut ++ rem /\ rem <> [].
Proof.
  induction rs as [|r0 rest IH]; intros n Hn; [cbn in Hn; lia|].
  change (ser_records (r0 :: rest)) with (ser_record r0 ++ ser_records rest) in *. rewrite app_length in Hn.
  cbn [completed]. destruct (Nat.leb_spec (List.length (ser_record r0)) n) as [L|L].
  - destruct (IH (n - List.length (ser_record r0))%nat ltac:(lia)) as (r & later & cut & rem & E1 & E2 & E3 & E4).
    exists r, later, cut, rem. split; [cbn [app]; now rewrite <- E1|]. split; [|split; assumption].
    change (ser_records (r0 :: completed (n - List.length (ser_record r0)) rest))
      with (ser_record r0 ++ ser_records (completed (n - List.length (ser_record r0)) rest)).
    rewrite firstn_app, firstn_all2 by lia. rewrite E2. now rewrite app_assoc.
  - exists r0, rest, (firstn n (ser_record r0)), (skipn n (ser_record r0)). cbn [app ser_records flat_map].
    split; [reflexivity|]. split; [|split].
    + rewrite firstn_app. replace (n - List.length (ser_record r0))%nat with 0%nat by lia. cbn [firstn]. now rewrite app_nil_r.
    + symmetry. apply firstn_skipn.
    + intros E. apply (f_equal (@List.length N)) in E. rewrite skipn_length in E. cbn in E. lia.
Qed.

Lemma stream_wf_app a b : stream_wf (a ++ b) = true -> stream_wf a = true /\ stream_wf b = true.
Proof. unfold stream_wf. rewrite forallb_app. intros H. apply andb_prop in H. exact H. Qed.

(* partial_files for EVERY byte offset n of the data section of a file of the domain of Decode_denote: the reader
   holds the header and the first n data bytes and then ends (clean EOF or read fault, any chunking).  Decode returns
   an I/O error and a File that
   - holds no message at all while fewer than the two file_id records are complete,
   - and otherwise holds exactly the routed messages of [completed n rs], the records complete before the offset. *)
Theorem Decode_partial_files_at : forall o g rd fuel h rs ss f2 g1 n,
  header_wf h -> h_dsize h = N.of_nat (List.length (ser_records rs)) ->
  starts_with_file_id rs = true -> stream_wf rs = true -> denote rs = Some ss ->
  start_file h g (hd dummy_msg (ss_msgs ss)) = Some (f2, g1) ->
  (n < List.length (ser_records rs))%nat ->
  rd_data rd = hdr_bytes h ++ firstn n (ser_records rs) -> wf rd fuel ->
  exists res e file',
    entry_Decode o g rd fuel = TDone res /\ dr_err res = Some (EIO e) /\ dr_hdr res = h /\ dr_file res = Some file' /\
    f_header file' = h /\
    ((List.length (completed n rs) < 2)%nat -> f_slots file' = f_slots (new_file h) /\ f_inited file' = None /\ dr_g res = g) /\
    ((2 <= List.length (completed n rs))%nat ->
     exists ssd f g', denote (completed n rs) = Some ssd /\ route_msgs h g (ss_msgs ssd) = Some (f, g') /\
                      f_slots file' = f_slots f /\ f_inited file' = f_inited f /\ dr_g res = g').
Proof.
  intros o g rd fuel h rs ss f2 g1 n Hwfh Hsz Hshape Hwf Hden Hstart Hn Hd Hf.
  assert (HL : N.to_nat (h_dsize h) = List.length (ser_records rs)) by (rewrite Hsz; apply Nat2N.id).
  destruct (completed_spec rs n Hn) as (r & later & cut & rem & Ers & Efirst & Eser & Hrem).
  destruct rs as [|[l be gmn fds devflag devs| |] [|[| l' pay dev |] rest]]; try discriminate.
  cbn [starts_with_file_id] in Hshape. apply andb_prop in Hshape. destruct Hshape as [Eg El].
  apply N.eqb_eq in Eg, El. subst gmn l'.
  set (r1 := RDef l be c_MesgNumFileId fds devflag devs) in *. set (r2 := RData l pay dev) in *.
  destruct (split_prologue l be fds devflag devs pay dev rest ss Hden) as (ssb & ms & Eb & Hrest & Hms & Hhd).
  fold r1 r2 in Eb.
  pose proof Hwf as Hwf'. cbn [stream_wf forallb] in Hwf'. apply andb_prop in Hwf'. destruct Hwf' as [Hwf1 Hwf'].
  apply andb_prop in Hwf'. destruct Hwf' as [Hwf2 _].
  change (ser_records (r1 :: r2 :: rest)) with (ser_record r1 ++ ser_record r2 ++ ser_records rest) in *.
  destruct (Nat.lt_ge_cases n (List.length (ser_record r1) + List.length (ser_record r2))) as [Hin|Hout].
  - (* inside the file_id records *)
    assert (Hfew : (List.length (completed n (r1 :: r2 :: rest)) < 2)%nat).
    { cbn [completed]. destruct (Nat.leb_spec (List.length (ser_record r1)) n); [|cbn; lia].
      destruct (Nat.leb_spec (List.length (ser_record r2)) (n - List.length (ser_record r1))); [lia|cbn; lia]. }
    rewrite app_assoc, firstn_app in Hd.
    replace (n - List.length (ser_record r1 ++ ser_record r2))%nat with 0%nat in Hd by (rewrite app_length; lia).
    cbn [firstn] in Hd. rewrite app_nil_r in Hd.
    rewrite Hhd in Hstart. rewrite !app_length in HL.
    destruct (Decode_cut_in_file_id o MFull g rd fuel h l be fds devflag devs pay dev ssb f2 g1
                (firstn n (ser_record r1 ++ ser_record r2)) (skipn n (ser_record r1 ++ ser_record r2))
                (or_introl eq_refl) Hwfh Hd) as (res & e & file' & H1 & H2 & H3 & H4 & H5 & H6 & H7 & H8); try assumption.
    + fold r1 r2. symmetry. apply firstn_skipn.
    + intros E. apply (f_equal (@List.length N)) in E. rewrite skipn_length, app_length in E. cbn [List.length] in E. lia.
    + fold r1 r2. lia.
    + exists res, e, file'. unfold entry_Decode.
      split; [exact H1|]. split; [exact H2|]. split; [exact H3|]. split; [exact H4|]. split; [exact H8|].
      split; [intros _; split; [exact H6|split; [exact H7|exact H5]]|intros; lia].
  - (* after them *)
    assert (Hcomp : exists rest', completed n (r1 :: r2 :: rest) = r1 :: r2 :: rest').
    { cbn [completed]. destruct (Nat.leb_spec (List.length (ser_record r1)) n); [|lia].
      destruct (Nat.leb_spec (List.length (ser_record r2)) (n - List.length (ser_record r1))); [|lia]. eexists; reflexivity. }
    destruct Hcomp as [rest' Hcomp]. rewrite Hcomp in *.
    (* the completed prefix is a stream of its own *)
    change (r1 :: r2 :: rest) with ([r1; r2] ++ rest) in Ers. change (r1 :: r2 :: rest') with ([r1; r2] ++ rest') in Ers.
    rewrite <- app_assoc in Ers. apply app_inv_head in Ers. subst rest.
    destruct (stream_wf_app (r1 :: r2 :: rest') (r :: later) Hwf) as [Hwfd Hwfl].
    cbn [stream_wf forallb] in Hwfl. apply andb_prop in Hwfl. destruct Hwfl as [Hwfr _].
    rewrite denote_from_app in Hrest. destruct (denote_from ssb rest') as [ssd|] eqn:Ed; [|discriminate].
    cbn [denote_from] in Hrest. destruct (denote_record ssd r) as [ss2|] eqn:Er; [|discriminate].
    assert (Hdend : denote (r1 :: r2 :: rest') = Some ssd).
    { unfold denote. change (r1 :: r2 :: rest') with ([r1; r2] ++ rest'). rewrite denote_from_app, Eb. exact Ed. }
    destruct (split_prologue l be fds devflag devs pay dev rest' ssd Hdend) as (ssb' & ms' & Eb' & _ & _ & Hhd').
    fold r1 r2 in Eb'. rewrite Eb in Eb'. injection Eb' as <-.
    rewrite Hhd, <- Hhd' in Hstart.
    rewrite Efirst in Hd.
    destruct (Decode_partial_file o g rd fuel h l be fds devflag devs pay dev rest' r cut rem ssd ss2 f2 g1 Hwfh Hd)
      as (res & e & file' & f & g' & H1 & H2 & H3 & H4 & H5 & H6 & H7 & H8 & H9); try assumption.
    + fold r1 r2. rewrite <- Efirst, firstn_length, HL. lia.
    + exists res, e, file'.
      split; [exact H1|]. split; [exact H2|]. split; [exact H3|]. split; [exact H4|]. split; [exact H9|].
      split; [cbn [List.length]; intros; lia|].
      intros _. exists ssd, f, g'. split; [exact Hdend|]. split; [exact H6|]. split; [exact H7|]. split; [exact H8|exact H5].
Qed.
