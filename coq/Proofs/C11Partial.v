(* C11 partial_files, the whole-entry cut statement for DecodeHeaderAndFileID, and (for C10) file_id agreement:
   the stream-level theory (StreamDenote*.v: decode = denote with the invariant Inv, truncated_outcome) composed with
   the framing theory (C10Frame.v decode_abs / decode_a, C11Cut.v).

   A. the header stage on a well-formed header;  B. a record that does not complete leaves the File alone;
   C. the record loop on a truncated input;      D. data_prog on a truncated input (three regions);
   E. the entry points over any reader;          F. DecodeHeaderAndFileID: threshold;  G. file_id agreement. *)
From Coq Require Import NArith ZArith List Bool Lia Arith.
From FitV Require Import Proofs.Util Model.Values Model.Bytes Model.Base Model.Profile Model.Reflect Model.Crc Model.IO
  Model.Header Model.Route Model.Components Model.Decode Spec.FitSyntax Spec.RouteSpec Proofs.RouteProofs
  Proofs.DecodeLemmas Gen.Consts Proofs.IOSim
  Proofs.StreamDenoteBase Proofs.StreamDenoteDefs Proofs.StreamDenoteDef Proofs.StreamDenoteData
  Proofs.StreamDenoteRecord Proofs.StreamDenoteLoop Proofs.StreamDenoteLift Proofs.StreamDenoteMain
  Proofs.StreamDenoteFrame Proofs.StreamDenoteFail Proofs.StreamDenoteFailDecode Proofs.StreamDenoteDecode
  Proofs.C10IO Proofs.C10Frame Proofs.C11Cut.
Import ListNotations.
Local Open Scope N_scope.

(* ================================================================ A. the header stage *)
Lemma hdr_a_wf h rest t : header_wf h ->
  hdr_a (hdr_bytes h ++ rest) t = (None, h, crc_write crc_new (hdr_bytes h), N.to_nat (h_size h)).
Proof.
  intros Hwf.
  set (rd := mk_reader (hdr_bytes h ++ rest) [] t false 0).
  assert (Hf : wf rd (S (List.length (hdr_bytes h ++ rest)))) by (unfold wf, rd; cbn; lia).
  destruct (decode_header_ok h _ rd rest Hwf eq_refl Hf) as (rd1 & E1 & D1 & T1 & W1 & P1 & M1).
  destruct (decode_header_spec _ rd Hf) as (rd2 & E2 & A2).
  rewrite E1 in E2. cbn [rd_data rd_term rd] in E2, A2.
  destruct (hdr_a (hdr_bytes h ++ rest) t) as [[[e h'] c] u] eqn:Eh. cbn [fst snd] in E2, A2.
  injection E2 as <- <- <- <-.
  destruct (hdr_a_used _ _ _ _ _ _ Eh) as (U1 & _).
  pose proof (adv_full _ _ _ A2 U1) as P2. rewrite P1 in P2. cbn [rd_pos rd] in P2.
  rewrite (hdr_bytes_length h Hwf) in P2. f_equal. lia.
Qed.

Lemma skipn_hdr h rest : header_wf h -> skipn (N.to_nat (h_size h)) (hdr_bytes h ++ rest) = rest.
Proof.
  intros Hwf. rewrite <- (hdr_bytes_length h Hwf), skipn_app, Nat.sub_diag, skipn_all. reflexivity.
Qed.

(* from decode_a to decode over any reader *)
Lemma decode_of_a o md g rd fuel a : wf rd fuel -> decode_a o md g (rd_data rd) (rd_term rd) = TDone a ->
  exists r, decode o md g rd fuel = TDone r /\ dr_err r = ar_err a /\ dr_hdr r = ar_hdr a /\ dr_file r = ar_file a /\
            dr_g r = ar_g a /\ dr_quirks r = ar_quirks a /\ (rd_pos (dr_rd r) <= rd_pos rd + ar_used a)%nat.
Proof.
  intros Hwf Ha. pose proof (decode_abs o md g rd fuel Hwf) as HA. rewrite Ha in HA.
  destruct (decode o md g rd fuel) as [r|w|]; try contradiction.
  destruct HA as (M1 & M2 & M3 & M4 & M5 & M6 & M7 & _). exists r. repeat split; assumption.
Qed.

(* ================================================================ B. an unfinished record leaves the File alone *)
Definition fg (f : file) (g : gstate) (s : dstate) : Prop := ds_file s = f /\ ds_g s = g.

Lemma pts_fg f g s u k n ov s' : fg f g s -> parse_time_stamp s u k n = (ov, s') -> fg f g s'.
Proof.
  intros [H1 H2]. unfold parse_time_stamp. destruct (u =? 0xFFFFFFFF); [intros E; inversion E; subst; now split|].
  destruct (k =? kind_timeutc).
  - destruct (n =? c_fieldNumTimeStamp); intros E; inversion E; subst; now split.
  - destruct (negb (ds_hasts s) || (ds_ts s <? c_systemTimeMarker)); intros E; inversion E; subst; now split.
Qed.

Ltac fg_solve :=
  match goal with
  | H : fg ?f ?g ?s, E : parse_time_stamp ?s _ _ _ = (_, ?s') |- fg ?f ?g ?s' => exact (pts_fg _ _ _ _ _ _ _ _ H E)
  | H : fg ?f ?g ?s |- fg ?f ?g _ =>
      destruct H as [? ?]; split; cbn [with_unkf with_unkm with_defs with_time ds_file ds_g]; assumption
  end.

Lemma okp_fg_pof f g o dm known fd msgv : okp (fg f g) (parse_one_field o dm known fd msgv).
Proof. unfold parse_one_field. okp_walk (idtac; fg_solve). Qed.

Lemma okp_fg_fields f g o dm known : forall fds msgv, okp (fg f g) (parse_fields o dm known fds msgv).
Proof.
  induction fds as [|fd r IH]; intros msgv; cbn [parse_fields]; [exact I|].
  apply okp_bind; [apply okp_fg_pof|intros m'; apply IH].
Qed.

Lemma okp_fg_data_fields f g o dm known msgv : okp (fg f g) (parse_data_fields o dm known msgv).
Proof.
  unfold parse_data_fields. apply okp_bind; [apply okp_fg_fields|intros m].
  apply okp_bind; [apply okp_skip_dev|intros _; exact I].
Qed.

Lemma okp_fg_data_message f g o b c : okp (fg f g) (parse_data_message o b c).
Proof.
  unfold parse_data_message.
  okp_walk (first [exact I | apply okp_fg_data_fields | fg_solve]).
Qed.

Lemma okp_fg_set_def f g dm : okp (fg f g) (set_def dm).
Proof. unfold set_def. okp_walk (idtac; fg_solve). Qed.

(* File.add is the last step of a record and neither reads nor fails *)
Lemma add_msg_post f g m x s : post2 anyst (fg f g) (run_a (add_msg m) x s).
Proof.
  unfold add_msg. rewrite run_bind. unfold get_st. cbn [run_a rbind].
  destruct (file_add (ds_file s) (ds_g s) m); cbn [put_st panic run_a post2]; exact I.
Qed.

Lemma tail_post f g (om : option msg) x s : fg f g s ->
  post2 anyst (fg f g) (run_a (match om with Some m => add_msg m | None => Ret tt end) x s).
Proof. intros H. destruct om; [apply add_msg_post|exact I]. Qed.

(* whatever one record does, if it ends in a failure the File and the accumulators are those it started with *)
Theorem record_err_file o x s : post2 anyst (fg (ds_file s) (ds_g s)) (run_a (parse_record o) x s).
Proof.
  set (f := ds_file s). set (g := ds_g s). assert (H0 : fg f g s) by (split; reflexivity).
  unfold parse_record.
  eapply post2_bind with (Pok := fg f g) (Perr := fg f g); [apply (okp_sound _ _ (okp_read_byte _) x s H0)| |auto].
  intros b x1 s1 H1.
  destruct (N.land b c_compressedHeaderMask =? c_compressedHeaderMask).
  { eapply post2_bind with (Pok := fg f g) (Perr := fg f g); [apply (okp_sound _ _ (okp_fg_data_message f g o b true) x1 s1 H1)| |auto].
    intros om x2 s2 H2. now apply tail_post. }
  destruct (N.land b c_mesgDefinitionMask =? c_mesgDefinitionMask).
  { eapply post2_bind with (Pok := fg f g) (Perr := fg f g); [apply (okp_sound _ _ (okp_parse_def _ b) x1 s1 H1)| |auto].
    intros dm x2 s2 H2. apply (post2_weaken (fg f g) (fg f g));
      [apply (okp_sound _ _ (okp_fg_set_def f g dm) x2 s2 H2)|intros; exact I|intros s' Hs'; exact Hs']. }
  destruct (N.land b c_mesgDefinitionMask =? c_mesgHeaderMask).
  { eapply post2_bind with (Pok := fg f g) (Perr := fg f g); [apply (okp_sound _ _ (okp_fg_data_message f g o b false) x1 s1 H1)| |auto].
    intros om x2 s2 H2. now apply tail_post. }
  exact H1.
Qed.

(* ================================================================ C. the loop on a truncated input *)
Lemma trunc_loop_file o pre fb gb ft s1 ss1 r ss2 cut rem t n lim fuel :
  Inv o pre fb gb ft s1 ss1 -> rec_wf r = true -> denote_record ss1 r = Some ss2 ->
  ser_record r = cut ++ rem -> rem <> [] -> (n < lim)%nat ->
  exists e x sf, run_a (decode_file_data o (S fuel)) (mk_ast cut t n lim) s1 = RIOErr e x sf /\
                 ds_file sf = ds_file s1 /\ ds_g sf = ds_g s1.
Proof.
  intros HI Hwf Hden Hser Hrem Hn.
  cbn [decode_file_data run_a a_n a_limit].
  replace (Nat.ltb n lim) with true by (symmetry; apply Nat.ltb_lt; exact Hn).
  rewrite run_bind.
  pose proof (trunc_not_ok o pre fb gb ft s1 ss1 r ss2 cut rem t n lim HI Hwf Hden Hser Hrem) as Hno.
  pose proof (run_a_no_fuel (parse_record o) (mk_ast cut t n lim) s1) as Hnf.
  pose proof (record_err_file o (mk_ast cut t n lim) s1) as Hfile.
  destruct (run_a (parse_record o) (mk_ast cut t n lim) s1) as [a x' s'|e x' s'|e x' s'|w|];
    cbn [rbind post2] in *; try contradiction; try (exfalso; now apply Hnf).
  destruct Hfile as [F1 F2]. exists e, x', s'. split; [reflexivity|split; assumption].
Qed.

(* a well-formed record list, then a truncated further record, the limit not reached: an I/O error, and the File in
   the failing state is the File of exactly the messages of the completed records *)
Theorem truncated_file : forall rs r cut rem o pre fb gb ft s0 ss0 ss1 ss2 t n lim fuel,
  Inv o pre fb gb ft s0 ss0 ->
  stream_wf rs = true -> denote_from ss0 rs = Some ss1 ->
  rec_wf r = true -> denote_record ss1 r = Some ss2 ->
  ser_record r = cut ++ rem -> rem <> [] ->
  (n + List.length (ser_records rs) < lim)%nat -> (List.length rs < fuel)%nat ->
  exists e x sf,
    run_a (decode_file_data o fuel) (mk_ast (ser_records rs ++ cut) t n lim) s0 = RIOErr e x sf /\
    exists ms, ss_msgs ss1 = pre ++ ms /\ adds fb gb ms = AddOk (ds_file sf) (ds_g sf).
Proof.
  intros rs r cut rem o pre fb gb ft s0 ss0 ss1 ss2 t n lim fuel HI Hwf Hden Hwfr Hdr Hser Hrem Hlim Hfuel.
  destruct (records_then rs o pre fb gb ft s0 ss0 ss1 cut t n lim HI Hwf Hden ltac:(lia)) as (s1 & HI1 & Heq).
  change (mk_ast (ser_records rs ++ cut) t n lim) with (ast_at (ser_records rs) cut t n lim).
  rewrite Heq. destruct (fuel - List.length rs)%nat as [|f] eqn:Ef; [lia|].
  destruct (trunc_loop_file o pre fb gb ft s1 ss1 r ss2 cut rem t (n + List.length (ser_records rs))%nat lim f
              HI1 Hwfr Hdr Hser Hrem Hlim) as (e & x & sf & Hrun & F1 & F2).
  exists e, x, sf. split; [exact Hrun|]. rewrite F1, F2. exact (inv_msgs _ _ _ _ _ _ _ HI1).
Qed.
