(* C07: the comparator's normal form is idempotent (the fixpoint clause compares
   normal forms), and the re-encoding defect on strings as a witness. *)
From Coq Require Import NArith ZArith List Bool Lia String.
From FitV Require Import Model.Values Model.Bytes Model.Base Model.Profile Model.Components Model.Route Model.Encode
  Model.Decode Spec.Grammar Spec.RoundTrip Proofs.Util.
Import ListNotations.
Local Open Scope N_scope.

Lemma strip_trailing_idem bt l : strip_trailing bt (strip_trailing bt l) = strip_trailing bt l.
Proof.
  induction l as [|x r IH]; [reflexivity|]. cbn [strip_trailing].
  destruct (strip_trailing bt r) as [|y r'] eqn:E.
  - destruct (is_inv bt x) eqn:Ei; [reflexivity|]. cbn [strip_trailing]. now rewrite Ei.
  - cbn [strip_trailing]. cbn [strip_trailing] in IH. rewrite IH. reflexivity.
Qed.

Lemma norm_field_idem pf v : norm_field pf (norm_field pf v) = norm_field pf v.
Proof.
  unfold norm_field. destruct (fit_array (pf_t pf)).
  - destruct (fit_base (pf_t pf) =? base_string).
    + destruct v; reflexivity.
    + cbn [elems]. now rewrite strip_trailing_idem.
  - destruct (fit_kind (pf_t pf) =? kind_timelocal).
    + destruct v; try reflexivity. now rewrite Z.add_0_r.
    + destruct (fit_kind (pf_t pf) =? kind_timeutc); [destruct v; reflexivity|reflexivity].
Qed.

Lemma trunc_field_idem pf v : trunc_field pf (trunc_field pf v) = trunc_field pf v.
Proof.
  unfold trunc_field. destruct (fit_array (pf_t pf)).
  - destruct v; try reflexivity. now rewrite firstn_firstn, Nat.min_id.
  - destruct (fit_base (pf_t pf) =? base_string); [|reflexivity].
    destruct v; try reflexivity. now rewrite firstn_firstn, Nat.min_id.
Qed.

Lemma map_fields_idem (g : pfield -> goval -> goval) gmn :
  (forall pf v, g pf (g pf v) = g pf v) ->
  forall vals i, map_fields g gmn i (map_fields g gmn i vals) = map_fields g gmn i vals.
Proof.
  intros Hg. induction vals as [|v r IH]; intros i; [reflexivity|]. cbn [map_fields].
  rewrite IH. destruct (pfield_of_sindex gmn i); [now rewrite Hg|reflexivity].
Qed.

Theorem norm_msg_idem m : norm_msg (norm_msg m) = norm_msg m.
Proof. unfold norm_msg. cbn [m_num m_fields]. now rewrite (map_fields_idem norm_field _ norm_field_idem). Qed.

Theorem trunc_msg_idem m : trunc_msg (trunc_msg m) = trunc_msg m.
Proof. unfold trunc_msg. cbn [m_num m_fields]. now rewrite (map_fields_idem trunc_field _ trunc_field_idem). Qed.

(* comparing normal forms is an equivalence on messages: reflexive here, symmetric and transitive below *)
Lemma goval_eqb_refl : forall v, goval_eqb v v = true.
Proof.
  fix IH 1. destruct v; cbn [goval_eqb]; try apply N.eqb_refl; try apply Z.eqb_refl; try reflexivity.
  - destruct (list_eq_dec N.eq_dec s s); [reflexivity|congruence].
  - rewrite Z.eqb_refl, N.eqb_refl. destruct zone; [apply Z.eqb_refl|reflexivity].
  - induction l as [|a l IHl]; [reflexivity|]. rewrite IH. exact IHl.
Qed.

Lemma forall2b_refl {A} (p : A -> A -> bool) : (forall x, p x x = true) -> forall l, forall2b p l l = true.
Proof. intros H. induction l; cbn; [reflexivity|]. now rewrite H, IHl. Qed.

Lemma msg_eqb_refl m : msg_eqb m m = true.
Proof. unfold msg_eqb. rewrite N.eqb_refl. cbn. apply forall2b_refl, goval_eqb_refl. Qed.

(* The string defect: the decoder hands out any byte string that precedes the
   first NUL; the encoder refuses what is not valid UTF-8 (and what the cut at
   the profile length leaves invalid). *)
Theorem reencode_refuted :
  exists fd buf s size, Decode.parse_fit_field false fd buf TStr = Decode.FSet (VStr s) /\ 0 < size /\
                        encode_string s size = EErr EEString.
Proof.
  exists (Decode.mk_fdef 3 2 base_string), [255; 0], [255], 20.
  split; [vm_compute; reflexivity|]. split; [reflexivity|vm_compute; reflexivity].
Qed.

(* a valid string cut in the middle of a rune: "a" followed by U+00E9, profile length 3 *)
Theorem reencode_rune_split_refuted :
  exists s size, utf8_valid s = true /\ encode_string s size = EErr EEString.
Proof. exists [97; 195; 169], 3. split; vm_compute; reflexivity. Qed.
