(* C07 decode_wf at File level: every File that Decode returns without error
   holds, slot by slot, well-typed messages of the slot's message type, pointer
   slots at most one, FileId exactly one; it is a wf_file (Spec/RoundTrip.v)
   whenever FileId.Type still names the container File.init created (the
   complement is the known finding second_file_id).
   Method: a state-passing precondition calculus [wps] over decoder programs,
   sound for the buffered interpreter run_c on any reader delivering bytes; the
   value part comes from the state-free [wpre] results of Proofs/C07Reencode.v,
   the state part is a frame property (only time, counters, quirks, definitions
   move inside a record) plus the invariant of File.add and File.init. *)
From Coq Require Import NArith ZArith List Bool Lia String.
From FitV Require Import Model.Values Model.Bytes Model.Base Model.Profile Model.Reflect Model.Components Model.Route
  Model.Crc Model.Header Model.IO Model.Decode Spec.RoundTrip Spec.RouteSpec
  Proofs.ProfileProofs Proofs.RouteProofs Proofs.C07Reencode Proofs.StreamDenoteLift Proofs.StreamDenoteFrame
  Proofs.StreamDenoteDecode
  Gen.Consts Gen.RoutingData.
Import ListNotations.
Local Open Scope N_scope.

(* ================================================================ 1. the calculus *)
Fixpoint wps {S E A} (p : prog S E A) (Q : A -> S -> Prop) (s : S) : Prop :=
  match p with
  | Ret a => Q a s
  | Fail _ => True
  | Panic _ => True
  | ReadByte k => forall b, b < 256 -> wps (k b) Q s
  | ReadFull n k => forall l, bytes_lt l -> wps (k l) Q s
  | More k => forall m, wps (k m) Q s
  | Get k => wps (k s) Q s
  | Put s' k => wps k Q s'
  end.

Lemma wps_bind {S E A B} (p : prog S E A) (f : A -> prog S E B) Q : forall s,
  wps p (fun a s' => wps (f a) Q s') s -> wps (bind p f) Q s.
Proof. induction p; intros s0; cbn [wps bind]; auto. Qed.

Lemma wps_mono {S E A} (p : prog S E A) (Q Q' : A -> S -> Prop) : (forall a s', Q a s' -> Q' a s') ->
  forall s, wps p Q s -> wps p Q' s.
Proof. intros HQ. induction p; intros s0; cbn [wps]; auto. Qed.

Lemma wps_seq {S E A B} (p : prog S E A) (f : A -> prog S E B) (M : A -> S -> Prop) Q s :
  wps p M s -> (forall a s1, M a s1 -> wps (f a) Q s1) -> wps (bind p f) Q s.
Proof. intros Hp Hf. apply wps_bind. eapply wps_mono; [|exact Hp]. exact Hf. Qed.

(* a state-free value property and a state property combine *)
Lemma wps_and {S E A} (p : prog S E A) (Q1 : A -> Prop) (Q2 : A -> S -> Prop) : forall s,
  wpre p Q1 -> wps p Q2 s -> wps p (fun a s' => Q1 a /\ Q2 a s') s.
Proof. induction p; intros s0 H1 H2; cbn [wps wpre] in *; auto. Qed.

(* ---- soundness over the buffered interpreter *)
Definition cinv (c : cst) : Prop := bytes_lt (c_buf c) /\ bytes_lt (rd_data (c_rd c)).

Lemma rd_read_bytes r k bs e r' : bytes_lt (rd_data r) -> rd_read r k = (bs, e, r') ->
  bytes_lt bs /\ bytes_lt (rd_data r').
Proof.
  intros Hb. unfold rd_read. destruct (rd_data r) as [|x d] eqn:Ed.
  - intros H; inversion H; subst. split; [constructor|]. rewrite Ed. constructor.
  - intros H; inversion H; subst. cbn [rd_data]. split; [now apply bytes_lt_firstn|now apply bytes_lt_skipn].
Qed.

Lemma fill_bytes c u c' : cinv c -> fill c = COk u c' -> cinv c'.
Proof.
  intros [Hb Hr]. unfold fill. destruct (c_fuel c) as [|f]; [discriminate|].
  destruct (Nat.eqb (c_n c) (c_limit c)); [discriminate|].
  destruct (rd_read (c_rd c) _) as [[bs e] rd'] eqn:Er.
  destruct (rd_read_bytes _ _ _ _ _ Hr Er) as [Hbs Hrd].
  destruct bs as [|b bs].
  - destruct e; [discriminate|]. intros H; inversion H; subst. split; [constructor|exact Hrd].
  - intros H; inversion H; subst. split; [exact Hbs|exact Hrd].
Qed.

Lemma c_take_bytes : forall iters k acc c l c', cinv c -> bytes_lt acc ->
  c_take iters k acc c = COk l c' -> bytes_lt l /\ cinv c'.
Proof.
  induction iters as [|it IH]; intros k acc c l c' Hc Ha; cbn [c_take]; cbv zeta.
  - destruct (Nat.eqb _ 0); [|discriminate]. intros H; inversion H; subst. destruct Hc as [Hb Hr]. split.
    + apply Forall_app. split; [assumption|now apply bytes_lt_firstn].
    + split; cbn [c_buf c_rd]; [now apply bytes_lt_skipn|assumption].
  - assert (Hacc : bytes_lt (acc ++ firstn (Nat.min k (List.length (c_buf c))) (c_buf c))).
    { destruct Hc as [Hb Hr]. apply Forall_app. split; [assumption|now apply bytes_lt_firstn]. }
    assert (Hc1 : cinv (mk_cst (c_rd c) (skipn (Nat.min k (List.length (c_buf c))) (c_buf c))
                               (c_n c + Nat.min k (List.length (c_buf c))) (c_limit c) (c_crc c) (c_fuel c))).
    { destruct Hc as [Hb Hr]. split; cbn [c_buf c_rd]; [now apply bytes_lt_skipn|assumption]. }
    destruct (Nat.eqb _ 0).
    + intros H; inversion H; subst. now split.
    + destruct (fill _) as [u c2|e c2|] eqn:Ef; try discriminate.
      intros H. eapply IH; [eapply fill_bytes; eassumption|exact Hacc|exact H].
Qed.

Lemma c_byte_bytes : forall iters c b c', cinv c -> c_byte iters c = COk b c' -> b < 256 /\ cinv c'.
Proof.
  induction iters as [|it IH]; intros c b c' Hc; cbn [c_byte].
  - destruct (c_buf c) as [|x r] eqn:Eb; [discriminate|]. intros H; inversion H; subst.
    destruct Hc as [Hb Hr]. rewrite Eb in Hb. inversion Hb; subst. split; [assumption|]. split; assumption.
  - destruct (c_buf c) as [|x r] eqn:Eb.
    + destruct (fill c) as [u c2|e c2|] eqn:Ef; try discriminate. intros H. eapply IH; [eapply fill_bytes; eassumption|exact H].
    + intros H; inversion H; subst. destruct Hc as [Hb Hr]. rewrite Eb in Hb. inversion Hb; subst.
      split; [assumption|]. split; assumption.
Qed.

Theorem wps_sound_c {S E A} : forall (p : prog S E A) Q c s a c' s',
  wps p Q s -> cinv c -> run_c p c s = ROk a c' s' -> Q a s' /\ cinv c'.
Proof.
  induction p as [a0|e|w|k IH|n k IH|k IH|k IH|s0 k IH]; intros Q c s a c' s' Hw Hc Hr; cbn [wps run_c] in *;
    try discriminate.
  - inversion Hr; subst. now split.
  - destruct (c_byte _ c) as [b c1|e c1|] eqn:Eb; try discriminate.
    destruct (c_byte_bytes _ _ _ _ Hc Eb) as [Hb Hc1]. eapply IH; [apply Hw, Hb|exact Hc1|exact Hr].
  - destruct (c_take _ n [] c) as [l c1|e c1|] eqn:Et; try discriminate.
    destruct (c_take_bytes _ _ _ _ _ _ Hc (Forall_nil _) Et) as [Hl Hc1]. eapply IH; [apply Hw, Hl|exact Hc1|exact Hr].
  - eapply IH; [apply Hw|exact Hc|exact Hr].
  - eapply IH; [exact Hw|exact Hc|exact Hr].
  - eapply IH; [exact Hw|exact Hc|exact Hr].
Qed.

(* ================================================================ 2. inside a record the File does not move *)
Definition fg (s : dstate) : file * gstate := (ds_file s, ds_g s).

Lemma parse_time_stamp_fg s u kind num : fg (snd (parse_time_stamp s u kind num)) = fg s.
Proof.
  unfold parse_time_stamp.
  repeat match goal with |- context [if ?c then _ else _] => destruct c end; reflexivity.
Qed.

Lemma wps_frame {A B} (p : P A) (f : A -> P B) s :
  wps p (fun _ s1 => fg s1 = fg s) s ->
  (forall a s1, fg s1 = fg s -> wps (f a) (fun _ s' => fg s' = fg s1) s1) ->
  wps (bind p f) (fun _ s' => fg s' = fg s) s.
Proof.
  intros Hp Hf. eapply wps_seq; [exact Hp|]. intros a s1 H1. cbv beta in H1.
  eapply wps_mono; [|apply Hf, H1]. intros b s' H'. cbv beta in *. congruence.
Qed.

Lemma finish_fg (m : msg) i (r : fres) s :
  wps (match r with
       | FSet v => Ret (Some (msg_set m i v))
       | FKeep => Ret (Some m)
       | FErr => fail EParseField
       | FPanic w => panic w
       end : P (option msg)) (fun _ s' => fg s' = fg s) s.
Proof. destruct r; cbn [wps fail panic]; auto. Qed.

Lemma parse_one_field_fg o dm known fd msgv s :
  wps (parse_one_field o dm known fd msgv) (fun _ s' => fg s' = fg s) s.
Proof.
  unfold parse_one_field. cbv beta zeta. apply wps_frame.
  - destruct (get_field (dm_gmn dm) (fd_num fd)) as [p|].
    + destruct (_ && _); [|reflexivity]. destruct (b_size _); [reflexivity|exact I].
    + destruct (known && o_unkf o); reflexivity.
  - intros _ s1 _. cbn [read_full bind wps]. intros buf _.
    destruct (get_field (dm_gmn dm) (fd_num fd)) as [p|]; [|reflexivity].
    destruct (negb known); [reflexivity|]. destruct msgv as [m|]; [|exact I].
    destruct (field_type (dm_gmn dm) (pf_sindex p)) as [ty|]; [|exact I].
    destruct (fit_kind (pf_t p) =? kind_native).
    { destruct (negb (fit_array (pf_t p))); apply finish_fg. }
    destruct (b_signed (fd_btype fd)) as [sg|]; [|exact I].
    destruct ((fit_kind (pf_t p) =? kind_timeutc) || (fit_kind (pf_t p) =? kind_timelocal)).
    + cbn [get_st bind wps].
      pose proof (parse_time_stamp_fg s1 (get32 (dm_be dm) (extend4 (dm_be dm) sg buf)) (fit_kind (pf_t p)) (pf_num p)) as Hts.
      destruct (parse_time_stamp s1 _ _ _) as [ov s2]. cbn [snd] in Hts. cbn [put_st bind wps].
      destruct ov as [v|]; [|exact Hts].
      eapply wps_mono; [|apply finish_fg]. intros a s' H'. cbv beta in *. congruence.
    + destruct (fit_kind (pf_t p) =? kind_lat); [apply finish_fg|].
      destruct (fit_kind (pf_t p) =? kind_lng); [apply finish_fg|exact I].
Qed.

Lemma parse_fields_fg o dm known : forall fds msgv s,
  wps (parse_fields o dm known fds msgv) (fun _ s' => fg s' = fg s) s.
Proof.
  induction fds as [|fd r IH]; intros msgv s; cbn [parse_fields]; [reflexivity|].
  apply wps_frame; [apply parse_one_field_fg|]. intros m' s1 _. apply IH.
Qed.

Lemma skip_dev_fields_fg : forall devs s, wps (skip_dev_fields devs) (fun _ s' => fg s' = fg s) s.
Proof.
  induction devs as [|[[a size] c] r IH]; intros s; cbn [skip_dev_fields]; [reflexivity|].
  cbn [read_full bind wps]. intros l _. apply IH.
Qed.

Lemma parse_data_fields_fg o dm known msgv s :
  wps (parse_data_fields o dm known msgv) (fun _ s' => fg s' = fg s) s.
Proof.
  unfold parse_data_fields. apply wps_frame; [apply parse_fields_fg|]. intros m s1 _.
  apply wps_frame; [apply skip_dev_fields_fg|]. intros _ s2 _. reflexivity.
Qed.

Lemma parse_data_message_fg o b compressed s :
  wps (parse_data_message o b compressed) (fun _ s' => fg s' = fg s) s.
Proof.
  unfold parse_data_message. cbv zeta. cbn [get_st bind wps].
  destruct (nth _ (ds_defs s) None) as [dm|]; [|exact I].
  apply wps_frame.
  - destruct (known_msg (dm_gmn dm)).
    + destruct (mesg_all_invalid (dm_gmn dm)); [reflexivity|exact I].
    + destruct (o_unkm o); reflexivity.
  - intros msgv s1 _. destruct (negb compressed); [apply parse_data_fields_fg|].
    cbn [get_st bind wps]. destruct (negb (ds_hasts s1)); [apply parse_data_fields_fg|].
    cbn [put_st bind wps].
    set (s2 := with_time _ _ _).
    assert (H2 : fg s2 = fg s1) by reflexivity. clearbody s2.
    assert (Hp : forall mv, wps (parse_data_fields o dm (known_msg (dm_gmn dm)) mv) (fun _ s' => fg s' = fg s1) s2).
    { intros mv. eapply wps_mono; [|apply parse_data_fields_fg]. intros a s' H'. cbv beta in *. congruence. }
    destruct (get_field (dm_gmn dm) c_fieldNumTimeStamp) as [p|]; [|apply Hp].
    destruct msgv as [m|]; [|exact I]. destruct (field_type _ _) as [ty|]; [|exact I].
    destruct (set_time ty _); [apply Hp|exact I].
Qed.

(* value and state together *)
Definition opt_mwf (om : option msg) : Prop := match om with Some m => mwf m | None => True end.

Theorem parse_data_message_ok o b compressed s :
  wps (parse_data_message o b compressed) (fun om s' => opt_mwf om /\ fg s' = fg s) s.
Proof. apply wps_and; [apply parse_data_message_wf|apply parse_data_message_fg]. Qed.

(* the definition parser reads only *)
Lemma parse_definition_message_fg b s : wps (parse_definition_message b) (fun _ s' => fg s' = fg s) s.
Proof.
  unfold parse_definition_message. cbv zeta. cbn [read_byte read_full bind wps]. intros _ _ arch _.
  apply wps_frame.
  - destruct (arch =? c_littleEndian); [reflexivity|]. destruct (arch =? c_bigEndian); [reflexivity|exact I].
  - intros be s1 _. cbn [read_byte read_full bind wps]. intros g2 _.
    destruct (_ =? c_MesgNumInvalid); [exact I|]. cbn [read_byte read_full bind wps]. intros nf _ fb _.
    destruct (validate_all _ _); try exact I.
    destruct (_ =? c_devDataMask); cbn [read_byte read_full bind wps]; [intros nd _ db _|]; reflexivity.
Qed.

(* ================================================================ 3. the File invariant *)
Definition common5 : list (string * bool * N) := firstn NCOMMON (slots_of first_valid_ft).

(* before init: the five common slots; after: the slots of the container init created *)
Definition file_inv (f : file) : Prop :=
  match f_inited f with
  | None => slots_wf 0 common5 (f_slots f) = true
  | Some ft => In ft valid_file_types /\ slots_wf 0 (slots_of ft) (f_slots f) = true
  end.

Definition slot_ok (k : nat) (multi : bool) (mn : N) (s : list msg) : bool :=
  forallb (msg_wf mn) s && (multi || Nat.leb (List.length s) 1) && (if Nat.eqb k 0 then Nat.eqb (List.length s) 1 else true).

Lemma slots_wf_cons k nm multi mn dr s sr :
  slots_wf k ((nm, multi, mn) :: dr) (s :: sr) = slot_ok k multi mn s && slots_wf (S k) dr sr.
Proof. reflexivity. Qed.

Lemma slots_wf_length : forall descs slots k, slots_wf k descs slots = true -> List.length slots = List.length descs.
Proof.
  induction descs as [|[[nm mu] mn] dr IH]; intros [|s sr] k H; try discriminate; [reflexivity|].
  rewrite slots_wf_cons in H. apply andb_true_iff in H as [_ H]. cbn [List.length]. f_equal. eapply IH, H.
Qed.

Lemma slots_wf_nth : forall descs slots k i name multi mn, slots_wf k descs slots = true ->
  nth_error descs i = Some (name, multi, mn) -> slot_ok (k + i) multi mn (nth i slots []) = true.
Proof.
  induction descs as [|[[nm mu] mn0] dr IH]; intros [|s sr] k i name multi mn H Hn; try discriminate.
  - destruct i; discriminate.
  - rewrite slots_wf_cons in H. apply andb_true_iff in H as [H1 H2]. destruct i as [|i]; cbn [nth_error nth] in *.
    + inversion Hn; subst. now rewrite Nat.add_0_r.
    + replace (k + S i)%nat with (S k + i)%nat by lia. eapply IH; eassumption.
Qed.

Lemma slots_wf_set_nth : forall descs slots k i name multi mn s', slots_wf k descs slots = true ->
  nth_error descs i = Some (name, multi, mn) -> slot_ok (k + i) multi mn s' = true ->
  slots_wf k descs (set_nth i s' slots) = true.
Proof.
  induction descs as [|[[nm mu] mn0] dr IH]; intros [|s sr] k i name multi mn s' H Hn Hs; try discriminate.
  - destruct i; discriminate.
  - rewrite slots_wf_cons in H. apply andb_true_iff in H as [H1 H2]. destruct i as [|i]; cbn [nth_error set_nth] in *.
    + inversion Hn; subst. rewrite slots_wf_cons. rewrite Nat.add_0_r in Hs. now rewrite Hs, H2.
    + rewrite slots_wf_cons, H1. cbn [andb]. eapply IH; [exact H2|exact Hn|].
      now replace (S k + i)%nat with (k + S i)%nat by lia.
Qed.

Lemma slots_wf_app : forall d1 s1 d2 s2 k, slots_wf k d1 s1 = true -> slots_wf (k + List.length d1) d2 s2 = true ->
  slots_wf k (d1 ++ d2) (s1 ++ s2) = true.
Proof.
  induction d1 as [|[[nm mu] mn] dr IH]; intros [|s sr] d2 s2 k H1 H2; try discriminate.
  - cbn [List.length app] in *. now rewrite Nat.add_0_r in H2.
  - rewrite slots_wf_cons in H1. apply andb_true_iff in H1 as [Ha Hb]. cbn [app]. rewrite slots_wf_cons, Ha. cbn [andb].
    apply IH; [exact Hb|]. cbn [List.length] in H2. now replace (S k + List.length dr)%nat with (k + S (List.length dr))%nat by lia.
Qed.

Lemma slots_wf_empty : forall d k, slots_wf (S k) d (repeat [] (List.length d)) = true.
Proof. induction d as [|[[nm mu] mn] dr IH]; intros k; [reflexivity|]. cbn [List.length repeat]. rewrite slots_wf_cons, IH. now destruct mu. Qed.

(* storing one message in the slot that holds its type *)
Lemma slots_add_wf descs slots i name multi mn m' : slots_wf 0 descs slots = true ->
  nth_error descs i = Some (name, multi, mn) -> (i = 0%nat -> multi = false) -> msg_wf mn m' = true ->
  slots_wf 0 descs (set_nth i (if multi then nth i slots [] ++ [m'] else [m']) slots) = true.
Proof.
  intros Hw Hn H0 Hm. eapply slots_wf_set_nth; [exact Hw|exact Hn|]. cbn [Nat.add].
  pose proof (slots_wf_nth _ _ _ _ _ _ _ Hw Hn) as Hold. cbn [Nat.add] in Hold. unfold slot_ok in *.
  destruct multi.
  - apply andb_true_iff in Hold as [Hold _]. apply andb_true_iff in Hold as [Hf _].
    rewrite forallb_app, Hf. cbn [forallb orb andb]. rewrite Hm. cbn [andb].
    destruct i as [|i]; [specialize (H0 eq_refl); discriminate|reflexivity].
  - cbn [forallb List.length Nat.leb orb]. rewrite Hm. now destruct (Nat.eqb i 0).
Qed.

(* ---- the routing facts *)
Lemma slots_eqb_eq : forall a b, slots_eqb a b = true -> a = b.
Proof.
  induction a as [|[[n1 m1] h1] a IH]; intros [|[[n2 m2] h2] b] H; try discriminate; [reflexivity|].
  cbn [slots_eqb] in H. apply andb_true_iff in H as [H H4]. apply andb_true_iff in H as [H H3]. apply andb_true_iff in H as [H1 H2].
  apply String.eqb_eq in H1. apply eqb_prop in H2. apply N.eqb_eq in H3. subst. f_equal. now apply IH.
Qed.

Lemma common_prefix ft : In ft valid_file_types ->
  firstn NCOMMON (slots_of ft) = common5 /\ (NCOMMON <= List.length (slots_of ft))%nat.
Proof.
  intros Hft. pose proof (wf_ft ft Hft) as W. unfold ft_routing_ok in W. cbv zeta in W.
  apply andb_true_iff in W as [W H6]. do 4 (apply andb_true_iff in W as [W _]).
  split; [now apply slots_eqb_eq|now apply Nat.leb_le].
Qed.

Lemma first_valid_in : In first_valid_ft valid_file_types.
Proof. assert (E : first_valid_ft = 1) by (vm_compute; reflexivity). rewrite E. left. reflexivity. Qed.

Lemma nth_error_firstn_lt {A} : forall n (l : list A) i, (i < n)%nat -> nth_error (firstn n l) i = nth_error l i.
Proof.
  induction n as [|n IH]; intros l i Hi; [lia|]. destruct l as [|a l]; [reflexivity|].
  destruct i as [|i]; [reflexivity|]. cbn [firstn nth_error]. apply IH. lia.
Qed.

Lemma common5_slot0 name multi mn : nth_error common5 0 = Some (name, multi, mn) -> multi = false.
Proof. vm_compute. intros H; inversion H. reflexivity. Qed.

Lemma slot0_single ft name multi mn : In ft valid_file_types ->
  nth_error (slots_of ft) 0 = Some (name, multi, mn) -> multi = false.
Proof.
  intros Hft Hn. destruct (common_prefix ft Hft) as [Hc _]. apply (common5_slot0 name multi mn).
  rewrite <- Hc. rewrite nth_error_firstn_lt; [exact Hn|unfold NCOMMON; lia].
Qed.

Lemma stored_wf ft g m m' g' : mwf m -> stored ft g m = Some (m', g') -> msg_wf (m_num m) m' = true.
Proof.
  intros Hm. unfold stored. destruct (find_slot ft (m_num m)) as [[i multi]|].
  - destruct (Nat.ltb i NCOMMON); [intros H; apply some_pair_inj in H as [<- _]; exact Hm|].
    destruct (expands (m_num m)); [|intros H; apply some_pair_inj in H as [<- _]; exact Hm].
    intros H. destruct (expand_components_wf _ _ _ _ Hm H) as [Hw Hn]. unfold mwf in Hw. now rewrite Hn in Hw.
  - intros H; apply some_pair_inj in H as [<- _]; exact Hm.
Qed.

(* ---- File.add keeps the invariant *)
Lemma file_add_none_inv f g m f' g' : f_inited f = None -> file_add f g m = AddOk f' g' ->
  exists i multi, find_slot first_valid_ft (m_num m) = Some (i, multi) /\ (i < NCOMMON)%nat /\
    f' = with_slots f (set_nth i (if multi then nth i (f_slots f) [] ++ [m] else [m]) (f_slots f)).
Proof.
  intros Hi. unfold file_add. rewrite Hi. unfold common_routes.
  rewrite (routes_char _ (m_num m) first_valid_in). unfold expected_routes.
  destruct (find_slot first_valid_ft (m_num m)) as [[i multi]|]; [|discriminate].
  cbn [filter fst]. destruct (Nat.ltb i NCOMMON) eqn:El; [|discriminate].
  apply Nat.ltb_lt in El. intros H. exists i, multi. split; [reflexivity|]. split; [exact El|].
  destruct multi; cbn [apply_routes] in H; inversion H; unfold with_slots; rewrite Hi; reflexivity.
Qed.

Theorem file_add_inv f g m f' g' : mwf m -> file_inv f -> file_add f g m = AddOk f' g' ->
  file_inv f' /\ f_inited f' = f_inited f.
Proof.
  intros Hm Hinv Ha. unfold file_inv in *. destruct (f_inited f) as [ft|] eqn:Ei.
  - destruct Hinv as [Hft Hw]. rewrite (file_add_inited ft f g m Hft Ei) in Ha.
    destruct (find_slot ft (m_num m)) as [[i multi]|] eqn:Es.
    + destruct (stored ft g m) as [[m' g1]|] eqn:Est; [|discriminate]. inversion Ha; subst f' g'.
      unfold with_slots. cbn [f_inited f_slots]. rewrite Ei. split; [|reflexivity]. split; [exact Hft|].
      apply (find_slot_iff ft (m_num m) i multi Hft) in Es as [name Hn].
      eapply slots_add_wf; [exact Hw|exact Hn| |eapply stored_wf; eassumption].
      intros ->. eapply slot0_single; eassumption.
    + inversion Ha; subst f' g'. unfold with_slots. cbn [f_inited f_slots]. rewrite Ei. split; [|reflexivity]. now split.
  - destruct (file_add_none_inv f g m f' g' Ei Ha) as (i & multi & Hs & Hlt & ->).
    unfold with_slots. cbn [f_inited f_slots]. rewrite Ei. split; [|reflexivity].
    apply (find_slot_iff _ (m_num m) i multi first_valid_in) in Hs as [name Hn].
    assert (Hn5 : nth_error common5 i = Some (name, multi, m_num m)).
    { unfold common5. now rewrite nth_error_firstn_lt. }
    eapply slots_add_wf; [exact Hinv|exact Hn5| |exact Hm].
    intros ->. eapply common5_slot0; eassumption.
Qed.

(* ---- File.init *)
Theorem file_init_inv f f' : f_inited f = None -> file_inv f -> file_init f = Some f' ->
  file_inv f' /\ f_inited f' = Some (file_type f).
Proof.
  intros Hi Hinv H. destruct (file_init_valid f f' H) as [Hft Hi']. split; [|exact Hi'].
  unfold file_inv in *. rewrite Hi in Hinv. rewrite Hi'. split; [exact Hft|].
  unfold file_init in H. destruct (ft_entry (file_type f)) as [[[ok cn] sl]|] eqn:Ee; [|discriminate].
  destruct ok; [|discriminate]. apply some_inj in H. subst f'. cbn [f_slots].
  assert (Esl : slots_of (file_type f) = sl) by (unfold slots_of; now rewrite Ee).
  destruct (common_prefix _ Hft) as [Hc Hlen]. rewrite Esl in *.
  pose proof (slots_wf_length _ _ _ Hinv) as Hl5.
  assert (Hc5 : List.length common5 = NCOMMON) by (rewrite <- Hc; rewrite firstn_length; lia).
  rewrite firstn_all2 by lia.
  replace (List.length sl - NCOMMON)%nat with (List.length (skipn NCOMMON sl)) by (rewrite skipn_length; reflexivity).
  set (rest := skipn NCOMMON sl).
  assert (Esp : sl = common5 ++ rest) by (unfold rest; rewrite <- Hc; symmetry; apply firstn_skipn).
  rewrite Esp. apply slots_wf_app; [exact Hinv|]. rewrite Hc5. cbn [Nat.add]. apply slots_wf_empty.
Qed.

Lemma new_file_inv h : file_inv (new_file h) /\ f_inited (new_file h) = None.
Proof. split; [|reflexivity]. unfold file_inv, new_file. cbn [f_inited f_slots]. vm_compute. reflexivity. Qed.

(* ================================================================ 4. the decoder programs *)
Definition keeps (s s' : dstate) : Prop :=
  file_inv (ds_file s) -> file_inv (ds_file s') /\ f_inited (ds_file s') = f_inited (ds_file s).

Lemma keeps_refl s : keeps s s.
Proof. intros H. now split. Qed.

Lemma keeps_trans s1 s2 s3 : keeps s1 s2 -> keeps s2 s3 -> keeps s1 s3.
Proof. intros H12 H23 H1. destruct (H12 H1) as [H2 E2]. destruct (H23 H2) as [H3 E3]. split; [exact H3|congruence]. Qed.

Lemma fg_keeps s s' : fg s' = fg s -> keeps s s'.
Proof. unfold fg. intros H. assert (Hf : ds_file s' = ds_file s) by congruence. intros Hi. rewrite Hf. now split. Qed.

Lemma add_msg_keeps m s : mwf m -> wps (add_msg m) (fun _ s' => keeps s s') s.
Proof.
  intros Hm. unfold add_msg. cbn [get_st bind wps].
  destruct (file_add (ds_file s) (ds_g s) m) as [f' g'|w] eqn:Ea; [|exact I].
  cbn [put_st wps]. intros Hi. cbn [with_file ds_file]. eapply file_add_inv; eassumption.
Qed.

Lemma set_def_keeps dm s : wps (set_def dm) (fun _ s' => keeps s s') s.
Proof. unfold set_def. cbn [get_st put_st bind wps]. apply fg_keeps. reflexivity. Qed.

(* store what parseDataMessage returned *)
Lemma store_keeps (om : option msg) s0 s1 : opt_mwf om -> fg s1 = fg s0 ->
  wps (match om with Some m => add_msg m | None => Ret tt end) (fun _ s' => keeps s0 s') s1.
Proof.
  intros Hm Hfg. destruct om as [m|].
  - eapply wps_mono; [|apply add_msg_keeps, Hm]. intros ? s' H. cbv beta in *.
    eapply keeps_trans; [apply fg_keeps, Hfg|exact H].
  - cbn [wps]. now apply fg_keeps.
Qed.

Theorem parse_record_keeps o s : wps (parse_record o) (fun _ s' => keeps s s') s.
Proof.
  unfold parse_record. cbn [read_byte bind wps]. intros b _.
  destruct (_ =? c_compressedHeaderMask).
  { eapply wps_seq; [apply parse_data_message_ok|]. intros om s1 [Hm Hfg]. now apply store_keeps. }
  destruct (_ =? c_mesgDefinitionMask).
  { eapply wps_seq; [apply parse_definition_message_fg|]. intros dm s1 Hfg. cbv beta in Hfg.
    eapply wps_mono; [|apply set_def_keeps]. intros ? s' H. cbv beta in *.
    eapply keeps_trans; [apply fg_keeps, Hfg|exact H]. }
  destruct (_ =? c_mesgHeaderMask); [|exact I].
  eapply wps_seq; [apply parse_data_message_ok|]. intros om s1 [Hm Hfg]. now apply store_keeps.
Qed.

Theorem parse_file_id_msg_keeps o s : wps (parse_file_id_msg o) (fun _ s' => keeps s s') s.
Proof.
  unfold parse_file_id_msg. cbn [read_byte bind wps]. intros b _.
  destruct (negb _); [exact I|].
  eapply wps_seq; [apply parse_definition_message_fg|]. intros dm s1 Hfg1. cbv beta in Hfg1.
  destruct (negb _); [exact I|].
  eapply wps_seq; [apply set_def_keeps|]. intros ? s2 H2. cbv beta in H2.
  cbn [read_byte bind wps]. intros b2 _. destruct (negb _); [exact I|].
  eapply wps_seq; [apply parse_data_message_ok|]. intros om s3 [Hm Hfg3].
  destruct om as [m|]; [|exact I]. destruct (m_num m =? c_MesgNumFileId); [|exact I].
  eapply wps_mono; [|apply add_msg_keeps, Hm]. intros ? s' H. cbv beta in *.
  eapply keeps_trans; [apply fg_keeps, Hfg1|]. eapply keeps_trans; [exact H2|].
  eapply keeps_trans; [apply fg_keeps, Hfg3|exact H].
Qed.

Theorem decode_file_data_keeps o : forall fuel s, wps (decode_file_data o fuel) (fun _ s' => keeps s s') s.
Proof.
  induction fuel as [|f IH]; intros s; cbn [decode_file_data]; [exact I|].
  cbn [wps]. intros [|]; [|apply keeps_refl].
  eapply wps_seq; [apply parse_record_keeps|]. intros ? s1 H1. cbv beta in H1.
  eapply wps_mono; [|apply IH]. intros ? s' H. cbv beta in *. eapply keeps_trans; eassumption.
Qed.

Theorem do_init_inv s : f_inited (ds_file s) = None -> file_inv (ds_file s) ->
  wps do_init (fun _ s' => file_inv (ds_file s') /\ f_inited (ds_file s') <> None) s.
Proof.
  intros Hi Hinv. unfold do_init. cbn [get_st bind wps].
  destruct (file_init (ds_file s)) as [f'|] eqn:Ef; [|exact I]. cbn [put_st wps with_file ds_file].
  destruct (file_init_inv _ _ Hi Hinv Ef) as [H1 H2]. split; [exact H1|]. rewrite H2. discriminate.
Qed.

(* the buffered part of a full decode: file_id, init, records *)
Theorem data_prog_inv o fuel s : f_inited (ds_file s) = None -> file_inv (ds_file s) ->
  wps (data_prog o false fuel) (fun _ s' => file_inv (ds_file s') /\ f_inited (ds_file s') <> None) s.
Proof.
  intros Hi Hinv. unfold data_prog.
  eapply wps_seq; [apply parse_file_id_msg_keeps|]. intros ? s1 H1. cbv beta in H1.
  destruct (H1 Hinv) as [Hinv1 Hi1]. rewrite Hi in Hi1.
  eapply wps_seq; [apply do_init_inv; assumption|]. intros ? s2 [Hinv2 Hi2].
  eapply wps_mono; [|apply decode_file_data_keeps]. intros ? s' H. cbv beta in H.
  destruct (H Hinv2) as [Hinv3 Hi3]. split; [exact Hinv3|]. now rewrite Hi3.
Qed.

(* ================================================================ 5. Decode *)
Lemma io_read_full_bytes : forall fuel r n acc bs e r', bytes_lt (rd_data r) ->
  io_read_full fuel r n acc = Done (bs, e, r') -> bytes_lt (rd_data r').
Proof.
  induction fuel as [|f IH]; intros r n acc bs e r' Hb; cbn [io_read_full].
  - destruct (Nat.leb n (List.length acc)); [|discriminate]. intros H; inversion H; subst. exact Hb.
  - destruct (Nat.leb n (List.length acc)); [intros H; inversion H; subst; exact Hb|].
    destruct (rd_read r (n - List.length acc)) as [[bs1 e1] r1] eqn:Er.
    destruct (rd_read_bytes _ _ _ _ _ Hb Er) as [_ Hr1].
    destruct e1 as [t|]; [|intros H; eapply IH; eassumption].
    destruct (Nat.leb n (List.length (acc ++ bs1))); intros H; inversion H; subst; exact Hr1.
Qed.

Lemma decode_header_bytes fuel rd e h crc rd1 : bytes_lt (rd_data rd) ->
  decode_header fuel rd = Done (e, h, crc, rd1) -> bytes_lt (rd_data rd1).
Proof.
  intros Hb. unfold decode_header.
  destruct (io_read_full fuel rd 1 []) as [[[bs1 e1] r1]|] eqn:E1; [|discriminate].
  pose proof (io_read_full_bytes _ _ _ _ _ _ _ Hb E1) as H1.
  destruct e1; [intros H; inversion H; subst; exact H1|]. cbv zeta.
  destruct (negb _); [intros H; inversion H; subst; exact H1|].
  destruct (io_read_full fuel r1 _ []) as [[[t e2] r2]|] eqn:E2; [|discriminate].
  pose proof (io_read_full_bytes _ _ _ _ _ _ _ H1 E2) as H2.
  destruct e2; [intros H; inversion H; subst; exact H2|].
  repeat match goal with |- (if ?c then _ else _) = _ -> _ => destruct c end;
    intros H; inversion H; subst; exact H2.
Qed.

Lemma check_crc_slots fuel rd crc f e f' rd' : check_crc fuel rd crc f = Done (e, f', rd') ->
  f_slots f' = f_slots f /\ f_inited f' = f_inited f.
Proof.
  unfold check_crc. destruct (io_read_full fuel rd 2 []) as [[[bs e1] r1]|]; [|discriminate].
  destruct e1; [intros H; inversion H; subst; now split|]. cbv zeta.
  destruct (negb _); intros H; inversion H; subst; now split.
Qed.

Lemma valid_entry ft : In ft valid_file_types -> exists cn, ft_entry ft = Some (true, cn, slots_of ft).
Proof.
  intros Hft. pose proof init_ok_true as W. unfold init_ok in W.
  apply andb_true_iff in W as [W _]. apply andb_true_iff in W as [W _]. apply andb_true_iff in W as [_ W].
  rewrite forallb_forall in W. specialize (W ft Hft). unfold slots_of.
  destruct (ft_entry ft) as [[[ok cn] sl]|]; [|discriminate]. destruct ok; [|discriminate]. now exists cn.
Qed.

Lemma check_crc_bytes fuel rd crc f e f' rd' : bytes_lt (rd_data rd) ->
  check_crc fuel rd crc f = Done (e, f', rd') -> bytes_lt (rd_data rd').
Proof.
  intros Hb. unfold check_crc. destruct (io_read_full fuel rd 2 []) as [[[bs e1] r1]|] eqn:E1; [|discriminate].
  pose proof (io_read_full_bytes _ _ _ _ _ _ _ Hb E1) as H1.
  destruct e1; [intros H; inversion H; subst; exact H1|]. cbv zeta.
  destruct (negb _); intros H; inversion H; subst; exact H1.
Qed.

Lemma tdone_inj e h f rd g q r :
  TDone (mk_dres e h (Some f) rd g q) = TDone r -> dr_err r = e /\ dr_file r = Some f /\ dr_rd r = rd.
Proof. intros H. inversion H. cbn [dr_err dr_file dr_rd]. auto. Qed.

(* what a decoded File satisfies: the container exists, and every slot holds
   well-typed messages of its own type (pointer slots at most one, FileId exactly one) *)
Definition file_ok (f : file) : Prop :=
  exists ft, f_inited f = Some ft /\ In ft valid_file_types /\ slots_wf 0 (slots_of ft) (f_slots f) = true.

Theorem decode_full_ok : forall o g rd fuel r,
  bytes_lt (rd_data rd) -> decode o MFull g rd fuel = TDone r -> dr_err r = None ->
  (exists f, dr_file r = Some f /\ file_ok f) /\ bytes_lt (rd_data (dr_rd r)).
Proof.
  intros o g rd fuel r Hb. unfold decode.
  destruct (decode_header fuel rd) as [[[[e h0] crc] rd1]|] eqn:Eh; [|discriminate].
  destruct e as [e|]; [intros H; inversion H; discriminate|]. cbv zeta.
  pose proof (decode_header_bytes _ _ _ _ _ _ Hb Eh) as Hb1.
  destruct (run_c _ _ _) as [u c s|e c s|e c s|w|] eqn:Er; try discriminate;
    try (intros H; inversion H; discriminate).
  destruct (new_file_inv h0) as [Hinv0 Hi0].
  assert (Hc0 : cinv (mk_cst rd1 [] 0 (N.to_nat (h_dsize h0)) crc fuel)) by (split; [constructor|exact Hb1]).
  destruct (wps_sound_c _ _ _ _ _ _ _
              (data_prog_inv o (S (N.to_nat (h_dsize h0))) (init_dstate (new_file h0) g) Hi0 Hinv0) Hc0 Er)
    as [[Hinv Hi] [_ Hbc]].
  destruct (negb _); [discriminate|].
  destruct (check_crc fuel (c_rd c) (c_crc c) (ds_file s)) as [[[e f] rd3]|] eqn:Ec; [|discriminate].
  destruct (check_crc_slots _ _ _ _ _ _ _ Ec) as [Hs Hin].
  pose proof (check_crc_bytes _ _ _ _ _ _ _ Hbc Ec) as Hb3.
  intros H He. apply tdone_inj in H as (_ & Hf & Hrd). rewrite Hrd. split; [|exact Hb3].
  eexists. split; [exact Hf|].
  unfold file_ok, finalize_unknown, with_file. cbn [ds_file f_slots f_inited]. rewrite Hs, Hin.
  unfold file_inv in Hinv. destruct (f_inited (ds_file s)) as [ft|]; [|congruence].
  destruct Hinv as [Hft Hw]. exists ft. auto.
Qed.

Theorem decode_slots_wf : forall o g rd fuel h file' rd' g' q,
  Forall (fun b => b < 256) (rd_data rd) ->
  entry_Decode o g rd fuel = TDone (mk_dres None h (Some file') rd' g' q) ->
  exists ft, f_inited file' = Some ft /\ In ft valid_file_types /\
             slots_wf 0 (slots_of ft) (f_slots file') = true.
Proof.
  intros o g rd fuel h file' rd' g' q Hb Hd.
  destruct (decode_full_ok o g rd fuel _ Hb Hd eq_refl) as [(f & Hf & Hok) _].
  cbn [dr_file] in Hf. inversion Hf; subst f. exact Hok.
Qed.

(* C07 decode_wf: the returned File is a wf_file exactly when FileId.Type still
   names the container File.init created (otherwise: known finding second_file_id) *)
Theorem decode_wf_iff : forall o g rd fuel h file' rd' g' q,
  Forall (fun b => b < 256) (rd_data rd) ->
  entry_Decode o g rd fuel = TDone (mk_dres None h (Some file') rd' g' q) ->
  exists ft, f_inited file' = Some ft /\ wf_file file' = (ft =? file_type file').
Proof.
  intros o g rd fuel h file' rd' g' q Hb Hd.
  destruct (decode_slots_wf _ _ _ _ _ _ _ _ _ Hb Hd) as (ft & Hi & Hft & Hw).
  exists ft. split; [exact Hi|]. unfold wf_file. rewrite Hi.
  destruct (valid_entry ft Hft) as [cn ->]. rewrite Hw. apply andb_true_r.
Qed.

Theorem decode_wf : forall o g rd fuel h file' rd' g' q,
  Forall (fun b => b < 256) (rd_data rd) ->
  entry_Decode o g rd fuel = TDone (mk_dres None h (Some file') rd' g' q) ->
  forall ft, f_inited file' = Some ft -> file_type file' = ft -> wf_file file' = true.
Proof.
  intros o g rd fuel h file' rd' g' q Hb Hd ft Hi Ht.
  destruct (decode_wf_iff _ _ _ _ _ _ _ _ _ Hb Hd) as (ft0 & Hi0 & ->).
  rewrite Hi in Hi0. inversion Hi0; subst ft0. rewrite Ht. apply N.eqb_refl.
Qed.

(* C07 re-encoding: anything Decode accepts (no second file_id of another type)
   Encode takes without panic, and fails on it only with the UTF-8 error *)
Theorem decode_reencode : forall o g rd fuel h file' rd' g' q be,
  Forall (fun b => b < 256) (rd_data rd) ->
  entry_Decode o g rd fuel = TDone (mk_dres None h (Some file') rd' g' q) ->
  f_inited file' = Some (file_type file') ->
  (exists r, Encode.encode file' be = Encode.EOk r) \/ Encode.encode file' be = Encode.EErr Encode.EEString.
Proof.
  intros o g rd fuel h file' rd' g' q be Hb Hd Hi. apply encode_total.
  eapply decode_wf; [exact Hb|exact Hd|exact Hi|reflexivity].
Qed.

(* ---- DecodeChained: every File of a chain decoded without error *)
Theorem decode_chained_ok o fuel : forall files g rd i acc q res,
  bytes_lt (rd_data rd) -> Forall file_ok acc ->
  decode_chained o g rd fuel i files acc q = TDone res -> cr_err res = None -> Forall file_ok (cr_files res).
Proof.
  induction files as [|k IH]; intros g rd i acc q res Hb Hacc; cbn [decode_chained]; [discriminate|].
  destruct (decode o MFull g rd fuel) as [r| |] eqn:Ed; try discriminate.
  destruct (dr_err r) as [e|] eqn:Ee.
  - intros H He.
    assert (Hcase : res = mk_cres None acc (dr_rd r) (dr_g r) (q ++ dr_quirks r) \/ cr_err res = Some e).
    { destruct e; try (right; inversion H; reflexivity).
      destruct i; [right|left]; inversion H; reflexivity. }
    destruct Hcase as [->|Hc]; [exact Hacc|congruence].
  - destruct (decode_full_ok o g rd fuel r Hb Ed Ee) as [(f & Hf & Hok) Hb'].
    rewrite Hf. apply IH; [exact Hb'|]. apply Forall_app. split; [exact Hacc|]. constructor; [exact Hok|constructor].
Qed.

Theorem decode_chained_wf : forall o g rd fuel files rd' g' q,
  Forall (fun b => b < 256) (rd_data rd) ->
  entry_DecodeChained o g rd fuel = TDone (mk_cres None files rd' g' q) ->
  Forall (fun f => exists ft, f_inited f = Some ft /\ wf_file f = (ft =? file_type f)) files.
Proof.
  intros o g rd fuel files rd' g' q Hb Hd. unfold entry_DecodeChained in Hd.
  pose proof (decode_chained_ok o fuel _ g rd 0%nat [] [] _ Hb (Forall_nil _) Hd eq_refl) as H.
  cbn [cr_files] in H. eapply Forall_impl; [|exact H]. intros f (ft & Hi & Hft & Hw).
  exists ft. split; [exact Hi|]. unfold wf_file. rewrite Hi.
  destruct (valid_entry ft Hft) as [cn ->]. rewrite Hw. apply andb_true_r.
Qed.

(* ================================================================ 6. non-vacuity, and the side condition is needed *)
Lemma forallb_bytes (l : list N) : forallb (fun b => b <? 256) l = true -> Forall (fun b => b < 256) l.
Proof. intros H. rewrite forallb_forall in H. apply Forall_forall. intros x Hx. now apply N.ltb_lt, H. Qed.

(* the file of StreamDenoteDecode.ok_reader: Decode succeeds, FileId.Type names the container, the File is a wf_file *)
Example decode_wf_example :
  Forall (fun b => b < 256) (rd_data ok_reader) /\
  match entry_Decode no_opts g_init ok_reader 200 with
  | TDone r =>
      match dr_err r, dr_file r with
      | None, Some f => opt_n_eqb (f_inited f) (Some (file_type f)) && wf_file f
      | _, _ => false
      end
  | _ => false
  end = true.
Proof. split; [apply forallb_bytes; vm_compute; reflexivity|vm_compute; reflexivity]. Qed.

(* known finding second_file_id: an activity file_id followed by a settings file_id record.  Decode
   succeeds, the container is ActivityFile (4), FileId.Type reads 2: not a wf_file *)
Definition sfid_hdr : header := mk_header 12 16 2215 13 fit_dtype 0.
Definition sfid_reader : reader :=
  mk_reader (frame_bytes sfid_hdr [64; 0; 0; 0; 0; 1; 0; 1; 0;  0; 4;  0; 2]) [] TEOF false 0.

Theorem decode_wf_needs_single_file_id :
  Forall (fun b => b < 256) (rd_data sfid_reader) /\
  match entry_Decode no_opts g_init sfid_reader 100 with
  | TDone r =>
      match dr_err r, dr_file r with
      | None, Some f => opt_n_eqb (f_inited f) (Some 4) && (file_type f =? 2) && negb (wf_file f)
      | _, _ => false
      end
  | _ => false
  end = true.
Proof. split; [apply forallb_bytes; vm_compute; reflexivity|vm_compute; reflexivity]. Qed.
