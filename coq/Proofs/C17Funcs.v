(* Semantic tie of the C17 coordinate model to the current latlng.go: Gen/C17Funcs.v is the source file translated
   function by function on every check (harness/gen_c17funcs.go); the lemmas below prove that every translated
   function computes, on EVERY argument, what the hand-written model Model/LatLng.v (the one the C17 theorems are
   about) computes.  The proofs do not depend on the shape of the source: integer tests are decided by case analysis
   on the comparisons + lia, float tests by case analysis on the IEEE comparison results -- a behaviour-preserving
   rewrite (merged or reordered tests, helper functions, constants given names) keeps them, a changed bound, operator,
   sentinel, factor or format argument breaks them. *)
From Coq Require Import ZArith Bool String Lia.
From Flocq Require Import Core IEEE754.BinarySingleNaN IEEE754.Binary IEEE754.Bits.
From FitV Require Import Model.LatLng Model.FitTime Gen.C17Funcs.
Local Open Scope Z_scope.

Lemma lat_min_val : lat_min = -1073741824. Proof. reflexivity. Qed.
Lemma lat_max_val : lat_max = 1073741823. Proof. reflexivity. Qed.

(* every definition of the translated file (hint database go_src, filled by the translator: helper functions the
   source introduces are seen through as well) and of the model that the case analysis has to see through *)
Ltac open_defs :=
  repeat autounfold with go_src in *;
  cbv beta delta [new_latitude new_latitude_invalid lat_invalid lat_semis lat_semicircles
                  new_longitude new_longitude_invalid lng_invalid lng_semis lng_semicircles
                  new_latitude_degrees new_longitude_degrees lat_degrees lng_degrees lat_string lng_string
                  sint32_invalid string_invalid is_i32 min_int32 max_int32
                  deg_to_semi semi_to_deg go_pow_small pow_2_31] in *;
  rewrite ?lat_min_val, ?lat_max_val in *.

Ltac int_cases :=
  repeat match goal with
  | |- context [Z.eqb ?a ?b] => destruct (Z.eqb_spec a b)
  | |- context [Z.ltb ?a ?b] => destruct (Z.ltb_spec a b)
  | |- context [Z.leb ?a ?b] => destruct (Z.leb_spec a b)
  | |- context [Z.gtb ?a ?b] => destruct (Z.gtb_spec a b)
  | |- context [Z.geb ?a ?b] => destruct (Z.geb_spec a b)
  end.

Lemma b64_compare_swap x y :
  b64_compare y x = match b64_compare x y with Some c => Some (CompOpp c) | None => None end.
Proof. apply Bcompare_swap. Qed.

(* comparisons written with the constant on the left are turned round first, so that `180 <= d` and `d >= 180`
   are analysed as one comparison *)
Ltac float_cases :=
  cbv beta delta [b64_ge b64_le b64_lt b64_gt b64_eq];
  repeat match goal with
  | |- context [b64_compare (b64_of_Z ?c) ?d] =>
      lazymatch d with b64_of_Z _ => fail | _ => rewrite (b64_compare_swap d (b64_of_Z c)) end
  end;
  repeat match goal with
  | |- context [b64_compare ?a ?b] => let c := fresh "c" in destruct (b64_compare a b) as [c|]; [destruct c|]
  end.

Ltac decide_eq := intros; open_defs; int_cases; cbn [orb andb negb]; try reflexivity; try lia.
Ltac decide_feq := intros; open_defs; int_cases; try reflexivity; try lia; float_cases; cbn [orb andb negb]; reflexivity.

(* the package variables are the model's factors *)
Lemma go_degToSemiFactor_is : go_var_degToSemiFactor = deg_to_semi. Proof. reflexivity. Qed.
Lemma go_semiToDegFactor_is : go_var_semiToDegFactor = semi_to_deg. Proof. reflexivity. Qed.
Lemma go_format_float_lib x : go_format_float x 102 5 32 = format_f5_32 x. Proof. reflexivity. Qed.

(* ---- integer-only functions: all int32 arguments ---- *)
Lemma go_NewLatitude_is s : is_i32 s -> go_NewLatitude s = lat_semicircles (new_latitude s).
Proof. decide_eq. Qed.
Lemma go_NewLatitudeInvalid_is : go_NewLatitudeInvalid = lat_semicircles new_latitude_invalid.
Proof. decide_eq. Qed.
Lemma go_Latitude_Semicircles_is s : is_i32 s -> go_Latitude_Semicircles s = lat_semis (mk_lat s).
Proof. decide_eq. Qed.
Lemma go_Latitude_Invalid_is s : is_i32 s -> go_Latitude_Invalid s = lat_invalid (mk_lat s).
Proof. decide_eq. Qed.
Lemma go_NewLongitude_is s : is_i32 s -> go_NewLongitude s = lng_semicircles (new_longitude s).
Proof. decide_eq. Qed.
Lemma go_NewLongitudeInvalid_is : go_NewLongitudeInvalid = lng_semicircles new_longitude_invalid.
Proof. decide_eq. Qed.
Lemma go_Longitude_Semicircles_is s : is_i32 s -> go_Longitude_Semicircles s = lng_semis (mk_lng s).
Proof. decide_eq. Qed.
Lemma go_Longitude_Invalid_is s : is_i32 s -> go_Longitude_Invalid s = lng_invalid (mk_lng s).
Proof. decide_eq. Qed.

(* ---- functions with float64 arguments or results: all arguments (NaN and infinities included) ---- *)
Lemma go_NewLatitudeDegrees_is d : go_NewLatitudeDegrees d = lat_semicircles (new_latitude_degrees d).
Proof. decide_feq. Qed.
Lemma go_NewLongitudeDegrees_is d : go_NewLongitudeDegrees d = lng_semicircles (new_longitude_degrees d).
Proof. decide_feq. Qed.
Lemma go_Latitude_Degrees_is s : is_i32 s -> go_Latitude_Degrees s = lat_degrees (mk_lat s).
Proof. decide_feq. Qed.
Lemma go_Longitude_Degrees_is s : is_i32 s -> go_Longitude_Degrees s = lng_degrees (mk_lng s).
Proof. decide_feq. Qed.
Lemma go_Latitude_String_is s : is_i32 s -> go_Latitude_String s = lat_string (mk_lat s).
Proof. intros H. unfold go_Latitude_String, lat_string. rewrite ?(go_Latitude_Degrees_is s H), ?go_format_float_lib. decide_feq. Qed.
Lemma go_Longitude_String_is s : is_i32 s -> go_Longitude_String s = lng_string (mk_lng s).
Proof. intros H. unfold go_Longitude_String, lng_string. rewrite ?(go_Longitude_Degrees_is s H), ?go_format_float_lib. decide_feq. Qed.

(* ---- time.go: IsBaseTime, decodeDateTime, encodeTime on every argument.  The package variable timeBase
   (time.Date on constants) is evaluated to the model's time_base; operands of the wrapped int64 product may come in
   either order ---- *)
Ltac time_eq :=
  intros; repeat autounfold with go_src;
  repeat match goal with
  | |- context [go_time_date ?y ?m ?d ?h ?mi ?s ?ns ?l] =>
      let v := eval vm_compute in (go_time_date y m d h mi s ns l) in
      change (go_time_date y m d h mi s ns l) with v
  end;
  cbv beta zeta delta [is_base_time decode_date_time encode_time time_base second];
  first [ reflexivity | repeat (f_equal; try lia) ].

Lemma go_timeBase_is : go_var_timeBase = time_base.
Proof. vm_compute. reflexivity. Qed.
Lemma go_IsBaseTime_is t : go_IsBaseTime t = is_base_time t.
Proof. time_eq. Qed.
Lemma go_decodeDateTime_is dt : go_decodeDateTime dt = decode_date_time dt.
Proof. time_eq. Qed.
Lemma go_encodeTime_is t : go_encodeTime t = encode_time t.
Proof. time_eq. Qed.

Lemma time_translated :
  go_var_timeBase = time_base /\ (forall t, go_IsBaseTime t = is_base_time t) /\
  (forall dt, go_decodeDateTime dt = decode_date_time dt) /\ (forall t, go_encodeTime t = encode_time t).
Proof. exact (conj go_timeBase_is (conj go_IsBaseTime_is (conj go_decodeDateTime_is go_encodeTime_is))). Qed.

Lemma latlng_translated :
  (forall s, is_i32 s -> go_NewLatitude s = lat_semicircles (new_latitude s) /\
                         go_Latitude_Semicircles s = lat_semis (mk_lat s) /\
                         go_Latitude_Invalid s = lat_invalid (mk_lat s) /\
                         go_Latitude_Degrees s = lat_degrees (mk_lat s) /\
                         go_Latitude_String s = lat_string (mk_lat s) /\
                         go_NewLongitude s = lng_semicircles (new_longitude s) /\
                         go_Longitude_Semicircles s = lng_semis (mk_lng s) /\
                         go_Longitude_Invalid s = lng_invalid (mk_lng s) /\
                         go_Longitude_Degrees s = lng_degrees (mk_lng s) /\
                         go_Longitude_String s = lng_string (mk_lng s)) /\
  (forall d, go_NewLatitudeDegrees d = lat_semicircles (new_latitude_degrees d) /\
             go_NewLongitudeDegrees d = lng_semicircles (new_longitude_degrees d)) /\
  go_NewLatitudeInvalid = lat_semicircles new_latitude_invalid /\
  go_NewLongitudeInvalid = lng_semicircles new_longitude_invalid.
Proof.
  (* no [repeat split]: [split] also applies to an equation (eq has one constructor) and then asks the kernel to
     convert its two sides *)
  split; [|split; [|split]].
  - intros s H.
    exact (conj (go_NewLatitude_is s H) (conj (go_Latitude_Semicircles_is s H) (conj (go_Latitude_Invalid_is s H)
          (conj (go_Latitude_Degrees_is s H) (conj (go_Latitude_String_is s H) (conj (go_NewLongitude_is s H)
          (conj (go_Longitude_Semicircles_is s H) (conj (go_Longitude_Invalid_is s H)
          (conj (go_Longitude_Degrees_is s H) (go_Longitude_String_is s H)))))))))).
  - intros d. exact (conj (go_NewLatitudeDegrees_is d) (go_NewLongitudeDegrees_is d)).
  - exact go_NewLatitudeInvalid_is.
  - exact go_NewLongitudeInvalid_is.
Qed.
