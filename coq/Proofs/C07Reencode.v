(* C07 / C05: the provable core of "anything Decode accepts can be re-encoded,
   and one round trip is a fixpoint" and of encode_total.
     1. the decoder's field setters produce values of the struct field's Go type
     2. the encoder's field writers never panic on such values, and the only
        error they return is the UTF-8 one (known finding reencode_utf8)
     3. the comparator of the fixpoint clause is an equivalence relation
     4. integer scalars: parse (write v) = v *)
From Coq Require Import NArith ZArith List Bool Lia String.
From Coq Require Import ZifyN ZifyNat ZifyBool.
From FitV Require Import Model.Values Model.Bytes Model.Base Model.Profile Model.Reflect Model.Components Model.Route
  Model.Encode Model.Decode Spec.Grammar Spec.RoundTrip Spec.ProfileWf
  Proofs.Util Proofs.ProfileProofs Proofs.EncodeProofs Proofs.C07Fixpoint Proofs.C06Codec Proofs.IOSim
  Model.Crc Model.Header Model.IO Gen.ProfileData Gen.Consts Gen.RoutingData.
Import ListNotations.
Local Open Scope N_scope.
Ltac Zify.zify_post_hook ::= Z.div_mod_to_equations.

(* ================================================================ 1. decode_wf, field level *)

Lemma pow2_pos n : 0 < 2 ^ n.
Proof. apply N.neq_0_lt_0, N.pow_nonzero. discriminate. Qed.

Lemma pow2_double bits : 0 < bits -> 2 ^ bits = 2 * 2 ^ (bits - 1).
Proof.
  intros H. rewrite <- N.pow_succ_r'. f_equal. lia.
Qed.

Lemma wrap_u_lt bits x : wrap_u bits x < 2 ^ bits.
Proof. unfold wrap_u. apply N.mod_lt. apply N.pow_nonzero. discriminate. Qed.

Lemma of_signed_lt bits z : of_signed bits z < 2 ^ bits.
Proof.
  unfold of_signed. pose proof (pow2_pos bits) as H. set (M := 2 ^ bits) in *. lia.
Qed.

Lemma to_signed_range bits u : u < 2 ^ bits ->
  (- Z.of_N (2 ^ (bits - 1)) <= to_signed bits u < Z.of_N (2 ^ (bits - 1)))%Z.
Proof.
  intros Hu. unfold to_signed. destruct (N.eq_dec bits 0) as [->|Hb].
  - change (0 - 1) with 0. change (2 ^ 0) with 1 in *. assert (u = 0) as -> by lia. cbv. split; [discriminate|reflexivity].
  - rewrite (pow2_double bits) in * by lia. pose proof (pow2_pos (bits - 1)) as HP.
    set (P := 2 ^ (bits - 1)) in *. destruct (u <? P) eqn:E; lia.
Qed.

(* intN(x): holds for every width, bits = 0 included (2^(0-1) = 1 in N) *)
Lemma wrap_s_range bits z :
  (- Z.of_N (2 ^ (bits - 1)) <= wrap_s bits z < Z.of_N (2 ^ (bits - 1)))%Z.
Proof. unfold wrap_s. apply to_signed_range, of_signed_lt. Qed.

Lemma z_in_range lo hi z : (lo <= z <= hi)%Z -> z_in lo hi z = true.
Proof. intros H. unfold z_in. lia. Qed.

Lemma wrap_s_typed bits z : val_has_type (TI bits) (VI (wrap_s bits z)) = true.
Proof. cbn [val_has_type]. apply z_in_range. pose proof (wrap_s_range bits z). lia. Qed.

Lemma wrap_u_typed bits x : val_has_type (TU bits) (VU (wrap_u bits x)) = true.
Proof. cbn [val_has_type]. apply N.ltb_lt, wrap_u_lt. Qed.

(* ---- byte readers *)
Definition bytes_lt (l : list N) : Prop := Forall (fun b => b < 256) l.

Lemma b_at_lt l i : bytes_lt l -> b_at l i < 256.
Proof.
  intros H. unfold b_at. revert i. induction H as [|x r Hx Hr IH]; intros [|i]; cbn [nth]; try lia. apply IH.
Qed.

Lemma get16_lt be l : bytes_lt l -> get16 be l < 65536.
Proof.
  intros H. pose proof (b_at_lt l 0 H). pose proof (b_at_lt l 1 H).
  unfold get16, be16, le16. destruct be; lia.
Qed.

Lemma get32_lt be l : bytes_lt l -> get32 be l < 4294967296.
Proof.
  intros H. pose proof (b_at_lt l 0 H). pose proof (b_at_lt l 1 H). pose proof (b_at_lt l 2 H). pose proof (b_at_lt l 3 H).
  unfold get32, be32, le32. destruct be; lia.
Qed.

Lemma le_val_lt l : bytes_lt l -> le_val l < 256 ^ N.of_nat (List.length l).
Proof.
  induction 1 as [|x r Hx Hr IH]; [cbv; reflexivity|].
  cbn [le_val List.length]. rewrite Nat2N.inj_succ, N.pow_succ_r'. lia.
Qed.

Lemma be_fold_lt l : bytes_lt l -> forall acc k, acc < 256 ^ k ->
  fold_left (fun acc b => 256 * acc + b) l acc < 256 ^ (k + N.of_nat (List.length l)).
Proof.
  induction 1 as [|x r Hx Hr IH]; intros acc k Ha; cbn [fold_left List.length].
  - now rewrite N.add_0_r.
  - rewrite Nat2N.inj_succ. replace (k + N.succ (N.of_nat (List.length r))) with (N.succ k + N.of_nat (List.length r)) by lia.
    apply IH. rewrite N.pow_succ_r'. lia.
Qed.

Lemma get_val_lt be l : bytes_lt l -> get_val be l < 256 ^ N.of_nat (List.length l).
Proof.
  intros H. unfold get_val. destruct be; [|now apply le_val_lt].
  unfold be_val. apply (be_fold_lt l H 0 0). reflexivity.
Qed.

Lemma bytes_lt_firstn n l : bytes_lt l -> bytes_lt (firstn n l).
Proof. unfold bytes_lt. intros H. revert n. induction H; intros [|n]; cbn [firstn]; constructor; auto. Qed.

Lemma bytes_lt_skipn n l : bytes_lt l -> bytes_lt (skipn n l).
Proof. unfold bytes_lt. intros H. revert n. induction H; intros [|n]; cbn [skipn]; try constructor; auto. Qed.

Lemma pow256_le a b : a <= b -> 256 ^ a <= 2 ^ (8 * b).
Proof.
  intros H. change 256 with (2 ^ 8). rewrite <- N.pow_mul_r. apply N.pow_le_mono_r; lia.
Qed.

(* ---- the setters *)
(* the profile has no float fields (ProfileProofs.no_float_fields); for a float
   struct field the stored bit pattern fits when the Go width is at least the
   wire width.  True for every non-float type. *)
Fixpoint float_fits (bt : N) (ty : gotype) : bool :=
  match ty with
  | TF bits => if bt =? base_float32 then 32 <=? bits else if bt =? base_float64 then 64 <=? bits else true
  | TSlice t => float_fits bt t
  | _ => true
  end.

Lemma of_set_uint_typed ty x v : of_set (set_uint ty x) = FSet v -> val_has_type ty v = true.
Proof. destruct ty; cbn [set_uint of_set]; intros H; inversion H; subst. apply wrap_u_typed. Qed.

Lemma of_set_int_typed ty z v : of_set (set_int ty z) = FSet v -> val_has_type ty v = true.
Proof. destruct ty; cbn [set_int of_set]; intros H; inversion H; subst. apply wrap_s_typed. Qed.

Lemma of_set_float_typed ty n v : (forall bits, ty = TF bits -> n < 2 ^ bits) ->
  of_set (set_float ty n) = FSet v -> val_has_type ty v = true.
Proof.
  intros Hn. destruct ty; cbn [set_float of_set]; intros H; inversion H; subst.
  cbn [val_has_type]. apply N.ltb_lt. now apply Hn.
Qed.

Lemma forallb_bytes_lt l : bytes_lt l -> forallb (fun b => b <? 256) l = true.
Proof. induction 1; cbn [forallb]; [reflexivity|]. rewrite IHForall, andb_true_r. now apply N.ltb_lt. Qed.

Lemma of_set_string_typed ty s v : bytes_lt s -> of_set (set_string ty s) = FSet v -> val_has_type ty v = true.
Proof.
  intros Hs. destruct ty; cbn [set_string of_set]; intros H; inversion H; subst.
  cbn [val_has_type]. now apply forallb_bytes_lt.
Qed.

(* decode_wf at field level, scalars *)
Theorem parse_fit_field_typed : forall be fd buf ty v,
  Forall (fun b => b < 256) buf -> float_fits (fd_btype fd) ty = true ->
  parse_fit_field be fd buf ty = FSet v -> val_has_type ty v = true.
Proof.
  intros be fd buf ty v Hb Hf H. fold (bytes_lt buf) in Hb. unfold parse_fit_field in H.
  repeat match type of H with
         | (if ?c then _ else _) = _ => destruct c eqn:?
         end; try discriminate;
    try (eapply of_set_uint_typed; eassumption); try (eapply of_set_int_typed; eassumption).
  - (* float32 *)
    eapply of_set_float_typed; [|eassumption]. intros bits ->. cbn [float_fits] in Hf.
    match goal with E : (fd_btype fd =? base_float32) = true |- _ => rewrite E in Hf end.
    apply N.leb_le in Hf. pose proof (get32_lt be buf Hb) as Hg.
    eapply N.lt_le_trans; [exact Hg|]. change 4294967296 with (2 ^ 32). apply N.pow_le_mono_r; [discriminate|exact Hf].
  - (* float64 *)
    eapply of_set_float_typed; [|eassumption]. intros bits ->. cbn [float_fits] in Hf.
    match goal with E : (fd_btype fd =? base_float32) = false |- _ => rewrite E in Hf end.
    match goal with E : (fd_btype fd =? base_float64) = true |- _ => rewrite E in Hf end.
    apply N.leb_le in Hf.
    pose proof (get_val_lt be (firstn 8 buf) (bytes_lt_firstn 8 buf Hb)) as Hg.
    eapply N.lt_le_trans; [exact Hg|].
    eapply N.le_trans; [apply (pow256_le _ 8)|].
    + rewrite firstn_length. lia.
    + apply N.pow_le_mono_r; [discriminate|]. lia.
  - (* string *)
    eapply of_set_string_typed; [|eassumption]. now apply bytes_lt_firstn.
Qed.

(* the instance the profile needs: no float struct field *)
Fixpoint not_float (ty : gotype) : bool :=
  match ty with TF _ => false | TSlice t => not_float t | _ => true end.

Lemma not_float_fits bt ty : not_float ty = true -> float_fits bt ty = true.
Proof. induction ty; cbn [not_float float_fits]; intros H; try reflexivity; [discriminate|auto]. Qed.

(* ---- arrays *)
Lemma slice_typed t l : val_has_type (TSlice t) (VList l) = forallb (val_has_type t) l.
Proof. induction l as [|x r IH]; [reflexivity|]. cbn [val_has_type forallb] in *. now rewrite IH. Qed.

Lemma set_bytes_inv ty l v : set_bytes ty l = Some v -> ty = TSlice (TU 8) /\ v = VList (map VU l).
Proof.
  destruct ty as [| | | | | | |e|]; try discriminate. destruct e as [b| | | | | | | |]; try discriminate.
  destruct b as [|p]; try discriminate.
  destruct p as [p|p|]; try discriminate. destruct p as [p|p|]; try discriminate.
  destruct p as [p|p|]; try discriminate. destruct p as [p|p|]; try discriminate.
  cbn [set_bytes]. intros H; inversion H. auto.
Qed.

Lemma of_set_bytes_typed ty l v : bytes_lt l -> of_set (set_bytes ty l) = FSet v -> val_has_type ty v = true.
Proof.
  intros Hl H. destruct (set_bytes ty l) as [v'|] eqn:E; [|discriminate]. inversion H; subst v'.
  apply set_bytes_inv in E as [-> ->]. rewrite slice_typed. rewrite forallb_forall. intros x Hx.
  apply in_map_iff in Hx as (b & <- & Hb). cbn [val_has_type]. apply N.ltb_lt.
  unfold bytes_lt in Hl. rewrite Forall_forall in Hl. now apply Hl.
Qed.

Lemma of_set_uint_slice_typed ty l v : of_set (set_uint_slice ty l) = FSet v -> val_has_type ty v = true.
Proof.
  destruct ty as [| | | | | | |e|]; try discriminate.
  assert (Hnil : of_set (match l with [] => Some (VList []) | _ => None end) = FSet v -> val_has_type (TSlice e) v = true).
  { destruct l; [|discriminate]. intros H; inversion H. reflexivity. }
  destruct e; cbn [set_uint_slice]; try exact Hnil. cbn [of_set]. intros H; inversion H.
  rewrite slice_typed, forallb_forall. intros x Hx. apply in_map_iff in Hx as (b & <- & _). apply wrap_u_typed.
Qed.

Lemma of_set_int_slice_typed ty l v : of_set (set_int_slice ty l) = FSet v -> val_has_type ty v = true.
Proof.
  destruct ty as [| | | | | | |e|]; try discriminate.
  assert (Hnil : of_set (match l with [] => Some (VList []) | _ => None end) = FSet v -> val_has_type (TSlice e) v = true).
  { destruct l; [|discriminate]. intros H; inversion H. reflexivity. }
  destruct e; cbn [set_int_slice]; try exact Hnil. cbn [of_set]. intros H; inversion H.
  rewrite slice_typed, forallb_forall. intros x Hx. apply in_map_iff in Hx as (b & <- & _). apply wrap_s_typed.
Qed.

Lemma of_set_float_slice_typed ty l v :
  (forall bits, ty = TSlice (TF bits) -> Forall (fun n => n < 2 ^ bits) l) ->
  of_set (set_float_slice ty l) = FSet v -> val_has_type ty v = true.
Proof.
  intros Hl. destruct ty as [| | | | | | |e|]; try discriminate.
  assert (Hnil : of_set (match l with [] => Some (VList []) | _ => None end) = FSet v -> val_has_type (TSlice e) v = true).
  { destruct l; [|discriminate]. intros H; inversion H. reflexivity. }
  destruct e; cbn [set_float_slice]; try exact Hnil. cbn [of_set]. intros H; inversion H.
  specialize (Hl bits eq_refl). rewrite Forall_forall in Hl.
  rewrite slice_typed, forallb_forall. intros x Hx. apply in_map_iff in Hx as (b & <- & Hb).
  cbn [val_has_type]. apply N.ltb_lt. now apply Hl.
Qed.

Lemma of_set_strings_typed ty l v : Forall bytes_lt l -> of_set (set_strings ty l) = FSet v -> val_has_type ty v = true.
Proof.
  intros Hl. destruct ty as [| | | | | | |e|]; try discriminate. destruct e; try discriminate.
  cbn [set_strings of_set]. intros H; inversion H. destruct l as [|s r]; [reflexivity|].
  rewrite slice_typed, forallb_forall. intros x Hx. apply in_map_iff in Hx as (b & <- & Hb).
  cbn [val_has_type]. apply forallb_bytes_lt. rewrite Forall_forall in Hl. now apply Hl.
Qed.

Lemma Forall_app1 {A} (P : A -> Prop) l x : Forall P l -> P x -> Forall P (l ++ [x]).
Proof. intros H Hx. apply Forall_app. split; [assumption|]. constructor; [assumption|constructor]. Qed.

Lemma scan_strings_bytes buf dsize : bytes_lt buf -> forall fuel j k acc,
  Forall bytes_lt acc -> Forall bytes_lt (scan_strings fuel buf dsize j k acc).
Proof.
  intros Hb. induction fuel as [|f IH]; intros j k acc Ha; cbn [scan_strings]; [assumption|].
  destruct (b_at buf (j + k) =? 0).
  - destruct (Nat.eqb k 0); [assumption|].
    assert (Ha' : Forall bytes_lt (acc ++ [firstn k (skipn j buf)])).
    { apply Forall_app1; [assumption|]. now apply bytes_lt_firstn, bytes_lt_skipn. }
    destruct (Nat.leb dsize (j + k + 1)); [assumption|]. now apply IH.
  - destruct (Nat.leb dsize (j + S k)).
    + apply Forall_app1; [assumption|]. now apply bytes_lt_firstn, bytes_lt_skipn.
    + now apply IH.
Qed.

Lemma chunks_bytes k : forall fuel l, bytes_lt l ->
  Forall (fun c => bytes_lt c /\ (List.length c <= k)%nat) (chunks k fuel l).
Proof.
  induction fuel as [|f IH]; intros l Hl; cbn [chunks]; [constructor|].
  destruct l as [|b r]; [constructor|]. constructor.
  - split; [now apply bytes_lt_firstn|]. rewrite firstn_length. lia.
  - apply IH. now apply bytes_lt_skipn.
Qed.

Lemma Forall_map_impl {A B} (P : A -> Prop) (Q : B -> Prop) (f : A -> B) l :
  (forall x, P x -> Q (f x)) -> Forall P l -> Forall Q (map f l).
Proof. intros H. induction 1; cbn [map]; constructor; auto. Qed.

Lemma b_size_float64 bt : (bt =? base_float64) = true -> b_size bt = Some 8.
Proof. intros E. apply N.eqb_eq in E. subst. reflexivity. Qed.

(* decode_wf at field level, arrays *)
Theorem parse_fit_field_array_typed : forall be fd buf ty v,
  Forall (fun b => b < 256) buf -> float_fits (fd_btype fd) ty = true ->
  parse_fit_field_array be fd buf ty = FSet v -> val_has_type ty v = true.
Proof.
  intros be fd buf ty v Hb Hf H. fold (bytes_lt buf) in Hb. unfold parse_fit_field_array in H.
  destruct (fd_btype fd =? base_byte); [eapply of_set_bytes_typed; eassumption|].
  destruct ty as [| | | | | | |e|]; try discriminate.
  destruct (b_size (fd_btype fd)) as [[|p]|] eqn:Es; try discriminate.
  cbv zeta in H.
  set (elems := chunks _ _ _) in H.
  assert (Hel : Forall (fun c => bytes_lt c /\ (List.length c <= N.to_nat (N.pos p))%nat) elems).
  { apply chunks_bytes. now apply bytes_lt_firstn. }
  clearbody elems.
  repeat match type of H with
         | (if ?c then _ else _) = _ => destruct c eqn:?
         end; try discriminate;
    try (eapply of_set_uint_slice_typed; eassumption); try (eapply of_set_int_slice_typed; eassumption).
  - (* float32 *)
    eapply of_set_float_slice_typed; [|eassumption]. intros bits Et. inversion Et; subst e. cbn [float_fits] in Hf.
    match goal with E : (fd_btype fd =? base_float32) = true |- _ => rewrite E in Hf end.
    apply N.leb_le in Hf. eapply Forall_map_impl; [|exact Hel]. intros c [Hc _]. cbv beta.
    eapply N.lt_le_trans; [apply get32_lt; exact Hc|]. change 4294967296 with (2 ^ 32). apply N.pow_le_mono_r; [discriminate|exact Hf].
  - (* float64 *)
    eapply of_set_float_slice_typed; [|eassumption]. intros bits Et. inversion Et; subst e. cbn [float_fits] in Hf.
    match goal with E : (fd_btype fd =? base_float32) = false |- _ => rewrite E in Hf end.
    match goal with E : (fd_btype fd =? base_float64) = true |- _ => rewrite E in Hf; rewrite (b_size_float64 _ E) in Es end.
    apply N.leb_le in Hf. inversion Es; subst p.
    eapply Forall_map_impl; [|exact Hel]. intros c [Hc Hlen]. cbv beta.
    eapply N.lt_le_trans; [apply get_val_lt; exact Hc|].
    eapply N.le_trans; [apply (pow256_le _ 8); lia|]. apply N.pow_le_mono_r; [discriminate|]. lia.
  - (* strings *)
    eapply of_set_strings_typed; [|eassumption]. apply scan_strings_bytes; [assumption|constructor].
Qed.

(* ---- time stamps and coordinates *)
Lemma parse_time_stamp_shape s u kind num v s' :
  parse_time_stamp s u kind num = (Some v, s') -> exists sec zone, v = VTime sec 0 zone.
Proof.
  unfold parse_time_stamp, decode_date_time. intros H.
  repeat match type of H with
         | (if ?c then _ else _) = _ => destruct c
         end; inversion H; eauto.
Qed.

Theorem parse_time_stamp_typed s u kind num v s' :
  parse_time_stamp s u kind num = (Some v, s') -> val_has_type TTime v = true.
Proof. intros H. apply parse_time_stamp_shape in H as (sec & zone & ->). reflexivity. Qed.

Theorem set_time_typed s u kind num v s' ty v' :
  parse_time_stamp s u kind num = (Some v, s') -> of_set (set_time ty v) = FSet v' -> val_has_type ty v' = true.
Proof.
  intros H. destruct ty; cbn [set_time of_set]; intros H'; inversion H'; subst.
  eapply parse_time_stamp_typed; eassumption.
Qed.

Lemma to_signed32_range u : u < 4294967296 -> (-2147483648 <= to_signed 32 u <= 2147483647)%Z.
Proof.
  intros H. change 4294967296 with (2 ^ 32) in H. pose proof (to_signed_range 32 u H) as R.
  change (Z.of_N (2 ^ (32 - 1))) with 2147483648%Z in R. lia.
Qed.

Theorem new_latitude_typed u : u < 4294967296 -> val_has_type TLat (new_latitude (to_signed 32 u)) = true.
Proof.
  intros H. pose proof (to_signed32_range u H) as R. unfold new_latitude.
  destruct (_ || _); cbn [val_has_type]; apply z_in_range; lia.
Qed.

Theorem new_longitude_typed u : u < 4294967296 -> val_has_type TLng (new_longitude (to_signed 32 u)) = true.
Proof.
  intros H. pose proof (to_signed32_range u H) as R. unfold new_longitude.
  cbn [val_has_type]. apply z_in_range; lia.
Qed.

(* the 4 bytes the time / coordinate kinds are read from are bytes *)
Lemma bytes_lt_repeat b n : b < 256 -> bytes_lt (repeat b n).
Proof. intros H. induction n; cbn [repeat]; constructor; auto. Qed.

Lemma extend4_bytes be sg buf : bytes_lt buf -> bytes_lt (extend4 be sg buf).
Proof.
  intros H. unfold extend4. destruct (Nat.leb 4 _); [now apply bytes_lt_firstn|].
  assert (Hf : forall c : bool, (if c then 255 else 0) < 256) by (intros []; reflexivity).
  destruct be; apply Forall_app; (split; [|]); try assumption; apply bytes_lt_repeat, Hf.
Qed.

Theorem set_lat_typed be sg buf ty v : bytes_lt buf ->
  of_set (set_lat ty (new_latitude (to_signed 32 (get32 be (extend4 be sg buf))))) = FSet v -> val_has_type ty v = true.
Proof.
  intros Hb. destruct ty; cbn [set_lat of_set]; intros H; inversion H.
  apply new_latitude_typed, get32_lt, extend4_bytes, Hb.
Qed.

Theorem set_lng_typed be sg buf ty v : bytes_lt buf ->
  of_set (set_lng ty (new_longitude (to_signed 32 (get32 be (extend4 be sg buf))))) = FSet v -> val_has_type ty v = true.
Proof.
  intros Hb. destruct ty; cbn [set_lng of_set]; intros H; inversion H.
  apply new_longitude_typed, get32_lt, extend4_bytes, Hb.
Qed.

(* ================================================================ 2. encode_total, field level *)

(* the Go types binary.Write accepts *)
Fixpoint bw_able (ty : gotype) : bool :=
  match ty with
  | TU _ | TI _ | TF _ | TLat | TLng => true
  | TSlice t => bw_able t
  | TStr | TTime | TOther => false
  end.

Definition is_ok {A} (r : eres A) : Prop := exists bs, r = EOk bs.

Lemma bw_list_ok be t l :
  Forall (fun x => is_ok (bw be t x)) l -> is_ok (bw be (TSlice t) (VList l)).
Proof.
  induction 1 as [|x r [a Hx] Hr [b IH]]; cbn [bw] in *; [now exists []|].
  rewrite Hx, IH. cbn [ebind]. now eexists.
Qed.

(* binary.Write succeeds on every well-typed value of a type it accepts *)
Theorem bw_typed_ok : forall be v ty,
  val_has_type ty v = true -> bw_able ty = true -> exists bs, bw be ty v = EOk bs.
Proof.
  intros be. induction v using goval_ind2; intros ty Ht Ha; destruct ty; try discriminate;
    try (cbn [bw]; eexists; reflexivity).
  cbn [bw_able] in Ha. rewrite slice_typed in Ht. rewrite forallb_forall in Ht.
  apply bw_list_ok. rewrite Forall_forall in *. intros x Hx. apply H; auto.
Qed.

(* ... and on the others it returns the "invalid type" error, never a panic *)
Definition ok_or {A} (e : eerr) (r : eres A) : Prop := is_ok r \/ r = EErr e.

Lemma bw_list_ok_or be t l :
  Forall (fun x => ok_or EEWrite (bw be t x)) l -> ok_or EEWrite (bw be (TSlice t) (VList l)).
Proof.
  induction 1 as [|x r Hx Hr IH]; cbn [bw] in *; [left; now exists []|].
  destruct Hx as [[a Hx]|Hx]; rewrite Hx; cbn [ebind]; [|now right].
  destruct IH as [[b IH]|IH]; rewrite IH; cbn [ebind]; [left; now eexists|now right].
Qed.

Theorem bw_typed_cases : forall be v ty,
  val_has_type ty v = true -> (exists bs, bw be ty v = EOk bs) \/ bw be ty v = EErr EEWrite.
Proof.
  intros be. induction v using goval_ind2; intros ty Ht; destruct ty; try discriminate;
    try (left; cbn [bw]; eexists; reflexivity); try (right; reflexivity).
  rewrite slice_typed in Ht. rewrite forallb_forall in Ht.
  apply bw_list_ok_or. rewrite Forall_forall in *. intros x Hx. apply H; auto.
Qed.

Theorem bw_no_panic be ty v : val_has_type ty v = true -> forall w, bw be ty v <> EPanic w.
Proof. intros Ht w. destruct (bw_typed_cases be v ty Ht) as [[bs E]|E]; rewrite E; discriminate. Qed.

Theorem bw_str_time_err be ty v : val_has_type ty v = true -> (ty = TStr \/ ty = TTime) -> bw be ty v = EErr EEWrite.
Proof. intros Ht [-> | ->]; destruct v; try discriminate; reflexivity. Qed.

(* ---- encodeValue *)
(* the Go type of the struct field is the one the profile kind denotes *)
Definition kind_type_ok (pf : pfield) (ty : gotype) : bool :=
  let t := pf_t pf in
  let k := fit_kind t in
  if (k =? kind_timeutc) || (k =? kind_timelocal) then match ty with TTime => true | _ => false end
  else if k =? kind_lat then match ty with TLat => true | _ => false end
  else if k =? kind_lng then match ty with TLng => true | _ => false end
  else if k =? kind_native then
    if fit_base t =? base_string then match ty with TStr => 0 <? pf_length pf | _ => false end
    else match ty with TU _ | TI _ | TF _ => true | _ => false end
  else false.

Lemma N_lt_neq0 size : 0 < size -> (size =? 0) = false.
Proof. intros H. apply N.eqb_neq. lia. Qed.

Lemma encode_string_cases s size : 0 < size -> ok_or EEString (encode_string s size).
Proof.
  intros H. unfold encode_string. rewrite (N_lt_neq0 size H).
  destruct (utf8_valid _); [left; now eexists|now right].
Qed.

Theorem encode_value_cases be pf ty v :
  val_has_type ty v = true -> kind_type_ok pf ty = true ->
  (exists bs, encode_value be pf ty v = EOk bs) \/ (ty = TStr /\ encode_value be pf ty v = EErr EEString).
Proof.
  intros Ht Hk. unfold kind_type_ok in Hk. unfold encode_value. cbv zeta in *.
  destruct (fit_kind (pf_t pf) =? kind_timeutc) eqn:E1.
  { cbn [orb] in Hk. destruct ty; try discriminate. destruct v; try discriminate. left. now eexists. }
  destruct (fit_kind (pf_t pf) =? kind_timelocal) eqn:E2.
  { cbn [orb] in Hk. destruct ty; try discriminate. destruct v; try discriminate. left. now eexists. }
  cbn [orb] in Hk.
  destruct (fit_kind (pf_t pf) =? kind_lat) eqn:E3.
  { destruct ty; try discriminate. destruct v; try discriminate. left. now eexists. }
  destruct (fit_kind (pf_t pf) =? kind_lng) eqn:E4.
  { destruct ty; try discriminate. destruct v; try discriminate. left. now eexists. }
  destruct (fit_kind (pf_t pf) =? kind_native) eqn:E5; [|discriminate].
  destruct (fit_base (pf_t pf) =? base_string) eqn:E6.
  - destruct ty; try discriminate. destruct v; try discriminate.
    destruct (encode_string_cases s (pf_length pf)) as [H|H]; [now apply N.ltb_lt|now left|right; now split].
  - left. apply bw_typed_ok; [assumption|]. destruct ty; try discriminate; reflexivity.
Qed.

Theorem encode_value_no_panic : forall be pf ty v,
  val_has_type ty v = true -> kind_type_ok pf ty = true -> forall w, encode_value be pf ty v <> EPanic w.
Proof. intros be pf ty v Ht Hk w. destruct (encode_value_cases be pf ty v Ht Hk) as [[bs E]|[_ E]]; rewrite E; discriminate. Qed.

Theorem encode_value_err_only_string : forall be pf ty v e,
  val_has_type ty v = true -> kind_type_ok pf ty = true -> encode_value be pf ty v = EErr e -> e = EEString.
Proof.
  intros be pf ty v e Ht Hk He. destruct (encode_value_cases be pf ty v Ht Hk) as [[bs E]|[_ E]]; rewrite E in He; [discriminate|].
  now inversion He.
Qed.

(* everything but a string always encodes *)
Theorem encode_value_nonstring_ok be pf ty v :
  val_has_type ty v = true -> kind_type_ok pf ty = true -> ty <> TStr -> exists bs, encode_value be pf ty v = EOk bs.
Proof.
  intros Ht Hk Hn. destruct (encode_value_cases be pf ty v Ht Hk) as [H|[E _]]; [exact H|contradiction].
Qed.

(* ---- writeField *)
(* what writeField needs from a profile entry and the Go type of its struct
   field: scalars as encodeValue; arrays over a known non-string base type whose
   invalid value is defined and typed (the padding) *)
Definition pfield_enc_ok (pf : pfield) (ty : gotype) : bool :=
  let t := pf_t pf in
  if negb (fit_array t) then kind_type_ok pf ty
  else
    negb (fit_base t =? base_string) &&
    match b_known (fit_base t) with Some true => true | _ => false end &&
    match ty with TSlice et => kind_type_ok pf et | _ => false end &&
    match b_invalid (fit_base t), invalid_type (fit_base t) with
    | Some iv, Some ity => val_has_type ity iv && kind_type_ok pf ity
    | _, _ => false
    end.

Lemma econcat_all_ok l : Forall is_ok l -> is_ok (econcat l).
Proof.
  induction 1 as [|r l [a Hr] Hl [b IH]]; cbn [econcat]; [now exists []|].
  rewrite Hr, IH. cbn [ebind]. now eexists.
Qed.

Lemma kind_type_ok_str pf : kind_type_ok pf TStr = true -> (fit_base (pf_t pf) =? base_string) = true.
Proof.
  unfold kind_type_ok. cbv zeta.
  repeat match goal with |- (if ?c then _ else _) = _ -> _ => destruct c end; try discriminate. reflexivity.
Qed.

Lemma slice_typed_inv t v : val_has_type (TSlice t) v = true ->
  exists l, (match v with VList l => Some l | VNil => Some [] | _ => None end) = Some l /\ forallb (val_has_type t) l = true.
Proof.
  destruct v; try discriminate; intros H.
  - now exists [].
  - exists l. split; [reflexivity|]. now rewrite <- slice_typed.
Qed.

Lemma forallb_firstn {A} (p : A -> bool) n l : forallb p l = true -> forallb p (firstn n l) = true.
Proof.
  revert n. induction l as [|x r IH]; intros [|n] H; cbn [firstn forallb] in *; try reflexivity.
  apply andb_true_iff in H as [H1 H2]. now rewrite H1, IH.
Qed.

Theorem write_field_array_ok be pf ty v :
  fit_array (pf_t pf) = true -> val_has_type ty v = true -> pfield_enc_ok pf ty = true ->
  exists bs, write_field be pf ty v = EOk bs.
Proof.
  intros Ha Ht Hp. unfold pfield_enc_ok in Hp. unfold write_field. cbv zeta in *. rewrite Ha in *. cbn [negb] in *.
  apply andb_true_iff in Hp as [Hp Hinv]. apply andb_true_iff in Hp as [Hp Het]. apply andb_true_iff in Hp as [Hs Hkn].
  apply negb_true_iff in Hs. rewrite Hs.
  destruct (b_known (fit_base (pf_t pf))) as [[|]|]; try discriminate.
  destruct ty as [| | | | | | |et|]; try discriminate.
  destruct (slice_typed_inv et v Ht) as (l & -> & Hl).
  assert (Hne : forall t, kind_type_ok pf t = true -> t <> TStr).
  { intros t Hk ->. apply kind_type_ok_str in Hk. congruence. }
  apply econcat_all_ok. apply Forall_app. split.
  - cbn [elem_type]. apply Forall_forall. intros r Hr. apply in_map_iff in Hr as (x & <- & Hx).
    apply encode_value_nonstring_ok; [|assumption|now apply Hne].
    pose proof (forallb_firstn (val_has_type et) (N.to_nat (if pf_length pf <? N.of_nat (List.length l) mod 256 then pf_length pf else N.of_nat (List.length l) mod 256)) l Hl) as Hf.
    rewrite forallb_forall in Hf. now apply Hf.
  - destruct (N.to_nat _) as [|k]; [constructor|]. cbn [negb].
    destruct (b_invalid _) as [iv|]; [|discriminate]. destruct (invalid_type _) as [ity|]; [|discriminate].
    apply andb_true_iff in Hinv as [Hi1 Hi2].
    apply Forall_repeat. apply encode_value_nonstring_ok; [assumption|assumption|now apply Hne].
Qed.

Theorem write_field_cases be pf ty v :
  val_has_type ty v = true -> pfield_enc_ok pf ty = true ->
  (exists bs, write_field be pf ty v = EOk bs) \/ (ty = TStr /\ write_field be pf ty v = EErr EEString).
Proof.
  intros Ht Hp. destruct (fit_array (pf_t pf)) eqn:Ha.
  - left. now apply write_field_array_ok.
  - unfold pfield_enc_ok in Hp. unfold write_field. cbv zeta in *. rewrite Ha in *. cbn [negb] in *.
    now apply encode_value_cases.
Qed.

Theorem write_field_no_panic : forall be pf ty v,
  val_has_type ty v = true -> pfield_enc_ok pf ty = true -> forall w, write_field be pf ty v <> EPanic w.
Proof. intros be pf ty v Ht Hp w. destruct (write_field_cases be pf ty v Ht Hp) as [[bs E]|[_ E]]; rewrite E; discriminate. Qed.

Theorem write_field_err_only_string : forall be pf ty v e,
  val_has_type ty v = true -> pfield_enc_ok pf ty = true -> write_field be pf ty v = EErr e -> e = EEString /\ ty = TStr.
Proof.
  intros be pf ty v e Ht Hp He. destruct (write_field_cases be pf ty v Ht Hp) as [[bs E]|[Es E]]; rewrite E in He; [discriminate|].
  inversion He. now split.
Qed.

(* arrays of strings: the encoder refuses them outright *)
Definition is_string_array (pf : pfield) : bool := fit_array (pf_t pf) && (fit_base (pf_t pf) =? base_string).

Theorem write_field_string_array be pf ty v : is_string_array pf = true -> write_field be pf ty v = EErr EEStringArray.
Proof.
  unfold is_string_array. intros H. apply andb_true_iff in H as [Ha Hs].
  unfold write_field. cbv zeta. now rewrite Ha, Hs.
Qed.

(* ---- the compiled-in profile *)
Definition entry_enc_ok (m : msgdesc) (e : N * pfield) : bool :=
  match field_type (md_num m) (pf_sindex (snd e)) with
  | Some ty => pfield_enc_ok (snd e) ty || (is_string_array (snd e) && gotype_eqb ty (TSlice TStr))
  | None => false
  end.

(* every entry of every message is encodable in the sense of pfield_enc_ok, or is an array of strings *)
Theorem profile_enc_ok : forallb (fun m => forallb (entry_enc_ok m) (md_entries m)) messages = true.
Proof. vm_compute. reflexivity. Qed.

(* ... and the arrays of strings are exactly these four (message number, field number) *)
Theorem profile_string_arrays :
  flat_map (fun m => map (fun e => (md_num m, fst e)) (filter (fun e => is_string_array (snd e)) (md_entries m))) messages
  = [(201, 5); (206, 3); (206, 8); (264, 2)].
Proof. vm_compute. reflexivity. Qed.

(* without the exception the check is false: pfield_enc_ok fails exactly on the same four entries *)
Theorem profile_enc_ok_exceptions :
  flat_map (fun m => map (fun e => (md_num m, fst e))
     (filter (fun e => negb match field_type (md_num m) (pf_sindex (snd e)) with
                            | Some ty => pfield_enc_ok (snd e) ty | None => false end) (md_entries m))) messages
  = [(201, 5); (206, 3); (206, 8); (264, 2)].
Proof. vm_compute. reflexivity. Qed.

(* ================================================================ 3. the comparator is an equivalence *)

(* goval_eqb decides equality (ProfileProofs.goval_eqb_eq, C07Fixpoint.goval_eqb_refl) *)
Lemma goval_eqb_iff a b : goval_eqb a b = true <-> a = b.
Proof. split; [apply goval_eqb_eq|intros ->; apply goval_eqb_refl]. Qed.

Theorem goval_eqb_sym : forall a b, goval_eqb a b = goval_eqb b a.
Proof.
  intros a b. destruct (goval_eqb a b) eqn:E1; destruct (goval_eqb b a) eqn:E2; try reflexivity.
  - apply goval_eqb_eq in E1. subst. now rewrite goval_eqb_refl in E2.
  - apply goval_eqb_eq in E2. subst. now rewrite goval_eqb_refl in E1.
Qed.

Theorem goval_eqb_trans : forall a b c, goval_eqb a b = true -> goval_eqb b c = true -> goval_eqb a c = true.
Proof. intros a b c H1 H2. apply goval_eqb_eq in H1. subst. exact H2. Qed.

(* forall2b over a symmetric / transitive relation *)
Lemma forall2b_sym {A} (p : A -> A -> bool) : (forall x y, p x y = p y x) ->
  forall a b, forall2b p a b = forall2b p b a.
Proof.
  intros H. induction a as [|x a IH]; intros [|y b]; cbn [forall2b]; try reflexivity. now rewrite H, IH.
Qed.

Lemma forall2b_trans {A} (p : A -> A -> bool) : (forall x y z, p x y = true -> p y z = true -> p x z = true) ->
  forall a b c, forall2b p a b = true -> forall2b p b c = true -> forall2b p a c = true.
Proof.
  intros H. induction a as [|x a IH]; intros [|y b] [|z c]; cbn [forall2b]; try discriminate; try reflexivity.
  intros H1 H2. apply andb_true_iff in H1 as [H1 H1']. apply andb_true_iff in H2 as [H2 H2'].
  rewrite (H _ _ _ H1 H2). now apply (IH b c).
Qed.

Theorem msg_eqb_sym : forall a b, msg_eqb a b = msg_eqb b a.
Proof.
  intros a b. unfold msg_eqb. rewrite (N.eqb_sym (m_num a)). f_equal. apply forall2b_sym, goval_eqb_sym.
Qed.

Theorem msg_eqb_trans : forall a b c, msg_eqb a b = true -> msg_eqb b c = true -> msg_eqb a c = true.
Proof.
  unfold msg_eqb. intros a b c H1 H2.
  apply andb_true_iff in H1 as [H1 H1']. apply andb_true_iff in H2 as [H2 H2'].
  apply N.eqb_eq in H1, H2. rewrite H1, H2, N.eqb_refl. cbn [andb].
  eapply forall2b_trans; [apply goval_eqb_trans|eassumption|eassumption].
Qed.

Lemma forall2b_goval_eq a b : forall2b goval_eqb a b = true -> a = b.
Proof.
  revert b. induction a as [|x a IH]; intros [|y b]; cbn [forall2b]; try discriminate; [reflexivity|].
  intros H. apply andb_true_iff in H as [H1 H2]. apply goval_eqb_eq in H1. f_equal; auto.
Qed.

(* msg_eqb decides equality of messages *)
Theorem msg_eqb_eq a b : msg_eqb a b = true -> a = b.
Proof.
  unfold msg_eqb. intros H. apply andb_true_iff in H as [H1 H2]. apply N.eqb_eq in H1. apply forall2b_goval_eq in H2.
  destruct a as [na fa], b as [nb fb]. cbn [m_num m_fields] in *. now subst.
Qed.

Theorem cmp7_refl : forall i m, cmp7 i m m = true.
Proof. intros. unfold cmp7. apply msg_eqb_refl. Qed.

Theorem cmp7_sym : forall i m m', cmp7 i m m' = cmp7 i m' m.
Proof. intros. unfold cmp7. apply msg_eqb_sym. Qed.

Theorem cmp7_trans : forall i a b c, cmp7 i a b = true -> cmp7 i b c = true -> cmp7 i a c = true.
Proof. unfold cmp7. intros i a b c. apply msg_eqb_trans. Qed.

(* what cmp7 says: equal normal forms *)
Theorem cmp7_iff i m m' : cmp7 i m m' = true <-> norm_msg (trunc_msg m) = norm_msg (trunc_msg m').
Proof. unfold cmp7. split; [apply msg_eqb_eq|intros ->; apply msg_eqb_refl]. Qed.

Lemma slots_eq_refl cmp : (forall i m, cmp i m m = true) -> forall a i, slots_eq cmp i a a = true.
Proof.
  intros H. induction a as [|s a IH]; intros i; cbn [slots_eq]; [reflexivity|].
  rewrite IH, andb_true_r. destruct (hidden_slot i); [reflexivity|]. apply forall2b_refl, H.
Qed.

Lemma slots_eq_sym cmp : (forall i m m', cmp i m m' = cmp i m' m) ->
  forall a b i, slots_eq cmp i a b = slots_eq cmp i b a.
Proof.
  intros H. induction a as [|s a IH]; intros [|s' b] i; cbn [slots_eq]; try reflexivity.
  rewrite IH. f_equal. destruct (hidden_slot i); [reflexivity|]. apply forall2b_sym, H.
Qed.

Lemma slots_eq_trans cmp : (forall i x y z, cmp i x y = true -> cmp i y z = true -> cmp i x z = true) ->
  forall a b c i, slots_eq cmp i a b = true -> slots_eq cmp i b c = true -> slots_eq cmp i a c = true.
Proof.
  intros H. induction a as [|s a IH]; intros [|s' b] [|s'' c] i; cbn [slots_eq]; try discriminate; try reflexivity.
  intros H1 H2. apply andb_true_iff in H1 as [H1 H1']. apply andb_true_iff in H2 as [H2 H2'].
  rewrite (IH b c (S i) H1' H2'), andb_true_r.
  destruct (hidden_slot i); [reflexivity|]. eapply forall2b_trans; [apply H|eassumption|eassumption].
Qed.

Lemma opt_n_eqb_refl a : opt_n_eqb a a = true.
Proof. destruct a; cbn [opt_n_eqb]; [apply N.eqb_refl|reflexivity]. Qed.

Lemma opt_n_eqb_sym a b : opt_n_eqb a b = opt_n_eqb b a.
Proof. destruct a, b; cbn [opt_n_eqb]; try reflexivity. apply N.eqb_sym. Qed.

Lemma opt_n_eqb_trans a b c : opt_n_eqb a b = true -> opt_n_eqb b c = true -> opt_n_eqb a c = true.
Proof.
  destruct a, b, c; cbn [opt_n_eqb]; try discriminate; try reflexivity.
  intros H1 H2. apply N.eqb_eq in H1, H2. subst. apply N.eqb_refl.
Qed.

Theorem content_eq7_refl : forall f, content_eq7 f f = true.
Proof. intros f. unfold content_eq7. rewrite opt_n_eqb_refl. cbn [andb]. apply slots_eq_refl, cmp7_refl. Qed.

Theorem content_eq7_sym : forall f1 f2, content_eq7 f1 f2 = content_eq7 f2 f1.
Proof. intros. unfold content_eq7. rewrite opt_n_eqb_sym. f_equal. apply slots_eq_sym, cmp7_sym. Qed.

Theorem content_eq7_trans : forall f1 f2 f3, content_eq7 f1 f2 = true -> content_eq7 f2 f3 = true -> content_eq7 f1 f3 = true.
Proof.
  unfold content_eq7. intros f1 f2 f3 H1 H2.
  apply andb_true_iff in H1 as [H1 H1']. apply andb_true_iff in H2 as [H2 H2'].
  rewrite (opt_n_eqb_trans _ _ _ H1 H2). cbn [andb]. eapply slots_eq_trans; [apply cmp7_trans|eassumption|eassumption].
Qed.

(* ================================================================ 4. integer scalars: parse (write v) = v *)

Lemma signed_roundtrip bits z : 0 < bits ->
  (- Z.of_N (2 ^ (bits - 1)) <= z < Z.of_N (2 ^ (bits - 1)))%Z -> to_signed bits (of_signed bits z) = z.
Proof.
  intros Hb Hz. unfold to_signed, of_signed. rewrite (pow2_double bits Hb).
  pose proof (pow2_pos (bits - 1)) as HP. set (P := 2 ^ (bits - 1)) in *.
  assert (Hm : (z mod Z.of_N (2 * P))%Z = if (z <? 0)%Z then (z + Z.of_N (2 * P))%Z else z).
  { destruct (z <? 0)%Z eqn:Ez.
    - rewrite <- (Z_mod_plus_full z 1 (Z.of_N (2 * P))). rewrite Z.mul_1_l. apply Z.mod_small. lia.
    - apply Z.mod_small. lia. }
  rewrite Hm. clear Hm. destruct (z <? 0)%Z eqn:Ez.
  - destruct (Z.to_N (z + Z.of_N (2 * P)) <? P) eqn:E; lia.
  - destruct (Z.to_N z <? P) eqn:E; lia.
Qed.

Lemma wrap_s_id bits z : 0 < bits ->
  (- Z.of_N (2 ^ (bits - 1)) <= z < Z.of_N (2 ^ (bits - 1)))%Z -> wrap_s bits z = z.
Proof. intros. unfold wrap_s. now apply signed_roundtrip. Qed.

Lemma wrap_u_id bits n : n < 2 ^ bits -> wrap_u bits n = n.
Proof. intros H. unfold wrap_u. now apply N.mod_small. Qed.

(* parseFitField on each integer base type *)
Lemma pff_u8like be fd buf ty : is_u8like (fd_btype fd) = true ->
  parse_fit_field be fd buf ty = of_set (set_uint ty (b_at buf 0)).
Proof. intros H. unfold parse_fit_field. now rewrite H. Qed.

Lemma pff_at be n s bt buf ty : parse_fit_field be (mk_fdef n s bt) buf ty = parse_fit_field be (mk_fdef 0 0 bt) buf ty.
Proof. reflexivity. Qed.

Lemma pff_bt be fd buf ty bt : fd_btype fd = bt -> parse_fit_field be fd buf ty = parse_fit_field be (mk_fdef 0 0 bt) buf ty.
Proof. intros <-. destruct fd. reflexivity. Qed.

Lemma pff_sint8 be buf ty : parse_fit_field be (mk_fdef 0 0 base_sint8) buf ty = of_set (set_int ty (to_signed 8 (b_at buf 0))).
Proof. reflexivity. Qed.
Lemma pff_sint16 be buf ty : parse_fit_field be (mk_fdef 0 0 base_sint16) buf ty =
  if Nat.ltb (List.length buf) 2 then FPanic 5 else of_set (set_int ty (to_signed 16 (get16 be buf))).
Proof. reflexivity. Qed.
Lemma pff_uint16 be buf ty : parse_fit_field be (mk_fdef 0 0 base_uint16) buf ty =
  if Nat.ltb (List.length buf) 2 then FPanic 5 else of_set (set_uint ty (get16 be buf)).
Proof. reflexivity. Qed.
Lemma pff_uint16z be buf ty : parse_fit_field be (mk_fdef 0 0 base_uint16z) buf ty =
  if Nat.ltb (List.length buf) 2 then FPanic 5 else of_set (set_uint ty (get16 be buf)).
Proof. reflexivity. Qed.
Lemma pff_sint32 be buf ty : parse_fit_field be (mk_fdef 0 0 base_sint32) buf ty =
  if Nat.ltb (List.length buf) 4 then FPanic 5 else of_set (set_int ty (to_signed 32 (get32 be buf))).
Proof. reflexivity. Qed.
Lemma pff_uint32 be buf ty : parse_fit_field be (mk_fdef 0 0 base_uint32) buf ty =
  if Nat.ltb (List.length buf) 4 then FPanic 5 else of_set (set_uint ty (get32 be buf)).
Proof. reflexivity. Qed.
Lemma pff_uint32z be buf ty : parse_fit_field be (mk_fdef 0 0 base_uint32z) buf ty =
  if Nat.ltb (List.length buf) 4 then FPanic 5 else of_set (set_uint ty (get32 be buf)).
Proof. reflexivity. Qed.

Lemma z_in_inv bits z : z_in (- Z.of_N (2 ^ (bits - 1))) (Z.of_N (2 ^ (bits - 1)) - 1) z = true ->
  (- Z.of_N (2 ^ (bits - 1)) <= z < Z.of_N (2 ^ (bits - 1)))%Z.
Proof. unfold z_in. set (P := 2 ^ (bits - 1)). lia. Qed.

Lemma rt_u8 be n : n < 2 ^ 8 -> wrap_u 8 (b_at (put_int be 1 (n mod 2 ^ 8)) 0) = n.
Proof. intros H. rewrite b_at_put_int1. unfold wrap_u. change (2 ^ 8) with 256 in *. lia. Qed.

Lemma rt_u16 be n : n < 2 ^ 16 -> wrap_u 16 (get16 be (put_int be 2 (n mod 2 ^ 16))) = n.
Proof. intros H. rewrite get16_put_int. unfold wrap_u. change (2 ^ 16) with 65536 in *. lia. Qed.

Lemma rt_u32 be n : n < 2 ^ 32 -> wrap_u 32 (get32 be (put_int be 4 (n mod 2 ^ 32))) = n.
Proof. intros H. rewrite get32_put_int. unfold wrap_u. change (2 ^ 32) with 4294967296 in *. lia. Qed.

Lemma rt_s8 be z : (- Z.of_N (2 ^ (8 - 1)) <= z < Z.of_N (2 ^ (8 - 1)))%Z ->
  wrap_s 8 (to_signed 8 (b_at (put_int be 1 (of_signed 8 z)) 0)) = z.
Proof.
  intros H. rewrite b_at_put_int1. rewrite (N.mod_small _ 256) by apply (of_signed_lt 8 z).
  rewrite signed_roundtrip by (try reflexivity; exact H). now apply wrap_s_id.
Qed.

Lemma rt_s16 be z : (- Z.of_N (2 ^ (16 - 1)) <= z < Z.of_N (2 ^ (16 - 1)))%Z ->
  wrap_s 16 (to_signed 16 (get16 be (put_int be 2 (of_signed 16 z)))) = z.
Proof.
  intros H. rewrite get16_put_int. rewrite (N.mod_small _ 65536) by apply (of_signed_lt 16 z).
  rewrite signed_roundtrip by (try reflexivity; exact H). now apply wrap_s_id.
Qed.

Lemma rt_s32 be z : (- Z.of_N (2 ^ (32 - 1)) <= z < Z.of_N (2 ^ (32 - 1)))%Z ->
  wrap_s 32 (to_signed 32 (get32 be (put_int be 4 (of_signed 32 z)))) = z.
Proof.
  intros H. rewrite get32_put_int. rewrite (N.mod_small _ 4294967296) by apply (of_signed_lt 32 z).
  rewrite signed_roundtrip by (try reflexivity; exact H). now apply wrap_s_id.
Qed.

(* the definition's base type and the struct field's Go type have the same width and signedness *)
Definition codec_ok (bt : N) (ty : gotype) : bool :=
  (is_u8like bt && gotype_eqb ty (TU 8)) ||
  ((bt =? base_sint8) && gotype_eqb ty (TI 8)) ||
  ((bt =? base_sint16) && gotype_eqb ty (TI 16)) ||
  (((bt =? base_uint16) || (bt =? base_uint16z)) && gotype_eqb ty (TU 16)) ||
  ((bt =? base_sint32) && gotype_eqb ty (TI 32)) ||
  (((bt =? base_uint32) || (bt =? base_uint32z)) && gotype_eqb ty (TU 32)).

(* what binary.Write wrote for a well-typed integer, parseFitField reads back, in either byte order *)
Theorem bw_parse_scalar : forall be fd ty v bs,
  val_has_type ty v = true -> codec_ok (fd_btype fd) ty = true ->
  bw be ty v = EOk bs -> parse_fit_field be fd bs ty = FSet v.
Proof.
  intros be fd ty v bs Ht Hc Hbw. unfold codec_ok in Hc.
  repeat (apply orb_true_iff in Hc as [Hc|Hc]); apply andb_true_iff in Hc as [Hbt Hty];
    apply gotype_eqb_eq in Hty; subst ty; destruct v; try discriminate;
    cbn [val_has_type] in Ht; cbn [bw] in Hbw; inversion Hbw; subst bs; clear Hbw.
  - rewrite (pff_u8like _ _ _ _ Hbt). cbn [set_uint of_set]. do 2 f_equal. change (nbytes 8) with 1%nat.
    apply rt_u8. now apply N.ltb_lt.
  - rewrite (pff_bt _ _ _ _ base_sint8) by (now apply N.eqb_eq). rewrite pff_sint8.
    cbn [set_int of_set]. do 2 f_equal. change (nbytes 8) with 1%nat. apply rt_s8. now apply z_in_inv.
  - rewrite (pff_bt _ _ _ _ base_sint16) by (now apply N.eqb_eq). rewrite pff_sint16, put_int_length.
    change (nbytes 16) with 2%nat. cbn [Nat.ltb Nat.leb set_int of_set]. do 2 f_equal. apply rt_s16. now apply z_in_inv.
  - apply orb_true_iff in Hbt as [Hbt|Hbt].
    + rewrite (pff_bt _ _ _ _ base_uint16) by (now apply N.eqb_eq). rewrite pff_uint16, put_int_length.
      change (nbytes 16) with 2%nat. cbn [Nat.ltb Nat.leb set_uint of_set]. do 2 f_equal. apply rt_u16. now apply N.ltb_lt.
    + rewrite (pff_bt _ _ _ _ base_uint16z) by (now apply N.eqb_eq). rewrite pff_uint16z, put_int_length.
      change (nbytes 16) with 2%nat. cbn [Nat.ltb Nat.leb set_uint of_set]. do 2 f_equal. apply rt_u16. now apply N.ltb_lt.
  - rewrite (pff_bt _ _ _ _ base_sint32) by (now apply N.eqb_eq). rewrite pff_sint32, put_int_length.
    change (nbytes 32) with 4%nat. cbn [Nat.ltb Nat.leb set_int of_set]. do 2 f_equal. apply rt_s32. now apply z_in_inv.
  - apply orb_true_iff in Hbt as [Hbt|Hbt].
    + rewrite (pff_bt _ _ _ _ base_uint32) by (now apply N.eqb_eq). rewrite pff_uint32, put_int_length.
      change (nbytes 32) with 4%nat. cbn [Nat.ltb Nat.leb set_uint of_set]. do 2 f_equal. apply rt_u32. now apply N.ltb_lt.
    + rewrite (pff_bt _ _ _ _ base_uint32z) by (now apply N.eqb_eq). rewrite pff_uint32z, put_int_length.
      change (nbytes 32) with 4%nat. cbn [Nat.ltb Nat.leb set_uint of_set]. do 2 f_equal. apply rt_u32. now apply N.ltb_lt.
Qed.

(* the fixpoint at field level: a value the decoder produced, written and read again, is the same value *)
Theorem decode_reencode_scalar : forall be be' fd buf ty v bs,
  Forall (fun b => b < 256) buf ->
  parse_fit_field be fd buf ty = FSet v -> codec_ok (fd_btype fd) ty = true ->
  bw be' ty v = EOk bs -> parse_fit_field be' fd bs ty = FSet v.
Proof.
  intros be be' fd buf ty v bs Hb Hp Hc Hbw. apply bw_parse_scalar; try assumption.
  eapply parse_fit_field_typed; [exact Hb| |exact Hp].
  apply not_float_fits. unfold codec_ok in Hc.
  repeat (apply orb_true_iff in Hc as [Hc|Hc]); apply andb_true_iff in Hc as [_ Hty];
    apply gotype_eqb_eq in Hty; subst ty; reflexivity.
Qed.

(* and it always can be written *)
Theorem decode_reencode_scalar_ok : forall be be' fd buf ty v,
  Forall (fun b => b < 256) buf ->
  parse_fit_field be fd buf ty = FSet v -> codec_ok (fd_btype fd) ty = true ->
  exists bs, bw be' ty v = EOk bs /\ parse_fit_field be' fd bs ty = FSet v.
Proof.
  intros be be' fd buf ty v Hb Hp Hc.
  assert (Hnf : not_float ty = true /\ bw_able ty = true).
  { unfold codec_ok in Hc. repeat (apply orb_true_iff in Hc as [Hc|Hc]); apply andb_true_iff in Hc as [_ Hty];
      apply gotype_eqb_eq in Hty; subst ty; split; reflexivity. }
  destruct Hnf as [Hnf Hba].
  pose proof (parse_fit_field_typed be fd buf ty v Hb (not_float_fits _ _ Hnf) Hp) as Ht.
  destruct (bw_typed_ok be' v ty Ht Hba) as [bs Hbs]. exists bs. split; [exact Hbs|].
  now apply bw_parse_scalar.
Qed.

(* ================================================================ 5. encode_total: from fields to Files *)

Lemma ok_or_bind {A B} e (r : eres A) (f : A -> eres B) :
  ok_or e r -> (forall a, r = EOk a -> ok_or e (f a)) -> ok_or e (ebind r f).
Proof.
  intros [[a Ha]|Hr] Hf; rewrite ?Ha, ?Hr; cbn [ebind]; [now apply Hf|now right].
Qed.

Lemma is_ok_bind {A B} (r : eres A) (f : A -> eres B) :
  is_ok r -> (forall a, r = EOk a -> is_ok (f a)) -> is_ok (ebind r f).
Proof. intros [a Ha] Hf. rewrite Ha. cbn [ebind]. now apply Hf. Qed.

Lemma is_ok_or {A} e (r : eres A) : is_ok r -> ok_or e r.
Proof. now left. Qed.

Lemma econcat_ok_or e l : Forall (ok_or e) l -> ok_or e (econcat l).
Proof.
  induction 1 as [|r l Hr Hl IH]; cbn [econcat]; [left; now exists []|].
  apply ok_or_bind; [assumption|]. intros a _. apply ok_or_bind; [assumption|]. intros b _. left. now eexists.
Qed.

(* what the message writers need from a field of a definition *)
Definition field_good (gmn : N) (pf : pfield) : Prop :=
  b_size (fit_base (pf_t pf)) <> None /\
  exists ty, field_type gmn (pf_sindex pf) = Some ty /\ pfield_enc_ok pf ty = true.

(* struct field i of message gmn: getFieldBySindex finds an entry, the base-type
   tables are defined on it, and it is encodable *)
Definition sindex_enc_ok (gmn : N) (i : nat) : bool :=
  match get_field_by_sindex gmn i with
  | Some pf =>
      match b_known (fit_base (pf_t pf)), b_size (fit_base (pf_t pf)), field_type gmn (pf_sindex pf) with
      | Some _, Some _, Some ty => pfield_enc_ok pf ty
      | _, _, _ => false
      end
  | None => false
  end.

Definition mesg_enc_ok (gmn : N) : bool :=
  match mesg_all_invalid gmn with
  | Some inv =>
      Nat.eqb (List.length (msg_layout gmn)) (List.length (m_fields inv)) &&
      forallb (sindex_enc_ok gmn) (seq 0 (List.length (msg_layout gmn)))
  | None => false
  end.

Lemma sindex_enc_ok_inv gmn i : sindex_enc_ok gmn i = true ->
  exists pf, get_field_by_sindex gmn i = Some pf /\ b_known (fit_base (pf_t pf)) <> None /\ field_good gmn pf.
Proof.
  unfold sindex_enc_ok. destruct (get_field_by_sindex gmn i) as [pf|]; [|discriminate].
  destruct (b_known _) eqn:Ek; [|discriminate]. destruct (b_size _) eqn:Es; [|discriminate].
  destruct (field_type _ _) as [ty|] eqn:Et; [|discriminate]. intros H.
  exists pf. split; [reflexivity|]. split; [congruence|]. split; [congruence|]. now exists ty.
Qed.

Lemma def_fields_ok gmn : forall vals invs i,
  (forall k, (i <= k < i + List.length vals)%nat -> sindex_enc_ok gmn k = true) ->
  exists fs, def_fields gmn i vals invs = EOk fs /\ Forall (field_good gmn) fs.
Proof.
  induction vals as [|v vr IH]; intros invs i Hk; cbn [def_fields]; [exists []; split; [reflexivity|constructor]|].
  destruct invs as [|iv ir]; [exists []; split; [reflexivity|constructor]|].
  destruct (IH ir (S i)) as (r & Hr & Hg). { intros k Hk'. apply Hk. cbn [List.length]. lia. }
  destruct (sindex_enc_ok_inv gmn i) as (pf & Hpf & Hkn & Hgood). { apply Hk. cbn [List.length]. lia. }
  rewrite Hpf, Hr. cbn [ebind].
  assert (Hrest : exists fs, EOk (A := list pfield) r = EOk fs /\ Forall (field_good gmn) fs) by (exists r; auto).
  assert (Hinc : exists fs, EOk (A := list pfield) (pf :: r) = EOk fs /\ Forall (field_good gmn) fs) by (exists (pf :: r); auto).
  destruct v; try (destruct (goval_eqb _ iv); assumption); [assumption|].
  destruct (b_known (fit_base (pf_t pf))); [|congruence]. destruct l; assumption.
Qed.

Lemma vals_typed_length : forall layout vals, vals_typed layout vals = true -> List.length vals = List.length layout.
Proof.
  induction layout as [|[nm ty] lr IH]; intros [|v vr] H; cbn [vals_typed] in H; try discriminate; [reflexivity|].
  apply andb_true_iff in H as [_ H]. cbn [List.length]. f_equal. now apply IH.
Qed.

Lemma vals_typed_nth : forall layout vals i nm ty, vals_typed layout vals = true ->
  nth_error layout i = Some (nm, ty) -> exists v, nth_error vals i = Some v /\ val_has_type ty v = true.
Proof.
  induction layout as [|[nm0 ty0] lr IH]; intros [|v vr] i nm ty H Hn; cbn [vals_typed] in H; try discriminate.
  - destruct i; discriminate.
  - apply andb_true_iff in H as [H1 H2]. destruct i as [|i]; cbn [nth_error] in *.
    + inversion Hn; subst. now exists v.
    + eapply IH; eassumption.
Qed.

Lemma field_type_nth gmn i ty : field_type gmn i = Some ty -> exists nm, nth_error (msg_layout gmn) i = Some (nm, ty).
Proof. unfold field_type. destruct (nth_error _ _) as [[nm t]|]; [|discriminate]. intros H; inversion H. now exists nm. Qed.

(* getEncodeMesgDef on a well-typed message of an encodable type *)
Theorem get_encode_mesg_def_ok mn m : msg_wf mn m = true -> mesg_enc_ok mn = true ->
  exists fs, get_encode_mesg_def m = EOk fs /\ Forall (field_good mn) fs.
Proof.
  unfold msg_wf, mesg_enc_ok. intros Hw He. apply andb_true_iff in Hw as [Hn Hv]. apply N.eqb_eq in Hn.
  unfold get_encode_mesg_def. rewrite Hn. destruct (mesg_all_invalid mn) as [inv|]; [|discriminate].
  apply andb_true_iff in He as [Hlen Hall]. apply Nat.eqb_eq in Hlen.
  pose proof (vals_typed_length _ _ Hv) as Hl. rewrite Hl, Hlen, Nat.eqb_refl. cbn [negb].
  apply def_fields_ok. intros k Hk. rewrite forallb_forall in Hall. apply Hall. apply in_seq. lia.
Qed.

Lemma fdef_bytes_good gmn pf : field_good gmn pf -> is_ok (fdef_bytes pf).
Proof. intros [Hs _]. unfold fdef_bytes. destruct (b_size _); [now eexists|congruence]. Qed.

Theorem write_def_mesg_ok be gmn gmn' fs : Forall (field_good gmn) fs -> is_ok (write_def_mesg be gmn' fs).
Proof.
  intros H. unfold write_def_mesg. apply is_ok_bind; [|intros; now eexists].
  apply econcat_all_ok. apply Forall_forall. intros r Hr. apply in_map_iff in Hr as (pf & <- & Hin).
  rewrite Forall_forall in H. eapply fdef_bytes_good, H, Hin.
Qed.

Theorem write_mesg_cases be mn m fs : msg_wf mn m = true -> Forall (field_good mn) fs ->
  ok_or EEString (write_mesg be m fs).
Proof.
  unfold msg_wf. intros Hw Hg. apply andb_true_iff in Hw as [Hn Hv]. apply N.eqb_eq in Hn.
  unfold write_mesg. apply ok_or_bind; [|intros; left; now eexists].
  apply econcat_ok_or. apply Forall_forall. intros r Hr. apply in_map_iff in Hr as (pf & <- & Hin).
  rewrite Forall_forall in Hg. destruct (Hg pf Hin) as (_ & ty & Hty & Hok). rewrite Hn, Hty.
  destruct (field_type_nth _ _ _ Hty) as (nm & Hnth).
  destruct (vals_typed_nth _ _ _ _ _ Hv Hnth) as (v & -> & Htv).
  destruct (write_field_cases be pf ty v Htv Hok) as [H|[_ H]]; [now left|now right].
Qed.

Theorem encode_def_and_data_cases be mn m : msg_wf mn m = true -> mesg_enc_ok mn = true ->
  ok_or EEString (encode_def_and_data be m).
Proof.
  intros Hw He. destruct (get_encode_mesg_def_ok mn m Hw He) as (fs & Hfs & Hg).
  unfold encode_def_and_data. rewrite Hfs. cbn [ebind].
  apply ok_or_bind; [apply is_ok_or; eapply write_def_mesg_ok; eassumption|]. intros d _.
  apply ok_or_bind; [eapply write_mesg_cases; eassumption|]. intros w _. left. now eexists.
Qed.

(* ---- slices of messages *)
Lemma ins_field_good (Pf : pfield -> Prop) pf : Pf pf -> forall l, Forall Pf l -> Forall Pf (ins_field pf l).
Proof.
  intros Hp. induction 1 as [|q r Hq Hr IH]; cbn [ins_field]; [constructor; [assumption|constructor]|].
  destruct (pf_num pf <? pf_num q); [constructor; [assumption|constructor; assumption]|].
  destruct (pf_num pf =? pf_num q); constructor; assumption.
Qed.

Lemma fold_ins_good (Pf : pfield -> Prop) : forall fs acc, Forall Pf fs -> Forall Pf acc ->
  Forall Pf (fold_left (fun a pf => ins_field pf a) fs acc).
Proof.
  induction fs as [|pf r IH]; intros acc Hf Ha; cbn [fold_left]; [assumption|].
  inversion Hf; subst. apply IH; [assumption|]. now apply ins_field_good.
Qed.

Lemma collect_fields_good mn : mesg_enc_ok mn = true -> forall ms acc,
  forallb (msg_wf mn) ms = true -> Forall (field_good mn) acc ->
  exists fs, collect_fields ms acc = EOk fs /\ Forall (field_good mn) fs.
Proof.
  intros He. induction ms as [|m r IH]; intros acc Hw Ha; cbn [collect_fields].
  - now exists acc.
  - cbn [forallb] in Hw. apply andb_true_iff in Hw as [Hm Hr].
    destruct (get_encode_mesg_def_ok mn m Hm He) as (fs & -> & Hg). cbn [ebind].
    apply IH; [assumption|]. now apply fold_ins_good.
Qed.

Theorem encode_slice_cases be mn ms : forallb (msg_wf mn) ms = true -> mesg_enc_ok mn = true ->
  ok_or EEString (encode_slice be ms).
Proof.
  intros Hw He. unfold encode_slice. destruct ms as [|m0 mr]; [left; now eexists|].
  destruct (collect_fields_good mn He (m0 :: mr) [] Hw (Forall_nil _)) as (fs & -> & Hg). cbn [ebind].
  apply ok_or_bind; [apply is_ok_or; eapply write_def_mesg_ok; eassumption|]. intros d _.
  apply ok_or_bind; [|intros; left; now eexists].
  apply econcat_ok_or. apply Forall_forall. intros r Hr. apply in_map_iff in Hr as (m & <- & Hin).
  rewrite forallb_forall in Hw. eapply write_mesg_cases; [apply Hw, Hin|assumption].
Qed.

Theorem encode_slot_cases be multi mn ms : forallb (msg_wf mn) ms = true -> mesg_enc_ok mn = true ->
  ok_or EEString (encode_slot be multi ms).
Proof.
  intros Hw He. unfold encode_slot. destruct multi; [now apply (encode_slice_cases be mn)|].
  apply econcat_ok_or. apply Forall_forall. intros r Hr. apply in_map_iff in Hr as (m & <- & Hin).
  rewrite forallb_forall in Hw. eapply encode_def_and_data_cases; [apply Hw, Hin|assumption].
Qed.

(* ---- containers *)
Fixpoint descs_enc_ok (i : nat) (descs : list (string * bool * N)) : bool :=
  match descs with
  | [] => true
  | (_, _, mn) :: r => (hidden_slot i || mesg_enc_ok mn) && descs_enc_ok (S i) r
  end.

Theorem encode_slots_cases be : forall descs i slots,
  slots_wf i descs slots = true -> descs_enc_ok i descs = true -> ok_or EEString (encode_slots be i descs slots).
Proof.
  induction descs as [|[[nm multi] mn] dr IH]; intros i slots Hw He; cbn [encode_slots]; [left; now eexists|].
  destruct slots as [|s sr]; [left; now eexists|].
  cbn [slots_wf descs_enc_ok] in Hw, He.
  apply andb_true_iff in Hw as [Hw Hrest]. apply andb_true_iff in Hw as [Hw _]. apply andb_true_iff in Hw as [Hs _].
  apply andb_true_iff in He as [Hh He].
  specialize (IH (S i) sr Hrest He). unfold hidden_slot in Hh.
  destruct (Nat.eqb i 3 || Nat.eqb i 4); [exact IH|]. cbn [orb] in Hh.
  apply ok_or_bind; [now apply (encode_slot_cases be multi mn)|]. intros a _.
  apply ok_or_bind; [exact IH|]. intros b _. left. now eexists.
Qed.

(* every message type a container encodes (the hidden slots 3 and 4 are skipped) is encodable:
   one computation over the routing table and the profile *)
Theorem containers_enc_ok :
  forallb (fun e : N * bool * string * list (string * bool * N) =>
             let '(_, ok, _, descs) := e in if ok then descs_enc_ok 0 descs else true) file_types = true.
Proof. vm_compute. reflexivity. Qed.

Lemma ft_entry_enc_ok ft cn descs : ft_entry ft = Some (true, cn, descs) -> descs_enc_ok 0 descs = true.
Proof.
  unfold ft_entry. destruct (find _ file_types) as [[[[ft' ok] cn'] ds]|] eqn:E; [|discriminate].
  intros H; inversion H; subst. apply find_some in E as [Hin _].
  pose proof containers_enc_ok as T. rewrite forallb_forall in T. exact (T _ Hin).
Qed.

(* C05 encode_total: on a well-formed File, Encode does not panic, and the only
   error it can return is the UTF-8 one of encodeString (known finding reencode_utf8) *)
Theorem encode_total : forall f be, wf_file f = true ->
  (exists r, encode f be = EOk r) \/ encode f be = EErr EEString.
Proof.
  intros f be Hw. unfold wf_file in Hw. destruct (f_inited f) as [ft|] eqn:Ei; [|discriminate].
  apply andb_true_iff in Hw as [Hft Hw]. apply N.eqb_eq in Hft. subst ft.
  destruct (ft_entry (file_type f)) as [[[ok cn] descs]|] eqn:Ee; [|discriminate]. destruct ok; [|discriminate].
  pose proof (ft_entry_enc_ok _ _ _ Ee) as Hd.
  unfold encode. rewrite Ee, Ei, N.eqb_refl. cbn [negb].
  change (ok_or EEString (ebind (encode_slots be 0 descs (f_slots f)) (fun data =>
    let h := f_header f in
    let h1 := mk_header (h_size h) (h_proto h) (h_profile h) (N.of_nat (List.length data) mod 2 ^ 32) (h_dtype h) (h_crc h) in
    let '(hdr, hcrc) := header_marshal h1 in
    let h2 := if h_size h =? c_headerSizeCRC
              then mk_header (h_size h1) (h_proto h1) (h_profile h1) (h_dsize h1) (h_dtype h1) hcrc else h1 in
    let crc := Crc.crc_sum16 (Crc.crc_write (Crc.crc_write Crc.crc_new hdr) data) in
    EOk (hdr ++ data ++ put_le16 crc, set_header f h2 crc)))).
  apply ok_or_bind; [now apply encode_slots_cases|]. intros data _. cbv zeta.
  destruct (header_marshal _) as [hdr hcrc]. left. now eexists.
Qed.

Theorem encode_no_panic : forall f be w, wf_file f = true -> encode f be <> EPanic w.
Proof. intros f be w Hw. destruct (encode_total f be Hw) as [[r E]|E]; rewrite E; discriminate. Qed.

Theorem encode_err_only_string : forall f be e, wf_file f = true -> encode f be = EErr e -> e = EEString.
Proof. intros f be e Hw He. destruct (encode_total f be Hw) as [[r E]|E]; rewrite E in He; [discriminate|now inversion He]. Qed.

(* ================================================================ 6. decode_wf: from fields to messages *)

(* a precondition calculus for decoder programs: Q holds of every value the
   program can return, whatever the decoder state, provided the input consists of bytes *)
Fixpoint wpre {S E A} (p : prog S E A) (Q : A -> Prop) : Prop :=
  match p with
  | Ret a => Q a
  | Fail _ => True
  | Panic _ => True
  | ReadByte k => forall b, b < 256 -> wpre (k b) Q
  | ReadFull n k => forall l, bytes_lt l -> wpre (k l) Q
  | More k => forall m, wpre (k m) Q
  | Get k => forall s, wpre (k s) Q
  | Put s k => wpre k Q
  end.

Lemma wpre_bind {S E A B} (p : prog S E A) (f : A -> prog S E B) Q :
  wpre p (fun a => wpre (f a) Q) -> wpre (bind p f) Q.
Proof. induction p; cbn [wpre bind]; auto. Qed.

Lemma wpre_mono {S E A} (p : prog S E A) (Q Q' : A -> Prop) : (forall a, Q a -> Q' a) -> wpre p Q -> wpre p Q'.
Proof. intros HQ. induction p; cbn [wpre]; auto. Qed.

Lemma a_take_bytes k x l x' : bytes_lt (a_rest x) -> a_take k x = inl (l, x') -> bytes_lt l /\ bytes_lt (a_rest x').
Proof.
  intros Hb. unfold a_take. destruct (Nat.leb k _); [|destruct (Nat.leb _ _); discriminate].
  intros H; inversion H; subst. cbn [a_rest]. split; [now apply bytes_lt_firstn|now apply bytes_lt_skipn].
Qed.

(* soundness over the abstract interpreter of Model/IO.v *)
Theorem wpre_sound {S E A} : forall (p : prog S E A) Q x s a x' s',
  wpre p Q -> bytes_lt (a_rest x) -> run_a p x s = ROk a x' s' -> Q a.
Proof.
  induction p as [a0|e|w|k IH|n k IH|k IH|k IH|s0 k IH]; intros Q x s a x' s' Hw Hb Hr; cbn [wpre run_a] in *;
    try discriminate.
  - now inversion Hr; subst.
  - destruct (a_take 1 x) as [[l x1]|e] eqn:Et; [|discriminate].
    destruct (a_take_bytes _ _ _ _ Hb Et) as [Hl Hx1].
    eapply IH; [apply Hw|exact Hx1|exact Hr]. destruct l as [|b r]; [reflexivity|]. now inversion Hl.
  - destruct (a_take n x) as [[l x1]|e] eqn:Et; [|discriminate].
    destruct (a_take_bytes _ _ _ _ Hb Et) as [Hl Hx1]. eapply IH; [apply Hw, Hl|exact Hx1|exact Hr].
  - eapply IH; [apply Hw|exact Hb|exact Hr].
  - eapply IH; [apply Hw|exact Hb|exact Hr].
  - eapply IH; [exact Hw|exact Hb|exact Hr].
Qed.

(* ... and over the buffered interpreter the entry points run (IOSim.buffered_run_abstract) *)
Theorem wpre_sound_c {S E A} (p : prog S E A) Q rd limit crc fuel s a c' s' :
  wpre p Q -> bytes_lt (rd_data rd) -> (List.length (rd_data rd) + List.length (rd_sched rd) < fuel)%nat ->
  run_c p (start_c rd limit crc fuel) s = ROk a c' s' -> Q a.
Proof.
  intros Hw Hb Hf Hr. pose proof (buffered_run_abstract p rd limit crc fuel s Hf) as H. rewrite Hr in H.
  destruct (run_a p (start_a rd limit) s) as [a2 x2 s2| | | |] eqn:Ea; try discriminate.
  cbn [observe] in H. inversion H; subst. eapply wpre_sound; [exact Hw| |exact Ea]. exact Hb.
Qed.

(* ---- messages *)
Lemma vals_typed_set_nth : forall layout vals i nm ty v, vals_typed layout vals = true ->
  nth_error layout i = Some (nm, ty) -> val_has_type ty v = true -> vals_typed layout (set_nth i v vals) = true.
Proof.
  induction layout as [|[nm0 ty0] lr IH]; intros [|x vr] i nm ty v H Hn Hv; cbn [vals_typed] in H; try discriminate.
  - destruct i; discriminate.
  - apply andb_true_iff in H as [H1 H2]. destruct i as [|i]; cbn [nth_error set_nth vals_typed] in *.
    + inversion Hn; subst. now rewrite Hv, H2.
    + rewrite H1. cbn [andb]. eapply IH; eassumption.
Qed.

Theorem msg_set_wf mn m i ty v : msg_wf mn m = true -> field_type mn i = Some ty -> val_has_type ty v = true ->
  msg_wf mn (msg_set m i v) = true.
Proof.
  unfold msg_wf, msg_set. cbn [m_num m_fields]. intros H Hty Hv. apply andb_true_iff in H as [-> H]. cbn [andb].
  destruct (field_type_nth _ _ _ Hty) as (nm & Hn). eapply vals_typed_set_nth; eassumption.
Qed.

(* the constructors return well-typed all-invalid messages: one computation over the profile *)
Lemma ctor_typed_check :
  forallb (fun m => if md_has_ctor m then vals_typed (md_layout m) (md_invalid m) else true) messages = true.
Proof. vm_compute. reflexivity. Qed.

Theorem mesg_all_invalid_wf gmn m : mesg_all_invalid gmn = Some m -> msg_wf gmn m = true.
Proof.
  unfold mesg_all_invalid. destruct (find_msg gmn) as [md|] eqn:Em; [|discriminate].
  destruct (md_has_ctor md) eqn:Ec; [|discriminate]. intros H; inversion H; subst m.
  unfold msg_wf, msg_layout. cbn [m_num m_fields]. rewrite Em, N.eqb_refl. cbn [andb].
  destruct (ProfileProofs.find_msg_in _ _ Em) as [Hin _].
  pose proof ctor_typed_check as T. rewrite forallb_forall in T. specialize (T md Hin). now rewrite Ec in T.
Qed.

(* no struct field of the profile is a float: one computation *)
Lemma no_float_types_check :
  forallb (fun m => forallb (fun e : N * pfield =>
     match nth_error (md_layout m) (pf_sindex (snd e)) with Some (_, ty) => not_float ty | None => true end)
     (md_entries m)) messages = true.
Proof. vm_compute. reflexivity. Qed.

Lemma field_not_float gmn fdn p ty : get_field gmn fdn = Some p -> field_type gmn (pf_sindex p) = Some ty -> not_float ty = true.
Proof.
  intros Hg Ht. destruct (get_field_inv _ _ _ Hg) as (md & Em & Hin).
  pose proof no_float_types_check as T. rewrite forallb_forall in T.
  destruct (ProfileProofs.find_msg_in _ _ Em) as [Hmd _]. specialize (T md Hmd). rewrite forallb_forall in T.
  specialize (T _ Hin). cbn [snd] in T. unfold field_type, msg_layout in Ht. rewrite Em in Ht.
  destruct (nth_error _ _) as [[nm t]|]; [|discriminate]. inversion Ht; subst. exact T.
Qed.

Definition opt_wf (gmn : N) (om : option msg) : Prop :=
  match om with Some m => msg_wf gmn m = true | None => True end.

Lemma finish_wf gmn m i ty (r : fres) :
  msg_wf gmn m = true -> field_type gmn i = Some ty -> (forall v, r = FSet v -> val_has_type ty v = true) ->
  wpre (match r with
        | FSet v => Ret (Some (msg_set m i v))
        | FKeep => Ret (Some m)
        | FErr => fail EParseField
        | FPanic w => panic w
        end : P (option msg)) (opt_wf gmn).
Proof.
  intros Hm Ht Hr. destruct r; cbn [wpre fail panic opt_wf]; auto. eapply msg_set_wf; eauto.
Qed.

(* one field of a data record keeps the message under construction well typed *)
Theorem parse_one_field_wf o dm known fd msgv :
  opt_wf (dm_gmn dm) msgv -> wpre (parse_one_field o dm known fd msgv) (opt_wf (dm_gmn dm)).
Proof.
  intros Hm. unfold parse_one_field. cbv zeta.
  apply wpre_bind.
  assert (Hrest : wpre
    (buf <- read_full (N.to_nat (fd_size fd)) ;;
     match get_field (dm_gmn dm) (fd_num fd) with
     | None => Ret msgv
     | Some p =>
       if negb known then Ret msgv else
       match msgv with
       | None => panic 2
       | Some m =>
         match field_type (dm_gmn dm) (pf_sindex p) with
         | None => panic 2
         | Some ty =>
           if fit_kind (pf_t p) =? kind_native then
             if negb (fit_array (pf_t p)) then
               match parse_fit_field (dm_be dm) fd buf ty with
               | FSet v => Ret (Some (msg_set m (pf_sindex p) v)) | FKeep => Ret (Some m)
               | FErr => fail EParseField | FPanic w => panic w end
             else
               match parse_fit_field_array (dm_be dm) fd buf ty with
               | FSet v => Ret (Some (msg_set m (pf_sindex p) v)) | FKeep => Ret (Some m)
               | FErr => fail EParseField | FPanic w => panic w end
           else
             match b_signed (fd_btype fd) with
             | None => panic 4
             | Some sg =>
               if (fit_kind (pf_t p) =? kind_timeutc) || (fit_kind (pf_t p) =? kind_timelocal) then
                 s <- get_st ;;
                 let '(ov, s') := parse_time_stamp s (get32 (dm_be dm) (extend4 (dm_be dm) sg buf)) (fit_kind (pf_t p)) (pf_num p) in
                 put_st s' ;;;
                 match ov with
                 | None => Ret (Some m)
                 | Some v =>
                   match of_set (set_time ty v) with
                   | FSet v => Ret (Some (msg_set m (pf_sindex p) v)) | FKeep => Ret (Some m)
                   | FErr => fail EParseField | FPanic w => panic w end
                 end
               else if fit_kind (pf_t p) =? kind_lat then
                 match of_set (set_lat ty (new_latitude (to_signed 32 (get32 (dm_be dm) (extend4 (dm_be dm) sg buf))))) with
                 | FSet v => Ret (Some (msg_set m (pf_sindex p) v)) | FKeep => Ret (Some m)
                 | FErr => fail EParseField | FPanic w => panic w end
               else if fit_kind (pf_t p) =? kind_lng then
                 match of_set (set_lng ty (new_longitude (to_signed 32 (get32 (dm_be dm) (extend4 (dm_be dm) sg buf))))) with
                 | FSet v => Ret (Some (msg_set m (pf_sindex p) v)) | FKeep => Ret (Some m)
                 | FErr => fail EParseField | FPanic w => panic w end
               else panic 6
             end
         end
       end
     end) (opt_wf (dm_gmn dm))).
  { cbn [read_full bind wpre]. intros buf Hbuf.
    destruct (get_field (dm_gmn dm) (fd_num fd)) as [p|] eqn:Eg; [|exact Hm].
    destruct (negb known); [exact Hm|]. destruct msgv as [m|]; [|exact I]. cbn [opt_wf] in Hm.
    destruct (field_type (dm_gmn dm) (pf_sindex p)) as [ty|] eqn:Ety; [|exact I].
    pose proof (field_not_float _ _ _ _ Eg Ety) as Hnf.
    destruct (fit_kind (pf_t p) =? kind_native).
    - destruct (negb (fit_array (pf_t p))); apply (finish_wf _ _ _ ty); try assumption; intros v Hv.
      + eapply parse_fit_field_typed; [exact Hbuf|now apply not_float_fits|exact Hv].
      + eapply parse_fit_field_array_typed; [exact Hbuf|now apply not_float_fits|exact Hv].
    - destruct (b_signed (fd_btype fd)) as [sg|]; [|exact I].
      destruct ((fit_kind (pf_t p) =? kind_timeutc) || (fit_kind (pf_t p) =? kind_timelocal)).
      + cbn [get_st bind wpre]. intros s.
        destruct (parse_time_stamp s _ _ _) as [ov s'] eqn:Ep. cbn [put_st bind wpre].
        destruct ov as [v|]; [|exact Hm]. apply (finish_wf _ _ _ ty); try assumption. intros v' Hv'.
        eapply set_time_typed; eassumption.
      + destruct (fit_kind (pf_t p) =? kind_lat).
        { apply (finish_wf _ _ _ ty); try assumption. intros v Hv. eapply set_lat_typed; eassumption. }
        destruct (fit_kind (pf_t p) =? kind_lng); [|exact I].
        apply (finish_wf _ _ _ ty); try assumption. intros v Hv. eapply set_lng_typed; eassumption. }
  destruct (get_field (dm_gmn dm) (fd_num fd)) as [p|].
  - destruct (_ && _); [|exact Hrest]. destruct (b_size _); [exact Hrest|exact I].
  - destruct (known && o_unkf o); [|exact Hrest]. cbn [get_st put_st bind wpre]. intros s. exact Hrest.
Qed.

Theorem parse_fields_wf o dm known : forall fds msgv,
  opt_wf (dm_gmn dm) msgv -> wpre (parse_fields o dm known fds msgv) (opt_wf (dm_gmn dm)).
Proof.
  induction fds as [|fd r IH]; intros msgv Hm; cbn [parse_fields]; [exact Hm|].
  apply wpre_bind. eapply wpre_mono; [|apply parse_one_field_wf, Hm]. intros m' Hm'. now apply IH.
Qed.

Lemma skip_dev_fields_wpre (Q : unit -> Prop) : Q tt -> forall devs, wpre (skip_dev_fields devs) Q.
Proof.
  intros HQ. induction devs as [|[[a size] c] r IH]; cbn [skip_dev_fields]; [exact HQ|].
  cbn [read_full bind wpre]. intros l _. exact IH.
Qed.

Theorem parse_data_fields_wf o dm known msgv :
  opt_wf (dm_gmn dm) msgv -> wpre (parse_data_fields o dm known msgv) (opt_wf (dm_gmn dm)).
Proof.
  intros Hm. unfold parse_data_fields. apply wpre_bind.
  eapply wpre_mono; [|apply parse_fields_wf, Hm]. intros m Hm'. cbv beta.
  apply wpre_bind. apply skip_dev_fields_wpre. exact Hm'.
Qed.

(* decode_wf at message level: whatever parseDataMessage returns is a message
   whose struct fields all hold values of their Go types *)
Theorem parse_data_message_wf o b compressed :
  wpre (parse_data_message o b compressed)
       (fun om => match om with Some m => msg_wf (m_num m) m = true | None => True end).
Proof.
  unfold parse_data_message. cbv zeta. cbn [get_st bind wpre]. intros s.
  destruct (nth _ (ds_defs s) None) as [dm|]; [|exact I].
  assert (HQ : forall om, opt_wf (dm_gmn dm) om -> match om with Some m => msg_wf (m_num m) m = true | None => True end).
  { intros [m|] H; [|exact I]. cbn [opt_wf] in H. pose proof H as H'. unfold msg_wf in H'.
    apply andb_true_iff in H' as [Hn _]. apply N.eqb_eq in Hn. now rewrite Hn. }
  apply wpre_bind.
  assert (Hrest : forall msgv, opt_wf (dm_gmn dm) msgv ->
    wpre (if negb compressed then parse_data_fields o dm (known_msg (dm_gmn dm)) msgv else
          s0 <- get_st ;;
          if negb (ds_hasts s0) then parse_data_fields o dm (known_msg (dm_gmn dm)) msgv else
          put_st (with_time s0 ((ds_ts s0 + (N.land b c_compressedTimeMask + 32 - ds_lastoff s0) mod 32) mod 2 ^ 32)
                               (N.land b c_compressedTimeMask)) ;;;
          match get_field (dm_gmn dm) c_fieldNumTimeStamp with
          | Some p =>
              match msgv with
              | None => panic 2
              | Some m =>
                  match field_type (dm_gmn dm) (pf_sindex p) with
                  | None => panic 2
                  | Some ty =>
                      match set_time ty (decode_date_time ((ds_ts s0 + (N.land b c_compressedTimeMask + 32 - ds_lastoff s0) mod 32) mod 2 ^ 32)) with
                      | None => panic 3
                      | Some v => parse_data_fields o dm (known_msg (dm_gmn dm)) (Some (msg_set m (pf_sindex p) v))
                      end
                  end
              end
          | None => parse_data_fields o dm (known_msg (dm_gmn dm)) msgv
          end)
         (fun om => match om with Some m => msg_wf (m_num m) m = true | None => True end)).
  { intros msgv Hm.
    assert (Hpdf : forall mv, opt_wf (dm_gmn dm) mv ->
              wpre (parse_data_fields o dm (known_msg (dm_gmn dm)) mv)
                   (fun om => match om with Some m => msg_wf (m_num m) m = true | None => True end)).
    { intros mv Hmv. eapply wpre_mono; [exact HQ|]. now apply parse_data_fields_wf. }
    destruct (negb compressed); [now apply Hpdf|].
    cbn [get_st bind wpre]. intros s0. destruct (negb (ds_hasts s0)); [now apply Hpdf|].
    cbn [put_st bind wpre].
    destruct (get_field (dm_gmn dm) c_fieldNumTimeStamp) as [p|]; [|now apply Hpdf].
    destruct msgv as [m|]; [|exact I]. destruct (field_type (dm_gmn dm) (pf_sindex p)) as [ty|] eqn:Ety; [|exact I].
    destruct (set_time ty _) as [v|] eqn:Es; [|exact I]. apply Hpdf. cbn [opt_wf] in *.
    eapply msg_set_wf; [exact Hm|exact Ety|]. destruct ty; try discriminate. cbn [set_time] in Es. inversion Es. reflexivity. }
  destruct (known_msg (dm_gmn dm)).
  - destruct (mesg_all_invalid (dm_gmn dm)) as [m|] eqn:Ei; [|exact I]. cbn [wpre].
    apply Hrest. cbn [opt_wf]. now apply mesg_all_invalid_wf.
  - cbn [bind]. destruct (o_unkm o); cbn [put_st bind wpre]; apply Hrest; exact I.
Qed.

(* ================================================================ 7. re-encoding what the decoder produced *)

(* every known message type is encodable except the three that carry an array of strings *)
Theorem profile_mesg_enc_ok :
  map md_num (filter (fun m => md_known m && negb (mesg_enc_ok (md_num m))) messages) = [201; 206; 264].
Proof. vm_compute. reflexivity. Qed.

(* a message parseDataMessage returned, of an encodable type, re-encodes (definition and data
   record) or fails with the UTF-8 error; it never panics *)
Theorem reencode_message o b compressed be :
  wpre (parse_data_message o b compressed)
       (fun om => match om with
                  | Some m => mesg_enc_ok (m_num m) = true ->
                      (exists bs, encode_def_and_data be m = EOk bs) \/ encode_def_and_data be m = EErr EEString
                  | None => True
                  end).
Proof.
  eapply wpre_mono; [|apply parse_data_message_wf]. intros [m|] H; [|exact I]. intros He.
  exact (encode_def_and_data_cases be (m_num m) m H He).
Qed.

(* arrays of strings: the decoder stores them, the encoder's writeField refuses them.  Not reachable
   through Encode: exd_data_field_configuration (201) and exercise_title (264) belong to no file
   container, and field_description (206) lives in the hidden slot 3 that Encode skips
   (containers_enc_ok holds without exception) *)
Theorem reencode_string_array_refuted :
  exists fd buf v pf m0,
    get_field 264 2 = Some pf /\ field_type 264 (pf_sindex pf) = Some (TSlice TStr) /\
    parse_fit_field_array false fd buf (TSlice TStr) = FSet v /\ val_has_type (TSlice TStr) v = true /\
    (forall be, write_field be pf (TSlice TStr) v = EErr EEStringArray) /\
    mesg_all_invalid 264 = Some m0 /\ msg_wf 264 (msg_set m0 (pf_sindex pf) v) = true /\
    encode_def_and_data false (msg_set m0 (pf_sindex pf) v) = EErr EEStringArray.
Proof.
  exists (mk_fdef 2 4 base_string), [65; 0; 66; 0], (VList [VStr [65]; VStr [66]]),
         (mk_pfield 3 2 39 200), (mk_msg 264 [VU 65535; VU 65535; VU 65535; VNil]).
  split; [vm_compute; reflexivity|]. split; [vm_compute; reflexivity|]. split; [vm_compute; reflexivity|].
  split; [vm_compute; reflexivity|]. split; [intros be; apply write_field_string_array; vm_compute; reflexivity|].
  split; [vm_compute; reflexivity|]. split; vm_compute; reflexivity.
Qed.

(* ================================================================ 8. decode_wf: File.add keeps messages typed *)

Definition mwf (m : msg) : Prop := msg_wf (m_num m) m = true.

Definition fld_ubits (mn : N) (name : string) : option N :=
  match sindex_of mn name with
  | Some i => match field_type mn i with Some (TU bits) => Some bits | _ => None end
  | None => None
  end.

Lemma m_num_set_fld m name v : m_num (set_fld m name v) = m_num m.
Proof. unfold set_fld. destruct (sindex_of _ _); reflexivity. Qed.

Lemma set_fld_u_wf m name x bits : mwf m -> fld_ubits (m_num m) name = Some bits -> x < 2 ^ bits ->
  mwf (set_fld m name (VU x)).
Proof.
  unfold mwf, fld_ubits. intros Hm Hb Hx. rewrite m_num_set_fld. unfold set_fld.
  destruct (sindex_of (m_num m) name) as [i|]; [|discriminate].
  destruct (field_type (m_num m) i) as [ty|] eqn:Et; [|discriminate]. destruct ty; try discriminate. inversion Hb; subst.
  apply (msg_set_wf (m_num m) m i (TU bits) (VU x) Hm Et). cbn [val_has_type]. now apply N.ltb_lt.
Qed.

Lemma land_bound a b bits : (b <? 2 ^ bits) = true -> N.land a b < 2 ^ bits.
Proof. intros H. apply land_lt_pow2. now apply N.ltb_lt. Qed.

Lemma m_num_widen16 m src dst : m_num (widen16 m src dst) = m_num m.
Proof. unfold widen16. destruct (_ =? _); [reflexivity|apply m_num_set_fld]. Qed.

Lemma widen16_wf m src dst : mwf m -> fld_ubits (m_num m) dst = Some 32 -> mwf (widen16 m src dst).
Proof.
  intros Hm Hb. unfold widen16. destruct (_ =? _); [assumption|].
  eapply set_fld_u_wf; [assumption|exact Hb|]. apply land_bound. reflexivity.
Qed.

Ltac num_simpl := rewrite ?m_num_widen16, ?m_num_set_fld.
Ltac by_num Hn := num_simpl; rewrite Hn; vm_compute; reflexivity.

Lemma expand_session_lap_wf m : mwf m -> (m_num m = c_MesgNumSession \/ m_num m = c_MesgNumLap) ->
  mwf (expand_session_lap m) /\ m_num (expand_session_lap m) = m_num m.
Proof.
  intros Hm Hn. unfold expand_session_lap. split; [|now rewrite !m_num_widen16].
  repeat (apply widen16_wf; [|destruct Hn as [Hn|Hn]; by_num Hn]). exact Hm.
Qed.

Lemma expand_segment_lap_wf m : mwf m -> m_num m = c_MesgNumSegmentLap ->
  mwf (expand_segment_lap m) /\ m_num (expand_segment_lap m) = m_num m.
Proof.
  intros Hm Hn. unfold expand_segment_lap. split; [|now rewrite !m_num_widen16].
  repeat (apply widen16_wf; [|by_num Hn]). exact Hm.
Qed.

Lemma expand_segment_point_wf m : mwf m -> m_num m = c_MesgNumSegmentPoint ->
  mwf (expand_segment_point m) /\ m_num (expand_segment_point m) = m_num m.
Proof.
  intros Hm Hn. unfold expand_segment_point. split; [|now rewrite !m_num_widen16].
  apply widen16_wf; [exact Hm|by_num Hn].
Qed.

Lemma expand_event_wf m : mwf m -> m_num m = c_MesgNumEvent ->
  mwf (expand_event m) /\ m_num (expand_event m) = m_num m.
Proof.
  intros Hm Hn. unfold expand_event. cbv zeta.
  set (m1 := if uval (fld m "Data16") =? 65535 then m else set_fld m "Data" (VU (N.land (uval (fld m "Data16")) 65535))).
  assert (H1 : mwf m1 /\ m_num m1 = c_MesgNumEvent).
  { unfold m1. destruct (_ =? _); [now split|]. split; [|by_num Hn].
    eapply set_fld_u_wf; [exact Hm|by_num Hn|]. eapply N.lt_le_trans; [apply (land_bound _ _ 16); reflexivity|]. vm_compute. discriminate. }
  destruct H1 as [Hm1 Hn1]. clearbody m1.
  destruct (_ =? 4294967295); [split; [assumption|congruence]|].
  destruct (_ =? c_EventSportPoint).
  { split; [|num_simpl; congruence].
    eapply set_fld_u_wf; [eapply set_fld_u_wf; [exact Hm1|by_num Hn1|]|by_num Hn1|]; apply land_bound; reflexivity. }
  destruct (_ || _); [|split; [assumption|congruence]].
  split; [|num_simpl; congruence].
  eapply set_fld_u_wf; [eapply set_fld_u_wf; [eapply set_fld_u_wf; [eapply set_fld_u_wf; [exact Hm1|by_num Hn1|]|by_num Hn1|]|by_num Hn1|]|by_num Hn1|];
    apply land_bound; reflexivity.
Qed.

Lemma lor_lt_pow2 a b n : a < 2 ^ n -> b < 2 ^ n -> N.lor a b < 2 ^ n.
Proof.
  intros Ha Hb.
  destruct (N.eq_dec (N.lor a b) 0) as [E|NE]; [rewrite E; apply pow2_pos|].
  apply N.log2_lt_pow2; [lia|]. rewrite N.log2_lor.
  destruct (N.eq_dec a 0) as [->|Na]; destruct (N.eq_dec b 0) as [->|Nb].
  - exfalso. apply NE. reflexivity.
  - rewrite N.max_r by apply N.le_0_l. apply N.log2_lt_pow2; lia.
  - rewrite N.max_l by apply N.le_0_l. apply N.log2_lt_pow2; lia.
  - apply N.max_lub_lt; apply N.log2_lt_pow2; lia.
Qed.

Lemma accumulate_lt a v : fst (accumulate a v) < 2 ^ 32.
Proof. unfold accumulate. cbn [fst]. apply N.mod_lt. apply N.pow_nonzero. discriminate. Qed.

(* a struct field read by name holds a value of its type *)
Lemma fld_typed m name i ty : mwf m -> sindex_of (m_num m) name = Some i -> field_type (m_num m) i = Some ty ->
  val_has_type ty (fld m name) = true.
Proof.
  unfold mwf, msg_wf, fld. intros Hm Hs Ht. rewrite Hs. apply andb_true_iff in Hm as [_ Hv].
  destruct (field_type_nth _ _ _ Ht) as (nm & Hn). destruct (vals_typed_nth _ _ _ _ _ Hv Hn) as (v & Hv1 & Hv2).
  now rewrite (nth_error_nth _ _ _ Hv1).
Qed.

Lemma nth_map_uval_lt l k : forallb (val_has_type (TU 8)) l = true -> nth k (map uval l) 0 < 256.
Proof.
  revert k. induction l as [|x r IH]; intros k H; [destruct k; reflexivity|].
  cbn [forallb] in H. apply andb_true_iff in H as [Hx Hr]. destruct k as [|k]; cbn [map nth]; [|now apply IH].
  destruct x; try discriminate. cbn [val_has_type uval] in *. now apply N.ltb_lt in Hx.
Qed.

Lemma expand_csd_wf g m : mwf m -> m_num m = c_MesgNumRecord ->
  mwf (fst (expand_csd g m)) /\ m_num (fst (expand_csd g m)) = m_num m.
Proof.
  intros Hm Hn. unfold expand_csd. cbv zeta.
  assert (Hb : forall k, nth k (match fld m "CompressedSpeedDistance" with VList l => map uval l | _ => [] end) 0 < 256).
  { intros k. assert (Ht : val_has_type (TSlice (TU 8)) (fld m "CompressedSpeedDistance") = true).
    { eapply (fld_typed m _ _ _ Hm); rewrite Hn; vm_compute; reflexivity. }
    destruct (fld m "CompressedSpeedDistance"); try (destruct k; reflexivity).
    rewrite slice_typed in Ht. now apply nth_map_uval_lt. }
  set (csd := match fld m "CompressedSpeedDistance" with VList l => map uval l | _ => [] end) in *.
  destruct (_ && _); cbn [fst]; [|now split]. split; [|by_num Hn].
  eapply set_fld_u_wf; [eapply set_fld_u_wf; [exact Hm|by_num Hn|]|by_num Hn|].
  - apply lor_lt_pow2.
    + eapply N.lt_le_trans; [apply (Hb 0%nat)|]. vm_compute. discriminate.
    + rewrite N.shiftl_mul_pow2. pose proof (land_bound (nth 1 csd 0) 15 4 eq_refl) as H4.
      change (2 ^ 4) with 16 in H4. change (2 ^ 8) with 256. change (2 ^ 16) with 65536. lia.
  - apply accumulate_lt.
Qed.

Lemma expand_cycles_wf g m : mwf m -> m_num m = c_MesgNumRecord ->
  mwf (fst (expand_cycles g m)) /\ m_num (fst (expand_cycles g m)) = m_num m.
Proof.
  intros Hm Hn. unfold expand_cycles. cbv zeta. destruct (_ =? _); cbn [fst]; [now split|]. split; [|by_num Hn].
  eapply set_fld_u_wf; [exact Hm|by_num Hn|apply accumulate_lt].
Qed.

Lemma expand_power_wf g m : mwf m -> m_num m = c_MesgNumRecord ->
  mwf (fst (expand_power g m)) /\ m_num (fst (expand_power g m)) = m_num m.
Proof.
  intros Hm Hn. unfold expand_power. cbv zeta. destruct (_ =? _); cbn [fst]; [now split|]. split; [|by_num Hn].
  eapply set_fld_u_wf; [exact Hm|by_num Hn|apply accumulate_lt].
Qed.

Lemma expand_record_wf g m : mwf m -> m_num m = c_MesgNumRecord ->
  mwf (fst (expand_record g m)) /\ m_num (fst (expand_record g m)) = m_num m.
Proof.
  intros Hm Hn. unfold expand_record. cbv zeta.
  set (m2 := widen16 (widen16 m "Altitude" "EnhancedAltitude") "Speed" "EnhancedSpeed").
  assert (H2 : mwf m2 /\ m_num m2 = m_num m).
  { unfold m2. split; [|now rewrite !m_num_widen16]. repeat (apply widen16_wf; [|by_num Hn]). exact Hm. }
  destruct H2 as [Hm2 Hn2]. clearbody m2.
  destruct (expand_csd_wf g m2 Hm2 (eq_trans Hn2 Hn)) as [Hm3 Hn3].
  destruct (expand_cycles_wf (snd (expand_csd g m2)) _ Hm3 (eq_trans Hn3 (eq_trans Hn2 Hn))) as [Hm4 Hn4].
  destruct (expand_power_wf (snd (expand_cycles (snd (expand_csd g m2)) (fst (expand_csd g m2)))) _ Hm4
              (eq_trans Hn4 (eq_trans Hn3 (eq_trans Hn2 Hn)))) as [Hm5 Hn5].
  split; [exact Hm5|congruence].
Qed.

Lemma some_pair_inj {A B} (a a' : A) (b b' : B) : Some (a, b) = Some (a', b') -> a = a' /\ b = b'.
Proof. intros H; inversion H; auto. Qed.
Lemma some_inj {A} (a a' : A) : Some a = Some a' -> a = a'.
Proof. intros H; inversion H; auto. Qed.

(* expandComponents keeps a message well typed (the derived fields get values of their Go types) *)
Theorem expand_components_wf g m m' g' : mwf m -> expand_components g m = Some (m', g') ->
  mwf m' /\ m_num m' = m_num m.
Proof.
  intros Hm. unfold expand_components. cbv zeta.
  destruct ((m_num m =? c_MesgNumSession) || (m_num m =? c_MesgNumLap)) eqn:E1.
  { intros H. apply some_pair_inj in H as [<- _]. apply expand_session_lap_wf; [assumption|].
    apply orb_true_iff in E1 as [E|E]; apply N.eqb_eq in E; auto. }
  destruct (m_num m =? c_MesgNumRecord) eqn:E2.
  { intros H. apply some_inj in H. apply N.eqb_eq in E2. pose proof (expand_record_wf g m Hm E2) as R.
    rewrite H in R. exact R. }
  destruct (m_num m =? c_MesgNumEvent) eqn:E3.
  { intros H. apply some_pair_inj in H as [<- _]. apply expand_event_wf; [assumption|now apply N.eqb_eq]. }
  destruct (m_num m =? c_MesgNumSegmentLap) eqn:E4.
  { intros H. apply some_pair_inj in H as [<- _]. apply expand_segment_lap_wf; [assumption|now apply N.eqb_eq]. }
  destruct (m_num m =? c_MesgNumSegmentPoint) eqn:E5; [|discriminate].
  intros H. apply some_pair_inj in H as [<- _]. apply expand_segment_point_wf; [assumption|now apply N.eqb_eq].
Qed.

Definition all_typed (slots : list (list msg)) : Prop := Forall (Forall mwf) slots.

Lemma Forall_set_nth {A} (Pa : A -> Prop) x : Pa x -> forall l n, Forall Pa l -> Forall Pa (set_nth n x l).
Proof.
  intros Hx. induction l as [|a r IH]; intros n Hl; [destruct n; constructor|].
  inversion Hl; subst. destruct n as [|n]; cbn [set_nth]; constructor; auto.
Qed.

Lemma Forall_nth_default {A} (Pa : A -> Prop) d : Pa d -> forall l n, Forall Pa l -> Pa (nth n l d).
Proof.
  intros Hd. induction l as [|a r IH]; intros n Hl; [destruct n; exact Hd|].
  inversion Hl; subst. destruct n as [|n]; cbn [nth]; auto.
Qed.

Theorem apply_routes_typed : forall rs m slots g slots' g',
  mwf m -> all_typed slots -> apply_routes rs m slots g = Some (slots', g') -> all_typed slots'.
Proof.
  induction rs as [|[[i mode] exp] rest IH]; intros m slots g slots' g' Hm Hs H; cbn [apply_routes] in H.
  - apply some_pair_inj in H as [<- _]. exact Hs.
  - destruct (if exp then expand_components g m else Some (m, g)) as [[m1 g1]|] eqn:E; [|discriminate].
    assert (Hm1 : mwf m1).
    { destruct exp; [eapply expand_components_wf; eassumption|]. apply some_pair_inj in E as [<- _]. exact Hm. }
    eapply IH; [exact Hm| |exact H].
    destruct mode; [| |exact Hs]; apply Forall_set_nth; try assumption.
    + apply Forall_app. split; [|constructor; [assumption|constructor]].
      apply (Forall_nth_default (Forall mwf) []); [constructor|exact Hs].
    + constructor; [assumption|constructor].
Qed.

(* File.add stores well-typed messages only, given a well-typed message *)
Theorem file_add_typed f g m f' g' :
  mwf m -> all_typed (f_slots f) -> file_add f g m = AddOk f' g' -> all_typed (f_slots f').
Proof.
  intros Hm Hs. unfold file_add. destruct (f_inited f) as [ft|].
  - destruct (apply_routes _ m (f_slots f) g) as [[slots g1]|] eqn:E; [|discriminate].
    intros H; inversion H; subst. cbn [f_slots]. eapply apply_routes_typed; eassumption.
  - destruct (common_routes (m_num m)) as [|r rs]; [discriminate|].
    destruct (apply_routes _ m (f_slots f) g) as [[slots g1]|] eqn:E; [|discriminate].
    intros H; inversion H; subst. cbn [f_slots]. eapply apply_routes_typed; eassumption.
Qed.
