(* Stream-level decode = denote, final form: the entry point Decode on a complete framed file
   (header ++ records ++ CRC, possibly followed by other bytes), read through any reader oracle
   (any chunk schedule with empty reads, EOF or fault after the data, data-with-EOF). *)
From Coq Require Import NArith ZArith List Bool Lia Arith.
From FitV Require Import Proofs.Util Model.Values Model.Bytes Model.Base Model.Profile Model.Reflect Model.IO
  Model.Header Model.Route Model.Components Model.Decode Spec.FitSyntax Spec.RouteSpec Proofs.DecodeLemmas Gen.Consts
  Proofs.StreamDenoteBase Proofs.StreamDenoteDefs Proofs.StreamDenoteLoop Proofs.StreamDenoteLift Proofs.StreamDenoteMain
  Proofs.StreamDenoteFrame.
Import ListNotations.
Local Open Scope N_scope.

Lemma stream_wf_bytes : forall rs, stream_wf rs = true -> all_bytes (ser_records rs) = true.
Proof.
  induction rs as [|r rest IH]; intros H; [reflexivity|].
  cbn [stream_wf forallb] in H. apply andb_prop in H. destruct H as [H1 H2].
  change (ser_records (r :: rest)) with (ser_record r ++ ser_records rest).
  unfold all_bytes. rewrite forallb_app. unfold rec_wf in H1. apply andb_prop in H1. destruct H1 as [H1 _].
  unfold all_bytes in H1. rewrite H1. exact (IH H2).
Qed.

(* the bytes of a complete FIT file carrying the record list rs *)
Definition fit_file (h : header) (rs : list record) : list N := frame_bytes h (ser_records rs).

(* every File.add keeps the header the File was created with *)
Lemma route_msgs_header h g msgs f g' : route_msgs h g msgs = Some (f, g') -> f_header f = h.
Proof.
  intros Hroute.
  unfold route_msgs in Hroute. destruct msgs as [|m0 ms]; [discriminate|].
  unfold start_file in Hroute. destruct (file_add (new_file h) g m0) as [fa ga|] eqn:Ea; [|discriminate].
  destruct (file_init fa) as [fb|] eqn:Ei; [|discriminate].
  assert (Hadd1 : forall f0 g0 m fx gx, file_add f0 g0 m = AddOk fx gx -> f_header fx = f_header f0).
  { intros f0 g0 m fx gx. unfold file_add. destruct (f_inited f0).
    - destruct (apply_routes _ _ _ _) as [[sl gg]|]; [|discriminate]. intros E; inversion E; reflexivity.
    - destruct (common_routes (m_num m)); [discriminate|]. destruct (apply_routes _ _ _ _) as [[sl gg]|]; [|discriminate].
      intros E; inversion E; reflexivity. }
  assert (Hadds : forall ms0 f0 g0 fx gx, adds f0 g0 ms0 = AddOk fx gx -> f_header fx = f_header f0).
  { induction ms0 as [|m r IH]; intros f0 g0 fx gx E; cbn [adds] in E; [inversion E; reflexivity|].
    destruct (file_add f0 g0 m) as [f1 g1'|] eqn:E1; [|discriminate]. rewrite (IH _ _ _ _ E). eapply Hadd1; eauto. }
  destruct (adds fb ga ms) as [fx gx|] eqn:Eadds; [|discriminate]. inversion Hroute; subst fx gx.
  rewrite (Hadds _ _ _ _ _ Eadds). unfold file_init in Ei. destruct (ft_entry (file_type fa)) as [[[[|] ?] ?]|]; try discriminate.
  inversion Ei; subst fb. cbn [f_header]. rewrite (Hadd1 _ _ _ _ _ Ea). reflexivity.
Qed.

(* the reader holding exactly one file, delivered in one piece, ending in a clean EOF *)
Definition alone_reader (h : header) (rs : list record) : reader := mk_reader (fit_file h rs) [] TEOF false 0.

(* Decode on a framed file followed by anything: besides the statement of [Decode_denote],
   - the terminal condition of the reader is untouched and the fuel measure does not grow
     (the same fuel serves the next file of a chain);
   - the File, the accumulator state and the quirk list are those Decode returns for the file
     alone, read from a reader that ends in a clean EOF right after it (what follows a file and
     how the reader ends have no influence on the result for that file). *)
Theorem Decode_denote_full : forall o g rd fuel h rs ss1 f2 g1 extra,
  header_wf h -> h_dsize h = N.of_nat (List.length (ser_records rs)) ->
  starts_with_file_id rs = true -> stream_wf rs = true -> denote rs = Some ss1 ->
  start_file h g (hd dummy_msg (ss_msgs ss1)) = Some (f2, g1) ->
  rd_data rd = fit_file h rs ++ extra ->
  (List.length (rd_data rd) + List.length (rd_sched rd) < fuel)%nat ->
  exists rd' file' f g' q,
    entry_Decode o g rd fuel = TDone (mk_dres None h (Some file') rd' g' q) /\
    route_msgs h g (ss_msgs ss1) = Some (f, g') /\
    f_slots file' = f_slots f /\ f_inited file' = f_inited f /\ f_header file' = h /\
    f_crc file' = file_crc h (ser_records rs) /\
    (o_unkm o = true -> f_unkm file' = Some (sorted_unkm ss1)) /\
    (o_unkf o = true -> f_unkf file' = Some (sorted_unkf ss1)) /\
    rd_pos rd' = (rd_pos rd + List.length (fit_file h rs))%nat /\ rd_data rd' = extra /\
    rd_term rd' = rd_term rd /\
    (List.length (rd_data rd') + List.length (rd_sched rd') <= List.length (rd_data rd) + List.length (rd_sched rd))%nat /\
    (forall fuel0, (List.length (fit_file h rs) < fuel0)%nat ->
       exists rd0, entry_Decode o g (alone_reader h rs) fuel0 = TDone (mk_dres None h (Some file') rd0 g' q) /\
                   rd_data rd0 = [] /\ rd_pos rd0 = List.length (fit_file h rs)).
Proof.
  intros o g rd fuel h rs ss1 f2 g1 extra Hh Hsz Hs Hwf Hd Hst Hdata Hfuel.
  destruct (decode_denote_abstract o h g rs ss1 f2 g1 (put_le16 (file_crc h (ser_records rs)) ++ extra) (rd_term rd)
              Hs Hwf Hd Hst) as (s1 & f & g' & Hrun & Hroute & Hf & Hg & Hm & Hu & _).
  pose proof (all_bytes_is_bytes _ (stream_wf_bytes rs Hwf)) as Hbytes.
  destruct (entry_Decode_frame_full o g rd fuel h (ser_records rs) extra s1 Hh Hbytes Hsz Hdata Hfuel Hrun)
    as (rd' & Hdec & Hpos & Hrest & Hterm & Hmsr).
  exists rd', (finalize_unknown o (with_file s1 (set_crc (ds_file s1) (file_crc h (ser_records rs))) (ds_g s1))), f, g', (ds_quirks s1).
  rewrite Hdec, Hg. split; [reflexivity|]. split; [exact Hroute|].
  pose proof (route_msgs_header _ _ _ _ _ Hroute) as Hhdr.
  assert (Halone : forall fuel0, (List.length (fit_file h rs) < fuel0)%nat ->
    exists rd0, entry_Decode o g (alone_reader h rs) fuel0 =
      TDone (mk_dres None h
               (Some (finalize_unknown o (with_file s1 (set_crc (ds_file s1) (file_crc h (ser_records rs))) (ds_g s1))))
               rd0 g' (ds_quirks s1)) /\ rd_data rd0 = [] /\ rd_pos rd0 = List.length (fit_file h rs)).
  { intros fuel0 Hf0.
    pose proof (run_a_tail_ok (data_prog o false (S (List.length (ser_records rs)))) (ser_records rs)
                  (put_le16 (file_crc h (ser_records rs)) ++ extra) (put_le16 (file_crc h (ser_records rs)) ++ [])
                  (rd_term rd) TEOF tt (init_dstate (new_file h) g) s1 Hrun) as Hrun0.
    destruct (entry_Decode_frame_full o g (alone_reader h rs) fuel0 h (ser_records rs) [] s1 Hh Hbytes Hsz) as (rd0 & Hdec0 & Hpos0 & Hrest0 & _).
    - unfold alone_reader, fit_file. cbn [rd_data]. now rewrite app_nil_r.
    - unfold alone_reader. cbn [rd_data rd_sched List.length]. lia.
    - exact Hrun0.
    - exists rd0. rewrite Hdec0, Hg. split; [reflexivity|]. split; [exact Hrest0|].
      rewrite Hpos0. unfold alone_reader, fit_file. cbn [rd_pos]. reflexivity. }
  unfold finalize_unknown, set_crc. cbn [with_file ds_file ds_unkm ds_unkf f_slots f_inited f_header f_crc f_unkm f_unkf].
  unfold finalize_unknown, set_crc in Halone. cbn [with_file ds_file ds_unkm ds_unkf] in Halone.
  rewrite Hf. rewrite Hf in Halone.
  split; [reflexivity|]. split; [reflexivity|]. split; [exact Hhdr|]. split; [reflexivity|].
  split; [intros Ho; rewrite Ho; now rewrite (Hm Ho)|].
  split; [intros Ho; rewrite Ho; now rewrite (Hu Ho)|].
  split; [exact Hpos|]. split; [exact Hrest|]. split; [exact Hterm|]. split; [exact Hmsr|].
  exact Halone.
Qed.

Theorem Decode_denote : forall o g rd fuel h rs ss1 f2 g1 extra,
  header_wf h -> h_dsize h = N.of_nat (List.length (ser_records rs)) ->
  starts_with_file_id rs = true -> stream_wf rs = true -> denote rs = Some ss1 ->
  start_file h g (hd dummy_msg (ss_msgs ss1)) = Some (f2, g1) ->
  rd_data rd = fit_file h rs ++ extra ->
  (List.length (rd_data rd) + List.length (rd_sched rd) < fuel)%nat ->
  exists rd' file' f g' q,
    entry_Decode o g rd fuel = TDone (mk_dres None h (Some file') rd' g' q) /\
    route_msgs h g (ss_msgs ss1) = Some (f, g') /\
    f_slots file' = f_slots f /\ f_inited file' = f_inited f /\ f_header file' = h /\
    f_crc file' = file_crc h (ser_records rs) /\
    (o_unkm o = true -> f_unkm file' = Some (sorted_unkm ss1)) /\
    (o_unkf o = true -> f_unkf file' = Some (sorted_unkf ss1)) /\
    rd_pos rd' = (rd_pos rd + List.length (fit_file h rs))%nat /\ rd_data rd' = extra.
Proof.
  intros o g rd fuel h rs ss1 f2 g1 extra Hh Hsz Hs Hwf Hd Hst Hdata Hfuel.
  destruct (Decode_denote_full o g rd fuel h rs ss1 f2 g1 extra Hh Hsz Hs Hwf Hd Hst Hdata Hfuel)
    as (rd' & file' & f & g' & q & H1 & H2 & H3 & H4 & H5 & H6 & H7 & H8 & H9 & H10 & _).
  exists rd', file', f, g', q. repeat split; assumption.
Qed.

Print Assumptions Decode_denote_full.
Print Assumptions Decode_denote.

(* the hypotheses are satisfiable: a concrete file, read in chunks of 3, 0, 1 and then 7 bytes at a time *)
From FitV Require Import Proofs.StreamDenoteWitness.
Definition ok_hdr : header := mk_header 12 16 2215 (N.of_nat (List.length (ser_records ok_stream))) fit_dtype 0.
Definition ok_reader : reader := mk_reader (fit_file ok_hdr ok_stream ++ [1; 2; 3]) [3; 0; 1; 7; 7; 7; 7; 7; 7; 7; 7; 7; 7; 7; 7]%nat TEOF true 0.

Lemma ok_hdr_wf : header_wf ok_hdr.
Proof.
  unfold header_wf, ok_hdr. cbn [h_size h_proto h_profile h_dsize h_dtype h_crc].
  repeat split; try (vm_compute; reflexivity); try (right; reflexivity); intros H; try reflexivity; discriminate H.
Qed.

Example Decode_denote_example :
  header_wf ok_hdr /\ h_dsize ok_hdr = N.of_nat (List.length (ser_records ok_stream)) /\
  starts_with_file_id ok_stream = true /\ stream_wf ok_stream = true /\
  (exists ss f2 g1, denote ok_stream = Some ss /\ start_file ok_hdr g_init (hd dummy_msg (ss_msgs ss)) = Some (f2, g1)) /\
  rd_data ok_reader = fit_file ok_hdr ok_stream ++ [1; 2; 3] /\
  (List.length (rd_data ok_reader) + List.length (rd_sched ok_reader) < 200)%nat /\
  (* and the conclusion, recomputed: success, 12 + 53 + 2 bytes consumed *)
  match entry_Decode no_opts g_init ok_reader 200 with
  | TDone r => dr_err r = None /\ rd_pos (dr_rd r) = 67%nat
  | _ => False
  end.
Proof.
  split; [exact ok_hdr_wf|]. split; [reflexivity|].
  split; [vm_compute; reflexivity|]. split; [vm_compute; reflexivity|].
  split.
  { destruct (denote ok_stream) as [ss|] eqn:E; [|vm_compute in E; discriminate].
    destruct (start_file ok_hdr g_init (hd dummy_msg (ss_msgs ss))) as [[f2 g1]|] eqn:E2.
    - exists ss, f2, g1. split; [reflexivity|exact E2].
    - exfalso. revert E2. vm_compute in E. injection E as <-. vm_compute. discriminate. }
  split; [reflexivity|]. split; [vm_compute; lia|].
  vm_compute. split; reflexivity.
Qed.
