(* Stream-level decode = denote: transfer of the reference-semantics corollaries to the decoder model. *)
From Coq Require Import NArith ZArith List Bool Lia Arith.
From FitV Require Import Proofs.Util Model.Values Model.Bytes Model.Base Model.Profile Model.Reflect Model.IO
  Model.Header Model.Route Model.Components Model.Decode Spec.FitSyntax Spec.RouteSpec Proofs.DecodeLemmas Gen.Consts
  Proofs.StreamDenoteBase Proofs.StreamDenoteDefs Proofs.StreamDenoteLift Proofs.StreamDenoteMain
  Proofs.StreamDenoteSkip Proofs.StreamDenoteSlots.
Import ListNotations.
Local Open Scope N_scope.

(* the File the decoder model builds from a stream (None: the run did not end in success) *)
Definition decoded_file (o : dopts) (h : header) (g : gstate) (rs : list record) : option (file * gstate) :=
  match run_a (data_prog o false (S (List.length (ser_records rs))))
              (mk_ast (ser_records rs) TEOF 0 (List.length (ser_records rs))) (init_dstate (new_file h) g) with
  | ROk _ _ s => Some (ds_file s, ds_g s)
  | _ => None
  end.

Definition in_domain (h : header) (g : gstate) (rs : list record) : Prop :=
  starts_with_file_id rs = true /\ stream_wf rs = true /\
  exists ss f2 g1, denote rs = Some ss /\ start_file h g (hd dummy_msg (ss_msgs ss)) = Some (f2, g1).

(* the decoded File is a function of the denoted message list *)
Theorem decoded_is_routed : forall o h g rs ss, in_domain h g rs -> denote rs = Some ss ->
  decoded_file o h g rs = route_msgs h g (ss_msgs ss) /\ decoded_file o h g rs <> None.
Proof.
  intros o h g rs ss (Hs & Hwf & ss' & f2 & g1 & Hden & Hst) Hd. rewrite Hd in Hden. inversion Hden; subst ss'.
  destruct (decode_denote_abstract o h g rs ss f2 g1 [] TEOF Hs Hwf Hd Hst) as (s1 & f & g' & Hrun & Hroute & Hf & Hg & _).
  unfold decoded_file. rewrite app_nil_r in Hrun. rewrite Hrun, Hroute, Hf, Hg. split; [reflexivity|discriminate].
Qed.

Corollary same_messages_same_file : forall o h g rs rs' ss ss', in_domain h g rs -> in_domain h g rs' ->
  denote rs = Some ss -> denote rs' = Some ss' -> ss_msgs ss = ss_msgs ss' ->
  decoded_file o h g rs = decoded_file o h g rs'.
Proof.
  intros o h g rs rs' ss ss' D D' H H' E.
  rewrite (proj1 (decoded_is_routed o h g rs ss D H)), (proj1 (decoded_is_routed o h g rs' ss' D' H')). now rewrite E.
Qed.

(* C02 unknown_skipped: deleting a data record of a message the profile does not know changes no decoded message *)
Theorem unknown_record_skipped_decoder : forall o h g rs1 l pay dev rs2 sm d,
  denote_from ss_init rs1 = Some sm -> lookup_def (ss_env sm) l = Some d -> known_msg (sd_gmn d) = false ->
  in_domain h g (rs1 ++ RData l pay dev :: rs2) -> in_domain h g (rs1 ++ rs2) ->
  decoded_file o h g (rs1 ++ RData l pay dev :: rs2) = decoded_file o h g (rs1 ++ rs2).
Proof.
  intros o h g rs1 l pay dev rs2 sm d Hsm Hl Hk D D'.
  destruct D as (Hs & Hwf & ss & f2 & g1 & Hden & Hst). pose proof Hden as Hden0. unfold denote in Hden.
  destruct (unknown_record_deletable rs1 l pay dev rs2 ss_init sm d ss Hsm Hl Hk Hden) as (s2 & Hd2 & Hcore).
  apply (same_messages_same_file o h g _ _ ss s2); try assumption.
  - repeat split; try assumption. exists ss, f2, g1. split; assumption.
  - destruct Hcore as (_ & _ & Hm & _). exact Hm.
Qed.

(* C13 on whole streams: redefining local type l never changes how records of other local types decode *)
Theorem redefinition_invisible_decoder : forall o h g l rs0 be1 g1' f1 v1 x1 be2 g2 f2' v2 x2 rs,
  forallb (fun r => negb (uses_local l r)) rs = true ->
  in_domain h g (rs0 ++ RDef l be1 g1' f1 v1 x1 :: rs) -> in_domain h g (rs0 ++ RDef l be2 g2 f2' v2 x2 :: rs) ->
  decoded_file o h g (rs0 ++ RDef l be1 g1' f1 v1 x1 :: rs) = decoded_file o h g (rs0 ++ RDef l be2 g2 f2' v2 x2 :: rs).
Proof.
  intros o h g l rs0 be1 g1' f1 v1 x1 be2 g2 f2' v2 x2 rs Hno D D'.
  pose proof D as (_ & _ & ss & _ & _ & Hden & _). pose proof D' as (_ & _ & ss' & _ & _ & Hden' & _).
  apply (same_messages_same_file o h g _ _ ss ss'); try assumption.
  unfold denote in Hden, Hden'.
  destruct (redefinition_invisible l rs0 be1 g1' f1 v1 x1 be2 g2 f2' v2 x2 rs ss_init ss Hno Hden) as (s2 & Hd2 & Hm & _).
  - intros sm Hsm Hn. rewrite denote_from_app, Hsm in Hden'. cbn [denote_from] in Hden'. rewrite Hn in Hden'. discriminate.
  - rewrite Hd2 in Hden'. inversion Hden'; subst. exact Hm.
Qed.

(* C16 unknown_counts_exact: on success the lists the File reports are the reference counts, sorted *)
Lemma sorted_unkm_is_sort ss : sorted_unkm ss = sort_unkm (ss_unkm ss).
Proof. reflexivity. Qed.
Lemma sorted_unkf_is_sort ss : sorted_unkf ss = sort_unkf (ss_unkf ss).
Proof. reflexivity. Qed.

Theorem unknown_counts_exact : forall o h g rs ss1 f2 g1 tl t,
  starts_with_file_id rs = true -> stream_wf rs = true -> denote rs = Some ss1 ->
  start_file h g (hd dummy_msg (ss_msgs ss1)) = Some (f2, g1) ->
  let L := List.length (ser_records rs) in
  exists s1,
    run_a (data_prog o false (S L)) (mk_ast (ser_records rs ++ tl) t 0 L) (init_dstate (new_file h) g) =
      ROk tt (mk_ast tl t L L) s1 /\
    (o_unkm o = true -> f_unkm (finalize_unknown o s1) = Some (sorted_unkm ss1)) /\
    (o_unkf o = true -> f_unkf (finalize_unknown o s1) = Some (sorted_unkf ss1)).
Proof.
  intros o h g rs ss1 f2 g1 tl t Hs Hwf Hd Hst L.
  destruct (decode_denote_abstract o h g rs ss1 f2 g1 tl t Hs Hwf Hd Hst) as (s1 & f & g' & Hrun & _ & _ & _ & Hm & Hf & _).
  exists s1. split; [exact Hrun|]. unfold finalize_unknown. cbn [f_unkm f_unkf]. split; intros Ho; rewrite Ho.
  - now rewrite (Hm Ho), sorted_unkm_is_sort.
  - now rewrite (Hf Ho), sorted_unkf_is_sort.
Qed.

Print Assumptions unknown_record_skipped_decoder.
Print Assumptions redefinition_invisible_decoder.
Print Assumptions unknown_counts_exact.
