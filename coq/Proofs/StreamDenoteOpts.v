(* Decode options only add information (C16).

   The decoder run under any option set [o] and under [no_opts] produces the same
   outcome on every input -- arbitrary bytes, every chunk schedule, every fault --
   up to the unknown-field / unknown-message counters.  The two programs are not
   syntactically aligned (one side does Get/Put where the other does Ret tt), so
   the proof uses a simulation relation on program pairs indexed by the current
   pair of decoder states. *)
From Coq Require Import NArith ZArith List Bool Lia Arith.
From FitV Require Import Model.Values Model.Bytes Model.Base Model.Profile Model.Reflect Model.Crc Model.IO
  Model.Header Model.Components Model.Route Model.Decode Gen.Consts.
From FitV Require Import Proofs.StreamDenoteBase.
Import ListNotations.
Local Open Scope N_scope.

(* ------------------------------------------------------------ states equal up to the counters *)

Definition eqv (s s' : dstate) : Prop :=
  ds_defs s = ds_defs s' /\ ds_ts s = ds_ts s' /\ ds_lastoff s = ds_lastoff s' /\
  ds_file s = ds_file s' /\ ds_g s = ds_g s' /\ ds_quirks s = ds_quirks s' /\ ds_hasts s = ds_hasts s'.

Ltac eqv_tac :=
  unfold eqv, with_unkf, with_unkm, with_defs, with_file, with_time in *;
  cbn [ds_defs ds_ts ds_lastoff ds_unkf ds_unkm ds_file ds_g ds_quirks ds_hasts] in *;
  intuition congruence.

Lemma eqv_refl s : eqv s s.
Proof. eqv_tac. Qed.
Lemma eqv_sym s s' : eqv s s' -> eqv s' s.
Proof. eqv_tac. Qed.
Lemma eqv_trans s1 s2 s3 : eqv s1 s2 -> eqv s2 s3 -> eqv s1 s3.
Proof. eqv_tac. Qed.

Lemma eqv_unkf_l s s' u : eqv s s' -> eqv (with_unkf s u) s'.
Proof. eqv_tac. Qed.
Lemma eqv_unkf_r s s' u : eqv s s' -> eqv s (with_unkf s' u).
Proof. eqv_tac. Qed.
Lemma eqv_unkm_l s s' u : eqv s s' -> eqv (with_unkm s u) s'.
Proof. eqv_tac. Qed.
Lemma eqv_unkm_r s s' u : eqv s s' -> eqv s (with_unkm s' u).
Proof. eqv_tac. Qed.
Lemma eqv_defs s s' d : eqv s s' -> eqv (with_defs s d) (with_defs s' d).
Proof. eqv_tac. Qed.
Lemma eqv_file s s' f g : eqv s s' -> eqv (with_file s f g) (with_file s' f g).
Proof. eqv_tac. Qed.
Lemma eqv_time s s' ts lo : eqv s s' -> eqv (with_time s ts lo) (with_time s' ts lo).
Proof. eqv_tac. Qed.

Lemma pts_eqv s s' u k n : eqv s s' ->
  fst (parse_time_stamp s u k n) = fst (parse_time_stamp s' u k n) /\
  eqv (snd (parse_time_stamp s u k n)) (snd (parse_time_stamp s' u k n)).
Proof.
  intros He. pose proof He as (Hd & Ht & Hl & Hf & Hg & Hq & Hh).
  unfold parse_time_stamp. rewrite Ht, Hh.
  destruct (u =? 0xFFFFFFFF); [cbn [fst snd]; split; [reflexivity|assumption]|].
  destruct (k =? kind_timeutc).
  - cbn [fst snd]. split; [reflexivity|].
    destruct (n =? c_fieldNumTimeStamp); [|assumption].
    eqv_tac.
  - destruct (negb (ds_hasts s') || (ds_ts s' <? c_systemTimeMarker)); cbn [fst snd];
      (split; [reflexivity|assumption]).
Qed.

(* ------------------------------------------------------------ the simulation *)

Inductive psim {A : Type} : dstate -> dstate -> prog dstate err A -> prog dstate err A -> Prop :=
| ps_ret s s' a : eqv s s' -> psim s s' (Ret a) (Ret a)
| ps_fail s s' e : eqv s s' -> psim s s' (Fail e) (Fail e)
| ps_panic s s' w : psim s s' (Panic w) (Panic w)
| ps_rb s s' k k' : eqv s s' -> (forall b, psim s s' (k b) (k' b)) -> psim s s' (ReadByte k) (ReadByte k')
| ps_rf s s' n k k' : eqv s s' -> (forall l, psim s s' (k l) (k' l)) -> psim s s' (ReadFull n k) (ReadFull n k')
| ps_more s s' k k' : (forall b, psim s s' (k b) (k' b)) -> psim s s' (More k) (More k')
| ps_get_l s s' k q : psim s s' (k s) q -> psim s s' (Get k) q
| ps_get_r s s' p k : psim s s' p (k s') -> psim s s' p (Get k)
| ps_put_l s s' s2 k q : psim s2 s' k q -> psim s s' (Put s2 k) q
| ps_put_r s s' s2 p k : psim s s2 p k -> psim s s' p (Put s2 k).

Lemma psim_bind {A B} s s' (p q : prog dstate err A) (f g : A -> prog dstate err B) :
  psim s s' p q ->
  (forall a s2 s2', eqv s2 s2' -> psim s2 s2' (f a) (g a)) ->
  psim s s' (bind p f) (bind q g).
Proof.
  intros Hp Hk.
  induction Hp as [s s' a He | s s' e He | s s' w | s s' k k' He Hkk IH | s s' n k k' He Hkk IH
                  | s s' k k' Hkk IH | s s' k q Hkq IH | s s' p k Hpk IH
                  | s s' s2 k q Hkq IH | s s' s2 p k Hpk IH]; cbn [bind].
  - apply Hk; assumption.
  - apply ps_fail; assumption.
  - apply ps_panic.
  - apply ps_rb; [assumption|]. intros b. apply IH.
  - apply ps_rf; [assumption|]. intros l. apply IH.
  - apply ps_more. intros b. apply IH.
  - apply ps_get_l. exact IH.
  - apply ps_get_r. exact IH.
  - apply ps_put_l. exact IH.
  - apply ps_put_r. exact IH.
Qed.

(* same outcome, same I/O state, final decoder states equal up to the counters *)
Definition rsim {X A : Type} (r r' : result X dstate err A) : Prop :=
  match r, r' with
  | ROk a x s, ROk a' x' s' => a = a' /\ x = x' /\ eqv s s'
  | RFail e x s, RFail e' x' s' => e = e' /\ x = x' /\ eqv s s'
  | RIOErr e x s, RIOErr e' x' s' => e = e' /\ x = x' /\ eqv s s'
  | RPanic w, RPanic w' => w = w'
  | ROutOfFuel, ROutOfFuel => True
  | _, _ => False
  end.

Lemma psim_run_a {A} s s' (p q : prog dstate err A) :
  psim s s' p q -> forall x, rsim (run_a p x s) (run_a q x s').
Proof.
  intros Hp.
  induction Hp as [s s' a He | s s' e He | s s' w | s s' k k' He Hkk IH | s s' n k k' He Hkk IH
                  | s s' k k' Hkk IH | s s' k q Hkq IH | s s' p k Hpk IH
                  | s s' s2 k q Hkq IH | s s' s2 p k Hpk IH]; intros x; cbn [run_a].
  - cbn [rsim]. auto.
  - cbn [rsim]. auto.
  - cbn [rsim]. reflexivity.
  - destruct (a_take 1 x) as [[l x']|e]; [apply IH|cbn [rsim]; auto].
  - destruct (a_take n x) as [[l x']|e]; [apply IH|cbn [rsim]; auto].
  - apply IH.
  - apply IH.
  - apply IH.
  - apply IH.
  - apply IH.
Qed.

Lemma psim_run_c {A} s s' (p q : prog dstate err A) :
  psim s s' p q -> forall c, rsim (run_c p c s) (run_c q c s').
Proof.
  intros Hp.
  induction Hp as [s s' a He | s s' e He | s s' w | s s' k k' He Hkk IH | s s' n k k' He Hkk IH
                  | s s' k k' Hkk IH | s s' k q Hkq IH | s s' p k Hpk IH
                  | s s' s2 k q Hkq IH | s s' s2 p k Hpk IH]; intros c; cbn [run_c].
  - cbn [rsim]. auto.
  - cbn [rsim]. auto.
  - cbn [rsim]. reflexivity.
  - destruct (c_byte (S (c_fuel c)) c) as [b c'|e c'|]; [apply IH|cbn [rsim]; auto|exact I].
  - destruct (c_take (S (c_fuel c)) n [] c) as [l c'|e c'|]; [apply IH|cbn [rsim]; auto|exact I].
  - apply IH.
  - apply IH.
  - apply IH.
  - apply IH.
  - apply IH.
Qed.

(* ------------------------------------------------------------ proof automation *)

(* one structural step on a pair of programs with the same head; stops (fails) at
   get_st / put_st and at named sub-programs *)
Ltac ps_step :=
  lazymatch goal with
  | |- psim _ _ (Ret _) (Ret _) => apply ps_ret; assumption
  | |- psim _ _ (Fail _) (Fail _) => apply ps_fail; assumption
  | |- psim _ _ (Panic _) (Panic _) => apply ps_panic
  | |- psim _ _ (ReadByte _) (ReadByte _) => apply ps_rb; [assumption | intro; cbv beta]
  | |- psim _ _ (ReadFull _ _) (ReadFull _ _) => apply ps_rf; [assumption | intro; cbv beta]
  | |- psim _ _ (bind get_st _) _ => fail
  | |- psim _ _ (bind (put_st _) _) _ => fail
  | |- psim _ _ (bind _ _) (bind _ _) => apply psim_bind; [ | intros ? ? ? ?; cbv beta]
  | |- psim _ _ (match ?c with _ => _ end) _ => destruct c eqn:?
  end.

Ltac ps_go tac := repeat first [ps_step | progress tac].

(* both sides read their state *)
Ltac ps_get_both := apply ps_get_l, ps_get_r; cbv beta.
Ltac ps_put_both := apply ps_put_l, ps_put_r.

(* ------------------------------------------------------------ the programs of Decode.v *)

Lemma psim_read_byte s s' : eqv s s' -> psim s s' read_byte read_byte.
Proof. intros He. unfold read_byte. ps_go idtac. Qed.

Lemma psim_read_full n s s' : eqv s s' -> psim s s' (read_full n) (read_full n).
Proof. intros He. unfold read_full. ps_go idtac. Qed.

Lemma psim_pdm b s s' : eqv s s' ->
  psim s s' (parse_definition_message b) (parse_definition_message b).
Proof.
  intros He. unfold parse_definition_message, read_byte, read_full, fail, panic. cbv zeta.
  ps_go idtac.
Qed.

Lemma psim_time_step {A} s s' u k n (f f' : option goval -> prog dstate err A) :
  eqv s s' ->
  (forall ov s2 s2', eqv s2 s2' -> psim s2 s2' (f ov) (f' ov)) ->
  psim s s'
    (s0 <- get_st ;; let '(ov, s1) := parse_time_stamp s0 u k n in put_st s1 ;;; f ov)
    (s0 <- get_st ;; let '(ov, s1) := parse_time_stamp s0 u k n in put_st s1 ;;; f' ov).
Proof.
  intros He Hk. unfold get_st. cbn [bind]. ps_get_both.
  destruct (pts_eqv s s' u k n He) as [Hv Hs].
  destruct (parse_time_stamp s u k n) as [ov s1].
  destruct (parse_time_stamp s' u k n) as [ov' s1'].
  cbn [fst snd] in Hv, Hs. subst ov'.
  unfold put_st. cbn [bind]. ps_put_both. apply Hk. exact Hs.
Qed.

Lemma psim_pof o dm known fd msgv s s' : eqv s s' ->
  psim s s' (parse_one_field o dm known fd msgv) (parse_one_field no_opts dm known fd msgv).
Proof.
  intros He. unfold parse_one_field. cbv zeta. apply psim_bind.
  - destruct (get_field (dm_gmn dm) (fd_num fd)) as [p|].
    + unfold panic. ps_go idtac.
    + cbn [o_unkf no_opts]. rewrite andb_false_r.
      destruct (known && o_unkf o).
      * unfold get_st, put_st. cbn [bind]. apply ps_get_l, ps_put_l, ps_ret.
        apply eqv_unkf_l. exact He.
      * apply ps_ret. exact He.
  - intros u s2 s2' He2. cbv beta. unfold read_full, fail, panic.
    ps_go ltac:(apply psim_time_step; [assumption | intros ? ? ? ?; cbv beta]).
Qed.

Lemma psim_pfs o dm known : forall fds msgv s s', eqv s s' ->
  psim s s' (parse_fields o dm known fds msgv) (parse_fields no_opts dm known fds msgv).
Proof.
  induction fds as [|fd r IH]; intros msgv s s' He; cbn [parse_fields].
  - apply ps_ret. exact He.
  - apply psim_bind; [apply psim_pof; exact He|].
    intros m2 s2 s2' He2. apply IH. exact He2.
Qed.

Lemma psim_skip : forall devs s s', eqv s s' -> psim s s' (skip_dev_fields devs) (skip_dev_fields devs).
Proof.
  induction devs as [|[[a size] c] r IH]; intros s s' He; cbn [skip_dev_fields].
  - apply ps_ret. exact He.
  - apply psim_bind; [apply psim_read_full; exact He|].
    intros l s2 s2' He2. apply IH. exact He2.
Qed.

Lemma psim_pdf o dm known msgv s s' : eqv s s' ->
  psim s s' (parse_data_fields o dm known msgv) (parse_data_fields no_opts dm known msgv).
Proof.
  intros He. unfold parse_data_fields.
  apply psim_bind; [apply psim_pfs; exact He|].
  intros m s2 s2' He2. cbv beta.
  apply psim_bind; [apply psim_skip; exact He2|].
  intros u s3 s3' He3. apply ps_ret. exact He3.
Qed.

Lemma psim_pdmsg o b compressed s s' : eqv s s' ->
  psim s s' (parse_data_message o b compressed) (parse_data_message no_opts b compressed).
Proof.
  intros He. unfold parse_data_message. cbv zeta.
  set (local := if compressed then _ else _).
  unfold get_st. cbn [bind]. ps_get_both.
  pose proof He as (Hd & Ht & Hl & Hf & Hg & Hq & Hh).
  rewrite <- Hd.
  destruct (nth (N.to_nat local) (ds_defs s) None) as [dm|]; [|apply ps_fail; exact He].
  apply psim_bind.
  - destruct (known_msg (dm_gmn dm)).
    + destruct (mesg_all_invalid (dm_gmn dm)) as [m|]; [apply ps_ret; exact He|apply ps_panic].
    + cbn [o_unkm no_opts]. cbn [bind].
      destruct (o_unkm o); unfold put_st; cbn [bind].
      * apply ps_put_l, ps_ret. apply eqv_unkm_l. exact He.
      * apply ps_ret. exact He.
  - intros msgv s2 s2' He2. cbv beta.
    destruct compressed; cbn [negb]; [|apply psim_pdf; exact He2].
    ps_get_both.
    pose proof He2 as (Hd2 & Ht2 & Hl2 & Hf2 & Hg2 & Hq2 & Hh2).
    rewrite <- Ht2, <- Hl2, <- Hh2.
    destruct (negb (ds_hasts s2)); [apply psim_pdf; exact He2|].
    unfold put_st. cbn [bind]. ps_put_both.
    match goal with |- psim ?a ?b _ _ => assert (He3 : eqv a b) by (apply eqv_time; exact He2) end.
    unfold panic.
    ps_go ltac:(apply psim_pdf; assumption).
Qed.

Lemma psim_add_msg m s s' : eqv s s' -> psim s s' (add_msg m) (add_msg m).
Proof.
  intros He. unfold add_msg, get_st. cbn [bind]. ps_get_both.
  pose proof He as (Hd & Ht & Hl & Hf & Hg & Hq & Hh).
  rewrite <- Hf, <- Hg.
  destruct (file_add (ds_file s) (ds_g s) m) as [f g|w].
  - unfold put_st. ps_put_both. apply ps_ret. apply eqv_file. exact He.
  - apply ps_panic.
Qed.

Lemma psim_set_def dm s s' : eqv s s' -> psim s s' (set_def dm) (set_def dm).
Proof.
  intros He. unfold set_def, get_st, put_st. cbn [bind]. ps_get_both. ps_put_both.
  pose proof He as (Hd & Ht & Hl & Hf & Hg & Hq & Hh).
  rewrite <- Hd. apply ps_ret. apply eqv_defs. exact He.
Qed.

Lemma psim_do_init s s' : eqv s s' -> psim s s' do_init do_init.
Proof.
  intros He. unfold do_init, get_st. cbn [bind]. ps_get_both.
  pose proof He as (Hd & Ht & Hl & Hf & Hg & Hq & Hh).
  rewrite <- Hf, <- Hg.
  destruct (file_init (ds_file s)) as [f|].
  - unfold put_st. ps_put_both. apply ps_ret. apply eqv_file. exact He.
  - apply ps_fail. exact He.
Qed.

Ltac ps_blocks :=
  first [ apply psim_pdm | apply psim_set_def | apply psim_pdmsg | apply psim_add_msg
        | apply psim_do_init ]; assumption.

Lemma psim_file_id o s s' : eqv s s' ->
  psim s s' (parse_file_id_msg o) (parse_file_id_msg no_opts).
Proof.
  intros He. unfold parse_file_id_msg, read_byte, fail, panic.
  ps_go ps_blocks.
Qed.

Theorem record_opts_invisible_prog o s s' : eqv s s' ->
  psim s s' (parse_record o) (parse_record no_opts).
Proof.
  intros He. unfold parse_record, read_byte, fail.
  ps_go ps_blocks.
Qed.

Theorem records_opts_invisible_prog o : forall fuel s s', eqv s s' ->
  psim s s' (decode_file_data o fuel) (decode_file_data no_opts fuel).
Proof.
  induction fuel as [|f IH]; intros s s' He; cbn [decode_file_data].
  - apply ps_panic.
  - apply ps_more. intros [|].
    + apply psim_bind; [apply record_opts_invisible_prog; exact He|].
      intros u s2 s2' He2. apply IH. exact He2.
    + apply ps_ret. exact He.
Qed.

Theorem opts_invisible_prog : forall o fid fuel s s', eqv s s' ->
  psim s s' (data_prog o fid fuel) (data_prog no_opts fid fuel).
Proof.
  intros o fid fuel s s' He. unfold data_prog.
  apply psim_bind; [apply psim_file_id; exact He|].
  intros u s2 s2' He2. cbv beta.
  destruct fid; [apply ps_ret; exact He2|].
  apply psim_bind; [apply psim_do_init; exact He2|].
  intros u3 s3 s3' He3. apply records_opts_invisible_prog. exact He3.
Qed.

(* ------------------------------------------------------------ both interpreters *)

Theorem record_opts_invisible_abstract : forall o x s s', eqv s s' ->
  rsim (run_a (parse_record o) x s) (run_a (parse_record no_opts) x s').
Proof. intros o x s s' He. apply psim_run_a, record_opts_invisible_prog, He. Qed.

Theorem record_opts_invisible_buffered : forall o c s s', eqv s s' ->
  rsim (run_c (parse_record o) c s) (run_c (parse_record no_opts) c s').
Proof. intros o c s s' He. apply psim_run_c, record_opts_invisible_prog, He. Qed.

Theorem records_opts_invisible_abstract : forall o fuel x s s', eqv s s' ->
  rsim (run_a (decode_file_data o fuel) x s) (run_a (decode_file_data no_opts fuel) x s').
Proof. intros o fuel x s s' He. apply psim_run_a, records_opts_invisible_prog, He. Qed.

Theorem records_opts_invisible_buffered : forall o fuel c s s', eqv s s' ->
  rsim (run_c (decode_file_data o fuel) c s) (run_c (decode_file_data no_opts fuel) c s').
Proof. intros o fuel c s s' He. apply psim_run_c, records_opts_invisible_prog, He. Qed.

Theorem opts_invisible_abstract : forall o fid fuel x s s', eqv s s' ->
  rsim (run_a (data_prog o fid fuel) x s) (run_a (data_prog no_opts fid fuel) x s').
Proof. intros o fid fuel x s s' He. apply psim_run_a, opts_invisible_prog, He. Qed.

Theorem opts_invisible_buffered : forall o fid fuel c s s', eqv s s' ->
  rsim (run_c (data_prog o fid fuel) c s) (run_c (data_prog no_opts fid fuel) c s').
Proof. intros o fid fuel c s s' He. apply psim_run_c, opts_invisible_prog, He. Qed.

(* any two option sets, not only [o] against [no_opts] *)
Lemma rsim_sym {X A} (r r' : result X dstate err A) : rsim r r' -> rsim r' r.
Proof.
  destruct r, r'; cbn [rsim]; try contradiction; try (intros (Ha & Hx & He); auto using eqv_sym); auto.
Qed.
Lemma rsim_trans {X A} (r1 r2 r3 : result X dstate err A) : rsim r1 r2 -> rsim r2 r3 -> rsim r1 r3.
Proof.
  destruct r1, r2, r3; cbn [rsim]; try contradiction;
    try (intros (Ha & Hx & He) (Ha' & Hx' & He'); repeat split; try congruence; eapply eqv_trans; eassumption).
  - intros Hw Hw'. congruence.
  - auto.
Qed.

Theorem opts_invisible_buffered2 : forall o o' fid fuel c s s', eqv s s' ->
  rsim (run_c (data_prog o fid fuel) c s) (run_c (data_prog o' fid fuel) c s').
Proof.
  intros o o' fid fuel c s s' He.
  eapply rsim_trans; [apply opts_invisible_buffered; exact He|].
  apply rsim_sym. apply opts_invisible_buffered. apply eqv_refl.
Qed.

(* ------------------------------------------------------------ the entry points *)

Definition strip_unknown (f : file) : file :=
  mk_file (f_header f) (f_crc f) (f_slots f) (f_inited f) None None.

Definition project (r : tout dres) : tout (option err * header * option file * reader * gstate * list N) :=
  match r with
  | TDone d => TDone (dr_err d, dr_hdr d, option_map strip_unknown (dr_file d), dr_rd d, dr_g d, dr_quirks d)
  | TPanic w => TPanic w
  | TOutOfFuel => TOutOfFuel
  end.

Lemma strip_finalize o o' s s' : eqv s s' ->
  strip_unknown (finalize_unknown o s) = strip_unknown (finalize_unknown o' s').
Proof.
  intros (Hd & Ht & Hl & Hf & Hg & Hq & Hh). unfold strip_unknown, finalize_unknown.
  cbn [f_header f_crc f_slots f_inited]. rewrite Hf. reflexivity.
Qed.

(* what [decode] does with the result of the buffered phase *)
Definition decode_tail (o : dopts) (fid : bool) (h : header) (fuel : nat)
  (r : result cst dstate err unit) : tout dres :=
  match r with
  | ROutOfFuel => TOutOfFuel
  | RPanic w => TPanic w
  | RFail e c s => TDone (mk_dres (Some e) h (Some (finalize_unknown o s)) (c_rd c) (ds_g s) (ds_quirks s))
  | RIOErr e c s => TDone (mk_dres (Some (EIO e)) h (Some (finalize_unknown o s)) (c_rd c) (ds_g s) (ds_quirks s))
  | ROk _ c s =>
      if fid then TDone (mk_dres None h (Some (finalize_unknown o s)) (c_rd c) (ds_g s) (ds_quirks s)) else
      if negb (Nat.eqb (c_n c) (c_limit c)) then TPanic 7 else
      match check_crc fuel (c_rd c) (c_crc c) (ds_file s) with
      | OutOfFuel => TOutOfFuel
      | Done (e, f, rd3) =>
          TDone (mk_dres e h (Some (finalize_unknown o (with_file s f (ds_g s)))) rd3 (ds_g s) (ds_quirks s))
      end
  end.

Lemma decode_tail_sim o o' fid h fuel r r' : rsim r r' ->
  project (decode_tail o fid h fuel r) = project (decode_tail o' fid h fuel r').
Proof.
  destruct r as [a c s|e c s|e c s|w|], r' as [a' c' s'|e' c' s'|e' c' s'|w'|];
    cbn [rsim]; try contradiction.
  - intros (Ha & Hc & He). subst c'. pose proof He as (Hd & Ht & Hl & Hf & Hg & Hq & Hh).
    unfold decode_tail. destruct fid.
    + cbn [project dr_err dr_hdr dr_file dr_rd dr_g dr_quirks option_map].
      rewrite (strip_finalize o o' s s' He), Hg, Hq. reflexivity.
    + destruct (negb (Nat.eqb (c_n c) (c_limit c))); [reflexivity|].
      rewrite <- Hf.
      destruct (check_crc fuel (c_rd c) (c_crc c) (ds_file s)) as [[[e f] rd3]|]; [|reflexivity].
      cbn [project dr_err dr_hdr dr_file dr_rd dr_g dr_quirks option_map].
      rewrite (strip_finalize o o' (with_file s f (ds_g s)) (with_file s' f (ds_g s'))).
      * rewrite Hg, Hq. reflexivity.
      * rewrite <- Hg. apply eqv_file. exact He.
  - intros (Ha & Hc & He). subst c' e'. pose proof He as (Hd & Ht & Hl & Hf & Hg & Hq & Hh).
    unfold decode_tail. cbn [project dr_err dr_hdr dr_file dr_rd dr_g dr_quirks option_map].
    rewrite (strip_finalize o o' s s' He), Hg, Hq. reflexivity.
  - intros (Ha & Hc & He). subst c' e'. pose proof He as (Hd & Ht & Hl & Hf & Hg & Hq & Hh).
    unfold decode_tail. cbn [project dr_err dr_hdr dr_file dr_rd dr_g dr_quirks option_map].
    rewrite (strip_finalize o o' s s' He), Hg, Hq. reflexivity.
  - intros Hw. subst w'. reflexivity.
  - intros _. reflexivity.
Qed.

(* messages, error, header, bytes consumed (rd_pos of the reader), accumulators and quirk
   tags are the same for all 8 option sets, on every input *)
Theorem opts_invisible2 : forall o o' md g rd fuel,
  project (decode o md g rd fuel) = project (decode o' md g rd fuel).
Proof.
  intros o o' md g rd fuel. unfold decode.
  destruct (decode_header fuel rd) as [[[[oe h] crc] rd1]|]; [|reflexivity].
  destruct oe as [e|]; [reflexivity|].
  destruct md; try reflexivity; cbv zeta.
  - apply (decode_tail_sim o o' false h fuel). apply opts_invisible_buffered2. apply eqv_refl.
  - apply (decode_tail_sim o o' true h fuel). apply opts_invisible_buffered2. apply eqv_refl.
Qed.

Theorem opts_invisible : forall o md g rd fuel,
  project (decode o md g rd fuel) = project (decode no_opts md g rd fuel).
Proof. intros o md g rd fuel. apply opts_invisible2. Qed.

Corollary opts_invisible_Decode : forall o g rd fuel,
  project (entry_Decode o g rd fuel) = project (entry_Decode no_opts g rd fuel).
Proof. intros o g rd fuel. apply opts_invisible. Qed.

(* ------------------------------------------------------------ DecodeChained *)

Definition project_chain (r : tout Decode.cres) : tout (option err * list file * reader * gstate * list N) :=
  match r with
  | TDone c => TDone (cr_err c, map strip_unknown (cr_files c), cr_rd c, cr_g c, cr_quirks c)
  | TPanic w => TPanic w
  | TOutOfFuel => TOutOfFuel
  end.

Lemma chained_opts_invisible_gen o : forall files g rd fuel i acc acc' q,
  map strip_unknown acc = map strip_unknown acc' ->
  project_chain (decode_chained o g rd fuel i files acc q) =
  project_chain (decode_chained no_opts g rd fuel i files acc' q).
Proof.
  induction files as [|k IH]; intros g rd fuel i acc acc' q Hacc; cbn [decode_chained]; [reflexivity|].
  pose proof (opts_invisible o MFull g rd fuel) as Hp.
  destruct (decode o MFull g rd fuel) as [r|w|], (decode no_opts MFull g rd fuel) as [r'|w'|];
    cbn [project] in Hp; try discriminate; [| injection Hp as Hw; subst w'; reflexivity | reflexivity].
  destruct r as [e h f rd1 g1 q1], r' as [e' h' f' rd1' g1' q1'].
  cbn [dr_err dr_hdr dr_file dr_rd dr_g dr_quirks] in *.
  injection Hp as He Hh Hf Hrd Hg Hq. subst e' h' rd1' g1' q1'.
  assert (Hacc2 : map strip_unknown (match f with Some f0 => acc ++ [f0] | None => acc end) =
                  map strip_unknown (match f' with Some f0 => acc' ++ [f0] | None => acc' end)).
  { destruct f as [f0|], f' as [f0'|]; cbn [option_map] in Hf; try discriminate; [|exact Hacc].
    assert (Hs : strip_unknown f0 = strip_unknown f0') by congruence.
    rewrite !map_app. cbn [map]. rewrite Hacc, Hs. reflexivity. }
  destruct e as [e|].
  - destruct e, i; cbn [project_chain cr_err cr_files cr_rd cr_g cr_quirks];
      rewrite ?Hacc, ?Hacc2; reflexivity.
  - apply IH. exact Hacc2.
Qed.

Theorem opts_invisible_DecodeChained : forall o g rd fuel,
  project_chain (entry_DecodeChained o g rd fuel) = project_chain (entry_DecodeChained no_opts g rd fuel).
Proof. intros o g rd fuel. unfold entry_DecodeChained. apply chained_opts_invisible_gen. reflexivity. Qed.

(* ------------------------------------------------------------ a concrete instance *)

Example opts_invisible_example :
  rsim (run_a (data_prog (mk_dopts true true true) false 8) (mk_ast [0x40; 0; 0; 0; 0; 0] TEOF 0 6)
               (init_dstate (new_file zero_header) g_init))
       (run_a (data_prog no_opts false 8) (mk_ast [0x40; 0; 0; 0; 0; 0] TEOF 0 6)
               (init_dstate (new_file zero_header) g_init)).
Proof. apply opts_invisible_abstract. apply eqv_refl. Qed.

(* the relation is not vacuous: on a definition + data message of an unknown global
   message number the counters do differ, everything else (here: bytes consumed) agrees *)
Example opts_counters_differ :
  let x0 := mk_ast [0x40; 0; 0; 0x34; 0xFF; 1; 0; 1; 2; 0x00; 5] TEOF 0 11 in
  let s0 := init_dstate (new_file zero_header) g_init in
  match run_a (decode_file_data (mk_dopts false true true) 3) x0 s0,
        run_a (decode_file_data no_opts 3) x0 s0 with
  | ROk _ x s, ROk _ x' s' => Some (ds_unkm s, ds_unkm s', a_n x, a_n x')
  | _, _ => None
  end = Some ([(0xFF34, 1)], [], 11%nat, 11%nat).
Proof. vm_compute. reflexivity. Qed.

Print Assumptions opts_invisible_prog.
Print Assumptions opts_invisible_abstract.
Print Assumptions opts_invisible_buffered.
Print Assumptions records_opts_invisible_abstract.
Print Assumptions opts_invisible2.
Print Assumptions opts_invisible_DecodeChained.
Print Assumptions opts_invisible.
