(* C05: the record section Encode writes parses under the FIT grammar
   (Spec/Grammar.v): every data record is preceded by the definition of its
   local type, the field sizes of the definition add up to the record length and
   are multiples of their base-type size. *)
From Coq Require Import NArith ZArith List Bool Lia String.
From Coq Require Import ZifyN ZifyNat ZifyBool.
From FitV Require Import Model.Values Model.Bytes Model.Base Model.Profile Model.Crc Model.Header
  Model.Components Model.Route Model.Encode Spec.CrcSpec Spec.Grammar Spec.RoundTrip
  Proofs.Util Proofs.CrcProofs Proofs.EncodeProofs Gen.Consts Gen.ProfileData Gen.RoutingData.
(* fsize, field_out and the record layout functions are executable definitions of Spec/EncLayout.v *)
From FitV Require Export Spec.EncLayout.
Import ListNotations.
Local Open Scope N_scope.
Ltac Zify.zify_post_hook ::= Z.div_mod_to_equations.

(* ---------------------------------------------------------------- what the profile must satisfy *)
(* bytes binary.Write emits for one value of a scalar Go type *)
Definition scalar_size (ty : gotype) : option N :=
  match ty with
  | TU b | TI b | TF b => Some (b / 8)
  | TLat | TLng => Some 4
  | _ => None
  end.
Definition opt_eq (a : option N) (b : N) : bool := match a with Some x => x =? b | None => false end.

(* per profile entry: its three definition bytes are bytes and pass the grammar's
   field check; the Go type of the struct field has the width of the base type
   (arrays: element type and the type of the invalid value; no byte overflow of
   size * length); time and coordinate kinds are 4 bytes wide *)
Definition entry_ok (gmn : N) (pf : pfield) : bool :=
  let t := pf_t pf in let bt := fit_base t in
  match b_size bt with
  | None => false
  | Some bs =>
    (pf_num pf <? 256) && (pf_length pf <? 256) && field_def_ok (pf_num pf, fsize pf, bt) &&
    match field_type gmn (pf_sindex pf) with
    | None => true
    | Some ty =>
      (if fit_array t then
         (fit_kind t =? kind_native) &&
         ((bt =? base_string) ||
          ((fsize pf =? bs * pf_length pf) && opt_eq (scalar_size (elem_type ty)) bs &&
           match invalid_type bt with Some ity => opt_eq (scalar_size ity) bs | None => true end))
       else if fit_kind t =? kind_native then
         (bt =? base_string) || (opt_eq (scalar_size ty) bs && (fsize pf =? bs))
       else fsize pf =? 4)
    end
  end.

(* per message: 16-bit number, fewer than 256 entries, entries keyed by their
   field number, every struct index owned by an entry (getFieldBySindex never
   falls through to fields[255]) and distinct struct indices owned by distinct
   field numbers *)
Definition msg_ok (m : msgdesc) : bool :=
  (md_num m <? 65536) && (N.of_nat (List.length (md_entries m)) <? 256) && (N.of_nat (List.length (md_invalid m)) <? 256) &&
  forallb (fun e => fst e =? pf_num (snd e)) (md_entries m) &&
  forallb (fun e => entry_ok (md_num m) (snd e)) (md_entries m) &&
  forallb (fun i => match find (fun e => Nat.eqb (pf_sindex (snd e)) i) (md_entries m) with Some _ => true | None => false end)
          (seq 0 (List.length (md_layout m))) &&
  nodup_n (map (fun i => match get_field_by_sindex (md_num m) i with Some pf => pf_num pf | None => 999 end)
               (seq 0 (List.length (md_layout m)))).

Lemma profile_msgs_ok : forallb msg_ok messages = true.
Proof. vm_compute. reflexivity. Qed.

Lemma find_msg_num gmn m : find_msg gmn = Some m -> md_num m = gmn.
Proof. unfold find_msg. intros H. apply find_some in H as [_ H]. now apply N.eqb_eq in H. Qed.

Lemma find_msg_ok gmn m : find_msg gmn = Some m -> msg_ok m = true.
Proof.
  intros H. apply find_msg_in in H. pose proof profile_msgs_ok as T. rewrite forallb_forall in T. now apply T.
Qed.

Lemma from_profile_entry_ok gmn pf : from_profile gmn pf -> entry_ok gmn pf = true.
Proof.
  intros (i & Hi). apply by_sindex_in in Hi as (m & e & Hm & He & <- & Hf).
  pose proof (find_msg_ok _ _ Hf) as Hok. pose proof (find_msg_num _ _ Hf) as <-.
  unfold msg_ok in Hok. repeat (apply andb_true_iff in Hok as [Hok ?]).
  match goal with H : forallb (fun e => entry_ok _ _) _ = true |- _ => rewrite forallb_forall in H; now apply H end.
Qed.

(* ---------------------------------------------------------------- lengths *)
Lemma econcat_parts l : forall body, econcat l = EOk body ->
  exists parts, Forall2 (fun r p => r = EOk p) l parts /\ body = List.concat parts.
Proof.
  induction l as [|r l IH]; intros body H; cbn [econcat] in H.
  - inversion H. exists []. split; constructor.
  - apply ebind_ok in H as (x & Hx & H). apply ebind_ok in H as (y & Hy & H). inversion H; subst.
    destruct (IH _ Hy) as (parts & HF & ->). exists (x :: parts). split; [constructor; auto|reflexivity].
Qed.

Lemma econcat_all_ok l body : econcat l = EOk body -> forall r, In r l -> exists p, r = EOk p.
Proof.
  intros H. apply econcat_parts in H as (parts & HF & _).
  induction HF as [|r p l parts Hr HF IH]; intros r0 Hin; [contradiction|].
  destruct Hin as [<-|Hin]; [eauto|auto].
Qed.

Lemma econcat_len l es : forall body, econcat l = EOk body ->
  (forall r p, In r l -> r = EOk p -> N.of_nat (List.length p) = es) ->
  N.of_nat (List.length body) = N.of_nat (List.length l) * es.
Proof.
  induction l as [|r l IH]; intros body H Hall; cbn [econcat] in H.
  - inversion H. reflexivity.
  - apply ebind_ok in H as (x & Hx & H). apply ebind_ok in H as (y & Hy & H). inversion H; subst.
    rewrite app_length. cbn [List.length].
    pose proof (Hall _ x (or_introl eq_refl) eq_refl) as E1.
    pose proof (IH _ Hy (fun r0 p Hin => Hall r0 p (or_intror Hin))) as E2. lia.
Qed.

Lemma bw_len be ty v p s : scalar_size ty = Some s -> bw be ty v = EOk p -> N.of_nat (List.length p) = s.
Proof.
  intros Hs H. destruct ty; cbn [scalar_size] in Hs; inversion Hs; subst; clear Hs;
    destruct v; cbn [bw] in H; try discriminate; inversion H; subst; rewrite put_int_length; unfold nbytes;
    try apply N2Nat.id; reflexivity.
Qed.

Lemma kind_native_eq t : (fit_kind t =? kind_native) = true -> fit_kind t = 0.
Proof. intros H. now apply N.eqb_eq in H. Qed.

Lemma encode_value_native be pf ty v : (fit_kind (pf_t pf) =? kind_native) = true ->
  encode_value be pf ty v =
  if fit_base (pf_t pf) =? base_string then match v with VStr s => encode_string s (pf_length pf) | _ => EErr EENotString end
  else bw be ty v.
Proof. intros Hk. unfold encode_value. rewrite (kind_native_eq _ Hk). reflexivity. Qed.

Lemma encode_string_len s size p : encode_string s size = EOk p -> List.length p = N.to_nat size.
Proof.
  unfold encode_string. destruct (size =? 0) eqn:E0; [discriminate|]. destruct (utf8_valid _); [|discriminate].
  intros H. inversion H; subst. rewrite app_length, firstn_length, repeat_length. apply N.eqb_neq in E0. lia.
Qed.

Lemma encode_value_4 be pf ty v p : (fit_kind (pf_t pf) =? kind_native) = false ->
  encode_value be pf ty v = EOk p -> List.length p = 4%nat.
Proof.
  intros Hk H. unfold encode_value in H. rewrite Hk in H.
  repeat match type of H with
         | (if ?c then _ else _) = _ => destruct c
         | match ?v with _ => _ end = _ => destruct v
         end; try discriminate; inversion H; subst; apply put_int_length.
Qed.

Lemma write_field_len be gmn pf ty v p :
  entry_ok gmn pf = true -> field_type gmn (pf_sindex pf) = Some ty ->
  write_field be pf ty v = EOk p -> N.of_nat (List.length p) = fsize pf.
Proof.
  intros Hok Hty H. unfold entry_ok in Hok. cbv zeta in Hok.
  destruct (b_size (fit_base (pf_t pf))) as [bs|] eqn:Ebs; [|discriminate]. rewrite Hty in Hok.
  apply andb_true_iff in Hok as [Hok Hk]. unfold write_field in H. cbv zeta in H.
  destruct (fit_array (pf_t pf)) eqn:Ea; cbn [negb] in H.
  - apply andb_true_iff in Hk as [Hk Hr].
    destruct (fit_base (pf_t pf) =? base_string) eqn:Es; [discriminate|]. cbn [orb] in Hr.
    apply andb_true_iff in Hr as [Hr Hinv]. apply andb_true_iff in Hr as [Hfs Hel].
    apply N.eqb_eq in Hfs. rewrite Hfs.
    destruct (b_known _) as [kn|]; [|discriminate].
    destruct (match v with VList l => Some l | VNil => Some [] | _ => None end) as [l|]; [|discriminate].
    set (len8 := N.of_nat (List.length l) mod 256) in *.
    set (mx := if pf_length pf <? len8 then pf_length pf else len8) in *.
    assert (Hmx : mx <= pf_length pf /\ mx <= N.of_nat (List.length l)).
    { subst mx len8. assert (Hm := N.mod_le (N.of_nat (List.length l)) 256 ltac:(discriminate)).
      destruct (pf_length pf <? N.of_nat (List.length l) mod 256) eqn:E; [apply N.ltb_lt in E|apply N.ltb_ge in E]; clear - Hm E; split; lia. }
    match type of H with econcat (?e ++ ?pd) = _ => set (elems := e) in *; set (pad := pd) in * end.
    assert (Hpad : List.length pad = N.to_nat (pf_length pf - mx)).
    { subst pad. destruct (N.to_nat (pf_length pf - mx)) as [|k] eqn:En; [reflexivity|].
      destruct (negb kn).
      { destruct (econcat_all_ok _ _ H (EErr EEWrite)) as (q & Hq); [apply in_or_app; right; now left|discriminate]. }
      destruct (b_invalid _); [|destruct (econcat_all_ok _ _ H (EPanic 4)) as (q & Hq); [apply in_or_app; right; now left|discriminate]].
      destruct (invalid_type _); [|destruct (econcat_all_ok _ _ H (EPanic 4)) as (q & Hq); [apply in_or_app; right; now left|discriminate]].
      apply repeat_length. }
    assert (Hel2 : List.length elems = N.to_nat mx).
    { subst elems. rewrite map_length, firstn_length. lia. }
    rewrite (econcat_len _ bs _ H).
    + rewrite app_length, Hpad, Hel2, Nat2N.inj_add, !N2Nat.id.
      replace (mx + (pf_length pf - mx)) with (pf_length pf) by (clear - Hmx; lia). apply N.mul_comm.
    + intros r q Hin Hq. apply in_app_or in Hin as [Hin|Hin].
      * subst elems. apply in_map_iff in Hin as (x & <- & _). rewrite (encode_value_native _ _ _ _ Hk), Es in Hq.
        destruct (scalar_size (elem_type ty)) as [s|] eqn:Ess; [|discriminate]. cbn [opt_eq] in Hel. apply N.eqb_eq in Hel. subst s.
        eapply bw_len; eassumption.
      * subst pad. destruct (N.to_nat (pf_length pf - mx)) as [|k]; [contradiction|].
        destruct (negb kn); [destruct Hin as [<-|[]]; discriminate|].
        destruct (b_invalid _) as [iv|]; [|destruct Hin as [<-|[]]; discriminate].
        destruct (invalid_type _) as [ity|]; [|destruct Hin as [<-|[]]; discriminate].
        apply repeat_spec in Hin. subst r. rewrite (encode_value_native _ _ _ _ Hk), Es in Hq.
        destruct (scalar_size ity) as [s|] eqn:Ess; [|discriminate]. cbn [opt_eq] in Hinv. apply N.eqb_eq in Hinv. subst s.
        eapply bw_len; eassumption.
  - destruct (fit_kind (pf_t pf) =? kind_native) eqn:Ekn.
    + rewrite (encode_value_native _ _ _ _ Ekn) in H.
      destruct (fit_base (pf_t pf) =? base_string) eqn:Es.
      * destruct v; try discriminate. apply encode_string_len in H. rewrite H, N2Nat.id.
        unfold fsize. now rewrite Ebs, Es.
      * cbn [orb] in Hk. apply andb_true_iff in Hk as [Hs Hf]. apply N.eqb_eq in Hf. rewrite Hf.
        destruct (scalar_size ty) as [s|] eqn:Ess; [|discriminate]. cbn [opt_eq] in Hs. apply N.eqb_eq in Hs. subst s.
        eapply bw_len; eassumption.
    + apply N.eqb_eq in Hk. rewrite Hk. apply (encode_value_4 _ _ _ _ _ Ekn) in H. now rewrite H.
Qed.

(* ---------------------------------------------------------------- definition records *)
Definition ftriple (pf : pfield) : N * N * N := (pf_num pf, fsize pf, fit_base (pf_t pf)).
Definition gdef_of (be : bool) (gmn : N) (fields : list pfield) : gdef := mk_gdef gmn be (map ftriple fields) 0.
Definition fbytes (fields : list pfield) : list N :=
  flat_map (fun pf => [pf_num pf; fsize pf; fit_base (pf_t pf)]) fields.

Lemma take_app (a b : list N) : take (List.length a) (a ++ b) = Some (a, b).
Proof.
  unfold take. rewrite app_length. replace (Nat.leb _ _) with true by (symmetry; apply Nat.leb_le; lia).
  now rewrite firstn_len_app, skipn_len_app.
Qed.

Lemma econcat_fdefs : forall fields fb, econcat (map fdef_bytes fields) = EOk fb -> fb = fbytes fields.
Proof.
  induction fields as [|pf r IH]; intros fb H; cbn [map econcat] in H.
  - now inversion H.
  - apply ebind_ok in H as (x & Hx & H). apply ebind_ok in H as (y & Hy & H). inversion H; subst.
    rewrite (IH _ Hy). unfold fdef_bytes in Hx. unfold fbytes. cbn [flat_map]. f_equal.
    unfold fsize. destruct (b_size _); [|discriminate]. now inversion Hx.
Qed.

Lemma triples_fbytes : forall fields, triples (fbytes fields) = map ftriple fields.
Proof. induction fields as [|pf r IH]; [reflexivity|]. unfold fbytes in *. cbn [flat_map app triples map]. now rewrite IH. Qed.

Lemma fbytes_length fields : List.length (fbytes fields) = (3 * List.length fields)%nat.
Proof. induction fields as [|pf r IH]; [reflexivity|]. unfold fbytes in *. cbn [flat_map app List.length]. rewrite IH. lia. Qed.

Lemma forallb_map_comp {A B} (p : B -> bool) (g : A -> B) l : forallb p (map g l) = forallb (fun x => p (g x)) l.
Proof. induction l; cbn; [reflexivity|now rewrite IHl]. Qed.

Lemma num_of_put_int2 be g : g < 65536 -> num_of be (put_int be 2 g) = g.
Proof. intros H. destruct be; cbv [num_of be_num le_num put_int le_bytes rev app]; lia. Qed.

Lemma put_int_2 be g : put_int be 2 g = if be then [(g / 256) mod 256; g mod 256] else [g mod 256; (g / 256) mod 256].
Proof. destruct be; reflexivity. Qed.

Lemma write_def_parses be gmn fields d :
  write_def_mesg be gmn fields = EOk d -> gmn < 65536 -> N.of_nat (List.length fields) < 256 ->
  forallb (fun pf => field_def_ok (ftriple pf)) fields = true ->
  exists body, d = 64 :: body /\ forall tl, parse_definition 64 (body ++ tl) = Some (gdef_of be gmn fields, tl).
Proof.
  intros H Hg Hn Hok. unfold write_def_mesg in H. apply ebind_ok in H as (fb & Hfb & H).
  apply econcat_fdefs in Hfb. subst fb. inversion H; subst; clear H.
  change (N.lor c_mesgDefinitionMask (N.land 0 c_localMesgNumMask)) with 64.
  eexists. split; [reflexivity|]. intros tl.
  rewrite (N.mod_small _ _ Hg), (N.mod_small _ _ Hn).
  assert (Hnum := num_of_put_int2 be gmn Hg).
  assert (Htk : take (3 * N.to_nat (N.of_nat (List.length fields))) (fbytes fields ++ tl) = Some (fbytes fields, tl)).
  { rewrite Nat2N.id, <- fbytes_length. apply take_app. }
  rewrite put_int_2 in Hnum |- *. unfold parse_definition.
  destruct be; cbn [app N.eqb Pos.eqb negb orb take List.length Nat.leb firstn skipn];
    rewrite Htk, triples_fbytes, forallb_map_comp, Hok; cbn [negb];
    change (N.testbit 64 5) with false; cbv iota; unfold gdef_of; rewrite Hnum; reflexivity.
Qed.

(* ---------------------------------------------------------------- data records *)
Definition grec_of (be : bool) (gmn : N) (fields : list pfield) (parts : list (list N)) : grec :=
  mk_grec gmn be (map (fun x => (pf_num (fst x), fit_base (pf_t (fst x)), snd x)) (combine fields parts)).

Lemma econcat_map_parts {A} (g : A -> eres (list N)) : forall l body, econcat (map g l) = EOk body ->
  exists parts, Forall2 (fun x p => g x = EOk p) l parts /\ body = List.concat parts.
Proof.
  induction l as [|x l IH]; intros body H; cbn [map econcat] in H.
  - inversion H. exists []. split; constructor.
  - apply ebind_ok in H as (a & Ha & H). apply ebind_ok in H as (b & Hb & H). inversion H; subst.
    destruct (IH _ Hb) as (parts & HF & ->). exists (a :: parts). split; [constructor; auto|reflexivity].
Qed.

Lemma split_fields_concat : forall fields parts,
  Forall2 (fun pf p => N.of_nat (List.length p) = fsize pf) fields parts ->
  split_fields (map ftriple fields) (List.concat parts) =
  map (fun x => (pf_num (fst x), fit_base (pf_t (fst x)), snd x)) (combine fields parts).
Proof.
  induction 1 as [|pf p fields parts Hp HF IH]; [reflexivity|].
  cbn [map List.concat combine]. unfold ftriple at 1. cbn [split_fields fst snd].
  rewrite <- Hp, Nat2N.id, firstn_len_app, skipn_len_app, IH. reflexivity.
Qed.

Lemma sum_sizes_parts : forall fields (parts : list (list N)),
  Forall2 (fun pf p => N.of_nat (List.length p) = fsize pf) fields parts ->
  sum_sizes (map ftriple fields) = N.of_nat (List.length (List.concat parts)).
Proof.
  induction 1 as [|pf p fields parts Hp HF IH]; [reflexivity|].
  cbn [map List.concat]. rewrite app_length, Nat2N.inj_add, <- IH, Hp. reflexivity.
Qed.

Lemma take_0 (l : list N) : take 0 l = Some ([], l).
Proof. reflexivity. Qed.

Lemma write_mesg_parses be m fields w :
  write_mesg be m fields = EOk w -> Forall (fun pf => entry_ok (m_num m) pf = true) fields ->
  exists parts, Forall2 (fun pf p => field_out be m pf = EOk p) fields parts /\ w = 0 :: List.concat parts /\
    forall gmn tl, parse_data (gdef_of be gmn fields) (List.concat parts ++ tl) = Some (grec_of be gmn fields parts, tl).
Proof.
  intros H Hok. unfold write_mesg in H. apply ebind_ok in H as (body & Hb & H). inversion H; subst; clear H.
  apply (econcat_map_parts (field_out be m)) in Hb as (parts & HF & ->).
  exists parts. split; [exact HF|]. split; [reflexivity|]. intros gmn tl.
  assert (HL : Forall2 (fun pf p => N.of_nat (List.length p) = fsize pf) fields parts).
  { clear - HF Hok. induction HF as [|pf p fields parts Hp HF IH]; [constructor|].
    inversion Hok; subst. constructor; [|now apply IH].
    unfold field_out in Hp. destruct (nth_error _ _); [|discriminate].
    destruct (field_type _ _) eqn:Ety; [|discriminate]. eapply write_field_len; eassumption. }
  unfold parse_data, gdef_of. cbn [gd_fields gd_dev gd_gmn gd_be].
  rewrite (sum_sizes_parts _ _ HL), Nat2N.id, take_app. change (N.to_nat 0) with 0%nat. rewrite take_0.
  rewrite (split_fields_concat _ _ HL). reflexivity.
Qed.

(* ---------------------------------------------------------------- running the recogniser *)
(* [bytes] is a sequence of complete records: from definitions [defs] the
   recogniser consumes it, ends with definitions [defs'] and emits [out] *)
Definition steps (defs : list (N * gdef)) (bytes : list N) (defs' : list (N * gdef)) (out : list grec) : Prop :=
  exists k, (k <= List.length bytes)%nat /\
    forall fuel tl acc, records (k + fuel) defs (bytes ++ tl) acc = records fuel defs' tl (rev out ++ acc).

Lemma steps_nil defs : steps defs [] defs [].
Proof. exists 0%nat. split; [apply Nat.le_refl|]. intros. reflexivity. Qed.

Lemma steps_app d0 b1 d1 o1 b2 d2 o2 :
  steps d0 b1 d1 o1 -> steps d1 b2 d2 o2 -> steps d0 (b1 ++ b2) d2 (o1 ++ o2).
Proof.
  intros (k1 & L1 & H1) (k2 & L2 & H2). exists (k1 + k2)%nat. split; [rewrite app_length; lia|].
  intros fuel tl acc. rewrite <- app_assoc, <- Nat.add_assoc, H1, H2, rev_app_distr, <- app_assoc. reflexivity.
Qed.

Lemma steps_def defs body d :
  (forall tl, parse_definition 64 (body ++ tl) = Some (d, tl)) -> steps defs (64 :: body) ((0, d) :: defs) [].
Proof.
  intros H. exists 1%nat. split; [cbn [List.length]; lia|]. intros fuel tl acc.
  change (records (1 + fuel) defs ((64 :: body) ++ tl) acc)
    with (match parse_definition 64 (body ++ tl) with
          | None => None
          | Some (d, rest') => records fuel ((0, d) :: defs) rest' acc
          end).
  rewrite H. reflexivity.
Qed.

Lemma steps_data defs d body r :
  lookup_def 0 defs = Some d -> (forall tl, parse_data d (body ++ tl) = Some (r, tl)) -> steps defs (0 :: body) defs [r].
Proof.
  intros Hl H. exists 1%nat. split; [cbn [List.length]; lia|]. intros fuel tl acc.
  change (records (1 + fuel) defs ((0 :: body) ++ tl) acc)
    with (match lookup_def 0 defs with
          | None => None
          | Some d => match parse_data d (body ++ tl) with
                      | None => None
                      | Some (r, rest') => records fuel defs rest' (r :: acc)
                      end
          end).
  rewrite Hl, H. reflexivity.
Qed.

Lemma records_run data defs' out fuel :
  steps [] data defs' out -> (List.length data < fuel)%nat -> records fuel [] data [] = Some out.
Proof.
  intros (k & Hk & H) Hf. replace fuel with (k + S (fuel - k - 1))%nat by lia.
  specialize (H (S (fuel - k - 1)) [] []). rewrite app_nil_r in H. rewrite H.
  cbn [records]. now rewrite app_nil_r, rev_involutive.
Qed.

Lemma lookup_def_head d defs : lookup_def 0 ((0, d) :: defs) = Some d.
Proof. reflexivity. Qed.

(* ---------------------------------------------------------------- one message, one slot *)
(* the record the recogniser returns for message m: its fields are profile
   entries of the message type, each with the bytes writeField wrote for it *)
Definition rec_of (be : bool) (m : msg) (r : grec) : Prop :=
  exists fields parts, Forall (from_profile (m_num m)) fields /\
    Forall2 (fun pf p => field_out be m pf = EOk p) fields parts /\ r = grec_of be (m_num m) fields parts.

Lemma msg_ok_parts m : msg_ok m = true ->
  md_num m < 65536 /\ N.of_nat (List.length (md_entries m)) < 256 /\ N.of_nat (List.length (md_invalid m)) < 256 /\
  (forall e, In e (md_entries m) -> fst e = pf_num (snd e)).
Proof.
  unfold msg_ok. intros H. repeat (apply andb_true_iff in H as [H ?]).
  repeat split; try (now apply N.ltb_lt).
  intros e He. match goal with H : forallb (fun e => fst e =? _) _ = true |- _ => rewrite forallb_forall in H; apply N.eqb_eq; now apply H end.
Qed.

Lemma from_profile_all_ok gmn fields : Forall (from_profile gmn) fields ->
  Forall (fun pf => entry_ok gmn pf = true) fields /\ forallb (fun pf => field_def_ok (ftriple pf)) fields = true.
Proof.
  intros H. split.
  - eapply Forall_impl; [|exact H]. intros pf. apply from_profile_entry_ok.
  - apply forallb_forall. intros pf Hin. rewrite Forall_forall in H. apply H, from_profile_entry_ok in Hin.
    unfold entry_ok in Hin. cbv zeta in Hin. destruct (b_size _); [|discriminate].
    apply andb_true_iff in Hin as [Hin _]. apply andb_true_iff in Hin as [_ Hin]. exact Hin.
Qed.

Lemma def_fields_length gmn : forall vals invs i fs, def_fields gmn i vals invs = EOk fs -> (List.length fs <= List.length vals)%nat.
Proof.
  induction vals as [|v vr IH]; intros invs i fs H; cbn [def_fields] in H.
  - inversion H. apply Nat.le_refl.
  - destruct invs as [|iv ir]; [inversion H; cbn; lia|].
    assert (Hinc : forall fs, match get_field_by_sindex gmn i with
                   | Some pf => ebind (def_fields gmn (S i) vr ir) (fun r => EOk (pf :: r))
                   | None => EPanic 9 end = EOk fs -> (List.length fs <= S (List.length vr))%nat).
    { intros fs0 H0. destruct (get_field_by_sindex gmn i) as [pf|]; [|discriminate].
      apply ebind_ok in H0 as (r & Hr & H0). inversion H0; subst. apply IH in Hr. cbn [List.length]. lia. }
    cbn [List.length].
    destruct v; try (destruct (goval_eqb _ iv); [apply IH in H; lia|now apply Hinc]).
    + apply IH in H. lia.
    + destruct (get_field_by_sindex gmn i) as [pf|] eqn:E; [|discriminate].
      destruct (b_known _); [|discriminate].
      destruct l; [apply IH in H; lia|]. now apply Hinc.
Qed.

Lemma get_def_facts m fs : get_encode_mesg_def m = EOk fs ->
  Forall (from_profile (m_num m)) fs /\ m_num m < 65536 /\ N.of_nat (List.length fs) < 256.
Proof.
  intros H. split; [now apply get_def_from|].
  unfold get_encode_mesg_def, mesg_all_invalid in H.
  destruct (find_msg (m_num m)) as [md|] eqn:Ef; [|discriminate].
  destruct (md_has_ctor md); [|discriminate]. cbn [m_fields] in H.
  destruct (Nat.eqb _ _) eqn:El; [|discriminate]. cbn [negb] in H. apply Nat.eqb_eq in El.
  apply def_fields_length in H. rewrite El in H.
  destruct (msg_ok_parts _ (find_msg_ok _ _ Ef)) as (H1 & _ & H3 & _).
  rewrite (find_msg_num _ _ Ef) in H1. split; [exact H1|lia].
Qed.

Lemma write_unit be defs gmn fields d :
  write_def_mesg be gmn fields = EOk d -> Forall (from_profile gmn) fields -> gmn < 65536 -> N.of_nat (List.length fields) < 256 ->
  steps defs d ((0, gdef_of be gmn fields) :: defs) [].
Proof.
  intros Hd Hfp Hg Hn. destruct (from_profile_all_ok _ _ Hfp) as [_ Hok].
  destruct (write_def_parses _ _ _ _ Hd Hg Hn Hok) as (body & -> & Hp). now apply steps_def.
Qed.

Lemma write_mesg_step be defs m fields w :
  write_mesg be m fields = EOk w -> Forall (from_profile (m_num m)) fields ->
  lookup_def 0 defs = Some (gdef_of be (m_num m) fields) ->
  exists r, steps defs w defs [r] /\ rec_of be m r.
Proof.
  intros Hw Hfp Hl. destruct (from_profile_all_ok _ _ Hfp) as [Hok _].
  destruct (write_mesg_parses _ _ _ _ Hw Hok) as (parts & HF & -> & Hp).
  exists (grec_of be (m_num m) fields parts). split.
  - eapply steps_data; [exact Hl|]. intros tl. apply Hp.
  - exists fields, parts. auto.
Qed.

(* a pointer slot: definition and data record per message *)
Lemma encode_def_and_data_steps be defs m bytes :
  encode_def_and_data be m = EOk bytes -> exists defs' r, steps defs bytes defs' [r] /\ rec_of be m r.
Proof.
  intros H. unfold encode_def_and_data in H.
  apply ebind_ok in H as (fs & Hfs & H). apply ebind_ok in H as (d & Hd & H). apply ebind_ok in H as (w & Hw & H).
  inversion H; subst; clear H. destruct (get_def_facts _ _ Hfs) as (Hfp & Hg & Hn).
  pose proof (write_unit be defs _ _ _ Hd Hfp Hg Hn) as S1.
  destruct (write_mesg_step be ((0, gdef_of be (m_num m) fs) :: defs) _ _ _ Hw Hfp (lookup_def_head _ _)) as (r & S2 & Hr).
  exists ((0, gdef_of be (m_num m) fs) :: defs), r. split; [|exact Hr].
  change [r] with ([] ++ [r]). eapply steps_app; eassumption.
Qed.

Lemma econcat_units be : forall ms defs bytes,
  econcat (map (encode_def_and_data be) ms) = EOk bytes ->
  exists defs' recs, steps defs bytes defs' recs /\ Forall2 (rec_of be) ms recs.
Proof.
  induction ms as [|m ms IH]; intros defs bytes H; cbn [map econcat] in H.
  - inversion H. exists defs, []. split; [apply steps_nil|constructor].
  - apply ebind_ok in H as (a & Ha & H). apply ebind_ok in H as (b & Hb & H). inversion H; subst; clear H.
    destruct (encode_def_and_data_steps be defs _ _ Ha) as (d1 & r & S1 & Hr).
    destruct (IH d1 _ Hb) as (d2 & recs & S2 & HF).
    exists d2, (r :: recs). split; [|constructor; assumption].
    change (r :: recs) with ([r] ++ recs). eapply steps_app; eassumption.
Qed.

(* ---------------------------------------------------------------- a slice slot *)
(* the merged definition is strictly sorted by field number *)
Fixpoint ssorted (l : list pfield) : Prop :=
  match l with
  | [] => True
  | p :: r => Forall (fun q => pf_num p < pf_num q) r /\ ssorted r
  end.

Lemma ins_field_in pf : forall l x, In x (ins_field pf l) -> x = pf \/ In x l.
Proof.
  induction l as [|q r IH]; intros x H; cbn [ins_field] in H.
  - destruct H as [<-|[]]. now left.
  - destruct (pf_num pf <? pf_num q).
    + destruct H as [<-|H]; [now left|now right].
    + destruct (pf_num pf =? pf_num q).
      * destruct H as [<-|H]; [now left|right; now right].
      * destruct H as [<-|H]; [right; now left|]. apply IH in H as [->|H]; [now left|right; now right].
Qed.

Lemma ins_field_sorted pf : forall l, ssorted l -> ssorted (ins_field pf l).
Proof.
  induction l as [|q r IH]; intros H; cbn [ins_field].
  - cbn. auto.
  - destruct H as [Hq Hr]. destruct (pf_num pf <? pf_num q) eqn:E1.
    + apply N.ltb_lt in E1. cbn [ssorted]. split; [|split; assumption].
      constructor; [exact E1|]. eapply Forall_impl; [|exact Hq]. intros a Ha. cbv beta in Ha. lia.
    + destruct (pf_num pf =? pf_num q) eqn:E2.
      * apply N.eqb_eq in E2. cbn [ssorted]. split; [|exact Hr]. now rewrite E2.
      * apply N.ltb_ge in E1. apply N.eqb_neq in E2. cbn [ssorted]. split; [|now apply IH].
        apply Forall_forall. intros x Hx. apply ins_field_in in Hx as [->|Hx]; [lia|].
        rewrite Forall_forall in Hq. now apply Hq.
Qed.

Lemma fold_ins_inv (Pp : pfield -> Prop) : forall fs acc, Forall Pp fs -> Forall Pp acc -> ssorted acc ->
  Forall Pp (fold_left (fun a pf => ins_field pf a) fs acc) /\ ssorted (fold_left (fun a pf => ins_field pf a) fs acc).
Proof.
  induction fs as [|pf r IH]; intros acc Hf Ha Hs; cbn [fold_left]; [auto|].
  inversion Hf; subst. apply IH; [assumption| |now apply ins_field_sorted].
  apply Forall_forall. intros x Hx. apply ins_field_in in Hx as [->|Hx]; [assumption|].
  rewrite Forall_forall in Ha. now apply Ha.
Qed.

Lemma collect_fields_inv mn : forall ms acc fs, Forall (fun m => m_num m = mn) ms ->
  Forall (from_profile mn) acc -> ssorted acc -> collect_fields ms acc = EOk fs ->
  Forall (from_profile mn) fs /\ ssorted fs.
Proof.
  induction ms as [|m r IH]; intros acc fs Hm Ha Hs H; cbn [collect_fields] in H.
  - inversion H; subst. auto.
  - apply ebind_ok in H as (d & Hd & H). inversion Hm; subst.
    apply get_def_from in Hd.
    destruct (fold_ins_inv (from_profile (m_num m)) d acc Hd Ha Hs) as [H1 H2].
    eapply IH; eassumption.
Qed.

Lemma ssorted_nodup l : ssorted l -> NoDup (map pf_num l).
Proof.
  induction l as [|p r IH]; intros H; cbn [map]; [constructor|].
  destruct H as [Hp Hr]. constructor; [|now apply IH].
  intros Hin. apply in_map_iff in Hin as (q & Hq & Hin). rewrite Forall_forall in Hp. apply Hp in Hin. lia.
Qed.

Lemma sorted_fields_short mn fs : Forall (from_profile mn) fs -> ssorted fs -> fs <> [] ->
  mn < 65536 /\ N.of_nat (List.length fs) < 256.
Proof.
  intros Hf Hs Hne. destruct fs as [|p0 r0]; [congruence|].
  pose proof Hf as Hf0. inversion Hf0 as [|? ? (i0 & Hi0) _]; subst.
  apply by_sindex_in in Hi0 as (md & e0 & _ & _ & _ & Efm).
  destruct (msg_ok_parts _ (find_msg_ok _ _ Efm)) as (H1 & H2 & _ & H4).
  rewrite (find_msg_num _ _ Efm) in H1. split; [exact H1|].
  assert (Hincl : incl (map pf_num (p0 :: r0)) (map fst (md_entries md))).
  { intros n Hn. apply in_map_iff in Hn as (pf & <- & Hin). rewrite Forall_forall in Hf.
    destruct (Hf pf Hin) as (i & Hi). apply by_sindex_in in Hi as (md' & e & _ & He & <- & Efm').
    rewrite Efm in Efm'. inversion Efm'; subst md'. rewrite <- (H4 e He). now apply in_map. }
  pose proof (NoDup_incl_length (ssorted_nodup _ Hs) Hincl) as HL. rewrite !map_length in HL. lia.
Qed.

Lemma slice_msgs_steps be mn fields : forall ms defs body,
  lookup_def 0 defs = Some (gdef_of be mn fields) -> Forall (fun m => m_num m = mn) ms -> Forall (from_profile mn) fields ->
  econcat (map (fun m => write_mesg be m fields) ms) = EOk body ->
  exists recs, steps defs body defs recs /\ Forall2 (rec_of be) ms recs.
Proof.
  induction ms as [|m ms IH]; intros defs body Hl Hm Hfp H; cbn [map econcat] in H.
  - inversion H. exists []. split; [apply steps_nil|constructor].
  - apply ebind_ok in H as (a & Ha & H). apply ebind_ok in H as (b & Hb & H). inversion H; subst; clear H.
    inversion Hm; subst.
    destruct (write_mesg_step be defs m fields a Ha Hfp Hl) as (r & S1 & Hr).
    destruct (IH defs b Hl H2 Hfp Hb) as (recs & S2 & HF).
    exists (r :: recs). split; [|constructor; assumption].
    change (r :: recs) with ([r] ++ recs). eapply steps_app; eassumption.
Qed.

Lemma last_num mn : forall ms d, ms <> [] -> Forall (fun m => m_num m = mn) ms -> m_num (last ms d) = mn.
Proof.
  induction ms as [|m r IH]; intros d Hne Hm; [congruence|]. inversion Hm; subst.
  destruct r as [|m2 r2]; [reflexivity|]. change (last (m :: m2 :: r2) d) with (last (m2 :: r2) d). apply IH; [discriminate|assumption].
Qed.

Lemma encode_slice_steps be mn ms defs bytes : Forall (fun m => m_num m = mn) ms -> mn < 65536 ->
  encode_slice be ms = EOk bytes -> exists defs' recs, steps defs bytes defs' recs /\ Forall2 (rec_of be) ms recs.
Proof.
  intros Hm Hmn H. unfold encode_slice in H. destruct ms as [|m0 mr] eqn:Ems.
  { inversion H. exists defs, []. split; [apply steps_nil|constructor]. }
  rewrite <- Ems in *. assert (Hne : ms <> []) by (rewrite Ems; discriminate).
  apply ebind_ok in H as (fs & Hfs & H). apply ebind_ok in H as (d & Hd & H). apply ebind_ok in H as (b & Hb & H).
  inversion H; subst bytes; clear H. rewrite (last_num mn _ _ Hne Hm) in Hd.
  destruct (collect_fields_inv mn ms [] fs Hm (Forall_nil _) I Hfs) as [Hfp Hs].
  assert (Hn : N.of_nat (List.length fs) < 256).
  { destruct fs as [|p0 r0] eqn:Efs; [reflexivity|]. rewrite <- Efs in *.
    apply (sorted_fields_short mn fs Hfp Hs). rewrite Efs. discriminate. }
  pose proof (write_unit be defs mn fs d Hd Hfp Hmn Hn) as S1.
  destruct (slice_msgs_steps be mn fs ms ((0, gdef_of be mn fs) :: defs) b (lookup_def_head _ _) Hm Hfp Hb) as (recs & S2 & HF).
  exists ((0, gdef_of be mn fs) :: defs), recs. split; [|exact HF].
  change recs with ([] ++ recs). eapply steps_app; eassumption.
Qed.

(* ---------------------------------------------------------------- the File *)
Definition descs_ok (descs : list (string * bool * N)) : bool := forallb (fun d => snd d <? 65536) descs.

Lemma file_types_ok : forallb (fun e => descs_ok (snd e)) file_types = true.
Proof. vm_compute. reflexivity. Qed.

Lemma ft_entry_descs_ok ft ok cn descs : ft_entry ft = Some (ok, cn, descs) -> descs_ok descs = true.
Proof.
  unfold ft_entry. destruct (find _ file_types) as [[[[a b] c] d]|] eqn:E; [|discriminate].
  intros H. inversion H; subst. apply find_some in E as [Hin _].
  pose proof file_types_ok as T. rewrite forallb_forall in T. apply (T _ Hin).
Qed.

(* the messages Encode visits, slot by slot (slots 3 and 4 are the hidden developer-data slots) *)
Fixpoint visible (i : nat) (slots : list (list msg)) : list msg :=
  match slots with
  | [] => []
  | s :: r => (if Nat.eqb i 3 || Nat.eqb i 4 then [] else s) ++ visible (S i) r
  end.

Lemma visible_ge5 : forall slots i, (5 <= i)%nat -> visible i slots = List.concat slots.
Proof.
  induction slots as [|s r IH]; intros i Hi; [reflexivity|]. cbn [visible List.concat].
  destruct (Nat.eqb_spec i 3); [lia|]. destruct (Nat.eqb_spec i 4); [lia|]. cbn [orb]. rewrite IH by lia. reflexivity.
Qed.

Lemma visible_0 slots : visible 0 slots = List.concat (firstn 3 slots) ++ List.concat (skipn 5 slots).
Proof.
  destruct slots as [|s0 [|s1 [|s2 [|s3 [|s4 r]]]]]; cbn [visible firstn skipn List.concat Nat.eqb orb app];
    rewrite ?app_nil_r; try reflexivity.
  rewrite (visible_ge5 r 5) by lia. rewrite <- !app_assoc. reflexivity.
Qed.

Lemma msgs_wf_num mn s : forallb (msg_wf mn) s = true -> Forall (fun m => m_num m = mn) s.
Proof.
  intros H. apply Forall_forall. intros m Hin. rewrite forallb_forall in H. apply H in Hin.
  unfold msg_wf in Hin. apply andb_true_iff in Hin as [Hn _]. now apply N.eqb_eq in Hn.
Qed.

Lemma encode_slots_steps be : forall descs i slots defs bytes,
  slots_wf i descs slots = true -> descs_ok descs = true -> encode_slots be i descs slots = EOk bytes ->
  exists defs' recs, steps defs bytes defs' recs /\ Forall2 (rec_of be) (visible i slots) recs.
Proof.
  induction descs as [|[[nm multi] mn] dr IH]; intros i slots defs bytes Hwf Hdk H.
  - destruct slots; [|discriminate]. cbn [encode_slots] in H. inversion H.
    exists defs, []. split; [apply steps_nil|constructor].
  - destruct slots as [|s sr]; [discriminate|]. cbn [slots_wf] in Hwf. cbn [encode_slots] in H. cbn [visible].
    apply andb_true_iff in Hwf as [Hwf Hrest]. apply andb_true_iff in Hwf as [Hwf _]. apply andb_true_iff in Hwf as [Hmsgs _].
    unfold descs_ok in Hdk. cbn [forallb snd] in Hdk. apply andb_true_iff in Hdk as [Hmn Hdk]. apply N.ltb_lt in Hmn.
    destruct (Nat.eqb i 3 || Nat.eqb i 4).
    + cbn [app]. eapply IH; eassumption.
    + apply ebind_ok in H as (a & Ha & H). apply ebind_ok in H as (b & Hb & H). inversion H; subst; clear H.
      assert (S1 : exists d1 r1, steps defs a d1 r1 /\ Forall2 (rec_of be) s r1).
      { unfold encode_slot in Ha. destruct multi.
        - eapply encode_slice_steps; [apply msgs_wf_num; exact Hmsgs|exact Hmn|exact Ha].
        - apply econcat_units. exact Ha. }
      destruct S1 as (d1 & r1 & S1 & F1).
      destruct (IH (S i) sr d1 b Hrest Hdk Hb) as (d2 & r2 & S2 & F2).
      exists d2, (r1 ++ r2). split; [eapply steps_app; eassumption|now apply Forall2_app].
Qed.

(* C05, record level: the record section parses under the grammar, one data
   record per message of the File in the documented order, each under a
   definition whose field sizes add up to the record length *)
Theorem encode_grammar f be bs f' :
  wf_file f = true -> wf_header (f_header f) = true ->
  encode f be = EOk (bs, f') -> N.of_nat (List.length bs) < 4294967296 ->
  exists recs, grammar bs = Some recs /\ Forall2 (rec_of be) (file_msgs f) recs.
Proof.
  intros Hwf Hh Henc Hlen.
  destruct (encode_framing f be bs f' Hh Henc Hlen) as (Hb & Hho & Hto & Hdata & _).
  unfold grammar. rewrite Hb, Hho, Hto. cbn [negb].
  unfold enc_data in Hdata. unfold wf_file in Hwf.
  destruct (f_inited f) as [ft|]; [|discriminate]. apply andb_true_iff in Hwf as [Eft Hwf]. apply N.eqb_eq in Eft. subst ft.
  destruct (ft_entry (file_type f)) as [[[ok cn] descs]|] eqn:Efe; [|discriminate]. destruct ok; [|discriminate].
  pose proof (ft_entry_descs_ok _ _ _ _ Efe) as Hdk.
  destruct (encode_slots_steps be descs 0 (f_slots f) [] _ Hwf Hdk Hdata) as (d' & recs & S & F).
  exists recs. split.
  - apply (records_run _ d'); [exact S|]. unfold record_bytes. rewrite firstn_length, skipn_length. lia.
  - unfold file_msgs. rewrite <- visible_0. exact F.
Qed.
