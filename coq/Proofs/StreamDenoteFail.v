(* C16 counts_on_failure: the unknown-message / unknown-field counters of the state a failing decode
   returns.  They are at least the counts of the records completed before the failure and at most
   those plus the contribution of the one record in flight.
   A. the counting order on counter lists;
   B. one record, any input, any state: what parse_record can do to the counters;
   C. the record loop, any input, any state: counters never decrease;
   D. a well-formed prefix followed by arbitrary bytes / by a truncated well-formed record;
   E. what the File reports (the sorted lists). *)
From Coq Require Import NArith ZArith List Bool Lia Arith.
From Coq Require Import ZifyN ZifyNat ZifyBool.
From FitV Require Import Proofs.Util Model.Values Model.Bytes Model.Base Model.Profile Model.Reflect Model.IO
  Model.Route Model.Components Model.Decode Spec.FitSyntax Spec.RouteSpec Proofs.RouteProofs Proofs.DecodeLemmas Gen.Consts
  Proofs.StreamDenoteBase Proofs.StreamDenoteDefs Proofs.StreamDenoteDef Proofs.StreamDenoteData
  Proofs.StreamDenoteRecord Proofs.StreamDenoteLoop.
Import ListNotations.
Local Open Scope N_scope.
Ltac Zify.zify_post_hook ::= Z.div_mod_to_equations.

(* ================================================================ A. the counting order *)

(* the count stored for a key: the first entry with that key, 0 when there is none *)
Fixpoint cnt1 (k : N) (l : list (N * N)) : N :=
  match l with [] => 0 | (a, c) :: r => if a =? k then c else cnt1 k r end.
Fixpoint cnt2 (m k : N) (l : list (N * N * N)) : N :=
  match l with [] => 0 | (a, b, c) :: r => if (a =? m) && (b =? k) then c else cnt2 m k r end.

Lemma cnt1_count_of1 k l : cnt1 k l = count_of1 k l.
Proof. induction l as [|[a c] r IH]; cbn [cnt1 count_of1]; [reflexivity|]. now rewrite IH. Qed.

Definition le1 (l l' : list (N * N)) : Prop := forall k, cnt1 k l <= cnt1 k l'.
Definition le2 (l l' : list (N * N * N)) : Prop := forall m k, cnt2 m k l <= cnt2 m k l'.

Lemma le1_refl l : le1 l l.
Proof. intros k. apply N.le_refl. Qed.
Lemma le2_refl l : le2 l l.
Proof. intros m k. apply N.le_refl. Qed.
Lemma le1_trans a b c : le1 a b -> le1 b c -> le1 a c.
Proof. intros H1 H2 k. eapply N.le_trans; [apply H1|apply H2]. Qed.
Lemma le2_trans a b c : le2 a b -> le2 b c -> le2 a c.
Proof. intros H1 H2 m k. eapply N.le_trans; [apply H1|apply H2]. Qed.
Lemma le1_eq a b : a = b -> le1 a b.
Proof. intros ->. apply le1_refl. Qed.
Lemma le2_eq a b : a = b -> le2 a b.
Proof. intros ->. apply le2_refl. Qed.

(* a bump adds exactly one to its own key and leaves every other key alone *)
Lemma bump1_cnt k k' l : cnt1 k' (bump1 k l) = if k' =? k then cnt1 k' l + 1 else cnt1 k' l.
Proof. rewrite !cnt1_count_of1. apply bump1_count. Qed.

Lemma bump2_cnt m k m' k' l :
  cnt2 m' k' (bump2 (m, k) l) = if (m' =? m) && (k' =? k) then cnt2 m' k' l + 1 else cnt2 m' k' l.
Proof.
  unfold bump2. cbn [fst snd]. induction l as [|[[a b] c] r IH].
  - cbn [cnt2]. rewrite (N.eqb_sym m m'), (N.eqb_sym k k'). destruct ((m' =? m) && (k' =? k)); reflexivity.
  - destruct ((a =? m) && (b =? k)) eqn:Eab.
    + apply andb_prop in Eab. destruct Eab as [Ea Eb]. apply N.eqb_eq in Ea, Eb. subst a b.
      cbn [cnt2]. rewrite (N.eqb_sym m m'), (N.eqb_sym k k'). destruct ((m' =? m) && (k' =? k)); reflexivity.
    + cbn [cnt2]. destruct ((a =? m') && (b =? k')) eqn:Eab'.
      * apply andb_prop in Eab'. destruct Eab' as [Ea Eb]. apply N.eqb_eq in Ea, Eb. subst a b.
        rewrite Eab. reflexivity.
      * exact IH.
Qed.

Lemma le1_bump k l : le1 l (bump1 k l).
Proof. intros k'. rewrite bump1_cnt. destruct (k' =? k); lia. Qed.
Lemma le2_bump m k l : le2 l (bump2 (m, k) l).
Proof. intros m' k'. rewrite bump2_cnt. destruct ((m' =? m) && (k' =? k)); lia. Qed.

(* the counters after a run of unlisted fields of one message *)
Definition folds (m0 : N) (ks : list N) (l : list (N * N * N)) : list (N * N * N) :=
  fold_left (fun acc x => bump2 (m0, x) acc) ks l.

Lemma folds_app m0 ks1 ks2 l : folds m0 (ks1 ++ ks2) l = folds m0 ks2 (folds m0 ks1 l).
Proof. unfold folds. apply fold_left_app. Qed.

(* bumps commute up to cnt: only the number of occurrences of a key matters *)
Lemma folds_cnt m0 m k : forall ks l,
  cnt2 m k (folds m0 ks l) = cnt2 m k l + (if m =? m0 then N.of_nat (count_occ N.eq_dec ks k) else 0).
Proof.
  induction ks as [|x r IH]; intros l.
  - cbn [folds fold_left count_occ]. destruct (m =? m0); cbn [N.of_nat]; lia.
  - change (folds m0 (x :: r) l) with (folds m0 r (bump2 (m0, x) l)). rewrite IH, bump2_cnt.
    cbn [count_occ]. destruct (N.eqb_spec m m0) as [->|NE]; cbn [andb].
    + destruct (N.eq_dec x k) as [->|NE]; [rewrite N.eqb_refl; lia|].
      replace (k =? x) with false by (symmetry; apply N.eqb_neq; congruence). lia.
    + lia.
Qed.

Lemma le2_folds m0 : forall ks l, le2 l (folds m0 ks l).
Proof.
  induction ks as [|x r IH]; intros l; [apply le2_refl|].
  change (folds m0 (x :: r) l) with (folds m0 r (bump2 (m0, x) l)).
  eapply le2_trans; [apply le2_bump|apply IH].
Qed.

Definition prefix {A} (l1 l2 : list A) : Prop := exists r, l2 = l1 ++ r.

Lemma prefix_refl {A} (l : list A) : prefix l l.
Proof. exists []. now rewrite app_nil_r. Qed.
Lemma prefix_nil {A} (l : list A) : prefix [] l.
Proof. exists l. reflexivity. Qed.
Lemma prefix_cons {A} (a : A) l1 l2 : prefix l1 l2 -> prefix (a :: l1) (a :: l2).
Proof. intros [r ->]. exists r. reflexivity. Qed.
Lemma prefix_trans {A} (a b c : list A) : prefix a b -> prefix b c -> prefix a c.
Proof. intros [r ->] [r' ->]. exists (r ++ r'). now rewrite app_assoc. Qed.
Lemma prefix_app {A} (a b c : list A) : prefix b c -> prefix (a ++ b) (a ++ c).
Proof. intros [r ->]. exists r. now rewrite app_assoc. Qed.
Lemma prefix_app_l {A} (a b : list A) : prefix a (a ++ b).
Proof. exists b. reflexivity. Qed.

(* monotonicity of the folds in the list of bumps *)
Lemma le2_folds_prefix m0 ks1 ks2 l : prefix ks1 ks2 -> le2 (folds m0 ks1 l) (folds m0 ks2 l).
Proof. intros [r ->]. rewrite folds_app. apply le2_folds. Qed.

(* ================================================================ outcome-indexed postconditions *)

(* [post2 Pok Perr r]: a state returned with success satisfies Pok, one returned with a failure
   (decoder error or I/O error) satisfies Perr; panics and fuel exhaustion return no state *)
Definition post2 {X E A} (Pok Perr : dstate -> Prop) (r : result X dstate E A) : Prop :=
  match r with
  | ROk _ _ s' => Pok s'
  | RFail _ _ s' => Perr s'
  | RIOErr _ _ s' => Perr s'
  | RPanic _ => True
  | ROutOfFuel => True
  end.
Definition post {X E A} (Q : dstate -> Prop) (r : result X dstate E A) : Prop := post2 Q Q r.

Lemma post2_bind {A B} (Pok Perr Qok Qerr : dstate -> Prop) (p : P A) (f : A -> P B) x s :
  post2 Pok Perr (run_a p x s) ->
  (forall a x' s', Pok s' -> post2 Qok Qerr (run_a (f a) x' s')) ->
  (forall s', Perr s' -> Qerr s') ->
  post2 Qok Qerr (run_a (bind p f) x s).
Proof.
  intros Hp Hf He. rewrite run_bind. destruct (run_a p x s) as [a x' s'|e x' s'|e x' s'|w|]; cbn [rbind post2] in *; auto.
Qed.

Lemma post_bind {A B} (Pq Q : dstate -> Prop) (p : P A) (f : A -> P B) x s :
  post Pq (run_a p x s) ->
  (forall a x' s', Pq s' -> post Q (run_a (f a) x' s')) ->
  (forall s', Pq s' -> Q s') ->
  post Q (run_a (bind p f) x s).
Proof. unfold post. apply post2_bind. Qed.

Lemma post2_weaken {X E A} (Pok Perr Qok Qerr : dstate -> Prop) (r : result X dstate E A) :
  post2 Pok Perr r -> (forall s', Pok s' -> Qok s') -> (forall s', Perr s' -> Qerr s') -> post2 Qok Qerr r.
Proof. destruct r; cbn [post2]; auto. Qed.

(* ================================================================ a syntactic invariant of programs *)

(* [okp J p]: p has no loop test, and every state p stores satisfies J provided every state it
   reads does *)
Fixpoint okp {A} (J : dstate -> Prop) (p : P A) : Prop :=
  match p with
  | Ret _ => True
  | Fail _ => True
  | Panic _ => True
  | ReadByte k => forall b, okp J (k b)
  | ReadFull _ k => forall l, okp J (k l)
  | More _ => False
  | Get k => forall s, J s -> okp J (k s)
  | Put s k => J s /\ okp J k
  end.

Lemma okp_bind {A B} (J : dstate -> Prop) (p : P A) (f : A -> P B) :
  okp J p -> (forall a, okp J (f a)) -> okp J (bind p f).
Proof.
  intros Hp Hf. induction p as [a|e|w|k IH|n k IH|k IH|k IH|s' k IH]; cbn [bind okp] in *.
  - apply Hf.
  - exact I.
  - exact I.
  - intros b. apply IH, Hp.
  - intros l. apply IH, Hp.
  - contradiction.
  - intros s Hs. apply IH, Hp, Hs.
  - destruct Hp as [H1 H2]. split; [exact H1|apply IH, H2].
Qed.

Lemma okp_sound {A} (J : dstate -> Prop) (p : P A) : okp J p -> forall x s, J s -> post J (run_a p x s).
Proof.
  unfold post.
  induction p as [a|e|w|k IH|n k IH|k IH|k IH|s' k IH]; intros Hp x s Hs; cbn [okp run_a post2] in *.
  - exact Hs.
  - exact Hs.
  - exact I.
  - destruct (a_take 1 x) as [[l x']|e]; [apply IH; auto|exact Hs].
  - destruct (a_take n x) as [[l x']|e]; [apply IH; auto|exact Hs].
  - contradiction.
  - apply IH; auto.
  - destruct Hp as [H1 H2]. apply IH; auto.
Qed.

(* on a longer input and under a larger limit a run that ended without an I/O error repeats itself *)
Definition ext_x (x : ast) (more : list N) (lim' : nat) : ast :=
  mk_ast (a_rest x ++ more) (a_term x) (a_n x) lim'.

Lemma a_take_ext k x l x' more lim' : a_take k x = inl (l, x') -> (a_limit x <= lim')%nat ->
  a_take k (ext_x x more lim') = inl (l, ext_x x' more lim') /\ a_limit x' = a_limit x.
Proof.
  unfold a_take, ext_x. cbn [a_rest a_term a_n a_limit].
  destruct (Nat.leb k (Nat.min (a_limit x - a_n x) (List.length (a_rest x)))) eqn:E.
  - intros H Hl. inversion H; subst l x'. clear H. cbn [a_rest a_term a_n a_limit]. apply Nat.leb_le in E.
    replace (Nat.leb k (Nat.min (lim' - a_n x) (List.length (a_rest x ++ more)))) with true
      by (symmetry; apply Nat.leb_le; rewrite app_length; lia).
    rewrite firstn_app, skipn_app.
    replace (k - List.length (a_rest x))%nat with 0%nat by lia. cbn [firstn skipn]. rewrite app_nil_r.
    split; reflexivity.
  - destruct (Nat.leb (a_limit x - a_n x) (List.length (a_rest x))); discriminate.
Qed.

Lemma run_ext {A} (p : P A) : okp (fun _ => True) p -> forall x s more lim', (a_limit x <= lim')%nat ->
  match run_a p x s with
  | ROk a x' s' => run_a p (ext_x x more lim') s = ROk a (ext_x x' more lim') s'
  | RFail e x' s' => run_a p (ext_x x more lim') s = RFail e (ext_x x' more lim') s'
  | RPanic w => run_a p (ext_x x more lim') s = RPanic w
  | RIOErr _ _ _ => True
  | ROutOfFuel => True
  end.
Proof.
  induction p as [a|e|w|k IH|n k IH|k IH|k IH|s' k IH]; intros Hp x s more lim' Hl; cbn [okp run_a] in *.
  - reflexivity.
  - reflexivity.
  - reflexivity.
  - destruct (a_take 1 x) as [[l x']|e] eqn:Et; [|exact I].
    destruct (a_take_ext 1 x l x' more lim' Et Hl) as [Ht Hl']. rewrite Ht. apply IH; [apply Hp|lia].
  - destruct (a_take n x) as [[l x']|e] eqn:Et; [|exact I].
    destruct (a_take_ext n x l x' more lim' Et Hl) as [Ht Hl']. rewrite Ht. apply IH; [apply Hp|lia].
  - contradiction.
  - apply IH; [apply Hp; exact I|exact Hl].
  - apply IH; [apply Hp|exact Hl].
Qed.

(* ================================================================ B. one record *)

(* the two counter lists of a state *)
Definition cs (um : list (N * N)) (uf : list (N * N * N)) (s : dstate) : Prop := ds_unkm s = um /\ ds_unkf s = uf.

Lemma cs_self s : cs (ds_unkm s) (ds_unkf s) s.
Proof. split; reflexivity. Qed.

Lemma pts_cs um uf s u k n ov s' : cs um uf s -> parse_time_stamp s u k n = (ov, s') -> cs um uf s'.
Proof.
  intros [H1 H2]. unfold parse_time_stamp. destruct (u =? 0xFFFFFFFF); [intros E; inversion E; subst; now split|].
  destruct (k =? kind_timeutc).
  - destruct (n =? c_fieldNumTimeStamp); intros E; inversion E; subst; now split.
  - destruct (negb (ds_hasts s) || (ds_ts s <? c_systemTimeMarker)); intros E; inversion E; subst; now split.
Qed.

Lemma okp_bind_get {B} (J : dstate -> Prop) (f : dstate -> P B) :
  (forall s, J s -> okp J (f s)) -> okp J (bind get_st f).
Proof. intros H. unfold get_st. cbn [bind okp]. exact H. Qed.

Tactic Notation "okp_walk" tactic(solver) :=
  repeat first
    [ progress intros
    | match goal with |- okp _ (bind get_st _) => apply okp_bind_get end
    | match goal with |- okp _ (bind _ _) => apply okp_bind end
    | progress cbn [okp read_byte read_full put_st fail panic]
    | progress cbv beta zeta
    | match goal with
      | |- True => exact I
      | |- _ /\ _ => split
      | |- okp _ (match ?x with _ => _ end) => destruct x eqn:?
      end
    | solver ].

Ltac cs_solve :=
  match goal with
  | H : cs ?um ?uf ?s, E : parse_time_stamp ?s _ _ _ = (_, ?s') |- cs ?um ?uf ?s' => exact (pts_cs _ _ _ _ _ _ _ _ H E)
  | H : cs ?um ?uf ?s |- cs ?um ?uf _ =>
      destruct H as [? ?]; split; cbn [with_file with_defs with_time ds_unkm ds_unkf]; assumption
  end.

Ltac triv_solve := exact I.
Ltac no_solve := fail.

Lemma okp_skip_dev J : forall devs, okp J (skip_dev_fields devs).
Proof.
  induction devs as [|[[a sz] c] r IH]; cbn [skip_dev_fields]; [exact I|].
  apply okp_bind; [cbn [okp read_full]; intros; exact I|intros _; exact IH].
Qed.

Lemma okp_parse_def J b : okp J (parse_definition_message b).
Proof. unfold parse_definition_message. okp_walk (idtac; no_solve). Qed.

Lemma okp_add_msg um uf m : okp (cs um uf) (add_msg m).
Proof. unfold add_msg. okp_walk (idtac; cs_solve). Qed.

Lemma okp_set_def um uf dm : okp (cs um uf) (set_def dm).
Proof. unfold set_def. okp_walk (idtac; cs_solve). Qed.

Lemma okp_pof_listed um uf o dm known fd msgv p : get_field (dm_gmn dm) (fd_num fd) = Some p ->
  okp (cs um uf) (parse_one_field o dm known fd msgv).
Proof. intros Eg. unfold parse_one_field. rewrite Eg. okp_walk (idtac; cs_solve). Qed.

(* no program of one record consults the loop test (the limit only bounds its reads) *)
Definition anyst : dstate -> Prop := fun _ => True.

Lemma nm_pof o dm known fd msgv : okp anyst (parse_one_field o dm known fd msgv).
Proof. unfold parse_one_field. okp_walk (idtac; triv_solve). Qed.

Lemma nm_fields o dm known : forall fds msgv, okp anyst (parse_fields o dm known fds msgv).
Proof.
  induction fds as [|fd r IH]; intros msgv; cbn [parse_fields]; [exact I|].
  apply okp_bind; [apply nm_pof|intros m'; apply IH].
Qed.

Lemma nm_data_fields o dm known msgv : okp anyst (parse_data_fields o dm known msgv).
Proof.
  unfold parse_data_fields. apply okp_bind; [apply nm_fields|intros m].
  apply okp_bind; [apply okp_skip_dev|intros _; exact I].
Qed.

Lemma nm_add_msg m : okp anyst (add_msg m).
Proof. unfold add_msg. okp_walk (idtac; triv_solve). Qed.

Lemma nm_data_message o b c : okp anyst (parse_data_message o b c).
Proof.
  unfold parse_data_message.
  okp_walk (first [exact I | apply nm_data_fields]).
Qed.

Lemma nm_record o : okp anyst (parse_record o).
Proof.
  unfold parse_record.
  okp_walk (first [exact I | apply nm_data_message | apply okp_parse_def | apply nm_add_msg]).
  all: unfold set_def; okp_walk (idtac; triv_solve).
Qed.

(* ---------------------------------------------------------------- the field loop *)

(* the field numbers of a definition the profile does not list for its message, in order *)
Definition is_unl (gmn : N) (fd : fdef) : bool :=
  match get_field gmn (fd_num fd) with None => true | Some _ => false end.
Definition unlisted_of (gmn : N) (fds : list fdef) : list N := map fd_num (filter (is_unl gmn) fds).
Definition unlisted (dm : defmsg) : list N := unlisted_of (dm_gmn dm) (dm_fdefs dm).

Lemma unlisted_unfold dm :
  unlisted dm =
  map fd_num (filter (fun fd => match get_field (dm_gmn dm) (fd_num fd) with None => true | Some _ => false end) (dm_fdefs dm)).
Proof. reflexivity. Qed.

(* the effect of one field on the unknown-field counters *)
Definition step_uf (o : dopts) (gmn : N) (known : bool) (fd : fdef) (uf : list (N * N * N)) : list (N * N * N) :=
  if is_unl gmn fd && (known && o_unkf o) then bump2 (gmn, fd_num fd) uf else uf.

(* one field, any outcome: the unknown-message counters are untouched; the unknown-field counters are
   unchanged or bumped once for (message, field), and only for a field the profile does not list *)
Lemma pof_spec o dm known fd msgv x s um uf : cs um uf s ->
  post2 (cs um (step_uf o (dm_gmn dm) known fd uf))
        (fun s' => cs um uf s' \/ cs um (step_uf o (dm_gmn dm) known fd uf) s')
        (run_a (parse_one_field o dm known fd msgv) x s).
Proof.
  intros Hs. unfold step_uf, is_unl. destruct (get_field (dm_gmn dm) (fd_num fd)) as [p|] eqn:Eg.
  - cbn [andb].
    pose proof (okp_sound _ _ (okp_pof_listed um uf o dm known fd msgv p Eg) x s Hs) as H.
    unfold post in H. eapply post2_weaken; [exact H|auto|auto].
  - cbn [andb]. unfold parse_one_field. rewrite Eg. destruct Hs as [H1 H2].
    destruct (known && o_unkf o).
    + unfold get_st, put_st, read_full. cbn [bind run_a].
      destruct (a_take (N.to_nat (fd_size fd)) x) as [[l x']|e]; cbn [post2 run_a].
      * split; cbn [with_unkf ds_unkm ds_unkf]; [exact H1|now rewrite H2].
      * right. split; cbn [with_unkf ds_unkm ds_unkf]; [exact H1|now rewrite H2].
    + unfold read_full. cbn [bind run_a].
      destruct (a_take (N.to_nat (fd_size fd)) x) as [[l x']|e]; cbn [post2 run_a].
      * now split.
      * left. now split.
Qed.

Definition steps (o : dopts) (gmn : N) (known : bool) (fds : list fdef) (uf : list (N * N * N)) : list (N * N * N) :=
  fold_left (fun acc fd => step_uf o gmn known fd acc) fds uf.

Lemma steps_folds o gmn known : forall fds uf,
  steps o gmn known fds uf = folds gmn (if known && o_unkf o then unlisted_of gmn fds else []) uf.
Proof.
  induction fds as [|fd r IH]; intros uf.
  - destruct (known && o_unkf o); reflexivity.
  - change (steps o gmn known (fd :: r) uf) with (steps o gmn known r (step_uf o gmn known fd uf)).
    rewrite IH. unfold step_uf, unlisted_of. cbn [filter]. destruct (known && o_unkf o); [|now rewrite andb_false_r].
    rewrite andb_true_r. destruct (is_unl gmn fd); reflexivity.
Qed.

Lemma unlisted_of_prefix gmn fds1 fds : prefix fds1 fds -> prefix (unlisted_of gmn fds1) (unlisted_of gmn fds).
Proof. intros [r ->]. unfold unlisted_of. rewrite filter_app, map_app. apply prefix_app_l. Qed.

(* the field loop: on success every field has had its effect; on a failure those of a prefix *)
Lemma fields_spec o dm known : forall fds msgv x s um uf, cs um uf s ->
  post2 (cs um (steps o (dm_gmn dm) known fds uf))
        (fun s' => exists fds1, prefix fds1 fds /\ cs um (steps o (dm_gmn dm) known fds1 uf) s')
        (run_a (parse_fields o dm known fds msgv) x s).
Proof.
  induction fds as [|fd r IH]; intros msgv x s um uf Hs.
  - cbn [parse_fields run_a post2 steps fold_left]. exact Hs.
  - cbn [parse_fields].
    eapply post2_bind; [apply (pof_spec o dm known fd msgv x s um uf Hs)| |].
    + intros m' x' s' Hs'. eapply post2_weaken; [apply (IH m' x' s' um _ Hs')| |].
      * intros s'' H. exact H.
      * intros s'' (fds1 & Hp & H). exists (fd :: fds1). split; [now apply prefix_cons|exact H].
    + intros s' [H|H].
      * exists []. split; [apply prefix_nil|exact H].
      * exists [fd]. split; [apply (prefix_cons fd [] r), prefix_nil|exact H].
Qed.

(* the counters a complete field loop leaves / may leave when it is cut short *)
Definition dm_uf (o : dopts) (dm : defmsg) : list N :=
  if known_msg (dm_gmn dm) && o_unkf o then unlisted dm else [].

Lemma okp_skip_post um uf devs x s : cs um uf s -> post (cs um uf) (run_a (skip_dev_fields devs) x s).
Proof. apply okp_sound, okp_skip_dev. Qed.

Lemma data_fields_spec o dm msgv x s um uf : cs um uf s ->
  post2 (cs um (folds (dm_gmn dm) (dm_uf o dm) uf))
        (fun s' => exists ks, prefix ks (dm_uf o dm) /\ cs um (folds (dm_gmn dm) ks uf) s')
        (run_a (parse_data_fields o dm (known_msg (dm_gmn dm)) msgv) x s).
Proof.
  intros Hs. unfold parse_data_fields.
  eapply post2_bind; [apply (fields_spec o dm (known_msg (dm_gmn dm)) (dm_fdefs dm) msgv x s um uf Hs)| |].
  - intros m x' s' Hs'. rewrite steps_folds in Hs'. fold (unlisted dm) in Hs'. fold (dm_uf o dm) in Hs'.
    eapply post2_bind; [apply (okp_skip_post _ _ (dm_devs dm) x' s' Hs')| |].
    + intros _ x'' s'' H. cbn [run_a post2]. exact H.
    + intros s'' H. exists (dm_uf o dm). split; [apply prefix_refl|exact H].
  - intros s' (fds1 & Hp & H). rewrite steps_folds in H.
    exists (if known_msg (dm_gmn dm) && o_unkf o then unlisted_of (dm_gmn dm) fds1 else []). split; [|exact H].
    unfold dm_uf. destruct (known_msg (dm_gmn dm) && o_unkf o); [|apply prefix_nil].
    now apply unlisted_of_prefix.
Qed.

(* ---------------------------------------------------------------- one data message *)

(* the effect of a data record of definition dm on the unknown-message counters *)
Definition dm_um (o : dopts) (dm : defmsg) (um : list (N * N)) : list (N * N) :=
  if negb (known_msg (dm_gmn dm)) && o_unkm o then bump1 (dm_gmn dm) um else um.

(* od: the definition in the slot the record header addresses (None: no data record, or an empty slot).
   [rec_ok]: the counters after the record completed; [rec_bound]: the counters at any point of it *)
Definition rec_ok (o : dopts) (od : option defmsg) (um : list (N * N)) (uf : list (N * N * N)) (s' : dstate) : Prop :=
  match od with
  | None => cs um uf s'
  | Some dm => cs (dm_um o dm um) (folds (dm_gmn dm) (dm_uf o dm) uf) s'
  end.
Definition rec_bound (o : dopts) (od : option defmsg) (um : list (N * N)) (uf : list (N * N * N)) (s' : dstate) : Prop :=
  match od with
  | None => cs um uf s'
  | Some dm =>
      (ds_unkm s' = um \/ ds_unkm s' = dm_um o dm um) /\
      exists ks, prefix ks (dm_uf o dm) /\ ds_unkf s' = folds (dm_gmn dm) ks uf
  end.

Lemma rec_bound_same o od um uf s' : cs um uf s' -> rec_bound o od um uf s'.
Proof.
  intros [H1 H2]. destruct od as [dm|]; cbn [rec_bound]; [|now split].
  split; [now left|]. exists []. split; [apply prefix_nil|exact H2].
Qed.

Lemma rec_ok_bound o od um uf s' : rec_ok o od um uf s' -> rec_bound o od um uf s'.
Proof.
  destruct od as [dm|]; cbn [rec_ok rec_bound]; [|auto]. intros [H1 H2].
  split; [now right|]. exists (dm_uf o dm). split; [apply prefix_refl|exact H2].
Qed.

Lemma pdf_bound o dm msgv x s um uf : cs um uf s ->
  post2 (cs um (folds (dm_gmn dm) (dm_uf o dm) uf))
        (fun s' => ds_unkm s' = um /\ exists ks, prefix ks (dm_uf o dm) /\ ds_unkf s' = folds (dm_gmn dm) ks uf)
        (run_a (parse_data_fields o dm (known_msg (dm_gmn dm)) msgv) x s).
Proof.
  intros Hs. eapply post2_weaken; [apply (data_fields_spec o dm msgv x s um uf Hs)|auto|].
  intros s' (ks & Hp & [H1 H2]). split; [exact H1|]. exists ks. now split.
Qed.

Lemma dmw_spec o b c dm x s um uf : cs um uf s ->
  post2 (rec_ok o (Some dm) um uf) (rec_bound o (Some dm) um uf) (run_a (data_message_with o b c dm s) x s).
Proof.
  intros Hs. unfold data_message_with. cbv zeta. cbn [rec_ok rec_bound].
  eapply post2_bind with (Pok := cs (dm_um o dm um) uf) (Perr := cs (dm_um o dm um) uf).
  - unfold dm_um. destruct Hs as [H1 H2]. destruct (known_msg (dm_gmn dm)); cbn [negb andb].
    + destruct (mesg_all_invalid (dm_gmn dm)); cbn [run_a post2 panic]; [now split|exact I].
    + destruct (o_unkm o); unfold put_st; cbn [bind run_a post2]; split; cbn [with_unkm ds_unkm ds_unkf]; congruence.
  - intros msgv x1 s1 Hs1.
    assert (Hfin : forall msgv' x2 s2, cs (dm_um o dm um) uf s2 ->
              post2 (cs (dm_um o dm um) (folds (dm_gmn dm) (dm_uf o dm) uf))
                    (fun s' => (ds_unkm s' = um \/ ds_unkm s' = dm_um o dm um) /\
                               exists ks, prefix ks (dm_uf o dm) /\ ds_unkf s' = folds (dm_gmn dm) ks uf)
                    (run_a (parse_data_fields o dm (known_msg (dm_gmn dm)) msgv') x2 s2)).
    { intros msgv' x2 s2 Hs2. eapply post2_weaken; [apply (pdf_bound o dm msgv' x2 s2 _ _ Hs2)|auto|].
      intros s' [H1 H2]. split; [now right|exact H2]. }
    destruct c; cbn [negb]; [|apply Hfin, Hs1].
    unfold get_st. cbn [bind]. rewrite run_get.
    destruct (negb (ds_hasts s1)); [apply Hfin, Hs1|].
    unfold put_st. cbn [bind]. rewrite run_put.
    match goal with |- context [run_a _ x1 ?s2] => assert (Hs2 : cs (dm_um o dm um) uf s2) end.
    { destruct Hs1 as [H1 H2]. split; cbn [with_time ds_unkm ds_unkf]; assumption. }
    destruct (get_field (dm_gmn dm) c_fieldNumTimeStamp) as [p|]; [|apply Hfin, Hs2].
    destruct msgv as [m|]; [|exact I].
    destruct (field_type (dm_gmn dm) (pf_sindex p)) as [ty|]; [|exact I].
    destruct (set_time ty _) as [v|]; [|exact I].
    apply Hfin, Hs2.
  - intros s' [H1 H2]. split; [now right|]. exists []. split; [apply prefix_nil|exact H2].
Qed.

(* the slot a data-record header addresses *)
Definition data_local (b : N) (compressed : bool) : N :=
  if compressed then N.shiftr (N.land b c_compressedLocalMesgNumMask) 5 else N.land b c_localMesgNumMask.

Lemma data_message_spec o b c x s um uf : cs um uf s ->
  post2 (rec_ok o (nth (N.to_nat (data_local b c)) (ds_defs s) None) um uf)
        (rec_bound o (nth (N.to_nat (data_local b c)) (ds_defs s) None) um uf)
        (run_a (parse_data_message o b c) x s).
Proof.
  intros Hs. unfold data_local.
  destruct (nth (N.to_nat (if c then N.shiftr (N.land b c_compressedLocalMesgNumMask) 5 else N.land b c_localMesgNumMask))
                (ds_defs s) None) as [dm|] eqn:En.
  - rewrite (data_message_uses_own_slot o b c x s dm En). apply dmw_spec, Hs.
  - rewrite (undefined_local_is_error o b c x s En). cbn [post2 rec_bound]. exact Hs.
Qed.

(* ---------------------------------------------------------------- one record *)

(* the definition a record header byte addresses: that of the slot of a data record (normal or with a
   compressed timestamp); none for a definition record or an invalid header *)
Definition hdr_slot (b : N) (s : dstate) : option defmsg :=
  if N.land b c_compressedHeaderMask =? c_compressedHeaderMask then nth (N.to_nat (data_local b true)) (ds_defs s) None
  else if N.land b c_mesgDefinitionMask =? c_mesgDefinitionMask then None
  else if N.land b c_mesgDefinitionMask =? c_mesgHeaderMask then nth (N.to_nat (data_local b false)) (ds_defs s) None
  else None.

Lemma rec_ok_frame o od um uf s' s'' : rec_ok o od um uf s' -> cs (ds_unkm s') (ds_unkf s') s'' -> rec_ok o od um uf s''.
Proof. destruct od as [dm|]; cbn [rec_ok]; intros [H1 H2] [H3 H4]; split; congruence. Qed.

Lemma tail_spec o od um uf om x s : rec_ok o od um uf s ->
  post2 (rec_ok o od um uf) (rec_bound o od um uf)
        (run_a (match om with Some m => add_msg m | None => Ret tt end) x s).
Proof.
  intros Hs. destruct om as [m|]; [|exact Hs].
  pose proof (okp_sound _ _ (okp_add_msg (ds_unkm s) (ds_unkf s) m) x s (cs_self s)) as H. unfold post in H.
  eapply post2_weaken; [exact H| |]; intros s' Hs'.
  - exact (rec_ok_frame _ _ _ _ _ _ Hs Hs').
  - apply rec_ok_bound. exact (rec_ok_frame _ _ _ _ _ _ Hs Hs').
Qed.

Lemma a_take1_hd x l x' : a_take 1 x = inl (l, x') -> hd 0 l = hd 0 (a_rest x).
Proof.
  unfold a_take. destruct (Nat.leb 1 _).
  - intros H. inversion H. destruct (a_rest x); reflexivity.
  - destruct (Nat.leb _ _); discriminate.
Qed.

(* B. one record, any input, any state.  With od the definition the header byte addresses:
   on success the counters are exactly those of a completed record of od; whenever a state is returned
   they lie between the start counters and those *)
Theorem record_spec o x s um uf : cs um uf s ->
  post2 (rec_ok o (hdr_slot (hd 0 (a_rest x)) s) um uf) (rec_bound o (hdr_slot (hd 0 (a_rest x)) s) um uf)
        (run_a (parse_record o) x s).
Proof.
  intros Hs. unfold parse_record. rewrite run_bind. unfold read_byte. cbn [run_a].
  destruct (a_take 1 x) as [[l x']|e] eqn:Et; cbn [rbind post2]; [|apply rec_bound_same, Hs].
  rewrite <- (a_take1_hd x l x' Et). set (b := hd 0 l). unfold hdr_slot.
  destruct (N.land b c_compressedHeaderMask =? c_compressedHeaderMask).
  - eapply post2_bind; [apply (data_message_spec o b true x' s um uf Hs)| |auto].
    intros om x'' s' H. now apply tail_spec.
  - destruct (N.land b c_mesgDefinitionMask =? c_mesgDefinitionMask).
    + cbn [rec_ok rec_bound].
      assert (Hok : okp (cs um uf) (bind (parse_definition_message b) set_def))
        by (apply okp_bind; [apply okp_parse_def|intros dm; apply okp_set_def]).
      exact (okp_sound _ _ Hok x' s Hs).
    + destruct (N.land b c_mesgDefinitionMask =? c_mesgHeaderMask).
      * eapply post2_bind; [apply (data_message_spec o b false x' s um uf Hs)| |auto].
        intros om x'' s' H. now apply tail_spec.
      * cbn [run_a post2 fail rec_bound]. exact Hs.
Qed.

(* counters never decrease over one record *)
Lemma rec_bound_le o od um uf s' : rec_bound o od um uf s' -> le1 um (ds_unkm s') /\ le2 uf (ds_unkf s').
Proof.
  destruct od as [dm|]; cbn [rec_bound].
  - intros [[H1|H1] (ks & Hp & H2)]; rewrite H1, H2; (split; [|apply le2_folds]).
    + apply le1_refl.
    + unfold dm_um. destruct (_ && _); [apply le1_bump|apply le1_refl].
  - intros [H1 H2]. rewrite H1, H2. split; [apply le1_refl|apply le2_refl].
Qed.

Definition grows (s s' : dstate) : Prop := le1 (ds_unkm s) (ds_unkm s') /\ le2 (ds_unkf s) (ds_unkf s').

Lemma grows_refl s : grows s s.
Proof. split; [apply le1_refl|apply le2_refl]. Qed.
Lemma grows_trans a b c : grows a b -> grows b c -> grows a c.
Proof. intros [H1 H2] [H3 H4]. split; [eapply le1_trans; eauto|eapply le2_trans; eauto]. Qed.

Theorem record_grows o x s : post (grows s) (run_a (parse_record o) x s).
Proof.
  unfold post. eapply post2_weaken; [apply (record_spec o x s _ _ (cs_self s))| |]; intros s' H.
  - apply rec_ok_bound in H. exact (rec_bound_le _ _ _ _ _ H).
  - exact (rec_bound_le _ _ _ _ _ H).
Qed.

(* ================================================================ C. the record loop, any input *)

Theorem loop_grows o : forall fuel x s, post (grows s) (run_a (decode_file_data o fuel) x s).
Proof.
  induction fuel as [|f IH]; intros x s; [exact I|].
  cbn [decode_file_data run_a]. destruct (Nat.ltb (a_n x) (a_limit x)); [|apply grows_refl].
  eapply post_bind; [apply record_grows| |auto].
  intros _ x' s' H. unfold post. eapply post2_weaken; [apply (IH x' s')| |]; intros s'' H'; exact (grows_trans _ _ _ H H').
Qed.

(* ================================================================ D. a well-formed prefix, then a failure *)

(* the loop on the records of a well-formed list followed by anything, the limit not yet reached:
   it completes the list and goes on with the remaining fuel (out of fuel: the same panic on both sides) *)
Lemma records_then : forall rs o pre fb gb ft s0 ss0 ss1 tl t n lim,
  Inv o pre fb gb ft s0 ss0 ->
  stream_wf rs = true -> denote_from ss0 rs = Some ss1 ->
  (n + List.length (ser_records rs) <= lim)%nat ->
  exists s1, Inv o pre fb gb ft s1 ss1 /\
    forall fuel,
      run_a (decode_file_data o fuel) (ast_at (ser_records rs) tl t n lim) s0 =
      run_a (decode_file_data o (fuel - List.length rs)) (mk_ast tl t (n + List.length (ser_records rs)) lim) s1.
Proof.
  induction rs as [|r rest IH]; intros o pre fb gb ft s0 ss0 ss1 tl t n lim HI Hwf Hden Hlim.
  - cbn [denote_from] in Hden. inversion Hden; subst ss1. exists s0. split; [exact HI|]. intros fuel.
    cbn [ser_records flat_map List.length]. rewrite Nat.sub_0_r, Nat.add_0_r. reflexivity.
  - cbn [stream_wf forallb] in Hwf. apply andb_prop in Hwf. destruct Hwf as [Hwf1 Hwf].
    cbn [denote_from] in Hden. destruct (denote_record ss0 r) as [ssm|] eqn:Edr; [|discriminate].
    change (ser_records (r :: rest)) with (ser_record r ++ ser_records rest) in *.
    rewrite app_length in Hlim. pose proof (ser_record_nonempty r) as Hne.
    destruct (record_step o pre fb gb ft s0 ss0 r ssm (ser_records rest ++ tl) t n lim HI Hwf1 Edr ltac:(lia))
      as (sm & Hrun & HIm).
    destruct (IH o pre fb gb ft sm ssm ss1 tl t (n + List.length (ser_record r))%nat lim HIm Hwf Hden ltac:(lia))
      as (s1 & HI1 & Heq).
    exists s1. split; [exact HI1|]. intros fuel. destruct fuel as [|f]; [reflexivity|].
    cbn [decode_file_data]. rewrite run_more.
    replace (Nat.ltb n lim) with true by (symmetry; apply Nat.ltb_lt; lia).
    rewrite run_bind. rewrite ast_at_app. rewrite Hrun. cbn [rbind]. rewrite ast_at_nil_app.
    rewrite Heq. cbn [List.length Nat.sub]. rewrite app_length, Nat.add_assoc. reflexivity.
Qed.

(* (i) at least the counts of the completed records, whatever follows them and however it ends *)
Theorem counts_on_failure_lower : forall rs o pre fb gb ft s0 ss0 ss1 junk t n lim fuel,
  Inv o pre fb gb ft s0 ss0 ->
  stream_wf rs = true -> denote_from ss0 rs = Some ss1 ->
  (n + List.length (ser_records rs) <= lim)%nat ->
  post (fun sf => (o_unkm o = true -> le1 (ss_unkm ss1) (ds_unkm sf)) /\
                  (o_unkf o = true -> le2 (ss_unkf ss1) (ds_unkf sf)))
       (run_a (decode_file_data o fuel) (mk_ast (ser_records rs ++ junk) t n lim) s0).
Proof.
  intros rs o pre fb gb ft s0 ss0 ss1 junk t n lim fuel HI Hwf Hden Hlim.
  destruct (records_then rs o pre fb gb ft s0 ss0 ss1 junk t n lim HI Hwf Hden Hlim) as (s1 & HI1 & Heq).
  change (mk_ast (ser_records rs ++ junk) t n lim) with (ast_at (ser_records rs) junk t n lim).
  rewrite Heq. unfold post.
  eapply post2_weaken; [apply loop_grows| |]; intros sf [H1 H2]; split; intros Ho.
  - rewrite <- (inv_unkm _ _ _ _ _ _ _ HI1 Ho). exact H1.
  - rewrite <- (inv_unkf _ _ _ _ _ _ _ HI1 Ho). exact H2.
  - rewrite <- (inv_unkm _ _ _ _ _ _ _ HI1 Ho). exact H1.
  - rewrite <- (inv_unkf _ _ _ _ _ _ _ HI1 Ho). exact H2.
Qed.

(* ---------------------------------------------------------------- (ii) the record in flight *)

(* the unlisted field numbers the reference semantics collects do not depend on the payload:
   they are the unlisted numbers of the definition, in order *)
Lemma denote_fields_unl be gmn : forall fds pay m ref unl0,
  snd (denote_fields be gmn fds pay m ref unl0) = unl0 ++ unlisted_of gmn (map to_fdef fds).
Proof.
  induction fds as [|f r IH]; intros pay m ref unl0.
  - cbn [denote_fields snd map unlisted_of filter]. now rewrite app_nil_r.
  - cbn [denote_fields map]. unfold unlisted_of. cbn [filter]. unfold is_unl at 1. cbn [to_fdef fd_num].
    destruct (get_field gmn (sf_num f)) as [p|].
    + apply IH.
    + rewrite IH. cbn [map fd_num]. rewrite <- app_assoc. reflexivity.
Qed.

Lemma fold_count2_folds gmn : forall unl uf, fold_left (fun acc k => count2 gmn k acc) unl uf = folds gmn unl uf.
Proof.
  induction unl as [|k r IH]; intros uf; [reflexivity|].
  cbn [fold_left]. rewrite IH. unfold folds. cbn [fold_left]. now rewrite bump2_count2.
Qed.

Lemma prefix_nil_inv {A} (l : list A) : prefix l [] -> l = [].
Proof. intros [r H]. destruct l; [reflexivity|discriminate]. Qed.

(* a data record the reference semantics accepts: every state the decoder can be left in while
   reading it has counters at most those of the reference state after the record *)
Lemma data_bound o pre fb gb ft s1 ss1 l offo pay dev ss2 sf :
  Inv o pre fb gb ft s1 ss1 -> denote_data ss1 l offo pay dev = Some ss2 ->
  rec_bound o (nth (N.to_nat l) (ds_defs s1) None) (ds_unkm s1) (ds_unkf s1) sf ->
  (o_unkm o = true -> le1 (ds_unkm sf) (ss_unkm ss2)) /\ (o_unkf o = true -> le2 (ds_unkf sf) (ss_unkf ss2)).
Proof.
  intros HI Hden Hb. unfold denote_data in Hden.
  destruct (lookup_def (ss_env ss1) l) as [d|] eqn:El; [|discriminate].
  pose proof (inv_env16 _ _ _ _ _ _ _ HI l d El) as Hl16.
  pose proof (inv_defs _ _ _ _ _ _ _ HI l Hl16) as Hslot. rewrite El in Hslot.
  destruct (nth (N.to_nat l) (ds_defs s1) None) as [dm|]; [|contradiction]. cbn [slot_rel] in Hslot.
  destruct Hslot as (Hbe & Hgmn & Hfds & _).
  destruct (negb _ || negb _); [discriminate|].
  cbn [rec_bound] in Hb. destruct Hb as [Hum (ks & Hp & Huf)].
  unfold dm_um in Hum. unfold dm_uf, unlisted in Hp. rewrite Hgmn in *. rewrite Hfds in Hp.
  destruct (known_msg (sd_gmn d)) eqn:Ekn; cbn [negb andb] in Hum, Hp.
  - destruct (mesg_all_invalid (sd_gmn d)) as [m0|]; [|discriminate].
    match type of Hden with context [let '(_, _) := ?X in _] => destruct X as [m1 ref1] end.
    pose proof (denote_fields_unl (sd_be d) (sd_gmn d) (sd_fds d) pay m1 ref1 []) as Hu.
    destruct (denote_fields (sd_be d) (sd_gmn d) (sd_fds d) pay m1 ref1 []) as [[m2 ref2] unl].
    cbn [snd app] in Hu. inversion Hden; subst ss2. cbn [ss_unkm ss_unkf]. split; intros Ho.
    + apply le1_eq. rewrite <- (inv_unkm _ _ _ _ _ _ _ HI Ho). destruct Hum; assumption.
    + rewrite Ho in Hp. rewrite fold_count2_folds, Huf, Hu, <- (inv_unkf _ _ _ _ _ _ _ HI Ho).
      now apply le2_folds_prefix.
  - inversion Hden; subst ss2. cbn [ss_unkm ss_unkf]. split; intros Ho.
    + rewrite Ho in Hum. rewrite <- bump1_count1, <- (inv_unkm _ _ _ _ _ _ _ HI Ho).
      destruct Hum as [-> | ->]; [apply le1_bump|apply le1_refl].
    + apply prefix_nil_inv in Hp. subst ks. apply le2_eq. rewrite Huf. cbn [folds fold_left].
      exact (inv_unkf _ _ _ _ _ _ _ HI Ho).
Qed.

(* the same for any record, from its header byte *)
Lemma trunc_bound o pre fb gb ft s1 ss1 r ss2 sf :
  Inv o pre fb gb ft s1 ss1 -> rec_wf r = true -> denote_record ss1 r = Some ss2 ->
  rec_bound o (hdr_slot (hd 0 (ser_record r)) s1) (ds_unkm s1) (ds_unkf s1) sf ->
  (o_unkm o = true -> le1 (ds_unkm sf) (ss_unkm ss2)) /\ (o_unkf o = true -> le2 (ds_unkf sf) (ss_unkf ss2)).
Proof.
  intros HI Hwf Hden. unfold rec_wf in Hwf. apply andb_prop in Hwf. destruct Hwf as [_ Hextra].
  destruct r as [l be gmn fds devflag devs|l pay dev|l off pay dev]; cbn [ser_record hd app denote_record] in *.
  - destruct ((16 <=? l) || (gmn =? c_MesgNumInvalid) || negb (forallb (compat gmn) fds)) eqn:Echk; [discriminate|].
    apply orb_false_elim in Echk. destruct Echk as [Echk _]. apply orb_false_elim in Echk. destruct Echk as [El _].
    apply N.leb_gt in El. destruct (def_header_facts l devflag El) as (H1 & H2 & _). unfold def_header in H1, H2.
    unfold hdr_slot. rewrite H1, H2. change (0 =? c_compressedHeaderMask) with false. rewrite N.eqb_refl. cbv iota.
    cbn [rec_bound]. intros [Hm Hf]. inversion Hden; subst ss2. cbn [ss_unkm ss_unkf].
    split; intros Ho; [apply le1_eq|apply le2_eq].
    + rewrite Hm. exact (inv_unkm _ _ _ _ _ _ _ HI Ho).
    + rewrite Hf. exact (inv_unkf _ _ _ _ _ _ _ HI Ho).
  - assert (Hl16 : l < 16).
    { unfold denote_data in Hden. destruct (lookup_def (ss_env ss1) l) as [d|] eqn:El; [|discriminate].
      exact (inv_env16 _ _ _ _ _ _ _ HI l d El). }
    destruct (data_header_facts l Hl16) as (H1 & H2 & H3).
    unfold hdr_slot, data_local. rewrite H1, H2, H3. change (0 =? c_compressedHeaderMask) with false.
    change (c_mesgHeaderMask =? c_mesgDefinitionMask) with false. rewrite N.eqb_refl. cbv iota.
    intros Hb. exact (data_bound o pre fb gb ft s1 ss1 l None pay dev ss2 sf HI Hden Hb).
  - destruct (4 <=? l) eqn:El4; [discriminate|]. apply N.leb_gt in El4. apply N.ltb_lt in Hextra.
    destruct (comp_header_facts l off El4 Hextra) as (H1 & H2 & _). unfold comp_header in H1, H2.
    unfold hdr_slot, data_local. rewrite H1, H2. rewrite N.eqb_refl. cbv iota.
    intros Hb. exact (data_bound o pre fb gb ft s1 ss1 l (Some off) pay dev ss2 sf HI Hden Hb).
Qed.

(* a strict prefix of a record the decoder completes is not enough to complete a record *)
Lemma trunc_not_ok o pre fb gb ft s1 ss1 r ss2 cut rem t n lim :
  Inv o pre fb gb ft s1 ss1 -> rec_wf r = true -> denote_record ss1 r = Some ss2 ->
  ser_record r = cut ++ rem -> rem <> [] ->
  match run_a (parse_record o) (mk_ast cut t n lim) s1 with
  | ROk _ _ _ => False
  | RFail _ _ _ => False
  | RPanic _ => False
  | _ => True
  end.
Proof.
  intros HI Hwf Hden Hser Hrem.
  set (lim' := Nat.max lim (n + List.length (ser_record r))).
  destruct (record_step o pre fb gb ft s1 ss1 r ss2 [] t n lim' HI Hwf Hden ltac:(lia)) as (s2 & Hrun & _).
  unfold ast_at in Hrun. rewrite app_nil_r in Hrun. cbn [app] in Hrun.
  pose proof (run_ext (parse_record o) (nm_record o) (mk_ast cut t n lim) s1 rem lim' ltac:(cbn [a_limit]; lia)) as He.
  unfold ext_x in He. cbn [a_rest a_term a_n] in He. rewrite <- Hser in He. rewrite Hrun in He.
  destruct (run_a (parse_record o) (mk_ast cut t n lim) s1) as [a x' s'|e x' s'|e x' s'|w|]; try exact I; try discriminate.
  apply (f_equal (fun r : result ast dstate err unit => match r with ROk _ y _ => a_rest y | _ => [] end)) in He.
  cbv beta iota in He. cbn [a_rest] in He. symmetry in He.
  apply app_eq_nil in He. destruct He as [_ He]. contradiction.
Qed.

Lemma parse_record_nil o t n lim s :
  exists e, run_a (parse_record o) (mk_ast [] t n lim) s = RIOErr e (mk_ast [] t n lim) s.
Proof.
  unfold parse_record. rewrite run_bind. unfold read_byte. cbn [run_a]. unfold a_take. cbn [a_rest a_limit a_n List.length].
  rewrite Nat.min_0_r. cbn [Nat.leb]. destruct (Nat.leb (lim - n) 0); eexists; reflexivity.
Qed.

Lemma run_a_no_fuel {A} (p : P A) : forall x s, run_a p x s <> ROutOfFuel.
Proof.
  induction p as [a|e|w|k IH|m k IH|k IH|k IH|s' k IH]; intros x s; cbn [run_a]; try discriminate; try apply IH.
  - destruct (a_take 1 x) as [[l x']|e]; [apply IH|discriminate].
  - destruct (a_take m x) as [[l x']|e]; [apply IH|discriminate].
Qed.

Lemma post_and {X E A} (Q1 Q2 : dstate -> Prop) (r : result X dstate E A) :
  post Q1 r -> post Q2 r -> post (fun s => Q1 s /\ Q2 s) r.
Proof. destruct r; cbn [post post2]; auto. Qed.

(* the loop on a strict prefix of one more acceptable record *)
Lemma trunc_loop o pre fb gb ft s1 ss1 r ss2 cut rem t lim :
  Inv o pre fb gb ft s1 ss1 -> rec_wf r = true -> denote_record ss1 r = Some ss2 ->
  ser_record r = cut ++ rem -> rem <> [] ->
  forall fuel n,
  post (fun sf => (o_unkm o = true -> le1 (ds_unkm sf) (ss_unkm ss2)) /\ (o_unkf o = true -> le2 (ds_unkf sf) (ss_unkf ss2)))
       (run_a (decode_file_data o fuel) (mk_ast cut t n lim) s1).
Proof.
  intros HI Hwf Hden Hser Hrem fuel n.
  assert (Hsame : (o_unkm o = true -> le1 (ds_unkm s1) (ss_unkm ss2)) /\ (o_unkf o = true -> le2 (ds_unkf s1) (ss_unkf ss2))).
  { apply (trunc_bound o pre fb gb ft s1 ss1 r ss2 s1 HI Hwf Hden). apply rec_bound_same, cs_self. }
  destruct fuel as [|f]; [exact I|].
  cbn [decode_file_data run_a a_n a_limit]. destruct (Nat.ltb n lim); [|exact Hsame].
  rewrite run_bind. destruct cut as [|b cut'].
  - destruct (parse_record_nil o t n lim s1) as [e He]. rewrite He. cbn [rbind]. exact Hsame.
  - pose proof (record_spec o (mk_ast (b :: cut') t n lim) s1 _ _ (cs_self s1)) as Hspec.
    pose proof (trunc_not_ok o pre fb gb ft s1 ss1 r ss2 (b :: cut') rem t n lim HI Hwf Hden Hser Hrem) as Hno.
    cbn [a_rest hd] in Hspec.
    assert (Hb : hd 0 (ser_record r) = b) by (rewrite Hser; reflexivity).
    destruct (run_a (parse_record o) (mk_ast (b :: cut') t n lim) s1) as [a x' s'|e x' s'|e x' s'|w|];
      cbn [rbind post post2] in *; try contradiction; try exact I.
    apply (trunc_bound o pre fb gb ft s1 ss1 r ss2 s' HI Hwf Hden). rewrite Hb. exact Hspec.
Qed.

(* the headline: a well-formed record list, then a truncated further record: the counters returned lie
   between the counts of the completed records and those including the record in flight *)
Theorem counts_on_failure_truncated : forall rs r cut rem o pre fb gb ft s0 ss0 ss1 ss2 t n lim fuel,
  Inv o pre fb gb ft s0 ss0 ->
  stream_wf rs = true -> denote_from ss0 rs = Some ss1 ->
  rec_wf r = true -> denote_record ss1 r = Some ss2 ->
  ser_record r = cut ++ rem -> rem <> [] ->
  (n + List.length (ser_records rs) <= lim)%nat ->
  post (fun sf =>
          ((o_unkm o = true -> le1 (ss_unkm ss1) (ds_unkm sf)) /\ (o_unkf o = true -> le2 (ss_unkf ss1) (ds_unkf sf))) /\
          ((o_unkm o = true -> le1 (ds_unkm sf) (ss_unkm ss2)) /\ (o_unkf o = true -> le2 (ds_unkf sf) (ss_unkf ss2))))
       (run_a (decode_file_data o fuel) (mk_ast (ser_records rs ++ cut) t n lim) s0).
Proof.
  intros rs r cut rem o pre fb gb ft s0 ss0 ss1 ss2 t n lim fuel HI Hwf Hden Hwfr Hdr Hser Hrem Hlim.
  apply post_and.
  - exact (counts_on_failure_lower rs o pre fb gb ft s0 ss0 ss1 cut t n lim fuel HI Hwf Hden Hlim).
  - destruct (records_then rs o pre fb gb ft s0 ss0 ss1 cut t n lim HI Hwf Hden Hlim) as (s1 & HI1 & Heq).
    change (mk_ast (ser_records rs ++ cut) t n lim) with (ast_at (ser_records rs) cut t n lim).
    rewrite Heq. exact (trunc_loop o pre fb gb ft s1 ss1 r ss2 cut rem t lim HI1 Hwfr Hdr Hser Hrem _ _).
Qed.

(* ... and the outcome is then never a panic or a decoder error: the loop stops with success exactly
   when the limit coincides with the end of the completed records, with an I/O error otherwise *)
Theorem truncated_outcome : forall rs r cut rem o pre fb gb ft s0 ss0 ss1 ss2 t n lim fuel,
  Inv o pre fb gb ft s0 ss0 ->
  stream_wf rs = true -> denote_from ss0 rs = Some ss1 ->
  rec_wf r = true -> denote_record ss1 r = Some ss2 ->
  ser_record r = cut ++ rem -> rem <> [] ->
  (n + List.length (ser_records rs) <= lim)%nat -> (List.length rs < fuel)%nat ->
  match run_a (decode_file_data o fuel) (mk_ast (ser_records rs ++ cut) t n lim) s0 with
  | ROk _ _ _ => (n + List.length (ser_records rs) = lim)%nat
  | RIOErr _ _ _ => (n + List.length (ser_records rs) < lim)%nat
  | _ => False
  end.
Proof.
  intros rs r cut rem o pre fb gb ft s0 ss0 ss1 ss2 t n lim fuel HI Hwf Hden Hwfr Hdr Hser Hrem Hlim Hfuel.
  destruct (records_then rs o pre fb gb ft s0 ss0 ss1 cut t n lim HI Hwf Hden Hlim) as (s1 & HI1 & Heq).
  change (mk_ast (ser_records rs ++ cut) t n lim) with (ast_at (ser_records rs) cut t n lim).
  rewrite Heq. destruct (fuel - List.length rs)%nat as [|f] eqn:Ef; [lia|].
  cbn [decode_file_data run_a a_n a_limit].
  destruct (Nat.ltb (n + List.length (ser_records rs)) lim) eqn:Elt.
  - apply Nat.ltb_lt in Elt. rewrite run_bind.
    pose proof (trunc_not_ok o pre fb gb ft s1 ss1 r ss2 cut rem t (n + List.length (ser_records rs))%nat lim
                  HI1 Hwfr Hdr Hser Hrem) as Hno.
    pose proof (run_a_no_fuel (parse_record o) (mk_ast cut t (n + List.length (ser_records rs)) lim) s1) as Hnf.
    destruct (run_a (parse_record o) (mk_ast cut t (n + List.length (ser_records rs)) lim) s1) as [a x' s'|e x' s'|e x' s'|w|];
      cbn [rbind]; cbv beta iota in Hno; try contradiction; try exact Elt; try (now apply Hnf).
  - apply Nat.ltb_ge in Elt. cbn [run_a]. lia.
Qed.

(* B in words: whatever a record does, the counters of a returned state are either those of the start
   state, or -- for a data record, dm being the definition in the slot its header addresses -- the
   unknown-message counters are bumped at most once for dm's message and the unknown-field counters
   are bumped for a prefix of dm's unlisted field numbers *)
Theorem record_counts o x s :
  post (fun s' =>
          grows s s' /\
          (cs (ds_unkm s) (ds_unkf s) s' \/
           exists dm, hdr_slot (hd 0 (a_rest x)) s = Some dm /\
             (ds_unkm s' = ds_unkm s \/ ds_unkm s' = bump1 (dm_gmn dm) (ds_unkm s)) /\
             exists ks, prefix ks (unlisted dm) /\
                        ds_unkf s' = fold_left (fun acc k => bump2 (dm_gmn dm, k) acc) ks (ds_unkf s)))
       (run_a (parse_record o) x s).
Proof.
  assert (Hb : forall s', rec_bound o (hdr_slot (hd 0 (a_rest x)) s) (ds_unkm s) (ds_unkf s) s' ->
            grows s s' /\
            (cs (ds_unkm s) (ds_unkf s) s' \/
             exists dm, hdr_slot (hd 0 (a_rest x)) s = Some dm /\
               (ds_unkm s' = ds_unkm s \/ ds_unkm s' = bump1 (dm_gmn dm) (ds_unkm s)) /\
               exists ks, prefix ks (unlisted dm) /\
                          ds_unkf s' = fold_left (fun acc k => bump2 (dm_gmn dm, k) acc) ks (ds_unkf s))).
  { intros s' H. split; [exact (rec_bound_le _ _ _ _ _ H)|].
    destruct (hdr_slot (hd 0 (a_rest x)) s) as [dm|]; cbn [rec_bound] in H; [right|left; exact H].
    exists dm. split; [reflexivity|]. destruct H as [Hm (ks & Hp & Hf)]. split.
    - unfold dm_um in Hm. destruct (_ && _); tauto.
    - exists ks. split; [|exact Hf]. unfold dm_uf in Hp. destruct (_ && _); [exact Hp|].
      apply prefix_nil_inv in Hp. subst ks. apply prefix_nil. }
  unfold post. eapply post2_weaken; [apply (record_spec o x s _ _ (cs_self s))| |]; intros s' H.
  - apply Hb, rec_ok_bound, H.
  - apply Hb, H.
Qed.

(* ================================================================ E. what the File reports *)
Require Import Coq.Sorting.Permutation.

(* the keys of the counter lists are pairwise distinct, and bumps keep them so *)
Definition key2 (x : N * N * N) : N * N := (fst (fst x), snd (fst x)).

Lemma bump1_keys k : forall l a, In a (map fst (bump1 k l)) -> a = k \/ In a (map fst l).
Proof.
  unfold bump1. induction l as [|[b c] r IH]; intros a.
  - cbn [map fst In]. intros [H|[]]. left. now symmetry.
  - destruct (b =? k); cbn [map fst In]; [tauto|]. intros [H|H]; [tauto|]. apply IH in H. tauto.
Qed.

Lemma bump1_nodup k : forall l, NoDup (map fst l) -> NoDup (map fst (bump1 k l)).
Proof.
  induction l as [|[b c] r IH]; intros Hn.
  - unfold bump1. cbn [map fst]. constructor; [intros []|constructor].
  - unfold bump1. fold (bump1 k r). destruct (N.eqb_spec b k) as [E|NE]; [exact Hn|].
    cbn [map fst] in *. inversion Hn as [|? ? Hni Hn']; subst. constructor; [|now apply IH].
    intros Hin. apply bump1_keys in Hin. destruct Hin; [congruence|contradiction].
Qed.

Lemma bump2_keys m k : forall l a, In a (map key2 (bump2 (m, k) l)) -> a = (m, k) \/ In a (map key2 l).
Proof.
  unfold bump2. cbn [fst snd]. induction l as [|[[b1 b2] c] r IH]; intros a.
  - cbn [map key2 fst snd In]. intros [H|[]]. left. now symmetry.
  - destruct ((b1 =? m) && (b2 =? k)); cbn [map key2 fst snd In]; [tauto|]. intros [H|H]; [tauto|]. apply IH in H. tauto.
Qed.

Lemma bump2_nodup m k : forall l, NoDup (map key2 l) -> NoDup (map key2 (bump2 (m, k) l)).
Proof.
  induction l as [|[[b1 b2] c] r IH]; intros Hn.
  - unfold bump2. cbn [map key2 fst snd]. constructor; [intros []|constructor].
  - unfold bump2. cbn [fst snd]. fold (bump2 (m, k) r).
    destruct ((b1 =? m) && (b2 =? k)) eqn:E; [exact Hn|].
    cbn [map key2 fst snd] in *. inversion Hn as [|? ? Hni Hn']; subst. constructor; [|now apply IH].
    intros Hin. apply bump2_keys in Hin. destruct Hin as [Hin|Hin]; [|contradiction].
    inversion Hin; subst. rewrite !N.eqb_refl in E. discriminate.
Qed.

Lemma folds_nodup m0 : forall ks l, NoDup (map key2 l) -> NoDup (map key2 (folds m0 ks l)).
Proof.
  induction ks as [|x r IH]; intros l Hn; [exact Hn|].
  change (folds m0 (x :: r) l) with (folds m0 r (bump2 (m0, x) l)). apply IH. now apply bump2_nodup.
Qed.

Definition distinct_keys (s : dstate) : Prop := NoDup (map fst (ds_unkm s)) /\ NoDup (map key2 (ds_unkf s)).

Lemma distinct_keys_init f g : distinct_keys (init_dstate f g).
Proof. split; constructor. Qed.

Lemma rec_bound_distinct o od s s' : distinct_keys s -> rec_bound o od (ds_unkm s) (ds_unkf s) s' -> distinct_keys s'.
Proof.
  intros [H1 H2]. destruct od as [dm|]; cbn [rec_bound].
  - intros [Hm (ks & _ & Hf)]. split.
    + unfold dm_um in Hm. destruct (_ && _); destruct Hm as [-> | ->]; try assumption. now apply bump1_nodup.
    + rewrite Hf. now apply folds_nodup.
  - intros [Hm Hf]. split; [now rewrite Hm|now rewrite Hf].
Qed.

Theorem loop_distinct o : forall fuel x s, distinct_keys s -> post distinct_keys (run_a (decode_file_data o fuel) x s).
Proof.
  induction fuel as [|f IH]; intros x s Hs; [exact I|].
  cbn [decode_file_data run_a]. destruct (Nat.ltb (a_n x) (a_limit x)); [|exact Hs].
  eapply post_bind with (Pq := distinct_keys); [| |auto].
  - unfold post. eapply post2_weaken; [apply (record_spec o x s _ _ (cs_self s))| |]; intros s' H.
    + apply rec_ok_bound in H. exact (rec_bound_distinct _ _ _ _ Hs H).
    + exact (rec_bound_distinct _ _ _ _ Hs H).
  - intros _ x' s' H. apply IH, H.
Qed.

(* sorting a list with distinct keys does not change any count *)
Lemma ins_unkm_cnt k x : forall l, ~ In (fst x) (map fst l) ->
  cnt1 k (ins_unkm x l) = cnt1 k (x :: l).
Proof.
  induction l as [|y r IH]; intros Hni; [reflexivity|].
  cbn [ins_unkm]. destruct (fst x <? fst y); [reflexivity|].
  cbn [map In] in Hni. destruct x as [xa xc], y as [ya yc]. cbn [fst] in *.
  cbn [cnt1]. rewrite IH by tauto. cbn [cnt1].
  destruct (N.eqb_spec ya k) as [E1|N1]; [|reflexivity].
  destruct (N.eqb_spec xa k) as [E2|N2]; [|reflexivity]. exfalso. apply Hni. left. congruence.
Qed.

Lemma sort_unkm_cnt k : forall l, NoDup (map fst l) -> cnt1 k (sort_unkm l) = cnt1 k l.
Proof.
  induction l as [|x r IH]; intros Hn; [reflexivity|].
  cbn [map] in Hn. inversion Hn as [|? ? Hni Hn']; subst.
  unfold sort_unkm. cbn [fold_right]. fold (sort_unkm r). rewrite ins_unkm_cnt.
  - destruct x as [xa xc]. cbn [cnt1]. now rewrite IH.
  - intros Hin. apply Hni. eapply Permutation_in; [|exact Hin].
    apply Permutation_map, Permutation_sym, sort_unkm_perm.
Qed.

Lemma ins_unkf_cnt m k x : forall l, ~ In (key2 x) (map key2 l) ->
  cnt2 m k (ins_unkf x l) = cnt2 m k (x :: l).
Proof.
  induction l as [|y r IH]; intros Hni; [reflexivity|].
  cbn [ins_unkf]. destruct (unkf_lt x y); [reflexivity|].
  cbn [map In] in Hni. destruct x as [[xa xb] xc], y as [[ya yb] yc]. unfold key2 in Hni. cbn [fst snd] in Hni.
  cbn [cnt2]. rewrite IH by (unfold key2; cbn [fst snd]; tauto). cbn [cnt2].
  destruct ((ya =? m) && (yb =? k)) eqn:E1; [|reflexivity].
  destruct ((xa =? m) && (xb =? k)) eqn:E2; [|reflexivity]. exfalso. apply Hni. left.
  apply andb_prop in E1. destruct E1 as [E1 E1']. apply andb_prop in E2. destruct E2 as [E2 E2'].
  apply N.eqb_eq in E1, E1', E2, E2'. congruence.
Qed.

Lemma sort_unkf_cnt m k : forall l, NoDup (map key2 l) -> cnt2 m k (sort_unkf l) = cnt2 m k l.
Proof.
  induction l as [|x r IH]; intros Hn; [reflexivity|].
  cbn [map] in Hn. inversion Hn as [|? ? Hni Hn']; subst.
  unfold sort_unkf. cbn [fold_right]. fold (sort_unkf r). rewrite ins_unkf_cnt.
  - destruct x as [[xa xb] xc]. cbn [cnt2]. now rewrite IH.
  - intros Hin. apply Hni. eapply Permutation_in; [|exact Hin].
    apply Permutation_map, Permutation_sym, unknown_fields_perm.
Qed.

(* the lists of the File handed back with the failure: the sorted counters, count for count *)
Theorem finalize_counts o sf : distinct_keys sf ->
  (o_unkm o = true ->
   exists lm, f_unkm (finalize_unknown o sf) = Some lm /\ forall k, cnt1 k lm = cnt1 k (ds_unkm sf)) /\
  (o_unkf o = true ->
   exists lf, f_unkf (finalize_unknown o sf) = Some lf /\ forall m k, cnt2 m k lf = cnt2 m k (ds_unkf sf)).
Proof.
  intros [H1 H2]. unfold finalize_unknown. cbn [f_unkm f_unkf]. split; intros Ho; rewrite Ho.
  - eexists. split; [reflexivity|]. intros k. now apply sort_unkm_cnt.
  - eexists. split; [reflexivity|]. intros m k. now apply sort_unkf_cnt.
Qed.

Lemma post_weaken {X E A} (Q1 Q2 : dstate -> Prop) (r : result X dstate E A) :
  post Q1 r -> (forall s, Q1 s -> Q2 s) -> post Q2 r.
Proof. destruct r; cbn [post post2]; auto. Qed.

(* D and E together: the lists in the File returned with the failure, count for count, lie between the
   reference counts of the completed records and those including the truncated record *)
Theorem counts_on_failure_file : forall rs r cut rem o pre fb gb ft s0 ss0 ss1 ss2 t n lim fuel,
  Inv o pre fb gb ft s0 ss0 -> distinct_keys s0 ->
  stream_wf rs = true -> denote_from ss0 rs = Some ss1 ->
  rec_wf r = true -> denote_record ss1 r = Some ss2 ->
  ser_record r = cut ++ rem -> rem <> [] ->
  (n + List.length (ser_records rs) <= lim)%nat ->
  post (fun sf =>
          (o_unkm o = true ->
           exists lm, f_unkm (finalize_unknown o sf) = Some lm /\
                      forall k, cnt1 k (ss_unkm ss1) <= cnt1 k lm <= cnt1 k (ss_unkm ss2)) /\
          (o_unkf o = true ->
           exists lf, f_unkf (finalize_unknown o sf) = Some lf /\
                      forall m k, cnt2 m k (ss_unkf ss1) <= cnt2 m k lf <= cnt2 m k (ss_unkf ss2)))
       (run_a (decode_file_data o fuel) (mk_ast (ser_records rs ++ cut) t n lim) s0).
Proof.
  intros rs r cut rem o pre fb gb ft s0 ss0 ss1 ss2 t n lim fuel HI Hd Hwf Hden Hwfr Hdr Hser Hrem Hlim.
  eapply post_weaken.
  - apply post_and.
    + exact (counts_on_failure_truncated rs r cut rem o pre fb gb ft s0 ss0 ss1 ss2 t n lim fuel
               HI Hwf Hden Hwfr Hdr Hser Hrem Hlim).
    + exact (loop_distinct o fuel _ s0 Hd).
  - cbv beta. intros sf [[[L1 L2] [U1 U2]] Hdk].
    destruct (finalize_counts o sf Hdk) as [F1 F2]. split; intros Ho.
    + destruct (F1 Ho) as (lm & E & Hc). exists lm. split; [exact E|]. intros k. rewrite Hc.
      split; [apply (L1 Ho)|apply (U1 Ho)].
    + destruct (F2 Ho) as (lf & E & Hc). exists lf. split; [exact E|]. intros m k. rewrite Hc.
      split; [apply (L2 Ho)|apply (U2 Ho)].
Qed.

(* ---------------------------------------------------------------- any truncation of an accepted stream *)

Lemma prefix_app_cases {A} (inp a b : list A) : prefix inp (a ++ b) ->
  (exists inp', inp = a ++ inp' /\ prefix inp' b) \/ (exists rem, a = inp ++ rem /\ rem <> []).
Proof.
  revert inp. induction a as [|x a IH]; intros inp Hp.
  - left. exists inp. split; [reflexivity|exact Hp].
  - destruct inp as [|y inp].
    + right. exists (x :: a). split; [reflexivity|discriminate].
    + destruct Hp as [r Hr]. cbn [app] in Hr. injection Hr as Hxy Hr. subst y.
      destruct (IH inp (ex_intro _ r Hr)) as [(inp' & -> & Hp')|(rem & -> & Hne)].
      * left. exists inp'. split; [reflexivity|exact Hp'].
      * right. exists rem. split; [reflexivity|exact Hne].
Qed.

(* a prefix of the bytes of a record list is the whole of it, or some complete records and a strict
   prefix of the next one *)
Lemma prefix_split : forall full inp, prefix inp (ser_records full) ->
  inp = ser_records full \/
  exists rs r rest cut rem, full = rs ++ r :: rest /\ inp = ser_records rs ++ cut /\ ser_record r = cut ++ rem /\ rem <> [].
Proof.
  induction full as [|r rest IH]; intros inp Hp.
  - left. apply prefix_nil_inv in Hp. exact Hp.
  - change (ser_records (r :: rest)) with (ser_record r ++ ser_records rest) in *.
    destruct (prefix_app_cases inp _ _ Hp) as [(inp' & -> & Hp')|(rem & Hser & Hne)].
    + destruct (IH inp' Hp') as [->|(rs & r' & rest' & cut & rem & -> & -> & Hser & Hne)]; [now left|right].
      exists (r :: rs), r', rest', cut, rem. repeat split; try assumption.
      change (ser_records (r :: rs)) with (ser_record r ++ ser_records rs). now rewrite app_assoc.
    + right. exists [], r, rest, inp, rem. repeat split; assumption.
Qed.

Lemma denote_from_split : forall rs r rest ss0 ssF,
  stream_wf (rs ++ r :: rest) = true ->
  denote_from ss0 (rs ++ r :: rest) = Some ssF ->
  exists ss1 ss2, stream_wf rs = true /\ denote_from ss0 rs = Some ss1 /\
                  rec_wf r = true /\ denote_record ss1 r = Some ss2.
Proof.
  induction rs as [|a rs IH]; intros r rest ss0 ssF Hwf Hden.
  - cbn [app] in *. cbn [stream_wf forallb] in Hwf. apply andb_prop in Hwf. destruct Hwf as [Hwf1 _].
    cbn [denote_from] in Hden. destruct (denote_record ss0 r) as [ss2|] eqn:E; [|discriminate].
    exists ss0, ss2. repeat split; assumption.
  - cbn [app] in *. cbn [stream_wf forallb] in Hwf. apply andb_prop in Hwf. destruct Hwf as [Hwf1 Hwf].
    cbn [denote_from] in Hden. destruct (denote_record ss0 a) as [ssm|] eqn:E; [|discriminate].
    destruct (IH r rest ssm ssF Hwf Hden) as (ss1 & ss2 & H1 & H3 & H4 & H6).
    exists ss1, ss2. cbn [stream_wf forallb denote_from]. rewrite E, Hwf1.
    repeat split; assumption.
Qed.

(* decoding a strict prefix of the bytes of a stream the reference semantics accepts (the limit not below
   the bytes available): the counters returned lie between the reference counts after the records that
   are complete in the prefix and those after the record the prefix cuts *)
Theorem counts_on_failure_prefix : forall full inp o pre fb gb ft s0 ss0 ssF t n lim fuel,
  Inv o pre fb gb ft s0 ss0 ->
  stream_wf full = true -> denote_from ss0 full = Some ssF ->
  prefix inp (ser_records full) -> inp <> ser_records full ->
  (n + List.length inp <= lim)%nat ->
  exists rs r rest cut rem ss1 ss2,
    full = rs ++ r :: rest /\ inp = ser_records rs ++ cut /\ ser_record r = cut ++ rem /\ rem <> [] /\
    denote_from ss0 rs = Some ss1 /\ denote_record ss1 r = Some ss2 /\
    post (fun sf =>
            ((o_unkm o = true -> le1 (ss_unkm ss1) (ds_unkm sf)) /\ (o_unkf o = true -> le2 (ss_unkf ss1) (ds_unkf sf))) /\
            ((o_unkm o = true -> le1 (ds_unkm sf) (ss_unkm ss2)) /\ (o_unkf o = true -> le2 (ds_unkf sf) (ss_unkf ss2))))
         (run_a (decode_file_data o fuel) (mk_ast inp t n lim) s0).
Proof.
  intros full inp o pre fb gb ft s0 ss0 ssF t n lim fuel HI Hwf Hden Hp Hne Hlim.
  destruct (prefix_split full inp Hp) as [E|(rs & r & rest & cut & rem & Hfull & Hinp & Hser & Hrem)]; [contradiction|].
  subst full. destruct (denote_from_split rs r rest ss0 ssF Hwf Hden) as (ss1 & ss2 & H1 & H3 & H4 & H6).
  exists rs, r, rest, cut, rem, ss1, ss2.
  split; [reflexivity|]. split; [exact Hinp|]. split; [exact Hser|]. split; [exact Hrem|].
  split; [exact H3|]. split; [exact H6|].
  subst inp. rewrite app_length in Hlim.
  exact (counts_on_failure_truncated rs r cut rem o pre fb gb ft s0 ss0 ss1 ss2 t n lim fuel
           HI H1 H3 H4 H6 Hser Hrem ltac:(lia)).
Qed.

Print Assumptions record_spec.
Print Assumptions record_counts.
Print Assumptions loop_grows.
Print Assumptions counts_on_failure_lower.
Print Assumptions counts_on_failure_truncated.
Print Assumptions truncated_outcome.
Print Assumptions finalize_counts.
Print Assumptions counts_on_failure_file.
Print Assumptions counts_on_failure_prefix.
