(* C16 counts_on_failure: the unknown-message / unknown-field counters of the state a failing decode
   returns.  They are at least the counts of the records completed before the failure and at most
   those plus the contribution of the one record in flight.
   A. the counting order on counter lists;
   B. one record, any input, any state: what parse_record can do to the counters;
   C. the record loop, any input, any state: counters never decrease;
   D. a well-formed prefix followed by arbitrary bytes / by a truncated well-formed record;
   E. what the File reports (the sorted lists). *)
From Coq Require Import NArith ZArith List Bool Lia Arith.
From Coq Require Import ZifyN ZifyNat ZifyBool.
From FitV Require Import Proofs.Util Model.Values Model.Bytes Model.Base Model.Profile Model.Reflect Model.IO
  Model.Route Model.Components Model.Decode Spec.FitSyntax Spec.RouteSpec Proofs.RouteProofs Proofs.DecodeLemmas Gen.Consts
  Proofs.StreamDenoteBase Proofs.StreamDenoteDefs Proofs.StreamDenoteDef Proofs.StreamDenoteData
  Proofs.StreamDenoteRecord Proofs.StreamDenoteLoop.
Import ListNotations.
Local Open Scope N_scope.
Ltac Zify.zify_post_hook ::= Z.div_mod_to_equations.

(* ================================================================ A. the counting order *)

(* the count stored for a key: the first entry with that key, 0 when there is none *)
Fixpoint cnt1 (k : N) (l : list (N * N)) : N :=
  match l with [] => 0 | (a, c) :: r => if a =? k then c else cnt1 k r end.
Fixpoint cnt2 (m k : N) (l : list (N * N * N)) : N :=
  match l with [] => 0 | (a, b, c) :: r => if (a =? m) && (b =? k) then c else cnt2 m k r end.

Lemma cnt1_count_of1 k l : cnt1 k l = count_of1 k l.
Proof. induction l as [|[a c] r IH]; cbn [cnt1 count_of1]; [reflexivity|]. now rewrite IH. Qed.

Definition le1 (l l' : list (N * N)) : Prop := forall k, cnt1 k l <= cnt1 k l'.
Definition le2 (l l' : list (N * N * N)) : Prop := forall m k, cnt2 m k l <= cnt2 m k l'.

Lemma le1_refl l : le1 l l.
Proof. intros k. apply N.le_refl. Qed.
Lemma le2_refl l : le2 l l.
Proof. intros m k. apply N.le_refl. Qed.
Lemma le1_trans a b c : le1 a b -> le1 b c -> le1 a c.
Proof. intros H1 H2 k. eapply N.le_trans; [apply H1|apply H2]. Qed.
Lemma le2_trans a b c : le2 a b -> le2 b c -> le2 a c.
Proof. intros H1 H2 m k. eapply N.le_trans; [apply H1|apply H2]. Qed.
Lemma le1_eq a b : a = b -> le1 a b.
Proof. intros ->. apply le1_refl. Qed.
Lemma le2_eq a b : a = b -> le2 a b.
Proof. intros ->. apply le2_refl. Qed.

(* a bump adds exactly one to its own key and leaves every other key alone *)
Lemma bump1_cnt k k' l : cnt1 k' (bump1 k l) = if k' =? k then cnt1 k' l + 1 else cnt1 k' l.
Proof. rewrite !cnt1_count_of1. apply bump1_count. Qed.

Lemma bump2_cnt m k m' k' l :
  cnt2 m' k' (bump2 (m, k) l) = if (m' =? m) && (k' =? k) then cnt2 m' k' l + 1 else cnt2 m' k' l.
Proof.
  unfold bump2. cbn [fst snd]. induction l as [|[[a b] c] r IH].
  - cbn [cnt2]. rewrite (N.eqb_sym m m'), (N.eqb_sym k k'). destruct ((m' =? m) && (k' =? k)); reflexivity.
  - destruct ((a =? m) && (b =? k)) eqn:Eab.
    + apply andb_prop in Eab. destruct Eab as [Ea Eb]. apply N.eqb_eq in Ea, Eb. subst a b.
      cbn [cnt2]. rewrite (N.eqb_sym m m'), (N.eqb_sym k k'). destruct ((m' =? m) && (k' =? k)); reflexivity.
    + cbn [cnt2]. destruct ((a =? m') && (b =? k')) eqn:Eab'.
      * apply andb_prop in Eab'. destruct Eab' as [Ea Eb]. apply N.eqb_eq in Ea, Eb. subst a b.
        rewrite Eab. reflexivity.
      * exact IH.
Qed.

Lemma le1_bump k l : le1 l (bump1 k l).
Proof. intros k'. rewrite bump1_cnt. destruct (k' =? k); lia. Qed.
Lemma le2_bump m k l : le2 l (bump2 (m, k) l).
Proof. intros m' k'. rewrite bump2_cnt. destruct ((m' =? m) && (k' =? k)); lia. Qed.

(* the counters after a run of unlisted fields of one message *)
Definition folds (m0 : N) (ks : list N) (l : list (N * N * N)) : list (N * N * N) :=
  fold_left (fun acc x => bump2 (m0, x) acc) ks l.

Lemma folds_app m0 ks1 ks2 l : folds m0 (ks1 ++ ks2) l = folds m0 ks2 (folds m0 ks1 l).
Proof. unfold folds. apply fold_left_app. Qed.

(* bumps commute up to cnt: only the number of occurrences of a key matters *)
Lemma folds_cnt m0 m k : forall ks l,
  cnt2 m k (folds m0 ks l) = cnt2 m k l + (if m =? m0 then N.of_nat (count_occ N.eq_dec ks k) else 0).
Proof.
  induction ks as [|x r IH]; intros l.
  - cbn [folds fold_left count_occ]. destruct (m =? m0); cbn [N.of_nat]; lia.
  - change (folds m0 (x :: r) l) with (folds m0 r (bump2 (m0, x) l)). rewrite IH, bump2_cnt.
    cbn [count_occ]. destruct (N.eqb_spec m m0) as [->|NE]; cbn [andb].
    + destruct (N.eq_dec x k) as [->|NE]; [rewrite N.eqb_refl; lia|].
      replace (k =? x) with false by (symmetry; apply N.eqb_neq; congruence). lia.
    + lia.
Qed.

Lemma le2_folds m0 : forall ks l, le2 l (folds m0 ks l).
Proof.
  induction ks as [|x r IH]; intros l; [apply le2_refl|].
  change (folds m0 (x :: r) l) with (folds m0 r (bump2 (m0, x) l)).
  eapply le2_trans; [apply le2_bump|apply IH].
Qed.

Definition prefix {A} (l1 l2 : list A) : Prop := exists r, l2 = l1 ++ r.

Lemma prefix_refl {A} (l : list A) : prefix l l.
Proof. exists []. now rewrite app_nil_r. Qed.
Lemma prefix_nil {A} (l : list A) : prefix [] l.
Proof. exists l. reflexivity. Qed.
Lemma prefix_cons {A} (a : A) l1 l2 : prefix l1 l2 -> prefix (a :: l1) (a :: l2).
Proof. intros [r ->]. exists r. reflexivity. Qed.
Lemma prefix_trans {A} (a b c : list A) : prefix a b -> prefix b c -> prefix a c.
Proof. intros [r ->] [r' ->]. exists (r ++ r'). now rewrite app_assoc. Qed.
Lemma prefix_app {A} (a b c : list A) : prefix b c -> prefix (a ++ b) (a ++ c).
Proof. intros [r ->]. exists r. now rewrite app_assoc. Qed.
Lemma prefix_app_l {A} (a b : list A) : prefix a (a ++ b).
Proof. exists b. reflexivity. Qed.

(* monotonicity of the folds in the list of bumps *)
Lemma le2_folds_prefix m0 ks1 ks2 l : prefix ks1 ks2 -> le2 (folds m0 ks1 l) (folds m0 ks2 l).
Proof. intros [r ->]. rewrite folds_app. apply le2_folds. Qed.

(* ================================================================ outcome-indexed postconditions *)

(* [post2 Pok Perr r]: a state returned with success satisfies Pok, one returned with a failure
   (decoder error or I/O error) satisfies Perr; panics and fuel exhaustion return no state *)
Definition post2 {X E A} (Pok Perr : dstate -> Prop) (r : result X dstate E A) : Prop :=
  match r with
  | ROk _ _ s' => Pok s'
  | RFail _ _ s' => Perr s'
  | RIOErr _ _ s' => Perr s'
  | RPanic _ => True
  | ROutOfFuel => True
  end.
Definition post {X E A} (Q : dstate -> Prop) (r : result X dstate E A) : Prop := post2 Q Q r.

Lemma post2_bind {A B} (Pok Perr Qok Qerr : dstate -> Prop) (p : P A) (f : A -> P B) x s :
  post2 Pok Perr (run_a p x s) ->
  (forall a x' s', Pok s' -> post2 Qok Qerr (run_a (f a) x' s')) ->
  (forall s', Perr s' -> Qerr s') ->
  post2 Qok Qerr (run_a (bind p f) x s).
Proof.
  intros Hp Hf He. rewrite run_bind. destruct (run_a p x s) as [a x' s'|e x' s'|e x' s'|w|]; cbn [rbind post2] in *; auto.
Qed.

Lemma post_bind {A B} (Pq Q : dstate -> Prop) (p : P A) (f : A -> P B) x s :
  post Pq (run_a p x s) ->
  (forall a x' s', Pq s' -> post Q (run_a (f a) x' s')) ->
  (forall s', Pq s' -> Q s') ->
  post Q (run_a (bind p f) x s).
Proof. unfold post. apply post2_bind. Qed.

Lemma post2_weaken {X E A} (Pok Perr Qok Qerr : dstate -> Prop) (r : result X dstate E A) :
  post2 Pok Perr r -> (forall s', Pok s' -> Qok s') -> (forall s', Perr s' -> Qerr s') -> post2 Qok Qerr r.
Proof. destruct r; cbn [post2]; auto. Qed.

(* ================================================================ a syntactic invariant of programs *)

(* [okp J p]: p has no loop test, and every state p stores satisfies J provided every state it
   reads does *)
Fixpoint okp {A} (J : dstate -> Prop) (p : P A) : Prop :=
  match p with
  | Ret _ => True
  | Fail _ => True
  | Panic _ => True
  | ReadByte k => forall b, okp J (k b)
  | ReadFull _ k => forall l, okp J (k l)
  | More _ => False
  | Get k => forall s, J s -> okp J (k s)
  | Put s k => J s /\ okp J k
  end.

Lemma okp_bind {A B} (J : dstate -> Prop) (p : P A) (f : A -> P B) :
  okp J p -> (forall a, okp J (f a)) -> okp J (bind p f).
Proof.
  intros Hp Hf. induction p as [a|e|w|k IH|n k IH|k IH|k IH|s' k IH]; cbn [bind okp] in *.
  - apply Hf.
  - exact I.
  - exact I.
  - intros b. apply IH, Hp.
  - intros l. apply IH, Hp.
  - contradiction.
  - intros s Hs. apply IH, Hp, Hs.
  - destruct Hp as [H1 H2]. split; [exact H1|apply IH, H2].
Qed.

Lemma okp_sound {A} (J : dstate -> Prop) (p : P A) : okp J p -> forall x s, J s -> post J (run_a p x s).
Proof.
  unfold post.
  induction p as [a|e|w|k IH|n k IH|k IH|k IH|s' k IH]; intros Hp x s Hs; cbn [okp run_a post2] in *.
  - exact Hs.
  - exact Hs.
  - exact I.
  - destruct (a_take 1 x) as [[l x']|e]; [apply IH; auto|exact Hs].
  - destruct (a_take n x) as [[l x']|e]; [apply IH; auto|exact Hs].
  - contradiction.
  - apply IH; auto.
  - destruct Hp as [H1 H2]. apply IH; auto.
Qed.

(* on a longer input and under a larger limit a run that ended without an I/O error repeats itself *)
Definition ext_x (x : ast) (more : list N) (lim' : nat) : ast :=
  mk_ast (a_rest x ++ more) (a_term x) (a_n x) lim'.

Lemma a_take_ext k x l x' more lim' : a_take k x = inl (l, x') -> (a_limit x <= lim')%nat ->
  a_take k (ext_x x more lim') = inl (l, ext_x x' more lim') /\ a_limit x' = a_limit x.
Proof.
  unfold a_take, ext_x. cbn [a_rest a_term a_n a_limit].
  destruct (Nat.leb k (Nat.min (a_limit x - a_n x) (List.length (a_rest x)))) eqn:E.
  - intros H Hl. inversion H; subst l x'. clear H. cbn [a_rest a_term a_n a_limit]. apply Nat.leb_le in E.
    replace (Nat.leb k (Nat.min (lim' - a_n x) (List.length (a_rest x ++ more)))) with true
      by (symmetry; apply Nat.leb_le; rewrite app_length; lia).
    rewrite firstn_app, skipn_app.
    replace (k - List.length (a_rest x))%nat with 0%nat by lia. cbn [firstn skipn]. rewrite app_nil_r.
    split; reflexivity.
  - destruct (Nat.leb (a_limit x - a_n x) (List.length (a_rest x))); discriminate.
Qed.

Lemma run_ext {A} (p : P A) : okp (fun _ => True) p -> forall x s more lim', (a_limit x <= lim')%nat ->
  match run_a p x s with
  | ROk a x' s' => run_a p (ext_x x more lim') s = ROk a (ext_x x' more lim') s'
  | RFail e x' s' => run_a p (ext_x x more lim') s = RFail e (ext_x x' more lim') s'
  | RPanic w => run_a p (ext_x x more lim') s = RPanic w
  | RIOErr _ _ _ => True
  | ROutOfFuel => True
  end.
Proof.
  induction p as [a|e|w|k IH|n k IH|k IH|k IH|s' k IH]; intros Hp x s more lim' Hl; cbn [okp run_a] in *.
  - reflexivity.
  - reflexivity.
  - reflexivity.
  - destruct (a_take 1 x) as [[l x']|e] eqn:Et; [|exact I].
    destruct (a_take_ext 1 x l x' more lim' Et Hl) as [Ht Hl']. rewrite Ht. apply IH; [apply Hp|lia].
  - destruct (a_take n x) as [[l x']|e] eqn:Et; [|exact I].
    destruct (a_take_ext n x l x' more lim' Et Hl) as [Ht Hl']. rewrite Ht. apply IH; [apply Hp|lia].
  - contradiction.
  - apply IH; [apply Hp; exact I|exact Hl].
  - apply IH; [apply Hp|exact Hl].
Qed.

(* ================================================================ B. one record *)

(* the two counter lists of a state *)
Definition cs (um : list (N * N)) (uf : list (N * N * N)) (s : dstate) : Prop := ds_unkm s = um /\ ds_unkf s = uf.

Lemma cs_self s : cs (ds_unkm s) (ds_unkf s) s.
Proof. split; reflexivity. Qed.

Lemma pts_cs um uf s u k n ov s' : cs um uf s -> parse_time_stamp s u k n = (ov, s') -> cs um uf s'.
Proof.
  intros [H1 H2]. unfold parse_time_stamp. destruct (u =? 0xFFFFFFFF); [intros E; inversion E; subst; now split|].
  destruct (k =? kind_timeutc).
  - destruct (n =? c_fieldNumTimeStamp); intros E; inversion E; subst; now split.
  - destruct ((ds_ts s =? 0) || (ds_ts s <? c_systemTimeMarker)); intros E; inversion E; subst; now split.
Qed.

Lemma okp_bind_get {B} (J : dstate -> Prop) (f : dstate -> P B) :
  (forall s, J s -> okp J (f s)) -> okp J (bind get_st f).
Proof. intros H. unfold get_st. cbn [bind okp]. exact H. Qed.

Tactic Notation "okp_walk" tactic(solver) :=
  repeat first
    [ apply okp_bind_get
    | apply okp_bind
    | progress cbn [okp read_byte read_full put_st fail panic]
    | progress cbv beta zeta
    | match goal with
      | |- True => exact I
      | |- forall _, _ => intro
      | |- _ /\ _ => split
      | |- okp _ (match ?x with _ => _ end) => destruct x eqn:?
      end
    | solver ].

Ltac cs_solve :=
  match goal with
  | H : cs ?um ?uf ?s, E : parse_time_stamp ?s _ _ _ = (_, ?s') |- cs ?um ?uf ?s' => exact (pts_cs _ _ _ _ _ _ _ _ H E)
  | H : cs ?um ?uf ?s |- cs ?um ?uf _ =>
      destruct H as [? ?]; split; cbn [with_file with_defs with_time with_quirk ds_unkm ds_unkf]; assumption
  end.

Ltac triv_solve := exact I.
Ltac no_solve := fail.

Lemma okp_skip_dev J : forall devs, okp J (skip_dev_fields devs).
Proof.
  induction devs as [|[[a sz] c] r IH]; cbn [skip_dev_fields]; [exact I|].
  apply okp_bind; [cbn [okp read_full]; intros; exact I|intros _; exact IH].
Qed.

Lemma okp_parse_def J b : okp J (parse_definition_message b).
Proof. unfold parse_definition_message. okp_walk no_solve. Qed.

Lemma okp_add_msg um uf m : okp (cs um uf) (add_msg m).
Proof. unfold add_msg. okp_walk cs_solve. Qed.

Lemma okp_set_def um uf dm : okp (cs um uf) (set_def dm).
Proof. unfold set_def. okp_walk cs_solve. Qed.

Lemma okp_pof_listed um uf o dm known fd msgv p : get_field (dm_gmn dm) (fd_num fd) = Some p ->
  okp (cs um uf) (parse_one_field o dm known fd msgv).
Proof. intros Eg. unfold parse_one_field. rewrite Eg. okp_walk cs_solve. Qed.
