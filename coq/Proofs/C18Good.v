(* C18 on whole streams, part 2: the messages the reference semantics denotes have the shape the expansion lemmas
   need: as many fields as the struct, and a compressed_speed_distance field holding bytes. *)
From Coq Require Import NArith ZArith List Bool String Lia Arith.
From FitV Require Import Proofs.Util Model.Values Model.Bytes Model.Base Model.Reflect Model.Profile Model.Components
  Spec.FitSyntax Spec.ProfileWf Proofs.ProfileProofs Proofs.RouteProofs Proofs.C18Defs
  Proofs.StreamDenoteArith Proofs.StreamDenoteDefs Proofs.StreamDenoteField Proofs.StreamDenoteData Proofs.StreamDenoteSlots Gen.Consts.
Import ListNotations.
Local Open Scope N_scope.

Definition csd_idx : nat := 9.
Definition csd_num : N := 8.
Definition csd_pf : pfield := mk_pfield 9 8 45 3.

Lemma csd_sindex : sindex_of c_MesgNumRecord "CompressedSpeedDistance" = Some csd_idx.
Proof. vm_compute. reflexivity. Qed.
Lemma csd_get_field : get_field c_MesgNumRecord csd_num = Some csd_pf.
Proof. vm_compute. reflexivity. Qed.
Lemma csd_type : field_type c_MesgNumRecord csd_idx = Some (TSlice (TU 8)).
Proof. vm_compute. reflexivity. Qed.

Definition bytes_val (v : goval) : Prop :=
  match v with VList l => Forall (fun b => b < 256) (map uval l) | _ => True end.

Definition good (m : msg) : Prop :=
  msg_shape m /\ (m_num m = c_MesgNumRecord -> bytes_val (nth csd_idx (m_fields m) VOther)).

Lemma good_csd_bytes m : good m -> is_record m = true -> Forall (fun b => b < 256) (csd_bytes m).
Proof.
  intros [_ H] Hr. unfold is_record in Hr. apply N.eqb_eq in Hr. specialize (H Hr).
  unfold csd_bytes, fld. rewrite Hr, csd_sindex. unfold bytes_val in H.
  destruct (nth csd_idx (m_fields m) VOther); try constructor. exact H.
Qed.

(* the value denoted for the compressed_speed_distance field of a record: the wire bytes *)
Lemma csd_value be f ref bytes v : compat c_MesgNumRecord f = true -> sf_num f = csd_num -> all_bytes bytes = true ->
  denote_field be f csd_pf (TSlice (TU 8)) ref bytes = Some v -> bytes_val v.
Proof.
  intros Hc Hn Hb Hd.
  assert (Hk : known_msg c_MesgNumRecord = true) by (vm_compute; reflexivity).
  pose proof csd_get_field as Hg. rewrite <- Hn in Hg.
  destruct (compat_listed c_MesgNumRecord f csd_pf Hc Hk Hg) as [_ Hcase].
  change (fit_base (pf_t csd_pf) =? base_string) with false in Hcase. change (fit_array (pf_t csd_pf)) with true in Hcase.
  cbv iota in Hcase. destruct Hcase as [Ebt _]. change (fit_base (pf_t csd_pf)) with base_byte in Ebt.
  unfold denote_field in Hd. change (fit_kind (pf_t csd_pf) =? kind_native) with true in Hd.
  change (fit_array (pf_t csd_pf)) with true in Hd. rewrite Ebt in Hd.
  change (base_byte =? base_string) with false in Hd. cbv iota in Hd.
  change (match b_size base_byte with Some s => N.to_nat s | None => 1%nat end) with 1%nat in Hd.
  injection Hd as <-. cbn [bytes_val]. rewrite (split_every_1 _ _ bytes (le_n _)). rewrite map_map.
  apply Forall_forall. intros x Hx. apply in_map_iff in Hx. destruct Hx as (b & <- & Hin).
  unfold embed. cbn [uval]. unfold wire_unsigned. rewrite get_val_1. exact (all_bytes_In bytes b Hb Hin).
Qed.

Lemma nth_set_at_eq {A} (x d : A) l i : (i < List.length l)%nat -> nth i (set_at i x l) d = x.
Proof. intros H. change (set_at i x l) with (set_nth i x l). now apply nth_set_nth_eq. Qed.
Lemma nth_set_at_neq {A} (x d : A) l i j : j <> i -> nth i (set_at j x l) d = nth i l d.
Proof. intros H. change (set_at j x l) with (set_nth j x l). now apply nth_set_nth_neq. Qed.

(* the field loop keeps the record message good *)
Lemma denote_fields_good be : forall fds pay m ref unl,
  m_num m = c_MesgNumRecord -> forallb (compat c_MesgNumRecord) fds = true -> all_bytes pay = true ->
  bytes_val (nth csd_idx (m_fields m) VOther) ->
  bytes_val (nth csd_idx (m_fields (fst (fst (denote_fields be c_MesgNumRecord fds pay m ref unl)))) VOther).
Proof.
  induction fds as [|f r IH]; intros pay m ref unl Hm Hc Hb Hv; [exact Hv|].
  cbn [forallb] in Hc. apply andb_prop in Hc. destruct Hc as [Hc1 Hc].
  cbn [denote_fields].
  destruct (all_bytes_split (N.to_nat (sf_size f)) pay Hb) as [Hb1 Hb2].
  destruct (get_field c_MesgNumRecord (sf_num f)) as [p|] eqn:Eg; [|now apply IH].
  apply IH; try assumption.
  - destruct (denote_field _ _ _ _ _ _); cbn [m_num]; exact Hm.
  - destruct (denote_field be f p _ ref (firstn (N.to_nat (sf_size f)) pay)) as [v|] eqn:Ed; [|exact Hv].
    cbn [m_fields]. destruct (Nat.eq_dec (pf_sindex p) csd_idx) as [Ei|Ni].
    + assert (En : sf_num f = csd_num).
      { apply (distinct_struct_fields c_MesgNumRecord (sf_num f) csd_num p csd_pf Eg csd_get_field). exact Ei. }
      assert (Ep : p = csd_pf) by (rewrite En, csd_get_field in Eg; now inversion Eg). subst p.
      change (pf_sindex csd_pf) with csd_idx in *. rewrite csd_type in Ed.
      destruct (Nat.lt_ge_cases csd_idx (List.length (m_fields m))) as [Hl|Hl].
      * rewrite nth_set_at_eq by exact Hl. exact (csd_value be f ref _ v Hc1 En Hb1 Ed).
      * rewrite nth_overflow; [exact I|]. rewrite StreamDenoteSlots.set_at_length. exact Hl.
    + rewrite nth_set_at_neq by exact Ni. exact Hv.
Qed.

(* ------------------------------------------------------------ every denoted message is good *)
Definition env_ok (env : list (N * sdef)) : Prop :=
  forall l d, lookup_def env l = Some d -> forallb (compat (sd_gmn d)) (sd_fds d) = true.
Definition sgood (s : sstate) : Prop := Forall good (ss_msgs s) /\ env_ok (ss_env s).

Lemma all_invalid_shape gmn m0 : known_msg gmn = true -> mesg_all_invalid gmn = Some m0 ->
  msg_shape m0 /\ m_num m0 = gmn.
Proof.
  intros Hk Hm. destruct (known_has_constructor gmn Hk) as (md & Ef & _ & _ & Hmai & Hlen).
  rewrite Hmai in Hm. inversion Hm; subst m0. unfold msg_shape, msg_layout. cbn [m_num m_fields]. rewrite Ef.
  split; [now symmetry|reflexivity].
Qed.

Lemma record_invalid_csd m0 : mesg_all_invalid c_MesgNumRecord = Some m0 -> nth csd_idx (m_fields m0) VOther = VNil.
Proof. intros H. vm_compute in H. inversion H; subst m0. reflexivity. Qed.

Lemma bytes_val_set_at x l i : bytes_val x -> bytes_val (nth csd_idx l VOther) ->
  bytes_val (nth csd_idx (set_at i x l) VOther).
Proof.
  intros Hx Hl. destruct (Nat.eq_dec i csd_idx) as [->|Ne].
  - destruct (Nat.lt_ge_cases csd_idx (List.length l)) as [H|H].
    + now rewrite nth_set_at_eq.
    + rewrite nth_overflow; [exact I|]. now rewrite StreamDenoteSlots.set_at_length.
  - now rewrite nth_set_at_neq.
Qed.

Lemma denote_data_good s l off pay dev s' : sgood s -> all_bytes pay = true ->
  denote_data s l off pay dev = Some s' -> sgood s'.
Proof.
  intros [Hg He] Hb H. unfold denote_data in H.
  destruct (lookup_def (ss_env s) l) as [d|] eqn:El; [|discriminate].
  destruct (_ || _); [discriminate|].
  destruct (known_msg (sd_gmn d)) eqn:Ek.
  - destruct (mesg_all_invalid (sd_gmn d)) as [m0|] eqn:Em; [|discriminate].
    destruct (all_invalid_shape _ _ Ek Em) as [Hsh Hnum].
    set (m1r := match off with
                | Some o => match ss_ref s with
                            | Some r => (match get_field (sd_gmn d) c_fieldNumTimeStamp with
                                         | Some p => mk_msg (m_num m0) (set_at (pf_sindex p) (time_of ((r + (o + 32 - r mod 32) mod 32) mod 2 ^ 32)) (m_fields m0))
                                         | None => m0 end, Some ((r + (o + 32 - r mod 32) mod 32) mod 2 ^ 32))
                            | None => (m0, None) end
                | None => (m0, ss_ref s) end) in *.
    assert (Hm1 : msg_shape (fst m1r) /\ m_num (fst m1r) = sd_gmn d /\
                  (sd_gmn d = c_MesgNumRecord -> bytes_val (nth csd_idx (m_fields (fst m1r)) VOther))).
    { assert (H0 : sd_gmn d = c_MesgNumRecord -> bytes_val (nth csd_idx (m_fields m0) VOther)).
      { intros E. rewrite E in Em. rewrite (record_invalid_csd m0 Em). exact I. }
      unfold m1r. destruct off as [o|]; [|cbn [fst]; auto].
      destruct (ss_ref s) as [r|]; [|cbn [fst]; auto].
      destruct (get_field (sd_gmn d) c_fieldNumTimeStamp) as [p|]; cbn [fst]; [|auto].
      split; [|split].
      - unfold msg_shape in *. cbn [m_num m_fields]. now rewrite StreamDenoteSlots.set_at_length.
      - exact Hnum.
      - intros E. cbn [m_fields]. apply bytes_val_set_at; [exact I|now apply H0]. }
    destruct m1r as [m1 ref1]. cbn [fst] in Hm1. destruct Hm1 as (Hsh1 & Hnum1 & Hv1).
    pose proof (denote_fields_length (sd_be d) (sd_gmn d) (sd_fds d) pay m1 ref1 []) as [Hl2 Hn2].
    pose proof (fun E : sd_gmn d = c_MesgNumRecord => denote_fields_good (sd_be d) (sd_fds d) pay m1 ref1 []) as Hv2.
    destruct (denote_fields (sd_be d) (sd_gmn d) (sd_fds d) pay m1 ref1 []) as [[m2 ref2] unl] eqn:Edf.
    cbn [fst] in Hl2, Hn2. inversion H; subst s'. split; cbn [ss_msgs ss_env]; [|exact He].
    apply Forall_app. split; [exact Hg|]. constructor; [|constructor].
    split.
    + unfold msg_shape in *. rewrite Hl2, Hn2. exact Hsh1.
    + intros E. rewrite Hn2, Hnum1 in E. specialize (Hv2 E). rewrite E in Edf. rewrite Edf in Hv2. cbn [fst] in Hv2.
      apply Hv2; try assumption.
      * now rewrite Hnum1.
      * rewrite <- E. exact (He l d El).
      * exact (Hv1 E).
  - inversion H; subst s'. split; cbn [ss_msgs ss_env]; assumption.
Qed.

Lemma denote_record_good s r s' : sgood s -> rec_wf r = true -> denote_record s r = Some s' -> sgood s'.
Proof.
  intros Hs Hwf H. unfold rec_wf in Hwf. apply andb_prop in Hwf. destruct Hwf as [Hb _].
  destruct r as [l be gmn fds devflag devs|l pay dev|l off pay dev]; cbn [denote_record] in H.
  - destruct ((16 <=? l) || (gmn =? c_MesgNumInvalid) || negb (forallb (compat gmn) fds)) eqn:E; [discriminate|].
    apply orb_false_elim in E. destruct E as [_ Ec]. apply negb_false_iff in Ec.
    inversion H; subst s'. destruct Hs as [Hg He]. split; cbn [ss_msgs ss_env]; [exact Hg|].
    intros l' d. unfold lookup_def. cbn [find fst]. destruct (l =? l').
    + intros E; inversion E; subst d. exact Ec.
    + apply He.
  - cbn [ser_record] in Hb. change (l :: pay ++ dev) with ([l] ++ pay ++ dev) in Hb.
    unfold all_bytes in Hb. rewrite !forallb_app in Hb. apply andb_prop in Hb. destruct Hb as [_ Hb]. apply andb_prop in Hb.
    exact (denote_data_good s l None pay dev s' Hs (proj1 Hb) H).
  - destruct (4 <=? l); [discriminate|].
    cbn [ser_record] in Hb. change ((0x80 + 32 * l + off) :: pay ++ dev) with ([0x80 + 32 * l + off] ++ pay ++ dev) in Hb.
    unfold all_bytes in Hb. rewrite !forallb_app in Hb. apply andb_prop in Hb. destruct Hb as [_ Hb]. apply andb_prop in Hb.
    exact (denote_data_good s l (Some off) pay dev s' Hs (proj1 Hb) H).
Qed.

Theorem denote_good : forall rs ss, stream_wf rs = true -> denote rs = Some ss -> Forall good (ss_msgs ss).
Proof.
  assert (H : forall rs s s', sgood s -> stream_wf rs = true -> denote_from s rs = Some s' -> sgood s').
  { induction rs as [|r rest IH]; intros s s' Hs Hwf Hd; cbn [denote_from] in Hd.
    - inversion Hd; subst; exact Hs.
    - cbn [stream_wf forallb] in Hwf. apply andb_prop in Hwf. destruct Hwf as [H1 H2].
      destruct (denote_record s r) as [sm|] eqn:E; [|discriminate].
      exact (IH sm s' (denote_record_good s r sm Hs H1 E) H2 Hd). }
  intros rs ss Hwf Hd. apply (H rs ss_init ss); try assumption.
  split; [constructor|]. intros l d E. discriminate E.
Qed.
