(* C04 (d): the header checksum verdict is the same in every API that checks headers.
   header_stage (Spec/Integrity.v) is what CheckIntegrity, DecodeHeader, DecodeHeaderAndFileID and
   Decode compute (Proofs/C04Verdict.v: decode_header_spec, header_error_all_modes, header_only_spec);
   header_check_integrity (Model/Header.v) is Header.CheckIntegrity on the Header value they report. *)
From Coq Require Import NArith ZArith List Bool Arith Lia.
From Coq Require Import ZifyN ZifyNat ZifyBool.
From FitV Require Import Model.Values Model.Bytes Model.Crc Model.IO Model.Header Model.Route Model.Decode Gen.Consts
  Spec.CrcSpec Spec.Burst Spec.Integrity Proofs.Util Proofs.CrcProofs Proofs.C04Crc Proofs.C04IO Proofs.C04Verdict
  Proofs.C04Corrupt.
Import ListNotations.
Local Open Scope N_scope.
Ltac Zify.zify_post_hook ::= Z.div_mod_to_equations.

(* ------------------------------------------------------------------ stored checksum <-> residue *)
Lemma lo_hi_join c : c < 65536 -> lo8 c + 256 * hi8 c = c.
Proof.
  intros Hc. unfold lo8, hi8. change 255 with (N.ones 8). rewrite N.land_ones, N.shiftr_div_pow2.
  change (2 ^ 8) with 256. lia.
Qed.

Theorem residue_iff : forall d a b, a < 256 -> b < 256 ->
  (checksum (d ++ [a; b]) = 0 <-> a + 256 * b = checksum d).
Proof.
  intros d a b Ha Hb. pose proof (checksum_lt_all d) as Hc.
  unfold checksum at 1. rewrite update_app. fold (checksum d). set (c := checksum d) in *.
  pose proof (residue_state c Hc) as R.
  assert (Hlo : lo8 c < 256) by apply lo8_lt. assert (Hhi : hi8 c < 256) by now apply hi8_lt.
  split.
  - intros H0.
    (* the difference of two strings with residue 0 has checksum 0: it must be the zero string *)
    pose proof (crc_linear_from [a; b] [lo8 c; hi8 c] c c eq_refl) as L.
    rewrite N.lxor_nilpotent in L. unfold update at 2 3 in L. cbn [fold_left] in L. unfold update in H0. cbn [fold_left] in H0.
    rewrite H0, R in L. cbn [xorl] in L. change (N.lxor 0 0) with 0 in L.
    set (x := N.lxor a (lo8 c)) in *. set (y := N.lxor b (hi8 c)) in *.
    assert (Hx : x < 256) by (change 256 with (2 ^ 8); now apply lxor_lt_pow2).
    assert (Hy : y < 256) by (change 256 with (2 ^ 8); now apply lxor_lt_pow2).
    destruct (N.eq_dec (x + 256 * y) 0) as [Z|NZ].
    + assert (x = 0) by lia. assert (y = 0) by lia.
      apply N.lxor_eq in H. apply N.lxor_eq in H1. rewrite H, H1. now apply lo_hi_join.
    + exfalso. apply (burst16_nonzero 2 0 (x + 256 * y)).
      * split; [lia|]. rewrite N.shiftl_0_r. change (2 ^ (8 * N.of_nat 2)) with 65536. lia.
      * unfold checksum, burst. rewrite N.shiftl_0_r. cbn [err_bytes].
        replace (N.land (x + 256 * y) 255) with x
          by (change 255 with (N.ones 8); rewrite N.land_ones; change (2 ^ 8) with 256; lia).
        replace (N.land (N.shiftr (x + 256 * y) 8) 255) with y
          by (change 255 with (N.ones 8); rewrite N.land_ones, N.shiftr_div_pow2; change (2 ^ 8) with 256; lia).
        exact L.
  - intros E.
    assert (a = lo8 c) as -> by (unfold lo8; change 255 with (N.ones 8); rewrite N.land_ones; change (2 ^ 8) with 256; lia).
    assert (b = hi8 c) as -> by (unfold hi8; rewrite N.shiftr_div_pow2; change (2 ^ 8) with 256; lia).
    exact R.
Qed.

(* ------------------------------------------------------------------ agreement *)
Definition hci_of_stage (v : option err) : option bool :=
  match v with None => None | Some EHdrCRC => Some true | Some _ => Some false end.

Lemma put_le16_le16 a b : a < 256 -> b < 256 -> put_le16 (le16 [a; b]) = [a; b].
Proof. intros Ha Hb. unfold put_le16, le16, b_at. cbn [nth]. f_equal; [lia|f_equal; lia]. Qed.

Lemma put_le32_le32 a b c d : a < 256 -> b < 256 -> c < 256 -> d < 256 -> put_le32 (le32 [a; b; c; d]) = [a; b; c; d].
Proof. intros Ha Hb Hc Hd. unfold put_le32, le32, b_at. cbn [nth]. f_equal; [lia|f_equal; [lia|f_equal; [lia|f_equal; lia]]]. Qed.

Ltac bytes_inv H :=
  repeat match type of H with
         | is_bytes (_ :: _) => let H1 := fresh "Hb" in let H2 := fresh "H" in
                                inversion H as [|? ? H1 H2]; subst; clear H; rename H2 into H
         | Forall _ (_ :: _) => let H1 := fresh "Hb" in let H2 := fresh "H" in
                                inversion H as [|? ? H1 H2]; subst; clear H; rename H2 into H
         end.

(* for every header value and every corruption of it: Header.CheckIntegrity on the Header the decoder
   reports gives the verdict of the header stage of the decoding entry points, error class included *)
Theorem header_apis_agree : forall bs tm, is_bytes (firstn 14 bs) ->
  (b_at bs 0 = 12 \/ b_at bs 0 = 14) -> (N.to_nat (b_at bs 0) <= length bs)%nat ->
  header_check_integrity (parse_header bs) = hci_of_stage (header_stage_with checksum bs tm).
Proof.
  intros bs tm Hb Hsz Hlen.
  destruct Hsz as [E|E].
  - (* 12-byte header *)
    rewrite E in Hlen. change (N.to_nat 12) with 12%nat in Hlen.
    do 12 (destruct bs as [|? bs]; [cbn [length] in Hlen; lia|]).
    unfold b_at in E. cbn [nth] in E. subst n.
    unfold header_stage_with, parse_header, header_check_integrity, stored_hdr_crc, b_at.
    cbn [nth firstn skipn h_proto h_dtype h_size h_crc length].
    change c_headerSizeCRC with 14. change c_headerSizeNoCRC with 12. cbn [N.eqb Pos.eqb orb negb].
    replace (Nat.ltb _ (N.to_nat 12)) with false by (symmetry; apply Nat.ltb_ge; change (N.to_nat 12) with 12%nat; lia).
    destruct (proto_ok n0); cbn [negb hci_of_stage]; [|reflexivity].
    destruct (list_eqb [n7; n8; n9; n10] fit_dtype); cbn [negb hci_of_stage]; reflexivity.
  - rewrite E in Hlen. change (N.to_nat 14) with 14%nat in Hlen.
    do 14 (destruct bs as [|? bs]; [cbn [length] in Hlen; lia|]).
    unfold b_at in E. cbn [nth] in E. subst n.
    cbn [firstn] in Hb. bytes_inv Hb.
    unfold header_stage_with, parse_header, header_check_integrity, stored_hdr_crc, b_at.
    cbn [nth firstn skipn h_proto h_dtype h_size h_crc length].
    change c_headerSizeCRC with 14. change c_headerSizeNoCRC with 12. cbn [N.eqb Pos.eqb orb negb].
    replace (Nat.ltb _ (N.to_nat 14)) with false by (symmetry; apply Nat.ltb_ge; change (N.to_nat 14) with 14%nat; lia).
    destruct (proto_ok n0); cbn [negb hci_of_stage]; [|reflexivity].
    destruct (list_eqb [n7; n8; n9; n10] fit_dtype) eqn:Edt; cbn [negb hci_of_stage]; [|reflexivity].
    destruct (le16 [n11; n12] =? 0); [reflexivity|].
    unfold header_bytes12. cbn [h_size h_proto h_profile h_dsize h_dtype h_crc app firstn].
    rewrite put_le16_le16, put_le32_le32, put_le16_le16 by assumption. cbn [app].
    destruct (checksum [14; n0; n1; n2; n3; n4; n5; n6; n7; n8; n9; n10; n11; n12] =? 0); reflexivity.
Qed.

(* ------------------------------------------------------------------ the property's two directions *)
Theorem header_crc_agree : forall bs, is_bytes (firstn 14 bs) -> b_at bs 0 = 14 -> (14 <= length bs)%nat ->
  stored_hdr_crc bs <> 0 ->
  (arc (firstn 12 bs) <> stored_hdr_crc bs ->
     (forall tm, exists e, header_stage_with arc bs tm = Some e /\ (e = EProto \/ e = ENotFit \/ e = EHdrCRC)) /\
     header_check_integrity (parse_header bs) <> None) /\
  (arc (firstn 12 bs) = stored_hdr_crc bs -> proto_ok (b_at bs 1) = true -> firstn 4 (skipn 8 bs) = fit_dtype ->
     (forall tm, header_stage_with arc bs tm = None) /\ header_check_integrity (parse_header bs) = None).
Proof.
  intros bs Hb E Hlen Hst.
  assert (Hagree : forall tm, header_check_integrity (parse_header bs) = hci_of_stage (header_stage_with checksum bs tm)).
  { intros tm. apply header_apis_agree; [assumption|now right|rewrite E; exact Hlen]. }
  assert (Harc : forall tm, header_stage_with arc bs tm = header_stage_with checksum bs tm).
  { intros tm. destruct bs as [|sz t]; [reflexivity|]. unfold header_stage_with.
    now rewrite (checksum_is_arc (firstn 14 (sz :: t))). }
  assert (Hres : checksum (firstn 14 bs) = 0 <-> arc (firstn 12 bs) = stored_hdr_crc bs).
  { do 14 (destruct bs as [|? bs]; [cbn [length] in Hlen; lia|]).
    cbn [firstn] in *. bytes_inv Hb.
    rewrite <- checksum_is_arc by (repeat constructor; assumption).
    unfold stored_hdr_crc, le16, b_at. cbn [firstn skipn nth].
    change [n; n0; n1; n2; n3; n4; n5; n6; n7; n8; n9; n10; n11; n12] with ([n; n0; n1; n2; n3; n4; n5; n6; n7; n8; n9; n10] ++ [n11; n12]).
    rewrite residue_iff by assumption. split; intros X; now symmetry. }
  assert (Hstage : forall tm, header_stage_with checksum bs tm =
            if negb (proto_ok (b_at bs 1)) then Some EProto
            else if negb (list_eqb (firstn 4 (skipn 8 bs)) fit_dtype) then Some ENotFit
            else if negb (checksum (firstn 14 bs) =? 0) then Some EHdrCRC else None).
  { intros tm. destruct bs as [|sz t]; [cbn in Hlen; lia|]. unfold header_stage_with.
    unfold b_at in E. cbn [nth] in E. subst sz.
    change c_headerSizeCRC with 14. change c_headerSizeNoCRC with 12. cbn [N.eqb Pos.eqb orb negb].
    replace (Nat.ltb _ (N.to_nat 14)) with false by (symmetry; apply Nat.ltb_ge; change (N.to_nat 14) with 14%nat; lia).
    apply N.eqb_neq in Hst. rewrite Hst. reflexivity. }
  split.
  - intros Hne. assert (Hc : (checksum (firstn 14 bs) =? 0) = false) by (apply N.eqb_neq; intros X; now apply Hne, Hres).
    split.
    + intros tm. rewrite Harc, Hstage, Hc. cbn [negb].
      destruct (proto_ok (b_at bs 1)); cbn [negb]; [|eexists; split; [reflexivity|auto]].
      destruct (list_eqb (firstn 4 (skipn 8 bs)) fit_dtype); cbn [negb]; eexists; split; try reflexivity; auto.
    + rewrite (Hagree TEOF), Hstage, Hc. cbn [negb].
      destruct (proto_ok (b_at bs 1)); cbn [negb]; [|discriminate].
      destruct (list_eqb (firstn 4 (skipn 8 bs)) fit_dtype); cbn [negb]; discriminate.
  - intros Heq Hp Hdt. assert (Hc : (checksum (firstn 14 bs) =? 0) = true) by (apply N.eqb_eq; now apply Hres).
    assert (Hnone : forall tm, header_stage_with checksum bs tm = None).
    { intros tm. rewrite Hstage, Hc, Hp, Hdt, (list_eqb_true fit_dtype fit_dtype eq_refl). reflexivity. }
    split.
    + intros tm. now rewrite Harc.
    + now rewrite (Hagree TEOF), Hnone.
Qed.

(* no stored checksum (12-byte header, or a 14-byte header storing 0): accepted by all when the other fields are legal *)
Theorem header_nocrc_accept : forall bs tm, is_bytes (firstn 14 bs) ->
  (b_at bs 0 = 12 \/ (b_at bs 0 = 14 /\ stored_hdr_crc bs = 0)) -> (N.to_nat (b_at bs 0) <= length bs)%nat ->
  proto_ok (b_at bs 1) = true -> firstn 4 (skipn 8 bs) = fit_dtype ->
  header_stage_with arc bs tm = None /\ header_check_integrity (parse_header bs) = None.
Proof.
  intros bs tm Hb Hsz Hlen Hp Hdt.
  assert (Hs : header_stage_with arc bs tm = None).
  { destruct bs as [|sz t]; [destruct Hsz as [X|[X _]]; discriminate X|]. unfold header_stage_with.
    unfold b_at in Hsz, Hlen. cbn [nth] in Hsz, Hlen.
    rewrite Hp, Hdt, (list_eqb_true fit_dtype fit_dtype eq_refl). cbn [negb].
    replace (Nat.ltb (length (sz :: t)) (N.to_nat sz)) with false by (symmetry; apply Nat.ltb_ge; exact Hlen).
    destruct Hsz as [->|[-> H0]]; [reflexivity|]. cbn [N.eqb Pos.eqb orb negb c_headerSizeCRC c_headerSizeNoCRC].
    now rewrite H0. }
  split; [exact Hs|].
  rewrite (header_apis_agree bs tm Hb); [|destruct Hsz as [X|[X _]]; auto|exact Hlen].
  replace (header_stage_with checksum bs tm) with (header_stage_with arc bs tm); [now rewrite Hs|].
  destruct bs as [|sz t]; [reflexivity|]. unfold header_stage_with. now rewrite (checksum_is_arc (firstn 14 (sz :: t))).
Qed.

(* the header verdict reaches every decoding API unchanged *)
Theorem header_verdict_all_apis : forall o g fuel rd, (measure rd < fuel)%nat ->
  (forall e, header_stage_with checksum (rd_data rd) (rd_term rd) = Some e ->
     forall md, exists r, decode o md g rd fuel = TDone r /\ dr_err r = Some e) /\
  (header_stage_with checksum (rd_data rd) (rd_term rd) = None ->
     (exists r, decode o MHeaderOnly g rd fuel = TDone r /\ dr_err r = None /\ dr_hdr r = parse_header (rd_data rd)) /\
     (exists r, decode o MCrcOnly g rd fuel = TDone r /\ dr_err r <> Some EHdrCRC /\ dr_err r <> Some EProto /\ dr_err r <> Some ENotFit) /\
     (exists h crc rd', decode_header fuel rd = Done (None, h, crc, rd'))).
Proof.
  intros o g fuel rd Hm. split.
  - intros e He md. destruct (header_error_all_modes o md g fuel rd e Hm He) as (r & E & Hr & _). eauto.
  - intros Hn. split; [|split].
    + destruct (header_only_spec o g fuel rd Hm) as (r & E & Hr & Hh). rewrite Hn in Hr. exists r. split; [exact E|split; [exact Hr|now apply Hh]].
    + destruct (check_integrity_spec o g fuel rd Hm) as (r & E & Hr & _). exists r. split; [exact E|].
      rewrite Hr. unfold crc_verdict_with. rewrite Hn.
      destruct (Nat.ltb _ _); [repeat split; discriminate|]. destruct (Nat.ltb _ _); [repeat split; discriminate|].
      destruct (_ =? 0); repeat split; discriminate.
    + destruct (decode_header_spec fuel rd Hm) as (h & crc & rd' & E & _). rewrite Hn in E. eauto.
Qed.

(* ------------------------------------------------------------------ every size byte 0..255 (and beyond) *)
(* Header.CheckIntegrity on ANY Header value whose Size is neither 12 nor 14: a non-integrity error, first *)
Theorem header_check_bad_size : forall h, h_size h <> 12 -> h_size h <> 14 -> header_check_integrity h = Some false.
Proof.
  intros h H12 H14. unfold header_check_integrity. change c_headerSizeCRC with 14. change c_headerSizeNoCRC with 12.
  apply N.eqb_neq in H12. apply N.eqb_neq in H14. now rewrite H12, H14.
Qed.

(* the header stage on any input starting with such a size byte: illegal header size, whatever follows *)
Theorem header_stage_bad_size : forall crcf sz t tm, sz <> 12 -> sz <> 14 ->
  header_stage_with crcf (sz :: t) tm = Some EHeaderSize.
Proof.
  intros crcf sz t tm H12 H14. unfold header_stage_with. change c_headerSizeCRC with 14. change c_headerSizeNoCRC with 12.
  apply N.eqb_neq in H12. apply N.eqb_neq in H14. now rewrite H12, H14.
Qed.

(* ... hence every decoding entry point returns that error, and Header.CheckIntegrity rejects every Header value
   carrying that size (there is no decoded Header for such bytes: the Header is whatever a caller builds) *)
Theorem bad_size_rejected_all_apis : forall sz t o g fuel rd, rd_data rd = sz :: t -> (measure rd < fuel)%nat ->
  sz <> 12 -> sz <> 14 ->
  (forall md, exists r, decode o md g rd fuel = TDone r /\ dr_err r = Some EHeaderSize /\ is_integrity EHeaderSize = false) /\
  (forall h, h_size h = sz -> header_check_integrity h = Some false).
Proof.
  intros sz t o g fuel rd Hd Hm H12 H14. split.
  - intros md. destruct (header_verdict_all_apis o g fuel rd Hm) as [Hrej _].
    destruct (Hrej EHeaderSize ltac:(rewrite Hd; now apply header_stage_bad_size) md) as (r & E & Hr).
    exists r. auto.
  - intros h <-. now apply header_check_bad_size.
Qed.

(* the agreement equation for EVERY size byte: the bytes needed are demanded only when the size is 12 or 14 *)
Theorem header_apis_agree_all_sizes : forall bs tm, bs <> [] -> is_bytes (firstn 14 bs) ->
  (b_at bs 0 = 12 \/ b_at bs 0 = 14 -> (N.to_nat (b_at bs 0) <= length bs)%nat) ->
  header_check_integrity (parse_header bs) = hci_of_stage (header_stage_with checksum bs tm).
Proof.
  intros bs tm Hne Hb Hlen.
  destruct (N.eq_dec (b_at bs 0) 12) as [E12|N12]; [apply header_apis_agree; auto|].
  destruct (N.eq_dec (b_at bs 0) 14) as [E14|N14]; [apply header_apis_agree; auto|].
  destruct bs as [|sz t]; [contradiction|]. unfold b_at in N12, N14. cbn [nth] in N12, N14.
  rewrite header_stage_bad_size by assumption. cbn [hci_of_stage].
  apply header_check_bad_size; unfold parse_header, b_at; cbn [h_size nth]; assumption.
Qed.
