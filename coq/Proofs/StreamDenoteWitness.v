(* Stream-level decode = denote: concrete streams.
   - [ok_stream]: the hypotheses of decode_denote are satisfiable by a stream that exercises an explicit
     timestamp, a compressed-timestamp record, a redefinition of a local type and a local_date_time field;
   - the three former witnesses of the C12 time defects, on which the repaired decoder now agrees with the
     reference semantics; the witness that the reserved-bits condition is needed. *)
From Coq Require Import NArith ZArith List Bool.
From FitV Require Import Model.Values Model.Bytes Model.Base Model.Profile Model.Reflect Model.IO
  Model.Header Model.Route Model.Components Model.Decode Spec.FitSyntax Spec.RouteSpec Gen.Consts
  Proofs.StreamDenoteDefs Proofs.StreamDenoteLift Proofs.StreamDenoteMain.
Import ListNotations.
Local Open Scope N_scope.

Definition w_fileid_def := RDef 0 false 0 [mk_sfdef 0 1 0] false [].          (* file_id: type (enum) *)
Definition w_fileid := RData 0 [4] [].                                          (* type = activity *)
Definition w_def_local := RDef 1 false 34 [mk_sfdef 5 4 134] false [].          (* activity: local_timestamp *)
Definition w_def_ts := RDef 1 false 34 [mk_sfdef 253 4 134] false [].           (* activity: timestamp *)
Definition w_def_timer := RDef 2 false 34 [mk_sfdef 0 4 134] false [].          (* activity: total_timer_time *)

Definition ok_stream : list record :=
  [w_fileid_def; w_fileid; w_def_ts; w_def_timer; RData 1 (put_le32 1000000000) []; RComp 2 3 [1; 0; 0; 0] [];
   w_def_local; RData 1 (put_le32 1000003600) []].

(* a local timestamp before any reference, then a compressed-timestamp record *)
Definition w_local_first : list record :=
  [w_fileid_def; w_fileid; w_def_local; RData 1 (put_le32 1000000000) []; RComp 1 3 (put_le32 1000000000) []].
(* an explicit timestamp 0, then a compressed-timestamp record *)
Definition w_ts_zero : list record :=
  [w_fileid_def; w_fileid; w_def_ts; w_def_timer; RData 1 (put_le32 0) []; RComp 2 3 [1; 0; 0; 0] []].
(* a compressed step that wraps the 32-bit reference to exactly 0, then another compressed record *)
Definition w_wrap_zero : list record :=
  [w_fileid_def; w_fileid; w_def_ts; w_def_timer; RData 1 (put_le32 0xFFFFFFFE) []; RComp 2 0 [1; 0; 0; 0] [];
   RComp 2 5 [1; 0; 0; 0] []].

Definition w_hdr : header := mk_header 12 16 2215 0 fit_dtype 0.

Definition model_run (rs : list record) : result ast dstate err unit :=
  run_a (data_prog no_opts false (S (List.length (ser_records rs))))
        (mk_ast (ser_records rs) TEOF 0 (List.length (ser_records rs))) (init_dstate (new_file w_hdr) g_init).

Definition spec_slots (rs : list record) : option (list (list msg)) :=
  match denote rs with
  | Some ss => match route_msgs w_hdr g_init (ss_msgs ss) with Some (f, _) => Some (f_slots f) | None => None end
  | None => None
  end.
Definition model_slots (rs : list record) : option (list (list msg)) :=
  match model_run rs with ROk _ _ s => Some (f_slots (ds_file s)) | _ => None end.
Fixpoint msgs_eqb (a b : list msg) : bool :=
  match a, b with
  | [], [] => true
  | x :: a', y :: b' => (m_num x =? m_num y) && goval_eqb (VList (m_fields x)) (VList (m_fields y)) && msgs_eqb a' b'
  | _, _ => false
  end.
Fixpoint slots_eqb (a b : list (list msg)) : bool :=
  match a, b with
  | [], [] => true
  | x :: a', y :: b' => msgs_eqb x y && slots_eqb a' b'
  | _, _ => false
  end.
Definition agree (rs : list record) : bool :=
  match spec_slots rs, model_slots rs with Some a, Some b => slots_eqb a b | _, _ => false end.

(* the hypotheses of decode_denote hold for ok_stream (and its conclusion, recomputed) *)
Example ok_stream_in_domain :
  starts_with_file_id ok_stream = true /\ stream_wf ok_stream = true /\
  (exists ss f2 g1, denote ok_stream = Some ss /\ start_file w_hdr g_init (hd dummy_msg (ss_msgs ss)) = Some (f2, g1)) /\
  agree ok_stream = true.
Proof.
  split; [vm_compute; reflexivity|]. split; [vm_compute; reflexivity|].
  split; [|vm_compute; reflexivity].
  destruct (denote ok_stream) as [ss|] eqn:E; [|vm_compute in E; discriminate].
  destruct (start_file w_hdr g_init (hd dummy_msg (ss_msgs ss))) as [[f2 g1]|] eqn:E2.
  - exists ss, f2, g1. split; [reflexivity|exact E2].
  - exfalso. revert E2. vm_compute in E. injection E as <-. vm_compute. discriminate.
Qed.

(* The three streams below were the refutation witnesses of the side condition no_time_quirk while the library had the
   two C12 time defects (fixed: ac9b0b0, 2f21531). The repaired decoder agrees with the reference semantics on them:
   they are ordinary members of the domain of decode_denote now. *)
Example local_first_agrees :
  stream_wf w_local_first = true /\ starts_with_file_id w_local_first = true /\ agree w_local_first = true.
Proof. repeat split; vm_compute; reflexivity. Qed.
Example ts_zero_agrees :
  stream_wf w_ts_zero = true /\ starts_with_file_id w_ts_zero = true /\ agree w_ts_zero = true.
Proof. repeat split; vm_compute; reflexivity. Qed.
Example wrap_zero_agrees :
  stream_wf w_wrap_zero = true /\ starts_with_file_id w_wrap_zero = true /\ agree w_wrap_zero = true.
Proof. repeat split; vm_compute; reflexivity. Qed.

(* the reserved bits 5-6 of a base-type byte: types.Base.Known ignores them (so does [compat]) and the validator admits
   the definition, but parseFitField switches on the whole byte and rejects the data record: the side condition
   [canon_bt] inside [stream_wf] is needed *)
Definition w_reserved : list record :=
  [w_fileid_def; w_fileid; RDef 1 false 34 [mk_sfdef 6 1 0x22] false []; RData 1 [7] []].

Theorem decode_denote_reserved_bits_refuted :
  all_bytes (ser_records w_reserved) = true /\ stream_wf w_reserved = false /\
  (exists a, spec_slots w_reserved = Some a) /\
  match model_run w_reserved with RFail EParseField _ _ => True | _ => False end.
Proof.
  split; [vm_compute; reflexivity|]. split; [vm_compute; reflexivity|].
  split; [eexists; vm_compute; reflexivity|]. vm_compute. exact I.
Qed.
