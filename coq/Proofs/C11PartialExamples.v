(* Concrete instances for the theorems of C11Partial.v: the in-domain stream of StreamDenoteWitness.v framed by
   ok_hdr (StreamDenoteDecode.v), every hypothesis checked and every conclusion recomputed by vm_compute. *)
From Coq Require Import NArith ZArith List Bool Lia Arith.
From FitV Require Import Model.Values Model.Bytes Model.Crc Model.IO Model.Header Model.Route Model.Components Model.Decode
  Spec.FitSyntax Spec.RouteSpec Gen.Consts Proofs.IOSim
  Proofs.StreamDenoteDefs Proofs.StreamDenoteLift Proofs.StreamDenoteMain Proofs.StreamDenoteFrame Proofs.StreamDenoteDecode
  Proofs.StreamDenoteWitness Proofs.C10IO Proofs.C10Frame Proofs.C11Cut Proofs.C11Partial.
Import ListNotations.
Local Open Scope N_scope.

(* the hypotheses shared by Decode_partial_files_at, Decode_cut_in_crc and fileid_agree hold for ok_hdr / ok_stream *)
Lemma ex_domain :
  header_wf ok_hdr /\ h_dsize ok_hdr = N.of_nat (List.length (ser_records ok_stream)) /\
  starts_with_file_id ok_stream = true /\ stream_wf ok_stream = true /\
  exists ss f2 g1, denote ok_stream = Some ss /\ start_file ok_hdr g_init (hd dummy_msg (ss_msgs ss)) = Some (f2, g1) /\
                   no_file_id (List.tl (ss_msgs ss)) = true /\ (3 <= List.length (ss_msgs ss))%nat.
Proof.
  destruct Decode_denote_example as (H1 & H2 & H3 & H4 & (ss & f2 & g1 & H5 & H6) & _).
  split; [exact H1|]. split; [exact H2|]. split; [exact H3|]. split; [exact H4|].
  exists ss, f2, g1. split; [exact H5|]. split; [exact H6|].
  revert H5. vm_compute. intros E. injection E as <-. split; [reflexivity|lia].
Qed.

Definition is_io_error_with_file (x : tout dres) : bool :=
  match x with
  | TDone r => match dr_err r, dr_file r with Some (EIO _), Some _ => true | _, _ => false end
  | _ => false
  end.

(* every offset of the data section, read in chunks of 2, 0, 5 bytes and then whole, ending in a read fault that
   arrives together with the last chunk: an I/O error with a File *)
Lemma ex_partial_every_offset :
  forallb (fun n => is_io_error_with_file
             (entry_Decode no_opts g_init
                (mk_reader (hdr_bytes ok_hdr ++ firstn n (ser_records ok_stream)) [2; 0; 5]%nat TFault true 0) 200))
          (seq 0 (List.length (ser_records ok_stream))) = true.
Proof. vm_compute. reflexivity. Qed.

(* the number of messages in the partial File grows with the offset: none inside the file_id records, all of them
   once the last record is complete (offset = data size - 1 is still inside the last record) *)
Definition count_msgs (x : tout dres) : nat :=
  match x with
  | TDone r => match dr_file r with Some f => List.length (concat (List.tl (f_slots f))) | None => 0%nat end
  | _ => 0%nat
  end.
Lemma ex_partial_counts :
  count_msgs (entry_Decode no_opts g_init (mk_reader (hdr_bytes ok_hdr ++ firstn 5 (ser_records ok_stream)) [] TEOF false 0) 200) = 0%nat /\
  (count_msgs (entry_Decode no_opts g_init (mk_reader (hdr_bytes ok_hdr ++ firstn 40 (ser_records ok_stream)) [] TEOF false 0) 200)
   <= count_msgs (entry_Decode no_opts g_init (mk_reader (hdr_bytes ok_hdr ++ firstn 52 (ser_records ok_stream)) [] TEOF false 0) 200))%nat.
Proof. split; vm_compute; [reflexivity|lia]. Qed.

(* a cut inside the checksum: EFileCRCRead *)
Lemma ex_cut_in_crc :
  match entry_Decode no_opts g_init (mk_reader (hdr_bytes ok_hdr ++ ser_records ok_stream ++ [7]) [] TEOF false 0) 200 with
  | TDone r => dr_err r = Some EFileCRCRead /\ dr_file r <> None
  | _ => False
  end.
Proof. vm_compute. split; [reflexivity|discriminate]. Qed.

(* DecodeHeaderAndFileID: error on every prefix shorter than header + file_id definition + file_id data record
   (12 + 9 + 2 bytes for ok_stream), success from there on *)
Lemma ex_fileid_threshold :
  forallb (fun k => match entry_DecodeHeaderAndFileID g_init (mk_reader (firstn k (fit_file ok_hdr ok_stream)) [3]%nat TEOF false 0) 200 with
                    | TDone r => match dr_err r with Some _ => Nat.ltb k 23 | None => Nat.leb 23 k end
                    | _ => false
                    end) (seq 0 68) = true.
Proof. vm_compute. reflexivity. Qed.
