(* C02 unknown_skipped as ONE stream-rewriting theorem.

   [strip] deletes from a record list all content the profile does not know:
   - unlisted fields, from every definition and from every payload;
   - developer fields (definitions) and developer bytes (data records);
   - the plain data records of unknown messages.
   The stripped stream denotes the same messages and the same time reference.

   Two kinds of unknown content are kept as empty shells, because deleting them would change
   what later records mean: the definition of an unknown message (emptied: a later data record
   of that local type must still find a definition) and the compressed-timestamp record of an
   unknown message (header only: it still advances the time reference, and two successive
   rollover steps are not one). *)
From Coq Require Import NArith ZArith List Bool Lia Arith.
From Coq Require Import ZifyN ZifyNat ZifyBool.
From FitV Require Import Proofs.Util Model.Values Model.Bytes Model.Base Model.Profile Model.Reflect Model.IO
  Model.Header Model.Route Model.Components Model.Decode Spec.FitSyntax Spec.RouteSpec Proofs.ProfileProofs
  Proofs.DecodeLemmas Gen.Consts
  Proofs.StreamDenoteBase Proofs.StreamDenoteDefs Proofs.StreamDenoteData Proofs.StreamDenoteLoop
  Proofs.StreamDenoteLift Proofs.StreamDenoteMain Proofs.StreamDenoteSkip Proofs.StreamDenoteCor.
Import ListNotations.
Local Open Scope N_scope.

(* ------------------------------------------------------------ the rewriting *)

(* a field of a definition the profile lists for that message *)
Definition listed (gmn : N) (f : sfdef) : bool :=
  match get_field gmn (sf_num f) with Some _ => true | None => false end.

(* the field definitions that survive: the listed ones; none at all for an unknown message *)
Definition keep_fds (gmn : N) (fds : list sfdef) : list sfdef :=
  if known_msg gmn then filter (listed gmn) fds else [].

(* the payload bytes that survive: those of the listed fields (walks fds and pay as denote_fields does) *)
Fixpoint strip_pay (gmn : N) (fds : list sfdef) (pay : list N) : list N :=
  match fds with
  | [] => []
  | f :: r =>
      let sz := N.to_nat (sf_size f) in
      (if listed gmn f then firstn sz pay else []) ++ strip_pay gmn r (skipn sz pay)
  end.

Definition strip_def (d : sdef) : sdef :=
  mk_sdef (sd_be d) (sd_gmn d) (keep_fds (sd_gmn d) (sd_fds d)) 0%nat.

(* [env] is the environment of the ORIGINAL stream, built exactly as denote_record builds it *)
Fixpoint strip (env : list (N * sdef)) (rs : list record) : list record :=
  match rs with
  | [] => []
  | r :: rest =>
      match r with
      | RDef l be gmn fds devflag devs =>
          RDef l be gmn (keep_fds gmn fds) false [] ::
          strip ((l, mk_sdef be gmn fds (dev_size (if devflag then devs else []))) :: env) rest
      | RData l pay dev =>
          match lookup_def env l with
          | Some d =>
              if known_msg (sd_gmn d) then RData l (strip_pay (sd_gmn d) (sd_fds d) pay) [] :: strip env rest
              else strip env rest
          | None => RData l pay [] :: strip env rest
          end
      | RComp l off pay dev =>
          match lookup_def env l with
          | Some d =>
              if known_msg (sd_gmn d) then RComp l off (strip_pay (sd_gmn d) (sd_fds d) pay) [] :: strip env rest
              else RComp l off [] [] :: strip env rest
          | None => RComp l off pay [] :: strip env rest
          end
      end
  end.

(* ------------------------------------------------------------ list helpers *)

Lemma forallb_filter {A} (p q : A -> bool) : forall l, forallb p l = true -> forallb p (filter q l) = true.
Proof.
  induction l as [|x l IH]; cbn [forallb filter]; [auto|].
  intros H. apply andb_prop in H. destruct H as [H1 H2].
  destruct (q x); cbn [forallb]; [rewrite H1; cbn [andb]|]; auto.
Qed.

Lemma forallb_filter_same {A} (q : A -> bool) : forall l, forallb q (filter q l) = true.
Proof.
  induction l as [|x l IH]; cbn [forallb filter]; [reflexivity|].
  destruct (q x) eqn:E; cbn [forallb]; [rewrite E; cbn [andb]|]; exact IH.
Qed.

Lemma filter_length_le' {A} (q : A -> bool) : forall l, (List.length (filter q l) <= List.length l)%nat.
Proof.
  induction l as [|x l IH]; cbn [filter List.length]; [lia|].
  destruct (q x); cbn [List.length]; lia.
Qed.

Lemma all_bytes_app_eq a b : all_bytes (a ++ b) = all_bytes a && all_bytes b.
Proof. unfold all_bytes. apply forallb_app. Qed.

Lemma psize_cons f r : psize (f :: r) = (N.to_nat (sf_size f) + psize r)%nat.
Proof. reflexivity. Qed.

(* ------------------------------------------------------------ listed / keep_fds *)

Lemma listed_known gmn f : listed gmn f = true -> known_msg gmn = true.
Proof.
  unfold listed. destruct (get_field gmn (sf_num f)) as [p|] eqn:Eg; [|discriminate]. intros _.
  destruct (known_msg gmn) eqn:Ek; [reflexivity|]. rewrite (unknown_no_field gmn (sf_num f) Ek) in Eg. discriminate.
Qed.

Lemma unknown_filter_nil gmn : known_msg gmn = false -> forall fds, filter (listed gmn) fds = [].
Proof.
  intros Hk. induction fds as [|f r IH]; cbn [filter]; [reflexivity|].
  destruct (listed gmn f) eqn:El; [|exact IH]. rewrite (listed_known gmn f El) in Hk. discriminate.
Qed.

Lemma keep_fds_filter gmn fds : keep_fds gmn fds = filter (listed gmn) fds.
Proof.
  unfold keep_fds. destruct (known_msg gmn) eqn:Ek; [reflexivity|]. symmetry. apply unknown_filter_nil. exact Ek.
Qed.

Lemma keep_fds_unknown gmn fds : known_msg gmn = false -> keep_fds gmn fds = [].
Proof. intros Hk. unfold keep_fds. rewrite Hk. reflexivity. Qed.

(* ------------------------------------------------------------ strip_pay *)

Lemma strip_pay_cons gmn f r pay :
  strip_pay gmn (f :: r) pay =
  (if listed gmn f then firstn (N.to_nat (sf_size f)) pay else []) ++ strip_pay gmn r (skipn (N.to_nat (sf_size f)) pay).
Proof. reflexivity. Qed.

Lemma strip_pay_length gmn : forall fds pay, List.length pay = psize fds ->
  List.length (strip_pay gmn fds pay) = psize (filter (listed gmn) fds).
Proof.
  induction fds as [|f r IH]; intros pay Hlen; [reflexivity|].
  rewrite psize_cons in Hlen. rewrite strip_pay_cons. cbn [filter].
  set (sz := N.to_nat (sf_size f)) in *.
  assert (Hb2 : List.length (skipn sz pay) = psize r) by (rewrite skipn_length; lia).
  rewrite app_length, (IH _ Hb2).
  destruct (listed gmn f).
  - rewrite psize_cons. fold sz. rewrite firstn_length. lia.
  - reflexivity.
Qed.

Lemma strip_pay_unknown gmn : known_msg gmn = false -> forall fds pay, strip_pay gmn fds pay = [].
Proof.
  intros Hk. induction fds as [|f r IH]; intros pay; [reflexivity|].
  rewrite strip_pay_cons, IH. destruct (listed gmn f) eqn:El; [|reflexivity].
  rewrite (listed_known gmn f El) in Hk. discriminate.
Qed.

Lemma all_bytes_strip_pay gmn : forall fds pay, all_bytes pay = true -> all_bytes (strip_pay gmn fds pay) = true.
Proof.
  induction fds as [|f r IH]; intros pay Hb; [reflexivity|].
  rewrite strip_pay_cons, all_bytes_app_eq.
  destruct (all_bytes_split (N.to_nat (sf_size f)) pay Hb) as [H1 H2].
  rewrite (IH _ H2), andb_true_r. destruct (listed gmn f); [exact H1|reflexivity].
Qed.

(* the field loop on the stripped definition and payload computes the same message and reference *)
Lemma strip_fields be gmn : forall fds pay m ref unl unl', List.length pay = psize fds ->
  fst (denote_fields be gmn (filter (listed gmn) fds) (strip_pay gmn fds pay) m ref unl) =
  fst (denote_fields be gmn fds pay m ref unl').
Proof.
  induction fds as [|f r IH]; intros pay m ref unl unl' Hlen; [reflexivity|].
  rewrite psize_cons in Hlen. rewrite strip_pay_cons. cbn [filter].
  set (sz := N.to_nat (sf_size f)) in *.
  assert (Hb1 : List.length (firstn sz pay) = sz) by (rewrite firstn_length; lia).
  assert (Hb2 : List.length (skipn sz pay) = psize r) by (rewrite skipn_length; lia).
  destruct (listed gmn f) eqn:El; unfold listed in El;
    destruct (get_field gmn (sf_num f)) as [p|] eqn:Eg; try discriminate.
  - cbn [denote_fields]. fold sz. rewrite Eg.
    rewrite !(firstn_app_len (firstn sz pay) _ sz Hb1), !(skipn_app_len (firstn sz pay) _ sz Hb1).
    apply IH. exact Hb2.
  - cbn [app denote_fields]. fold sz. rewrite Eg. apply IH. exact Hb2.
Qed.

(* and meets the time predicate exactly when the original does *)
Lemma strip_time_ok be gmn : forall fds pay ref, List.length pay = psize fds ->
  fields_time_ok be gmn (filter (listed gmn) fds) (strip_pay gmn fds pay) ref = fields_time_ok be gmn fds pay ref.
Proof.
  induction fds as [|f r IH]; intros pay ref Hlen; [reflexivity|].
  rewrite psize_cons in Hlen. rewrite strip_pay_cons. cbn [filter].
  set (sz := N.to_nat (sf_size f)) in *.
  assert (Hb1 : List.length (firstn sz pay) = sz) by (rewrite firstn_length; lia).
  assert (Hb2 : List.length (skipn sz pay) = psize r) by (rewrite skipn_length; lia).
  destruct (listed gmn f) eqn:El; unfold listed in El;
    destruct (get_field gmn (sf_num f)) as [p|] eqn:Eg; try discriminate.
  - cbn [fields_time_ok]. fold sz. rewrite Eg.
    rewrite !(firstn_app_len (firstn sz pay) _ sz Hb1), !(skipn_app_len (firstn sz pay) _ sz Hb1).
    rewrite (IH _ _ Hb2). reflexivity.
  - cbn [app fields_time_ok]. fold sz. rewrite Eg. apply IH. exact Hb2.
Qed.

(* ------------------------------------------------------------ the simulation relation *)

Definition env_rel (env env' : list (N * sdef)) : Prop :=
  forall l, lookup_def env' l = option_map strip_def (lookup_def env l).

Definition st_rel (a b : sstate) : Prop :=
  env_rel (ss_env a) (ss_env b) /\ ss_ref a = ss_ref b /\ ss_msgs a = ss_msgs b.

Lemma env_rel_nil : env_rel [] [].
Proof. intros l. reflexivity. Qed.

Lemma st_rel_init : st_rel ss_init ss_init.
Proof. unfold st_rel. cbn [ss_init ss_env ss_ref ss_msgs]. split; [exact env_rel_nil|]. split; reflexivity. Qed.

Lemma env_rel_cons env env' l be gmn fds ds :
  env_rel env env' ->
  env_rel ((l, mk_sdef be gmn fds ds) :: env) ((l, mk_sdef be gmn (keep_fds gmn fds) 0%nat) :: env').
Proof.
  intros He l'. rewrite !lookup_def_cons. destruct (l =? l'); [reflexivity|apply He].
Qed.

(* ------------------------------------------------------------ one definition record *)

Lemma def_sim a b l be gmn fds devflag devs a1 :
  st_rel a b -> denote_record a (RDef l be gmn fds devflag devs) = Some a1 ->
  exists b1, denote_record b (RDef l be gmn (keep_fds gmn fds) false []) = Some b1 /\ st_rel a1 b1 /\
    ss_env a1 = (l, mk_sdef be gmn fds (dev_size (if devflag then devs else []))) :: ss_env a.
Proof.
  intros (He & Hr & Hm) Ha. cbn [denote_record] in *.
  destruct (16 <=? l); [discriminate|]. destruct (gmn =? c_MesgNumInvalid); [discriminate|].
  cbn [orb] in *.
  destruct (forallb (compat gmn) fds) eqn:Ec; [|discriminate]. cbn [negb] in Ha.
  rewrite keep_fds_filter, (forallb_filter _ _ _ Ec). cbn [negb fold_right].
  injection Ha as <-. eexists. split; [reflexivity|].
  unfold st_rel. cbn [ss_env ss_ref ss_msgs]. split; [|reflexivity].
  split; [|split; assumption].
  rewrite <- keep_fds_filter. apply env_rel_cons. exact He.
Qed.

(* ------------------------------------------------------------ one data record *)

(* record_time_ok of a data record *)
Definition data_ok (s : sstate) (l : N) (off : option N) (pay : list N) : bool :=
  match lookup_def (ss_env s) l with
  | None => true
  | Some d =>
      let step_ok := match off, ss_ref s with Some o, Some r0 => negb (roll r0 o =? 0) | _, _ => true end in
      let ref1 := match off, ss_ref s with Some o, Some r0 => Some (roll r0 o) | _, r0 => r0 end in
      step_ok && (if known_msg (sd_gmn d) then fields_time_ok (sd_be d) (sd_gmn d) (sd_fds d) pay ref1 else true)
  end.

Lemma record_time_ok_data s l pay dev : record_time_ok s (RData l pay dev) = data_ok s l None pay.
Proof. reflexivity. Qed.
Lemma record_time_ok_comp s l off pay dev : record_time_ok s (RComp l off pay dev) = data_ok s l (Some off) pay.
Proof. reflexivity. Qed.

(* a successful data record has the lengths its definition prescribes *)
Lemma denote_data_lengths s l off pay dev d s1 :
  lookup_def (ss_env s) l = Some d -> denote_data s l off pay dev = Some s1 ->
  List.length pay = psize (sd_fds d) /\ ss_env s1 = ss_env s.
Proof.
  intros Hl Hd. unfold denote_data in Hd. rewrite Hl in Hd.
  destruct (Nat.eqb (List.length pay) (payload_size d)) eqn:Ep; cbn [negb orb] in Hd; [|discriminate].
  apply Nat.eqb_eq in Ep. split; [exact Ep|].
  destruct (negb _); [discriminate|].
  destruct (known_msg (sd_gmn d)).
  - destruct (mesg_all_invalid (sd_gmn d)) as [m0|]; [|discriminate].
    destruct off as [o|]; destruct (ss_ref s) as [r|]; cbv beta iota zeta in Hd;
      match type of Hd with context [denote_fields ?x1 ?x2 ?x3 ?x4 ?x5 ?x6 ?x7] =>
        destruct (denote_fields x1 x2 x3 x4 x5 x6 x7) as [[m2 ref2] unl] end;
      injection Hd as <-; reflexivity.
  - injection Hd as <-. reflexivity.
Qed.

(* known message: the stripped record decodes to the same message, reference and environment *)
Lemma data_known_sim a b l off pay dev d a1 :
  st_rel a b -> lookup_def (ss_env a) l = Some d -> known_msg (sd_gmn d) = true ->
  denote_data a l off pay dev = Some a1 ->
  exists b1, denote_data b l off (strip_pay (sd_gmn d) (sd_fds d) pay) [] = Some b1 /\ st_rel a1 b1.
Proof.
  destruct a as [env ref msgs ua uf], b as [env' ref' msgs' ub uf'].
  unfold st_rel. cbn [ss_env ss_ref ss_msgs]. intros (He & <- & <-) Hl Hk Hd.
  destruct (denote_data_lengths (mk_sstate env ref msgs ua uf) l off pay dev d a1 Hl Hd) as [Ep _].
  unfold denote_data in *. cbn [ss_env ss_ref ss_msgs ss_unkm ss_unkf] in *.
  rewrite Hl in Hd. rewrite (He l), Hl. cbn [option_map].
  destruct (negb _ || negb _); [discriminate|].
  assert (E1 : List.length (strip_pay (sd_gmn d) (sd_fds d) pay) = payload_size (strip_def d)).
  { change (payload_size (strip_def d)) with (psize (keep_fds (sd_gmn d) (sd_fds d))).
    rewrite keep_fds_filter. apply strip_pay_length. exact Ep. }
  rewrite E1, Nat.eqb_refl.
  change (sd_devsize (strip_def d)) with 0%nat. change (sd_gmn (strip_def d)) with (sd_gmn d).
  change (sd_be (strip_def d)) with (sd_be d). change (sd_fds (strip_def d)) with (keep_fds (sd_gmn d) (sd_fds d)).
  cbn [List.length Nat.eqb negb orb]. rewrite keep_fds_filter.
  rewrite Hk in *.
  destruct (mesg_all_invalid (sd_gmn d)) as [m0|]; [|discriminate].
  destruct off as [o|]; destruct ref as [r|]; cbv beta iota zeta in Hd |- *;
    match type of Hd with context [denote_fields ?x1 ?x2 ?x3 ?x4 ?x5 ?x6 ?x7] =>
      pose proof (strip_fields x1 x2 x3 x4 x5 x6 [] x7 Ep) as Hf;
      destruct (denote_fields x1 x2 x3 x4 x5 x6 x7) as [[m2 ref2] unl] end;
    match goal with |- context [denote_fields ?x1 ?x2 ?x3 ?x4 ?x5 ?x6 ?x7] =>
      destruct (denote_fields x1 x2 x3 x4 x5 x6 x7) as [[m3 ref3] unl3] end;
    cbn [fst] in Hf; injection Hf as -> ->; injection Hd as <-;
    (eexists; split; [reflexivity|]); cbn [ss_env ss_ref ss_msgs]; (split; [exact He|split; reflexivity]).
Qed.

Lemma data_ok_known_sim a b l off pay d :
  st_rel a b -> lookup_def (ss_env a) l = Some d -> known_msg (sd_gmn d) = true ->
  List.length pay = psize (sd_fds d) ->
  data_ok a l off pay = true -> data_ok b l off (strip_pay (sd_gmn d) (sd_fds d) pay) = true.
Proof.
  intros (He & Hr & Hm) Hl Hk Ep. unfold data_ok. rewrite (He l), Hl. cbn [option_map]. rewrite <- Hr.
  change (sd_gmn (strip_def d)) with (sd_gmn d).
  change (sd_be (strip_def d)) with (sd_be d). change (sd_fds (strip_def d)) with (keep_fds (sd_gmn d) (sd_fds d)).
  rewrite Hk, keep_fds_filter, (strip_time_ok _ _ _ _ _ Ep). auto.
Qed.

(* unknown message, plain record: deleting it leaves the related state related *)
Lemma data_unknown_sim a b l pay dev d a1 :
  st_rel a b -> lookup_def (ss_env a) l = Some d -> known_msg (sd_gmn d) = false ->
  denote_data a l None pay dev = Some a1 -> st_rel a1 b.
Proof.
  intros (He & Hr & Hm) Hl Hk Hd.
  rewrite (unknown_data_skipped a l pay dev d a1 Hl Hk Hd). unfold st_rel. cbn [ss_env ss_ref ss_msgs]. auto.
Qed.

(* unknown message, compressed record: the bare header advances the reference identically *)
Lemma comp_unknown_sim a b l off pay dev d a1 :
  st_rel a b -> lookup_def (ss_env a) l = Some d -> known_msg (sd_gmn d) = false ->
  denote_data a l (Some off) pay dev = Some a1 ->
  exists b1, denote_data b l (Some off) [] [] = Some b1 /\ st_rel a1 b1.
Proof.
  intros (He & Hr & Hm) Hl Hk Hd.
  rewrite (unknown_comp_skipped a l off pay dev d a1 Hl Hk Hd).
  unfold denote_data. rewrite (He l), Hl. cbn [option_map].
  change (payload_size (strip_def d)) with (psize (keep_fds (sd_gmn d) (sd_fds d))).
  rewrite (keep_fds_unknown _ _ Hk).
  change (sd_devsize (strip_def d)) with 0%nat. change (sd_gmn (strip_def d)) with (sd_gmn d).
  cbn [List.length psize fold_right Nat.eqb negb orb]. rewrite Hk.
  eexists. split; [reflexivity|]. unfold st_rel. cbn [ss_env ss_ref ss_msgs]. rewrite <- Hr.
  split; [exact He|]. split; [|exact Hm]. destruct (ss_ref a) as [r|]; reflexivity.
Qed.

Lemma data_ok_unknown_sim a b l off pay d :
  st_rel a b -> lookup_def (ss_env a) l = Some d -> known_msg (sd_gmn d) = false ->
  data_ok a l off pay = true -> data_ok b l off [] = true.
Proof.
  intros (He & Hr & Hm) Hl Hk. unfold data_ok. rewrite (He l), Hl. cbn [option_map]. rewrite <- Hr.
  change (sd_gmn (strip_def d)) with (sd_gmn d). rewrite Hk. auto.
Qed.

(* ------------------------------------------------------------ the stream simulation *)

(* the two runs stay related; the stripped run meets the time predicate when the original does *)
Theorem strip_sim : forall rs a b a',
  st_rel a b -> denote_from a rs = Some a' ->
  exists b', denote_from b (strip (ss_env a) rs) = Some b' /\ st_rel a' b' /\
    (no_time_quirk_from a rs = true -> no_time_quirk_from b (strip (ss_env a) rs) = true).
Proof.
  induction rs as [|r rs IH]; intros a b a' Hrel Hden.
  - cbn [denote_from strip no_time_quirk_from] in *. injection Hden as <-. exists b. auto.
  - cbn [denote_from] in Hden. destruct (denote_record a r) as [a1|] eqn:Ea; [|discriminate].
    cbn [no_time_quirk_from]. rewrite Ea.
    destruct r as [l be gmn fds devflag devs | l pay dev | l off pay dev].
    + (* definition *)
      destruct (def_sim a b l be gmn fds devflag devs a1 Hrel Ea) as (b1 & Eb & Hrel1 & Henv).
      cbn [strip]. rewrite <- Henv.
      destruct (IH a1 b1 a' Hrel1 Hden) as (b' & Hb' & Hrel' & Hq').
      exists b'. cbn [denote_from no_time_quirk_from]. rewrite Eb.
      split; [exact Hb'|]. split; [exact Hrel'|].
      intros Hq. apply andb_prop in Hq. destruct Hq as [_ Hq]. cbn [record_time_ok andb]. exact (Hq' Hq).
    + (* plain data record *)
      cbn [denote_record] in Ea. rewrite record_time_ok_data. cbn [strip].
      destruct (lookup_def (ss_env a) l) as [d|] eqn:El.
      2:{ unfold denote_data in Ea. rewrite El in Ea. discriminate. }
      destruct (denote_data_lengths a l None pay dev d a1 El Ea) as [Ep Henv].
      destruct (known_msg (sd_gmn d)) eqn:Ek.
      * destruct (data_known_sim a b l None pay dev d a1 Hrel El Ek Ea) as (b1 & Eb & Hrel1).
        rewrite <- Henv.
        destruct (IH a1 b1 a' Hrel1 Hden) as (b' & Hb' & Hrel' & Hq').
        exists b'. cbn [denote_from no_time_quirk_from denote_record]. rewrite Eb.
        split; [exact Hb'|]. split; [exact Hrel'|].
        intros Hq. apply andb_prop in Hq. destruct Hq as [Hq0 Hq]. rewrite record_time_ok_data.
        rewrite (data_ok_known_sim a b l None pay d Hrel El Ek Ep Hq0). cbn [andb]. exact (Hq' Hq).
      * pose proof (data_unknown_sim a b l pay dev d a1 Hrel El Ek Ea) as Hrel1.
        rewrite <- Henv.
        destruct (IH a1 b a' Hrel1 Hden) as (b' & Hb' & Hrel' & Hq').
        exists b'. split; [exact Hb'|]. split; [exact Hrel'|].
        intros Hq. apply andb_prop in Hq. destruct Hq as [_ Hq]. exact (Hq' Hq).
    + (* compressed-timestamp data record *)
      cbn [denote_record] in Ea. rewrite record_time_ok_comp. cbn [strip].
      destruct (4 <=? l) eqn:E4; [discriminate|].
      destruct (lookup_def (ss_env a) l) as [d|] eqn:El.
      2:{ unfold denote_data in Ea. rewrite El in Ea. discriminate. }
      destruct (denote_data_lengths a l (Some off) pay dev d a1 El Ea) as [Ep Henv].
      destruct (known_msg (sd_gmn d)) eqn:Ek.
      * destruct (data_known_sim a b l (Some off) pay dev d a1 Hrel El Ek Ea) as (b1 & Eb & Hrel1).
        rewrite <- Henv.
        destruct (IH a1 b1 a' Hrel1 Hden) as (b' & Hb' & Hrel' & Hq').
        exists b'. cbn [denote_from no_time_quirk_from denote_record]. rewrite E4, Eb.
        split; [exact Hb'|]. split; [exact Hrel'|].
        intros Hq. apply andb_prop in Hq. destruct Hq as [Hq0 Hq]. rewrite record_time_ok_comp.
        rewrite (data_ok_known_sim a b l (Some off) pay d Hrel El Ek Ep Hq0). cbn [andb]. exact (Hq' Hq).
      * destruct (comp_unknown_sim a b l off pay dev d a1 Hrel El Ek Ea) as (b1 & Eb & Hrel1).
        rewrite <- Henv.
        destruct (IH a1 b1 a' Hrel1 Hden) as (b' & Hb' & Hrel' & Hq').
        exists b'. cbn [denote_from no_time_quirk_from denote_record]. rewrite E4, Eb.
        split; [exact Hb'|]. split; [exact Hrel'|].
        intros Hq. apply andb_prop in Hq. destruct Hq as [Hq0 Hq]. rewrite record_time_ok_comp.
        rewrite (data_ok_unknown_sim a b l (Some off) pay d Hrel El Ek Hq0). cbn [andb]. exact (Hq' Hq).
Qed.

Theorem strip_denote_from : forall rs a b a',
  st_rel a b -> denote_from a rs = Some a' ->
  exists b', denote_from b (strip (ss_env a) rs) = Some b' /\ st_rel a' b'.
Proof.
  intros rs a b a' Hrel Hden. destruct (strip_sim rs a b a' Hrel Hden) as (b' & Hb' & Hrel' & _).
  exists b'. split; assumption.
Qed.

(* C02 unknown_skipped: stripping all unknown content changes neither the decoded messages nor the time reference *)
Theorem unknown_skipped : forall rs ss, denote rs = Some ss ->
  exists ss', denote (strip [] rs) = Some ss' /\ ss_msgs ss' = ss_msgs ss /\ ss_ref ss' = ss_ref ss.
Proof.
  intros rs ss Hden. unfold denote in *.
  destruct (strip_denote_from rs ss_init ss_init ss st_rel_init Hden) as (ss' & Hden' & _ & Hr & Hm).
  exists ss'. cbn [ss_init ss_env] in Hden'. split; [exact Hden'|]. split; symmetry; assumption.
Qed.

Theorem strip_no_time_quirk : forall rs ss, denote rs = Some ss ->
  no_time_quirk rs = true -> no_time_quirk (strip [] rs) = true.
Proof.
  intros rs ss Hden Hq. unfold denote, no_time_quirk in *.
  destruct (strip_sim rs ss_init ss_init ss st_rel_init Hden) as (ss' & _ & _ & Hq').
  exact (Hq' Hq).
Qed.

(* ------------------------------------------------------------ the stripped stream is serialisable *)

Lemma all_bytes_flat_filter (q : sfdef -> bool) : forall fds,
  all_bytes (flat_map ser_fdef fds) = true -> all_bytes (flat_map ser_fdef (filter q fds)) = true.
Proof.
  induction fds as [|f r IH]; cbn [flat_map filter]; [auto|].
  rewrite all_bytes_app_eq. intros H. apply andb_prop in H. destruct H as [H1 H2].
  destruct (q f); cbn [flat_map]; [rewrite all_bytes_app_eq, H1, (IH H2); reflexivity|exact (IH H2)].
Qed.

Lemma rec_wf_def l be gmn fds devflag devs :
  rec_wf (RDef l be gmn fds devflag devs) = true -> rec_wf (RDef l be gmn (keep_fds gmn fds) false []) = true.
Proof.
  unfold rec_wf. intros H. apply andb_prop in H. destruct H as [Hb H2].
  apply andb_prop in H2. destruct H2 as [Hg Hc].
  rewrite keep_fds_filter, Hg, (forallb_filter _ _ _ Hc), andb_true_r.
  cbn [ser_record] in *.
  rewrite !all_bytes_app_eq in *.
  apply andb_prop in Hb. destruct Hb as [Hh Hb]. apply andb_prop in Hb. destruct Hb as [Hp Hb].
  apply andb_prop in Hb. destruct Hb as [Hn Hb]. apply andb_prop in Hb. destruct Hb as [Hf _].
  rewrite Hp, (all_bytes_flat_filter _ _ Hf). cbn [all_bytes forallb andb] in *.
  rewrite !andb_true_r in *.
  apply andb_prop in Hh. destruct Hh as [Hh1 Hh2]. rewrite Hh2, andb_true_r.
  pose proof (filter_length_le' (listed gmn) fds) as Hle.
  unfold is_byte in *. apply N.ltb_lt in Hh1, Hn.
  apply andb_true_intro. split; apply N.ltb_lt; [destruct devflag; lia|lia].
Qed.

Lemma rec_wf_data l pay dev gmn fds :
  rec_wf (RData l pay dev) = true -> rec_wf (RData l (strip_pay gmn fds pay) []) = true.
Proof.
  unfold rec_wf. rewrite !andb_true_r. cbn [ser_record]. unfold all_bytes at 1 3. cbn [forallb].
  fold (all_bytes (pay ++ dev)). fold (all_bytes (strip_pay gmn fds pay ++ [])).
  rewrite !all_bytes_app_eq. intros H. apply andb_prop in H. destruct H as [H1 H2].
  apply andb_prop in H2. destruct H2 as [H2 _].
  rewrite H1, (all_bytes_strip_pay _ _ _ H2). reflexivity.
Qed.

Lemma rec_wf_data_nodev l pay dev : rec_wf (RData l pay dev) = true -> rec_wf (RData l pay []) = true.
Proof.
  unfold rec_wf. rewrite !andb_true_r. cbn [ser_record]. unfold all_bytes at 1 3. cbn [forallb].
  fold (all_bytes (pay ++ dev)). fold (all_bytes (pay ++ [])).
  rewrite !all_bytes_app_eq. intros H. apply andb_prop in H. destruct H as [H1 H2].
  apply andb_prop in H2. destruct H2 as [H2 _]. rewrite H1, H2. reflexivity.
Qed.

Lemma rec_wf_comp l off pay dev gmn fds :
  rec_wf (RComp l off pay dev) = true -> rec_wf (RComp l off (strip_pay gmn fds pay) []) = true.
Proof.
  unfold rec_wf. intros H. apply andb_prop in H. destruct H as [H Ho]. rewrite Ho, andb_true_r.
  cbn [ser_record] in *. unfold all_bytes in H |- *. cbn [forallb] in H |- *.
  fold (all_bytes (pay ++ dev)) in H. fold (all_bytes (strip_pay gmn fds pay ++ [])).
  rewrite !all_bytes_app_eq in *. apply andb_prop in H. destruct H as [H1 H2].
  apply andb_prop in H2. destruct H2 as [H2 _].
  rewrite H1, (all_bytes_strip_pay _ _ _ H2). reflexivity.
Qed.

Lemma rec_wf_comp_nodev l off pay dev : rec_wf (RComp l off pay dev) = true -> rec_wf (RComp l off pay []) = true.
Proof.
  unfold rec_wf. intros H. apply andb_prop in H. destruct H as [H Ho]. rewrite Ho, andb_true_r.
  cbn [ser_record] in *. unfold all_bytes in H |- *. cbn [forallb] in H |- *.
  fold (all_bytes (pay ++ dev)) in H. fold (all_bytes (pay ++ [])).
  rewrite !all_bytes_app_eq in *. apply andb_prop in H. destruct H as [H1 H2].
  apply andb_prop in H2. destruct H2 as [H2 _]. rewrite H1, H2. reflexivity.
Qed.

Lemma rec_wf_comp_bare l off pay dev : rec_wf (RComp l off pay dev) = true -> rec_wf (RComp l off [] []) = true.
Proof.
  unfold rec_wf. intros H. apply andb_prop in H. destruct H as [H Ho]. rewrite Ho, andb_true_r.
  cbn [ser_record app] in *. unfold all_bytes in H |- *. cbn [forallb] in H |- *.
  apply andb_prop in H. destruct H as [H1 _]. rewrite H1. reflexivity.
Qed.

Theorem strip_stream_wf : forall rs env, stream_wf rs = true -> stream_wf (strip env rs) = true.
Proof.
  unfold stream_wf. induction rs as [|r rs IH]; intros env H; [reflexivity|].
  cbn [forallb] in H. apply andb_prop in H. destruct H as [Hr H].
  destruct r as [l be gmn fds devflag devs | l pay dev | l off pay dev]; cbn [strip].
  - cbn [forallb]. rewrite (rec_wf_def _ _ _ _ _ _ Hr). apply IH. exact H.
  - destruct (lookup_def env l) as [d|]; [destruct (known_msg (sd_gmn d))|]; cbn [forallb].
    + rewrite (rec_wf_data _ _ _ _ _ Hr). apply IH. exact H.
    + apply IH. exact H.
    + rewrite (rec_wf_data_nodev _ _ _ Hr). apply IH. exact H.
  - destruct (lookup_def env l) as [d|]; [destruct (known_msg (sd_gmn d))|]; cbn [forallb].
    + rewrite (rec_wf_comp _ _ _ _ _ _ Hr). apply IH. exact H.
    + rewrite (rec_wf_comp_bare _ _ _ _ Hr). apply IH. exact H.
    + rewrite (rec_wf_comp_nodev _ _ _ _ Hr). apply IH. exact H.
Qed.

(* ------------------------------------------------------------ the head of the stream survives *)

Theorem strip_starts_with_file_id : forall rs, starts_with_file_id rs = true -> starts_with_file_id (strip [] rs) = true.
Proof.
  intros rs Hs.
  destruct rs as [|[l be gmn fds devflag devs| |] [|[| l' pay dev |] rest]]; try discriminate.
  cbn [starts_with_file_id] in Hs. apply andb_prop in Hs. destruct Hs as [Eg El].
  apply N.eqb_eq in Eg, El. subst gmn l'.
  cbn [strip]. rewrite lookup_def_cons, N.eqb_refl. cbn [sd_gmn]. rewrite known_fileid.
  cbn [starts_with_file_id]. rewrite !N.eqb_refl. reflexivity.
Qed.
