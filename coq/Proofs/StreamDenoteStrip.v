(* C02 unknown_skipped as ONE stream-rewriting theorem.

   [strip] deletes from a record list all content the profile does not know:
   - unlisted fields, from every definition and from every payload;
   - developer fields (definitions) and developer bytes (data records);
   - the plain data records of unknown messages.
   The stripped stream denotes the same messages and the same time reference.

   Two kinds of unknown content are kept as empty shells, because deleting them would change
   what later records mean: the definition of an unknown message (emptied: a later data record
   of that local type must still find a definition) and the compressed-timestamp record of an
   unknown message (header only: it still advances the time reference, and two successive
   rollover steps are not one). *)
From Coq Require Import NArith ZArith List Bool Lia Arith.
From Coq Require Import ZifyN ZifyNat ZifyBool.
From FitV Require Import Proofs.Util Model.Values Model.Bytes Model.Base Model.Profile Model.Reflect Model.IO
  Model.Header Model.Route Model.Components Model.Decode Spec.FitSyntax Spec.RouteSpec Proofs.ProfileProofs
  Proofs.DecodeLemmas Gen.Consts
  Proofs.StreamDenoteBase Proofs.StreamDenoteDefs Proofs.StreamDenoteData Proofs.StreamDenoteLoop
  Proofs.StreamDenoteLift Proofs.StreamDenoteMain Proofs.StreamDenoteSkip Proofs.StreamDenoteCor.
Import ListNotations.
Local Open Scope N_scope.

(* ------------------------------------------------------------ the rewriting *)

(* a field of a definition the profile lists for that message *)
Definition listed (gmn : N) (f : sfdef) : bool :=
  match get_field gmn (sf_num f) with Some _ => true | None => false end.

(* the field definitions that survive: the listed ones; none at all for an unknown message *)
Definition keep_fds (gmn : N) (fds : list sfdef) : list sfdef :=
  if known_msg gmn then filter (listed gmn) fds else [].

(* the payload bytes that survive: those of the listed fields (walks fds and pay as denote_fields does) *)
Fixpoint strip_pay (gmn : N) (fds : list sfdef) (pay : list N) : list N :=
  match fds with
  | [] => []
  | f :: r =>
      let sz := N.to_nat (sf_size f) in
      (if listed gmn f then firstn sz pay else []) ++ strip_pay gmn r (skipn sz pay)
  end.

Definition strip_def (d : sdef) : sdef :=
  mk_sdef (sd_be d) (sd_gmn d) (keep_fds (sd_gmn d) (sd_fds d)) 0%nat.

(* [env] is the environment of the ORIGINAL stream, built exactly as denote_record builds it *)
Fixpoint strip (env : list (N * sdef)) (rs : list record) : list record :=
  match rs with
  | [] => []
  | r :: rest =>
      match r with
      | RDef l be gmn fds devflag devs =>
          RDef l be gmn (keep_fds gmn fds) false [] ::
          strip ((l, mk_sdef be gmn fds (dev_size (if devflag then devs else []))) :: env) rest
      | RData l pay dev =>
          match lookup_def env l with
          | Some d =>
              if known_msg (sd_gmn d) then RData l (strip_pay (sd_gmn d) (sd_fds d) pay) [] :: strip env rest
              else strip env rest
          | None => RData l pay [] :: strip env rest
          end
      | RComp l off pay dev =>
          match lookup_def env l with
          | Some d =>
              if known_msg (sd_gmn d) then RComp l off (strip_pay (sd_gmn d) (sd_fds d) pay) [] :: strip env rest
              else RComp l off [] [] :: strip env rest
          | None => RComp l off pay [] :: strip env rest
          end
      end
  end.

(* ------------------------------------------------------------ list helpers *)

Lemma forallb_filter {A} (p q : A -> bool) : forall l, forallb p l = true -> forallb p (filter q l) = true.
Proof.
  induction l as [|x l IH]; cbn [forallb filter]; [auto|].
  intros H. apply andb_prop in H. destruct H as [H1 H2].
  destruct (q x); cbn [forallb]; [rewrite H1; cbn [andb]|]; auto.
Qed.

Lemma forallb_filter_same {A} (q : A -> bool) : forall l, forallb q (filter q l) = true.
Proof.
  induction l as [|x l IH]; cbn [forallb filter]; [reflexivity|].
  destruct (q x) eqn:E; cbn [forallb]; [rewrite E; cbn [andb]|]; exact IH.
Qed.

Lemma filter_length_le' {A} (q : A -> bool) : forall l, (List.length (filter q l) <= List.length l)%nat.
Proof.
  induction l as [|x l IH]; cbn [filter List.length]; [lia|].
  destruct (q x); cbn [List.length]; lia.
Qed.

Lemma all_bytes_app_eq a b : all_bytes (a ++ b) = all_bytes a && all_bytes b.
Proof. unfold all_bytes. apply forallb_app. Qed.

Lemma psize_cons f r : psize (f :: r) = (N.to_nat (sf_size f) + psize r)%nat.
Proof. reflexivity. Qed.

(* ------------------------------------------------------------ listed / keep_fds *)

Lemma listed_known gmn f : listed gmn f = true -> known_msg gmn = true.
Proof.
  unfold listed. destruct (get_field gmn (sf_num f)) as [p|] eqn:Eg; [|discriminate]. intros _.
  destruct (known_msg gmn) eqn:Ek; [reflexivity|]. rewrite (unknown_no_field gmn (sf_num f) Ek) in Eg. discriminate.
Qed.

Lemma unknown_filter_nil gmn : known_msg gmn = false -> forall fds, filter (listed gmn) fds = [].
Proof.
  intros Hk. induction fds as [|f r IH]; cbn [filter]; [reflexivity|].
  destruct (listed gmn f) eqn:El; [|exact IH]. rewrite (listed_known gmn f El) in Hk. discriminate.
Qed.

Lemma keep_fds_filter gmn fds : keep_fds gmn fds = filter (listed gmn) fds.
Proof.
  unfold keep_fds. destruct (known_msg gmn) eqn:Ek; [reflexivity|]. symmetry. apply unknown_filter_nil. exact Ek.
Qed.

Lemma keep_fds_unknown gmn fds : known_msg gmn = false -> keep_fds gmn fds = [].
Proof. intros Hk. unfold keep_fds. rewrite Hk. reflexivity. Qed.

(* ------------------------------------------------------------ strip_pay *)

Lemma strip_pay_cons gmn f r pay :
  strip_pay gmn (f :: r) pay =
  (if listed gmn f then firstn (N.to_nat (sf_size f)) pay else []) ++ strip_pay gmn r (skipn (N.to_nat (sf_size f)) pay).
Proof. reflexivity. Qed.

Lemma strip_pay_length gmn : forall fds pay, List.length pay = psize fds ->
  List.length (strip_pay gmn fds pay) = psize (filter (listed gmn) fds).
Proof.
  induction fds as [|f r IH]; intros pay Hlen; [reflexivity|].
  rewrite psize_cons in Hlen. rewrite strip_pay_cons. cbn [filter].
  set (sz := N.to_nat (sf_size f)) in *.
  assert (Hb2 : List.length (skipn sz pay) = psize r) by (rewrite skipn_length; lia).
  rewrite app_length, (IH _ Hb2).
  destruct (listed gmn f).
  - rewrite psize_cons. fold sz. rewrite firstn_length. lia.
  - reflexivity.
Qed.

Lemma strip_pay_unknown gmn : known_msg gmn = false -> forall fds pay, strip_pay gmn fds pay = [].
Proof.
  intros Hk. induction fds as [|f r IH]; intros pay; [reflexivity|].
  rewrite strip_pay_cons, IH. destruct (listed gmn f) eqn:El; [|reflexivity].
  rewrite (listed_known gmn f El) in Hk. discriminate.
Qed.

Lemma all_bytes_strip_pay gmn : forall fds pay, all_bytes pay = true -> all_bytes (strip_pay gmn fds pay) = true.
Proof.
  induction fds as [|f r IH]; intros pay Hb; [reflexivity|].
  rewrite strip_pay_cons, all_bytes_app_eq.
  destruct (all_bytes_split (N.to_nat (sf_size f)) pay Hb) as [H1 H2].
  rewrite (IH _ H2), andb_true_r. destruct (listed gmn f); [exact H1|reflexivity].
Qed.

(* the field loop on the stripped definition and payload computes the same message and reference *)
Lemma strip_fields be gmn : forall fds pay m ref unl unl', List.length pay = psize fds ->
  fst (denote_fields be gmn (filter (listed gmn) fds) (strip_pay gmn fds pay) m ref unl) =
  fst (denote_fields be gmn fds pay m ref unl').
Proof.
  induction fds as [|f r IH]; intros pay m ref unl unl' Hlen; [reflexivity|].
  rewrite psize_cons in Hlen. rewrite strip_pay_cons. cbn [filter].
  set (sz := N.to_nat (sf_size f)) in *.
  assert (Hb1 : List.length (firstn sz pay) = sz) by (rewrite firstn_length; lia).
  assert (Hb2 : List.length (skipn sz pay) = psize r) by (rewrite skipn_length; lia).
  destruct (listed gmn f) eqn:El; unfold listed in El;
    destruct (get_field gmn (sf_num f)) as [p|] eqn:Eg; try discriminate.
  - cbn [denote_fields]. fold sz. rewrite Eg.
    rewrite !(firstn_app_len (firstn sz pay) _ sz Hb1), !(skipn_app_len (firstn sz pay) _ sz Hb1).
    apply IH. exact Hb2.
  - cbn [app denote_fields]. fold sz. rewrite Eg. apply IH. exact Hb2.
Qed.

(* ------------------------------------------------------------ the simulation relation *)

Definition env_rel (env env' : list (N * sdef)) : Prop :=
  forall l, lookup_def env' l = option_map strip_def (lookup_def env l).

Definition st_rel (a b : sstate) : Prop :=
  env_rel (ss_env a) (ss_env b) /\ ss_ref a = ss_ref b /\ ss_msgs a = ss_msgs b.

Lemma env_rel_nil : env_rel [] [].
Proof. intros l. reflexivity. Qed.

Lemma st_rel_init : st_rel ss_init ss_init.
Proof. unfold st_rel. cbn [ss_init ss_env ss_ref ss_msgs]. split; [exact env_rel_nil|]. split; reflexivity. Qed.

Lemma env_rel_cons env env' l be gmn fds ds :
  env_rel env env' ->
  env_rel ((l, mk_sdef be gmn fds ds) :: env) ((l, mk_sdef be gmn (keep_fds gmn fds) 0%nat) :: env').
Proof.
  intros He l'. rewrite !lookup_def_cons. destruct (l =? l'); [reflexivity|apply He].
Qed.

(* ------------------------------------------------------------ one definition record *)

Lemma def_sim a b l be gmn fds devflag devs a1 :
  st_rel a b -> denote_record a (RDef l be gmn fds devflag devs) = Some a1 ->
  exists b1, denote_record b (RDef l be gmn (keep_fds gmn fds) false []) = Some b1 /\ st_rel a1 b1 /\
    ss_env a1 = (l, mk_sdef be gmn fds (dev_size (if devflag then devs else []))) :: ss_env a.
Proof.
  intros (He & Hr & Hm) Ha. cbn [denote_record] in *.
  destruct (16 <=? l); [discriminate|]. destruct (gmn =? c_MesgNumInvalid); [discriminate|].
  cbn [orb] in *.
  destruct (forallb (compat gmn) fds) eqn:Ec; [|discriminate]. cbn [negb] in Ha.
  rewrite keep_fds_filter, (forallb_filter _ _ _ Ec). cbn [negb fold_right].
  injection Ha as <-. eexists. split; [reflexivity|].
  unfold st_rel. cbn [ss_env ss_ref ss_msgs]. split; [|reflexivity].
  split; [|split; assumption].
  rewrite <- keep_fds_filter. apply env_rel_cons. exact He.
Qed.

(* ------------------------------------------------------------ one data record *)

(* a successful data record has the lengths its definition prescribes *)
Lemma denote_data_lengths s l off pay dev d s1 :
  lookup_def (ss_env s) l = Some d -> denote_data s l off pay dev = Some s1 ->
  List.length pay = psize (sd_fds d) /\ ss_env s1 = ss_env s.
Proof.
  intros Hl Hd. unfold denote_data in Hd. rewrite Hl in Hd.
  destruct (Nat.eqb (List.length pay) (payload_size d)) eqn:Ep; cbn [negb orb] in Hd; [|discriminate].
  apply Nat.eqb_eq in Ep. split; [exact Ep|].
  destruct (negb _); [discriminate|].
  destruct (known_msg (sd_gmn d)).
  - destruct (mesg_all_invalid (sd_gmn d)) as [m0|]; [|discriminate].
    destruct off as [o|]; destruct (ss_ref s) as [r|]; cbv beta iota zeta in Hd;
      match type of Hd with context [denote_fields ?x1 ?x2 ?x3 ?x4 ?x5 ?x6 ?x7] =>
        destruct (denote_fields x1 x2 x3 x4 x5 x6 x7) as [[m2 ref2] unl] end;
      injection Hd as <-; reflexivity.
  - injection Hd as <-. reflexivity.
Qed.

(* known message: the stripped record decodes to the same message, reference and environment;
   stated on what the stripped run finds for that local type, so that both rewritings can use it *)
Lemma data_known_core a b l off pay dev d a1 :
  lookup_def (ss_env a) l = Some d -> lookup_def (ss_env b) l = Some (strip_def d) ->
  ss_ref a = ss_ref b -> ss_msgs a = ss_msgs b -> known_msg (sd_gmn d) = true ->
  denote_data a l off pay dev = Some a1 ->
  exists b1, denote_data b l off (strip_pay (sd_gmn d) (sd_fds d) pay) [] = Some b1 /\
    ss_env b1 = ss_env b /\ ss_ref a1 = ss_ref b1 /\ ss_msgs a1 = ss_msgs b1.
Proof.
  destruct a as [env ref msgs ua uf], b as [env' ref' msgs' ub uf'].
  cbn [ss_env ss_ref ss_msgs]. intros Hl Hlb <- <- Hk Hd.
  destruct (denote_data_lengths (mk_sstate env ref msgs ua uf) l off pay dev d a1 Hl Hd) as [Ep _].
  unfold denote_data in *. cbn [ss_env ss_ref ss_msgs ss_unkm ss_unkf] in *.
  rewrite Hl in Hd. rewrite Hlb.
  destruct (negb _ || negb _); [discriminate|].
  assert (E1 : List.length (strip_pay (sd_gmn d) (sd_fds d) pay) = payload_size (strip_def d)).
  { change (payload_size (strip_def d)) with (psize (keep_fds (sd_gmn d) (sd_fds d))).
    rewrite keep_fds_filter. apply strip_pay_length. exact Ep. }
  rewrite E1, Nat.eqb_refl.
  change (sd_devsize (strip_def d)) with 0%nat. change (sd_gmn (strip_def d)) with (sd_gmn d).
  change (sd_be (strip_def d)) with (sd_be d). change (sd_fds (strip_def d)) with (keep_fds (sd_gmn d) (sd_fds d)).
  cbn [List.length Nat.eqb negb orb]. rewrite keep_fds_filter.
  rewrite Hk in *.
  destruct (mesg_all_invalid (sd_gmn d)) as [m0|]; [|discriminate].
  destruct off as [o|]; destruct ref as [r|]; cbv beta iota zeta in Hd |- *;
    match type of Hd with context [denote_fields ?x1 ?x2 ?x3 ?x4 ?x5 ?x6 ?x7] =>
      pose proof (strip_fields x1 x2 x3 x4 x5 x6 [] x7 Ep) as Hf;
      destruct (denote_fields x1 x2 x3 x4 x5 x6 x7) as [[m2 ref2] unl] end;
    match goal with |- context [denote_fields ?x1 ?x2 ?x3 ?x4 ?x5 ?x6 ?x7] =>
      destruct (denote_fields x1 x2 x3 x4 x5 x6 x7) as [[m3 ref3] unl3] end;
    cbn [fst] in Hf; injection Hf as -> ->; injection Hd as <-;
    (eexists; split; [reflexivity|]); cbn [ss_env ss_ref ss_msgs]; repeat split.
Qed.

Lemma env_rel_some env env' l d : env_rel env env' -> lookup_def env l = Some d -> lookup_def env' l = Some (strip_def d).
Proof. intros He Hl. rewrite (He l), Hl. reflexivity. Qed.

Lemma data_known_sim a b l off pay dev d a1 :
  st_rel a b -> lookup_def (ss_env a) l = Some d -> known_msg (sd_gmn d) = true ->
  denote_data a l off pay dev = Some a1 ->
  exists b1, denote_data b l off (strip_pay (sd_gmn d) (sd_fds d) pay) [] = Some b1 /\ st_rel a1 b1.
Proof.
  intros (He & Hr & Hm) Hl Hk Hd.
  destruct (data_known_core a b l off pay dev d a1 Hl (env_rel_some _ _ _ _ He Hl) Hr Hm Hk Hd)
    as (b1 & Eb & Henvb & Hr1 & Hm1).
  destruct (denote_data_lengths a l off pay dev d a1 Hl Hd) as [_ Henva].
  exists b1. split; [exact Eb|]. unfold st_rel. rewrite Henva, Henvb. auto.
Qed.

(* unknown message, plain record: deleting it leaves the related state related *)
Lemma data_unknown_sim a b l pay dev d a1 :
  st_rel a b -> lookup_def (ss_env a) l = Some d -> known_msg (sd_gmn d) = false ->
  denote_data a l None pay dev = Some a1 -> st_rel a1 b.
Proof.
  intros (He & Hr & Hm) Hl Hk Hd.
  rewrite (unknown_data_skipped a l pay dev d a1 Hl Hk Hd). unfold st_rel. cbn [ss_env ss_ref ss_msgs]. auto.
Qed.

(* unknown message, compressed record: the bare header advances the reference identically *)
Lemma comp_unknown_sim a b l off pay dev d a1 :
  st_rel a b -> lookup_def (ss_env a) l = Some d -> known_msg (sd_gmn d) = false ->
  denote_data a l (Some off) pay dev = Some a1 ->
  exists b1, denote_data b l (Some off) [] [] = Some b1 /\ st_rel a1 b1.
Proof.
  intros (He & Hr & Hm) Hl Hk Hd.
  rewrite (unknown_comp_skipped a l off pay dev d a1 Hl Hk Hd).
  unfold denote_data. rewrite (He l), Hl. cbn [option_map].
  change (payload_size (strip_def d)) with (psize (keep_fds (sd_gmn d) (sd_fds d))).
  rewrite (keep_fds_unknown _ _ Hk).
  change (sd_devsize (strip_def d)) with 0%nat. change (sd_gmn (strip_def d)) with (sd_gmn d).
  cbn [List.length psize fold_right Nat.eqb negb orb]. rewrite Hk.
  eexists. split; [reflexivity|]. unfold st_rel. cbn [ss_env ss_ref ss_msgs]. rewrite <- Hr.
  split; [exact He|]. split; [|exact Hm]. destruct (ss_ref a) as [r|]; reflexivity.
Qed.

(* ------------------------------------------------------------ the stream simulation *)

(* the two runs stay related *)
Theorem strip_sim : forall rs a b a',
  st_rel a b -> denote_from a rs = Some a' ->
  exists b', denote_from b (strip (ss_env a) rs) = Some b' /\ st_rel a' b'.
Proof.
  induction rs as [|r rs IH]; intros a b a' Hrel Hden.
  - cbn [denote_from strip] in *. injection Hden as <-. exists b. auto.
  - cbn [denote_from] in Hden. destruct (denote_record a r) as [a1|] eqn:Ea; [|discriminate].
    destruct r as [l be gmn fds devflag devs | l pay dev | l off pay dev].
    + (* definition *)
      destruct (def_sim a b l be gmn fds devflag devs a1 Hrel Ea) as (b1 & Eb & Hrel1 & Henv).
      cbn [strip]. rewrite <- Henv.
      destruct (IH a1 b1 a' Hrel1 Hden) as (b' & Hb' & Hrel').
      exists b'. cbn [denote_from]. rewrite Eb.
      split; [exact Hb'|exact Hrel'].
    + (* plain data record *)
      cbn [denote_record] in Ea. cbn [strip].
      destruct (lookup_def (ss_env a) l) as [d|] eqn:El.
      2:{ unfold denote_data in Ea. rewrite El in Ea. discriminate. }
      destruct (denote_data_lengths a l None pay dev d a1 El Ea) as [Ep Henv].
      destruct (known_msg (sd_gmn d)) eqn:Ek.
      * destruct (data_known_sim a b l None pay dev d a1 Hrel El Ek Ea) as (b1 & Eb & Hrel1).
        rewrite <- Henv.
        destruct (IH a1 b1 a' Hrel1 Hden) as (b' & Hb' & Hrel').
        exists b'. cbn [denote_from denote_record]. rewrite Eb.
        split; [exact Hb'|exact Hrel'].
      * pose proof (data_unknown_sim a b l pay dev d a1 Hrel El Ek Ea) as Hrel1.
        rewrite <- Henv.
        destruct (IH a1 b a' Hrel1 Hden) as (b' & Hb' & Hrel').
        exists b'. split; [exact Hb'|exact Hrel'].
    + (* compressed-timestamp data record *)
      cbn [denote_record] in Ea. cbn [strip].
      destruct (4 <=? l) eqn:E4; [discriminate|].
      destruct (lookup_def (ss_env a) l) as [d|] eqn:El.
      2:{ unfold denote_data in Ea. rewrite El in Ea. discriminate. }
      destruct (denote_data_lengths a l (Some off) pay dev d a1 El Ea) as [Ep Henv].
      destruct (known_msg (sd_gmn d)) eqn:Ek.
      * destruct (data_known_sim a b l (Some off) pay dev d a1 Hrel El Ek Ea) as (b1 & Eb & Hrel1).
        rewrite <- Henv.
        destruct (IH a1 b1 a' Hrel1 Hden) as (b' & Hb' & Hrel').
        exists b'. cbn [denote_from denote_record]. rewrite E4, Eb.
        split; [exact Hb'|exact Hrel'].
      * destruct (comp_unknown_sim a b l off pay dev d a1 Hrel El Ek Ea) as (b1 & Eb & Hrel1).
        rewrite <- Henv.
        destruct (IH a1 b1 a' Hrel1 Hden) as (b' & Hb' & Hrel').
        exists b'. cbn [denote_from denote_record]. rewrite E4, Eb.
        split; [exact Hb'|exact Hrel'].
Qed.

Theorem strip_denote_from : forall rs a b a',
  st_rel a b -> denote_from a rs = Some a' ->
  exists b', denote_from b (strip (ss_env a) rs) = Some b' /\ st_rel a' b'.
Proof.
  intros rs a b a' Hrel Hden. destruct (strip_sim rs a b a' Hrel Hden) as (b' & Hb' & Hrel').
  exists b'. split; assumption.
Qed.

(* C02 unknown_skipped: stripping all unknown content changes neither the decoded messages nor the time reference *)
Theorem unknown_skipped : forall rs ss, denote rs = Some ss ->
  exists ss', denote (strip [] rs) = Some ss' /\ ss_msgs ss' = ss_msgs ss /\ ss_ref ss' = ss_ref ss.
Proof.
  intros rs ss Hden. unfold denote in *.
  destruct (strip_denote_from rs ss_init ss_init ss st_rel_init Hden) as (ss' & Hden' & _ & Hr & Hm).
  exists ss'. cbn [ss_init ss_env] in Hden'. split; [exact Hden'|]. split; symmetry; assumption.
Qed.

(* ------------------------------------------------------------ the stripped stream is serialisable *)

Lemma all_bytes_flat_filter (q : sfdef -> bool) : forall fds,
  all_bytes (flat_map ser_fdef fds) = true -> all_bytes (flat_map ser_fdef (filter q fds)) = true.
Proof.
  induction fds as [|f r IH]; cbn [flat_map filter]; [auto|].
  rewrite all_bytes_app_eq. intros H. apply andb_prop in H. destruct H as [H1 H2].
  destruct (q f); cbn [flat_map]; [rewrite all_bytes_app_eq, H1, (IH H2); reflexivity|exact (IH H2)].
Qed.

Lemma rec_wf_def l be gmn fds devflag devs :
  rec_wf (RDef l be gmn fds devflag devs) = true -> rec_wf (RDef l be gmn (keep_fds gmn fds) false []) = true.
Proof.
  unfold rec_wf. intros H. apply andb_prop in H. destruct H as [Hb H2].
  apply andb_prop in H2. destruct H2 as [Hg Hc].
  rewrite keep_fds_filter, Hg, (forallb_filter _ _ _ Hc), andb_true_r.
  cbn [ser_record] in *.
  rewrite !all_bytes_app_eq in *.
  apply andb_prop in Hb. destruct Hb as [Hh Hb]. apply andb_prop in Hb. destruct Hb as [Hp Hb].
  apply andb_prop in Hb. destruct Hb as [Hn Hb]. apply andb_prop in Hb. destruct Hb as [Hf _].
  rewrite Hp, (all_bytes_flat_filter _ _ Hf). cbn [all_bytes forallb andb] in *.
  rewrite !andb_true_r in *.
  apply andb_prop in Hh. destruct Hh as [Hh1 Hh2]. rewrite Hh2, andb_true_r.
  pose proof (filter_length_le' (listed gmn) fds) as Hle.
  unfold is_byte in *. apply N.ltb_lt in Hh1, Hn.
  apply andb_true_intro. split; apply N.ltb_lt; [destruct devflag; lia|lia].
Qed.

Lemma all_bytes_cons x l : all_bytes (x :: l) = is_byte x && all_bytes l.
Proof. reflexivity. Qed.

(* the bytes of a data record whose payload shrank to [pay'] and whose developer bytes are gone *)
Lemma all_bytes_shrink x pay dev pay' :
  (all_bytes pay = true -> all_bytes pay' = true) ->
  all_bytes (x :: pay ++ dev) = true -> all_bytes (x :: pay' ++ []) = true.
Proof.
  intros Hp. rewrite !all_bytes_cons, !all_bytes_app_eq. intros H. apply andb_prop in H. destruct H as [H1 H2].
  apply andb_prop in H2. destruct H2 as [H2 _]. rewrite H1, (Hp H2). reflexivity.
Qed.

Lemma rec_wf_data l pay dev gmn fds :
  rec_wf (RData l pay dev) = true -> rec_wf (RData l (strip_pay gmn fds pay) []) = true.
Proof.
  unfold rec_wf. rewrite !andb_true_r. cbn [ser_record]. apply all_bytes_shrink. apply all_bytes_strip_pay.
Qed.

Lemma rec_wf_data_nodev l pay dev : rec_wf (RData l pay dev) = true -> rec_wf (RData l pay []) = true.
Proof.
  unfold rec_wf. rewrite !andb_true_r. cbn [ser_record]. apply all_bytes_shrink. auto.
Qed.

Lemma rec_wf_comp l off pay dev gmn fds :
  rec_wf (RComp l off pay dev) = true -> rec_wf (RComp l off (strip_pay gmn fds pay) []) = true.
Proof.
  unfold rec_wf. intros H. apply andb_prop in H. destruct H as [H Ho]. rewrite Ho, andb_true_r.
  cbn [ser_record] in *. revert H. apply all_bytes_shrink. apply all_bytes_strip_pay.
Qed.

Lemma rec_wf_comp_nodev l off pay dev : rec_wf (RComp l off pay dev) = true -> rec_wf (RComp l off pay []) = true.
Proof.
  unfold rec_wf. intros H. apply andb_prop in H. destruct H as [H Ho]. rewrite Ho, andb_true_r.
  cbn [ser_record] in *. revert H. apply all_bytes_shrink. auto.
Qed.

Lemma rec_wf_comp_bare l off pay dev : rec_wf (RComp l off pay dev) = true -> rec_wf (RComp l off [] []) = true.
Proof.
  unfold rec_wf. intros H. apply andb_prop in H. destruct H as [H Ho]. rewrite Ho, andb_true_r.
  cbn [ser_record] in *. revert H. apply all_bytes_shrink. auto.
Qed.

Theorem strip_stream_wf : forall rs env, stream_wf rs = true -> stream_wf (strip env rs) = true.
Proof.
  unfold stream_wf. induction rs as [|r rs IH]; intros env H; [reflexivity|].
  cbn [forallb] in H. apply andb_prop in H. destruct H as [Hr H].
  destruct r as [l be gmn fds devflag devs | l pay dev | l off pay dev]; cbn [strip].
  - cbn [forallb]. rewrite (rec_wf_def _ _ _ _ _ _ Hr). apply IH. exact H.
  - destruct (lookup_def env l) as [d|]; [destruct (known_msg (sd_gmn d))|]; cbn [forallb].
    + rewrite (rec_wf_data _ _ _ _ _ Hr). apply IH. exact H.
    + apply IH. exact H.
    + rewrite (rec_wf_data_nodev _ _ _ Hr). apply IH. exact H.
  - destruct (lookup_def env l) as [d|]; [destruct (known_msg (sd_gmn d))|]; cbn [forallb].
    + rewrite (rec_wf_comp _ _ _ _ _ _ Hr). apply IH. exact H.
    + rewrite (rec_wf_comp_bare _ _ _ _ Hr). apply IH. exact H.
    + rewrite (rec_wf_comp_nodev _ _ _ _ Hr). apply IH. exact H.
Qed.

(* ------------------------------------------------------------ the head of the stream survives *)

Theorem strip_starts_with_file_id : forall rs, starts_with_file_id rs = true -> starts_with_file_id (strip [] rs) = true.
Proof.
  intros rs Hs.
  destruct rs as [|[l be gmn fds devflag devs| |] [|[| l' pay dev |] rest]]; try discriminate.
  cbn [starts_with_file_id] in Hs. apply andb_prop in Hs. destruct Hs as [Eg El].
  apply N.eqb_eq in Eg, El. subst gmn l'.
  cbn [strip]. rewrite lookup_def_cons, N.eqb_refl. cbn [sd_gmn]. rewrite known_fileid.
  cbn [starts_with_file_id]. rewrite !N.eqb_refl. reflexivity.
Qed.

(* ------------------------------------------------------------ the stripped stream holds no unknown content *)

Definition no_bytes (l : list N) : bool := match l with [] => true | _ :: _ => false end.

(* every field of every definition is listed -- so the definition of an unknown message is empty --,
   there are no developer fields and no developer bytes, no plain data record addresses an unknown
   message and a compressed one that does is a bare header *)
Fixpoint clean_from (env : list (N * sdef)) (rs : list record) : bool :=
  match rs with
  | [] => true
  | r :: rest =>
      match r with
      | RDef l be gmn fds devflag devs =>
          forallb (listed gmn) fds && negb devflag && (match devs with [] => true | _ :: _ => false end) &&
          clean_from ((l, mk_sdef be gmn fds 0%nat) :: env) rest
      | RData l pay dev =>
          no_bytes dev && (match lookup_def env l with Some d => known_msg (sd_gmn d) | None => true end) &&
          clean_from env rest
      | RComp l off pay dev =>
          no_bytes dev &&
          (match lookup_def env l with Some d => known_msg (sd_gmn d) || no_bytes pay | None => true end) &&
          clean_from env rest
      end
  end.
Definition clean (rs : list record) : bool := clean_from [] rs.

Lemma clean_unknown_def_empty gmn fds : known_msg gmn = false -> forallb (listed gmn) fds = true -> fds = [].
Proof.
  intros Hk H. destruct fds as [|f r]; [reflexivity|]. cbn [forallb] in H. apply andb_prop in H. destruct H as [H _].
  rewrite (listed_known gmn f H) in Hk. discriminate.
Qed.

Lemma strip_clean_from : forall rs env env', env_rel env env' -> clean_from env' (strip env rs) = true.
Proof.
  induction rs as [|r rs IH]; intros env env' He; [reflexivity|].
  destruct r as [l be gmn fds devflag devs | l pay dev | l off pay dev]; cbn [strip].
  - cbn [clean_from negb andb]. rewrite keep_fds_filter, forallb_filter_same. cbn [andb].
    apply IH. rewrite <- keep_fds_filter. apply env_rel_cons. exact He.
  - destruct (lookup_def env l) as [d|] eqn:El; [destruct (known_msg (sd_gmn d)) eqn:Ek|].
    + cbn [clean_from no_bytes andb]. rewrite (He l), El. cbn [option_map].
      change (sd_gmn (strip_def d)) with (sd_gmn d). rewrite Ek. cbn [andb]. apply IH. exact He.
    + apply IH. exact He.
    + cbn [clean_from no_bytes andb]. rewrite (He l), El. cbn [option_map andb]. apply IH. exact He.
  - destruct (lookup_def env l) as [d|] eqn:El; [destruct (known_msg (sd_gmn d)) eqn:Ek|].
    + cbn [clean_from no_bytes andb]. rewrite (He l), El. cbn [option_map].
      change (sd_gmn (strip_def d)) with (sd_gmn d). rewrite Ek. cbn [orb andb]. apply IH. exact He.
    + cbn [clean_from no_bytes andb]. rewrite (He l), El. cbn [option_map]. rewrite orb_true_r. cbn [andb].
      apply IH. exact He.
    + cbn [clean_from no_bytes andb]. rewrite (He l), El. cbn [option_map andb]. apply IH. exact He.
Qed.

Theorem strip_clean : forall rs, clean (strip [] rs) = true.
Proof. intros rs. apply strip_clean_from. exact env_rel_nil. Qed.

(* ------------------------------------------------------------ decoder level *)

(* the domain of the stream theorem is closed under stripping *)
Theorem strip_in_domain : forall h g rs, in_domain h g rs -> in_domain h g (strip [] rs).
Proof.
  intros h g rs (Hs & Hwf & ss & f2 & g1 & Hden & Hst).
  destruct (unknown_skipped rs ss Hden) as (ss' & Hden' & Hm & _).
  split; [exact (strip_starts_with_file_id rs Hs)|].
  split; [exact (strip_stream_wf rs [] Hwf)|].
  exists ss', f2, g1. split; [exact Hden'|]. rewrite Hm. exact Hst.
Qed.

(* C02 unknown_skipped on the decoder model: the File decoded from the stripped stream is the File decoded
   from the original *)
Theorem unknown_skipped_decoder : forall o h g rs, in_domain h g rs ->
  decoded_file o h g (strip [] rs) = decoded_file o h g rs.
Proof.
  intros o h g rs D. pose proof (strip_in_domain h g rs D) as D'.
  pose proof D as (_ & _ & ss & _ & _ & Hden & _).
  destruct (unknown_skipped rs ss Hden) as (ss' & Hden' & Hm & _).
  exact (same_messages_same_file o h g (strip [] rs) rs ss' ss D' D Hden' Hden Hm).
Qed.

(* and that File is not an error *)
Corollary unknown_skipped_decoder_ok : forall o h g rs, in_domain h g rs ->
  decoded_file o h g (strip [] rs) <> None.
Proof.
  intros o h g rs D. rewrite (unknown_skipped_decoder o h g rs D).
  pose proof D as (_ & _ & ss & _ & _ & Hden & _).
  exact (proj2 (decoded_is_routed o h g rs ss D Hden)).
Qed.

(* ------------------------------------------------------------ variant: the definitions of unknown messages go, too *)

(* Sound when no compressed-timestamp record addresses an unknown message (such a record advances the time
   reference and cannot go; with it gone its definition could go as well, but then a later record of that local
   type would meet an older definition). *)
Fixpoint strip_all (env : list (N * sdef)) (rs : list record) : list record :=
  match rs with
  | [] => []
  | r :: rest =>
      match r with
      | RDef l be gmn fds devflag devs =>
          if known_msg gmn then
            RDef l be gmn (keep_fds gmn fds) false [] ::
            strip_all ((l, mk_sdef be gmn fds (dev_size (if devflag then devs else []))) :: env) rest
          else strip_all ((l, mk_sdef be gmn fds (dev_size (if devflag then devs else []))) :: env) rest
      | RData l pay dev =>
          match lookup_def env l with
          | Some d =>
              if known_msg (sd_gmn d) then RData l (strip_pay (sd_gmn d) (sd_fds d) pay) [] :: strip_all env rest
              else strip_all env rest
          | None => RData l pay [] :: strip_all env rest
          end
      | RComp l off pay dev =>
          match lookup_def env l with
          | Some d => RComp l off (strip_pay (sd_gmn d) (sd_fds d) pay) [] :: strip_all env rest
          | None => RComp l off pay [] :: strip_all env rest
          end
      end
  end.

Fixpoint no_unknown_comp (env : list (N * sdef)) (rs : list record) : bool :=
  match rs with
  | [] => true
  | r :: rest =>
      match r with
      | RDef l be gmn fds devflag devs =>
          no_unknown_comp ((l, mk_sdef be gmn fds (dev_size (if devflag then devs else []))) :: env) rest
      | RData l pay dev => no_unknown_comp env rest
      | RComp l off pay dev =>
          (match lookup_def env l with Some d => known_msg (sd_gmn d) | None => true end) && no_unknown_comp env rest
      end
  end.

(* the stripped run knows the stripped definition of every local type that currently holds a known message *)
Definition env_relk (env env' : list (N * sdef)) : Prop :=
  forall l d, lookup_def env l = Some d -> known_msg (sd_gmn d) = true -> lookup_def env' l = Some (strip_def d).

Definition st_relk (a b : sstate) : Prop :=
  env_relk (ss_env a) (ss_env b) /\ ss_ref a = ss_ref b /\ ss_msgs a = ss_msgs b.

Lemma st_relk_init : st_relk ss_init ss_init.
Proof.
  unfold st_relk. cbn [ss_init ss_env ss_ref ss_msgs]. split; [|split; reflexivity].
  intros l d Hl. discriminate.
Qed.

Lemma env_relk_cons_known env env' l be gmn fds ds :
  env_relk env env' ->
  env_relk ((l, mk_sdef be gmn fds ds) :: env) ((l, mk_sdef be gmn (keep_fds gmn fds) 0%nat) :: env').
Proof.
  intros He l' d. rewrite !lookup_def_cons. destruct (l =? l'); [|apply He].
  intros Hd _. injection Hd as <-. reflexivity.
Qed.

Lemma env_relk_cons_unknown env env' l be gmn fds ds :
  known_msg gmn = false -> env_relk env env' -> env_relk ((l, mk_sdef be gmn fds ds) :: env) env'.
Proof.
  intros Hk He l' d. rewrite lookup_def_cons. destruct (l =? l'); [|apply He].
  intros Hd Hkd. injection Hd as <-. cbn [sd_gmn] in Hkd. rewrite Hkd in Hk. discriminate.
Qed.

Lemma def_step a l be gmn fds devflag devs a1 :
  denote_record a (RDef l be gmn fds devflag devs) = Some a1 ->
  a1 = mk_sstate ((l, mk_sdef be gmn fds (dev_size (if devflag then devs else []))) :: ss_env a)
         (ss_ref a) (ss_msgs a) (ss_unkm a) (ss_unkf a) /\
  forall b, denote_record b (RDef l be gmn (keep_fds gmn fds) false []) =
    Some (mk_sstate ((l, mk_sdef be gmn (keep_fds gmn fds) 0%nat) :: ss_env b)
            (ss_ref b) (ss_msgs b) (ss_unkm b) (ss_unkf b)).
Proof.
  intros Ha. cbn [denote_record] in *.
  destruct (16 <=? l); [discriminate|]. destruct (gmn =? c_MesgNumInvalid); [discriminate|].
  cbn [orb] in *.
  destruct (forallb (compat gmn) fds) eqn:Ec; [|discriminate]. cbn [negb] in Ha.
  injection Ha as <-. split; [reflexivity|]. intros b.
  rewrite keep_fds_filter, (forallb_filter _ _ _ Ec). reflexivity.
Qed.

Theorem strip_all_sim : forall rs a b a',
  st_relk a b -> no_unknown_comp (ss_env a) rs = true -> denote_from a rs = Some a' ->
  exists b', denote_from b (strip_all (ss_env a) rs) = Some b' /\ st_relk a' b'.
Proof.
  induction rs as [|r rs IH]; intros a b a' Hrel Hnc Hden.
  - cbn [denote_from strip_all] in *. injection Hden as <-. exists b. auto.
  - cbn [denote_from] in Hden. destruct (denote_record a r) as [a1|] eqn:Ea; [|discriminate].
    destruct r as [l be gmn fds devflag devs | l pay dev | l off pay dev]; cbn [no_unknown_comp] in Hnc.
    + (* definition *)
      destruct (def_step a l be gmn fds devflag devs a1 Ea) as [Ea1 Eb].
      assert (Henv : ss_env a1 = (l, mk_sdef be gmn fds (dev_size (if devflag then devs else []))) :: ss_env a)
        by (rewrite Ea1; reflexivity).
      destruct Hrel as (He & Hr & Hm).
      cbn [strip_all]. rewrite <- Henv in Hnc |- *. destruct (known_msg gmn) eqn:Ek.
      * assert (Hrel1 : st_relk a1 (mk_sstate ((l, mk_sdef be gmn (keep_fds gmn fds) 0%nat) :: ss_env b)
                                      (ss_ref b) (ss_msgs b) (ss_unkm b) (ss_unkf b))).
        { rewrite Ea1. unfold st_relk. cbn [ss_env ss_ref ss_msgs]. split; [|auto].
          apply env_relk_cons_known. exact He. }
        destruct (IH a1 _ a' Hrel1 Hnc Hden) as (b' & Hb' & Hrel').
        exists b'. cbn [denote_from]. rewrite (Eb b).
        split; [exact Hb'|exact Hrel'].
      * assert (Hrel1 : st_relk a1 b).
        { rewrite Ea1. unfold st_relk. cbn [ss_env ss_ref ss_msgs]. split; [|auto].
          apply env_relk_cons_unknown; assumption. }
        destruct (IH a1 b a' Hrel1 Hnc Hden) as (b' & Hb' & Hrel').
        exists b'. split; [exact Hb'|exact Hrel'].
    + (* plain data record *)
      cbn [denote_record] in Ea. cbn [strip_all].
      destruct (lookup_def (ss_env a) l) as [d|] eqn:El.
      2:{ unfold denote_data in Ea. rewrite El in Ea. discriminate. }
      destruct (denote_data_lengths a l None pay dev d a1 El Ea) as [Ep Henv].
      pose proof Hrel as (He & Hr & Hm).
      rewrite <- Henv in Hnc |- *.
      destruct (known_msg (sd_gmn d)) eqn:Ek.
      * destruct (data_known_core a b l None pay dev d a1 El (He l d El Ek) Hr Hm Ek Ea)
          as (b1 & Eb & Henvb & Hr1 & Hm1).
        assert (Hrel1 : st_relk a1 b1) by (unfold st_relk; rewrite Henv, Henvb; auto).
        destruct (IH a1 b1 a' Hrel1 Hnc Hden) as (b' & Hb' & Hrel').
        exists b'. cbn [denote_from denote_record]. rewrite Eb.
        split; [exact Hb'|exact Hrel'].
      * assert (Hrel1 : st_relk a1 b).
        { rewrite (unknown_data_skipped a l pay dev d a1 El Ek Ea). unfold st_relk. cbn [ss_env ss_ref ss_msgs]. auto. }
        destruct (IH a1 b a' Hrel1 Hnc Hden) as (b' & Hb' & Hrel').
        exists b'. split; [exact Hb'|exact Hrel'].
    + (* compressed-timestamp data record: of a known message, as assumed *)
      cbn [denote_record] in Ea. cbn [strip_all].
      destruct (4 <=? l) eqn:E4; [discriminate|].
      destruct (lookup_def (ss_env a) l) as [d|] eqn:El.
      2:{ unfold denote_data in Ea. rewrite El in Ea. discriminate. }
      apply andb_prop in Hnc. destruct Hnc as [Ek Hnc].
      destruct (denote_data_lengths a l (Some off) pay dev d a1 El Ea) as [Ep Henv].
      pose proof Hrel as (He & Hr & Hm).
      rewrite <- Henv in Hnc |- *.
      destruct (data_known_core a b l (Some off) pay dev d a1 El (He l d El Ek) Hr Hm Ek Ea)
        as (b1 & Eb & Henvb & Hr1 & Hm1).
      assert (Hrel1 : st_relk a1 b1) by (unfold st_relk; rewrite Henv, Henvb; auto).
      destruct (IH a1 b1 a' Hrel1 Hnc Hden) as (b' & Hb' & Hrel').
      exists b'. cbn [denote_from denote_record]. rewrite E4, Eb.
      split; [exact Hb'|exact Hrel'].
Qed.

Theorem unknown_skipped_all : forall rs ss, no_unknown_comp [] rs = true -> denote rs = Some ss ->
  exists ss', denote (strip_all [] rs) = Some ss' /\ ss_msgs ss' = ss_msgs ss /\ ss_ref ss' = ss_ref ss.
Proof.
  intros rs ss Hnc Hden. unfold denote in *.
  destruct (strip_all_sim rs ss_init ss_init ss st_relk_init Hnc Hden) as (ss' & Hden' & (_ & Hr & Hm)).
  exists ss'. cbn [ss_init ss_env] in Hden'. split; [exact Hden'|]. split; symmetry; assumption.
Qed.

(* no definition of an unknown message is left (and everything [clean] says, which we do not repeat) *)
Definition known_def (r : record) : bool :=
  match r with RDef _ _ gmn _ _ _ => known_msg gmn | _ => true end.

Theorem strip_all_known_defs : forall rs env, forallb known_def (strip_all env rs) = true.
Proof.
  induction rs as [|r rs IH]; intros env; [reflexivity|].
  destruct r as [l be gmn fds devflag devs | l pay dev | l off pay dev]; cbn [strip_all].
  - destruct (known_msg gmn) eqn:Ek; [|apply IH]. cbn [forallb known_def]. rewrite Ek. apply IH.
  - destruct (lookup_def env l) as [d|]; [destruct (known_msg (sd_gmn d))|]; cbn [forallb known_def]; apply IH.
  - destruct (lookup_def env l) as [d|]; cbn [forallb known_def]; apply IH.
Qed.

Theorem strip_all_stream_wf : forall rs env, stream_wf rs = true -> stream_wf (strip_all env rs) = true.
Proof.
  unfold stream_wf. induction rs as [|r rs IH]; intros env H; [reflexivity|].
  cbn [forallb] in H. apply andb_prop in H. destruct H as [Hr H].
  destruct r as [l be gmn fds devflag devs | l pay dev | l off pay dev]; cbn [strip_all].
  - destruct (known_msg gmn); [|apply IH; exact H].
    cbn [forallb]. rewrite (rec_wf_def _ _ _ _ _ _ Hr). apply IH. exact H.
  - destruct (lookup_def env l) as [d|]; [destruct (known_msg (sd_gmn d))|]; cbn [forallb].
    + rewrite (rec_wf_data _ _ _ _ _ Hr). apply IH. exact H.
    + apply IH. exact H.
    + rewrite (rec_wf_data_nodev _ _ _ Hr). apply IH. exact H.
  - destruct (lookup_def env l) as [d|]; cbn [forallb].
    + rewrite (rec_wf_comp _ _ _ _ _ _ Hr). apply IH. exact H.
    + rewrite (rec_wf_comp_nodev _ _ _ _ Hr). apply IH. exact H.
Qed.

Theorem strip_all_starts_with_file_id : forall rs,
  starts_with_file_id rs = true -> starts_with_file_id (strip_all [] rs) = true.
Proof.
  intros rs Hs.
  destruct rs as [|[l be gmn fds devflag devs| |] [|[| l' pay dev |] rest]]; try discriminate.
  cbn [starts_with_file_id] in Hs. apply andb_prop in Hs. destruct Hs as [Eg El].
  apply N.eqb_eq in Eg, El. subst gmn l'.
  cbn [strip_all]. rewrite known_fileid, lookup_def_cons, N.eqb_refl. cbn [sd_gmn]. rewrite known_fileid.
  cbn [starts_with_file_id]. rewrite !N.eqb_refl. reflexivity.
Qed.

Theorem strip_all_in_domain : forall h g rs, no_unknown_comp [] rs = true ->
  in_domain h g rs -> in_domain h g (strip_all [] rs).
Proof.
  intros h g rs Hnc (Hs & Hwf & ss & f2 & g1 & Hden & Hst).
  pose proof Hden as Hden0. unfold denote in Hden0.
  destruct (strip_all_sim rs ss_init ss_init ss st_relk_init Hnc Hden0) as (ss' & Hden' & (_ & _ & Hm)).
  split; [exact (strip_all_starts_with_file_id rs Hs)|].
  split; [exact (strip_all_stream_wf rs [] Hwf)|].
  exists ss', f2, g1. split; [exact Hden'|]. rewrite <- Hm. exact Hst.
Qed.

Theorem unknown_skipped_all_decoder : forall o h g rs, no_unknown_comp [] rs = true -> in_domain h g rs ->
  decoded_file o h g (strip_all [] rs) = decoded_file o h g rs.
Proof.
  intros o h g rs Hnc D. pose proof (strip_all_in_domain h g rs Hnc D) as D'.
  pose proof D as (_ & _ & ss & _ & _ & Hden & _).
  destruct (unknown_skipped_all rs ss Hnc Hden) as (ss' & Hden' & Hm & _).
  exact (same_messages_same_file o h g (strip_all [] rs) rs ss' ss D' D Hden' Hden Hm).
Qed.

Print Assumptions unknown_skipped.
Print Assumptions unknown_skipped_decoder.
Print Assumptions strip_clean.
Print Assumptions unknown_skipped_all_decoder.
